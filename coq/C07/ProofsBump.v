(* C07: BumpAllocator / BumpArena - alignment of the address (not only the offset), bounds, disjointness. *)
From ZV.Common Require Import Base.
From ZV.C07 Require Import Model.
Open Scope N_scope.

Lemma align_up_ge x a : 0 < a -> x <= align_up x a.
Proof. intros Ha. unfold align_up. nia. Qed.
Lemma align_up_mod x a : 0 < a -> align_up x a mod a = 0.
Proof. intros Ha. unfold align_up. apply N.mod_mul. lia. Qed.
Lemma align_up_lt x a : 0 < a -> align_up x a < x + a.
Proof. intros Ha. unfold align_up. nia. Qed.

(* blocks in allocation order: each starts at or after the end of the previous one *)
Fixpoint ordered (lo : N) (l : list (N * N)) : Prop :=
  match l with [] => True | (o, sz) :: t => lo <= o /\ 0 < sz /\ ordered (o + sz) t end.
Fixpoint last_end (lo : N) (l : list (N * N)) : N :=
  match l with [] => lo | (o, sz) :: t => last_end (o + sz) t end.

Lemma ordered_app lo l o sz : ordered lo (l ++ [(o, sz)]) <-> ordered lo l /\ last_end lo l <= o /\ 0 < sz.
Proof.
  revert lo. induction l as [|[o0 s0] t IH]; intros lo; cbn [app ordered last_end].
  - tauto.
  - rewrite IH. tauto.
Qed.
Lemma last_end_app lo l o sz : last_end lo (l ++ [(o, sz)]) = o + sz.
Proof. revert lo. induction l as [|[o0 s0] t IH]; intros lo; cbn [app last_end]; auto. Qed.
Lemma ordered_weaken lo lo' l : lo' <= lo -> ordered lo l -> ordered lo' l.
Proof. destruct l as [|[o s] t]; cbn [ordered]; [auto|]. intuition lia. Qed.
Lemma ordered_lo_le_end lo l : ordered lo l -> lo <= last_end lo l.
Proof.
  revert lo. induction l as [|[o s] t IH]; intros lo H; cbn [ordered last_end] in *; [lia|].
  destruct H as (H1 & H2 & H3). specialize (IH _ H3). lia.
Qed.
Lemma ordered_nth_lo l : forall lo j o s, ordered lo l -> nth_error l j = Some (o, s) -> lo <= o /\ 0 < s /\ o + s <= last_end lo l.
Proof.
  induction l as [|[o0 s0] t IH]; intros lo [|j] o s H Hn; cbn [nth_error ordered last_end] in *; try discriminate.
  - inversion Hn; subst. destruct H as (H1 & H2 & H3). pose proof (ordered_lo_le_end _ _ H3). repeat split; assumption.
  - destruct H as (H1 & H2 & H3). destruct (IH _ j o s H3 Hn) as (A & B & C). repeat split; [lia|assumption|assumption].
Qed.
Lemma ordered_lt l : forall lo i j o1 s1 o2 s2, ordered lo l -> (i < j)%nat ->
  nth_error l i = Some (o1, s1) -> nth_error l j = Some (o2, s2) -> o1 + s1 <= o2.
Proof.
  induction l as [|[o0 s0] t IH]; intros lo [|i] [|j] o1 s1 o2 s2 H Hij H1 H2; cbn [nth_error ordered] in *; try discriminate; try lia.
  - inversion H1; subst. destruct H as (_ & _ & H3). destruct (ordered_nth_lo _ _ _ _ _ H3 H2) as (A & _). exact A.
  - destruct H as (_ & _ & H3). eapply (IH (o0 + s0) i j); [exact H3|lia|exact H1|exact H2].
Qed.
Lemma ordered_disjoint lo l : ordered lo l -> live_disjoint l.
Proof.
  intros H i j o1 r1 o2 r2 Hij H1 H2. unfold disjoint.
  destruct (Nat.lt_ge_cases i j) as [Hlt|Hge].
  - left. eapply ordered_lt; eauto.
  - right. eapply (ordered_lt l lo j i); eauto. lia.
Qed.

Record Binv (s : bstate) : Prop := {
  binv_ord : ordered 0 (blive s);
  binv_end : last_end 0 (blive s) <= bcur s;
  binv_cap : bcur s <= bcap s
}.

Lemma Binv_start cap base : Binv (bstart cap base).
Proof. constructor; cbn; [exact I|lia|lia]. Qed.

(* alloc_bytes in the fixed code: the address is aligned, the block lies above everything issued so far and
   inside the buffer *)
Lemma balloc_fixed_some s size align o s' :
  balloc Fixed s size align = (Some o, s') ->
  0 < size /\ 0 < align /\ (bbase s + o) mod align = 0 /\ bcur s <= o /\ o + size <= bcap s /\
  s' = mkB (bcap s) (bbase s) (o + size) (blive s ++ [(o, size)]).
Proof.
  unfold balloc.
  destruct (N.eqb_spec size 0) as [|Hs]; [intros HH; inversion HH|].
  destruct (N.eqb_spec align 0) as [->|Ha].
  { rewrite orb_true_r. intros HH; inversion HH. }
  rewrite orb_false_r. destruct (negb _); [intros HH; inversion HH|].
  destruct (N.leb_spec W64 (bbase s + bcur s + (align - 1))); [intros HH; inversion HH|].
  set (al := align_up (bbase s + bcur s) align).
  assert (Hge : bbase s + bcur s <= al) by (apply align_up_ge; lia).
  assert (Hmod : al mod align = 0) by (apply align_up_mod; lia).
  destruct (N.leb_spec W64 (al - bbase s + size)); [intros HH; inversion HH|].
  destruct (N.ltb_spec (bcap s) (al - bbase s + size)); cbn [orb]; intros HH; inversion HH; subst.
  replace (bbase s + (al - bbase s)) with al by lia.
  repeat split; try lia; auto.
Qed.
Lemma balloc_none v s size align s' : balloc v s size align = (None, s') -> s' = s.
Proof.
  unfold balloc. destruct (size =? 0); [intros H; inversion H; reflexivity|].
  destruct (_ || _); [intros H; inversion H; reflexivity|].
  destruct (W64 <=? _); [intros H; inversion H; reflexivity|].
  destruct (_ || _); intros H; inversion H; reflexivity.
Qed.

Lemma balloc_inv s size align r s' : Binv s -> balloc Fixed s size align = (r, s') -> Binv s'.
Proof.
  intros [Ho He Hc] H. destruct r as [o|].
  - apply balloc_fixed_some in H as (Hs & Ha & _ & Hcur & Hend & ->).
    constructor; cbn [blive bcur bcap].
    + apply ordered_app. repeat split; [assumption|lia|assumption].
    + rewrite last_end_app. lia.
    + exact Hend.
  - apply balloc_none in H. subst. constructor; assumption.
Qed.

Lemma ballocs_inv : forall l s, Binv s -> Binv (fst (ballocs Fixed s l)).
Proof.
  induction l as [|[size align] t IH]; intros s HI; cbn [ballocs]; [exact HI|].
  destruct (balloc Fixed s size align) as [r s1] eqn:Hb.
  pose proof (balloc_inv _ _ _ _ _ HI Hb) as HI1. specialize (IH s1 HI1).
  destruct (ballocs Fixed s1 t) as [s2 rs]. exact IH.
Qed.

Lemma bstep_inv s o : Binv s -> Binv (fst (bstep Fixed s o)).
Proof.
  intros HI. destruct o as [size align|inner]; cbn [bstep].
  - apply ballocs_inv. exact HI.
  - destruct (ballocs Fixed s inner) as [s1 rs]. cbn [fst]. destruct HI. constructor; assumption.
Qed.
Lemma brun_inv : forall ops s, Binv s -> Binv (fst (brun Fixed s ops)).
Proof.
  induction ops as [|o t IH]; intros s HI; cbn [brun]; [exact HI|].
  pose proof (bstep_inv s o HI) as H1. destruct (bstep Fixed s o) as [s1 r]. cbn [fst] in H1.
  specialize (IH s1 H1). destruct (brun Fixed s1 t) as [s2 rs]. exact IH.
Qed.

Lemma Binv_props s : Binv s ->
  live_disjoint (blive s) /\ forall o sz, In (o, sz) (blive s) -> 0 < sz /\ o + sz <= bcap s.
Proof.
  intros [Ho He Hc]. split; [eapply ordered_disjoint; eauto|].
  intros o sz Hin. apply In_nth_error in Hin as [j Hj].
  destruct (ordered_nth_lo _ _ _ _ _ Ho Hj) as (_ & A & B). lia.
Qed.

Lemma ballocs_cap : forall l s, bcap (fst (ballocs Fixed s l)) = bcap s.
Proof.
  induction l as [|[a b] t IH]; intros s; cbn [ballocs]; [reflexivity|].
  destruct (balloc Fixed s a b) as [r s1] eqn:Hb. specialize (IH s1).
  destruct (ballocs Fixed s1 t) as [s2 rs]. cbn [fst] in *. rewrite IH.
  destruct r as [o|].
  - apply balloc_fixed_some in Hb as (_ & _ & _ & _ & _ & ->). reflexivity.
  - apply balloc_none in Hb. subst. reflexivity.
Qed.
Lemma brun_cap : forall ops s, bcap (fst (brun Fixed s ops)) = bcap s.
Proof.
  induction ops as [|o t IH]; intros s; cbn [brun]; [reflexivity|].
  assert (E : bcap (fst (bstep Fixed s o)) = bcap s).
  { destruct o as [size align|inner]; cbn [bstep]; [apply ballocs_cap|].
    destruct (ballocs Fixed s inner); reflexivity. }
  destruct (bstep Fixed s o) as [s1 r]. cbn [fst] in E. specialize (IH s1).
  destruct (brun Fixed s1 t) as [s2 rs]. cbn [fst] in *. congruence.
Qed.

Lemma bump_live_disjoint_within_proof cap base ops inner :
  let s := fst (ballocs Fixed (fst (brun Fixed (bstart cap base) ops)) inner) in
  live_disjoint (blive s) /\ forall o sz, In (o, sz) (blive s) -> 0 < sz /\ o + sz <= cap.
Proof.
  intros s.
  assert (HI : Binv s) by (apply ballocs_inv, brun_inv, Binv_start).
  assert (E : bcap s = cap) by (subst s; rewrite ballocs_cap, brun_cap; reflexivity).
  destruct (Binv_props s HI) as [H1 H2]. split; [exact H1|]. intros o sz Hin. rewrite <- E. auto.
Qed.

Lemma bump_refuses_proof v s size align : bcap s < size -> balloc v s size align = (None, s).
Proof.
  intros Hbig. unfold balloc. destruct (size =? 0); [reflexivity|].
  destruct (_ || _); [reflexivity|]. destruct (W64 <=? _); [reflexivity|].
  match goal with |- (if ?c then _ else _) = _ => destruct c eqn:E end; [reflexivity|].
  apply orb_false_iff in E as [_ E]. apply N.ltb_ge in E. lia.
Qed.

(* the pinned code aligns the offset only: with an 8-aligned buffer a 16-byte alignment request is not met *)
Lemma bump_align_refuted_proof :
  exists base size align o s', base mod 8 = 0 /\
    balloc Pinned (bstart 100 base) size align = (Some o, s') /\ (base + o) mod align <> 0.
Proof. exists 8, 1, 16, 0. eexists. split; [reflexivity|]. split; [vm_compute; reflexivity|]. vm_compute. discriminate. Qed.

Example bump_fixed_example :
  snd (brun Fixed (bstart 100 8) [BAlloc 1 16; BScope [(10, 32); (200, 1)]; BAlloc 3 4]) =
  [Some 8%Z; Some 24%Z; None; Some 12%Z].
Proof. vm_compute. reflexivity. Qed.
