(* C07, MemoryPool (pool.rs): over every history of allocate / deallocate the live chunks and the queued chunks are
   pairwise distinct and the queue never exceeds max_chunks. *)
From ZV.Common Require Import Base.
From ZV.C07 Require Import Model ModelTiered ProofsArith ProofsIntervals.
Open Scope N_scope.

Definition unit_iv (l : list (nat * N)) : list (N * N) := map (fun ch : nat * N => (snd ch, 1)) l.
Lemma unit_iv_app l1 l2 : unit_iv (l1 ++ l2) = unit_iv l1 ++ unit_iv l2.
Proof. apply map_app. Qed.

Record InvM (s : mstate) : Prop := {
  im_lb : Forall (below (ms_next s)) (unit_iv (ms_live s));
  im_qb : Forall (below (ms_next s)) (unit_iv (mp_q (ms_p s)));
  im_cov : forall x, cov (unit_iv (ms_live s)) x + cov (unit_iv (mp_q (ms_p s))) x <= 1;
  im_len : nlen (mp_q (ms_p s)) <= mp_max (ms_p s)
}.
Lemma InvM_start max : InvM (m_start max).
Proof. constructor; cbn; try constructor; try lia; intros; lia. Qed.

Lemma m_step_inv s o : InvM s -> InvM (fst (m_step s o)) /\ mp_max (ms_p (fst (m_step s o))) = mp_max (ms_p s).
Proof.
  intros [Hlb Hqb Hcov Hlen]. destruct o as [|k]; cbn [m_step].
  - unfold mp_alloc. destruct (mp_q (ms_p s)) as [|ch t] eqn:Eq; cbn [fst ms_p ms_live ms_next mp_q mp_max].
    + split; [|reflexivity]. constructor; cbn [ms_p ms_live ms_next mp_q mp_max].
      * rewrite unit_iv_app. apply Forall_app. split.
        -- eapply Forall_below_mono; [|exact Hlb]. lia.
        -- cbn. constructor; [|constructor]. unfold below. cbn. lia.
      * rewrite ?Eq. constructor.
      * intros x. rewrite unit_iv_app, cov_app, ?Eq. cbn [unit_iv map cov snd].
        destruct (N.lt_ge_cases x (ms_next s)) as [Hlt|Hge].
        -- rewrite inb_0_below by exact Hlt. specialize (Hcov x). try rewrite Eq in Hcov. cbn in Hcov. lia.
        -- rewrite (cov_above _ _ x Hlb Hge). pose proof (inb_01 (ms_next s) 1 x). lia.
      * rewrite ?Eq. cbn [nlen]. lia.
    + split; [|reflexivity]. cbn [unit_iv map] in Hqb. inversion Hqb as [|? ? Hb Hqb']; subst. unfold below in Hb. cbn [fst snd] in Hb.
      cbn [nlen] in Hlen.
      constructor; cbn [ms_p ms_live ms_next mp_q mp_max].
      * rewrite unit_iv_app. apply Forall_app. split; [exact Hlb|]. cbn. constructor; [|constructor]. unfold below. cbn. lia.
      * exact Hqb'.
      * intros x. rewrite unit_iv_app, cov_app. cbn [unit_iv map cov snd]. specialize (Hcov x). cbn [unit_iv map cov snd] in Hcov. fold (unit_iv t) in *. lia.
      * lia.
  - destruct (ms_live s) as [|e t] eqn:Hl; [cbn [fst]; split; [constructor; rewrite ?Hl; assumption|reflexivity]|]. rewrite <- Hl in Hlb, Hcov |- *.
    set (i := N.to_nat (k mod nlen (ms_live s))).
    assert (Hi : (i < length (ms_live s))%nat).
    { subst i. rewrite nlen_length. assert (0 < length (ms_live s))%nat by (rewrite Hl; cbn; lia). lia. }
    destruct (nth_split_remove (O, 0) (ms_live s) i Hi) as (l1 & l2 & E1 & E2 & _).
    set (ch := nth i (ms_live s) (O, 0)) in *. rewrite E2.
    rewrite E1 in Hlb, Hcov. rewrite unit_iv_app in Hlb. cbn [unit_iv map] in Hlb. fold (unit_iv l2) in Hlb.
    apply Forall_app in Hlb as [Hlb1 Hlb2]. inversion Hlb2 as [|? ? Hbe Hlb2']; subst.
    assert (Hcov' : forall x, cov (unit_iv l1) x + (inb (snd ch) 1 x + cov (unit_iv l2) x) + cov (unit_iv (mp_q (ms_p s))) x <= 1).
    { intros x. specialize (Hcov x). rewrite unit_iv_app, cov_app in Hcov. cbn [unit_iv map cov] in Hcov. exact Hcov. }
    unfold mp_free. destruct (N.ltb_spec (nlen (mp_q (ms_p s))) (mp_max (ms_p s))) as [Hroom|Hfull]; cbn [fst ms_p mp_max]; (split; [|reflexivity]).
    + constructor; cbn [ms_p ms_live ms_next mp_q mp_max].
      * rewrite unit_iv_app. apply Forall_app. split; assumption.
      * rewrite unit_iv_app. apply Forall_app. split; [exact Hqb|]. cbn. constructor; [|constructor]. exact Hbe.
      * intros x. rewrite !unit_iv_app, !cov_app. cbn [unit_iv map cov]. specialize (Hcov' x). lia.
      * rewrite nlen_app. cbn [nlen]. lia.
    + constructor; cbn [ms_p ms_live ms_next]; try assumption.
      * rewrite unit_iv_app. apply Forall_app. split; assumption.
      * intros x. rewrite unit_iv_app, cov_app. specialize (Hcov' x). lia.
Qed.
Lemma m_run_inv : forall ops s, InvM s -> InvM (fst (m_run s ops)) /\ mp_max (ms_p (fst (m_run s ops))) = mp_max (ms_p s).
Proof.
  induction ops as [|o t IH]; intros s HI; cbn [m_run]; [cbn; auto|].
  destruct (m_step_inv s o HI) as [H1 M1]. destruct (m_step s o) as [s1 r]. cbn [fst] in *.
  destruct (IH s1 H1) as [H2 M2]. destruct (m_run s1 t) as [s2 rs]. cbn [fst] in *. split; [exact H2|congruence].
Qed.

Lemma mempool_inv_proof max ops :
  let s := m_final max ops in
  (forall i j c1 c2, i <> j -> nth_error (ms_live s) i = Some c1 -> nth_error (ms_live s) j = Some c2 -> snd c1 <> snd c2) /\
  (forall i j c1 c2, i <> j -> nth_error (mp_q (ms_p s)) i = Some c1 -> nth_error (mp_q (ms_p s)) j = Some c2 -> snd c1 <> snd c2) /\
  (forall c1 c2, In c1 (ms_live s) -> In c2 (mp_q (ms_p s)) -> snd c1 <> snd c2) /\
  nlen (mp_q (ms_p s)) <= max.
Proof.
  intros s. destruct (m_run_inv ops (m_start max) (InvM_start max)) as [[Hlb Hqb Hcov Hlen] Hmax].
  fold (m_final max ops) in *. fold s in Hlb, Hqb, Hcov, Hlen, Hmax. cbn in Hmax.
  assert (Hn : forall l i (c : nat * N), nth_error l i = Some c -> nth_error (unit_iv l) i = Some (snd c, 1)).
  { intros l i c H. unfold unit_iv. rewrite nth_error_map, H. reflexivity. }
  repeat split.
  - intros i j c1 c2 Hij H1 H2 E.
    pose proof (cov_two _ i j _ _ _ _ (snd c1) Hij (Hn _ _ _ H1) (Hn _ _ _ H2)) as Htwo. rewrite <- E in Htwo.
    rewrite (inb_1 (snd c1) 1 (snd c1)) in Htwo by lia. specialize (Hcov (snd c1)). lia.
  - intros i j c1 c2 Hij H1 H2 E.
    pose proof (cov_two _ i j _ _ _ _ (snd c1) Hij (Hn _ _ _ H1) (Hn _ _ _ H2)) as Htwo. rewrite <- E in Htwo.
    rewrite (inb_1 (snd c1) 1 (snd c1)) in Htwo by lia. specialize (Hcov (snd c1)). lia.
  - intros c1 c2 H1 H2 E. destruct (In_nth_error _ _ H1) as [i Hi]. destruct (In_nth_error _ _ H2) as [j Hj].
    pose proof (cov_one _ i _ _ (snd c1) (Hn _ _ _ Hi)) as O1. pose proof (cov_one _ j _ _ (snd c1) (Hn _ _ _ Hj)) as O2.
    rewrite <- E in O2. rewrite (inb_1 (snd c1) 1 (snd c1)) in O1, O2 by lia. specialize (Hcov (snd c1)). lia.
  - lia.
Qed.

Example mempool_history_example :
  m_final 1 [MAl; MAl; MAl; MFr 0; MFr 0; MAl] = mkMS (mkMP 1 []) 3 [(0%nat, 2); (0%nat, 0)].
Proof. vm_compute. reflexivity. Qed.
