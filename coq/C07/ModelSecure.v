(* C07 mechanism model of the chunk bookkeeping of SecureMemoryPool (src/memory/secure_pool.rs), sequential
   semantics on one thread: allocate_with_hint (thread-local LocalCache first, then the shared Treiber stack, then a
   new SecureChunk with the next generation), deallocate_internal (active_allocations lookup with generation check =
   double-free detection, LocalCache::try_push bounded by local_cache_size, spill to the shared stack), the
   active_allocations table (address -> generation).
   A chunk is (serial number, generation): the serial number stands for its data address (chunks are only released
   by clear() / Drop), the generation is the value of next_generation (AtomicU32, wrapping) when it was created and
   never changes.  LocalCache.chunks (Vec, push / pop at the end) and the shared stack are lists, top first.
   chunk.validate() (header / footer canaries) always succeeds here: the client does not write outside its blocks.
   The configuration fields max_chunks and batch_size are not used by the code (no capacity limit, no batch refill),
   so they do not appear.

   Definitions only - no proofs in this file. *)
From ZV.Common Require Import Base Run.
From ZV.C07 Require Import Model.
Open Scope N_scope.

Notation schunk := (N * N)%type (only parsing).          (* serial (address), generation *)

Fixpoint act_lookup (id : N) (a : list schunk) : option N :=
  match a with [] => None | (i, g) :: t => if i =? id then Some g else act_lookup id t end.
Fixpoint act_remove (id : N) (a : list schunk) : list schunk :=
  match a with [] => [] | (i, g) :: t => if i =? id then act_remove id t else (i, g) :: act_remove id t end.
(* DashMap::insert(address, (generation, now)) *)
Definition act_insert (ch : schunk) (a : list schunk) : list schunk := ch :: act_remove (fst ch) a.

Record sst := mkSS { sc_cache : list schunk; sc_stack : list schunk; sc_gen : N; sc_n : N; sc_active : list schunk }.
Definition s_init : sst := mkSS [] [] 1 0 [].

(* allocate_with_hint *)
Definition s_alloc (st : sst) : schunk * sst :=
  match sc_cache st with
  | ch :: t => (ch, mkSS t (sc_stack st) (sc_gen st) (sc_n st) (act_insert ch (sc_active st)))
  | [] =>
      match sc_stack st with
      | ch :: t => (ch, mkSS [] t (sc_gen st) (sc_n st) (act_insert ch (sc_active st)))
      | [] => let ch := (sc_n st, sc_gen st) in
              (ch, mkSS [] [] ((sc_gen st + 1) mod W32) (sc_n st + 1) (act_insert ch (sc_active st)))
      end
  end.

(* deallocate_internal(chunk); false = Err (double free detected: the chunk is neither cached nor stacked) *)
Definition s_free (lcache : N) (st : sst) (ch : schunk) : bool * sst :=
  match act_lookup (fst ch) (sc_active st) with
  | Some g =>
      let act' := act_remove (fst ch) (sc_active st) in
      if g =? snd ch then
        if nlen (sc_cache st) <? lcache
        then (true, mkSS (ch :: sc_cache st) (sc_stack st) (sc_gen st) (sc_n st) act')
        else (true, mkSS (sc_cache st) (ch :: sc_stack st) (sc_gen st) (sc_n st) act')
      else (false, mkSS (sc_cache st) (sc_stack st) (sc_gen st) (sc_n st) act')
  | None => (false, st)
  end.

(* how often serial x occurs in a list of chunks *)
Fixpoint occ (x : N) (l : list schunk) : N :=
  match l with [] => 0 | ch :: t => (if fst ch =? x then 1 else 0) + occ x t end.

(* SDbl: deallocate_internal once more on (a copy of the record of) the chunk given back by the most recent guard
   drop, provided it has not been handed out again - a double free.  Clients cannot do this (the RAII guard owns the
   chunk); the harness does it through the cfg(zipora_verif) hook. *)
Inductive sop := SAl | SFr (k : N) | SDbl.
Record sstate := mkSSt { ss_p : sst; ss_live : list schunk; ss_last : option schunk }.

(* observation after every operation: the result (allocation: serial, generation; guard drop: 0 / None when
   deallocate_internal reported an error; double free: 0 when accepted / None when reported), then the whole
   bookkeeping state read through the inspectors: local cache (length, serials top first), shared stack (length,
   serials top first), size of the active table *)
Definition dump (st : sst) : list (option Z) :=
  [Some (Z.of_N (nlen (sc_cache st)))] ++ map (fun ch : schunk => Some (Z.of_N (fst ch))) (sc_cache st) ++
  [Some (Z.of_N (nlen (sc_stack st)))] ++ map (fun ch : schunk => Some (Z.of_N (fst ch))) (sc_stack st) ++
  [Some (Z.of_N (nlen (sc_active st)))].

Definition s_step (lcache : N) (s : sstate) (o : sop) : sstate * list (option Z) :=
  match o with
  | SAl => let '(ch, p') := s_alloc (ss_p s) in
           (mkSSt p' (ss_live s ++ [ch]) (ss_last s), [Some (Z.of_N (fst ch)); Some (Z.of_N (snd ch))] ++ dump p')
  | SFr k =>
      match ss_live s with
      | [] => (s, [])
      | _ =>
          let i := N.to_nat (k mod nlen (ss_live s)) in
          let ch := nth i (ss_live s) (0, 0) in
          let '(ok, p') := s_free lcache (ss_p s) ch in
          (mkSSt p' (remove_nth i (ss_live s)) (Some ch), (if ok then Some 0%Z else None) :: dump p')
      end
  | SDbl =>
      match ss_last s with
      | Some ch =>
          if occ (fst ch) (ss_live s) =? 0 then
            let '(ok, p') := s_free lcache (ss_p s) ch in
            (mkSSt p' (ss_live s) None, (if ok then Some 0%Z else None) :: dump p')
          else (s, [])
      | None => (s, [])
      end
  end.
Fixpoint s_run (lcache : N) (s : sstate) (ops : list sop) : sstate * list (option Z) :=
  match ops with
  | [] => (s, [])
  | o :: t => let '(s1, r) := s_step lcache s o in
              let '(s2, rs) := s_run lcache s1 t in (s2, r ++ rs)
  end.
Definition s_start : sstate := mkSSt s_init [] None.
Definition s_final (lcache : N) (ops : list sop) : sstate := fst (s_run lcache s_start ops).
Definition s_observe (lcache : N) (ops : list sop) : list (option Z) := snd (s_run lcache s_start ops).

