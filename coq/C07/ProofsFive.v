(* C07, five-level pools: the invariant over every history of alloc / free, for every configuration the (fixed)
   constructors accept and every member of the family. *)
From ZV.Common Require Import Base.
From ZV.C07 Require Import Model ModelFive ProofsArith ProofsIntervals ProofsFiveArith.
Open Scope N_scope.

(* ---------- what an accepted configuration gives ---------- *)
Record cfg_ok (c : fcfg) : Prop := {
  ok_al : 4 <= f_al c;
  ok_cap : f_cap c <= U32MAX;
  ok_rup : forall s, align_up5 (f_al c) s = rup (f_al c) s;
  ok_pow : exists k, f_al c = 2 ^ k
}.
Lemma new_ok5_cfg_ok c : new_ok5 Fixed c = true -> cfg_ok c.
Proof.
  unfold new_ok5. intros H. apply andb_true_iff in H as [H H3]. apply andb_true_iff in H as [H1 _].
  apply andb_true_iff in H3 as [H3 H4]. apply N.leb_le in H3. apply N.leb_le in H4.
  constructor; [exact H3|exact H4| |].
  - intros s. apply pow2b_align. exact H1.
  - apply pow2b_spec in H1 as [_ H]. exact H.
Qed.

Lemma cap5_props c r : cfg_ok c ->
  r <= cap5 c r /\ cap5 c r < r + f_al c /\ cap5 c r mod f_al c = 0 /\ cap5 c (cap5 c r) = cap5 c r /\
  (0 < r -> f_al c <= cap5 c r).
Proof.
  intros [H4 _ Hr _]. unfold cap5. rewrite !Hr. assert (H0 : 0 < f_al c) by lia.
  repeat split; [apply rup_ge|apply rup_lt|apply rup_mod|apply rup_idem|intros; apply rup_pos]; assumption.
Qed.

(* ---------- intervals of the live list and of the free lists ---------- *)
Definition ivl (c : fcfg) (l : list (N * N)) : list (N * N) := map (fun e => (fst e, cap5 c (snd e))) l.
Definition ivf (c : fcfg) (l : list (N * N)) : list (N * N) := map (fun e => (snd e, class5 c (fst e))) l.
Definition liveok5 (c : fcfg) (e : N * N) : Prop := 0 < snd e /\ snd e < W63 /\ fst e mod f_al c = 0.
Definition flok5 (c : fcfg) (e : N * N) : Prop := fst e < nbins5 c /\ snd e mod f_al c = 0.

Lemma ivl_app c l1 l2 : ivl c (l1 ++ l2) = ivl c l1 ++ ivl c l2.
Proof. apply map_app. Qed.
Lemma ivf_app c l1 l2 : ivf c (l1 ++ l2) = ivf c l1 ++ ivf c l2.
Proof. apply map_app. Qed.
Lemma ivf_cons c b o l : ivf c ((b, o) :: l) = (o, class5 c b) :: ivf c l.
Proof. reflexivity. Qed.
Lemma ivl_cons c o r l : ivl c ((o, r) :: l) = (o, cap5 c r) :: ivl c l.
Proof. reflexivity. Qed.
Lemma ivl_pos c l : cfg_ok c -> Forall (liveok5 c) l -> Forall ipos (ivl c l).
Proof.
  intros Hc H. unfold ivl. apply Forall_map. eapply Forall_impl; [|exact H].
  intros [o r] (P & _). unfold ipos. cbn [fst snd] in *. pose proof (cap5_props c r Hc). lia.
Qed.
Lemma ivf_pos c l : cfg_ok c -> Forall ipos (ivf c l).
Proof.
  intros [H4 _ _ _]. unfold ivf. apply Forall_map. apply Forall_forall. intros [b o] _. unfold ipos, class5. cbn [fst snd]. nia.
Qed.

Record Inv5 (c : fcfg) (s : st5) : Prop := {
  i5_top : top5 (p5 s) <= f_cap c /\ top5 (p5 s) mod f_al c = 0;
  i5_live : Forall (liveok5 c) (live5 s);
  i5_fl : Forall (flok5 c) (fl5 (p5 s));
  i5_lb : Forall (below (top5 (p5 s))) (ivl c (live5 s));
  i5_fb : Forall (below (top5 (p5 s))) (ivf c (fl5 (p5 s)));
  i5_cov : forall x, cov (ivl c (live5 s)) x + cov (ivf c (fl5 (p5 s))) x <= 1;
  i5_sum : tot (ivl c (live5 s)) + tot (ivf c (fl5 (p5 s))) <= top5 (p5 s);
  i5_used : has_merge (f_kind c) = true -> used5 (p5 s) = tot (ivl c (live5 s));
  i5_frag : tot (ivf c (fl5 (p5 s))) <= frag5 (p5 s)
}.

Lemma Inv5_start c : cfg_ok c -> Inv5 c start5.
Proof.
  intros [H4 _ _ _]. constructor; cbn; try constructor; try lia.
  all: try (apply N.mod_0_l; lia).
Qed.

(* ---------- pop ---------- *)
Lemma pop5_split b : forall l o rest, pop5 b l = Some (o, rest) ->
  exists l1 l2, l = l1 ++ (b, o) :: l2 /\ rest = l1 ++ l2.
Proof.
  induction l as [|[b' o'] t IH]; intros o rest H; cbn [pop5] in H; [discriminate|].
  destruct (N.eqb_spec b' b) as [->|Hne].
  - inversion H; subst. exists [], rest. auto.
  - destruct (pop5 b t) as [[o2 t2]|] eqn:E; [|discriminate]. inversion H; subst.
    destruct (IH _ _ eq_refl) as (l1 & l2 & -> & ->). exists ((b', o') :: l1), l2. auto.
Qed.
Lemma pop5_none_notin b : forall l, pop5 b l = None -> forall o, ~ In (b, o) l.
Proof.
  induction l as [|[b' o'] t IH]; intros H o Hin; [destruct Hin|]. cbn [pop5] in H.
  destruct (N.eqb_spec b' b) as [->|Hne]; [discriminate|].
  destruct (pop5 b t) as [[o2 t2]|] eqn:E; [discriminate|].
  destruct Hin as [E1|Hin]; [inversion E1; subst; congruence|]. eapply IH; eauto.
Qed.
Lemma pop5_head b o l : pop5 b ((b, o) :: l) = Some (o, l).
Proof. cbn [pop5]. rewrite N.eqb_refl. reflexivity. Qed.

(* ---------- the cases of alloc and free ---------- *)
Definition alloc_pop (c : fcfg) (p : fst5) (a : N) (r : option N) (p' : fst5) : Prop :=
  exists o rest, a <= f_fast c /\ pop5 (bin5 c a) (fl5 p) = Some (o, rest) /\ r = Some o /\
    p' = mk5 (top5 p) rest (addu (f_kind c) (used5 p) a) (frag5 p - a).
Definition alloc_bump (c : fcfg) (p : fst5) (a : N) (r : option N) (p' : fst5) : Prop :=
  top5 p + a <= f_cap c /\ r = Some (top5 p) /\
  (a <= f_fast c -> pop5 (bin5 c a) (fl5 p) = None) /\
  p' = mk5 (top5 p + a) (fl5 p) (addu (f_kind c) (used5 p) a) (frag5 p).

Lemma alloc_end5_cases c p a r p' : alloc_end5 Fixed c p a = (r, p') ->
  (r = None /\ p' = p /\ f_cap c < top5 p + a) \/
  (top5 p + a <= f_cap c /\ r = Some (top5 p) /\ p' = mk5 (top5 p + a) (fl5 p) (addu (f_kind c) (used5 p) a) (frag5 p)).
Proof.
  unfold alloc_end5. destruct (N.leb_spec (top5 p + a) (f_cap c)) as [Hle|Hgt]; intros H; inversion H; subst; cbn [mem_offset]; auto.
Qed.

Lemma alloc_inner5_cases c p size r p' : cfg_ok c ->
  alloc_inner5 Fixed c p size = (r, p') ->
  (r = None /\ p' = p) \/
  (0 < size /\ size < W63 /\ (alloc_pop c p (cap5 c size) r p' \/ alloc_bump c p (cap5 c size) r p')).
Proof.
  intros Hc. unfold alloc_inner5.
  destruct (N.eqb_spec size 0) as [->|Hnz]; [cbn [orb]; intros H; inversion H; auto|].
  destruct (N.leb_spec W63 size) as [Hov|Hnov]; [cbn [orb]; intros H; inversion H; auto|]. cbn [orb].
  fold (cap5 c size). set (a := cap5 c size).
  pose proof (cap5_props c size Hc) as (A1 & A2 & A3 & A4 & A5). fold a in A1, A2, A3, A4, A5.
  assert (H0 : 0 < f_al c) by (destruct Hc; lia).
  destruct (N.leb_spec a (f_fast c)) as [Hf|Hl].
  - unfold alloc_fast5.
    assert (Hb : bin5 c a < nbins5 c) by (apply bin5_in_range; try assumption; apply A5; lia).
    apply N.ltb_lt in Hb. rewrite Hb.
    destruct (pop5 (bin5 c a) (fl5 p)) as [[o rest]|] eqn:Ep.
    + intros H; inversion H; subst. right. repeat split; try lia. left. exists o, rest. auto.
    + intros H. apply alloc_end5_cases in H as [(-> & -> & _)|(H1 & -> & ->)]; [auto|].
      right. repeat split; try lia. right. unfold alloc_bump. auto.
  - intros H. apply alloc_end5_cases in H as [(-> & -> & _)|(H1 & -> & ->)]; [auto|].
    right. repeat split; try lia. right. unfold alloc_bump. repeat split; auto. intros; lia.
Qed.

(* the FixedCapacityPool front end passes the aligned size on: aligning it again changes nothing *)
Lemma alloc5_cases c p size r p' : cfg_ok c ->
  alloc5 Fixed c p size = (r, p') ->
  (r = None /\ p' = p) \/
  (0 < size /\ size < W63 /\ (alloc_pop c p (cap5 c size) r p' \/ alloc_bump c p (cap5 c size) r p')).
Proof.
  intros Hc. unfold alloc5. destruct (f_kind c) eqn:Ek; try apply alloc_inner5_cases; try assumption.
  destruct (N.eqb_spec size 0) as [->|Hnz]; [cbn [orb]; intros H; inversion H; auto|].
  destruct (N.leb_spec W63 size) as [Hov|Hnov]; [cbn [orb]; intros H; inversion H; auto|]. cbn [orb].
  fold (cap5 c size).
  destruct (f_cap c <? N.min (used5 p + cap5 c size) (W64 - 1)); [intros H; inversion H; auto|].
  intros H. apply alloc_inner5_cases in H; [|assumption].
  pose proof (cap5_props c size Hc) as (A1 & A2 & A3 & A4 & A5). rewrite A4 in H.
  destruct H as [H|(_ & _ & H)]; [auto|]. right. repeat split; try lia. exact H.
Qed.

Lemma free5_cases c p off size : cfg_ok c -> 0 < size -> size < W63 ->
  let a := cap5 c size in
  exists p', free5 c p off size = (true, p') /\
   ((has_merge (f_kind c) = true /\ off + a = top5 p /\ p' = mk5 off (fl5 p) (used5 p - a) (frag5 p)) \/
    (~ (has_merge (f_kind c) = true /\ off + a = top5 p) /\ a <= f_fast c /\ bin5 c a < nbins5 c /\
       p' = mk5 (top5 p) ((bin5 c a, off) :: fl5 p) (subu (f_kind c) (used5 p) a) (frag5 p + a)) \/
    (~ (has_merge (f_kind c) = true /\ off + a = top5 p) /\ f_fast c < a /\
       p' = mk5 (top5 p) (fl5 p) (subu (f_kind c) (used5 p) a) (frag5 p + a))).
Proof.
  intros Hc Hs Hs63 a. unfold free5.
  destruct (N.eqb_spec size 0) as [E|_]; [lia|]. destruct (N.leb_spec W63 size) as [E|_]; [lia|]. cbn [orb].
  fold (cap5 c size). fold a.
  pose proof (cap5_props c size Hc) as (A1 & A2 & A3 & A4 & A5). fold a in A1, A2, A3, A4, A5.
  assert (H0 : 0 < f_al c) by (destruct Hc; lia).
  destruct (has_merge (f_kind c)) eqn:Em; cbn [andb].
  - destruct (N.eqb_spec (off + a) (top5 p)) as [Et|Ent].
    + eexists. split; [reflexivity|]. left. auto.
    + destruct (N.leb_spec a (f_fast c)) as [Hf|Hl].
      * assert (Hb : bin5 c a < nbins5 c) by (apply bin5_in_range; try assumption; apply A5; lia).
        pose proof Hb as Hb'. apply N.ltb_lt in Hb'. rewrite Hb'.
        eexists. split; [reflexivity|]. right. left. repeat split; auto. intros [_ ?]. contradiction.
      * eexists. split; [reflexivity|]. right. right. repeat split; auto. intros [_ ?]. contradiction.
  - destruct (N.leb_spec a (f_fast c)) as [Hf|Hl].
    * assert (Hb : bin5 c a < nbins5 c) by (apply bin5_in_range; try assumption; apply A5; lia).
      pose proof Hb as Hb'. apply N.ltb_lt in Hb'. rewrite Hb'.
      eexists. split; [reflexivity|]. right. left. repeat split; auto. intros [? _]. discriminate.
    * eexists. split; [reflexivity|]. right. right. repeat split; auto. intros [? _]. discriminate.
Qed.

(* ---------- allocate keeps the invariant ---------- *)
Lemma alloc5_inv c s size r p' : cfg_ok c -> Inv5 c s -> alloc5 Fixed c (p5 s) size = (r, p') ->
  match r with
  | Some off => Inv5 c (mkS5 p' (live5 s ++ [(off, size)]))
  | None => p' = p5 s
  end.
Proof.
  intros Hc HI Ha. apply alloc5_cases in Ha; [|assumption].
  destruct Ha as [(-> & ->)|(Hs & Hs63 & Ha)]; [reflexivity|].
  destruct HI as [[Ht1 Ht2] Hlive Hfl Hlb Hfb Hcov Hsum Hused Hfrag].
  pose proof (cap5_props c size Hc) as (A1 & A2 & A3 & A4 & A5). specialize (A5 Hs).
  assert (H0 : 0 < f_al c) by (destruct Hc; lia).
  set (a := cap5 c size) in *.
  destruct Ha as [(o & rest & Hf & Hpop & -> & ->)|(Hfit & -> & _ & ->)].
  - (* a block of the bin is handed out again *)
    destruct (pop5_split _ _ _ _ Hpop) as (l1 & l2 & El & ->). rewrite El in *.
    rewrite ivf_app in *. cbn [ivf map fst snd] in *. fold (ivf c l2) in *.
    rewrite (class5_bin5 c a H0 A3 A5) in *.
    apply Forall_app in Hfl as [Hfl1 Hfl2]. inversion Hfl2 as [|? ? Hfe Hfl2']; subst.
    apply Forall_app in Hfb as [Hfb1 Hfb2]. inversion Hfb2 as [|? ? Hbe Hfb2']; subst.
    unfold flok5 in Hfe. unfold below in Hbe. cbn [fst snd] in *.
    assert (Hcov' : forall x, cov (ivl c (live5 s)) x + (cov (ivf c l1) x + (inb o a x + cov (ivf c l2) x)) <= 1).
    { intros x. specialize (Hcov x). rewrite cov_app in Hcov. cbn [cov] in Hcov. exact Hcov. }
    clear Hcov. rename Hcov' into Hcov.
    rewrite tot_app in Hsum, Hfrag. cbn [tot] in *.
    constructor; cbn [p5 live5 top5 fl5 used5 frag5].
    + auto.
    + apply Forall_app. split; [assumption|]. constructor; [|constructor]. unfold liveok5. cbn [fst snd]. tauto.
    + apply Forall_app. split; assumption.
    + rewrite ivl_app. apply Forall_app. split; [assumption|]. constructor; [|constructor]. unfold below. cbn [fst snd]. fold a. lia.
    + rewrite ivf_app. apply Forall_app. split; assumption.
    + intros x. rewrite ivl_app, ivf_app, !cov_app. cbn [ivl map cov fst snd]. fold a. specialize (Hcov x). lia.
    + rewrite ivl_app, ivf_app, !tot_app. cbn [ivl map tot fst snd]. fold a. lia.
    + intros Hm. unfold addu. rewrite Hm. rewrite ivl_app, tot_app. cbn [ivl map tot fst snd]. fold a. rewrite (Hused Hm). lia.
    + rewrite ivf_app, tot_app. lia.
  - (* a new block at the end of used memory *)
    constructor; cbn [p5 live5 top5 fl5 used5 frag5].
    + split; [assumption|]. apply mult_add; assumption.
    + apply Forall_app. split; [assumption|]. constructor; [|constructor]. unfold liveok5. cbn [fst snd]. auto.
    + assumption.
    + rewrite ivl_app. apply Forall_app. split.
      * eapply Forall_below_mono; [|exact Hlb]. lia.
      * constructor; [|constructor]. unfold below. cbn [fst snd]. fold a. lia.
    + eapply Forall_below_mono; [|exact Hfb]. lia.
    + intros x. rewrite ivl_app, cov_app. cbn [ivl map cov fst snd]. fold a.
      destruct (N.lt_ge_cases x (top5 (p5 s))) as [Hlt|Hge].
      * rewrite inb_0_below by exact Hlt. specialize (Hcov x). lia.
      * rewrite (cov_above _ _ x Hlb Hge), (cov_above _ _ x Hfb Hge). pose proof (inb_01 (top5 (p5 s)) a x). lia.
    + rewrite ivl_app, tot_app. cbn [ivl map tot fst snd]. fold a. lia.
    + intros Hm. unfold addu. rewrite Hm. rewrite ivl_app, tot_app. cbn [ivl map tot fst snd]. fold a. rewrite (Hused Hm). lia.
    + assumption.
Qed.

(* ---------- free of a live block keeps the invariant ---------- *)
Lemma free5_inv c s l1 l2 off req : cfg_ok c -> Inv5 c s -> live5 s = l1 ++ (off, req) :: l2 ->
  exists p', free5 c (p5 s) off req = (true, p') /\ Inv5 c (mkS5 p' (l1 ++ l2)).
Proof.
  intros Hc [[Ht1 Ht2] Hlive Hfl Hlb Hfb Hcov Hsum Hused Hfrag] Hl. rewrite Hl in *.
  apply Forall_app in Hlive as [Hl1 Hl2]. inversion Hl2 as [|? ? He Hl2']; subst.
  unfold liveok5 in He. cbn [fst snd] in He. destruct He as (Hpos & H63 & Hom).
  rewrite ivl_app in *. cbn [ivl map fst snd] in *. fold (ivl c l2) in *.
  apply Forall_app in Hlb as [Hlb1 Hlb2]. inversion Hlb2 as [|? ? Hbe Hlb2']; subst.
  unfold below in Hbe. cbn [fst snd] in Hbe.
  assert (Hcov' : forall x, (cov (ivl c l1) x + (inb off (cap5 c req) x + cov (ivl c l2) x)) + cov (ivf c (fl5 (p5 s))) x <= 1).
  { intros x. specialize (Hcov x). rewrite cov_app in Hcov. cbn [cov] in Hcov. exact Hcov. }
  clear Hcov. rename Hcov' into Hcov.
  rewrite tot_app in Hsum, Hused. cbn [tot] in *.
  pose proof (cap5_props c req Hc) as (A1 & A2 & A3 & A4 & A5). specialize (A5 Hpos).
  assert (H0 : 0 < f_al c) by (destruct Hc; lia).
  destruct (free5_cases c (p5 s) off req Hc Hpos H63) as (p' & Hf & Hcases). cbn zeta in Hcases.
  set (a := cap5 c req) in *.
  exists p'. split; [exact Hf|].
  destruct Hcases as [(Hm & Etop & ->)|[(Hnm & Hfast & Hbin & ->)|(Hnm & Hlarge & ->)]].
  - (* the block at the end of used memory is given back: everything else lies below it *)
    assert (Hall : Forall (below off) ((ivl c l1 ++ ivl c l2) ++ ivf c (fl5 (p5 s)))).
    { apply (merge_below off a); [lia| | |].
      - apply Forall_app. split; [|apply ivf_pos; assumption].
        rewrite <- ivl_app. apply ivl_pos; [assumption|]. apply Forall_app. split; assumption.
      - rewrite Etop. apply Forall_app. split; [apply Forall_app; split; assumption|assumption].
      - intros x. rewrite !cov_app. specialize (Hcov x). lia. }
    apply Forall_app in Hall as [Hall1 Hall2].
    constructor; cbn [p5 live5 top5 fl5 used5 frag5].
    + split; [lia|assumption].
    + apply Forall_app. split; assumption.
    + assumption.
    + rewrite ivl_app. assumption.
    + assumption.
    + intros x. rewrite ivl_app, cov_app. specialize (Hcov x). lia.
    + rewrite ivl_app, tot_app. lia.
    + intros Hm'. rewrite ivl_app, tot_app. rewrite (Hused Hm'). lia.
    + assumption.
  - (* pushed on its bin *)
    constructor; cbn [p5 live5 top5 fl5 used5 frag5].
    + auto.
    + apply Forall_app. split; assumption.
    + constructor; [|assumption]. unfold flok5. cbn [fst snd]. auto.
    + rewrite ivl_app. apply Forall_app. split; assumption.
    + rewrite ivf_cons, (class5_bin5 c a H0 A3 A5). constructor; [|assumption]. unfold below. cbn [fst snd]. lia.
    + intros x. rewrite ivl_app, cov_app. rewrite ivf_cons, (class5_bin5 c a H0 A3 A5). cbn [cov]. specialize (Hcov x). lia.
    + rewrite ivl_app, tot_app. rewrite ivf_cons, (class5_bin5 c a H0 A3 A5). cbn [tot]. lia.
    + intros Hm. unfold subu. rewrite Hm. rewrite ivl_app, tot_app. rewrite (Hused Hm). lia.
    + rewrite ivf_cons, (class5_bin5 c a H0 A3 A5). cbn [tot]. lia.
  - (* a large block: counted, never reused *)
    constructor; cbn [p5 live5 top5 fl5 used5 frag5].
    + auto.
    + apply Forall_app. split; assumption.
    + assumption.
    + rewrite ivl_app. apply Forall_app. split; assumption.
    + assumption.
    + intros x. rewrite ivl_app, cov_app. specialize (Hcov x). lia.
    + rewrite ivl_app, tot_app. lia.
    + intros Hm. unfold subu. rewrite Hm. rewrite ivl_app, tot_app. rewrite (Hused Hm). lia.
    + lia.
Qed.

(* ---------- one step, whole histories ---------- *)
Lemma step5_inv c s o : cfg_ok c -> Inv5 c s -> Inv5 c (fst (step5 Fixed c s o)).
Proof.
  intros Hc HI. destruct o as [size|k]; cbn [step5].
  - destruct (alloc5 Fixed c (p5 s) size) as [[off|] p'] eqn:Ha; cbn [fst].
    + exact (alloc5_inv c s size _ _ Hc HI Ha).
    + pose proof (alloc5_inv c s size _ _ Hc HI Ha) as E. cbn beta iota in E. subst p'. destruct s; exact HI.
  - destruct (live5 s) as [|e t] eqn:Hl; [exact HI|]. rewrite <- Hl.
    set (i := N.to_nat (k mod nlen (live5 s))).
    assert (Hi : (i < length (live5 s))%nat).
    { subst i. rewrite nlen_length. assert (0 < length (live5 s))%nat by (rewrite Hl; cbn; lia). lia. }
    destruct (nth_split_remove (0, 0) (live5 s) i Hi) as (l1 & l2 & E1 & E2 & _).
    destruct (nth i (live5 s) (0, 0)) as [off req] eqn:Hn.
    destruct (free5_inv c s l1 l2 off req Hc HI E1) as (p' & Hd & HI').
    rewrite Hd. cbn [fst]. rewrite E2. exact HI'.
Qed.

Lemma run5_inv c rem : cfg_ok c -> forall ops s, Inv5 c s -> Inv5 c (fst (run5 Fixed c rem s ops)).
Proof.
  intros Hc. induction ops as [|o t IH]; intros s HI; cbn [run5]; [exact HI|].
  pose proof (step5_inv c s o Hc HI) as H1. destruct (step5 Fixed c s o) as [s1 r]. cbn [fst] in H1.
  specialize (IH s1 H1). destruct (run5 Fixed c rem s1 t) as [s2 rs]. exact IH.
Qed.

Lemma final5_inv c ops : new_ok5 Fixed c = true -> Inv5 c (final5 Fixed c ops).
Proof.
  intros H. apply new_ok5_cfg_ok in H. unfold final5. apply run5_inv; [exact H|]. apply Inv5_start. exact H.
Qed.
