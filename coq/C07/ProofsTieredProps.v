(* C07, TieredMemoryAllocator: the statements derived from the invariant. *)
From ZV.Common Require Import Base.
From ZV.C07 Require Import Model ModelTiered ProofsArith ProofsIntervals ProofsTiered.
Open Scope N_scope.

Lemma ivtv_one : forall l i tag ch size x, nth_error l i = Some (tag, ch, size) -> pooled tag = true ->
  inb (snd ch) 1 x <= cov (ivtv l) x.
Proof.
  induction l as [|[[t0 c0] s0] t IH]; intros [|i] tag ch size x H Hp; cbn [nth_error] in H; try discriminate.
  - inversion H; subst. cbn [ivtv]. rewrite Hp. cbn [app cov]. lia.
  - cbn [ivtv]. rewrite cov_app. specialize (IH i tag ch size x H Hp). lia.
Qed.
Lemma ivtv_two : forall l i j t1 c1 s1 t2 c2 s2 x, i <> j ->
  nth_error l i = Some (t1, c1, s1) -> nth_error l j = Some (t2, c2, s2) -> pooled t1 = true -> pooled t2 = true ->
  inb (snd c1) 1 x + inb (snd c2) 1 x <= cov (ivtv l) x.
Proof.
  induction l as [|[[t0 c0] s0] t IH]; intros [|i] [|j] t1 c1 s1 t2 c2 s2 x Hij H1 H2 P1 P2; cbn [nth_error] in *; try discriminate; try lia.
  - inversion H1; subst. cbn [ivtv]. rewrite P1. cbn [app cov]. pose proof (ivtv_one t j t2 c2 s2 x H2 P2). lia.
  - inversion H2; subst. cbn [ivtv]. rewrite P2. cbn [app cov]. pose proof (ivtv_one t i t1 c1 s1 x H1 P1). lia.
  - cbn [ivtv]. rewrite cov_app. specialize (IH i j t1 c1 s1 t2 c2 s2 x ltac:(lia) H1 H2 P1 P2). lia.
Qed.

Lemma tiered_inv_proof c ops :
  let s := t_final c ops in
  (forall tag ch size, In (tag, ch, size) (tt_live s) -> pooled tag = true ->
     0 < size /\ size <= pool_chunk c (fst ch) /\ free_pool tag size = Some (fst ch)) /\
  (forall i j t1 c1 s1 t2 c2 s2, i <> j ->
     nth_error (tt_live s) i = Some (t1, c1, s1) -> nth_error (tt_live s) j = Some (t2, c2, s2) ->
     pooled t1 = true -> pooled t2 = true -> snd c1 <> snd c2) /\
  (forall j ch, (j < 6)%nat -> In ch (mp_q (nth j (ts_pools (tt_p s)) (mkMP 0 []))) ->
     fst ch = j /\ forall tag ch' size, In (tag, ch', size) (tt_live s) -> pooled tag = true -> snd ch' <> snd ch).
Proof.
  intros s. pose proof (t_final_inv c ops) as [Hlen Hq Hlive Hlb Hcov]. fold s in Hlen, Hq, Hlive, Hlb, Hcov.
  split; [|split].
  - intros tag ch size Hin Hp. pose proof (proj1 (Forall_forall _ _) Hlive _ Hin) as H. unfold tvok in H.
    destruct (H Hp) as (A & B & C & _). auto.
  - intros i j t1 c1 s1 t2 c2 s2 Hij H1 H2 P1 P2 E.
    pose proof (ivtv_two _ i j t1 c1 s1 t2 c2 s2 (snd c1) Hij H1 H2 P1 P2) as Htwo.
    rewrite <- E in Htwo. rewrite (inb_1 (snd c1) 1 (snd c1)) in Htwo by lia. specialize (Hcov (snd c1)). lia.
  - intros j ch Hj Hin.
    assert (Hjl : (j < length (ts_pools (tt_p s)))%nat) by lia.
    pose proof (qsok_nth _ _ 0 j Hq Hjl) as Hqj. cbn [Nat.add] in Hqj. unfold qok in Hqj.
    pose proof (proj1 (Forall_forall _ _) Hqj _ Hin) as [Hc1 Hc2]. split; [exact Hc1|].
    intros tag ch' size Hin' Hp E.
    destruct (In_nth_error _ _ Hin') as [i Hi].
    pose proof (ivtv_one _ i tag ch' size (snd ch) Hi Hp) as Hone. rewrite E in Hone.
    rewrite (inb_1 (snd ch) 1 (snd ch)) in Hone by lia.
    (* the same serial in the queue of pool j *)
    assert (Hqc : 1 <= cov (ivq (ts_pools (tt_p s))) (snd ch)).
    { pose proof (cov_ivq_upd (ts_pools (tt_p s)) j (mkMP 0 []) (snd ch) Hjl) as Hupd.
      assert (Hin1 : 1 <= cov (ivq1 (nth j (ts_pools (tt_p s)) (mkMP 0 []))) (snd ch)).
      { unfold ivq1. clear -Hin. induction (mp_q (nth j (ts_pools (tt_p s)) (mkMP 0 []))) as [|h t IH]; [destruct Hin|].
        cbn [map cov]. destruct Hin as [->|Hin]; [rewrite inb_1 by lia; lia|specialize (IH Hin); lia]. }
      unfold ivq1 at 2 in Hupd. cbn [mp_q map cov] in Hupd. lia. }
    specialize (Hcov (snd ch)). lia.
Qed.

(* ---------- the hypotheses are inhabited ---------- *)
Definition tiered_default_cfg : tcfg := mkTC true true true true 16384 2097152 false.
Example tiered_route_example :
  route_alloc tiered_default_cfg 1024 = RSmall /\ route_alloc tiered_default_cfg 1025 = RMedium 1 /\
  route_alloc tiered_default_cfg 2048 = RMedium 1 /\ route_alloc tiered_default_cfg 2049 = RMedium 2 /\
  route_alloc tiered_default_cfg 16384 = RMedium 4 /\ route_alloc tiered_default_cfg 16385 = RLarge /\
  route_alloc (mkTC false true true true 16384 2097152 false) 100 = RMedium 0.
Proof. vm_compute. repeat split. Qed.
Example tiered_history_example :
  tt_live (t_final tiered_default_cfg [TAl 2048; TAl 2049; TAl 100; TFr 0; TAl 1500; TAl 1500]) =
  [(RMedium 2, (3%nat, 1), 2049); (RSmall, (0%nat, 2), 100); (RMedium 1, (2%nat, 0), 1500); (RMedium 1, (2%nat, 3), 1500)].
Proof. vm_compute. reflexivity. Qed.
