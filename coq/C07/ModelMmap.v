(* C07 mechanism model of MemoryMappedAllocator (src/memory/mmap.rs), sequential semantics: allocate (refusal below
   min_mmap_size, rounding up to the page size with checked_add, region cache lookup by the rounded size, new
   mapping otherwise), deallocate (cache the region under its rounded size, at most MAX_CACHED_REGIONS_PER_SIZE = 4
   per size, else munmap).  A region is (rounded size, serial number): the serial stands for its address, the
   rounded size is recorded in the MmapAllocation when the region is mapped and is the key it is cached under.
   The cache (HashMap<usize, Vec<*mut u8>>, push / pop at the end of each Vec) is ONE list of regions, newest first:
   a lookup for a rounded size takes the first region with that size.  mmap itself is assumed to succeed for a
   non-zero length (the harness only compares histories with sizes up to 1 GiB).

   Definitions only - no proofs in this file. *)
From ZV.Common Require Import Base Run.
From ZV.C07 Require Import Model ModelFive.
Open Scope N_scope.

Definition MAX_CACHED_REGIONS_PER_SIZE : N := 4.
Notation region := (N * N)%type (only parsing).     (* rounded size, serial *)

(* size.checked_add(page_size - 1) -> & !(page_size - 1) *)
Definition mm_round (pg size : N) : option N :=
  if W64 <=? size + (pg - 1) then None else Some (N.ldiff (size + (pg - 1)) (pg - 1)).

Fixpoint mm_pop (key : N) (l : list region) : option (region * list region) :=
  match l with
  | [] => None
  | r :: t => if fst r =? key then Some (r, t)
              else match mm_pop key t with Some (r', t') => Some (r', r :: t') | None => None end
  end.
Fixpoint mm_count (key : N) (l : list region) : N :=
  match l with [] => 0 | r :: t => (if fst r =? key then 1 else 0) + mm_count key t end.

Record mmst := mkMM { mm_cache : list region; mm_next : N }.

(* allocate(size): the region, cache hit?, new state; None = Err *)
Definition mm_alloc (min pg : N) (st : mmst) (size : N) : option (region * bool) * mmst :=
  if size <? min then (None, st)
  else match mm_round pg size with
       | None => (None, st)
       | Some actual =>
           match mm_pop actual (mm_cache st) with
           | Some (r, rest) => (Some (r, true), mkMM rest (mm_next st))
           | None => if actual =? 0 then (None, st)            (* mmap of length 0 fails *)
                     else (Some ((actual, mm_next st), false), mkMM (mm_cache st) (mm_next st + 1))
           end
       end.
(* deallocate(allocation): kept in the cache? *)
Definition mm_free (st : mmst) (r : region) : bool * mmst :=
  if mm_count (fst r) (mm_cache st) <? MAX_CACHED_REGIONS_PER_SIZE
  then (true, mkMM (r :: mm_cache st) (mm_next st)) else (false, st).

Inductive mmop := MMA (size : N) | MMF (k : N).
Record mmstate := mkMMS { mms_p : mmst; mms_live : list (region * N) }.     (* region, requested size *)
(* observation: allocate -> cache hit (1) / new mapping (0), serial, usable (rounded) size; None x3 when refused;
   deallocate -> kept (1) / unmapped (0) *)
Definition mm_step (min pg : N) (s : mmstate) (o : mmop) : mmstate * list (option Z) :=
  match o with
  | MMA size =>
      match mm_alloc min pg (mms_p s) size with
      | (Some (r, hit), p') => (mkMMS p' (mms_live s ++ [(r, size)]),
                                [Some (if hit then 1 else 0)%Z; Some (Z.of_N (snd r)); Some (Z.of_N (fst r))])
      | (None, p') => (mkMMS p' (mms_live s), [None; None; None])
      end
  | MMF k =>
      match mms_live s with
      | [] => (s, [])
      | _ => let i := N.to_nat (k mod nlen (mms_live s)) in
             let '(kept, p') := mm_free (mms_p s) (fst (nth i (mms_live s) ((0, 0), 0))) in
             (mkMMS p' (remove_nth i (mms_live s)), [Some (if kept then 1 else 0)%Z])
      end
  end.
Fixpoint mm_run (min pg : N) (s : mmstate) (ops : list mmop) : mmstate * list (option Z) :=
  match ops with
  | [] => (s, [])
  | o :: t => let '(s1, r) := mm_step min pg s o in let '(s2, rs) := mm_run min pg s1 t in (s2, r ++ rs)
  end.
Definition mm_start : mmstate := mkMMS (mkMM [] 0) [].
Definition mm_final (min pg : N) (ops : list mmop) : mmstate := fst (mm_run min pg mm_start ops).
Definition mm_observe (min pg : N) (ops : list mmop) : list (option Z) := snd (mm_run min pg mm_start ops).
