(* C07, MemoryMappedAllocator: over every history the live regions and the cached regions are pairwise distinct, every
   live region is at least as large as its request, and a cached region is found again only under its own size. *)
From ZV.Common Require Import Base.
From ZV.C07 Require Import Model ModelFive ModelMmap ProofsArith ProofsIntervals ProofsFiveArith.
Open Scope N_scope.

Lemma mm_round_spec pg size a : pow2b pg = true -> mm_round pg size = Some a ->
  size <= a /\ a < size + pg /\ a mod pg = 0.
Proof.
  intros Hp. unfold mm_round. destruct (W64 <=? size + (pg - 1)); [discriminate|]. intros H. inversion H; subst.
  pose proof (pow2b_spec pg Hp) as [H0 _].
  replace (size + (pg - 1)) with (size + pg - 1) by lia. fold (align_up5 pg size). rewrite (pow2b_align pg size Hp).
  repeat split; [apply rup_ge|apply rup_lt|apply rup_mod]; exact H0.
Qed.

Lemma mm_pop_split key : forall l r rest, mm_pop key l = Some (r, rest) ->
  fst r = key /\ exists l1 l2, l = l1 ++ r :: l2 /\ rest = l1 ++ l2.
Proof.
  induction l as [|r0 t IH]; intros r rest H; cbn [mm_pop] in H; [discriminate|].
  destruct (N.eqb_spec (fst r0) key) as [E|Hne].
  - inversion H; subst. split; [reflexivity|]. exists [], rest. auto.
  - destruct (mm_pop key t) as [[r2 t2]|] eqn:Ep; [|discriminate]. inversion H; subst.
    destruct (IH _ _ eq_refl) as (E & l1 & l2 & -> & ->). split; [exact E|]. exists (r0 :: l1), l2. auto.
Qed.

Definition uiv (l : list (N * N)) : list (N * N) := map (fun r : N * N => (snd r, 1)) l.
Definition uivl (l : list (N * N * N)) : list (N * N) := map (fun e : N * N * N => (snd (fst e), 1)) l.
Lemma uiv_app l1 l2 : uiv (l1 ++ l2) = uiv l1 ++ uiv l2. Proof. apply map_app. Qed.
Lemma uivl_app l1 l2 : uivl (l1 ++ l2) = uivl l1 ++ uivl l2. Proof. apply map_app. Qed.

Record InvMM (s : mmstate) : Prop := {
  imm_lb : Forall (below (mm_next (mms_p s))) (uivl (mms_live s));
  imm_cb : Forall (below (mm_next (mms_p s))) (uiv (mm_cache (mms_p s)));
  imm_cov : forall x, cov (uivl (mms_live s)) x + cov (uiv (mm_cache (mms_p s))) x <= 1;
  imm_fit : Forall (fun e : N * N * N => snd e <= fst (fst e)) (mms_live s)
}.
Lemma InvMM_start : InvMM mm_start.
Proof. constructor; cbn; try constructor; intros; lia. Qed.

Lemma mm_step_inv min pg s o : pow2b pg = true -> InvMM s -> InvMM (fst (mm_step min pg s o)).
Proof.
  intros Hp [Hlb Hcb Hcov Hfit]. destruct o as [size|k]; cbn [mm_step].
  - unfold mm_alloc. destruct (size <? min); [cbn [fst]; constructor; assumption|].
    destruct (mm_round pg size) as [actual|] eqn:Er; [|cbn [fst]; constructor; assumption].
    pose proof (mm_round_spec pg size actual Hp Er) as (Hge & _ & _).
    destruct (mm_pop actual (mm_cache (mms_p s))) as [[r rest]|] eqn:Ep.
    + cbn [fst]. destruct (mm_pop_split _ _ _ _ Ep) as (Ekey & l1 & l2 & El & ->).
      rewrite El in Hcb, Hcov. rewrite uiv_app in Hcb. cbn [uiv map] in Hcb. fold (uiv l2) in Hcb.
      apply Forall_app in Hcb as [Hcb1 Hcb2]. inversion Hcb2 as [|? ? Hbe Hcb2']; subst.
      assert (Hcov' : forall x, cov (uivl (mms_live s)) x + (cov (uiv l1) x + (inb (snd r) 1 x + cov (uiv l2) x)) <= 1).
      { intros x. specialize (Hcov x). rewrite uiv_app, cov_app in Hcov. cbn [uiv map cov] in Hcov. exact Hcov. }
      constructor; cbn [mms_p mms_live mm_cache mm_next].
      * rewrite uivl_app. apply Forall_app. split; [exact Hlb|]. cbn. constructor; [|constructor]. exact Hbe.
      * rewrite uiv_app. apply Forall_app. split; assumption.
      * intros x. rewrite uivl_app, uiv_app, !cov_app. cbn [uivl map cov fst snd]. specialize (Hcov' x). lia.
      * apply Forall_app. split; [exact Hfit|]. constructor; [|constructor]. cbn [fst snd]. lia.
    + destruct (actual =? 0); cbn [fst]; [constructor; assumption|].
      constructor; cbn [mms_p mms_live mm_cache mm_next].
      * rewrite uivl_app. apply Forall_app. split; [eapply Forall_below_mono; [|exact Hlb]; lia|].
        cbn. constructor; [|constructor]. unfold below. cbn. lia.
      * eapply Forall_below_mono; [|exact Hcb]. lia.
      * intros x. rewrite uivl_app, cov_app. cbn [uivl map cov fst snd].
        destruct (N.lt_ge_cases x (mm_next (mms_p s))) as [Hlt|Hge'].
        -- rewrite inb_0_below by exact Hlt. specialize (Hcov x). lia.
        -- rewrite (cov_above _ _ x Hlb Hge'), (cov_above _ _ x Hcb Hge'). pose proof (inb_01 (mm_next (mms_p s)) 1 x). lia.
      * apply Forall_app. split; [exact Hfit|]. constructor; [|constructor]. cbn [fst snd]. lia.
  - destruct (mms_live s) as [|e t] eqn:Hl; [cbn [fst]; constructor; rewrite ?Hl; assumption|].
    rewrite <- Hl in Hlb, Hcov, Hfit |- *.
    set (i := N.to_nat (k mod nlen (mms_live s))).
    assert (Hi : (i < length (mms_live s))%nat).
    { subst i. rewrite nlen_length. assert (0 < length (mms_live s))%nat by (rewrite Hl; cbn; lia). lia. }
    destruct (nth_split_remove ((0, 0), 0) (mms_live s) i Hi) as (l1 & l2 & E1 & E2 & _).
    set (e0 := nth i (mms_live s) ((0, 0), 0)) in *. rewrite E2.
    rewrite E1 in Hlb, Hcov, Hfit. rewrite uivl_app in Hlb. cbn [uivl map] in Hlb. fold (uivl l2) in Hlb.
    apply Forall_app in Hlb as [Hlb1 Hlb2]. inversion Hlb2 as [|? ? Hbe Hlb2']; subst.
    apply Forall_app in Hfit as [Hf1 Hf2]. inversion Hf2 as [|? ? _ Hf2']; subst.
    assert (Hcov' : forall x, cov (uivl l1) x + (inb (snd (fst e0)) 1 x + cov (uivl l2) x) + cov (uiv (mm_cache (mms_p s))) x <= 1).
    { intros x. specialize (Hcov x). rewrite uivl_app, cov_app in Hcov. cbn [uivl map cov] in Hcov. exact Hcov. }
    unfold mm_free. destruct (mm_count (fst (fst e0)) (mm_cache (mms_p s)) <? MAX_CACHED_REGIONS_PER_SIZE); cbn [fst].
    + constructor; cbn [mms_p mms_live mm_cache mm_next].
      * rewrite uivl_app. apply Forall_app. split; assumption.
      * cbn [uiv map]. constructor; [exact Hbe|exact Hcb].
      * intros x. rewrite uivl_app, cov_app. cbn [uiv map cov]. specialize (Hcov' x). fold (uiv (mm_cache (mms_p s))). lia.
      * apply Forall_app. split; assumption.
    + constructor; cbn [mms_p mms_live]; try assumption.
      * rewrite uivl_app. apply Forall_app. split; assumption.
      * intros x. rewrite uivl_app, cov_app. specialize (Hcov' x). lia.
      * apply Forall_app. split; assumption.
Qed.
Lemma mm_run_inv min pg : pow2b pg = true -> forall ops s, InvMM s -> InvMM (fst (mm_run min pg s ops)).
Proof.
  intros Hp. induction ops as [|o t IH]; intros s HI; cbn [mm_run]; [exact HI|].
  pose proof (mm_step_inv min pg s o Hp HI) as H1. destruct (mm_step min pg s o) as [s1 r]. cbn [fst] in H1.
  specialize (IH s1 H1). destruct (mm_run min pg s1 t) as [s2 rs]. exact IH.
Qed.

Lemma mmap_inv_proof min pg ops : pow2b pg = true ->
  let s := mm_final min pg ops in
  (forall r size, In (r, size) (mms_live s) -> size <= fst r) /\
  (forall i j e1 e2, i <> j -> nth_error (mms_live s) i = Some e1 -> nth_error (mms_live s) j = Some e2 ->
     snd (fst e1) <> snd (fst e2)) /\
  (forall e r, In e (mms_live s) -> In r (mm_cache (mms_p s)) -> snd (fst e) <> snd r).
Proof.
  intros Hp s. pose proof (mm_run_inv min pg Hp ops mm_start InvMM_start) as [Hlb Hcb Hcov Hfit].
  fold (mm_final min pg ops) in *. fold s in Hlb, Hcb, Hcov, Hfit.
  assert (Hnl : forall i e, nth_error (mms_live s) i = Some e -> nth_error (uivl (mms_live s)) i = Some (snd (fst e), 1)).
  { intros i e H. unfold uivl. rewrite nth_error_map, H. reflexivity. }
  assert (Hnc : forall i r, nth_error (mm_cache (mms_p s)) i = Some r -> nth_error (uiv (mm_cache (mms_p s))) i = Some (snd r, 1)).
  { intros i r H. unfold uiv. rewrite nth_error_map, H. reflexivity. }
  repeat split.
  - intros r size Hin. exact (proj1 (Forall_forall _ _) Hfit _ Hin).
  - intros i j e1 e2 Hij H1 H2 E.
    pose proof (cov_two _ i j _ _ _ _ (snd (fst e1)) Hij (Hnl _ _ H1) (Hnl _ _ H2)) as Htwo. rewrite <- E in Htwo.
    rewrite (inb_1 (snd (fst e1)) 1 (snd (fst e1))) in Htwo by lia. specialize (Hcov (snd (fst e1))). lia.
  - intros e r H1 H2 E. destruct (In_nth_error _ _ H1) as [i Hi]. destruct (In_nth_error _ _ H2) as [j Hj].
    pose proof (cov_one _ i _ _ (snd (fst e)) (Hnl _ _ Hi)) as O1. pose proof (cov_one _ j _ _ (snd (fst e)) (Hnc _ _ Hj)) as O2.
    rewrite <- E in O2. rewrite (inb_1 (snd (fst e)) 1 (snd (fst e))) in O1, O2 by lia. specialize (Hcov (snd (fst e))). lia.
Qed.

(* a cached region is handed out only for a request that rounds to the size it was mapped (and cached) with *)
Lemma mmap_reissue_fits_proof min pg st size r st' : pow2b pg = true ->
  mm_alloc min pg st size = (Some (r, true), st') ->
  In r (mm_cache st) /\ mm_round pg size = Some (fst r) /\ size <= fst r.
Proof.
  intros Hp. unfold mm_alloc. destruct (size <? min); [discriminate|].
  destruct (mm_round pg size) as [actual|] eqn:Er; [|discriminate].
  destruct (mm_pop actual (mm_cache st)) as [[r0 rest]|] eqn:Ep.
  - intros H; inversion H; subst. destruct (mm_pop_split _ _ _ _ Ep) as (Ek & l1 & l2 & -> & _). subst actual.
    pose proof (mm_round_spec pg size _ Hp Er) as (Hge & _). split; [apply in_or_app; right; left; reflexivity|]. auto.
  - destruct (actual =? 0); discriminate.
Qed.

Example mmap_history_example :
  mm_final 4096 4096 [MMA 100; MMA 5000; MMA 8192; MMF 1; MMA 4097; MMA 8000] =
  mkMMS (mkMM [] 3) [((8192, 0), 5000); ((8192, 1), 4097); ((8192, 2), 8000)] /\ pow2b 4096 = true.
Proof. vm_compute. auto. Qed.
