(* C07: the statements of the property derived from the invariant; refutations on the pinned variant. *)
From ZV.Common Require Import Base.
From ZV.C07 Require Import Model ProofsArith ProofsLockFree.
Open Scope N_scope.

(* ---------- live blocks are pairwise disjoint (even at their full capacities) ---------- *)
Lemma Inv_caps_disjoint s : Inv s ->
  forall i j o1 r1 o2 r2, i <> j -> nth_error (live s) i = Some (o1, r1) -> nth_error (live s) j = Some (o2, r2) ->
    disjoint o1 (block_cap r1) o2 (block_cap r2).
Proof.
  intros HI i j o1 r1 o2 r2 Hij H1 H2. destruct HI as [_ _ Hlive _ Hcov].
  pose proof (proj1 (Forall_forall _ _) Hlive _ (nth_error_In _ _ H1)) as L1.
  pose proof (proj1 (Forall_forall _ _) Hlive _ (nth_error_In _ _ H2)) as L2.
  unfold live_ok in L1, L2. destruct L1 as (P1 & _). destruct L2 as (P2 & _).
  destruct (block_cap_props r1 P1) as (_ & C1 & _). destruct (block_cap_props r2 P2) as (_ & C2 & _).
  unfold disjoint.
  destruct (N.le_gt_cases (o1 + block_cap r1) o2) as [|G1]; [left; assumption|].
  destruct (N.le_gt_cases (o2 + block_cap r2) o1) as [|G2]; [right; assumption|].
  exfalso. set (x := N.max o1 o2).
  pose proof (cov_live_two (live s) i j o1 r1 o2 r2 x Hij H1 H2) as Htwo.
  rewrite (inb_1 o1 (block_cap r1) x) in Htwo by (subst x; lia).
  rewrite (inb_1 o2 (block_cap r2) x) in Htwo by (subst x; lia).
  specialize (Hcov x). lia.
Qed.

Lemma lockfree_live_disjoint_proof m ops : Forall (legal m) ops -> live_disjoint (live (final Fixed m ops)).
Proof.
  intros Hleg. destruct (final_inv m ops Hleg) as [HI _].
  intros i j o1 r1 o2 r2 Hij H1 H2.
  pose proof (Inv_caps_disjoint _ HI i j o1 r1 o2 r2 Hij H1 H2) as D.
  destruct HI as [_ _ Hlive _ _].
  pose proof (proj1 (Forall_forall _ _) Hlive _ (nth_error_In _ _ H1)) as L1.
  pose proof (proj1 (Forall_forall _ _) Hlive _ (nth_error_In _ _ H2)) as L2.
  unfold live_ok in L1, L2. destruct L1 as (P1 & _). destruct L2 as (P2 & _).
  destruct (block_cap_props r1 P1) as (C1 & _). destruct (block_cap_props r2 P2) as (C2 & _).
  unfold disjoint in *. lia.
Qed.

(* ---------- every live block lies inside the arena, is 8-aligned, and is large enough ---------- *)
Lemma lockfree_live_within_proof m ops o r :
  Forall (legal m) ops -> In (o, r) (live (final Fixed m ops)) ->
  8 <= o /\ o mod 8 = 0 /\ 0 < r /\ r <= block_cap r /\ o + block_cap r <= m /\ o + block_cap r < W32.
Proof.
  intros Hleg Hin. destruct (final_inv m ops Hleg) as [HI Hm]. destruct HI as [_ Hnext Hlive _ _].
  pose proof (proj1 (Forall_forall _ _) Hlive _ Hin) as L. unfold live_ok in L.
  destruct L as (P & _ & O8 & Om & E). destruct (block_cap_props r P) as (C1 & C2 & _).
  rewrite Hm in Hnext. intuition lia.
Qed.

(* ---------- requests beyond the capacity are refused and change nothing ---------- *)
Lemma lockfree_refuses_proof m ops size :
  Forall (legal m) ops -> m < size ->
  alloc Fixed (pl (final Fixed m ops)) size = (None, pl (final Fixed m ops)).
Proof.
  intros Hleg Hbig. destruct (final_inv m ops Hleg) as [HI Hm]. remember (final Fixed m ops) as s eqn:Hs.
  destruct (alloc Fixed (pl s) size) as [[off|] p'] eqn:Ha.
  - exfalso. pose proof (alloc_inv _ _ _ _ HI Ha) as HI'. cbn beta iota in HI'.
    pose proof (alloc_msize _ _ _ _ Ha) as Hm'.
    destruct HI' as [_ Hnext Hlive _ _]. cbn [pl live] in *.
    apply Forall_app in Hlive as [_ Hl]. inversion Hl as [|? ? He _]; subst. unfold live_ok in He.
    destruct He as (P & _ & O8 & _ & E). destruct (block_cap_props size P) as (C1 & C2 & _).
    rewrite Hm', Hm in Hnext. lia.
  - pose proof (alloc_inv _ _ _ _ HI Ha) as HI'. cbn beta iota in HI'. subst p'. reflexivity.
Qed.

(* ---------- a pointer outside the arena is refused and the pool is unchanged ---------- *)
Lemma lockfree_foreign_proof m ops off size :
  Forall (legal m) ops -> (off < 0 \/ Z.of_N m <= off)%Z -> 0 < size ->
  dealloc Fixed (pl (final Fixed m ops)) off size = (false, pl (final Fixed m ops)).
Proof.
  intros Hleg Hout Hs. destruct (final_inv m ops Hleg) as [_ Hm].
  rewrite <- Hm in Hout. destruct (dealloc_foreign _ off size Hout) as [H1 H2].
  destruct (dealloc Fixed _ off size) as [ok p']. cbn [fst snd] in *. rewrite H1, (H2 Hs). reflexivity.
Qed.

(* ---------- freeing a live block is accepted; a fast-bin block is handed out again for the next request
   of its class; the link word written into the freed block lies inside that block only ---------- *)
Lemma lockfree_free_reuse_proof m ops l1 l2 off req req2 :
  Forall (legal m) ops -> live (final Fixed m ops) = l1 ++ (off, req) :: l2 ->
  exists p', dealloc Fixed (pl (final Fixed m ops)) (Z.of_N off) req = (true, p') /\
    (align_size req <= FAST_BIN_THRESHOLD -> 0 < req2 -> req2 < W63 ->
     bin_of (align_size req2) = bin_of (align_size req) ->
     fst (alloc Fixed p' req2) = Some off).
Proof.
  intros Hleg Hl. destruct (final_inv m ops Hleg) as [HI Hm]. remember (final Fixed m ops) as s eqn:Hs.
  destruct (dealloc_live_inv s l1 l2 off req HI Hl) as (p' & Hd & HI').
  exists p'. split; [exact Hd|]. intros Hsmall Hp2 H64 Hbin.
  destruct HI as [Hlen _ Hlive _ _]. rewrite Hl in Hlive. apply Forall_app in Hlive as [_ Hl2].
  pose proof (Forall_inv Hl2) as He. unfold live_ok in He. destruct He as (Hpos & Hr64 & _).
  revert Hd. unfold dealloc.
  destruct (N.eqb_spec req 0); [lia|]. destruct (N.leb_spec W63 req); [lia|].
  apply N.leb_le in Hsmall. rewrite Hsmall.
  destruct (bin_of (align_size req)) as [b|] eqn:Hb.
  2:{ intros HH; inversion HH. }
  destruct ((0 <=? Z.of_N off)%Z && (Z.of_N off <? Z.of_N (msize (pl s)))%Z); intros HH; inversion HH; subst p'. clear HH.
  pose proof (bin_of_spec _ _ Hb) as (Hb64 & _ & _ & _ & Hct).
  unfold alloc. destruct (N.eqb_spec req2 0); [lia|]. destruct (N.leb_spec W63 req2); [lia|].
  assert (Ha2 : align_size req2 <=? FAST_BIN_THRESHOLD = true).
  { apply N.leb_le. pose proof (bin_of_spec _ _ Hbin) as (_ & Hle & _ & _ & Hc). lia. }
  rewrite Ha2, Hbin. cbn [set_bins bins].
  rewrite nth_upd_same by (rewrite Hlen; exact Hb64). rewrite N2Z.id. reflexivity.
Qed.

Lemma free_link_write_safe_proof m ops i j o1 r1 o2 r2 :
  Forall (legal m) ops -> i <> j ->
  nth_error (live (final Fixed m ops)) i = Some (o1, r1) -> nth_error (live (final Fixed m ops)) j = Some (o2, r2) ->
  o1 + 4 <= o1 + block_cap r1 /\ disjoint o1 4 o2 r2.
Proof.
  intros Hleg Hij H1 H2. destruct (final_inv m ops Hleg) as [HI _].
  pose proof (Inv_caps_disjoint _ HI i j o1 r1 o2 r2 Hij H1 H2) as D.
  destruct HI as [_ _ Hlive _ _].
  pose proof (proj1 (Forall_forall _ _) Hlive _ (nth_error_In _ _ H1)) as L1.
  pose proof (proj1 (Forall_forall _ _) Hlive _ (nth_error_In _ _ H2)) as L2.
  unfold live_ok in L1, L2. destruct L1 as (P1 & _). destruct L2 as (P2 & _).
  destruct (block_cap_props r1 P1) as (_ & C1 & _). destruct (block_cap_props r2 P2) as (C2 & _).
  unfold disjoint in *. lia.
Qed.

(* ---------- refutations on the pinned code ---------- *)
Definition has_overlap (l : list (N * N)) : bool :=
  existsb (fun a => existsb (fun b => negb (N.eqb (fst a) (fst b) && N.eqb (snd a) (snd b)) && overlapb a b) l) l.

(* alloc 136, alloc 8, free the first, alloc 144: the recycled block covers its neighbour *)
Lemma recycle_refuted_proof :
  exists m ops, Forall (legal m) ops /\
    live (final Pinned m ops) = [(144, 8); (8, 144)] /\ ~ live_disjoint (live (final Pinned m ops)).
Proof.
  exists 4096, [OAlloc 136; OAlloc 8; OFree 0; OAlloc 144].
  split; [repeat constructor|]. split; [vm_compute; reflexivity|].
  intros H. specialize (H 0%nat 1%nat 144 8 8 144 ltac:(discriminate) eq_refl eq_refl).
  unfold disjoint in H. lia.
Qed.

(* alloc 8, a failing request of 0xFFFF_FFF8 bytes wraps the u32 offset, alloc 8 returns the same block again *)
Lemma offset_wrap_refuted_proof :
  exists m ops, Forall (legal m) ops /\
    live (final Pinned m ops) = [(8, 8); (8, 8)] /\ ~ live_disjoint (live (final Pinned m ops)).
Proof.
  exists 4096, [OAlloc 8; OAlloc 4294967288; OAlloc 8].
  split; [repeat constructor|]. split; [vm_compute; reflexivity|].
  intros H. specialize (H 0%nat 1%nat 8 8 8 8 ltac:(discriminate) eq_refl eq_refl).
  unfold disjoint in H. lia.
Qed.

(* the same histories are harmless after the fixes (and exercise the hypotheses of the theorems above) *)
Example fixed_recycle_example :
  live (final Fixed 4096 [OAlloc 136; OAlloc 8; OFree 0; OAlloc 144]) = [(152, 8); (8, 144)].
Proof. vm_compute. reflexivity. Qed.
Example fixed_wrap_example :
  live (final Fixed 4096 [OAlloc 8; OAlloc 4294967288; OAlloc 8]) = [(8, 8); (16, 8)].
Proof. vm_compute. reflexivity. Qed.
Example legal_history_example : Forall (legal 4096) [OAlloc 136; OForeign (-8)%Z 16; OFree 0; OForeign 4096%Z 9000].
Proof. repeat constructor; cbn; lia. Qed.
