(* C07, TieredMemoryAllocator: routing facts and the invariant over every history of allocate / deallocate. *)
From ZV.Common Require Import Base.
From ZV.C07 Require Import Model ModelTiered ProofsArith ProofsIntervals.
Open Scope N_scope.

(* ---------- routing ---------- *)
Lemma medium_index_same : forall classes k size, free_medium_index classes k size = alloc_medium_index classes k size.
Proof. induction classes as [|c t IH]; intros k size; cbn; [reflexivity|]. destruct (size <=? c); [reflexivity|apply IH]. Qed.

Lemma alloc_medium_index_spec : forall classes k0 size k, alloc_medium_index classes k0 size = Some k ->
  exists j, k = (k0 + j)%nat /\ (j < length classes)%nat /\ size <= nth j classes 0 /\
            forall j', (j' < j)%nat -> nth j' classes 0 < size.
Proof.
  induction classes as [|c t IH]; intros k0 size k H; cbn [alloc_medium_index] in H; [discriminate|].
  destruct (N.leb_spec size c) as [Hle|Hgt].
  - inversion H; subst. exists 0%nat. cbn [nth length]. repeat split; try lia.
  - apply IH in H as (j & -> & Hj & Hs & Hlt). exists (S j). cbn [nth length]. repeat split; try lia.
    intros [|j'] Hj'; cbn [nth]; [exact Hgt|apply Hlt; lia].
Qed.

Definition pooled (tag : route) : bool := match tag with RSmall | RMedium _ => true | _ => false end.

Lemma route_alloc_fits c size :
  match route_alloc c size with
  | RSmall => 0 < size /\ size <= pool_chunk c 0 /\ t_small c = true
  | RMedium k => 0 < size /\ (k < 5)%nat /\ size <= pool_chunk c (S k) /\ alloc_medium_index MEDIUM_CLASSES 0 size = Some k /\
                 (forall k', (k' < k)%nat -> nth k' MEDIUM_CLASSES 0 < size)
  | _ => True
  end.
Proof.
  unfold route_alloc. destruct (N.eqb_spec size 0) as [->|Hnz]; [exact I|].
  destruct (N.leb_spec size SMALL_THRESHOLD) as [Hs|Hs]; cbn [andb].
  - destruct (t_small c) eqn:Es.
    + cbn [pool_chunk]. rewrite Es. repeat split; try lia.
    + destruct (N.leb_spec size MEDIUM_THRESHOLD) as [Hm|Hm]; cbn [andb].
      * destruct (t_medium c).
        -- destruct (alloc_medium_index MEDIUM_CLASSES 0 size) as [k|] eqn:Ek.
           ++ pose proof (alloc_medium_index_spec _ _ _ _ Ek) as (j & -> & Hj & Hle & Hlt). cbn [Nat.add pool_chunk].
              change (length MEDIUM_CLASSES) with 5%nat in Hj. repeat split; try lia; assumption.
           ++ unfold route_large. destruct (_ <? _); exact I.
        -- destruct ((size <? LARGE_THRESHOLD) && t_mmap c); unfold route_huge, route_large;
           repeat match goal with |- context [if ?b then _ else _] => destruct b end; exact I.
      * destruct ((size <? LARGE_THRESHOLD) && t_mmap c); unfold route_huge, route_large;
        repeat match goal with |- context [if ?b then _ else _] => destruct b end; exact I.
  - destruct (N.leb_spec size MEDIUM_THRESHOLD) as [Hm|Hm]; cbn [andb].
    + destruct (t_medium c).
      * destruct (alloc_medium_index MEDIUM_CLASSES 0 size) as [k|] eqn:Ek.
        -- pose proof (alloc_medium_index_spec _ _ _ _ Ek) as (j & -> & Hj & Hle & Hlt). cbn [Nat.add pool_chunk].
           change (length MEDIUM_CLASSES) with 5%nat in Hj. repeat split; try lia; assumption.
        -- unfold route_large. destruct (_ <? _); exact I.
      * destruct ((size <? LARGE_THRESHOLD) && t_mmap c); unfold route_huge, route_large;
        repeat match goal with |- context [if ?b then _ else _] => destruct b end; exact I.
    + destruct ((size <? LARGE_THRESHOLD) && t_mmap c); unfold route_huge, route_large;
      repeat match goal with |- context [if ?b then _ else _] => destruct b end; exact I.
Qed.

(* the pool chosen on free is the pool that served the allocation - for every size and configuration *)
Lemma tiered_same_class_on_free_proof c size :
  match route_alloc c size with
  | RSmall => free_pool RSmall size = Some 0%nat
  | RMedium k => free_pool (RMedium k) size = Some (S k)
  | _ => True
  end.
Proof.
  pose proof (route_alloc_fits c size) as H. destruct (route_alloc c size) as [| |k| |]; try exact I.
  - reflexivity.
  - destruct H as (_ & _ & _ & Hk & _). cbn [free_pool]. rewrite medium_index_same, Hk. reflexivity.
Qed.

(* ---------- chunk serials as unit intervals ---------- *)
Definition ivq1 (p : mpool) : list (N * N) := map (fun ch : nat * N => (snd ch, 1)) (mp_q p).
Fixpoint ivq (ps : list mpool) : list (N * N) := match ps with [] => [] | p :: t => ivq1 p ++ ivq t end.
Fixpoint ivtv (l : list (route * (nat * N) * N)) : list (N * N) :=
  match l with
  | [] => []
  | (tag, ch, _) :: t => (if pooled tag then [(snd ch, 1)] else []) ++ ivtv t
  end.
Lemma ivtv_app l1 l2 : ivtv (l1 ++ l2) = ivtv l1 ++ ivtv l2.
Proof. induction l1 as [|[[tag ch] sz] t IH]; cbn [ivtv app]; [reflexivity|]. rewrite IH, app_assoc. reflexivity. Qed.

Lemma cov_ivq_upd : forall ps j p' x, (j < length ps)%nat ->
  cov (ivq (upd j p' ps)) x + cov (ivq1 (nth j ps (mkMP 0 []))) x = cov (ivq ps) x + cov (ivq1 p') x.
Proof.
  induction ps as [|p t IH]; intros j p' x Hj; cbn [length] in Hj; [lia|].
  destruct j as [|j]; cbn [upd ivq nth]; rewrite !cov_app.
  - lia.
  - specialize (IH j p' x ltac:(lia)). lia.
Qed.

Definition qok (next : N) (j : nat) (p : mpool) : Prop := Forall (fun ch : nat * N => fst ch = j /\ snd ch < next) (mp_q p).
Fixpoint qsok (next : N) (j : nat) (ps : list mpool) : Prop :=
  match ps with [] => True | p :: t => qok next j p /\ qsok next (S j) t end.
Lemma qsok_nth next : forall ps j0 j, qsok next j0 ps -> (j < length ps)%nat -> qok next (j0 + j) (nth j ps (mkMP 0 [])).
Proof.
  induction ps as [|p t IH]; intros j0 j H Hj; cbn [length] in Hj; [lia|]. destruct H as [H1 H2].
  destruct j as [|j]; cbn [nth]; [rewrite Nat.add_0_r; exact H1|].
  replace (j0 + S j)%nat with (S j0 + j)%nat by lia. apply IH; [exact H2|lia].
Qed.
Lemma qsok_upd next : forall ps j0 j p', qsok next j0 ps -> qok next (j0 + j) p' -> qsok next j0 (upd j p' ps).
Proof.
  induction ps as [|p t IH]; intros j0 j p' H Hp; [destruct j; exact I|]. destruct H as [H1 H2].
  destruct j as [|j]; cbn [upd qsok]; [rewrite Nat.add_0_r in Hp; auto|].
  split; [exact H1|]. apply IH; [exact H2|]. replace (S j0 + j)%nat with (j0 + S j)%nat by lia. exact Hp.
Qed.
Lemma qok_mono next next' j p : next <= next' -> qok next j p -> qok next' j p.
Proof. intros H. unfold qok. apply Forall_impl. intros ch [? ?]. split; [assumption|lia]. Qed.
Lemma qsok_mono next next' : next <= next' -> forall ps j, qsok next j ps -> qsok next' j ps.
Proof.
  intros H. induction ps as [|p t IH]; intros j Hq; [exact I|]. destruct Hq as [H1 H2].
  split; [eapply qok_mono; eauto|auto].
Qed.
Lemma qok_below next j p : qok next j p -> Forall (below next) (ivq1 p).
Proof.
  unfold qok, ivq1. intros H. apply Forall_map. eapply Forall_impl; [|exact H]. intros ch [_ Hlt]. unfold below. cbn [fst snd]. lia.
Qed.
Lemma qsok_below next : forall ps j, qsok next j ps -> Forall (below next) (ivq ps).
Proof.
  induction ps as [|p t IH]; intros j H; [constructor|]. destruct H as [H1 H2]. cbn [ivq].
  apply Forall_app. split; [eapply qok_below; eauto|eauto].
Qed.

(* a live allocation: served by the pool that created its chunk, which is large enough, and freed into that pool *)
Definition tvok (c : tcfg) (next : N) (e : route * (nat * N) * N) : Prop :=
  let '(tag, ch, size) := e in
  pooled tag = true -> 0 < size /\ size <= pool_chunk c (fst ch) /\ free_pool tag size = Some (fst ch) /\
                       (fst ch < 6)%nat /\ snd ch < next.

Record InvTi (c : tcfg) (s : tstate) : Prop := {
  ti_len : length (ts_pools (tt_p s)) = 6%nat;
  ti_q : qsok (ts_next (tt_p s)) 0 (ts_pools (tt_p s));
  ti_live : Forall (tvok c (ts_next (tt_p s))) (tt_live s);
  ti_lb : Forall (below (ts_next (tt_p s))) (ivtv (tt_live s));
  ti_cov : forall x, cov (ivtv (tt_live s)) x + cov (ivq (ts_pools (tt_p s))) x <= 1
}.
Lemma InvTi_start c : InvTi c (t_start c).
Proof.
  constructor; cbn; try constructor; try (intros; lia).
  all: unfold qok; cbn; repeat split; constructor.
Qed.

Lemma tvok_mono c n n' e : n <= n' -> tvok c n e -> tvok c n' e.
Proof. destruct e as [[tag ch] size]. unfold tvok. intros Hn H Hp. specialize (H Hp). intuition lia. Qed.

(* serving from pool j *)
Lemma serve_inv c s j tag size ch hit p' :
  InvTi c s -> (j < 6)%nat -> pooled tag = true -> 0 < size -> size <= pool_chunk c j -> free_pool tag size = Some j ->
  t_serve (tt_p s) j = (ch, hit, p') ->
  InvTi c (mkTSt p' (tt_live s ++ [(tag, ch, size)])) /\ fst ch = j.
Proof.
  intros [Hlen Hq Hlive Hlb Hcov] Hj Hpl Hs Hfit Hfree Hserve. unfold t_serve, mp_alloc in Hserve.
  set (ps := ts_pools (tt_p s)) in *. set (next := ts_next (tt_p s)) in *.
  assert (Hjl : (j < length ps)%nat) by lia.
  pose proof (qsok_nth next ps 0 j Hq Hjl) as Hqj. cbn [Nat.add] in Hqj.
  pose proof (cov_ivq_upd ps j) as Hupd.
  destruct (mp_q (nth j ps (mkMP 0 []))) as [|ch0 rest] eqn:Eq.
  - (* a new chunk *)
    inversion Hserve; subst ch hit p'. clear Hserve. split; [|reflexivity].
    assert (Hsame : upd j (nth j ps (mkMP 0 [])) ps = ps).
    { clear -Hjl. revert j Hjl. induction ps as [|p t IH]; intros [|j] Hj; cbn [length upd nth] in *; try lia; try reflexivity.
      f_equal. apply IH. lia. }
    rewrite Hsame.
    constructor; cbn [tt_p tt_live ts_pools ts_next]; fold ps; fold next.
    + exact Hlen.
    + eapply qsok_mono; [|exact Hq]. lia.
    + apply Forall_app. split.
      * eapply Forall_impl; [|exact Hlive]. intros e. apply tvok_mono. lia.
      * constructor; [|constructor]. unfold tvok. cbn [fst snd]. intros _. repeat split; try assumption; lia.
    + rewrite ivtv_app. apply Forall_app. split.
      * eapply Forall_below_mono; [|exact Hlb]. lia.
      * cbn [ivtv]. rewrite Hpl. cbn [app]. constructor; [|constructor]. unfold below. cbn [fst snd]. lia.
    + intros x. rewrite ivtv_app, cov_app. cbn [ivtv]. rewrite Hpl. cbn [app cov snd].
      destruct (N.lt_ge_cases x next) as [Hlt|Hge].
      * rewrite inb_0_below by exact Hlt. specialize (Hcov x). lia.
      * rewrite (cov_above _ _ x Hlb Hge). rewrite (cov_above _ _ x (qsok_below _ _ _ Hq) Hge).
        pose proof (inb_01 next 1 x). lia.
  - (* the chunk at the front of the queue *)
    inversion Hserve; subst ch hit p'. clear Hserve.
    unfold qok in Hqj. rewrite Eq in Hqj. inversion Hqj as [|? ? Hc Hrest]; subst. cbn beta in Hc. destruct Hc as [Hc1 Hc2]. split; [|exact Hc1].
    constructor; cbn [tt_p tt_live ts_pools ts_next]; fold ps; fold next.
    + rewrite upd_length. exact Hlen.
    + apply qsok_upd; [exact Hq|]. cbn [Nat.add]. unfold qok. cbn [mp_q]. exact Hrest.
    + apply Forall_app. split; [exact Hlive|]. constructor; [|constructor]. unfold tvok. intros _. rewrite Hc1. repeat split; try assumption.
    + rewrite ivtv_app. apply Forall_app. split; [exact Hlb|]. cbn [ivtv]. rewrite Hpl. cbn [app].
      constructor; [|constructor]. unfold below. cbn [fst snd]. lia.
    + intros x. rewrite ivtv_app, cov_app. cbn [ivtv]. rewrite Hpl. cbn [app cov snd].
      specialize (Hupd (mkMP (mp_max (nth j ps (mkMP 0 []))) rest) x Hjl).
      unfold ivq1 in Hupd at 1 2. rewrite Eq in Hupd. cbn [map cov mp_q snd] in Hupd. fold (ivq1 (mkMP (mp_max (nth j ps (mkMP 0 []))) rest)) in Hupd.
      unfold ivq1 in Hupd. cbn [mp_q] in Hupd. specialize (Hcov x). lia.
Qed.

Lemma t_alloc_inv c s size : InvTi c s -> InvTi c (fst (t_step c s (TAl size))).
Proof.
  intros HI. cbn [t_step]. pose proof (route_alloc_fits c size) as Hfit. pose proof (tiered_same_class_on_free_proof c size) as Hfree.
  destruct (route_alloc c size) as [| |k| |] eqn:Er; cbn [fst].
  - exact HI.
  - destruct Hfit as (Hs & Hle & _). destruct (t_serve (tt_p s) 0) as [[ch hit] p'] eqn:Es. cbn [fst].
    eapply (proj1 (serve_inv c s 0 RSmall size ch hit p' HI ltac:(lia) eq_refl Hs Hle Hfree Es)).
  - destruct Hfit as (Hs & Hk & Hle & _). destruct (t_serve (tt_p s) (S k)) as [[ch hit] p'] eqn:Es. cbn [fst].
    eapply (proj1 (serve_inv c s (S k) (RMedium k) size ch hit p' HI ltac:(lia) eq_refl Hs Hle Hfree Es)).
  - destruct HI as [Hlen Hq Hlive Hlb Hcov]. constructor; cbn [tt_p tt_live]; try assumption.
    + apply Forall_app. split; [exact Hlive|]. constructor; [|constructor]. unfold tvok. cbn [pooled]. discriminate.
    + rewrite ivtv_app. cbn [ivtv pooled app]. rewrite app_nil_r. exact Hlb.
    + intros x. rewrite ivtv_app. cbn [ivtv pooled app]. rewrite app_nil_r. apply Hcov.
  - destruct HI as [Hlen Hq Hlive Hlb Hcov]. constructor; cbn [tt_p tt_live]; try assumption.
    + apply Forall_app. split; [exact Hlive|]. constructor; [|constructor]. unfold tvok. cbn [pooled]. discriminate.
    + rewrite ivtv_app. cbn [ivtv pooled app]. rewrite app_nil_r. exact Hlb.
    + intros x. rewrite ivtv_app. cbn [ivtv pooled app]. rewrite app_nil_r. apply Hcov.
Qed.

Lemma t_free_inv c s l1 l2 tag ch size : InvTi c s -> tt_live s = l1 ++ (tag, ch, size) :: l2 ->
  let r := match free_pool tag size with
           | Some j => let '(kept, p') := mp_free (nth j (ts_pools (tt_p s)) (mkMP 0 [])) ch in
                       mkTSt (mkTS (upd j p' (ts_pools (tt_p s))) (ts_next (tt_p s))) (l1 ++ l2)
           | None => mkTSt (tt_p s) (l1 ++ l2)
           end in
  InvTi c r.
Proof.
  intros [Hlen Hq Hlive Hlb Hcov] Hl. rewrite Hl in *. set (ps := ts_pools (tt_p s)) in *. set (next := ts_next (tt_p s)) in *.
  apply Forall_app in Hlive as [Hl1 Hl2]. inversion Hl2 as [|? ? He Hl2']; subst.
  rewrite ivtv_app in Hlb. cbn [ivtv] in Hlb. apply Forall_app in Hlb as [Hlb1 Hlb2]. apply Forall_app in Hlb2 as [Hlbe Hlb2].
  assert (Hcov' : forall x, cov (ivtv l1) x + (cov (if pooled tag then [(snd ch, 1)] else []) x + cov (ivtv l2) x) + cov (ivq ps) x <= 1).
  { intros x. specialize (Hcov x). rewrite ivtv_app in Hcov. cbn [ivtv] in Hcov. rewrite !cov_app in Hcov. lia. }
  assert (Hdrop : forall p0, p0 = tt_p s -> InvTi c (mkTSt p0 (l1 ++ l2))).
  { intros p0 ->. constructor; cbn [tt_p tt_live]; fold ps; fold next; try assumption.
    - apply Forall_app. split; assumption.
    - rewrite ivtv_app. apply Forall_app. split; assumption.
    - intros x. rewrite ivtv_app, cov_app. specialize (Hcov' x). lia. }
  cbn zeta. unfold tvok in He.
  destruct (pooled tag) eqn:Epl.
  - destruct (He eq_refl) as (Hs & Hfit & Hfree & Hj & Hser). rewrite Hfree.
    assert (Hjl : (fst ch < length ps)%nat) by lia.
    unfold mp_free. destruct (nlen (mp_q (nth (fst ch) ps (mkMP 0 []))) <? mp_max (nth (fst ch) ps (mkMP 0 []))) eqn:Eroom.
    + pose proof (qsok_nth next ps 0 (fst ch) Hq Hjl) as Hqj. cbn [Nat.add] in Hqj.
      constructor; cbn [tt_p tt_live ts_pools ts_next]; fold ps; fold next.
      * rewrite upd_length. exact Hlen.
      * apply qsok_upd; [exact Hq|]. cbn [Nat.add]. unfold qok in *. cbn [mp_q]. apply Forall_app. split; [exact Hqj|].
        constructor; [|constructor]. split; [reflexivity|exact Hser].
      * apply Forall_app. split; assumption.
      * rewrite ivtv_app. apply Forall_app. split; assumption.
      * intros x. rewrite ivtv_app, cov_app.
        pose proof (cov_ivq_upd ps (fst ch) (mkMP (mp_max (nth (fst ch) ps (mkMP 0 []))) (mp_q (nth (fst ch) ps (mkMP 0 [])) ++ [ch])) x Hjl) as Hupd.
        unfold ivq1 in Hupd. cbn [mp_q] in Hupd. rewrite map_app, cov_app in Hupd. cbn [map cov] in Hupd.
        specialize (Hcov' x). cbn [cov] in Hcov'. lia.
    + (* the pool is full: the chunk goes back to the system *)
      assert (Hsame : upd (fst ch) (nth (fst ch) ps (mkMP 0 [])) ps = ps).
      { clear -Hjl. revert Hjl. generalize (fst ch). induction ps as [|p t IH]; intros [|j] Hj; cbn [length upd nth] in *; try lia; try reflexivity.
        f_equal. apply IH. lia. }
      rewrite Hsame. apply Hdrop. destruct (tt_p s); reflexivity.
  - assert (Hnone : free_pool tag size = None) by (destruct tag; cbn in *; try discriminate; reflexivity).
    rewrite Hnone. apply Hdrop. reflexivity.
Qed.

Lemma t_step_inv c s o : InvTi c s -> InvTi c (fst (t_step c s o)).
Proof.
  intros HI. destruct o as [size|k]; [apply t_alloc_inv; exact HI|]. cbn [t_step].
  destruct (tt_live s) as [|e t] eqn:Hl; [exact HI|]. rewrite <- Hl.
  set (i := N.to_nat (k mod nlen (tt_live s))).
  assert (Hi : (i < length (tt_live s))%nat).
  { subst i. rewrite nlen_length. assert (0 < length (tt_live s))%nat by (rewrite Hl; cbn; lia). lia. }
  destruct (nth_split_remove (RNone, (O, 0), 0) (tt_live s) i Hi) as (l1 & l2 & E1 & E2 & _).
  destruct (nth i (tt_live s) (RNone, (O, 0), 0)) as [[tag ch] size] eqn:Hn.
  pose proof (t_free_inv c s l1 l2 tag ch size HI E1) as H. cbn zeta in H. rewrite E2.
  destruct (free_pool tag size) as [j|]; [|exact H].
  destruct (mp_free (nth j (ts_pools (tt_p s)) (mkMP 0 [])) ch) as [kept p']. exact H.
Qed.
Lemma t_run_inv c : forall ops s, InvTi c s -> InvTi c (fst (t_run c s ops)).
Proof.
  induction ops as [|o t IH]; intros s HI; cbn [t_run]; [exact HI|].
  pose proof (t_step_inv c s o HI) as H1. destruct (t_step c s o) as [s1 r]. cbn [fst] in H1.
  specialize (IH s1 H1). destruct (t_run c s1 t) as [s2 rs]. exact IH.
Qed.
Lemma t_final_inv c ops : InvTi c (t_final c ops).
Proof. unfold t_final. apply t_run_inv. apply InvTi_start. Qed.
