(* C07 mechanism model of TieredMemoryAllocator (src/memory/tiered.rs) size-tier routing over MemoryPool
   (src/memory/pool.rs), sequential semantics.

   allocate(size): the if / else-if chain over SMALL_THRESHOLD (1 KiB, `<=`), MEDIUM_THRESHOLD (16 KiB, `<=`) and
   LARGE_THRESHOLD (2 MiB, `<`) with the four enable flags; allocate_medium: the first thread-local pool whose
   chunk_size >= size (classes 1 KiB, 2 KiB, 4 KiB, 8 KiB, 16 KiB), falling back to allocate_large; allocate_large:
   MemoryMappedAllocator::allocate refuses sizes below its min_mmap_size (mmap_threshold, or usize::MAX when mmap is
   disabled); allocate_huge: the hugepage allocator when enabled and size >= hugepage_threshold, else allocate_large.
   deallocate(TieredAllocation::Medium(ptr, size)): deallocate_medium searches the pools AGAIN with the same
   predicate - nothing in the allocation records which pool served it.
   MemoryPool: a FIFO queue (VecDeque, pop_front / push_back) of at most max_chunks free chunks; allocate pops or
   creates a chunk, deallocate pushes or gives the chunk back to the system.  A chunk is (pool that created it,
   serial number): the creating pool determines its capacity (chunk_size of that pool).
   Pool 0 is the small pool (1024-byte chunks, 100 kept; 64-byte chunks, 1 kept when small pools are disabled),
   pools 1..5 are the medium classes (32 chunks kept each).

   Definitions only - no proofs in this file. *)
From ZV.Common Require Import Base Run.
From ZV.C07 Require Import Model.
Open Scope N_scope.

Definition SMALL_THRESHOLD : N := 1024.
Definition MEDIUM_THRESHOLD : N := 16384.
Definition LARGE_THRESHOLD : N := 2097152.
Definition MEDIUM_CLASSES : list N := [1024; 2048; 4096; 8192; 16384].

(* the TieredConfig; t_hp_ok is not configuration but the environment: whether hugepage requests succeed *)
Record tcfg := mkTC { t_small : bool; t_medium : bool; t_mmap : bool; t_huge : bool; t_mmap_thr : N; t_huge_thr : N; t_hp_ok : bool }.

Inductive route := RNone | RSmall | RMedium (k : nat) | RLarge | RHuge.

(* allocate_medium: `for pool in pools.iter() { if pool.config().chunk_size >= size { ... } }` *)
Fixpoint alloc_medium_index (classes : list N) (k : nat) (size : N) : option nat :=
  match classes with
  | [] => None
  | c :: t => if size <=? c then Some k else alloc_medium_index t (S k) size
  end.
(* deallocate_medium: the same search, written a second time in the code *)
Fixpoint free_medium_index (classes : list N) (k : nat) (size : N) : option nat :=
  match classes with
  | [] => None
  | c :: t => if size <=? c then Some k else free_medium_index t (S k) size
  end.

Definition mmap_min (c : tcfg) : N := if t_mmap c then t_mmap_thr c else W64 - 1.
Definition route_large (c : tcfg) (size : N) : route := if size <? mmap_min c then RNone else RLarge.
Definition route_huge (c : tcfg) (size : N) : route :=
  if t_huge c && (t_huge_thr c <=? size) then (if t_hp_ok c then RHuge else RNone) else route_large c size.
Definition route_alloc (c : tcfg) (size : N) : route :=
  if size =? 0 then RNone
  else if (size <=? SMALL_THRESHOLD) && t_small c then RSmall
  else if (size <=? MEDIUM_THRESHOLD) && t_medium c then
    match alloc_medium_index MEDIUM_CLASSES 0 size with Some k => RMedium k | None => route_large c size end
  else if (size <? LARGE_THRESHOLD) && t_mmap c then route_large c size
  else route_huge c size.

(* ---- MemoryPool ---- *)
Notation chunk := (nat * N)%type (only parsing).            (* creating pool, serial number *)
Record mpool := mkMP { mp_max : N; mp_q : list chunk }.
(* allocate(): (chunk, pool hit?, pool, next serial) *)
Definition mp_alloc (j : nat) (p : mpool) (next : N) : chunk * bool * mpool * N :=
  match mp_q p with
  | ch :: t => (ch, true, mkMP (mp_max p) t, next)
  | [] => ((j, next), false, p, next + 1)
  end.
(* deallocate(chunk): (kept in the pool?, pool) *)
Definition mp_free (p : mpool) (ch : chunk) : bool * mpool :=
  if nlen (mp_q p) <? mp_max p then (true, mkMP (mp_max p) (mp_q p ++ [ch])) else (false, p).

Definition pool_chunk (c : tcfg) (j : nat) : N :=
  match j with O => if t_small c then SMALL_THRESHOLD else 64 | S k => nth k MEDIUM_CLASSES 0 end.

Record tst := mkTS { ts_pools : list mpool; ts_next : N }.
Definition t_init (c : tcfg) : tst :=
  mkTS (mkMP (if t_small c then 100 else 1) [] :: repeat (mkMP 32 []) 5) 0.

Definition t_serve (s : tst) (j : nat) : chunk * bool * tst :=
  let '(ch, hit, p', nx) := mp_alloc j (nth j (ts_pools s) (mkMP 0 [])) (ts_next s) in
  (ch, hit, mkTS (upd j p' (ts_pools s)) nx).

(* the pool a deallocation goes to *)
Definition free_pool (tag : route) (size : N) : option nat :=
  match tag with
  | RSmall => Some O
  | RMedium _ => option_map S (free_medium_index MEDIUM_CLASSES 0 size)
  | _ => None
  end.

Inductive top := TAl (size : N) | TFr (k : N).
Record tstate := mkTSt { tt_p : tst; tt_live : list (route * chunk * N) }.

(* observation.  allocate: tier (0 small, 1 medium, 2 mmap, 3 hugepage; None = Err), serving pool, pool hit (1) or
   new chunk (0), creating pool and serial of the chunk.  deallocate: receiving pool and kept (1) / released (0);
   9, 0 for mmap / hugepage allocations. *)
Definition zn (n : N) : option Z := Some (Z.of_N n).
Definition znat (n : nat) : option Z := Some (Z.of_nat n).
Definition t_step (c : tcfg) (s : tstate) (o : top) : tstate * list (option Z) :=
  match o with
  | TAl size =>
      match route_alloc c size with
      | RNone => (s, [None; None; None; None; None])
      | RSmall =>
          let '(ch, hit, p') := t_serve (tt_p s) 0 in
          (mkTSt p' (tt_live s ++ [(RSmall, ch, size)]), [zn 0; znat 0; zn (if hit then 1 else 0); znat (fst ch); zn (snd ch)])
      | RMedium k =>
          let '(ch, hit, p') := t_serve (tt_p s) (S k) in
          (mkTSt p' (tt_live s ++ [(RMedium k, ch, size)]), [zn 1; znat (S k); zn (if hit then 1 else 0); znat (fst ch); zn (snd ch)])
      | RLarge => (mkTSt (tt_p s) (tt_live s ++ [(RLarge, (O, 0), size)]), [zn 2; None; None; None; None])
      | RHuge => (mkTSt (tt_p s) (tt_live s ++ [(RHuge, (O, 0), size)]), [zn 3; None; None; None; None])
      end
  | TFr k =>
      match tt_live s with
      | [] => (s, [])
      | _ =>
          let i := N.to_nat (k mod nlen (tt_live s)) in
          let '(tag, ch, size) := nth i (tt_live s) (RNone, (O, 0), 0) in
          match free_pool tag size with
          | Some j =>
              let '(kept, p') := mp_free (nth j (ts_pools (tt_p s)) (mkMP 0 [])) ch in
              (mkTSt (mkTS (upd j p' (ts_pools (tt_p s))) (ts_next (tt_p s))) (remove_nth i (tt_live s)),
               [znat j; zn (if kept then 1 else 0)])
          | None => (mkTSt (tt_p s) (remove_nth i (tt_live s)), [zn 9; zn 0])
          end
      end
  end.
Fixpoint t_run (c : tcfg) (s : tstate) (ops : list top) : tstate * list (option Z) :=
  match ops with
  | [] => (s, [])
  | o :: t => let '(s1, r) := t_step c s o in
              let '(s2, rs) := t_run c s1 t in (s2, r ++ rs)
  end.
Definition t_start (c : tcfg) : tstate := mkTSt (t_init c) [].
Definition t_final (c : tcfg) (ops : list top) : tstate := fst (t_run c (t_start c) ops).
Definition t_observe (c : tcfg) (ops : list top) : list (option Z) := snd (t_run c (t_start c) ops).

(* ------------------------------------------------------------------------------------------- *)
(* MemoryPool on its own (src/memory/pool.rs: allocate / deallocate with PoolConfig.max_chunks) *)
(* ------------------------------------------------------------------------------------------- *)
Inductive mop := MAl | MFr (k : N).
Record mstate := mkMS { ms_p : mpool; ms_next : N; ms_live : list chunk }.
(* observation: allocate -> pool hit (1) / new chunk (0), serial of the chunk; deallocate -> kept (1) / released (0) *)
Definition m_step (s : mstate) (o : mop) : mstate * list (option Z) :=
  match o with
  | MAl => let '(ch, hit, p', nx) := mp_alloc 0 (ms_p s) (ms_next s) in
           (mkMS p' nx (ms_live s ++ [ch]), [zn (if hit then 1 else 0); zn (snd ch)])
  | MFr k =>
      match ms_live s with
      | [] => (s, [])
      | _ => let i := N.to_nat (k mod nlen (ms_live s)) in
             let '(kept, p') := mp_free (ms_p s) (nth i (ms_live s) (O, 0)) in
             (mkMS p' (ms_next s) (remove_nth i (ms_live s)), [zn (if kept then 1 else 0)])
      end
  end.
Fixpoint m_run (s : mstate) (ops : list mop) : mstate * list (option Z) :=
  match ops with
  | [] => (s, [])
  | o :: t => let '(s1, r) := m_step s o in let '(s2, rs) := m_run s1 t in (s2, r ++ rs)
  end.
Definition m_start (max : N) : mstate := mkMS (mkMP max []) 0 [].
Definition m_final (max : N) (ops : list mop) : mstate := fst (m_run (m_start max) ops).
Definition m_observe (max : N) (ops : list mop) : list (option Z) := snd (m_run (m_start max) ops).
