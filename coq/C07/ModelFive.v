(* C07 mechanism model of the five-level pool family (src/memory/five_level_pool.rs), sequential semantics.

   One parametric model, instantiated by `f_kind`:
     KNoLock    NoLockingPool      (alloc, free with the end-of-memory merge, used_memory / fragment_size accounting)
     KMutex     MutexBasedPool     (alloc_from_fast_bin / alloc_from_skip_list / free_to_fast_bin / free_to_skip_list)
     KLockFree  LockFreePool       (the CAS loops run without interference: same sequential semantics as KMutex)
     KFixedCap  FixedCapacityPool  (capacity check on used_memory in front of a NoLockingPool whose initial_capacity
                                    is max_capacity; remaining_capacity)
   Shared offset arithmetic, exactly as written in the code:
     align_up(size)          = (size + alignment - 1) & !(alignment - 1)         [align_up5, with N.ldiff]
     bin_index               = aligned_size / alignment - 1                       [bin5]
     number of fast bins     = max_fast_block_size / alignment                    [nbins5]
     the block size of a bin = (bin_index + 1) * alignment                        [class5, the inverse of bin5]
     alloc_from_end          : can_allocate (checked_add, <= capacity), MemOffset::new(memory.size), size += aligned
     large blocks            : bump only; free_to_skip_list only counts (the block is never reused)
   A free list is an intrusive stack threaded through the first 4 bytes of the freed blocks, one per bin
   (Vec<FreeListHead>, guarded by `bin_index < free_lists.len()`).  Here the whole vector of stacks is ONE list of
   (bin_index, offset) pairs in push order (newest first); popping bin b removes the first pair whose bin is b - the
   per-bin LIFO order is exactly that of the code, and the `bin_index < len` guard is kept as `b <? nbins5`.
   The abstraction is exact as long as no client write hits a free block (theorem five_link_write_safe + the invariant).

   Two variants of the code:
     Pinned  the tree as pinned: the constructors accept every power-of-two alignment and every capacity, and
             MemOffset::new truncates the offset to 32 bits (`offset as u32`; a debug_assert in checked builds);
     Fixed   after the fix: commits: the constructors refuse alignment < 4 (the 4-byte free-list link does not fit
             a smaller block) and capacities above u32::MAX (a MemOffset cannot address them).

   Definitions only - no proofs in this file. *)
From ZV.Common Require Import Base Run.
From ZV.C07 Require Import Model.
Open Scope N_scope.

Inductive fkind := KNoLock | KMutex | KLockFree | KFixedCap.
(* NoLockingPool (also inside FixedCapacityPool) merges a block freed at the end of used memory and keeps used_memory *)
Definition has_merge (k : fkind) : bool := match k with KNoLock | KFixedCap => true | _ => false end.

(* f_cap: initial_capacity; for KFixedCap: max_capacity = fixed_capacity.unwrap_or(initial_capacity) *)
Record fcfg := mkFC { f_kind : fkind; f_al : N; f_cap : N; f_fast : N }.

Definition align_up5 (al s : N) : N := N.ldiff (s + al - 1) (al - 1).
Definition nbins5 (c : fcfg) : N := f_fast c / f_al c.
Definition bin5 (c : fcfg) (a : N) : N := a / f_al c - 1.
Definition class5 (c : fcfg) (b : N) : N := (b + 1) * f_al c.

(* Layout::from_size_align(capacity, alignment): alignment a power of two, the rounded-up size fits isize *)
Definition pow2b (al : N) : bool := (0 <? al) && (al =? 2 ^ N.log2 al).
Definition U32MAX : N := 4294967295.
Definition new_ok5 (v : variant) (c : fcfg) : bool :=
  pow2b (f_al c) && (align_up5 (f_al c) (f_cap c) <? W63) &&
  match v with Pinned => true | Fixed => (4 <=? f_al c) && (f_cap c <=? U32MAX) end.

(* top5 = memory.size; fl5 = the free lists; used5 = used_memory (NoLockingPool only, 0 otherwise);
   frag5 = fragment_size *)
Record fst5 := mk5 { top5 : N; fl5 : list (N * N); used5 : N; frag5 : N }.
Definition init5 : fst5 := mk5 0 [] 0 0.

Definition addu (k : fkind) (x d : N) : N := if has_merge k then x + d else x.
Definition subu (k : fkind) (x d : N) : N := if has_merge k then x - d else x.

(* MemOffset::new(offset) *)
Definition mem_offset (v : variant) (x : N) : N := match v with Pinned => x mod W32 | Fixed => x end.

(* alloc_from_end / the "allocate from end" tail of alloc_from_fast_bin / alloc_from_skip_list / alloc_from_huge_mutex *)
Definition alloc_end5 (v : variant) (c : fcfg) (p : fst5) (a : N) : option N * fst5 :=
  if top5 p + a <=? f_cap c
  then (Some (mem_offset v (top5 p)), mk5 (top5 p + a) (fl5 p) (addu (f_kind c) (used5 p) a) (frag5 p))
  else (None, p).

(* pop the stack of bin b *)
Fixpoint pop5 (b : N) (l : list (N * N)) : option (N * list (N * N)) :=
  match l with
  | [] => None
  | (b', o) :: t =>
      if b' =? b then Some (o, t)
      else match pop5 b t with Some (o', t') => Some (o', (b', o) :: t') | None => None end
  end.

(* alloc_from_fast_bin(aligned_size) *)
Definition alloc_fast5 (v : variant) (c : fcfg) (p : fst5) (a : N) : option N * fst5 :=
  let b := bin5 c a in
  if b <? nbins5 c then
    match pop5 b (fl5 p) with
    | Some (o, rest) => (Some o, mk5 (top5 p) rest (addu (f_kind c) (used5 p) a) (frag5 p - a))
    | None => alloc_end5 v c p a
    end
  else alloc_end5 v c p a.

(* NoLockingPool / MutexBasedPool / LockFreePool :: alloc(size) *)
Definition alloc_inner5 (v : variant) (c : fcfg) (p : fst5) (size : N) : option N * fst5 :=
  if (size =? 0) || (W63 <=? size) then (None, p)
  else
    let a := align_up5 (f_al c) size in
    if a <=? f_fast c then alloc_fast5 v c p a else alloc_end5 v c p a.

(* alloc(size) of the pool of kind f_kind c; FixedCapacityPool checks used_memory.saturating_add(aligned) against
   max_capacity and passes the *aligned* size on to its NoLockingPool, which aligns it again *)
Definition alloc5 (v : variant) (c : fcfg) (p : fst5) (size : N) : option N * fst5 :=
  match f_kind c with
  | KFixedCap =>
      if (size =? 0) || (W63 <=? size) then (None, p)
      else
        let a := align_up5 (f_al c) size in
        if f_cap c <? N.min (used5 p + a) (W64 - 1) then (None, p) else alloc_inner5 v c p a
  | _ => alloc_inner5 v c p size
  end.

(* free(offset, size); true = Ok(()) *)
Definition free5 (c : fcfg) (p : fst5) (off size : N) : bool * fst5 :=
  if (size =? 0) || (W63 <=? size) then (false, p)
  else
    let a := align_up5 (f_al c) size in
    if has_merge (f_kind c) && (off + a =? top5 p)
    then (true, mk5 off (fl5 p) (used5 p - a) (frag5 p))                 (* block at the end of used memory *)
    else if a <=? f_fast c then
      let b := bin5 c a in
      if b <? nbins5 c
      then (true, mk5 (top5 p) ((b, off) :: fl5 p) (subu (f_kind c) (used5 p) a) (frag5 p + a))   (* push *)
      else (true, p)
    else (true, mk5 (top5 p) (fl5 p) (subu (f_kind c) (used5 p) a) (frag5 p + a)).   (* free_to_skip_list: counted only *)

(* FixedCapacityPool::remaining_capacity *)
Definition remaining5 (c : fcfg) (p : fst5) : N := f_cap c - used5 p.

(* Histories: the client keeps its live allocations (offset, requested size) in allocation order;
   F5 k frees the (k mod n)-th of them with the size it was allocated with. *)
Inductive op5 := A5 (size : N) | F5 (k : N).
Record st5 := mkS5 { p5 : fst5; live5 : list (N * N) }.

Definition step5 (v : variant) (c : fcfg) (s : st5) (o : op5) : st5 * option Z :=
  match o with
  | A5 size =>
      match alloc5 v c (p5 s) size with
      | (Some off, p') => (mkS5 p' (live5 s ++ [(off, size)]), Some (Z.of_N off))
      | (None, p') => (mkS5 p' (live5 s), None)
      end
  | F5 k =>
      match live5 s with
      | [] => (s, Some 0%Z)
      | _ =>
          let i := N.to_nat (k mod nlen (live5 s)) in
          let '(off, req) := nth i (live5 s) (0, 0) in
          let '(ok, p') := free5 c (p5 s) off req in
          (mkS5 p' (remove_nth i (live5 s)), if ok then Some 0%Z else None)
      end
  end.

(* what the harness observes after every operation through stats(): used_memory (NoLockingPool: used_memory,
   the shared-memory pools: memory.size), fragment_size, and - when the pool is a FixedCapacityPool held directly
   (rem = true) - remaining_capacity() *)
Definition stats5 (c : fcfg) (rem : bool) (p : fst5) : list (option Z) :=
  [Some (Z.of_N (if has_merge (f_kind c) then used5 p else top5 p)); Some (Z.of_N (frag5 p))] ++
  (if rem then [Some (Z.of_N (remaining5 c p))] else []).

Fixpoint run5 (v : variant) (c : fcfg) (rem : bool) (s : st5) (ops : list op5) : st5 * list (option Z) :=
  match ops with
  | [] => (s, [])
  | o :: t => let '(s1, r) := step5 v c s o in
              let '(s2, rs) := run5 v c rem s1 t in (s2, r :: stats5 c rem (p5 s1) ++ rs)
  end.
Definition start5 : st5 := mkS5 init5 [].
Definition final5 (v : variant) (c : fcfg) (ops : list op5) : st5 := fst (run5 v c false start5 ops).
Definition observe5 (v : variant) (c : fcfg) (rem : bool) (ops : list op5) : list (option Z) := snd (run5 v c rem start5 ops).

(* the bytes a request of r bytes occupies *)
Definition cap5 (c : fcfg) (r : N) : N := align_up5 (f_al c) r.
Fixpoint live_bytes5 (c : fcfg) (l : list (N * N)) : N :=
  match l with [] => 0 | (_, r) :: t => cap5 c r + live_bytes5 c t end.

(* ------------------------------------------------------------------------------------------- *)
(* Level 4, ThreadLocalPool: a per-thread arena in front of a MutexBasedPool                   *)
(* ------------------------------------------------------------------------------------------- *)
(* ThreadLocalCache: hot_pos, hot_end = arena_size / 2, local_free_lists (Vec<Vec<usize>>, one per bin; here one list
   of (bin, offset) pairs, newest first).  Offsets returned for fast sizes are offsets into the thread's arena; when
   the hot half is exhausted, and for large sizes, they are offsets into the shared MutexBasedPool.  Both spaces
   start at 0 (finding five_tl_offset_alias).  free() sends every offset below arena_size to the local lists. *)
Record tl5 := mkT5 { t5_cache : option (N * list (N * N)); t5_glob : fst5 }.
Definition tl5_init : tl5 := mkT5 None init5.
Definition glob_cfg (c : fcfg) : fcfg := mkFC KMutex (f_al c) (f_cap c) (f_fast c).

Definition tl5_alloc (c : fcfg) (arena : N) (st : tl5) (size : N) : option N * tl5 :=
  if (size =? 0) || (W63 <=? size) then (None, st)
  else
    let a := align_up5 (f_al c) size in
    if a <=? f_fast c then
      let '(hot, fl) := match t5_cache st with Some x => x | None => (0, []) end in     (* the cache is created on first use *)
      let b := a / f_al c - 1 in
      match (if b <? nbins5 c then pop5 b fl else None) with
      | Some (o, rest) => (Some o, mkT5 (Some (hot, rest)) (t5_glob st))
      | None =>
          if hot + a <=? arena / 2 then (Some hot, mkT5 (Some (hot + a, fl)) (t5_glob st))
          else let '(r, g') := alloc5 Fixed (glob_cfg c) (t5_glob st) a in (r, mkT5 (Some (hot, fl)) g')
      end
    else let '(r, g') := alloc5 Fixed (glob_cfg c) (t5_glob st) a in (r, mkT5 (t5_cache st) g').

Definition tl5_free (c : fcfg) (arena : N) (st : tl5) (off size : N) : bool * tl5 :=
  if (size =? 0) || (W63 <=? size) then (false, st)
  else
    let a := align_up5 (f_al c) size in
    let to_glob := let '(ok, g') := free5 (glob_cfg c) (t5_glob st) off a in (ok, mkT5 (t5_cache st) g') in
    if a <=? f_fast c then
      match t5_cache st with
      | Some (hot, fl) =>
          if off <? arena then
            let b := a / f_al c - 1 in
            (true, mkT5 (Some (hot, if b <? nbins5 c then (b, off) :: fl else fl)) (t5_glob st))
          else to_glob
      | None => to_glob
      end
    else to_glob.

Record st5t := mkS5T { p5t : tl5; live5t : list (N * N) }.
Definition step5t (c : fcfg) (arena : N) (s : st5t) (o : op5) : st5t * option Z :=
  match o with
  | A5 size =>
      match tl5_alloc c arena (p5t s) size with
      | (Some off, p') => (mkS5T p' (live5t s ++ [(off, size)]), Some (Z.of_N off))
      | (None, p') => (mkS5T p' (live5t s), None)
      end
  | F5 k =>
      match live5t s with
      | [] => (s, Some 0%Z)
      | _ =>
          let i := N.to_nat (k mod nlen (live5t s)) in
          let '(off, req) := nth i (live5t s) (0, 0) in
          let '(ok, p') := tl5_free c arena (p5t s) off req in
          (mkS5T p' (remove_nth i (live5t s)), if ok then Some 0%Z else None)
      end
  end.
Fixpoint run5t (c : fcfg) (arena : N) (s : st5t) (ops : list op5) : st5t * list (option Z) :=
  match ops with
  | [] => (s, [])
  | o :: t => let '(s1, r) := step5t c arena s o in
              let '(s2, rs) := run5t c arena s1 t in (s2, r :: rs)
  end.
Definition final5t (c : fcfg) (arena : N) (ops : list op5) : st5t := fst (run5t c arena (mkS5T tl5_init []) ops).
Definition observe5t (c : fcfg) (arena : N) (ops : list op5) : list (option Z) := snd (run5t c arena (mkS5T tl5_init []) ops).
