(* C07 mechanism model of ThreadLocalMemoryPool (src/memory/threadlocal_pool.rs), the per-thread cache front end, as
   repaired (fix 78d2fd0): ThreadLocalCache::allocate / deallocate / allocate_new_area_or_fallback /
   size_to_list_index, HotArea::new / try_allocate, with TLS_SIZE_CLASSES (16 classes), arena_size and
   max_cached_chunks from the configuration.

   A block is (arena, offset): arena k is the k-th HotArea the cache created (a separate system allocation of
   arena_size bytes); the current hot area is the newest one, exhausted areas are retired but stay allocated
   (retired_areas) - in the model an arena index simply stays valid for ever, which is what the code does until the
   cache is dropped.  The 16 free lists (Vec<Vec<NonNull<u8>>>, push / pop at the end) are ONE list of
   (class index, block) pairs, newest first: popping class i removes the first pair of class i, the length of list
   i is the number of pairs of class i - the per-class LIFO order and the max_cached_chunks bound are exactly those
   of the code.  A request the cache cannot serve is refused (allocate_from_global has no bypass path); a block
   whose list is full, or that has no class, is dropped by deallocate (deallocate_to_global leaks it).

   Definitions only - no proofs in this file. *)
From ZV.Common Require Import Base Run.
From ZV.C07 Require Import Model.
Open Scope N_scope.

Definition TLS_SIZE_CLASSES : list N := [16; 32; 48; 64; 96; 128; 192; 256; 384; 512; 768; 1024; 1536; 2048; 3072; 4096].
(* size_to_list_index: position of the first class that is large enough *)
Definition tl_class_of (s : N) : option nat := bin_of_go TLS_SIZE_CLASSES 0 s.
Definition tl_class_size (i : nat) : N := nth i TLS_SIZE_CLASSES 0.

Record tlcfg := mkTLC { tl_arena : N; tl_maxc : N }.
Notation blk := (N * N)%type (only parsing).                      (* arena index, offset inside the arena *)
(* tl_hot: the current HotArea (its arena index, pos); tl_n: number of areas created so far *)
Record tlst := mkTL { tl_hot : option (N * N); tl_n : N; tl_fl : list (nat * blk) }.
Definition tl_init : tlst := mkTL None 0 [].

Fixpoint popk (i : nat) (l : list (nat * blk)) : option (blk * list (nat * blk)) :=
  match l with
  | [] => None
  | (j, b) :: t =>
      if Nat.eqb j i then Some (b, t)
      else match popk i t with Some (b', t') => Some (b', (j, b) :: t') | None => None end
  end.
Fixpoint countk (i : nat) (l : list (nat * blk)) : N :=
  match l with [] => 0 | (j, _) :: t => (if Nat.eqb j i then 1 else 0) + countk i t end.

(* size.checked_add(7)? & !7 *)
Definition align8 (s : N) : option N := if W64 <=? s + 7 then None else Some ((s + 7) / 8 * 8).

(* HotArea::try_allocate on the current hot area *)
Definition tl_try_hot (c : tlcfg) (st : tlst) (sz : N) : option (blk * tlst) :=
  match tl_hot st, align8 sz with
  | Some (ar, pos), Some a =>
      if pos + a <=? tl_arena c then Some ((ar, pos), mkTL (Some (ar, pos + a)) (tl_n st) (tl_fl st)) else None
  | _, _ => None
  end.
(* allocate_new_area_or_fallback: a request above arena_size / 4 is refused; otherwise a new area is created
   (Layout::from_size_align(arena_size, 8)) and becomes the hot area if the request fits *)
Definition tl_new_area (c : tlcfg) (st : tlst) (sz : N) : option (blk * tlst) :=
  if tl_arena c / 4 <? sz then None
  else if W63 <=? (tl_arena c + 7) / 8 * 8 then None
  else match align8 sz with
       | Some a => if a <=? tl_arena c
                   then Some ((tl_n st, 0), mkTL (Some (tl_n st, a)) (tl_n st + 1) (tl_fl st))
                   else None
       | None => None
       end.
Definition tl_carve (c : tlcfg) (st : tlst) (sz : N) : option blk * tlst :=
  match tl_try_hot c st sz with
  | Some (b, st') => (Some b, st')
  | None => match tl_new_area c st sz with
            | Some (b, st') => (Some b, st')
            | None => (None, st)
            end
  end.

(* ThreadLocalMemoryPool::allocate(size) -> ThreadLocalCache::allocate *)
Definition tl_alloc (c : tlcfg) (st : tlst) (size : N) : option blk * tlst :=
  if size =? 0 then (None, st)
  else match tl_class_of size with
       | Some i =>
           match popk i (tl_fl st) with
           | Some (b, rest) => (Some b, mkTL (tl_hot st) (tl_n st) rest)
           | None => tl_carve c st (tl_class_size i)         (* carved at the full class size *)
           end
       | None => tl_carve c st size
       end.

(* Drop of the RAII guard: ThreadLocalCache::deallocate(ptr, size); always Ok *)
Definition tl_free (c : tlcfg) (st : tlst) (b : blk) (size : N) : tlst :=
  match tl_class_of size with
  | Some i => if countk i (tl_fl st) <? tl_maxc c then mkTL (tl_hot st) (tl_n st) ((i, b) :: tl_fl st) else st
  | None => st
  end.

(* Histories, as for the other pools *)
Inductive tlop := TA (size : N) | TF (k : N).
Record tlstate := mkTLS { tl_p : tlst; tl_live : list (blk * N) }.

(* observation: allocation -> Some arena; Some offset (None; None when refused); free -> Some 0 *)
Definition tl_step (c : tlcfg) (s : tlstate) (o : tlop) : tlstate * list (option Z) :=
  match o with
  | TA size =>
      match tl_alloc c (tl_p s) size with
      | (Some b, p') => (mkTLS p' (tl_live s ++ [(b, size)]), [Some (Z.of_N (fst b)); Some (Z.of_N (snd b))])
      | (None, p') => (mkTLS p' (tl_live s), [None; None])
      end
  | TF k =>
      match tl_live s with
      | [] => (s, [Some 0%Z])
      | _ =>
          let i := N.to_nat (k mod nlen (tl_live s)) in
          let '(b, req) := nth i (tl_live s) ((0, 0), 0) in
          (mkTLS (tl_free c (tl_p s) b req) (remove_nth i (tl_live s)), [Some 0%Z])
      end
  end.
Fixpoint tl_run (c : tlcfg) (s : tlstate) (ops : list tlop) : tlstate * list (option Z) :=
  match ops with
  | [] => (s, [])
  | o :: t => let '(s1, r) := tl_step c s o in
              let '(s2, rs) := tl_run c s1 t in (s2, r ++ rs)
  end.
Definition tl_start : tlstate := mkTLS tl_init [].
Definition tl_final (c : tlcfg) (ops : list tlop) : tlstate := fst (tl_run c tl_start ops).
Definition tl_observe (c : tlcfg) (ops : list tlop) : list (option Z) := snd (tl_run c tl_start ops).

(* the bytes a request of r bytes occupies: its class size, or the 8-aligned request when it has no class *)
Definition tl_cap (r : N) : N :=
  match tl_class_of r with Some i => tl_class_size i | None => (r + 7) / 8 * 8 end.
