(* C07: the invariant of the (fixed) LockFreeMemoryPool model over every history of allocate / free. *)
From ZV.Common Require Import Base.
From ZV.C07 Require Import Model ProofsArith.
Open Scope N_scope.

Record Inv (s : state) : Prop := {
  inv_len : length (bins (pl s)) = 64%nat;
  inv_next : 8 <= next_off (pl s) /\ next_off (pl s) mod 8 = 0 /\ next_off (pl s) < W32 /\
             (next_off (pl s) = 8 \/ next_off (pl s) <= msize (pl s));
  inv_live : Forall (live_ok (next_off (pl s))) (live s);
  inv_bins : bins_ok (next_off (pl s)) FAST_BIN_SIZES (bins (pl s));
  inv_cov : forall x, cov_live (live s) x + cov_bins FAST_BIN_SIZES (bins (pl s)) x <= 1
}.

Lemma Inv_start m : Inv (start m).
Proof.
  constructor; cbn.
  - reflexivity.
  - unfold FIRST_OFFSET. repeat split; try lia; try reflexivity.
  - constructor.
  - vm_compute. intuition.
  - intros x. vm_compute. discriminate.
Qed.

(* ---------- bump ---------- *)
Lemma bump_fixed_ok p sz off p' :
  bump Fixed p sz = (Some off, p') ->
  off = next_off p /\ next_off p' = next_off p + sz /\ next_off p' <= msize p /\ next_off p' < W32 /\
  msize p' = msize p /\ bins p' = bins p.
Proof.
  unfold bump. destruct ((next_off p + sz <=? msize p) && (next_off p + sz <? W32)) eqn:E; intros H; inversion H; subst.
  apply andb_true_iff in E as [E1 E2]. apply N.leb_le in E1. apply N.ltb_lt in E2.
  cbn [set_next next_off msize bins]. repeat split; auto.
Qed.
Lemma bump_fixed_none p sz p' : bump Fixed p sz = (None, p') -> p' = p.
Proof. unfold bump. destruct (_ && _); intros H; inversion H; reflexivity. Qed.

(* a new block at the top of the bump region *)
Lemma Inv_new_block s size cap p' :
  Inv s -> 0 < size -> size < W63 -> block_cap size = cap ->
  bump Fixed (pl s) cap = (Some (next_off (pl s)), p') ->
  Inv (mkState p' (live s ++ [(next_off (pl s), size)])).
Proof.
  intros [Hlen Hnext Hlive Hbins Hcov] Hs Hs64 Hcap Hb.
  apply bump_fixed_ok in Hb as (_ & Hn & Hm & H32 & Hms & Hbn).
  destruct Hnext as (Hn8 & Hnm & _ & _).
  destruct (block_cap_props size Hs) as (Hc1 & Hc2 & Hc3). rewrite Hcap in *.
  constructor; cbn [pl live].
  - rewrite Hbn. exact Hlen.
  - rewrite Hn, Hms. repeat split; try lia.
  - apply Forall_app. split.
    + eapply Forall_impl; [|exact Hlive]. intros e. apply live_ok_mono. lia.
    + constructor; [|constructor]. unfold live_ok. rewrite Hcap. repeat split; try lia.
  - rewrite Hbn. eapply bins_ok_mono; [|exact Hbins]. lia.
  - intros x. rewrite cov_live_app, Hbn. cbn [cov_live]. rewrite Hcap.
    destruct (N.lt_ge_cases x (next_off (pl s))) as [Hlt|Hge].
    + rewrite inb_0_below by exact Hlt. specialize (Hcov x). lia.
    + rewrite (cov_live_above _ _ x Hlive Hge), (cov_bins_above _ _ _ x Hbins Hge).
      pose proof (inb_01 (next_off (pl s)) cap x). lia.
Qed.

(* ---------- allocate ---------- *)
Lemma alloc_inv s size r p' :
  Inv s -> alloc Fixed (pl s) size = (r, p') ->
  match r with
  | Some off => Inv (mkState p' (live s ++ [(off, size)]))
  | None => p' = pl s
  end.
Proof.
  intros HI. pose proof HI as [Hlen Hnext Hlive Hbins Hcov]. unfold alloc.
  destruct (N.eqb_spec size 0) as [->|Hnz]; [intros H; inversion H; reflexivity|].
  destruct (N.leb_spec W63 size) as [Hov|Hnov]; [intros H; inversion H; reflexivity|].
  assert (Hpos : 0 < size) by lia.
  destruct (N.leb_spec (align_size size) FAST_BIN_THRESHOLD) as [Hsmall|Hlarge].
  - destruct (bin_of (align_size size)) as [b|] eqn:Hb; [|intros H; inversion H; reflexivity].
    pose proof (block_cap_small size b Hsmall Hb) as Hcap.
    pose proof (bin_of_spec _ _ Hb) as (Hb64 & Hle & Hc8 & Hcm & Hct).
    destruct (nth b (bins (pl s)) []) as [|off rest] eqn:Hnth.
    + (* empty bin: carve the class size *)
      cbn [carve]. destruct (bump Fixed (pl s) (class_size b)) as [[o|] p1] eqn:Hbump; intros H; inversion H; subst.
      * pose proof (bump_fixed_ok _ _ _ _ Hbump) as (-> & _).
        eapply Inv_new_block; eauto.
      * eapply bump_fixed_none; eauto.
    + (* pop *)
      intros H; inversion H; subst. clear H.
      assert (Hbl : (b < length (bins (pl s)))%nat) by (rewrite Hlen; exact Hb64).
      assert (Hbs : (b < length FAST_BIN_SIZES)%nat) by (rewrite classes_len; exact Hb64).
      pose proof (bins_ok_nth _ _ _ b Hbins Hbs Hbl) as Hf. rewrite Hnth in Hf.
      inversion Hf as [|? ? Hoff Hrest]; subst.
      constructor; cbn [pl live set_bins bins next_off msize].
      * rewrite upd_length. exact Hlen.
      * exact Hnext.
      * apply Forall_app. split; [exact Hlive|]. constructor; [|constructor].
        unfold live_ok, bin_ok in *. rewrite Hcap. fold (class_size b) in Hoff. intuition lia.
      * apply bins_ok_upd; assumption.
      * intros x. rewrite cov_live_app. cbn [cov_live]. rewrite Hcap.
        pose proof (cov_bins_upd FAST_BIN_SIZES (bins (pl s)) b rest x Hbs Hbl) as E.
        rewrite Hnth in E. cbn [cov_offs] in E. fold (class_size b) in E. specialize (Hcov x). lia.
  - (* large block *)
    pose proof (block_cap_large size Hlarge) as Hcap.
    destruct (bump Fixed (pl s) (align_size size)) as [[o|] p1] eqn:Hbump; intros H; inversion H; subst.
    + pose proof (bump_fixed_ok _ _ _ _ Hbump) as (-> & _). eapply Inv_new_block; eauto.
    + eapply bump_fixed_none; eauto.
Qed.

(* ---------- deallocate of a live block ---------- *)
Lemma dealloc_live_inv s l1 l2 off req :
  Inv s -> live s = l1 ++ (off, req) :: l2 ->
  exists p', dealloc Fixed (pl s) (Z.of_N off) req = (true, p') /\ Inv (mkState p' (l1 ++ l2)).
Proof.
  intros [Hlen Hnext Hlive Hbins Hcov] Hl. rewrite Hl in *.
  apply Forall_app in Hlive as [Hl1 Hl2]. inversion Hl2 as [|? ? He Hl2']; subst.
  unfold live_ok in He. destruct He as (Hpos & H64 & Ho8 & Hom & Hend).
  destruct (block_cap_props req Hpos) as (Hc1 & Hc2 & Hc3).
  destruct Hnext as (Hn8 & Hnm & Hn32 & Hnms).
  assert (Hin : off < msize (pl s)) by lia.
  unfold dealloc.
  destruct (N.eqb_spec req 0) as [E|_]; [lia|].
  destruct (N.leb_spec W63 req) as [E|_]; [lia|].
  assert (Hrange : ((0 <=? Z.of_N off) && (Z.of_N off <? Z.of_N (msize (pl s))))%Z = true).
  { apply andb_true_iff. split; [apply Z.leb_le; lia|apply Z.ltb_lt; lia]. }
  rewrite Hrange.
  assert (Hcovx : forall x, cov_live (l1 ++ l2) x + inb off (block_cap req) x = cov_live (l1 ++ (off, req) :: l2) x).
  { intros x. rewrite !cov_live_app. cbn [cov_live]. lia. }
  destruct (N.leb_spec (align_size req) FAST_BIN_THRESHOLD) as [Hsmall|Hlarge].
  - destruct (bin_of_some _ Hsmall) as [b Hb]. rewrite Hb.
    pose proof (block_cap_small req b Hsmall Hb) as Hcap.
    pose proof (bin_of_spec _ _ Hb) as (Hb64 & _).
    assert (Hbl : (b < length (bins (pl s)))%nat) by (rewrite Hlen; exact Hb64).
    assert (Hbs : (b < length FAST_BIN_SIZES)%nat) by (rewrite classes_len; exact Hb64).
    eexists. split; [reflexivity|]. rewrite N2Z.id.
    constructor; cbn [pl live set_bins bins next_off msize].
    + rewrite upd_length. exact Hlen.
    + auto.
    + apply Forall_app. split; assumption.
    + apply bins_ok_upd; [assumption|assumption|]. constructor.
      * unfold bin_ok. fold (class_size b). rewrite <- Hcap. auto.
      * apply bins_ok_nth; assumption.
    + intros x.
      pose proof (cov_bins_upd FAST_BIN_SIZES (bins (pl s)) b (off :: nth b (bins (pl s)) []) x Hbs Hbl) as E.
      cbn [cov_offs] in E. fold (class_size b) in E. rewrite <- Hcap in E.
      specialize (Hcov x). specialize (Hcovx x). lia.
  - eexists. split; [reflexivity|].
    constructor; cbn [pl live]; auto.
    + apply Forall_app. split; assumption.
    + intros x. specialize (Hcov x). specialize (Hcovx x). lia.
Qed.

(* ---------- a pointer outside the arena ---------- *)
Lemma dealloc_foreign p off size :
  (off < 0 \/ Z.of_N (msize p) <= off)%Z ->
  snd (dealloc Fixed p off size) = p /\ (0 < size -> fst (dealloc Fixed p off size) = false).
Proof.
  intros Hout. unfold dealloc.
  destruct (N.eqb_spec size 0) as [->|Hnz]; [cbn; split; [reflexivity|lia]|].
  destruct (N.leb_spec W63 size); [cbn; auto|].
  assert (Hr : ((0 <=? off) && (off <? Z.of_N (msize p)))%Z = false).
  { apply andb_false_iff. destruct Hout; [left; apply Z.leb_gt; lia|right; apply Z.ltb_ge; lia]. }
  rewrite Hr.
  destruct (align_size size <=? FAST_BIN_THRESHOLD); [destruct (bin_of (align_size size))|]; cbn; auto.
Qed.

(* ---------- one step, whole histories ---------- *)
Lemma alloc_msize p size r p' : alloc Fixed p size = (r, p') -> msize p' = msize p.
Proof.
  unfold alloc. destruct (size =? 0); [intros H; inversion H; reflexivity|].
  destruct (W63 <=? size); [intros H; inversion H; reflexivity|].
  assert (Hb : forall sz, bump Fixed p sz = (r, p') -> msize p' = msize p).
  { intros sz. unfold bump. destruct (_ && _); intros H; inversion H; reflexivity. }
  destruct (align_size size <=? FAST_BIN_THRESHOLD); [|apply Hb].
  destruct (bin_of (align_size size)); [|intros H; inversion H; reflexivity].
  destruct (nth n (bins p) []); [apply Hb|intros H; inversion H; reflexivity].
Qed.
Lemma dealloc_msize p off size ok p' : dealloc Fixed p off size = (ok, p') -> msize p' = msize p.
Proof.
  unfold dealloc. destruct (size =? 0); [intros H; inversion H; reflexivity|].
  destruct (W63 <=? size); [intros H; inversion H; reflexivity|].
  destruct (align_size size <=? FAST_BIN_THRESHOLD); [|intros H; inversion H; reflexivity].
  destruct (bin_of (align_size size)); [|intros H; inversion H; reflexivity].
  destruct (_ && _)%Z; intros H; inversion H; reflexivity.
Qed.

Lemma step_inv s o : Inv s -> legal (msize (pl s)) o ->
  Inv (fst (step Fixed s o)) /\ msize (pl (fst (step Fixed s o))) = msize (pl s).
Proof.
  intros HI Hleg. destruct o as [size|k|off size]; cbn [step].
  - destruct (alloc Fixed (pl s) size) as [[off|] p'] eqn:Ha; cbn [fst pl].
    + pose proof (alloc_inv _ _ _ _ HI Ha) as HI'. cbn beta iota in HI'. split; [exact HI'|].
      eapply alloc_msize; eauto.
    + pose proof (alloc_inv _ _ _ _ HI Ha) as HI'. cbn beta iota in HI'. subst p'. destruct s; cbn in *. auto.
  - destruct (live s) as [|e t] eqn:Hl; [cbn [fst]; auto|]. rewrite <- Hl.
    set (i := N.to_nat (k mod nlen (live s))).
    assert (Hi : (i < length (live s))%nat).
    { subst i. rewrite nlen_length. assert (0 < length (live s))%nat by (rewrite Hl; cbn; lia). lia. }
    destruct (nth_split_remove (0, 0) (live s) i Hi) as (l1 & l2 & E1 & E2 & _).
    destruct (nth i (live s) (0, 0)) as [off req] eqn:Hn.
    destruct (dealloc_live_inv s l1 l2 off req HI E1) as (p' & Hd & HI').
    rewrite Hd. cbn [fst pl]. rewrite E2. split; [exact HI'|]. eapply dealloc_msize; eauto.
  - cbn [legal] in Hleg.
    destruct (dealloc_foreign (pl s) off size Hleg) as [Hp _].
    destruct (dealloc Fixed (pl s) off size) as [ok p'] eqn:Hd. cbn [snd] in Hp. subst p'.
    cbn [fst]. destruct s; cbn in *. auto.
Qed.

Lemma run_inv : forall ops s, Inv s -> Forall (legal (msize (pl s))) ops ->
  Inv (fst (run Fixed s ops)) /\ msize (pl (fst (run Fixed s ops))) = msize (pl s).
Proof.
  induction ops as [|o t IH]; intros s HI Hleg; cbn [run]; [cbn; auto|].
  inversion Hleg as [|? ? Ho Ht]; subst.
  destruct (step_inv s o HI Ho) as [HI1 Hm1].
  destruct (step Fixed s o) as [s1 r] eqn:Hs. cbn [fst] in *.
  rewrite <- Hm1 in Ht. specialize (IH s1 HI1 Ht). destruct (run Fixed s1 t) as [s2 rs]. cbn [fst] in *.
  destruct IH as [IH1 IH2]. split; [exact IH1|]. congruence.
Qed.

Lemma final_inv m ops : Forall (legal m) ops -> Inv (final Fixed m ops) /\ msize (pl (final Fixed m ops)) = m.
Proof. intros H. unfold final. apply (run_inv ops (start m)); [apply Inv_start|exact H]. Qed.
