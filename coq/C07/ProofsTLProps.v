(* C07, ThreadLocalMemoryPool: the statements of the property derived from the invariant. *)
From ZV.Common Require Import Base.
From ZV.C07 Require Import Model ModelTL ProofsArith ProofsIntervals ProofsTL.
Open Scope N_scope.

Lemma nth_error_ivtl S l i b r : nth_error l i = Some (b, r) -> nth_error (ivtl S l) i = Some (flat S b, tl_cap r).
Proof. intros H. unfold ivtl. rewrite nth_error_map, H. reflexivity. Qed.

(* live blocks: in different arenas or disjoint inside their arena (at their full class sizes), inside the arena,
   8-aligned, large enough, in an arena the cache still owns *)
Lemma threadlocal_inv_proof c ops :
  let s := tl_final c ops in
  (forall i j b1 r1 b2 r2, i <> j -> nth_error (tl_live s) i = Some (b1, r1) -> nth_error (tl_live s) j = Some (b2, r2) ->
     fst b1 <> fst b2 \/ disjoint (snd b1) (tl_cap r1) (snd b2) (tl_cap r2)) /\
  (forall b r, In (b, r) (tl_live s) ->
     0 < r /\ r <= tl_cap r /\ snd b mod 8 = 0 /\ snd b + tl_cap r <= tl_arena c /\ fst b < tl_n (tl_p s)).
Proof.
  intros s. pose proof (tl_final_inv c ops) as HI. fold s in HI.
  destruct HI as [Hhot Hlive Hfl Hlb Hfb Hcov]. split.
  - intros i j b1 r1 b2 r2 Hij H1 H2.
    pose proof (proj1 (Forall_forall _ _) Hlive _ (nth_error_In _ _ H1)) as (P1 & _ & F1 & _).
    pose proof (proj1 (Forall_forall _ _) Hlive _ (nth_error_In _ _ H2)) as (P2 & _ & F2 & _). cbn [fst snd] in *.
    pose proof (tl_cap_props r1 P1). pose proof (tl_cap_props r2 P2).
    destruct (N.eq_dec (fst b1) (fst b2)) as [E|NE]; [right|left; exact NE].
    assert (D : disjoint (flat (tl_arena c) b1) (tl_cap r1) (flat (tl_arena c) b2) (tl_cap r2)).
    { apply (cov_disjoint (ivtl (tl_arena c) (tl_live s)) i j); try lia; try (apply nth_error_ivtl; assumption).
      intros x. specialize (Hcov x). lia. }
    unfold disjoint, flat in *. rewrite E in D. lia.
  - intros b r Hin. pose proof (proj1 (Forall_forall _ _) Hlive _ Hin) as (P & M & F & A). cbn [fst snd] in *.
    pose proof (tl_cap_props r P). intuition lia.
Qed.

(* a request larger than an arena is refused and changes nothing, in every reachable state *)
Lemma threadlocal_refuses_proof c ops size : tl_arena c < size ->
  tl_alloc c (tl_p (tl_final c ops)) size = (None, tl_p (tl_final c ops)).
Proof.
  intros Hbig. pose proof (tl_final_inv c ops) as HI. set (s := tl_final c ops) in *.
  destruct (tl_alloc c (tl_p s) size) as [[b|] p'] eqn:Ha.
  - exfalso. pose proof (tl_alloc_inv c s size _ _ HI Ha) as HI'. cbn beta iota in HI'.
    destruct HI' as [_ Hlive _ _ _ _]. cbn [tl_live] in Hlive. apply Forall_app in Hlive as [_ Hl].
    inversion Hl as [|? ? (P & _ & F & _) _]; subst. cbn [fst snd] in *. pose proof (tl_cap_props size P). lia.
  - pose proof (tl_alloc_inv c s size _ _ HI Ha) as E. cbn beta iota in E. subst p'. reflexivity.
Qed.

(* a cached block is handed out only for a request of the class it was filed under, whose size holds the request *)
Lemma threadlocal_reissue_fits_proof c st size b st' :
  tl_alloc c st size = (Some b, st') -> tl_hot st' = tl_hot st -> tl_n st' = tl_n st ->
  exists i, tl_class_of size = Some i /\ In (i, b) (tl_fl st) /\ size <= tl_class_size i.
Proof.
  unfold tl_alloc. destruct (N.eqb_spec size 0) as [->|Hnz]; [discriminate|].
  assert (Hcarve : forall sz, 0 < sz -> tl_carve c st sz = (Some b, st') -> tl_hot st' = tl_hot st -> tl_n st' = tl_n st -> False).
  { intros sz Hsz Hc Hh Hn. apply tl_carve_cases in Hc. destruct Hc as [(E & _)|(a & Ea & Hc)]; [discriminate|].
    apply align8_some in Ea as (_ & Ea1 & _).
    destruct Hc as [(ar & pos & Ehot & _ & _ & ->)|(_ & _ & _ & ->)]; cbn [tl_hot tl_n] in *.
    - rewrite Ehot in Hh. inversion Hh. lia.
    - lia. }
  destruct (tl_class_of size) as [i|] eqn:Ec.
  - pose proof (tl_class_of_spec _ _ Ec) as (_ & Hle & H16 & _).
    destruct (popk i (tl_fl st)) as [[b' rest]|] eqn:Ep.
    + intros H _ _. inversion H; subst. exists i. split; [reflexivity|]. split; [|exact Hle].
      destruct (popk_split _ _ _ _ Ep) as (l1 & l2 & -> & _). apply in_or_app. right. left. reflexivity.
    + intros H Hh Hn. exfalso. eapply (Hcarve (tl_class_size i)); eauto. lia.
  - intros H Hh Hn. exfalso. eapply (Hcarve size); eauto. lia.
Qed.

(* dropping the guard of a live block returns it for reuse: the next request of its class gets it *)
Lemma threadlocal_free_reuse_proof c st b req i req2 :
  tl_class_of req = Some i -> countk i (tl_fl st) < tl_maxc c -> tl_class_of req2 = Some i -> 0 < req2 ->
  fst (tl_alloc c (tl_free c st b req) req2) = Some b.
Proof.
  intros Ec Hroom Ec2 Hp. unfold tl_free. rewrite Ec. apply N.ltb_lt in Hroom. rewrite Hroom.
  unfold tl_alloc. destruct (N.eqb_spec req2 0) as [E|_]; [lia|]. rewrite Ec2. cbn [tl_fl]. rewrite popk_head. reflexivity.
Qed.

(* exhausted arenas are retained: the number of arenas only grows, so an arena index once issued stays valid *)
Lemma tl_carve_n c st sz r st' : tl_carve c st sz = (r, st') -> tl_n st <= tl_n st'.
Proof.
  intros H. apply tl_carve_cases in H. destruct H as [(_ & ->)|(a & _ & [(ar & pos & _ & _ & _ & ->)|(_ & _ & _ & ->)])]; cbn [tl_n]; lia.
Qed.
Lemma tl_step_n c s o : tl_n (tl_p s) <= tl_n (tl_p (fst (tl_step c s o))).
Proof.
  destruct o as [size|k]; cbn [tl_step].
  - destruct (tl_alloc c (tl_p s) size) as [r p'] eqn:Ha.
    assert (Hn : tl_n (tl_p s) <= tl_n p').
    { unfold tl_alloc in Ha. destruct (size =? 0); [inversion Ha; lia|].
      destruct (tl_class_of size) as [i|]; [|eapply tl_carve_n; eauto].
      destruct (popk i (tl_fl (tl_p s))) as [[b rest]|]; [inversion Ha; cbn; lia|eapply tl_carve_n; eauto]. }
    destruct r; cbn [fst tl_p]; exact Hn.
  - destruct (tl_live s) as [|e t]; [cbn; lia|].
    destruct (nth _ _ _) as [b req]. cbn [fst tl_p]. unfold tl_free.
    destruct (tl_class_of req); [|lia]. destruct (_ <? _); cbn [tl_n]; lia.
Qed.
Lemma tl_run_n c : forall ops s, tl_n (tl_p s) <= tl_n (tl_p (fst (tl_run c s ops))).
Proof.
  induction ops as [|o t IH]; intros s; cbn [tl_run]; [cbn; lia|].
  pose proof (tl_step_n c s o) as H1. destruct (tl_step c s o) as [s1 r]. cbn [fst] in H1.
  specialize (IH s1). destruct (tl_run c s1 t) as [s2 rs]. cbn [fst] in *. lia.
Qed.
Lemma tl_run_app c : forall ops1 ops2 s, fst (tl_run c s (ops1 ++ ops2)) = fst (tl_run c (fst (tl_run c s ops1)) ops2).
Proof.
  induction ops1 as [|o t IH]; intros ops2 s; cbn [tl_run app]; [reflexivity|].
  destruct (tl_step c s o) as [s1 r]. specialize (IH ops2 s1).
  destruct (tl_run c s1 (t ++ ops2)) as [s2 rs]. destruct (tl_run c s1 t) as [s3 rs3]. cbn [fst] in *. exact IH.
Qed.
Lemma threadlocal_arenas_retained_proof c ops ops' b r :
  In (b, r) (tl_live (tl_final c ops)) -> fst b < tl_n (tl_p (tl_final c (ops ++ ops'))).
Proof.
  intros Hin. destruct (threadlocal_inv_proof c ops) as [_ Hw]. cbn zeta in Hw.
  destruct (Hw b r Hin) as (_ & _ & _ & _ & Hlt).
  unfold tl_final in *. rewrite tl_run_app. pose proof (tl_run_n c ops' (fst (tl_run c tl_start ops))). lia.
Qed.

(* ---------- the hypotheses are inhabited ---------- *)
Definition tl_example_cfg : tlcfg := mkTLC 256 2.
Definition tl_example_ops : list tlop := [TA 17; TA 33; TA 64; TA 64; TA 60; TF 0; TA 20; TA 100; TF 1; TF 1; TF 1].
(* two arenas, a block of class 32 carved for 17 bytes reissued for 20, a full class-64 list dropping the third block *)
Example threadlocal_history_example :
  tl_final tl_example_cfg tl_example_ops =
  mkTLS (mkTL (Some (1, 192)) 2 [(3%nat, (0, 144)); (3%nat, (0, 80))]) [((0, 32), 33); ((0, 0), 20); ((1, 64), 100)].
Proof. vm_compute. reflexivity. Qed.
Example threadlocal_refusal_example : tl_arena tl_example_cfg < 300.
Proof. vm_compute. reflexivity. Qed.
Example threadlocal_reuse_example :
  tl_class_of 33 = Some 2%nat /\ countk 2 (tl_fl (tl_p (tl_final tl_example_cfg tl_example_ops))) < tl_maxc tl_example_cfg /\
  tl_class_of 40 = Some 2%nat.
Proof. vm_compute. auto. Qed.
