(* C07, five-level pools: the offset arithmetic (align_up as written with a bit mask = rounding up to a multiple of a
   power-of-two alignment; bin index and its inverse; the fast-bin guard). *)
From ZV.Common Require Import Base.
From ZV.C07 Require Import Model ModelFive.
Open Scope N_scope.

(* rounding up to a multiple of al, the arithmetic reading of align_up *)
Definition rup (al s : N) : N := (s + al - 1) / al * al.

Lemma rup_le_top al s : 0 < al -> rup al s <= s + al - 1.
Proof. intros H. unfold rup. pose proof (N.mul_div_le (s + al - 1) al ltac:(lia)). lia. Qed.
Lemma rup_ge al s : 0 < al -> s <= rup al s.
Proof.
  intros H. unfold rup. pose proof (N.mul_succ_div_gt (s + al - 1) al ltac:(lia)) as G.
  rewrite N.mul_succ_r in G. lia.
Qed.
Lemma rup_lt al s : 0 < al -> rup al s < s + al.
Proof. intros H. pose proof (rup_le_top al s H). lia. Qed.
Lemma rup_mod al s : 0 < al -> rup al s mod al = 0.
Proof. intros H. unfold rup. apply N.mod_mul. lia. Qed.
Lemma rup_fix al a : 0 < al -> a mod al = 0 -> rup al a = a.
Proof.
  intros H Hm. unfold rup. apply N.div_exact in Hm; [|lia].
  set (q := a / al) in *. rewrite Hm at 1.
  replace (al * q + al - 1) with (q * al + (al - 1)) by lia.
  rewrite N.div_add_l by lia. rewrite N.div_small by lia. lia.
Qed.
Lemma rup_idem al s : 0 < al -> rup al (rup al s) = rup al s.
Proof. intros H. apply rup_fix; [exact H|apply rup_mod; exact H]. Qed.
Lemma rup_pos al s : 0 < al -> 0 < s -> al <= rup al s.
Proof.
  intros H Hs. pose proof (rup_ge al s H) as G. pose proof (rup_mod al s H) as M.
  apply N.div_exact in M; [|lia]. destruct (rup al s / al) as [|q] eqn:E; [lia|]. nia.
Qed.
Lemma rup_mono al s t : 0 < al -> s <= t -> rup al s <= rup al t.
Proof.
  intros H Hst. unfold rup. apply N.mul_le_mono_r. apply N.div_le_mono; lia.
Qed.

(* (size + al - 1) & !(al - 1) for al = 2^k *)
Lemma align_up5_rup k s : align_up5 (2 ^ k) s = rup (2 ^ k) s.
Proof.
  unfold align_up5, rup.
  replace (2 ^ k - 1) with (N.ones k) by (rewrite N.ones_equiv; lia).
  rewrite N.ldiff_ones_r, N.shiftr_div_pow2, N.shiftl_mul_pow2. reflexivity.
Qed.

Lemma pow2b_spec al : pow2b al = true -> 0 < al /\ exists k, al = 2 ^ k.
Proof.
  unfold pow2b. intros H. apply andb_true_iff in H as [H1 H2]. apply N.ltb_lt in H1. apply N.eqb_eq in H2.
  split; [exact H1|]. exists (N.log2 al). exact H2.
Qed.
Lemma pow2b_align al s : pow2b al = true -> align_up5 al s = rup al s.
Proof. intros H. apply pow2b_spec in H as [_ [k ->]]. apply align_up5_rup. Qed.

(* multiples of al *)
Lemma mult_add al x y : 0 < al -> x mod al = 0 -> y mod al = 0 -> (x + y) mod al = 0.
Proof. intros H Hx Hy. rewrite N.add_mod by lia. rewrite Hx, Hy. cbn. apply N.mod_0_l. lia. Qed.

(* the bin index and its inverse *)
Lemma class5_bin5 c a : 0 < f_al c -> a mod f_al c = 0 -> f_al c <= a -> class5 c (bin5 c a) = a.
Proof.
  intros H Hm Ha. unfold class5, bin5. apply N.div_exact in Hm; [|lia].
  assert (1 <= a / f_al c) by (destruct (a / f_al c); [lia|lia]). 
  replace (a / f_al c - 1 + 1) with (a / f_al c) by lia. lia.
Qed.
Lemma bin5_class5 c b : 0 < f_al c -> bin5 c (class5 c b) = b.
Proof. intros H. unfold class5, bin5. rewrite N.div_mul by lia. lia. Qed.
(* `bin_index < free_lists.len()` always holds on the fast path *)
Lemma bin5_in_range c a : 0 < f_al c -> a mod f_al c = 0 -> f_al c <= a -> a <= f_fast c -> bin5 c a < nbins5 c.
Proof.
  intros H Hm Ha Hf. unfold bin5, nbins5.
  pose proof (N.div_le_mono a (f_fast c) (f_al c) ltac:(lia) Hf).
  apply N.div_exact in Hm; [|lia]. assert (1 <= a / f_al c) by (destruct (a / f_al c); lia). lia.
Qed.
