(* C07 property theorems.  Statements + exact + Print Assumptions only.
   `final Fixed m ops` is the state of the LockFreeMemoryPool model (as fixed) with an arena of m bytes after the
   history ops; `live` is the client's list of live allocations (offset, requested size); `legal m` only excludes
   freeing a foreign pointer that lies inside the arena (client misbehaviour the pool cannot detect). *)
From ZV.Common Require Import Base.
From ZV.C07 Require Import Model ProofsArith ProofsLockFree ProofsProps ProofsBump ProofsFixedCap.
From ZV.C07 Require Import ModelFive ProofsFiveArith ProofsFive ProofsFiveProps Cases.
From ZV.C07 Require Import ModelTL ProofsTL ProofsTLProps.
From ZV.C07 Require Import ModelTiered ProofsTiered ProofsTieredProps.
From ZV.C07 Require Import ModelSecure ProofsSecure ProofsMemPool.
From ZV.C07 Require Import ModelMmap ProofsMmap.
Open Scope N_scope.

(* any two live allocations occupy disjoint byte ranges - for every history and every arena size *)
Theorem lockfree_live_disjoint :
  forall m ops, Forall (legal m) ops -> live_disjoint (live (final Fixed m ops)).
Proof. exact lockfree_live_disjoint_proof. Qed.
Check lockfree_live_disjoint :
  forall m ops, Forall (legal m) ops -> live_disjoint (live (final Fixed m ops)).
Print Assumptions lockfree_live_disjoint.

(* every live block is at least as large as requested, lies inside the arena (behind the 8-byte header),
   is 8-aligned and addressable by a 32-bit offset *)
Theorem lockfree_live_within :
  forall m ops o r, Forall (legal m) ops -> In (o, r) (live (final Fixed m ops)) ->
    8 <= o /\ o mod 8 = 0 /\ 0 < r /\ r <= block_cap r /\ o + block_cap r <= m /\ o + block_cap r < W32.
Proof. exact lockfree_live_within_proof. Qed.
Check lockfree_live_within :
  forall m ops o r, Forall (legal m) ops -> In (o, r) (live (final Fixed m ops)) ->
    8 <= o /\ o mod 8 = 0 /\ 0 < r /\ r <= block_cap r /\ o + block_cap r <= m /\ o + block_cap r < W32.
Print Assumptions lockfree_live_within.

(* a request beyond the capacity is refused and leaves the pool unchanged, in every reachable state *)
Theorem lockfree_refuses_over_capacity :
  forall m ops size, Forall (legal m) ops -> m < size ->
    alloc Fixed (pl (final Fixed m ops)) size = (None, pl (final Fixed m ops)).
Proof. exact lockfree_refuses_proof. Qed.
Check lockfree_refuses_over_capacity :
  forall m ops size, Forall (legal m) ops -> m < size ->
    alloc Fixed (pl (final Fixed m ops)) size = (None, pl (final Fixed m ops)).
Print Assumptions lockfree_refuses_over_capacity.

(* a pointer outside the arena is refused and leaves the pool unchanged (it stays usable) *)
Theorem lockfree_foreign_rejected :
  forall m ops off size, Forall (legal m) ops -> (off < 0 \/ Z.of_N m <= off)%Z -> 0 < size ->
    dealloc Fixed (pl (final Fixed m ops)) off size = (false, pl (final Fixed m ops)).
Proof. exact lockfree_foreign_proof. Qed.
Check lockfree_foreign_rejected :
  forall m ops off size, Forall (legal m) ops -> (off < 0 \/ Z.of_N m <= off)%Z -> 0 < size ->
    dealloc Fixed (pl (final Fixed m ops)) off size = (false, pl (final Fixed m ops)).
Print Assumptions lockfree_foreign_rejected.

(* freeing a live block is accepted, and a fast-bin block is returned for reuse: the next request of its class gets it *)
Theorem lockfree_free_reuse :
  forall m ops l1 l2 off req req2,
    Forall (legal m) ops -> live (final Fixed m ops) = l1 ++ (off, req) :: l2 ->
    exists p', dealloc Fixed (pl (final Fixed m ops)) (Z.of_N off) req = (true, p') /\
      (align_size req <= FAST_BIN_THRESHOLD -> 0 < req2 -> req2 < W63 ->
       bin_of (align_size req2) = bin_of (align_size req) ->
       fst (alloc Fixed p' req2) = Some off).
Proof. exact lockfree_free_reuse_proof. Qed.
Check lockfree_free_reuse :
  forall m ops l1 l2 off req req2,
    Forall (legal m) ops -> live (final Fixed m ops) = l1 ++ (off, req) :: l2 ->
    exists p', dealloc Fixed (pl (final Fixed m ops)) (Z.of_N off) req = (true, p') /\
      (align_size req <= FAST_BIN_THRESHOLD -> 0 < req2 -> req2 < W63 ->
       bin_of (align_size req2) = bin_of (align_size req) ->
       fst (alloc Fixed p' req2) = Some off).
Print Assumptions lockfree_free_reuse.

(* the 4-byte free-list link written into a block when it is freed stays inside that block and touches no
   other live block (so the other blocks keep their contents) *)
Theorem free_link_write_safe :
  forall m ops i j o1 r1 o2 r2, Forall (legal m) ops -> i <> j ->
    nth_error (live (final Fixed m ops)) i = Some (o1, r1) -> nth_error (live (final Fixed m ops)) j = Some (o2, r2) ->
    o1 + 4 <= o1 + block_cap r1 /\ disjoint o1 4 o2 r2.
Proof. exact free_link_write_safe_proof. Qed.
Check free_link_write_safe :
  forall m ops i j o1 r1 o2 r2, Forall (legal m) ops -> i <> j ->
    nth_error (live (final Fixed m ops)) i = Some (o1, r1) -> nth_error (live (final Fixed m ops)) j = Some (o2, r2) ->
    o1 + 4 <= o1 + block_cap r1 /\ disjoint o1 4 o2 r2.
Print Assumptions free_link_write_safe.

(* the pinned code: recycling under a neighbouring size of the same class, and the wrapping bump offset *)
Theorem recycle_refuted :
  exists m ops, Forall (legal m) ops /\
    live (final Pinned m ops) = [(144, 8); (8, 144)] /\ ~ live_disjoint (live (final Pinned m ops)).
Proof. exact recycle_refuted_proof. Qed.
Check recycle_refuted :
  exists m ops, Forall (legal m) ops /\
    live (final Pinned m ops) = [(144, 8); (8, 144)] /\ ~ live_disjoint (live (final Pinned m ops)).
Print Assumptions recycle_refuted.

Theorem offset_wrap_refuted :
  exists m ops, Forall (legal m) ops /\
    live (final Pinned m ops) = [(8, 8); (8, 8)] /\ ~ live_disjoint (live (final Pinned m ops)).
Proof. exact offset_wrap_refuted_proof. Qed.
Check offset_wrap_refuted :
  exists m ops, Forall (legal m) ops /\
    live (final Pinned m ops) = [(8, 8); (8, 8)] /\ ~ live_disjoint (live (final Pinned m ops)).
Print Assumptions offset_wrap_refuted.

(* BumpAllocator / BumpArena (fixed): for every buffer base address, capacity and history (incl. scopes, and at
   any point inside a scope) the live blocks are pairwise disjoint and inside the buffer *)
Theorem bump_live_disjoint_within :
  forall cap base ops inner,
    let s := fst (ballocs Fixed (fst (brun Fixed (bstart cap base) ops)) inner) in
    live_disjoint (blive s) /\ forall o sz, In (o, sz) (blive s) -> 0 < sz /\ o + sz <= cap.
Proof. exact bump_live_disjoint_within_proof. Qed.
Check bump_live_disjoint_within :
  forall cap base ops inner,
    let s := fst (ballocs Fixed (fst (brun Fixed (bstart cap base) ops)) inner) in
    live_disjoint (blive s) /\ forall o sz, In (o, sz) (blive s) -> 0 < sz /\ o + sz <= cap.
Print Assumptions bump_live_disjoint_within.

(* the address (base + offset) of every block satisfies the requested alignment, whatever the base address is *)
Theorem bump_alloc_aligned :
  forall s size align o s', balloc Fixed s size align = (Some o, s') ->
    0 < size /\ 0 < align /\ (bbase s + o) mod align = 0 /\ bcur s <= o /\ o + size <= bcap s /\
    s' = mkB (bcap s) (bbase s) (o + size) (blive s ++ [(o, size)]).
Proof. exact balloc_fixed_some. Qed.
Check bump_alloc_aligned :
  forall s size align o s', balloc Fixed s size align = (Some o, s') ->
    0 < size /\ 0 < align /\ (bbase s + o) mod align = 0 /\ bcur s <= o /\ o + size <= bcap s /\
    s' = mkB (bcap s) (bbase s) (o + size) (blive s ++ [(o, size)]).
Print Assumptions bump_alloc_aligned.

Theorem bump_refuses_over_capacity :
  forall v s size align, bcap s < size -> balloc v s size align = (None, s).
Proof. exact bump_refuses_proof. Qed.
Check bump_refuses_over_capacity :
  forall v s size align, bcap s < size -> balloc v s size align = (None, s).
Print Assumptions bump_refuses_over_capacity.

(* the pinned code aligns the offset, not the address *)
Theorem bump_align_refuted :
  exists base size align o s', base mod 8 = 0 /\
    balloc Pinned (bstart 100 base) size align = (Some o, s') /\ (base + o) mod align <> 0.
Proof. exact bump_align_refuted_proof. Qed.
Check bump_align_refuted :
  exists base size align o s', base mod 8 = 0 /\
    balloc Pinned (bstart 100 base) size align = (Some o, s') /\ (base + o) mod align <> 0.
Print Assumptions bump_align_refuted.

(* FixedCapacityMemoryPool: for every block size, block count, class table and history of allocate / guard drop, the
   live allocations are distinct whole blocks (disjoint at the full block size, which is >= every class size) inside
   the arena of nblocks * max_block_size bytes *)
Theorem fixedcap_live_disjoint_within :
  forall mx al nb ops, 0 < mx ->
    let s := fst (frun (fstart mx al nb) ops) in
    (forall i j o1 k1 o2 k2, i <> j ->
       nth_error (flive s) i = Some (o1, k1) -> nth_error (flive s) j = Some (o2, k2) -> disjoint o1 mx o2 mx) /\
    (forall o k, In (o, k) (flive s) -> o + mx <= nb * mx).
Proof. exact fixedcap_live_disjoint_within_proof. Qed.
Check fixedcap_live_disjoint_within :
  forall mx al nb ops, 0 < mx ->
    let s := fst (frun (fstart mx al nb) ops) in
    (forall i j o1 k1 o2 k2, i <> j ->
       nth_error (flive s) i = Some (o1, k1) -> nth_error (flive s) j = Some (o2, k2) -> disjoint o1 mx o2 mx) /\
    (forall o k, In (o, k) (flive s) -> o + mx <= nb * mx).
Print Assumptions fixedcap_live_disjoint_within.

(* ------------------------------------------------------------------------------------------- *)
(* five-level pool family (ModelFive.v)                                                        *)
(* ------------------------------------------------------------------------------------------- *)
(* five-level family (NoLockingPool / MutexBasedPool / LockFreePool, sequential / FixedCapacityPool): for every configuration
   the constructor accepts and every history of alloc / free, live blocks are pairwise disjoint at their full aligned sizes,
   at least as large as requested, aligned, inside the capacity and addressable by a 32-bit MemOffset *)
Theorem five_level_inv :
  forall c ops, new_ok5 Fixed c = true ->
    let s := final5 Fixed c ops in
    (forall i j o1 r1 o2 r2, i <> j -> nth_error (live5 s) i = Some (o1, r1) -> nth_error (live5 s) j = Some (o2, r2) ->
       disjoint o1 (cap5 c r1) o2 (cap5 c r2)) /\
    (forall o r, In (o, r) (live5 s) ->
       0 < r /\ r <= cap5 c r /\ o mod f_al c = 0 /\ o + cap5 c r <= f_cap c /\ o + cap5 c r <= U32MAX).
Proof. exact five_level_inv_proof. Qed.
Check five_level_inv :
  forall c ops, new_ok5 Fixed c = true ->
    let s := final5 Fixed c ops in
    (forall i j o1 r1 o2 r2, i <> j -> nth_error (live5 s) i = Some (o1, r1) -> nth_error (live5 s) j = Some (o2, r2) ->
       disjoint o1 (cap5 c r1) o2 (cap5 c r2)) /\
    (forall o r, In (o, r) (live5 s) ->
       0 < r /\ r <= cap5 c r /\ o mod f_al c = 0 /\ o + cap5 c r <= f_cap c /\ o + cap5 c r <= U32MAX).
Print Assumptions five_level_inv.

(* a request beyond the capacity is refused and leaves the pool unchanged, in every reachable state *)
Theorem five_level_refuses_over_capacity :
  forall c ops size, new_ok5 Fixed c = true -> f_cap c < size ->
    alloc5 Fixed c (p5 (final5 Fixed c ops)) size = (None, p5 (final5 Fixed c ops)).
Proof. exact five_level_refuses_proof. Qed.
Check five_level_refuses_over_capacity :
  forall c ops size, new_ok5 Fixed c = true -> f_cap c < size ->
    alloc5 Fixed c (p5 (final5 Fixed c ops)) size = (None, p5 (final5 Fixed c ops)).
Print Assumptions five_level_refuses_over_capacity.

(* refusal exactly when the capacity is exceeded: a valid request fails iff its bin is empty and the aligned size does not fit
   behind the used memory - also for FixedCapacityPool, whose used_memory check in front never refuses a servable request *)
Theorem five_level_refusal_exact :
  forall c ops size, new_ok5 Fixed c = true -> 0 < size -> size < W63 ->
    let p := p5 (final5 Fixed c ops) in
    let a := cap5 c size in
    fst (alloc5 Fixed c p size) = None <->
    ((a <= f_fast c -> pop5 (bin5 c a) (fl5 p) = None) /\ f_cap c < top5 p + a).
Proof. exact five_level_refusal_exact_proof. Qed.
Check five_level_refusal_exact :
  forall c ops size, new_ok5 Fixed c = true -> 0 < size -> size < W63 ->
    let p := p5 (final5 Fixed c ops) in
    let a := cap5 c size in
    fst (alloc5 Fixed c p size) = None <->
    ((a <= f_fast c -> pop5 (bin5 c a) (fl5 p) = None) /\ f_cap c < top5 p + a).
Print Assumptions five_level_refusal_exact.

(* size-class round trip: the class of a request holds it; bin index and class size are inverse; the fast-bin guard
   `bin_index < free_lists.len()` never fails on the fast path; a fresh block is carved at exactly the size of the class
   it is filed under when freed (or merged back at exactly that size) *)
Theorem five_level_class_roundtrip :
  forall c size, new_ok5 Fixed c = true -> 0 < size -> size < W63 ->
    let a := cap5 c size in
    let b := bin5 c a in
    size <= a /\ a < size + f_al c /\ a mod f_al c = 0 /\ cap5 c a = a /\ class5 c b = a /\ bin5 c (class5 c b) = b /\
    (a <= f_fast c -> b < nbins5 c) /\
    (forall p r p', alloc5 Fixed c p size = (r, p') -> top5 p' = top5 p \/ (top5 p' = top5 p + class5 c b /\ r = Some (top5 p))) /\
    (forall p off, a <= f_fast c -> exists p', free5 c p off size = (true, p') /\
       (fl5 p' = (b, off) :: fl5 p \/ (has_merge (f_kind c) = true /\ off + class5 c b = top5 p /\ top5 p' = off /\ fl5 p' = fl5 p))).
Proof. exact five_level_class_roundtrip_proof. Qed.
Check five_level_class_roundtrip :
  forall c size, new_ok5 Fixed c = true -> 0 < size -> size < W63 ->
    let a := cap5 c size in
    let b := bin5 c a in
    size <= a /\ a < size + f_al c /\ a mod f_al c = 0 /\ cap5 c a = a /\ class5 c b = a /\ bin5 c (class5 c b) = b /\
    (a <= f_fast c -> b < nbins5 c) /\
    (forall p r p', alloc5 Fixed c p size = (r, p') -> top5 p' = top5 p \/ (top5 p' = top5 p + class5 c b /\ r = Some (top5 p))) /\
    (forall p off, a <= f_fast c -> exists p', free5 c p off size = (true, p') /\
       (fl5 p' = (b, off) :: fl5 p \/ (has_merge (f_kind c) = true /\ off + class5 c b = top5 p /\ top5 p' = off /\ fl5 p' = fl5 p))).
Print Assumptions five_level_class_roundtrip.

(* freeing a live block is accepted; a fast block that is not merged back is handed out for the next request of its class *)
Theorem five_level_free_reuse :
  forall c ops l1 l2 off req, new_ok5 Fixed c = true ->
    live5 (final5 Fixed c ops) = l1 ++ (off, req) :: l2 ->
    let p := p5 (final5 Fixed c ops) in
    exists p', free5 c p off req = (true, p') /\
      (cap5 c req <= f_fast c -> ~ (has_merge (f_kind c) = true /\ off + cap5 c req = top5 p) ->
       forall req2, 0 < req2 -> req2 < W63 -> cap5 c req2 = cap5 c req -> fst (alloc5 Fixed c p' req2) = Some off).
Proof. exact five_level_free_reuse_proof. Qed.
Check five_level_free_reuse :
  forall c ops l1 l2 off req, new_ok5 Fixed c = true ->
    live5 (final5 Fixed c ops) = l1 ++ (off, req) :: l2 ->
    let p := p5 (final5 Fixed c ops) in
    exists p', free5 c p off req = (true, p') /\
      (cap5 c req <= f_fast c -> ~ (has_merge (f_kind c) = true /\ off + cap5 c req = top5 p) ->
       forall req2, 0 < req2 -> req2 < W63 -> cap5 c req2 = cap5 c req -> fst (alloc5 Fixed c p' req2) = Some off).
Print Assumptions five_level_free_reuse.

(* a block is re-issued only from the bin of the request's own class, whose block size holds the request *)
Theorem five_level_reissue_fits :
  forall c p size o p', new_ok5 Fixed c = true ->
    alloc5 Fixed c p size = (Some o, p') -> top5 p' = top5 p ->
    In (bin5 c (cap5 c size), o) (fl5 p) /\ size <= class5 c (bin5 c (cap5 c size)).
Proof. exact five_level_reissue_fits_proof. Qed.
Check five_level_reissue_fits :
  forall c p size o p', new_ok5 Fixed c = true ->
    alloc5 Fixed c p size = (Some o, p') -> top5 p' = top5 p ->
    In (bin5 c (cap5 c size), o) (fl5 p) /\ size <= class5 c (bin5 c (cap5 c size)).
Print Assumptions five_level_reissue_fits.

(* capacity accounting of NoLockingPool / FixedCapacityPool: used_memory is exactly the bytes of the live blocks (its
   subtractions never underflow) and remaining_capacity() is the capacity minus those bytes *)
Theorem five_level_used_exact :
  forall c ops, new_ok5 Fixed c = true -> has_merge (f_kind c) = true ->
    let s := final5 Fixed c ops in
    used5 (p5 s) = live_bytes5 c (live5 s) /\ remaining5 c (p5 s) + live_bytes5 c (live5 s) = f_cap c /\
    live_bytes5 c (live5 s) <= top5 (p5 s) /\ top5 (p5 s) <= f_cap c.
Proof. exact five_level_used_exact_proof. Qed.
Check five_level_used_exact :
  forall c ops, new_ok5 Fixed c = true -> has_merge (f_kind c) = true ->
    let s := final5 Fixed c ops in
    used5 (p5 s) = live_bytes5 c (live5 s) /\ remaining5 c (p5 s) + live_bytes5 c (live5 s) = f_cap c /\
    live_bytes5 c (live5 s) <= top5 (p5 s) /\ top5 (p5 s) <= f_cap c.
Print Assumptions five_level_used_exact.

(* fragment_size covers every block on a free list, so the `fragment_size -= size` of a pop never underflows (no panic) *)
Theorem five_level_frag_covers :
  forall c ops b o, new_ok5 Fixed c = true ->
    In (b, o) (fl5 (p5 (final5 Fixed c ops))) -> class5 c b <= frag5 (p5 (final5 Fixed c ops)).
Proof. exact five_level_frag_covers_proof. Qed.
Check five_level_frag_covers :
  forall c ops b o, new_ok5 Fixed c = true ->
    In (b, o) (fl5 (p5 (final5 Fixed c ops))) -> class5 c b <= frag5 (p5 (final5 Fixed c ops)).
Print Assumptions five_level_frag_covers.

(* the 4-byte free-list link written into a freed block is 4-aligned, inside that block and touches no other live block *)
Theorem five_link_write_safe :
  forall c ops i j o1 r1 o2 r2, new_ok5 Fixed c = true -> i <> j ->
    nth_error (live5 (final5 Fixed c ops)) i = Some (o1, r1) -> nth_error (live5 (final5 Fixed c ops)) j = Some (o2, r2) ->
    o1 mod 4 = 0 /\ o1 + 4 <= o1 + cap5 c r1 /\ disjoint o1 4 o2 (cap5 c r2).
Proof. exact five_link_write_safe_proof. Qed.
Check five_link_write_safe :
  forall c ops i j o1 r1 o2 r2, new_ok5 Fixed c = true -> i <> j ->
    nth_error (live5 (final5 Fixed c ops)) i = Some (o1, r1) -> nth_error (live5 (final5 Fixed c ops)) j = Some (o2, r2) ->
    o1 mod 4 = 0 /\ o1 + 4 <= o1 + cap5 c r1 /\ disjoint o1 4 o2 (cap5 c r2).
Print Assumptions five_link_write_safe.

(* pinned code: capacity above 4 GiB - the block at offset 2^32 is issued as MemOffset 0 again *)
Theorem five_offset_wrap_refuted :
  exists c ops, new_ok5 Pinned c = true /\
    live5 (final5 Pinned c ops) = [(0, 4294967288); (4294967288, 8); (0, 8)] /\
    ~ disjoint 0 4294967288 0 8.
Proof. exact five_offset_wrap_refuted_proof. Qed.
Check five_offset_wrap_refuted :
  exists c ops, new_ok5 Pinned c = true /\
    live5 (final5 Pinned c ops) = [(0, 4294967288); (4294967288, 8); (0, 8)] /\
    ~ disjoint 0 4294967288 0 8.
Print Assumptions five_offset_wrap_refuted.

(* pinned code: alignment 2 - the link of the freed block at offset 2 is misaligned and covers the live block at offset 4 *)
Theorem five_small_align_refuted :
  exists c ops, new_ok5 Pinned c = true /\
    live5 (final5 Pinned c ops) = [(0, 2); (2, 2); (4, 2)] /\
    2 mod 4 <> 0 /\ ~ disjoint 2 4 4 (cap5 c 2).
Proof. exact five_small_align_refuted_proof. Qed.
Check five_small_align_refuted :
  exists c ops, new_ok5 Pinned c = true /\
    live5 (final5 Pinned c ops) = [(0, 2); (2, 2); (4, 2)] /\
    2 mod 4 <> 0 /\ ~ disjoint 2 4 4 (cap5 c 2).
Print Assumptions five_small_align_refuted.

(* level 4 of the family (ThreadLocalPool), the code as it is: an offset into the per-thread arena and an offset into the shared
   pool are both 0 - two live blocks carry the same MemOffset (finding five_tl_offset_alias) *)
Theorem five_tl_offset_alias_refuted :
  exists c arena ops, new_ok5 Fixed c = true /\
    live5t (final5t c arena ops) = [(0, 8); (0, 1024)] /\ ~ disjoint 0 8 0 1024.
Proof. exact five_tl_offset_alias_refuted_proof. Qed.
Check five_tl_offset_alias_refuted :
  exists c arena ops, new_ok5 Fixed c = true /\
    live5t (final5t c arena ops) = [(0, 8); (0, 1024)] /\ ~ disjoint 0 8 0 1024.
Print Assumptions five_tl_offset_alias_refuted.

(* ------------------------------------------------------------------------------------------- *)
(* ThreadLocalMemoryPool (ModelTL.v)                                                           *)
(* ------------------------------------------------------------------------------------------- *)
(* ThreadLocalMemoryPool (thread cache front end): for every arena size, cache bound and history of allocate / guard drop, two
   live blocks lie in different arenas or are disjoint at their full class sizes; every live block is at least as large
   as requested, 8-aligned, inside its arena, and its arena is one the cache still owns *)
Theorem threadlocal_inv :
  forall c ops,
    let s := tl_final c ops in
    (forall i j b1 r1 b2 r2, i <> j -> nth_error (tl_live s) i = Some (b1, r1) -> nth_error (tl_live s) j = Some (b2, r2) ->
       fst b1 <> fst b2 \/ disjoint (snd b1) (tl_cap r1) (snd b2) (tl_cap r2)) /\
    (forall b r, In (b, r) (tl_live s) ->
       0 < r /\ r <= tl_cap r /\ snd b mod 8 = 0 /\ snd b + tl_cap r <= tl_arena c /\ fst b < tl_n (tl_p s)).
Proof. exact threadlocal_inv_proof. Qed.
Check threadlocal_inv :
  forall c ops,
    let s := tl_final c ops in
    (forall i j b1 r1 b2 r2, i <> j -> nth_error (tl_live s) i = Some (b1, r1) -> nth_error (tl_live s) j = Some (b2, r2) ->
       fst b1 <> fst b2 \/ disjoint (snd b1) (tl_cap r1) (snd b2) (tl_cap r2)) /\
    (forall b r, In (b, r) (tl_live s) ->
       0 < r /\ r <= tl_cap r /\ snd b mod 8 = 0 /\ snd b + tl_cap r <= tl_arena c /\ fst b < tl_n (tl_p s)).
Print Assumptions threadlocal_inv.

(* a request larger than an arena is refused and leaves the cache unchanged, in every reachable state *)
Theorem threadlocal_refuses_over_capacity :
  forall c ops size, tl_arena c < size ->
    tl_alloc c (tl_p (tl_final c ops)) size = (None, tl_p (tl_final c ops)).
Proof. exact threadlocal_refuses_proof. Qed.
Check threadlocal_refuses_over_capacity :
  forall c ops size, tl_arena c < size ->
    tl_alloc c (tl_p (tl_final c ops)) size = (None, tl_p (tl_final c ops)).
Print Assumptions threadlocal_refuses_over_capacity.

(* a cached block is re-issued only from the list of the request's own class, whose block size holds the request *)
Theorem threadlocal_reissue_fits :
  forall c st size b st',
    tl_alloc c st size = (Some b, st') -> tl_hot st' = tl_hot st -> tl_n st' = tl_n st ->
    exists i, tl_class_of size = Some i /\ In (i, b) (tl_fl st) /\ size <= tl_class_size i.
Proof. exact threadlocal_reissue_fits_proof. Qed.
Check threadlocal_reissue_fits :
  forall c st size b st',
    tl_alloc c st size = (Some b, st') -> tl_hot st' = tl_hot st -> tl_n st' = tl_n st ->
    exists i, tl_class_of size = Some i /\ In (i, b) (tl_fl st) /\ size <= tl_class_size i.
Print Assumptions threadlocal_reissue_fits.

(* a dropped guard returns its block for reuse: while the class list has room the next request of the class gets that block *)
Theorem threadlocal_free_reuse :
  forall c st b req i req2,
    tl_class_of req = Some i -> countk i (tl_fl st) < tl_maxc c -> tl_class_of req2 = Some i -> 0 < req2 ->
    fst (tl_alloc c (tl_free c st b req) req2) = Some b.
Proof. exact threadlocal_free_reuse_proof. Qed.
Check threadlocal_free_reuse :
  forall c st b req i req2,
    tl_class_of req = Some i -> countk i (tl_fl st) < tl_maxc c -> tl_class_of req2 = Some i -> 0 < req2 ->
    fst (tl_alloc c (tl_free c st b req) req2) = Some b.
Print Assumptions threadlocal_free_reuse.

(* exhausted arenas are retained: the arena of a live block is still owned by the cache after any continuation of the history *)
Theorem threadlocal_arenas_retained :
  forall c ops ops' b r,
    In (b, r) (tl_live (tl_final c ops)) -> fst b < tl_n (tl_p (tl_final c (ops ++ ops'))).
Proof. exact threadlocal_arenas_retained_proof. Qed.
Check threadlocal_arenas_retained :
  forall c ops ops' b r,
    In (b, r) (tl_live (tl_final c ops)) -> fst b < tl_n (tl_p (tl_final c (ops ++ ops'))).
Print Assumptions threadlocal_arenas_retained.

(* ------------------------------------------------------------------------------------------- *)
(* TieredMemoryAllocator (ModelTiered.v)                                                       *)
(* ------------------------------------------------------------------------------------------- *)
(* TieredMemoryAllocator: for every configuration and every size, the pool deallocate chooses (from the size alone) is the
   pool that served the allocation *)
Theorem tiered_same_class_on_free :
  forall c size,
    match route_alloc c size with
    | RSmall => free_pool RSmall size = Some 0%nat
    | RMedium k => free_pool (RMedium k) size = Some (S k)
    | _ => True
    end.
Proof. exact tiered_same_class_on_free_proof. Qed.
Check tiered_same_class_on_free :
  forall c size,
    match route_alloc c size with
    | RSmall => free_pool RSmall size = Some 0%nat
    | RMedium k => free_pool (RMedium k) size = Some (S k)
    | _ => True
    end.
Print Assumptions tiered_same_class_on_free.

(* the tier a size is routed to holds it: small pool chunks for <= 1 KiB, otherwise the smallest medium class that is large enough *)
Theorem tiered_route_fits :
  forall c size,
    match route_alloc c size with
    | RSmall => 0 < size /\ size <= pool_chunk c 0 /\ t_small c = true
    | RMedium k => 0 < size /\ (k < 5)%nat /\ size <= pool_chunk c (S k) /\ alloc_medium_index MEDIUM_CLASSES 0 size = Some k /\
                   (forall k', (k' < k)%nat -> nth k' MEDIUM_CLASSES 0 < size)
    | _ => True
    end.
Proof. exact route_alloc_fits. Qed.
Check tiered_route_fits :
  forall c size,
    match route_alloc c size with
    | RSmall => 0 < size /\ size <= pool_chunk c 0 /\ t_small c = true
    | RMedium k => 0 < size /\ (k < 5)%nat /\ size <= pool_chunk c (S k) /\ alloc_medium_index MEDIUM_CLASSES 0 size = Some k /\
                   (forall k', (k' < k)%nat -> nth k' MEDIUM_CLASSES 0 < size)
    | _ => True
    end.
Print Assumptions tiered_route_fits.

(* for every configuration and history of allocate / deallocate: a live pooled allocation holds a chunk created by a pool
   whose chunk size is at least the request, and it will be freed into that same pool; distinct live allocations hold
   distinct chunks; every pool's queue contains only chunks that pool created, none of them live *)
Theorem tiered_inv :
  forall c ops,
    let s := t_final c ops in
    (forall tag ch size, In (tag, ch, size) (tt_live s) -> pooled tag = true ->
       0 < size /\ size <= pool_chunk c (fst ch) /\ free_pool tag size = Some (fst ch)) /\
    (forall i j t1 c1 s1 t2 c2 s2, i <> j ->
       nth_error (tt_live s) i = Some (t1, c1, s1) -> nth_error (tt_live s) j = Some (t2, c2, s2) ->
       pooled t1 = true -> pooled t2 = true -> snd c1 <> snd c2) /\
    (forall j ch, (j < 6)%nat -> In ch (mp_q (nth j (ts_pools (tt_p s)) (mkMP 0 []))) ->
       fst ch = j /\ forall tag ch' size, In (tag, ch', size) (tt_live s) -> pooled tag = true -> snd ch' <> snd ch).
Proof. exact tiered_inv_proof. Qed.
Check tiered_inv :
  forall c ops,
    let s := t_final c ops in
    (forall tag ch size, In (tag, ch, size) (tt_live s) -> pooled tag = true ->
       0 < size /\ size <= pool_chunk c (fst ch) /\ free_pool tag size = Some (fst ch)) /\
    (forall i j t1 c1 s1 t2 c2 s2, i <> j ->
       nth_error (tt_live s) i = Some (t1, c1, s1) -> nth_error (tt_live s) j = Some (t2, c2, s2) ->
       pooled t1 = true -> pooled t2 = true -> snd c1 <> snd c2) /\
    (forall j ch, (j < 6)%nat -> In ch (mp_q (nth j (ts_pools (tt_p s)) (mkMP 0 []))) ->
       fst ch = j /\ forall tag ch' size, In (tag, ch', size) (tt_live s) -> pooled tag = true -> snd ch' <> snd ch).
Print Assumptions tiered_inv.

(* ------------------------------------------------------------------------------------------- *)
(* SecureMemoryPool chunk bookkeeping (ModelSecure.v)                                          *)
(* ------------------------------------------------------------------------------------------- *)
(* SecureMemoryPool chunk bookkeeping: for every local_cache_size and every history of allocate / guard drop, every chunk the
   pool ever created is in exactly one place - the local cache, the shared stack, or handed out - and nothing else is *)
Theorem secure_no_chunk_lost :
  forall lcache ops x,
    let s := s_final lcache ops in
    occ x (sc_cache (ss_p s)) + occ x (sc_stack (ss_p s)) + occ x (ss_live s) = if x <? sc_n (ss_p s) then 1 else 0.
Proof. exact secure_no_chunk_lost_proof. Qed.
Check secure_no_chunk_lost :
  forall lcache ops x,
    let s := s_final lcache ops in
    occ x (sc_cache (ss_p s)) + occ x (sc_stack (ss_p s)) + occ x (ss_live s) = if x <? sc_n (ss_p s) then 1 else 0.
Print Assumptions secure_no_chunk_lost.

(* dropping the guard of a live chunk is never reported as a double free: the chunk goes on top of the local cache or of the shared stack *)
Theorem secure_free_accepted :
  forall lcache ops l1 l2 ch,
    ss_live (s_final lcache ops) = l1 ++ ch :: l2 ->
    exists p', s_free lcache (ss_p (s_final lcache ops)) ch = (true, p') /\
      (sc_cache p' = ch :: sc_cache (ss_p (s_final lcache ops)) \/ sc_stack p' = ch :: sc_stack (ss_p (s_final lcache ops))).
Proof. exact secure_free_accepted_proof. Qed.
Check secure_free_accepted :
  forall lcache ops l1 l2 ch,
    ss_live (s_final lcache ops) = l1 ++ ch :: l2 ->
    exists p', s_free lcache (ss_p (s_final lcache ops)) ch = (true, p') /\
      (sc_cache p' = ch :: sc_cache (ss_p (s_final lcache ops)) \/ sc_stack p' = ch :: sc_stack (ss_p (s_final lcache ops))).
Print Assumptions secure_free_accepted.

(* the active-allocation table maps exactly the handed-out chunks to their generations (no stale entry, none missing) *)
Theorem secure_active_exact :
  forall lcache ops,
    let s := s_final lcache ops in
    (forall ch, In ch (ss_live s) -> act_lookup (fst ch) (sc_active (ss_p s)) = Some (snd ch)) /\
    (forall id g, act_lookup id (sc_active (ss_p s)) = Some g -> In (id, g) (ss_live s)).
Proof. exact secure_active_exact_proof. Qed.
Check secure_active_exact :
  forall lcache ops,
    let s := s_final lcache ops in
    (forall ch, In ch (ss_live s) -> act_lookup (fst ch) (sc_active (ss_p s)) = Some (snd ch)) /\
    (forall id g, act_lookup id (sc_active (ss_p s)) = Some g -> In (id, g) (ss_live s)).
Print Assumptions secure_active_exact.

(* deallocate_internal of a chunk that is not handed out (a second free, or a pointer the pool never issued) is reported as
   an error and leaves the pool unchanged - a model-level statement: the RAII guards make this path unreachable for clients *)
Theorem secure_double_free_detected :
  forall lcache ops ch,
    let s := s_final lcache ops in
    occ (fst ch) (ss_live s) = 0 -> s_free lcache (ss_p s) ch = (false, ss_p s).
Proof. exact secure_double_free_detected_proof. Qed.
Check secure_double_free_detected :
  forall lcache ops ch,
    let s := s_final lcache ops in
    occ (fst ch) (ss_live s) = 0 -> s_free lcache (ss_p s) ch = (false, ss_p s).
Print Assumptions secure_double_free_detected.

(* ------------------------------------------------------------------------------------------- *)
(* MemoryPool (pool.rs, model in ModelTiered.v)                                                *)
(* ------------------------------------------------------------------------------------------- *)
(* MemoryPool: for every max_chunks and history of allocate / deallocate the handed-out chunks are pairwise distinct, the
   queued chunks are pairwise distinct, no queued chunk is handed out, and the queue never exceeds max_chunks *)
Theorem mempool_inv :
  forall max ops,
    let s := m_final max ops in
    (forall i j c1 c2, i <> j -> nth_error (ms_live s) i = Some c1 -> nth_error (ms_live s) j = Some c2 -> snd c1 <> snd c2) /\
    (forall i j c1 c2, i <> j -> nth_error (mp_q (ms_p s)) i = Some c1 -> nth_error (mp_q (ms_p s)) j = Some c2 -> snd c1 <> snd c2) /\
    (forall c1 c2, In c1 (ms_live s) -> In c2 (mp_q (ms_p s)) -> snd c1 <> snd c2) /\
    nlen (mp_q (ms_p s)) <= max.
Proof. exact mempool_inv_proof. Qed.
Check mempool_inv :
  forall max ops,
    let s := m_final max ops in
    (forall i j c1 c2, i <> j -> nth_error (ms_live s) i = Some c1 -> nth_error (ms_live s) j = Some c2 -> snd c1 <> snd c2) /\
    (forall i j c1 c2, i <> j -> nth_error (mp_q (ms_p s)) i = Some c1 -> nth_error (mp_q (ms_p s)) j = Some c2 -> snd c1 <> snd c2) /\
    (forall c1 c2, In c1 (ms_live s) -> In c2 (mp_q (ms_p s)) -> snd c1 <> snd c2) /\
    nlen (mp_q (ms_p s)) <= max.
Print Assumptions mempool_inv.

(* ------------------------------------------------------------------------------------------- *)
(* MemoryMappedAllocator (ModelMmap.v)                                                         *)
(* ------------------------------------------------------------------------------------------- *)
(* MemoryMappedAllocator: for every min_mmap_size, page size (a power of two) and history of allocate / deallocate, every live
   region is at least as large as requested, live regions are pairwise distinct, and no cached region is live *)
Theorem mmap_inv :
  forall min pg ops, pow2b pg = true ->
    let s := mm_final min pg ops in
    (forall r size, In (r, size) (mms_live s) -> size <= fst r) /\
    (forall i j e1 e2, i <> j -> nth_error (mms_live s) i = Some e1 -> nth_error (mms_live s) j = Some e2 ->
       snd (fst e1) <> snd (fst e2)) /\
    (forall e r, In e (mms_live s) -> In r (mm_cache (mms_p s)) -> snd (fst e) <> snd r).
Proof. exact mmap_inv_proof. Qed.
Check mmap_inv :
  forall min pg ops, pow2b pg = true ->
    let s := mm_final min pg ops in
    (forall r size, In (r, size) (mms_live s) -> size <= fst r) /\
    (forall i j e1 e2, i <> j -> nth_error (mms_live s) i = Some e1 -> nth_error (mms_live s) j = Some e2 ->
       snd (fst e1) <> snd (fst e2)) /\
    (forall e r, In e (mms_live s) -> In r (mm_cache (mms_p s)) -> snd (fst e) <> snd r).
Print Assumptions mmap_inv.

(* a cached region is handed out only for a request that rounds to the very size the region was mapped and cached with *)
Theorem mmap_reissue_fits :
  forall min pg st size r st', pow2b pg = true ->
    mm_alloc min pg st size = (Some (r, true), st') ->
    In r (mm_cache st) /\ mm_round pg size = Some (fst r) /\ size <= fst r.
Proof. exact mmap_reissue_fits_proof. Qed.
Check mmap_reissue_fits :
  forall min pg st size r st', pow2b pg = true ->
    mm_alloc min pg st size = (Some (r, true), st') ->
    In r (mm_cache st) /\ mm_round pg size = Some (fst r) /\ size <= fst r.
Print Assumptions mmap_reissue_fits.
