(* C07 property theorems.  Statements + exact + Print Assumptions only.
   `final Fixed m ops` is the state of the LockFreeMemoryPool model (as fixed) with an arena of m bytes after the
   history ops; `live` is the client's list of live allocations (offset, requested size); `legal m` only excludes
   freeing a foreign pointer that lies inside the arena (client misbehaviour the pool cannot detect). *)
From ZV.Common Require Import Base.
From ZV.C07 Require Import Model ProofsArith ProofsLockFree ProofsProps ProofsBump ProofsFixedCap.
Open Scope N_scope.

(* any two live allocations occupy disjoint byte ranges - for every history and every arena size *)
Theorem lockfree_live_disjoint :
  forall m ops, Forall (legal m) ops -> live_disjoint (live (final Fixed m ops)).
Proof. exact lockfree_live_disjoint_proof. Qed.
Check lockfree_live_disjoint :
  forall m ops, Forall (legal m) ops -> live_disjoint (live (final Fixed m ops)).
Print Assumptions lockfree_live_disjoint.

(* every live block is at least as large as requested, lies inside the arena (behind the 8-byte header),
   is 8-aligned and addressable by a 32-bit offset *)
Theorem lockfree_live_within :
  forall m ops o r, Forall (legal m) ops -> In (o, r) (live (final Fixed m ops)) ->
    8 <= o /\ o mod 8 = 0 /\ 0 < r /\ r <= block_cap r /\ o + block_cap r <= m /\ o + block_cap r < W32.
Proof. exact lockfree_live_within_proof. Qed.
Check lockfree_live_within :
  forall m ops o r, Forall (legal m) ops -> In (o, r) (live (final Fixed m ops)) ->
    8 <= o /\ o mod 8 = 0 /\ 0 < r /\ r <= block_cap r /\ o + block_cap r <= m /\ o + block_cap r < W32.
Print Assumptions lockfree_live_within.

(* a request beyond the capacity is refused and leaves the pool unchanged, in every reachable state *)
Theorem lockfree_refuses_over_capacity :
  forall m ops size, Forall (legal m) ops -> m < size ->
    alloc Fixed (pl (final Fixed m ops)) size = (None, pl (final Fixed m ops)).
Proof. exact lockfree_refuses_proof. Qed.
Check lockfree_refuses_over_capacity :
  forall m ops size, Forall (legal m) ops -> m < size ->
    alloc Fixed (pl (final Fixed m ops)) size = (None, pl (final Fixed m ops)).
Print Assumptions lockfree_refuses_over_capacity.

(* a pointer outside the arena is refused and leaves the pool unchanged (it stays usable) *)
Theorem lockfree_foreign_rejected :
  forall m ops off size, Forall (legal m) ops -> (off < 0 \/ Z.of_N m <= off)%Z -> 0 < size ->
    dealloc Fixed (pl (final Fixed m ops)) off size = (false, pl (final Fixed m ops)).
Proof. exact lockfree_foreign_proof. Qed.
Check lockfree_foreign_rejected :
  forall m ops off size, Forall (legal m) ops -> (off < 0 \/ Z.of_N m <= off)%Z -> 0 < size ->
    dealloc Fixed (pl (final Fixed m ops)) off size = (false, pl (final Fixed m ops)).
Print Assumptions lockfree_foreign_rejected.

(* freeing a live block is accepted, and a fast-bin block is returned for reuse: the next request of its class gets it *)
Theorem lockfree_free_reuse :
  forall m ops l1 l2 off req req2,
    Forall (legal m) ops -> live (final Fixed m ops) = l1 ++ (off, req) :: l2 ->
    exists p', dealloc Fixed (pl (final Fixed m ops)) (Z.of_N off) req = (true, p') /\
      (align_size req <= FAST_BIN_THRESHOLD -> 0 < req2 -> req2 < W63 ->
       bin_of (align_size req2) = bin_of (align_size req) ->
       fst (alloc Fixed p' req2) = Some off).
Proof. exact lockfree_free_reuse_proof. Qed.
Check lockfree_free_reuse :
  forall m ops l1 l2 off req req2,
    Forall (legal m) ops -> live (final Fixed m ops) = l1 ++ (off, req) :: l2 ->
    exists p', dealloc Fixed (pl (final Fixed m ops)) (Z.of_N off) req = (true, p') /\
      (align_size req <= FAST_BIN_THRESHOLD -> 0 < req2 -> req2 < W63 ->
       bin_of (align_size req2) = bin_of (align_size req) ->
       fst (alloc Fixed p' req2) = Some off).
Print Assumptions lockfree_free_reuse.

(* the 4-byte free-list link written into a block when it is freed stays inside that block and touches no
   other live block (so the other blocks keep their contents) *)
Theorem free_link_write_safe :
  forall m ops i j o1 r1 o2 r2, Forall (legal m) ops -> i <> j ->
    nth_error (live (final Fixed m ops)) i = Some (o1, r1) -> nth_error (live (final Fixed m ops)) j = Some (o2, r2) ->
    o1 + 4 <= o1 + block_cap r1 /\ disjoint o1 4 o2 r2.
Proof. exact free_link_write_safe_proof. Qed.
Check free_link_write_safe :
  forall m ops i j o1 r1 o2 r2, Forall (legal m) ops -> i <> j ->
    nth_error (live (final Fixed m ops)) i = Some (o1, r1) -> nth_error (live (final Fixed m ops)) j = Some (o2, r2) ->
    o1 + 4 <= o1 + block_cap r1 /\ disjoint o1 4 o2 r2.
Print Assumptions free_link_write_safe.

(* the pinned code: recycling under a neighbouring size of the same class, and the wrapping bump offset *)
Theorem recycle_refuted :
  exists m ops, Forall (legal m) ops /\
    live (final Pinned m ops) = [(144, 8); (8, 144)] /\ ~ live_disjoint (live (final Pinned m ops)).
Proof. exact recycle_refuted_proof. Qed.
Check recycle_refuted :
  exists m ops, Forall (legal m) ops /\
    live (final Pinned m ops) = [(144, 8); (8, 144)] /\ ~ live_disjoint (live (final Pinned m ops)).
Print Assumptions recycle_refuted.

Theorem offset_wrap_refuted :
  exists m ops, Forall (legal m) ops /\
    live (final Pinned m ops) = [(8, 8); (8, 8)] /\ ~ live_disjoint (live (final Pinned m ops)).
Proof. exact offset_wrap_refuted_proof. Qed.
Check offset_wrap_refuted :
  exists m ops, Forall (legal m) ops /\
    live (final Pinned m ops) = [(8, 8); (8, 8)] /\ ~ live_disjoint (live (final Pinned m ops)).
Print Assumptions offset_wrap_refuted.

(* BumpAllocator / BumpArena (fixed): for every buffer base address, capacity and history (incl. scopes, and at
   any point inside a scope) the live blocks are pairwise disjoint and inside the buffer *)
Theorem bump_live_disjoint_within :
  forall cap base ops inner,
    let s := fst (ballocs Fixed (fst (brun Fixed (bstart cap base) ops)) inner) in
    live_disjoint (blive s) /\ forall o sz, In (o, sz) (blive s) -> 0 < sz /\ o + sz <= cap.
Proof. exact bump_live_disjoint_within_proof. Qed.
Check bump_live_disjoint_within :
  forall cap base ops inner,
    let s := fst (ballocs Fixed (fst (brun Fixed (bstart cap base) ops)) inner) in
    live_disjoint (blive s) /\ forall o sz, In (o, sz) (blive s) -> 0 < sz /\ o + sz <= cap.
Print Assumptions bump_live_disjoint_within.

(* the address (base + offset) of every block satisfies the requested alignment, whatever the base address is *)
Theorem bump_alloc_aligned :
  forall s size align o s', balloc Fixed s size align = (Some o, s') ->
    0 < size /\ 0 < align /\ (bbase s + o) mod align = 0 /\ bcur s <= o /\ o + size <= bcap s /\
    s' = mkB (bcap s) (bbase s) (o + size) (blive s ++ [(o, size)]).
Proof. exact balloc_fixed_some. Qed.
Check bump_alloc_aligned :
  forall s size align o s', balloc Fixed s size align = (Some o, s') ->
    0 < size /\ 0 < align /\ (bbase s + o) mod align = 0 /\ bcur s <= o /\ o + size <= bcap s /\
    s' = mkB (bcap s) (bbase s) (o + size) (blive s ++ [(o, size)]).
Print Assumptions bump_alloc_aligned.

Theorem bump_refuses_over_capacity :
  forall v s size align, bcap s < size -> balloc v s size align = (None, s).
Proof. exact bump_refuses_proof. Qed.
Check bump_refuses_over_capacity :
  forall v s size align, bcap s < size -> balloc v s size align = (None, s).
Print Assumptions bump_refuses_over_capacity.

(* the pinned code aligns the offset, not the address *)
Theorem bump_align_refuted :
  exists base size align o s', base mod 8 = 0 /\
    balloc Pinned (bstart 100 base) size align = (Some o, s') /\ (base + o) mod align <> 0.
Proof. exact bump_align_refuted_proof. Qed.
Check bump_align_refuted :
  exists base size align o s', base mod 8 = 0 /\
    balloc Pinned (bstart 100 base) size align = (Some o, s') /\ (base + o) mod align <> 0.
Print Assumptions bump_align_refuted.

(* FixedCapacityMemoryPool: for every block size, block count, class table and history of allocate / guard drop, the
   live allocations are distinct whole blocks (disjoint at the full block size, which is >= every class size) inside
   the arena of nblocks * max_block_size bytes *)
Theorem fixedcap_live_disjoint_within :
  forall mx al nb ops, 0 < mx ->
    let s := fst (frun (fstart mx al nb) ops) in
    (forall i j o1 k1 o2 k2, i <> j ->
       nth_error (flive s) i = Some (o1, k1) -> nth_error (flive s) j = Some (o2, k2) -> disjoint o1 mx o2 mx) /\
    (forall o k, In (o, k) (flive s) -> o + mx <= nb * mx).
Proof. exact fixedcap_live_disjoint_within_proof. Qed.
Check fixedcap_live_disjoint_within :
  forall mx al nb ops, 0 < mx ->
    let s := fst (frun (fstart mx al nb) ops) in
    (forall i j o1 k1 o2 k2, i <> j ->
       nth_error (flive s) i = Some (o1, k1) -> nth_error (flive s) j = Some (o2, k2) -> disjoint o1 mx o2 mx) /\
    (forall o k, In (o, k) (flive s) -> o + mx <= nb * mx).
Print Assumptions fixedcap_live_disjoint_within.
