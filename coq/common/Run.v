(* Helpers used by harness-generated case files: run a checker over a list of
   cases and return the indices of those that disagree. *)
From ZV.Common Require Import Base.
Open Scope N_scope.

Fixpoint eqb_lz (a b : list Z) : bool :=
  match a, b with
  | [], [] => true
  | x :: a', y :: b' => Z.eqb x y && eqb_lz a' b'
  | _, _ => false
  end.
Definition eqb_olz (a b : option (list Z)) : bool :=
  match a, b with
  | None, None => true
  | Some x, Some y => eqb_lz x y
  | _, _ => false
  end.
Fixpoint eqb_ln (a b : list N) : bool :=
  match a, b with
  | [], [] => true
  | x :: a', y :: b' => N.eqb x y && eqb_ln a' b'
  | _, _ => false
  end.

Fixpoint mismatches_go {C} (ok : C -> bool) (i : N) (cs : list C) : list N :=
  match cs with
  | [] => []
  | c :: t => if ok c then mismatches_go ok (i + 1) t
              else i :: mismatches_go ok (i + 1) t
  end.
Definition mismatches {C} (ok : C -> bool) (cs : list C) : list N :=
  mismatches_go ok 0 cs.
