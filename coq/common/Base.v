(* Shared arithmetic facts: machine words as N with explicit wrap-around.
   Stdlib only.  No axioms. *)
From Coq Require Export List NArith ZArith Bool Lia ZifyBool ZifyNat ZifyN.
Export ListNotations.
Ltac Zify.zify_post_hook ::= Z.div_mod_to_equations.
Global Arguments N.add : simpl never.
Global Arguments N.sub : simpl never.
Global Arguments N.mul : simpl never.
Global Arguments N.div : simpl never.
Global Arguments N.modulo : simpl never.
Global Arguments N.pow : simpl never.
Global Arguments N.eqb : simpl never.
Global Arguments N.ltb : simpl never.
Global Arguments N.leb : simpl never.
Global Arguments N.lor : simpl never.
Global Arguments N.land : simpl never.
Global Arguments Z.add : simpl never.
Global Arguments Z.sub : simpl never.
Global Arguments Z.mul : simpl never.
Global Arguments Z.div : simpl never.
Global Arguments Z.modulo : simpl never.
Global Arguments Z.pow : simpl never.
Global Arguments Z.eqb : simpl never.
Global Arguments Z.ltb : simpl never.
Global Arguments Z.leb : simpl never.

Open Scope N_scope.

(* 2^64 as a literal so that lia sees a constant *)
Definition W64 : N := 18446744073709551616.
Definition W63 : N := 9223372036854775808.
Definition W32 : N := 4294967296.
Lemma W64_eq : W64 = 2^64. Proof. reflexivity. Qed.
Lemma W63_eq : W63 = 2^63. Proof. reflexivity. Qed.
Lemma W32_eq : W32 = 2^32. Proof. reflexivity. Qed.

Definition w64 (x : N) : N := x mod W64.

(* bitwise-or of disjoint bit ranges is addition *)
Lemma land_low_high a x s : a < 2^s -> N.land a (x * 2^s) = 0.
Proof.
  intros Ha. apply N.bits_inj_0; intros n; rewrite N.land_spec.
  destruct (N.ltb_spec n s) as [Hn|Hn].
  - rewrite N.mul_pow2_bits_low by assumption. apply Bool.andb_false_r.
  - destruct (N.eq_dec a 0) as [->|Hz]; [rewrite N.bits_0; reflexivity|].
    rewrite N.bits_above_log2; [reflexivity|].
    apply N.log2_lt_pow2 in Ha; lia.
Qed.

Lemma lor_disjoint_add a x s : a < 2^s -> N.lor a (x * 2^s) = a + x * 2^s.
Proof.
  intros Ha. symmetry.
  rewrite N.add_nocarry_lxor by (apply land_low_high; assumption).
  apply N.lxor_lor. apply land_low_high; assumption.
Qed.

Lemma pow2_pos (s : N) : 0 < 2^s.
Proof. apply N.neq_0_lt_0. apply N.pow_nonzero. discriminate. Qed.

Lemma pow2_split (a b : N) : 2^(a+b) = 2^a * 2^b.
Proof. apply N.pow_add_r. Qed.

(* list helpers *)
Fixpoint nlen {A} (l : list A) : N :=
  match l with [] => 0 | _ :: t => 1 + nlen t end.
Lemma nlen_app {A} (a b : list A) : nlen (a ++ b) = nlen a + nlen b.
Proof. induction a as [|x a IH]; cbn [nlen app]; lia. Qed.
Lemma nlen_length {A} (l : list A) : nlen l = N.of_nat (length l).
Proof. induction l as [|x l IH]; cbn [nlen length]; lia. Qed.

Definition is_byte (b : N) : Prop := b < 256.
Definition bytes_ok (l : list N) : Prop := Forall is_byte l.
