(* C17 mechanism layer M.  Definitions only.
   (1) LruMap (src/containers/specialized/lru_map.rs): node array with prev/next/is_valid,
       LruList head/tail/count, free-node stack, key -> node-index table.
   (2) ConcurrentLruMap (concurrent_lru_map.rs): shard = hash(key) & mask, each shard an LruMap.
   (3) LruPageCache (src/cache/basic_cache.rs + FileManager::read_page in src/cache/mod.rs):
       page table keyed by (file,page), invalidation tracker, eviction by oldest access, read loop.
   (4) CachedBlobStore get (src/blob_store/cached_store.rs) on top of (3).
   Machine integers are N; u32::MAX is the INVALID_NODE marker. *)
From ZV.Common Require Import Base Run.
From ZV.C17 Require Import Spec.
Open Scope N_scope.

(* ====================================================================== *)
(* (1) LruMap                                                             *)
(* ====================================================================== *)
Definition INVALID : N := 4294967295.          (* const INVALID_NODE: u32 = u32::MAX *)

Record node : Type := mkNode { nkey : N; nval : N; nprev : N; nnext : N; nvalid : bool }.

Definition upd {A} (f : N -> A) (i : N) (x : A) : N -> A := fun j => if j =? i then x else f j.

Definition set_prev (nd : N -> node) (i p : N) : N -> node :=
  upd nd i (mkNode (nkey (nd i)) (nval (nd i)) p (nnext (nd i)) (nvalid (nd i))).
Definition set_next (nd : N -> node) (i n : N) : N -> node :=
  upd nd i (mkNode (nkey (nd i)) (nval (nd i)) (nprev (nd i)) n (nvalid (nd i))).
Definition set_val (nd : N -> node) (i v : N) : N -> node :=
  upd nd i (mkNode (nkey (nd i)) v (nprev (nd i)) (nnext (nd i)) (nvalid (nd i))).
(* LruNode::reset: links cleared, is_valid = false; key and value stay *)
Definition reset_node (n : node) : node := mkNode (nkey n) (nval n) INVALID INVALID false.

Record lru : Type := mkLru {
  cap : N;                       (* config.capacity = nodes.len() *)
  nodes : N -> node;             (* nodes[i], meaningful for i < cap *)
  head : N; tail : N; count : N; (* LruList *)
  free : list N;                 (* free_nodes, top of the stack first *)
  hmap : N -> option N           (* hash_map: key -> node index *)
}.

Fixpoint nseq_down (n : nat) : list N :=        (* [n-1; ...; 0] *)
  match n with O => [] | S m => N.of_nat m :: nseq_down m end.

Definition default_node : node := mkNode 0 0 INVALID INVALID false.

(* with_config_and_callback: all nodes default, free_nodes = [0..cap-1] (popped from the back) *)
Definition lru_new (c : N) : lru :=
  mkLru c (fun _ => default_node) INVALID INVALID 0 (nseq_down (N.to_nat c)) (fun _ => None).

(* LruList::insert_head *)
Definition insert_head (s : lru) (i : N) : lru :=
  let old := head s in
  let nd1 := set_next (set_prev (nodes s) i INVALID) i old in
  if old =? INVALID
  then mkLru (cap s) nd1 i i (count s + 1) (free s) (hmap s)
  else mkLru (cap s) (set_prev nd1 old i) i (tail s) (count s + 1) (free s) (hmap s).

(* LruList::remove *)
Definition list_remove (s : lru) (i : N) : lru :=
  let p := nprev (nodes s i) in
  let n := nnext (nodes s i) in
  let nd1 := if p =? INVALID then nodes s else set_next (nodes s) p n in
  let h1 := if p =? INVALID then n else head s in
  let nd2 := if n =? INVALID then nd1 else set_prev nd1 n p in
  let t1 := if n =? INVALID then p else tail s in
  let nd3 := set_next (set_prev nd2 i INVALID) i INVALID in
  mkLru (cap s) nd3 h1 t1 (count s - 1) (free s) (hmap s).

(* LruList::move_to_head (already-head shortcut) *)
Definition move_to_head (s : lru) (i : N) : lru :=
  if head s =? i then s else insert_head (list_remove s i) i.

Definition with_nodes (s : lru) (nd : N -> node) : lru :=
  mkLru (cap s) nd (head s) (tail s) (count s) (free s) (hmap s).
Definition with_hmap (s : lru) (h : N -> option N) : lru :=
  mkLru (cap s) (nodes s) (head s) (tail s) (count s) (free s) h.
Definition with_free (s : lru) (f : list N) : lru :=
  mkLru (cap s) (nodes s) (head s) (tail s) (count s) f (hmap s).

Definition node_ok (s : lru) (i : N) : bool := (i <? cap s) && nvalid (nodes s i).

(* LruMap::get *)
Definition m_get (s : lru) (k : N) : lru * option N :=
  match hmap s k with
  | None => (s, None)
  | Some i =>
      if node_ok s i then
        let s1 := move_to_head s i in (s1, Some (nval (nodes s1 i)))
      else (s, None)
  end.

(* LruMap::evict_lru: None = Err; otherwise the state and the (key, value) given to the callback *)
Definition evict_lru (s : lru) : option (lru * (N * N)) :=
  let t := tail s in
  if t =? INVALID then None
  else if negb (nvalid (nodes s t)) then None     (* `!(idx as usize) < len` is always false *)
  else
    let k := nkey (nodes s t) in
    let v := nval (nodes s t) in
    let s1 := with_hmap s (upd (hmap s) k None) in
    let s2 := list_remove s1 t in
    let s3 := with_nodes s2 (upd (nodes s2) t (reset_node (nodes s2 t))) in
    Some (with_free s3 (t :: free s3), (k, v)).

(* LruMap::put *)
Definition m_put (s : lru) (k v : N) : lru * obs :=
  let existing :=
    match hmap s k with
    | Some i => if node_ok s i then Some i else None
    | None => None
    end in
  match existing with
  | Some i =>
      let old := nval (nodes s i) in
      let s1 := move_to_head (with_nodes s (set_val (nodes s) i v)) i in
      (s1, (RPut (Some old), []))
  | None =>
      let ev := if cap s <=? count s then
                  match evict_lru s with
                  | None => None
                  | Some (s1, kv) => Some (s1, [kv])
                  end
                else Some (s, []) in
      match ev with
      | None => (s, (RPutErr, []))
      | Some (s1, cb) =>
          match free s1 with
          | [] => (s1, (RPutErr, cb))                    (* allocate_node: free list empty *)
          | i :: fr =>
              let s2 := with_free s1 fr in
              let s3 := with_nodes s2 (upd (nodes s2) i (mkNode k v INVALID INVALID true)) in
              let s4 := insert_head s3 i in
              (with_hmap s4 (upd (hmap s4) k (Some i)), (RPut None, cb))
          end
      end
  end.

(* LruMap::remove *)
Definition m_remove (s : lru) (k : N) : lru * option N :=
  match hmap s k with
  | None => (s, None)
  | Some i =>
      let s0 := with_hmap s (upd (hmap s) k None) in
      if node_ok s0 i then
        let s1 := list_remove s0 i in
        let v := nval (nodes s1 i) in
        let s2 := with_nodes s1 (upd (nodes s1) i (reset_node (nodes s1 i))) in
        (with_free s2 (i :: free s2), Some v)
      else (s0, None)
  end.

(* LruMap::clear (after the fix: every node index goes back to the free list) *)
Definition m_clear (s : lru) : lru :=
  mkLru (cap s)
        (fun i => if nvalid (nodes s i) then reset_node (nodes s i) else nodes s i)
        INVALID INVALID 0
        (nseq_down (N.to_nat (cap s)))
        (fun _ => None).

Definition m_step (s : lru) (o : op) : lru * obs :=
  match o with
  | Get k => let '(s1, r) := m_get s k in (s1, (RGet r, []))
  | Put k v => m_put s k v
  | Remove k => let '(s1, r) := m_remove s k in (s1, (RRemove r, []))
  | Contains k => (s, (RContains (match hmap s k with Some _ => true | None => false end), []))
  | Clear => (m_clear s, (RClear, []))
  | Len => (s, (RLen (count s), []))
  end.

Fixpoint m_run (s : lru) (ops : list op) : lru * list obs :=
  match ops with
  | [] => (s, [])
  | o :: t => let '(s1, ob) := m_step s o in
              let '(s2, obs) := m_run s1 t in (s2, ob :: obs)
  end.

(* the recency order stored in the links: follow `next` from `head` *)
Fixpoint walk (fuel : nat) (nd : N -> node) (h : N) : list N :=
  match fuel with
  | O => []
  | S f => if h =? INVALID then [] else h :: walk f nd (nnext (nd h))
  end.
Definition abs_list (s : lru) : rl :=
  map (fun i => (nkey (nodes s i), nval (nodes s i))) (walk (N.to_nat (cap s)) (nodes s) (head s)).

(* ====================================================================== *)
(* (2) ConcurrentLruMap, LoadBalancingStrategy::Hash                      *)
(* ====================================================================== *)
(* shards as a function from shard index; sel k = hash_key(k) & shard_mask (the hasher is opaque) *)
Record cmap : Type := mkC { sel : N -> N; shard : N -> lru }.

Definition c_step (c : cmap) (nshards : nat) (o : op) : cmap * obs :=
  let on k := let j := sel c k in
              let '(s1, ob) := m_step (shard c j) o in (mkC (sel c) (upd (shard c) j s1), ob) in
  match o with
  | Get k => on k
  | Put k _ => on k
  | Remove k => on k
  | Contains k => on k
  | Clear => (mkC (sel c) (fun j => m_clear (shard c j)), (RClear, []))
  | Len => (c, (RLen (fold_right N.add 0 (map (fun j => count (shard c (N.of_nat j))) (seq 0 nshards))), []))
  end.

Fixpoint c_run (c : cmap) (n : nat) (ops : list op) : cmap * list obs :=
  match ops with
  | [] => (c, [])
  | o :: t => let '(c1, ob) := c_step c n o in
              let '(c2, obs) := c_run c1 n t in (c2, ob :: obs)
  end.

(* the sub-history of the operations routed to shard j *)
Definition routed (sl : N -> N) (j : N) (o : op) : bool :=
  match o with
  | Get k | Put k _ | Remove k | Contains k => sl k =? j
  | Clear => true
  | Len => false
  end.

(* ====================================================================== *)
(* (3) LruPageCache                                                       *)
(* ====================================================================== *)
Definition pkey := (N * N)%type.               (* (file_id, page_id) *)
Definition pkey_eqb (a b : pkey) : bool := (fst a =? fst b) && (snd a =? snd b).

Fixpoint plookup {A} (k : pkey) (l : list (pkey * A)) : option A :=
  match l with
  | [] => None
  | (k', x) :: t => if pkey_eqb k' k then Some x else plookup k t
  end.
Fixpoint premove {A} (k : pkey) (l : list (pkey * A)) : list (pkey * A) :=
  match l with
  | [] => []
  | (k', x) :: t => if pkey_eqb k' k then premove k t else (k', x) :: premove k t
  end.
Fixpoint pmem (k : pkey) (l : list pkey) : bool :=
  match l with [] => false | k' :: t => pkey_eqb k' k || pmem k t end.

Record pcache : Type := mkPc {
  psize : N;                                   (* PAGE_SIZE *)
  pcap : N;                                    (* config.capacity / PAGE_SIZE *)
  files : N -> option (list N);                (* FileManager: file id -> contents; None = unknown / virtual id *)
  inner : list (pkey * list N);                (* HashMap (file,page) -> page bytes *)
  inval : list pkey;                           (* tracker.invalidated_pages *)
  atimes : list (pkey * nat);                  (* tracker.access_times, Instant as a counter *)
  clock : nat
}.

Definition pc_new (ps capbytes : N) (fs : N -> option (list N)) : pcache :=
  mkPc ps (capbytes / ps) fs [] [] [] O.

(* FileManager::read_page + truncate(bytes_read): the bytes of page p that exist in the file *)
Definition page_of (ps : N) (f : list N) (p : N) : list N :=
  firstn (N.to_nat ps) (skipn (N.to_nat (p * ps)) f).

(* tracker.find_lru_page: key with the smallest access time *)
Fixpoint find_lru (l : list (pkey * nat)) : option (pkey * nat) :=
  match l with
  | [] => None
  | (k, t) :: r =>
      match find_lru r with
      | None => Some (k, t)
      | Some (k', t') => if (t <? t')%nat then Some (k, t) else Some (k', t')
      end
  end.

Definition set_atime (l : list (pkey * nat)) (k : pkey) (t : nat) := (k, t) :: premove k l.

(* LruPageCache::get_page *)
Definition get_page (c : pcache) (k : pkey) : pcache * list N :=
  let inner1 := if pmem k (inval c) then premove k (inner c) else inner c in
  match plookup k inner1 with
  | Some pg =>
      (mkPc (psize c) (pcap c) (files c) inner1 (inval c) (set_atime (atimes c) k (clock c)) (S (clock c)), pg)
  | None =>
      let pg := match files c (fst k) with
                | Some f => page_of (psize c) f (snd k)
                | None => []                                   (* read_page failed: empty page *)
                end in
      let '(inner2, inval2, at2) :=
        if pcap c <=? nlen inner1 then
          match find_lru (atimes c) with
          | Some (lk, _) => (premove lk inner1, lk :: inval c, premove lk (atimes c))
          | None =>
              match inner1 with
              | (k0, _) :: _ => (premove k0 inner1, k0 :: inval c, premove k0 (atimes c))
              | [] => (inner1, inval c, atimes c)
              end
          end
        else (inner1, inval c, atimes c) in
      (mkPc (psize c) (pcap c) (files c) ((k, pg) :: inner2) inval2 (set_atime at2 k (clock c)) (S (clock c)), pg)
  end.

(* the slice the read loop copies from one page (after the fix: clipped to the bytes the page has) *)
Definition page_chunk (pg : list N) (oip btc : N) : list N :=
  let page_end := oip + btc in
  let avail := N.min page_end (nlen pg) in
  if oip <? avail then firstn (N.to_nat (avail - oip)) (skipn (N.to_nat oip) pg) else [].

(* the `for page_id in start_page..=end_page` loop of LruPageCache::read; np = pages still to visit *)
Fixpoint read_loop (np : nat) (c : pcache) (fid page cur rem : N) (acc : list N) : pcache * list N :=
  match np with
  | O => (c, acc)
  | S np' =>
      let '(c1, pg) := get_page c (fid, page) in
      let oip := cur - page * psize c in
      let btc := N.min rem (psize c - oip) in
      let acc1 := acc ++ page_chunk pg oip btc in
      if rem - btc =? 0 then (c1, acc1)
      else read_loop np' c1 fid (page + 1) (cur + btc) (rem - btc) acc1
  end.

Definition page_span (ps off len : N) : N * nat :=
  let sp := off / ps in
  let ep := (off + len - 1) / ps in          (* end_offset.saturating_sub(1) *)
  (sp, N.to_nat (ep + 1 - sp)).

Definition pc_read_pages (c : pcache) (fid off len : N) : pcache * list N :=
  let '(sp, np) := page_span (psize c) off len in
  read_loop np c fid sp off len [].

(* LruPageCache::read: the request is first clamped to the size of an opened file *)
Definition pc_read (c : pcache) (fid off len : N) : pcache * list N :=
  match files c fid with
  | Some f => if nlen f <=? off then (c, [])
              else pc_read_pages c fid off (N.min len (nlen f - off))
  | None => pc_read_pages c fid off len          (* virtual file id: file_size fails, no clamp *)
  end.

Fixpoint prefetch_loop (np : nat) (c : pcache) (fid page : N) : pcache :=
  match np with
  | O => c
  | S np' => prefetch_loop np' (fst (get_page c (fid, page))) fid (page + 1)
  end.
Definition pc_prefetch (c : pcache) (fid off len : N) : pcache :=
  let '(sp, np) := page_span (psize c) off len in prefetch_loop np c fid sp.

(* invalidate_page: tracker.invalidate + remove_from_cache *)
Definition pc_invalidate_page (c : pcache) (k : pkey) : pcache :=
  mkPc (psize c) (pcap c) (files c) (premove k (inner c)) (k :: inval c) (premove k (atimes c)) (clock c).
Fixpoint inval_loop (np : nat) (c : pcache) (fid page : N) : pcache :=
  match np with
  | O => c
  | S np' => inval_loop np' (pc_invalidate_page c (fid, page)) fid (page + 1)
  end.
Definition pc_invalidate_range (c : pcache) (fid off len : N) : pcache :=
  let '(sp, np) := page_span (psize c) off len in inval_loop np c fid sp.

(* the file of id fid is rewritten in place (same size) in [off, off+|data|), then the range is invalidated
   explicitly: what the property calls "after an explicit invalidation" *)
Definition overwrite (f : list N) (off : N) (data : list N) : list N :=
  firstn (N.to_nat off) f ++ data ++ skipn (N.to_nat off + length data) f.
Definition with_files (c : pcache) (fs : N -> option (list N)) : pcache :=
  mkPc (psize c) (pcap c) fs (inner c) (inval c) (atimes c) (clock c).
Definition fs_overwrite (fs : N -> option (list N)) (fid off : N) (data : list N) : N -> option (list N) :=
  fun g => if g =? fid
           then match fs g with Some f => Some (overwrite f off data) | None => None end
           else fs g.
Definition pc_overwrite (c : pcache) (fid off : N) (data : list N) : pcache :=
  pc_invalidate_range (with_files c (fs_overwrite (files c) fid off data)) fid off (nlen data).

(* every cached page holds what the file holds *)
Definition coherent (c : pcache) : Prop :=
  forall k pg, plookup k (inner c) = Some pg ->
    pg = match files c (fst k) with Some f => page_of (psize c) f (snd k) | None => [] end.

Inductive pop : Type :=
| PRead (fid off len : N) | PPrefetch (fid off len : N)
| PInvPage (fid page : N) | PInvRange (fid off len : N)
| POverwrite (fid off : N) (data : list N).

Definition pc_step (c : pcache) (o : pop) : pcache * list N :=
  match o with
  | PRead f off len => pc_read c f off len
  | PPrefetch f off len => (pc_prefetch c f off len, [])
  | PInvPage f p => (pc_invalidate_page c (f, p), [])
  | PInvRange f off len => (pc_invalidate_range c f off len, [])
  | POverwrite f off data => (pc_overwrite c f off data, [])
  end.
Fixpoint pc_run (c : pcache) (ops : list pop) : pcache * list (list N) :=
  match ops with
  | [] => (c, [])
  | o :: t => let '(c1, r) := pc_step c o in
              let '(c2, rs) := pc_run c1 t in (c2, r :: rs)
  end.

(* ====================================================================== *)
(* (4) CachedBlobStore::get over a virtual file id                        *)
(* ====================================================================== *)
(* metadata gives (offset, size); the cache is consulted first; has_data() is false for an empty buffer *)
Definition cached_get (c : pcache) (vfid : N) (meta : option (N * N)) (inner_get : list N) : pcache * list N :=
  match meta with
  | Some (off, size) =>
      let '(c1, buf) := pc_read c vfid off size in
      match buf with [] => (c1, inner_get) | _ => (c1, buf) end
  | None => (c, inner_get)
  end.

(* ====================================================================== *)
(* encodings used by the harness-generated case files                     *)
(* ====================================================================== *)
Definition dec_op (t : N * N * N) : op :=
  let '(c, k, v) := t in
  if c =? 0 then Get k else if c =? 1 then Put k v else if c =? 2 then Remove k
  else if c =? 3 then Contains k else if c =? 4 then Clear else Len.

Definition enc_opt (o : option N) : list Z :=
  match o with None => [0%Z] | Some v => [1%Z; Z.of_N v] end.
Definition enc_res (r : res) : list Z :=
  match r with
  | RGet o => enc_opt o
  | RPut o => enc_opt o
  | RPutErr => [(-1)%Z]
  | RRemove o => enc_opt o
  | RContains b => [if b then 1%Z else 0%Z]
  | RClear => [0%Z]
  | RLen n => [Z.of_N n]
  end.
Definition enc_obs (ob : obs) : list Z :=
  enc_res (fst ob) ++ flat_map (fun kv => [Z.of_N (fst kv); Z.of_N (snd kv)]) (snd ob).

Definition lru_case (c : N) (ops : list (N * N * N)) : list (list Z) :=
  map enc_obs (snd (m_run (lru_new c) (map dec_op ops))).

(* sharded map: `route` lists (key, shard) pairs observed on the implementation *)
Fixpoint route_of (route : list (N * N)) (k : N) : N :=
  match route with [] => 0 | (k', j) :: t => if k' =? k then j else route_of t k end.
Definition cmap_case (percap : N) (nshards : nat) (route : list (N * N)) (ops : list (N * N * N)) : list (list Z) :=
  map enc_obs (snd (c_run (mkC (route_of route) (fun _ => lru_new percap)) nshards (map dec_op ops))).

(* page cache: the test files are given by a formula both sides evaluate *)
Definition file_byte (seed i : N) : N := N.land (i * 31 + N.shiftr i 8 * 7 + seed) 255.
Fixpoint gen_bytes (n : nat) (seed i : N) : list N :=
  match n with O => [] | S m => file_byte seed i :: gen_bytes m seed (i + 1) end.
Definition gen_file (seed len : N) : list N := gen_bytes (N.to_nat len) seed 0.

Fixpoint files_of (fs : list (N * list N)) (fid : N) : option (list N) :=
  match fs with [] => None | (f, b) :: t => if f =? fid then Some b else files_of t fid end.

Definition dec_pop (t : N * N * N * N) : pop :=
  let '(c, f, a, b) := t in
  if c =? 0 then PRead f a b else if c =? 1 then PPrefetch f a b
  else if c =? 2 then PInvPage f a else PInvRange f a b.

(* the harness rewrites byte i of the range to 3*x + i + 101 (mod 256) *)
Fixpoint ow_bytes (old : list N) (i : N) : list N :=
  match old with [] => [] | x :: t => N.land (x * 3 + i + 101) 255 :: ow_bytes t (i + 1) end.
Definition pc_step_h (c : pcache) (t : N * N * N * N) : pcache * list N :=
  let '(code, f, a, b) := t in
  if code =? 4 then
    match files c f with
    | Some fl => pc_step c (POverwrite f a (ow_bytes (firstn (N.to_nat b) (skipn (N.to_nat a) fl)) 0))
    | None => (c, [])
    end
  else pc_step c (dec_pop t).
Fixpoint pc_run_h (c : pcache) (ops : list (N * N * N * N)) : pcache * list (list N) :=
  match ops with
  | [] => (c, [])
  | o :: t => let '(c1, r) := pc_step_h c o in
              let '(c2, rs) := pc_run_h c1 t in (c2, r :: rs)
  end.

(* digest of a read result: length, position-weighted sum (weights cycle 1..251), first and last 8 bytes *)
Fixpoint wsum (l : list N) (w acc : N) : N :=
  match l with [] => acc | b :: t => wsum t (if w =? 251 then 1 else w + 1) (acc + w * b) end.
Definition digest (l : list N) : list N :=
  nlen l :: wsum l 1 0 :: firstn 8 l ++ firstn 8 (rev_append l []).

Definition pc_case (ps capbytes : N) (fs : list (N * (N * N))) (ops : list (N * N * N * N)) : list (list N) :=
  let fl := map (fun t => (fst t, gen_file (fst (snd t)) (snd (snd t)))) fs in
  map digest (snd (pc_run_h (pc_new ps capbytes (files_of fl)) ops)).
