(* Compositions of the refinement with the spec-level theorems. *)
From ZV.Common Require Import Base.
From ZV.C17 Require Import Spec Model ProofsSpec ProofsLinks ProofsLru ProofsRefine ProofsShard ProofsStamp.
Open Scope N_scope.

Lemma lru_oldest_proof c ops :
  1 <= c -> c < INVALID -> snd (m_run (lru_new c) ops) = snd (t_run c 0 [] ops).
Proof.
  intros H1 H2. rewrite (proj1 (lru_refines_proof c ops H1 H2)). symmetry. exact (stamped_equiv_proof c ops).
Qed.

Lemma cmap_shard_is_lru_proof sl cp n j ops :
  1 <= cp -> cp < INVALID ->
  pick sl j ops (snd (c_run (mkC sl (fun _ => lru_new cp)) n ops)) = snd (s_run cp [] (filter (routed sl j) ops)).
Proof.
  intros H1 H2.
  pose proof (proj2 (cmap_per_shard_proof n j ops (mkC sl (fun _ => lru_new cp)))) as H.
  cbn [shard sel] in H. rewrite H.
  exact (proj1 (lru_refines_proof cp _ H1 H2)).
Qed.

Lemma spec_keys_distinct_proof cap ops : NoDup (keys (fst (s_run cap [] ops))).
Proof. apply s_run_nodup. constructor. Qed.
