(* The page table of LruPageCache never holds more than max(1, capacity / PAGE_SIZE) pages, for every history.
   Invariant: distinct keys, every key with an access time is in the table, size bound. *)
From ZV.Common Require Import Base.
From ZV.C17 Require Import Spec Model ModelInval ProofsPage ProofsInval.
Open Scope N_scope.

Definition kin {A} (k : pkey) (l : list (pkey * A)) : bool :=
  match plookup k l with Some _ => true | None => false end.

Fixpoint nodupk {A} (l : list (pkey * A)) : Prop :=
  match l with [] => True | (k, _) :: t => plookup k t = None /\ nodupk t end.

Lemma kin_premove_same {A} k (l : list (pkey * A)) : kin k (premove k l) = false.
Proof. unfold kin. rewrite plookup_premove_same. reflexivity. Qed.

Lemma kin_premove_other {A} k k' (l : list (pkey * A)) : k' <> k -> kin k' (premove k l) = kin k' l.
Proof. intros H. unfold kin. rewrite plookup_premove_other by assumption. reflexivity. Qed.

Lemma kin_premove_true {A} k k' (l : list (pkey * A)) : kin k' (premove k l) = true -> kin k' l = true /\ k' <> k.
Proof.
  intros H. destruct (pkey_eqb k k') eqn:E.
  - apply pkey_eqb_eq in E. subst k'. rewrite kin_premove_same in H. discriminate.
  - apply pkey_eqb_neq in E. rewrite kin_premove_other in H by congruence. split; [exact H|congruence].
Qed.

Lemma nodupk_premove {A} k (l : list (pkey * A)) : nodupk l -> nodupk (premove k l).
Proof.
  induction l as [|[k1 x] l IH]; cbn [premove nodupk]; [auto|]. intros [H1 H2].
  destruct (pkey_eqb k1 k) eqn:E; [apply IH; exact H2|].
  cbn [nodupk]. split; [|apply IH; exact H2].
  apply pkey_eqb_neq in E. rewrite plookup_premove_other by assumption. exact H1.
Qed.

Lemma nodupk_filter {A} (P : pkey -> bool) (l : list (pkey * A)) :
  nodupk l -> nodupk (filter (fun e => P (fst e)) l).
Proof.
  induction l as [|[k1 x] l IH]; cbn [filter nodupk fst]; [auto|]. intros [H1 H2].
  destruct (P k1) eqn:E; [|apply IH; exact H2].
  cbn [nodupk]. split; [|apply IH; exact H2].
  rewrite plookup_filter, H1. destruct (P k1); reflexivity.
Qed.

Lemma nlen_premove_le {A} k (l : list (pkey * A)) : nlen (premove k l) <= nlen l.
Proof.
  induction l as [|[k1 x] l IH]; cbn [premove nlen]; [lia|].
  destruct (pkey_eqb k1 k); cbn [nlen]; lia.
Qed.

Lemma premove_absent {A} k (l : list (pkey * A)) : plookup k l = None -> premove k l = l.
Proof.
  induction l as [|[k1 x] l IH]; cbn [premove plookup]; [reflexivity|].
  destruct (pkey_eqb k1 k); [discriminate|]. intros H. rewrite IH by assumption. reflexivity.
Qed.

Lemma nlen_premove_in {A} k (l : list (pkey * A)) :
  nodupk l -> kin k l = true -> nlen (premove k l) + 1 = nlen l.
Proof.
  unfold kin. induction l as [|[k1 x] l IH]; cbn [premove plookup nlen nodupk]; [discriminate|].
  intros [H1 H2] Hk. destruct (pkey_eqb k1 k) eqn:E.
  - apply pkey_eqb_eq in E. subst k1. rewrite premove_absent by assumption. lia.
  - cbn [nlen]. rewrite <- (IH H2 Hk). lia.
Qed.

Lemma nlen_filter_le {A} (P : pkey * A -> bool) (l : list (pkey * A)) : nlen (filter P l) <= nlen l.
Proof. induction l as [|e l IH]; cbn [filter nlen]; [lia|]. destruct (P e); cbn [nlen]; lia. Qed.

Lemma find_lru_in (l : list (pkey * nat)) k t : find_lru l = Some (k, t) -> kin k l = true.
Proof.
  revert k t. induction l as [|[k1 t1] l IH]; cbn [find_lru]; [discriminate|]. intros k t H.
  unfold kin. cbn [plookup]. destruct (pkey_eqb k1 k) eqn:E; [reflexivity|].
  destruct (find_lru l) as [[k2 t2]|].
  - destruct (t1 <? t2)%nat; inversion H; subst.
    + rewrite pkey_eqb_refl in E. discriminate.
    + apply (IH k t eq_refl).
  - inversion H. subst. rewrite pkey_eqb_refl in E. discriminate.
Qed.

Definition cap_inv (c : pcache) : Prop :=
  nodupk (inner c) /\
  (forall k, kin k (atimes c) = true -> kin k (inner c) = true) /\
  nlen (inner c) <= N.max 1 (pcap c).

Lemma kin_cons {A} k k' (x : A) l : kin k' ((k, x) :: l) = pkey_eqb k k' || kin k' l.
Proof. unfold kin. cbn [plookup]. destruct (pkey_eqb k k'); reflexivity. Qed.

Lemma get_page_cap c k : cap_inv c -> cap_inv (fst (get_page c k)) /\ pcap (fst (get_page c k)) = pcap c.
Proof.
  intros (Hnd & Hat & Hsz). unfold get_page.
  set (inner1 := if pmem k (inval c) then premove k (inner c) else inner c).
  assert (Hnd1 : nodupk inner1) by (subst inner1; destruct (pmem k (inval c)); [apply nodupk_premove|]; exact Hnd).
  assert (Hle1 : nlen inner1 <= nlen (inner c)) by (subst inner1; destruct (pmem k (inval c)); [apply nlen_premove_le|lia]).
  destruct (plookup k inner1) as [pg|] eqn:El.
  - (* hit: inner1 must be the table itself *)
    assert (Hi : inner1 = inner c).
    { subst inner1. destruct (pmem k (inval c)); [|reflexivity]. rewrite plookup_premove_same in El. discriminate. }
    cbn [fst pcap]. split; [|reflexivity]. unfold cap_inv. cbn [inner atimes pcap]. rewrite Hi. split; [exact Hnd|]. split; [|exact Hsz].
    intros k' H. unfold set_atime in H. rewrite kin_cons in H. apply orb_true_iff in H. destruct H as [H|H].
    + apply pkey_eqb_eq in H. subst k'. unfold kin. rewrite <- Hi, El. reflexivity.
    + apply kin_premove_true in H. apply Hat. exact (proj1 H).
  - (* miss *)
    assert (Hk1 : forall k', kin k' inner1 = true -> kin k' (inner c) = true /\ k' <> k).
    { intros k' H. subst inner1. destruct (pmem k (inval c)).
      - apply kin_premove_true. exact H.
      - split; [exact H|]. intros ->. unfold kin in H. rewrite El in H. discriminate. }
    assert (Hk1' : forall k', k' <> k -> kin k' (inner c) = true -> kin k' inner1 = true).
    { intros k' Hne H. subst inner1. destruct (pmem k (inval c)); [rewrite kin_premove_other by exact Hne|]; exact H. }
    set (pg := match files c (fst k) with Some f => page_of (psize c) f (snd k) | None => [] end).
    (* whatever is evicted: the new table is k :: inner2 with inner2 a sub-table of inner1 *)
    assert (Hev : forall inner2 inval2 at2,
              nodupk inner2 -> plookup k inner2 = None ->
              (forall k', k' <> k -> kin k' at2 = true -> kin k' inner2 = true) ->
              nlen inner2 + 1 <= N.max 1 (pcap c) ->
              cap_inv (mkPc (psize c) (pcap c) (files c) ((k, pg) :: inner2) inval2 (set_atime at2 k (clock c)) (S (clock c)))).
    { intros inner2 inval2 at2 Hn2 Hk2 Hsub Hs2. unfold cap_inv. cbn [inner atimes pcap nodupk nlen].
      split; [split; assumption|]. split; [|lia].
      intros k' H. unfold set_atime in H. rewrite kin_cons in H. rewrite kin_cons. apply orb_true_iff in H. destruct H as [H|H].
      - rewrite H. reflexivity.
      - apply kin_premove_true in H. destruct H as [H Hne]. rewrite (Hsub k' Hne H). apply orb_true_r. }
    assert (Hk0 : plookup k inner1 = None) by exact El.
    destruct (N.leb_spec (pcap c) (nlen inner1)) as [Hfull|Hroom].
    + destruct (find_lru (atimes c)) as [[lk t]|] eqn:Efl.
      * cbn [fst pcap]. split; [|reflexivity]. apply Hev.
        -- apply nodupk_premove. exact Hnd1.
        -- destruct (pkey_eqb lk k) eqn:E.
           ++ apply pkey_eqb_eq in E. subst lk. apply plookup_premove_same.
           ++ apply pkey_eqb_neq in E. rewrite plookup_premove_other by congruence. exact Hk0.
        -- intros k' Hne H. apply kin_premove_true in H. destruct H as [H Hne2].
           rewrite kin_premove_other by exact Hne2. apply Hk1'; [exact Hne|]. apply Hat. exact H.
        -- (* the victim is in the table unless it is k itself *)
           pose proof (find_lru_in _ _ _ Efl) as Hin. apply Hat in Hin.
           destruct (pkey_eqb lk k) eqn:E.
           ++ apply pkey_eqb_eq in E. subst lk.
              (* k has an access time, so it was in the table and inner1 lost it *)
              assert (Hlt : nlen inner1 + 1 = nlen (inner c)).
              { subst inner1. destruct (pmem k (inval c)).
                - apply nlen_premove_in; assumption.
                - unfold kin in Hin. rewrite El in Hin. discriminate. }
              pose proof (nlen_premove_le k inner1). pose proof (N.max_spec 1 (pcap c)). lia.
           ++ apply pkey_eqb_neq in E.
              assert (Hin1 : kin lk inner1 = true) by (apply Hk1'; [congruence|exact Hin]).
              pose proof (nlen_premove_in lk inner1 Hnd1 Hin1). pose proof (N.max_spec 1 (pcap c)). lia.
      * destruct inner1 as [|[k0 x] rest] eqn:Ei.
        -- cbn [fst pcap]. split; [|reflexivity]. apply Hev; try assumption.
           ++ intros k' Hne H. apply Hat in H. pose proof (Hk1' k' Hne H) as Hx. unfold kin in Hx. cbn [plookup] in Hx. discriminate Hx.
           ++ cbn [nlen]. pose proof (N.max_spec 1 (pcap c)). lia.
        -- cbn [fst pcap]. split; [|reflexivity].
           assert (Hin0 : kin k0 ((k0, x) :: rest) = true) by (rewrite kin_cons, pkey_eqb_refl; reflexivity).
           apply Hev.
           ++ apply nodupk_premove. exact Hnd1.
           ++ destruct (pkey_eqb k0 k) eqn:E.
              ** apply pkey_eqb_eq in E. subst k0. apply plookup_premove_same.
              ** apply pkey_eqb_neq in E. rewrite plookup_premove_other by congruence. exact Hk0.
           ++ intros k' Hne H. apply kin_premove_true in H. destruct H as [H Hne2].
              rewrite kin_premove_other by exact Hne2. apply Hk1'; [exact Hne|]. apply Hat. exact H.
           ++ pose proof (nlen_premove_in k0 _ Hnd1 Hin0). pose proof (N.max_spec 1 (pcap c)). lia.
    + cbn [fst pcap]. split; [|reflexivity]. apply Hev; try assumption.
      * intros k' Hne H. apply Hk1'; [exact Hne|]. apply Hat. exact H.
      * pose proof (N.max_spec 1 (pcap c)). lia.
Qed.

Lemma read_loop_cap fid : forall np c page cur rem acc,
  cap_inv c -> cap_inv (fst (read_loop np c fid page cur rem acc)) /\
               pcap (fst (read_loop np c fid page cur rem acc)) = pcap c.
Proof.
  induction np as [|np IH]; intros c page cur rem acc Hc; cbn [read_loop]; [auto|].
  destruct (get_page_cap c (fid, page) Hc) as [Hc1 Hp1].
  destruct (get_page c (fid, page)) as [c1 pg]. cbn [fst] in *.
  destruct (rem - N.min rem (psize c - (cur - page * psize c)) =? 0); [auto|].
  destruct (IH c1 (page + 1) (cur + N.min rem (psize c - (cur - page * psize c)))
               (rem - N.min rem (psize c - (cur - page * psize c)))
               (acc ++ page_chunk pg (cur - page * psize c) (N.min rem (psize c - (cur - page * psize c)))) Hc1) as [A B].
  rewrite Hp1 in B. auto.
Qed.

Lemma pc_read_cap c fid off len :
  cap_inv c -> cap_inv (fst (pc_read c fid off len)) /\ pcap (fst (pc_read c fid off len)) = pcap c.
Proof.
  intros Hc. unfold pc_read, pc_read_pages. destruct (files c fid) as [f|].
  - destruct (nlen f <=? off); [auto|].
    destruct (page_span (psize c) off (N.min len (nlen f - off))) as [sp np]. apply read_loop_cap. exact Hc.
  - destruct (page_span (psize c) off len) as [sp np]. apply read_loop_cap. exact Hc.
Qed.

Lemma prefetch_cap c fid off len :
  cap_inv c -> cap_inv (pc_prefetch c fid off len) /\ pcap (pc_prefetch c fid off len) = pcap c.
Proof.
  intros Hc. unfold pc_prefetch. destruct (page_span (psize c) off len) as [sp np].
  revert c sp Hc. induction np as [|np IH]; intros c sp Hc; cbn [prefetch_loop]; [auto|].
  destruct (get_page_cap c (fid, sp) Hc) as [Hc1 Hp1].
  destruct (IH (fst (get_page c (fid, sp))) (sp + 1) Hc1) as [A B]. rewrite Hp1 in B. auto.
Qed.

Lemma invalidate_page_cap c k :
  cap_inv c -> cap_inv (pc_invalidate_page c k) /\ pcap (pc_invalidate_page c k) = pcap c.
Proof.
  intros (Hnd & Hat & Hsz). split; [|reflexivity]. unfold cap_inv. cbn [pc_invalidate_page inner atimes pcap].
  split; [apply nodupk_premove; exact Hnd|]. split.
  - intros k' H. apply kin_premove_true in H. destruct H as [H Hne].
    rewrite kin_premove_other by exact Hne. apply Hat. exact H.
  - pose proof (nlen_premove_le k (inner c)). lia.
Qed.

Lemma invalidate_range_cap c fid off len :
  cap_inv c -> cap_inv (pc_invalidate_range c fid off len) /\ pcap (pc_invalidate_range c fid off len) = pcap c.
Proof.
  intros Hc. unfold pc_invalidate_range. destruct (page_span (psize c) off len) as [sp np].
  revert c sp Hc. induction np as [|np IH]; intros c sp Hc; cbn [inval_loop]; [auto|].
  destruct (invalidate_page_cap c (fid, sp) Hc) as [Hc1 Hp1].
  destruct (IH (pc_invalidate_page c (fid, sp)) (sp + 1) Hc1) as [A B]. rewrite Hp1 in B. auto.
Qed.

Lemma kin_filter {A} (P : pkey -> bool) k (l : list (pkey * A)) :
  kin k (filter (fun e => P (fst e)) l) = P k && kin k l.
Proof. unfold kin. rewrite plookup_filter. destruct (P k); reflexivity. Qed.

Lemma close_cap c fid :
  cap_inv c -> cap_inv (fst (pc_close_file c fid)) /\ pcap (fst (pc_close_file c fid)) = pcap c.
Proof.
  intros (Hnd & Hat & Hsz). split; [|reflexivity]. unfold cap_inv. cbn [pc_close_file fst inner atimes pcap].
  split; [apply nodupk_filter; exact Hnd|]. split.
  - intros k H. rewrite kin_filter in H. rewrite kin_filter. apply andb_true_iff in H. destruct H as [H1 H2].
    rewrite H1, (Hat k H2). reflexivity.
  - pose proof (nlen_filter_le (fun e : pkey * list N => other_file fid (fst e)) (inner c)). lia.
Qed.

Lemma x_step_cap c o : cap_inv c -> cap_inv (fst (x_step c o)) /\ pcap (fst (x_step c o)) = pcap c.
Proof.
  intros Hc. destruct o as [f off len|f off len ahead|f off len|f p|f off len|f off data|f]; cbn [x_step].
  - pose proof (pc_read_cap c f off len Hc) as H. destruct (pc_read c f off len). exact H.
  - unfold pc_read_with_prefetch.
    assert (H : cap_inv (if ahead =? 0 then c else pc_prefetch c f (off + len) ahead) /\
                pcap (if ahead =? 0 then c else pc_prefetch c f (off + len) ahead) = pcap c)
      by (destruct (ahead =? 0); [auto|apply prefetch_cap; exact Hc]).
    destruct H as [H1 H2].
    pose proof (pc_read_cap _ f off len H1) as H. rewrite H2 in H.
    destruct (pc_read (if ahead =? 0 then c else pc_prefetch c f (off + len) ahead) f off len). exact H.
  - cbn [fst]. apply prefetch_cap. exact Hc.
  - cbn [fst]. apply invalidate_page_cap. exact Hc.
  - cbn [fst]. apply invalidate_range_cap. exact Hc.
  - cbn [fst]. split; [exact Hc|reflexivity].
  - pose proof (close_cap c f Hc) as H. destruct (pc_close_file c f). exact H.
Qed.

Lemma x_run_cap : forall ops c, cap_inv c ->
  cap_inv (fst (x_run c ops)) /\ pcap (fst (x_run c ops)) = pcap c.
Proof.
  induction ops as [|o ops IH]; intros c Hc; cbn [x_run]; [auto|].
  destruct (x_step_cap c o Hc) as [Hc1 Hp1]. destruct (x_step c o) as [c1 r]. cbn [fst] in *.
  destruct (IH c1 Hc1) as [A B]. destruct (x_run c1 ops) as [c2 rs]. cbn [fst] in *. rewrite Hp1 in B. auto.
Qed.

Lemma page_cache_size_proof ps capbytes fs ops :
  nlen (inner (fst (x_run (pc_new ps capbytes fs) ops))) <= N.max 1 (capbytes / ps).
Proof.
  assert (Hc : cap_inv (pc_new ps capbytes fs)).
  { unfold cap_inv. cbn [pc_new inner atimes pcap nodupk nlen]. split; [exact I|]. split; [|lia].
    intros k H. discriminate H. }
  destruct (x_run_cap ops _ Hc) as [(_ & _ & Hs) Hp]. rewrite Hp in Hs. exact Hs.
Qed.
