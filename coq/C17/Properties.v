(* C17 property theorems.  Statements + exact + Print Assumptions only. *)
From ZV.Common Require Import Base.
From ZV.C17 Require Import Spec Model ProofsSpec ProofsPage ProofsLinks ProofsLru ProofsRefine.
Open Scope N_scope.

(* ---- S: the recency-list LRU map never exceeds its capacity, for every history ---- *)
Theorem spec_size_le_cap : forall cap ops l,
  1 <= cap -> nlen l <= cap -> nlen (fst (s_run cap l ops)) <= cap.
Proof. intros cap ops l. exact (s_run_size cap ops l). Qed.
Check spec_size_le_cap : forall cap ops l,
  1 <= cap -> nlen l <= cap -> nlen (fst (s_run cap l ops)) <= cap.
Print Assumptions spec_size_le_cap.

(* ---- M refines S: for every capacity and every get/put/remove/contains/clear/len history, the node-array
        implementation of LruMap returns the same results and makes the same eviction-callback invocations
        (same key, same value, same step) as the recency list, and the (key,value) sequence read along its
        `next` links from `head` is the recency list ---- *)
Theorem lru_refines : forall c ops,
  1 <= c -> c < INVALID ->
  snd (m_run (lru_new c) ops) = snd (s_run c [] ops) /\
  abs_list (fst (m_run (lru_new c) ops)) = fst (s_run c [] ops).
Proof. exact lru_refines_proof. Qed.
Check lru_refines : forall c ops,
  1 <= c -> c < INVALID ->
  snd (m_run (lru_new c) ops) = snd (s_run c [] ops) /\
  abs_list (fst (m_run (lru_new c) ops)) = fst (s_run c [] ops).
Print Assumptions lru_refines.
Example lru_refines_nontrivial :
  snd (m_run (lru_new 2) [Put 1 10; Put 2 20; Get 1; Put 3 30; Get 2; Len]) =
  [(RPut None, []); (RPut None, []); (RGet (Some 10), []); (RPut None, [(2, 20)]); (RGet None, []); (RLen 2, [])].
Proof. vm_compute. reflexivity. Qed.

(* the implementation's entry count never exceeds the capacity *)
Theorem lru_size_le_cap : forall c ops,
  1 <= c -> c < INVALID -> count (fst (m_run (lru_new c) ops)) <= c.
Proof. exact lru_size_proof. Qed.
Check lru_size_le_cap : forall c ops,
  1 <= c -> c < INVALID -> count (fst (m_run (lru_new c) ops)) <= c.
Print Assumptions lru_size_le_cap.

(* ---- page cache: a read returns exactly the bytes of the file in the range, clipped at EOF,
        from every coherent cache state (after any evictions / reloads / invalidations), for every
        page size, offset and length (page-straddling, beyond EOF) ---- *)
Theorem read_correct : forall c fid f off len,
  0 < psize c -> coherent c -> files c fid = Some f ->
  snd (pc_read c fid off len) = file_range f off len /\
  coherent (fst (pc_read c fid off len)) /\
  psize (fst (pc_read c fid off len)) = psize c /\ files (fst (pc_read c fid off len)) = files c.
Proof. exact read_correct_proof. Qed.
Check read_correct : forall c fid f off len,
  0 < psize c -> coherent c -> files c fid = Some f ->
  snd (pc_read c fid off len) = file_range f off len /\
  coherent (fst (pc_read c fid off len)) /\
  psize (fst (pc_read c fid off len)) = psize c /\ files (fst (pc_read c fid off len)) = files c.
Print Assumptions read_correct.

(* every read of every history of reads / prefetches / invalidations on a fresh cache *)
Theorem page_cache_history_correct : forall ps capbytes fs ops,
  0 < ps ->
  snd (pc_run (pc_new ps capbytes fs) ops) = map (expected fs) ops.
Proof. intros ps capbytes fs ops H. exact (pc_run_spec ops (pc_new ps capbytes fs) H (pc_new_coherent ps capbytes fs)). Qed.
Check page_cache_history_correct : forall ps capbytes fs ops,
  0 < ps ->
  snd (pc_run (pc_new ps capbytes fs) ops) = map (expected fs) ops.
Print Assumptions page_cache_history_correct.

(* cached blob store over its virtual file id: the cache supplies nothing, get returns the wrapped store's bytes *)
Theorem cached_get_is_inner_get : forall c vfid meta data,
  coherent c -> files c vfid = None ->
  snd (cached_get c vfid meta data) = data /\ coherent (fst (cached_get c vfid meta data)).
Proof. exact cached_get_inner. Qed.
Check cached_get_is_inner_get : forall c vfid meta data,
  coherent c -> files c vfid = None ->
  snd (cached_get c vfid meta data) = data /\ coherent (fst (cached_get c vfid meta data)).
Print Assumptions cached_get_is_inner_get.
