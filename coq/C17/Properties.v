(* C17 property theorems.  Statements + exact + Print Assumptions only. *)
From ZV.Common Require Import Base.
From ZV.C17 Require Import Spec Model ProofsSpec ProofsPage ProofsLinks ProofsLru ProofsRefine ProofsShard ProofsStamp ProofsStale ProofsTop.
Open Scope N_scope.

(* ---- S: the recency-list LRU map never exceeds its capacity, for every history ---- *)
Theorem spec_size_le_cap : forall cap ops l,
  1 <= cap -> nlen l <= cap -> nlen (fst (s_run cap l ops)) <= cap.
Proof. exact (fun cap ops l => s_run_size cap ops l). Qed.
Check spec_size_le_cap : forall cap ops l,
  1 <= cap -> nlen l <= cap -> nlen (fst (s_run cap l ops)) <= cap.
Print Assumptions spec_size_le_cap.

(* ---- M refines S: for every capacity and every get/put/remove/contains/clear/len history, the node-array
        implementation of LruMap returns the same results and makes the same eviction-callback invocations
        (same key, same value, same step) as the recency list, and the (key,value) sequence read along its
        `next` links from `head` is the recency list ---- *)
Theorem lru_refines : forall c ops,
  1 <= c -> c < INVALID ->
  snd (m_run (lru_new c) ops) = snd (s_run c [] ops) /\
  abs_list (fst (m_run (lru_new c) ops)) = fst (s_run c [] ops).
Proof. exact lru_refines_proof. Qed.
Check lru_refines : forall c ops,
  1 <= c -> c < INVALID ->
  snd (m_run (lru_new c) ops) = snd (s_run c [] ops) /\
  abs_list (fst (m_run (lru_new c) ops)) = fst (s_run c [] ops).
Print Assumptions lru_refines.
Example lru_refines_nontrivial :
  snd (m_run (lru_new 2) [Put 1 10; Put 2 20; Get 1; Put 3 30; Get 2; Len]) =
  [(RPut None, []); (RPut None, []); (RGet (Some 10), []); (RPut None, [(2, 20)]); (RGet None, []); (RLen 2, [])].
Proof. vm_compute. reflexivity. Qed.

(* the implementation's entry count never exceeds the capacity *)
Theorem lru_size_le_cap : forall c ops,
  1 <= c -> c < INVALID -> count (fst (m_run (lru_new c) ops)) <= c.
Proof. exact lru_size_proof. Qed.
Check lru_size_le_cap : forall c ops,
  1 <= c -> c < INVALID -> count (fst (m_run (lru_new c) ops)) <= c.
Print Assumptions lru_size_le_cap.

(* ---- "the entry evicted to make room is the one whose last access (get or put) is oldest": the
        implementation's results and callback invocations are those of the time-stamped map that keeps
        (key, value, time of last get/put) and evicts the entry with the smallest time ---- *)
Theorem lru_evicts_oldest_last_access : forall c ops,
  1 <= c -> c < INVALID ->
  snd (m_run (lru_new c) ops) = snd (t_run c 0 [] ops).
Proof. exact lru_oldest_proof. Qed.
Check lru_evicts_oldest_last_access : forall c ops,
  1 <= c -> c < INVALID ->
  snd (m_run (lru_new c) ops) = snd (t_run c 0 [] ops).
Print Assumptions lru_evicts_oldest_last_access.

(* ---- the eviction callback of a step reports, with key and value, exactly the entries that stop being
        retrievable in that get/put step (at most one), and never an entry that is still retrievable ---- *)
Theorem spec_callback_exact : forall cap l o,
  NoDup (keys l) ->
  let l' := fst (s_step cap l o) in
  let cb := snd (snd (s_step cap l o)) in
  (forall k v, In (k, v) cb -> find k l = Some v /\ find k l' = None) /\
  (evicting o = true -> forall k v, find k l = Some v -> find k l' = None -> cb = [(k, v)]) /\
  (length cb <= 1)%nat.
Proof. exact callback_exact_proof. Qed.
Check spec_callback_exact : forall cap l o,
  NoDup (keys l) ->
  let l' := fst (s_step cap l o) in
  let cb := snd (snd (s_step cap l o)) in
  (forall k v, In (k, v) cb -> find k l = Some v /\ find k l' = None) /\
  (evicting o = true -> forall k v, find k l = Some v -> find k l' = None -> cb = [(k, v)]) /\
  (length cb <= 1)%nat.
Print Assumptions spec_callback_exact.
Example spec_callback_exact_nontrivial :
  NoDup (keys [(1, 10); (2, 20)]) /\ snd (snd (s_step 2 [(1, 10); (2, 20)] (Put 3 30))) = [(2, 20)].
Proof. split; [repeat constructor; cbn; intuition discriminate|reflexivity]. Qed.

(* keys of the recency list stay distinct along every history (hypothesis of the theorem above) *)
Theorem spec_keys_distinct : forall cap ops, NoDup (keys (fst (s_run cap [] ops))).
Proof. exact spec_keys_distinct_proof. Qed.
Check spec_keys_distinct : forall cap ops, NoDup (keys (fst (s_run cap [] ops))).
Print Assumptions spec_keys_distinct.

(* "get(k) returns the most recent value put for k if k has not been evicted or removed": after any history,
   with u the capacity-free map (latest put per key, minus removes/clears) and e the keys reported to the eviction
   callback since they were last put: a value returned by get(k) is u's value for k (never stale); a miss happens
   only if u has no value for k either, or k was reported evicted *)
Theorem spec_get_most_recent_unless_evicted : forall cap pre k,
  1 <= cap ->
  let '(l, u, e) := sue_run cap [] [] [] pre in
  l = fst (s_run cap [] pre) /\
  match fst (snd (s_step cap l (Get k))) with
  | RGet (Some v) => find k u = Some v
  | RGet None => find k u = None \/ In k e
  | _ => False
  end.
Proof. exact get_fresh_proof. Qed.
Check spec_get_most_recent_unless_evicted : forall cap pre k,
  1 <= cap ->
  let '(l, u, e) := sue_run cap [] [] [] pre in
  l = fst (s_run cap [] pre) /\
  match fst (snd (s_step cap l (Get k))) with
  | RGet (Some v) => find k u = Some v
  | RGet None => find k u = None \/ In k e
  | _ => False
  end.
Print Assumptions spec_get_most_recent_unless_evicted.

(* get(k) right after put(k,v) returns v *)
Theorem spec_put_then_get : forall cap l k v,
  1 <= cap -> nlen l <= cap -> find k (fst (s_step cap l (Put k v))) = Some v.
Proof. exact s_put_get. Qed.
Check spec_put_then_get : forall cap l k v,
  1 <= cap -> nlen l <= cap -> find k (fst (s_step cap l (Put k v))) = Some v.
Print Assumptions spec_put_then_get.

(* ---- sharded map (key-hash routing, any hash function `sel`): seen from shard j, a history is the
        history of one LruMap on the operations routed to j; with fresh shards of capacity c it is
        therefore the recency-list LRU of capacity c on that sub-history ---- *)
Theorem cmap_per_shard : forall n j ops c,
  shard (fst (c_run c n ops)) j = fst (m_run (shard c j) (filter (routed (sel c) j) ops)) /\
  pick (sel c) j ops (snd (c_run c n ops)) = snd (m_run (shard c j) (filter (routed (sel c) j) ops)).
Proof. exact cmap_per_shard_proof. Qed.
Check cmap_per_shard : forall n j ops c,
  shard (fst (c_run c n ops)) j = fst (m_run (shard c j) (filter (routed (sel c) j) ops)) /\
  pick (sel c) j ops (snd (c_run c n ops)) = snd (m_run (shard c j) (filter (routed (sel c) j) ops)).
Print Assumptions cmap_per_shard.

Theorem cmap_shard_is_lru : forall sl cp n j ops,
  1 <= cp -> cp < INVALID ->
  pick sl j ops (snd (c_run (mkC sl (fun _ => lru_new cp)) n ops)) = snd (s_run cp [] (filter (routed sl j) ops)).
Proof. exact cmap_shard_is_lru_proof. Qed.
Check cmap_shard_is_lru : forall sl cp n j ops,
  1 <= cp -> cp < INVALID ->
  pick sl j ops (snd (c_run (mkC sl (fun _ => lru_new cp)) n ops)) = snd (s_run cp [] (filter (routed sl j) ops)).
Print Assumptions cmap_shard_is_lru.

(* ---- page cache: a read returns exactly the bytes of the file in the range, clipped at EOF,
        from every coherent cache state (after any evictions / reloads / invalidations), for every
        page size, offset and length (page-straddling, beyond EOF) ---- *)
Theorem read_correct : forall c fid f off len,
  0 < psize c -> coherent c -> files c fid = Some f ->
  snd (pc_read c fid off len) = file_range f off len /\
  coherent (fst (pc_read c fid off len)) /\
  psize (fst (pc_read c fid off len)) = psize c /\ files (fst (pc_read c fid off len)) = files c.
Proof. exact read_correct_proof. Qed.
Check read_correct : forall c fid f off len,
  0 < psize c -> coherent c -> files c fid = Some f ->
  snd (pc_read c fid off len) = file_range f off len /\
  coherent (fst (pc_read c fid off len)) /\
  psize (fst (pc_read c fid off len)) = psize c /\ files (fst (pc_read c fid off len)) = files c.
Print Assumptions read_correct.

(* every read of every history of reads / prefetches / invalidations / in-place overwrites followed by the
   explicit invalidation of the rewritten range, on a fresh cache, returns the file's bytes at that moment *)
Theorem page_cache_history_correct : forall ps capbytes fs ops,
  0 < ps -> ops_ok fs ops ->
  snd (pc_run (pc_new ps capbytes fs) ops) = expected_run fs ops.
Proof. exact (fun ps capbytes fs ops H Hok => pc_run_spec ops (pc_new ps capbytes fs) H (pc_new_coherent ps capbytes fs) Hok). Qed.
Check page_cache_history_correct : forall ps capbytes fs ops,
  0 < ps -> ops_ok fs ops ->
  snd (pc_run (pc_new ps capbytes fs) ops) = expected_run fs ops.
Print Assumptions page_cache_history_correct.
Example page_cache_history_nontrivial :
  let fs := fun g => if g =? 1 then Some [1; 2; 3; 4; 5; 6; 7; 8; 9; 10] else None in
  let ops := [PRead 1 2 5; POverwrite 1 3 [40; 50]; PRead 1 2 5; PRead 1 8 9] in
  ops_ok fs ops /\
  snd (pc_run (pc_new 4 8 fs) ops) = [[3; 4; 5; 6; 7]; []; [3; 40; 50; 6; 7]; [9; 10]].
Proof. split; [cbn; repeat split; intros f E; inversion E; cbn; lia|vm_compute; reflexivity]. Qed.

(* after a file is rewritten in place and the rewritten range is invalidated explicitly, the cache is coherent
   with the new contents (so by read_correct every later read returns the new bytes) *)
Theorem overwrite_then_invalidate_coherent : forall c fid off data,
  0 < psize c -> coherent c ->
  (forall f, files c fid = Some f -> off + nlen data <= nlen f) ->
  coherent (pc_overwrite c fid off data) /\
  psize (pc_overwrite c fid off data) = psize c /\
  files (pc_overwrite c fid off data) = fs_overwrite (files c) fid off data.
Proof. exact overwrite_coherent_proof. Qed.
Check overwrite_then_invalidate_coherent : forall c fid off data,
  0 < psize c -> coherent c ->
  (forall f, files c fid = Some f -> off + nlen data <= nlen f) ->
  coherent (pc_overwrite c fid off data) /\
  psize (pc_overwrite c fid off data) = psize c /\
  files (pc_overwrite c fid off data) = fs_overwrite (files c) fid off data.
Print Assumptions overwrite_then_invalidate_coherent.

(* cached blob store over its virtual file id: the cache supplies nothing, get returns the wrapped store's bytes *)
Theorem cached_get_is_inner_get : forall c vfid meta data,
  coherent c -> files c vfid = None ->
  snd (cached_get c vfid meta data) = data /\ coherent (fst (cached_get c vfid meta data)).
Proof. exact cached_get_inner. Qed.
Check cached_get_is_inner_get : forall c vfid meta data,
  coherent c -> files c vfid = None ->
  snd (cached_get c vfid meta data) = data /\ coherent (fst (cached_get c vfid meta data)).
Print Assumptions cached_get_is_inner_get.
