(* C17 property theorems.  Statements + exact + Print Assumptions only. *)
From ZV.Common Require Import Base.
From ZV.C17 Require Import Spec Model ProofsSpec ProofsPage ProofsLinks ProofsLru ProofsRefine ProofsShard ProofsStamp ProofsStale ProofsTop.
From ZV.C17 Require Import ModelInval ProofsInval ProofsFresh ModelBlob ProofsBlob ModelRoute ProofsRoute ProofsCap.
Open Scope N_scope.

(* ---- S: the recency-list LRU map never exceeds its capacity, for every history ---- *)
Theorem spec_size_le_cap : forall cap ops l,
  1 <= cap -> nlen l <= cap -> nlen (fst (s_run cap l ops)) <= cap.
Proof. exact (fun cap ops l => s_run_size cap ops l). Qed.
Check spec_size_le_cap : forall cap ops l,
  1 <= cap -> nlen l <= cap -> nlen (fst (s_run cap l ops)) <= cap.
Print Assumptions spec_size_le_cap.

(* ---- M refines S: for every capacity and every get/put/remove/contains/clear/len history, the node-array
        implementation of LruMap returns the same results and makes the same eviction-callback invocations
        (same key, same value, same step) as the recency list, and the (key,value) sequence read along its
        `next` links from `head` is the recency list ---- *)
Theorem lru_refines : forall c ops,
  1 <= c -> c < INVALID ->
  snd (m_run (lru_new c) ops) = snd (s_run c [] ops) /\
  abs_list (fst (m_run (lru_new c) ops)) = fst (s_run c [] ops).
Proof. exact lru_refines_proof. Qed.
Check lru_refines : forall c ops,
  1 <= c -> c < INVALID ->
  snd (m_run (lru_new c) ops) = snd (s_run c [] ops) /\
  abs_list (fst (m_run (lru_new c) ops)) = fst (s_run c [] ops).
Print Assumptions lru_refines.
Example lru_refines_nontrivial :
  snd (m_run (lru_new 2) [Put 1 10; Put 2 20; Get 1; Put 3 30; Get 2; Len]) =
  [(RPut None, []); (RPut None, []); (RGet (Some 10), []); (RPut None, [(2, 20)]); (RGet None, []); (RLen 2, [])].
Proof. vm_compute. reflexivity. Qed.

(* the implementation's entry count never exceeds the capacity *)
Theorem lru_size_le_cap : forall c ops,
  1 <= c -> c < INVALID -> count (fst (m_run (lru_new c) ops)) <= c.
Proof. exact lru_size_proof. Qed.
Check lru_size_le_cap : forall c ops,
  1 <= c -> c < INVALID -> count (fst (m_run (lru_new c) ops)) <= c.
Print Assumptions lru_size_le_cap.

(* ---- "the entry evicted to make room is the one whose last access (get or put) is oldest": the
        implementation's results and callback invocations are those of the time-stamped map that keeps
        (key, value, time of last get/put) and evicts the entry with the smallest time ---- *)
Theorem lru_evicts_oldest_last_access : forall c ops,
  1 <= c -> c < INVALID ->
  snd (m_run (lru_new c) ops) = snd (t_run c 0 [] ops).
Proof. exact lru_oldest_proof. Qed.
Check lru_evicts_oldest_last_access : forall c ops,
  1 <= c -> c < INVALID ->
  snd (m_run (lru_new c) ops) = snd (t_run c 0 [] ops).
Print Assumptions lru_evicts_oldest_last_access.

(* ---- the eviction callback of a step reports, with key and value, exactly the entries that stop being
        retrievable in that get/put step (at most one), and never an entry that is still retrievable ---- *)
Theorem spec_callback_exact : forall cap l o,
  NoDup (keys l) ->
  let l' := fst (s_step cap l o) in
  let cb := snd (snd (s_step cap l o)) in
  (forall k v, In (k, v) cb -> find k l = Some v /\ find k l' = None) /\
  (evicting o = true -> forall k v, find k l = Some v -> find k l' = None -> cb = [(k, v)]) /\
  (length cb <= 1)%nat.
Proof. exact callback_exact_proof. Qed.
Check spec_callback_exact : forall cap l o,
  NoDup (keys l) ->
  let l' := fst (s_step cap l o) in
  let cb := snd (snd (s_step cap l o)) in
  (forall k v, In (k, v) cb -> find k l = Some v /\ find k l' = None) /\
  (evicting o = true -> forall k v, find k l = Some v -> find k l' = None -> cb = [(k, v)]) /\
  (length cb <= 1)%nat.
Print Assumptions spec_callback_exact.
Example spec_callback_exact_nontrivial :
  NoDup (keys [(1, 10); (2, 20)]) /\ snd (snd (s_step 2 [(1, 10); (2, 20)] (Put 3 30))) = [(2, 20)].
Proof. split; [repeat constructor; cbn; intuition discriminate|reflexivity]. Qed.

(* keys of the recency list stay distinct along every history (hypothesis of the theorem above) *)
Theorem spec_keys_distinct : forall cap ops, NoDup (keys (fst (s_run cap [] ops))).
Proof. exact spec_keys_distinct_proof. Qed.
Check spec_keys_distinct : forall cap ops, NoDup (keys (fst (s_run cap [] ops))).
Print Assumptions spec_keys_distinct.

(* "get(k) returns the most recent value put for k if k has not been evicted or removed": after any history,
   with u the capacity-free map (latest put per key, minus removes/clears) and e the keys reported to the eviction
   callback since they were last put: a value returned by get(k) is u's value for k (never stale); a miss happens
   only if u has no value for k either, or k was reported evicted *)
Theorem spec_get_most_recent_unless_evicted : forall cap pre k,
  1 <= cap ->
  let '(l, u, e) := sue_run cap [] [] [] pre in
  l = fst (s_run cap [] pre) /\
  match fst (snd (s_step cap l (Get k))) with
  | RGet (Some v) => find k u = Some v
  | RGet None => find k u = None \/ In k e
  | _ => False
  end.
Proof. exact get_fresh_proof. Qed.
Check spec_get_most_recent_unless_evicted : forall cap pre k,
  1 <= cap ->
  let '(l, u, e) := sue_run cap [] [] [] pre in
  l = fst (s_run cap [] pre) /\
  match fst (snd (s_step cap l (Get k))) with
  | RGet (Some v) => find k u = Some v
  | RGet None => find k u = None \/ In k e
  | _ => False
  end.
Print Assumptions spec_get_most_recent_unless_evicted.

(* get(k) right after put(k,v) returns v *)
Theorem spec_put_then_get : forall cap l k v,
  1 <= cap -> nlen l <= cap -> find k (fst (s_step cap l (Put k v))) = Some v.
Proof. exact s_put_get. Qed.
Check spec_put_then_get : forall cap l k v,
  1 <= cap -> nlen l <= cap -> find k (fst (s_step cap l (Put k v))) = Some v.
Print Assumptions spec_put_then_get.

(* ---- sharded map (key-hash routing, any hash function `sel`): seen from shard j, a history is the
        history of one LruMap on the operations routed to j; with fresh shards of capacity c it is
        therefore the recency-list LRU of capacity c on that sub-history ---- *)
Theorem cmap_per_shard : forall n j ops c,
  shard (fst (c_run c n ops)) j = fst (m_run (shard c j) (filter (routed (sel c) j) ops)) /\
  pick (sel c) j ops (snd (c_run c n ops)) = snd (m_run (shard c j) (filter (routed (sel c) j) ops)).
Proof. exact cmap_per_shard_proof. Qed.
Check cmap_per_shard : forall n j ops c,
  shard (fst (c_run c n ops)) j = fst (m_run (shard c j) (filter (routed (sel c) j) ops)) /\
  pick (sel c) j ops (snd (c_run c n ops)) = snd (m_run (shard c j) (filter (routed (sel c) j) ops)).
Print Assumptions cmap_per_shard.

Theorem cmap_shard_is_lru : forall sl cp n j ops,
  1 <= cp -> cp < INVALID ->
  pick sl j ops (snd (c_run (mkC sl (fun _ => lru_new cp)) n ops)) = snd (s_run cp [] (filter (routed sl j) ops)).
Proof. exact cmap_shard_is_lru_proof. Qed.
Check cmap_shard_is_lru : forall sl cp n j ops,
  1 <= cp -> cp < INVALID ->
  pick sl j ops (snd (c_run (mkC sl (fun _ => lru_new cp)) n ops)) = snd (s_run cp [] (filter (routed sl j) ops)).
Print Assumptions cmap_shard_is_lru.

(* ---- page cache: a read returns exactly the bytes of the file in the range, clipped at EOF,
        from every coherent cache state (after any evictions / reloads / invalidations), for every
        page size, offset and length (page-straddling, beyond EOF) ---- *)
Theorem read_correct : forall c fid f off len,
  0 < psize c -> coherent c -> files c fid = Some f ->
  snd (pc_read c fid off len) = file_range f off len /\
  coherent (fst (pc_read c fid off len)) /\
  psize (fst (pc_read c fid off len)) = psize c /\ files (fst (pc_read c fid off len)) = files c.
Proof. exact read_correct_proof. Qed.
Check read_correct : forall c fid f off len,
  0 < psize c -> coherent c -> files c fid = Some f ->
  snd (pc_read c fid off len) = file_range f off len /\
  coherent (fst (pc_read c fid off len)) /\
  psize (fst (pc_read c fid off len)) = psize c /\ files (fst (pc_read c fid off len)) = files c.
Print Assumptions read_correct.

(* every read of every history of reads / prefetches / invalidations / in-place overwrites followed by the
   explicit invalidation of the rewritten range, on a fresh cache, returns the file's bytes at that moment *)
Theorem page_cache_history_correct : forall ps capbytes fs ops,
  0 < ps -> ops_ok fs ops ->
  snd (pc_run (pc_new ps capbytes fs) ops) = expected_run fs ops.
Proof. exact (fun ps capbytes fs ops H Hok => pc_run_spec ops (pc_new ps capbytes fs) H (pc_new_coherent ps capbytes fs) Hok). Qed.
Check page_cache_history_correct : forall ps capbytes fs ops,
  0 < ps -> ops_ok fs ops ->
  snd (pc_run (pc_new ps capbytes fs) ops) = expected_run fs ops.
Print Assumptions page_cache_history_correct.
Example page_cache_history_nontrivial :
  let fs := fun g => if g =? 1 then Some [1; 2; 3; 4; 5; 6; 7; 8; 9; 10] else None in
  let ops := [PRead 1 2 5; POverwrite 1 3 [40; 50]; PRead 1 2 5; PRead 1 8 9] in
  ops_ok fs ops /\
  snd (pc_run (pc_new 4 8 fs) ops) = [[3; 4; 5; 6; 7]; []; [3; 40; 50; 6; 7]; [9; 10]].
Proof. split; [cbn; repeat split; intros f E; inversion E; cbn; lia|vm_compute; reflexivity]. Qed.

(* after a file is rewritten in place and the rewritten range is invalidated explicitly, the cache is coherent
   with the new contents (so by read_correct every later read returns the new bytes) *)
Theorem overwrite_then_invalidate_coherent : forall c fid off data,
  0 < psize c -> coherent c ->
  (forall f, files c fid = Some f -> off + nlen data <= nlen f) ->
  coherent (pc_overwrite c fid off data) /\
  psize (pc_overwrite c fid off data) = psize c /\
  files (pc_overwrite c fid off data) = fs_overwrite (files c) fid off data.
Proof. exact overwrite_coherent_proof. Qed.
Check overwrite_then_invalidate_coherent : forall c fid off data,
  0 < psize c -> coherent c ->
  (forall f, files c fid = Some f -> off + nlen data <= nlen f) ->
  coherent (pc_overwrite c fid off data) /\
  psize (pc_overwrite c fid off data) = psize c /\
  files (pc_overwrite c fid off data) = fs_overwrite (files c) fid off data.
Print Assumptions overwrite_then_invalidate_coherent.

(* cached blob store over its virtual file id: the cache supplies nothing, get returns the wrapped store's bytes *)
Theorem cached_get_is_inner_get : forall c vfid meta data,
  coherent c -> files c vfid = None ->
  snd (cached_get c vfid meta data) = data /\ coherent (fst (cached_get c vfid meta data)).
Proof. exact cached_get_inner. Qed.
Check cached_get_is_inner_get : forall c vfid meta data,
  coherent c -> files c vfid = None ->
  snd (cached_get c vfid meta data) = data /\ coherent (fst (cached_get c vfid meta data)).
Print Assumptions cached_get_is_inner_get.

(* ====================================================================================================== *)
(* extension: invalidation of the page cache, external rewrites, close_file, SingleLruPageCache          *)
(* ====================================================================================================== *)

(* ---- LruPageCache::invalidate_range(f, off, len) with the page arithmetic as written (first page off / PAGE,
        last page (off + len).saturating_sub(1) / PAGE): every page it visits is gone from the page table and is
        marked invalidated; every other page (other file, or not visited) keeps its entry and its mark; for a
        non-empty range the visited pages are exactly the pages holding a byte of [off, off+len); for an empty
        range at most the page of `off` is dropped ---- *)
Theorem invalidate_range_covers : forall c fid off len,
  0 < psize c ->
  let c' := pc_invalidate_range c fid off len in
  (forall p, visited (psize c) off len p ->
     plookup (fid, p) (inner c') = None /\ pmem (fid, p) (inval c') = true) /\
  (forall k, ~ (fst k = fid /\ visited (psize c) off len (snd k)) ->
     plookup k (inner c') = plookup k (inner c) /\ pmem k (inval c') = pmem k (inval c)) /\
  (0 < len -> forall p, visited (psize c) off len p <-> intersects (psize c) off len p) /\
  (len = 0 -> forall p, visited (psize c) off len p -> p = off / psize c) /\
  psize c' = psize c /\ files c' = files c.
Proof. exact invalidate_range_covers_proof. Qed.
Check invalidate_range_covers : forall c fid off len,
  0 < psize c ->
  let c' := pc_invalidate_range c fid off len in
  (forall p, visited (psize c) off len p ->
     plookup (fid, p) (inner c') = None /\ pmem (fid, p) (inval c') = true) /\
  (forall k, ~ (fst k = fid /\ visited (psize c) off len (snd k)) ->
     plookup k (inner c') = plookup k (inner c) /\ pmem k (inval c') = pmem k (inval c)) /\
  (0 < len -> forall p, visited (psize c) off len p <-> intersects (psize c) off len p) /\
  (len = 0 -> forall p, visited (psize c) off len p -> p = off / psize c) /\
  psize c' = psize c /\ files c' = files c.
Print Assumptions invalidate_range_covers.
(* page size 4, a 12-byte file with all three pages resident: invalidate_range(3, 2) straddles the first boundary *)
Example invalidate_range_covers_nontrivial :
  let fs := fun g => if g =? 1 then Some [1; 2; 3; 4; 5; 6; 7; 8; 9; 10; 11; 12] else None in
  let c := fst (pc_read (pc_new 4 64 fs) 1 0 12) in
  let c' := pc_invalidate_range c 1 3 2 in
  map fst (inner c) = [(1, 2); (1, 1); (1, 0)] /\ map fst (inner c') = [(1, 2)] /\
  intersects 4 3 2 0 /\ intersects 4 3 2 1 /\ ~ intersects 4 3 2 2.
Proof. vm_compute. repeat split; try reflexivity; try discriminate. intros [_ H]. discriminate. Qed.

(* ---- InvalidationTracker::invalidated_pages is never cleared by a reload: once a page is invalidated (explicitly, or
        by being evicted) every later get_page drops it and loads it from the file again, whatever the table held ---- *)
Theorem invalidated_page_is_always_reloaded : forall c k,
  pmem k (inval c) = true ->
  snd (get_page c k) = match files c (fst k) with Some f => page_of (psize c) f (snd k) | None => [] end /\
  pmem k (inval (fst (get_page c k))) = true.
Proof. exact invalidated_reload_proof. Qed.
Check invalidated_page_is_always_reloaded : forall c k,
  pmem k (inval c) = true ->
  snd (get_page c k) = match files c (fst k) with Some f => page_of (psize c) f (snd k) | None => [] end /\
  pmem k (inval (fst (get_page c k))) = true.
Print Assumptions invalidated_page_is_always_reloaded.
Example invalidated_page_reloaded_nontrivial :
  let fs := fun g => if g =? 1 then Some [1; 2; 3; 4; 5; 6; 7; 8] else None in
  let c := pc_invalidate_range (fst (pc_read (pc_new 4 64 fs) 1 0 8)) 1 5 1 in
  pmem (1, 1) (inval c) = true /\ snd (get_page c (1, 1)) = [5; 6; 7; 8].
Proof. vm_compute. split; reflexivity. Qed.

(* ---- LruPageCache::close_file(f): no page of f stays cached or marked, the pages and marks of every other file
        are untouched, f has no file entry afterwards; Err exactly when f had none before ---- *)
Theorem invalidate_file_covers : forall c fid,
  let c' := fst (pc_close_file c fid) in
  (forall p, plookup (fid, p) (inner c') = None /\ pmem (fid, p) (inval c') = false) /\
  (forall k, fst k <> fid ->
     plookup k (inner c') = plookup k (inner c) /\ pmem k (inval c') = pmem k (inval c)) /\
  files c' fid = None /\ (forall g, g <> fid -> files c' g = files c g) /\
  psize c' = psize c /\
  snd (pc_close_file c fid) = match files c fid with Some _ => true | None => false end.
Proof. exact invalidate_file_covers_proof. Qed.
Check invalidate_file_covers : forall c fid,
  let c' := fst (pc_close_file c fid) in
  (forall p, plookup (fid, p) (inner c') = None /\ pmem (fid, p) (inval c') = false) /\
  (forall k, fst k <> fid ->
     plookup k (inner c') = plookup k (inner c) /\ pmem k (inval c') = pmem k (inval c)) /\
  files c' fid = None /\ (forall g, g <> fid -> files c' g = files c g) /\
  psize c' = psize c /\
  snd (pc_close_file c fid) = match files c fid with Some _ => true | None => false end.
Print Assumptions invalidate_file_covers.
Example invalidate_file_covers_nontrivial :
  let fs := fun g => if g =? 1 then Some [1; 2; 3; 4; 5; 6; 7; 8] else if g =? 2 then Some [9; 9; 9; 9; 9] else None in
  let c := fst (pc_read (fst (pc_read (pc_new 4 64 fs) 1 0 8)) 2 0 5) in
  map fst (inner c) = [(2, 1); (2, 0); (1, 1); (1, 0)] /\
  map fst (inner (fst (pc_close_file c 1))) = [(2, 1); (2, 0)] /\ snd (pc_close_file c 1) = true /\
  snd (pc_close_file (fst (pc_close_file c 1)) 1) = false.
Proof. vm_compute. repeat split; reflexivity. Qed.

(* ---- read / read_with_prefetch / prefetch / invalidate_page / invalidate_range / close_file histories in which
        the file is also rewritten in place by somebody else (XWrite: no cache call at all).  `stale_step` keeps
        the ghost list of pages that were rewritten and not invalidated since; every read that visits no such
        page returns the file's current bytes (an unknown or closed file id: no bytes) ---- *)
Theorem read_after_write_is_fresh : forall ps capbytes fs ops,
  0 < ps -> xops_ok fs ops -> x_fresh (pc_new ps capbytes fs) [] ops.
Proof. exact read_after_write_proof. Qed.
Check read_after_write_is_fresh : forall ps capbytes fs ops,
  0 < ps -> xops_ok fs ops -> x_fresh (pc_new ps capbytes fs) [] ops.
Print Assumptions read_after_write_is_fresh.
(* the same from any state whose non-stale pages are right *)
Theorem read_after_write_is_fresh_from : forall ops c D,
  0 < psize c -> stale_ok c D -> xops_ok (files c) ops -> x_fresh c D ops.
Proof. exact x_fresh_proof. Qed.
Check read_after_write_is_fresh_from : forall ops c D,
  0 < psize c -> stale_ok c D -> xops_ok (files c) ops -> x_fresh c D ops.
Print Assumptions read_after_write_is_fresh_from.
(* the hypothesis "visits no stale page" matters: between the rewrite and the invalidation the old bytes come back *)
Example read_after_write_nontrivial :
  let fs := fun g => if g =? 1 then Some [1; 2; 3; 4; 5; 6; 7; 8; 9; 10; 11; 12] else None in
  let ops := [XRead 1 0 12; XWrite 1 3 [40; 50]; XRead 1 0 12; XInvRange 1 3 2; XRead 1 0 12; XRead 1 8 9] in
  xops_ok fs ops /\
  snd (x_run (pc_new 4 64 fs) ops) =
    [XBytes [1; 2; 3; 4; 5; 6; 7; 8; 9; 10; 11; 12]; XUnit; XBytes [1; 2; 3; 4; 5; 6; 7; 8; 9; 10; 11; 12];
     XUnit; XBytes [1; 2; 3; 40; 50; 6; 7; 8; 9; 10; 11; 12]; XBytes [9; 10; 11; 12]].
Proof. split; [cbn; repeat split; intros f E; inversion E; cbn; lia|vm_compute; reflexivity]. Qed.

(* ---- if every rewrite is directly followed by an invalidate_range whose range covers the rewritten bytes
        (equal or larger), every read of the history returns the file's bytes at that moment ---- *)
Theorem covering_invalidation_history_correct : forall ps capbytes fs ops,
  0 < ps -> xops_ok fs ops -> disciplined ops ->
  snd (x_run (pc_new ps capbytes fs) ops) = x_expected fs ops.
Proof. exact covering_history_proof. Qed.
Check covering_invalidation_history_correct : forall ps capbytes fs ops,
  0 < ps -> xops_ok fs ops -> disciplined ops ->
  snd (x_run (pc_new ps capbytes fs) ops) = x_expected fs ops.
Print Assumptions covering_invalidation_history_correct.
Example covering_invalidation_nontrivial :
  let fs := fun g => if g =? 1 then Some [1; 2; 3; 4; 5; 6; 7; 8; 9; 10; 11; 12] else None in
  let ops := [XRead 1 0 12; XWrite 1 3 [40; 50]; XInvRange 1 2 5; XReadAhead 1 0 6 4; XClose 1; XRead 1 0 6] in
  xops_ok fs ops /\ disciplined ops /\
  x_expected fs ops = [XBytes [1; 2; 3; 4; 5; 6; 7; 8; 9; 10; 11; 12]; XUnit; XUnit; XBytes [1; 2; 3; 40; 50; 6];
                       XOk true; XBytes []].
Proof.
  split; [cbn; repeat split; intros f E; inversion E; cbn; lia|].
  split; [cbn; repeat split; lia|vm_compute; reflexivity].
Qed.

(* ---- SingleLruPageCache: its observations and its state are those of the wrapped LruPageCache on the same calls ---- *)
Theorem single_cache_is_wrapped_cache : forall ops c,
  somes (map sres_x (snd (single_run c ops))) = snd (x_run c (somes (map sop_x ops))) /\
  fst (single_run c ops) = fst (x_run c (somes (map sop_x ops))).
Proof. exact single_is_wrapped_proof. Qed.
Check single_cache_is_wrapped_cache : forall ops c,
  somes (map sres_x (snd (single_run c ops))) = snd (x_run c (somes (map sop_x ops))) /\
  fst (single_run c ops) = fst (x_run c (somes (map sop_x ops))).
Print Assumptions single_cache_is_wrapped_cache.

(* ---- FileManager::read_page as written (PAGE_SIZE buffer, zero-filled behind the bytes read) followed by the
        truncation to bytes_read in get_page is "the bytes of the page that exist in the file"; a failed read
        (virtual file id) leaves an empty page, never PAGE_SIZE zeros ---- *)
Theorem page_load_is_file_page : forall ps f p,
  load_page ps (Some f) p = page_of ps f p /\ (0 < ps -> load_page ps None p = []).
Proof. exact load_page_is_page_of. Qed.
Check page_load_is_file_page : forall ps f p,
  load_page ps (Some f) p = page_of ps f p /\ (0 < ps -> load_page ps None p = []).
Print Assumptions page_load_is_file_page.

(* ====================================================================================================== *)
(* extension: CachedBlobStore in front of any blob store                                                  *)
(* ====================================================================================================== *)

(* ---- a read of a virtual file id (register_file(-1): no file entry) supplies no byte, for every offset and
        length (any number of pages), from every cache state in which the id's pages are empty; and every
        operation on the cache keeps them empty.  (A page that loaded as PAGE_SIZE zeros would be served as data.) ---- *)
Theorem virtual_read_supplies_nothing : forall c v off len,
  virt_ok c v -> snd (pc_read c v off len) = [] /\ virt_ok (fst (pc_read c v off len)) v.
Proof. exact (fun c v off len H => conj (pc_read_virt c v off len H) (pc_read_keeps_virt c v v off len H)). Qed.
Check virtual_read_supplies_nothing : forall c v off len,
  virt_ok c v -> snd (pc_read c v off len) = [] /\ virt_ok (fst (pc_read c v off len)) v.
Print Assumptions virtual_read_supplies_nothing.
Theorem virtual_pages_stay_empty : forall c v o, virt_ok c v -> virt_ok (fst (x_step c o)) v.
Proof. exact x_step_keeps_virt. Qed.
Check virtual_pages_stay_empty : forall c v o, virt_ok c v -> virt_ok (fst (x_step c o)) v.
Print Assumptions virtual_pages_stay_empty.

(* ---- for every wrapped store (any state type, any put/get/remove/size/contains/len), every history of
        put / get / remove / size / contains / len / flush / prefetch_range / disable / enable / set_write_strategy,
        interleaved with arbitrary direct use of the (shared) page cache: the CachedBlobStore returns what the
        wrapped store returns on the same calls, and leaves the wrapped store in the same state.
        Blobs of any size (several pages), any write strategy, cache enabled or not. ---- *)
Theorem cached_store_is_inner_store :
  forall (St : Type) (i_put : St -> list N -> St * option N) (i_get : St -> N -> option (list N))
         (i_remove : St -> N -> St * bool) (i_size : St -> N -> option N) (i_contains : St -> N -> bool)
         (i_len : St -> N) (ops : list bop) (s : cbs St),
  virt_ok (b_cache St s) (b_fid St s) ->
  store_view ops (snd (cb_run St i_put i_get i_remove i_size i_contains i_len s ops)) =
    snd (i_run St i_put i_get i_remove i_size i_contains i_len (b_inner St s) ops) /\
  b_inner St (fst (cb_run St i_put i_get i_remove i_size i_contains i_len s ops)) =
    fst (i_run St i_put i_get i_remove i_size i_contains i_len (b_inner St s) ops).
Proof. exact cached_store_proof. Qed.
Check cached_store_is_inner_store :
  forall (St : Type) (i_put : St -> list N -> St * option N) (i_get : St -> N -> option (list N))
         (i_remove : St -> N -> St * bool) (i_size : St -> N -> option N) (i_contains : St -> N -> bool)
         (i_len : St -> N) (ops : list bop) (s : cbs St),
  virt_ok (b_cache St s) (b_fid St s) ->
  store_view ops (snd (cb_run St i_put i_get i_remove i_size i_contains i_len s ops)) =
    snd (i_run St i_put i_get i_remove i_size i_contains i_len (b_inner St s) ops) /\
  b_inner St (fst (cb_run St i_put i_get i_remove i_size i_contains i_len s ops)) =
    fst (i_run St i_put i_get i_remove i_size i_contains i_len (b_inner St s) ops).
Print Assumptions cached_store_is_inner_store.
(* page size 4, MemoryBlobStore, a 10-byte blob (3 pages) and a real file sharing the cache *)
Example cached_store_nontrivial :
  let fs := fun g => if g =? 1 then Some [1; 2; 3; 4; 5; 6; 7; 8; 9; 10; 11; 12] else None in
  let s := mkB mem mem_new (pc_new 4 8 fs) 2 true 0 [] 0 in
  let ops := [BPut [9; 8; 7; 6; 5; 4; 3; 2; 1; 0]; BPut [5]; BCache (XRead 1 2 5); BPrefetch 0 12; BGet 1;
              BRemove 1; BGet 1; BGet 2; BLen] in
  virt_ok (b_cache mem s) (b_fid mem s) /\
  snd (cb_run mem mem_put mem_get mem_remove mem_size mem_contains mem_len s ops) =
    [RId (Some 1); RId (Some 2); RCache (XBytes [3; 4; 5; 6; 7]); RNone; RBytes (Some [9; 8; 7; 6; 5; 4; 3; 2; 1; 0]);
     ROk true; RBytes None; RBytes (Some [5]); RCount 1].
Proof. split; [apply virt_ok_new; reflexivity|vm_compute; reflexivity]. Qed.

(* ---- the store's own traffic on a shared cache (reads, prefetches and invalidations of its virtual id) does not
        disturb anybody else: every clean direct read of a real file through the shared cache returns the file's
        current bytes, whatever the store does in between ---- *)
Theorem shared_cache_reads_stay_fresh :
  forall (St : Type) (i_put : St -> list N -> St * option N) (i_get : St -> N -> option (list N))
         (i_remove : St -> N -> St * bool) (i_size : St -> N -> option N) (i_contains : St -> N -> bool)
         (i_len : St -> N) (ops : list bop) (s : cbs St) (D : list pkey),
  0 < psize (b_cache St s) -> stale_ok (b_cache St s) D -> bops_ok (files (b_cache St s)) ops ->
  cb_fresh St i_put i_get i_remove i_size i_contains i_len s D ops.
Proof. exact cb_fresh_proof. Qed.
Check shared_cache_reads_stay_fresh :
  forall (St : Type) (i_put : St -> list N -> St * option N) (i_get : St -> N -> option (list N))
         (i_remove : St -> N -> St * bool) (i_size : St -> N -> option N) (i_contains : St -> N -> bool)
         (i_len : St -> N) (ops : list bop) (s : cbs St) (D : list pkey),
  0 < psize (b_cache St s) -> stale_ok (b_cache St s) D -> bops_ok (files (b_cache St s)) ops ->
  cb_fresh St i_put i_get i_remove i_size i_contains i_len s D ops.
Print Assumptions shared_cache_reads_stay_fresh.
Example shared_cache_reads_nontrivial :
  let fs := fun g => if g =? 1 then Some [1; 2; 3; 4; 5; 6; 7; 8; 9; 10; 11; 12] else None in
  let s := mkB mem mem_new (pc_new 4 8 fs) 2 true 0 [] 0 in
  let ops := [BCache (XRead 1 0 12); BPut [9; 8; 7; 6; 5; 4; 3; 2; 1; 0]; BPrefetch 0 40; BCache (XWrite 1 3 [40; 50]);
              BGet 1; BCache (XInvRange 1 3 2); BRemove 1; BCache (XRead 1 2 5)] in
  0 < psize (b_cache mem s) /\ stale_ok (b_cache mem s) [] /\ bops_ok (files (b_cache mem s)) ops /\
  snd (cb_run mem mem_put mem_get mem_remove mem_size mem_contains mem_len s ops) =
    [RCache (XBytes [1; 2; 3; 4; 5; 6; 7; 8; 9; 10; 11; 12]); RId (Some 1); RNone; RCache XUnit;
     RBytes (Some [9; 8; 7; 6; 5; 4; 3; 2; 1; 0]); RCache XUnit; ROk true; RCache (XBytes [3; 40; 50; 6; 7])].
Proof.
  split; [reflexivity|]. split; [intros k pg H; discriminate H|].
  split; [cbn; repeat split; intros f E; inversion E; cbn; lia|vm_compute; reflexivity].
Qed.

(* ====================================================================================================== *)
(* extension: ConcurrentLruMap with RoundRobin / ThreadAffinity routing                                   *)
(* ====================================================================================================== *)

(* ---- whatever shard select_shard picks for each operation: seen from shard j, the history is the history of one
        LruMap on the operations that were sent to j (and the clears) ---- *)
Theorem routed_per_shard : forall n j rops sh,
  fst (g_run sh n rops) j = fst (m_run (sh j) (gsub j rops)) /\
  gpick j rops (snd (g_run sh n rops)) = snd (m_run (sh j) (gsub j rops)).
Proof. exact g_per_shard_proof. Qed.
Check routed_per_shard : forall n j rops sh,
  fst (g_run sh n rops) j = fst (m_run (sh j) (gsub j rops)) /\
  gpick j rops (snd (g_run sh n rops)) = snd (m_run (sh j) (gsub j rops)).
Print Assumptions routed_per_shard.

(* ---- RoundRobin (shard = global counter & mask, one tick per get/put/remove/contains_key): per shard ---- *)
Theorem rr_per_shard : forall mask sh ctr n ops j,
  fst (fst (rr_run mask sh ctr n ops)) j = fst (m_run (sh j) (gsub j (rr_route mask ctr ops))) /\
  gpick j (rr_route mask ctr ops) (snd (rr_run mask sh ctr n ops)) = snd (m_run (sh j) (gsub j (rr_route mask ctr ops))).
Proof. exact rr_per_shard_proof. Qed.
Check rr_per_shard : forall mask sh ctr n ops j,
  fst (fst (rr_run mask sh ctr n ops)) j = fst (m_run (sh j) (gsub j (rr_route mask ctr ops))) /\
  gpick j (rr_route mask ctr ops) (snd (rr_run mask sh ctr n ops)) = snd (m_run (sh j) (gsub j (rr_route mask ctr ops))).
Print Assumptions rr_per_shard.
Theorem rr_shard_is_lru : forall mask cp ctr n ops j,
  1 <= cp -> cp < INVALID ->
  gpick j (rr_route mask ctr ops) (snd (rr_run mask (fun _ => lru_new cp) ctr n ops)) =
    snd (s_run cp [] (gsub j (rr_route mask ctr ops))).
Proof. exact rr_shard_is_lru_proof. Qed.
Check rr_shard_is_lru : forall mask cp ctr n ops j,
  1 <= cp -> cp < INVALID ->
  gpick j (rr_route mask ctr ops) (snd (rr_run mask (fun _ => lru_new cp) ctr n ops)) =
    snd (s_run cp [] (gsub j (rr_route mask ctr ops))).
Print Assumptions rr_shard_is_lru.
Example rr_shard_is_lru_nontrivial :
  let ops := [Put 1 10; Put 2 20; Put 3 30; Get 1; Put 4 40; Get 3] in
  rr_route 1 0 ops = [(0, Put 1 10); (1, Put 2 20); (0, Put 3 30); (1, Get 1); (0, Put 4 40); (1, Get 3)] /\
  gpick 0 (rr_route 1 0 ops) (snd (rr_run 1 (fun _ => lru_new 2) 0 2 ops)) =
    [(RPut None, []); (RPut None, []); (RPut None, [(1, 10)])].
Proof. split; vm_compute; reflexivity. Qed.
(* with one shard the round-robin map is the LRU map of the property *)
Theorem rr_one_shard_is_lru : forall cp ctr ops,
  1 <= cp -> cp < INVALID ->
  snd (rr_run 0 (fun _ => lru_new cp) ctr 1 ops) = snd (s_run cp [] ops).
Proof. exact rr_one_shard_is_lru_proof. Qed.
Check rr_one_shard_is_lru : forall cp ctr ops,
  1 <= cp -> cp < INVALID ->
  snd (rr_run 0 (fun _ => lru_new cp) ctr 1 ops) = snd (s_run cp [] ops).
Print Assumptions rr_one_shard_is_lru.
Example rr_one_shard_nontrivial :
  snd (rr_run 0 (fun _ => lru_new 2) 5 1 [Put 1 10; Put 2 20; Contains 1; Put 3 30; Get 1; Len]) =
  [(RPut None, []); (RPut None, []); (RContains true, []); (RPut None, [(1, 10)]); (RGet None, []); (RLen 2, [])].
Proof. vm_compute. reflexivity. Qed.
(* with more than one shard it is not (finding concurrent_round_robin_routing): the get looks in another shard than the put *)
Theorem rr_get_after_put_refuted : exists mask cp n k v,
  1 <= cp /\ snd (rr_run mask (fun _ => lru_new cp) 0 n [Put k v; Get k]) = [(RPut None, []); (RGet None, [])].
Proof. exists 3, 2, 4%nat, 13, 102. split; [lia|vm_compute; reflexivity]. Qed.
Check rr_get_after_put_refuted : exists mask cp n k v,
  1 <= cp /\ snd (rr_run mask (fun _ => lru_new cp) 0 n [Put k v; Get k]) = [(RPut None, []); (RGet None, [])].
Print Assumptions rr_get_after_put_refuted.

(* ---- ThreadAffinity (shard = hash(thread id) & mask, for any hash th): per shard ---- *)
Theorem ta_per_shard : forall th mask sh n tops j,
  fst (ta_run th mask sh n tops) j = fst (m_run (sh j) (gsub j (ta_route th mask tops))) /\
  gpick j (ta_route th mask tops) (snd (ta_run th mask sh n tops)) = snd (m_run (sh j) (gsub j (ta_route th mask tops))).
Proof. exact ta_per_shard_proof. Qed.
Check ta_per_shard : forall th mask sh n tops j,
  fst (ta_run th mask sh n tops) j = fst (m_run (sh j) (gsub j (ta_route th mask tops))) /\
  gpick j (ta_route th mask tops) (snd (ta_run th mask sh n tops)) = snd (m_run (sh j) (gsub j (ta_route th mask tops))).
Print Assumptions ta_per_shard.
Theorem ta_shard_is_lru : forall th mask cp n tops j,
  1 <= cp -> cp < INVALID ->
  gpick j (ta_route th mask tops) (snd (ta_run th mask (fun _ => lru_new cp) n tops)) =
    snd (s_run cp [] (gsub j (ta_route th mask tops))).
Proof. exact ta_shard_is_lru_proof. Qed.
Check ta_shard_is_lru : forall th mask cp n tops j,
  1 <= cp -> cp < INVALID ->
  gpick j (ta_route th mask tops) (snd (ta_run th mask (fun _ => lru_new cp) n tops)) =
    snd (s_run cp [] (gsub j (ta_route th mask tops))).
Print Assumptions ta_shard_is_lru.
(* what one thread does by itself is an LRU map of the per-shard capacity *)
Theorem ta_one_thread_is_lru : forall th mask cp n t tops,
  1 <= cp -> cp < INVALID -> Forall (fun r => fst r = t) tops ->
  gpick (ta_shard th mask t) (ta_route th mask tops) (snd (ta_run th mask (fun _ => lru_new cp) n tops)) =
    snd (s_run cp [] (filter not_len (map snd tops))).
Proof. exact ta_one_thread_is_lru_proof. Qed.
Check ta_one_thread_is_lru : forall th mask cp n t tops,
  1 <= cp -> cp < INVALID -> Forall (fun r => fst r = t) tops ->
  gpick (ta_shard th mask t) (ta_route th mask tops) (snd (ta_run th mask (fun _ => lru_new cp) n tops)) =
    snd (s_run cp [] (filter not_len (map snd tops))).
Print Assumptions ta_one_thread_is_lru.
Example ta_one_thread_nontrivial :
  let tops := [(5, Put 1 10); (5, Put 2 20); (5, Put 3 30); (5, Get 1)] in
  Forall (fun r => fst r = 5) tops /\
  snd (ta_run (fun t => t) 3 (fun _ => lru_new 2) 4 tops) =
    [(RPut None, []); (RPut None, []); (RPut None, [(1, 10)]); (RGet None, [])].
Proof. split; [repeat constructor|vm_compute; reflexivity]. Qed.
(* a value put by one thread is invisible to a thread that hashes to another shard (finding concurrent_thread_affinity_routing) *)
Theorem ta_cross_thread_get_refuted : exists (th : N -> N) mask cp n k v,
  1 <= cp /\ snd (ta_run th mask (fun _ => lru_new cp) n [(0, Put k v); (1, Get k)]) = [(RPut None, []); (RGet None, [])].
Proof. exists (fun t => t), 3, 4, 4%nat, 7, 70. split; [lia|vm_compute; reflexivity]. Qed.
Check ta_cross_thread_get_refuted : exists (th : N -> N) mask cp n k v,
  1 <= cp /\ snd (ta_run th mask (fun _ => lru_new cp) n [(0, Put k v); (1, Get k)]) = [(RPut None, []); (RGet None, [])].
Print Assumptions ta_cross_thread_get_refuted.

(* ---- key-hash routing is the same dispatch with the shard taken from the key ---- *)
Theorem hash_routing_is_routed : forall ops c n,
  shard (fst (c_run c n ops)) = fst (g_run (shard c) n (map (fun o => (match o with Get k | Put k _ | Remove k | Contains k => sel c k | _ => 0 end, o)) ops)) /\
  snd (c_run c n ops) = snd (g_run (shard c) n (map (fun o => (match o with Get k | Put k _ | Remove k | Contains k => sel c k | _ => 0 end, o)) ops)).
Proof. exact hash_run_routed. Qed.
Check hash_routing_is_routed : forall ops c n,
  shard (fst (c_run c n ops)) = fst (g_run (shard c) n (map (fun o => (match o with Get k | Put k _ | Remove k | Contains k => sel c k | _ => 0 end, o)) ops)) /\
  snd (c_run c n ops) = snd (g_run (shard c) n (map (fun o => (match o with Get k | Put k _ | Remove k | Contains k => sel c k | _ => 0 end, o)) ops)).
Print Assumptions hash_routing_is_routed.

(* ====================================================================================================== *)
(* extension: the page cache stays within its capacity                                                    *)
(* ====================================================================================================== *)
(* ---- after every history of reads / prefetches / invalidations / rewrites / close_file the page table holds at most
        capacity / PAGE_SIZE pages -- and one page when that quotient is 0 (the eviction runs before the insertion,
        so a cache configured below one page still keeps the page it has just loaded) ---- *)
Theorem page_cache_size_le_cap : forall ps capbytes fs ops,
  nlen (inner (fst (x_run (pc_new ps capbytes fs) ops))) <= N.max 1 (capbytes / ps).
Proof. exact page_cache_size_proof. Qed.
Check page_cache_size_le_cap : forall ps capbytes fs ops,
  nlen (inner (fst (x_run (pc_new ps capbytes fs) ops))) <= N.max 1 (capbytes / ps).
Print Assumptions page_cache_size_le_cap.
Example page_cache_size_nontrivial :
  let fs := fun g => if g =? 1 then Some [1; 2; 3; 4; 5; 6; 7; 8; 9; 10; 11; 12] else None in
  nlen (inner (fst (x_run (pc_new 4 8 fs) [XRead 1 0 12; XInvRange 1 3 2; XRead 1 0 12]))) = 2 /\
  nlen (inner (fst (x_run (pc_new 4 3 fs) [XRead 1 0 12]))) = 1.
Proof. vm_compute. split; reflexivity. Qed.
