(* C17 property theorems.  Statements + exact + Print Assumptions only. *)
From ZV.Common Require Import Base.
From ZV.C17 Require Import Spec Model ProofsSpec ProofsPage.
Open Scope N_scope.

(* ---- S: the recency-list LRU map never exceeds its capacity, for every history ---- *)
Theorem spec_size_le_cap : forall cap ops l,
  1 <= cap -> nlen l <= cap -> nlen (fst (s_run cap l ops)) <= cap.
Proof. intros cap ops l. exact (s_run_size cap ops l). Qed.
Check spec_size_le_cap : forall cap ops l,
  1 <= cap -> nlen l <= cap -> nlen (fst (s_run cap l ops)) <= cap.
Print Assumptions spec_size_le_cap.

(* ---- page cache: a read returns exactly the bytes of the file in the range, clipped at EOF,
        from every coherent cache state (after any evictions / reloads / invalidations), for every
        page size, offset and length (page-straddling, beyond EOF) ---- *)
Theorem read_correct : forall c fid f off len,
  0 < psize c -> coherent c -> files c fid = Some f ->
  snd (pc_read c fid off len) = file_range f off len /\
  coherent (fst (pc_read c fid off len)) /\
  psize (fst (pc_read c fid off len)) = psize c /\ files (fst (pc_read c fid off len)) = files c.
Proof. exact read_correct_proof. Qed.
Check read_correct : forall c fid f off len,
  0 < psize c -> coherent c -> files c fid = Some f ->
  snd (pc_read c fid off len) = file_range f off len /\
  coherent (fst (pc_read c fid off len)) /\
  psize (fst (pc_read c fid off len)) = psize c /\ files (fst (pc_read c fid off len)) = files c.
Print Assumptions read_correct.

(* every read of every history of reads / prefetches / invalidations on a fresh cache *)
Theorem page_cache_history_correct : forall ps capbytes fs ops,
  0 < ps ->
  snd (pc_run (pc_new ps capbytes fs) ops) = map (expected fs) ops.
Proof. intros ps capbytes fs ops H. exact (pc_run_spec ops (pc_new ps capbytes fs) H (pc_new_coherent ps capbytes fs)). Qed.
Check page_cache_history_correct : forall ps capbytes fs ops,
  0 < ps ->
  snd (pc_run (pc_new ps capbytes fs) ops) = map (expected fs) ops.
Print Assumptions page_cache_history_correct.

(* cached blob store over its virtual file id: the cache supplies nothing, get returns the wrapped store's bytes *)
Theorem cached_get_is_inner_get : forall c vfid meta data,
  coherent c -> files c vfid = None ->
  snd (cached_get c vfid meta data) = data /\ coherent (fst (cached_get c vfid meta data)).
Proof. exact cached_get_inner. Qed.
Check cached_get_is_inner_get : forall c vfid meta data,
  coherent c -> files c vfid = None ->
  snd (cached_get c vfid meta data) = data /\ coherent (fst (cached_get c vfid meta data)).
Print Assumptions cached_get_is_inner_get.
