(* The LRU map never serves stale data, and misses only what it reported evicted:
   along every history, every entry it holds is the most recent value put for its key (and not removed
   since), and every key of the capacity-free map is either still held with that value or was reported
   to the eviction callback since its last put. *)
From ZV.Common Require Import Base.
From ZV.C17 Require Import Spec ProofsSpec ProofsStamp.
Open Scope N_scope.

Definition Fresh (l u : rl) (e : list N) : Prop :=
  (forall k v, find k l = Some v -> find k u = Some v) /\
  (forall k v, find k u = Some v -> find k l = Some v \/ In k e).

Lemma in_drop x k e : In x (drop k e) <-> In x e /\ x <> k.
Proof.
  unfold drop. rewrite filter_In. destruct (N.eqb_spec x k); cbn [negb]; intuition congruence.
Qed.

Lemma find_del k k' l : find k' (del k l) = if k =? k' then None else find k' l.
Proof.
  destruct (N.eqb_spec k k') as [->|Hne]; [apply find_del_same|apply find_del_other; congruence].
Qed.

Lemma find_snoc k l e :
  find k (l ++ [e]) = match find k l with Some v => Some v | None => if fst e =? k then Some (snd e) else None end.
Proof. rewrite find_app. destruct (find k l); [reflexivity|]. destruct e as [k' v']. reflexivity. Qed.

Lemma fresh_step cap l u e o :
  1 <= cap -> Fresh l u e ->
  Fresh (fst (s_step cap l o)) (u_step u o) (ev_step e o (snd (snd (s_step cap l o)))).
Proof.
  intros Hcap [H1 H2]. destruct o as [k|k v|k|k| |]; cbn [s_step u_step ev_step].
  - (* get: order changes only *)
    destruct (find k l) as [v|] eqn:E; cbn [fst snd map]; rewrite app_nil_r; [|split; assumption].
    split.
    + intros k0 v0. rewrite find_cons, find_del. destruct (N.eqb_spec k k0) as [<-|_]; [|apply H1].
      intros Hv. inversion Hv. subst. apply H1. exact E.
    + intros k0 v0 Hu. rewrite find_cons, find_del. destruct (N.eqb_spec k k0) as [<-|_]; [|apply H2; exact Hu].
      left. apply H1 in E. congruence.
  - destruct (find k l) as [old|] eqn:E; cbn [fst snd map].
    + (* update in place *)
      rewrite app_nil_r. split.
      * intros k0 v0. rewrite !find_cons, !find_del. destruct (k =? k0); [auto|apply H1].
      * intros k0 v0. rewrite !find_cons, !find_del. destruct (N.eqb_spec k k0) as [<-|Hne]; [auto|].
        intros Hu. destruct (H2 _ _ Hu) as [A|A]; [auto|]. right. apply in_drop. split; [exact A|congruence].
    + destruct (N.leb_spec cap (nlen l)) as [Hfull|Hroom].
      * destruct l as [|e0 l0]; [cbn [nlen] in Hfull; lia|].
        remember (e0 :: l0) as l eqn:El.
        assert (Hl : l <> []) by (subst; discriminate).
        pose proof (snoc_cases l (0, 0) Hl) as Hs.
        destruct (last l (0, 0)) as [ek ev] eqn:Elast. set (l1 := removelast l) in *.
        cbn [fst snd map]. split.
        -- intros k0 v0. rewrite !find_cons, find_del. destruct (N.eqb_spec k k0) as [<-|Hne]; [auto|].
           intros Hf. apply H1. rewrite Hs, find_snoc, Hf. reflexivity.
        -- intros k0 v0. rewrite !find_cons, find_del. destruct (N.eqb_spec k k0) as [<-|Hne]; [auto|].
           intros Hu. destruct (H2 _ _ Hu) as [A|A].
           ++ rewrite Hs, find_snoc in A. destruct (find k0 l1) as [w|] eqn:Ew; [left; exact A|].
              cbn [fst snd] in A. destruct (N.eqb_spec ek k0) as [->|]; [|discriminate].
              right. apply in_or_app. right. left. reflexivity.
           ++ right. apply in_or_app. left. apply in_drop. split; [exact A|congruence].
      * cbn [fst snd map]. rewrite app_nil_r. split.
        -- intros k0 v0. rewrite !find_cons, find_del. destruct (N.eqb_spec k k0) as [<-|Hne]; [auto|apply H1].
        -- intros k0 v0. rewrite !find_cons, find_del. destruct (N.eqb_spec k k0) as [<-|Hne]; [auto|].
           intros Hu. destruct (H2 _ _ Hu) as [A|A]; [auto|]. right. apply in_drop. split; [exact A|congruence].
  - (* remove *)
    destruct (find k l) as [v|] eqn:E; cbn [fst snd].
    + split.
      * intros k0 v0. rewrite !find_del. destruct (k =? k0); [discriminate|apply H1].
      * intros k0 v0. rewrite !find_del. destruct (N.eqb_spec k k0) as [<-|Hne]; [discriminate|].
        intros Hu. destruct (H2 _ _ Hu) as [A|A]; [auto|]. right. apply in_drop. split; [exact A|congruence].
    + split.
      * intros k0 v0 Hf. rewrite find_del. destruct (N.eqb_spec k k0) as [<-|Hne]; [congruence|apply H1; exact Hf].
      * intros k0 v0. rewrite find_del. destruct (N.eqb_spec k k0) as [<-|Hne]; [discriminate|].
        intros Hu. destruct (H2 _ _ Hu) as [A|A]; [auto|]. right. apply in_drop. split; [exact A|congruence].
  - cbn [fst snd map]. rewrite app_nil_r. split; assumption.
  - cbn [fst snd]. split; intros k0 v0 Hf; discriminate.
  - cbn [fst snd map]. rewrite app_nil_r. split; assumption.
Qed.

Lemma fresh_run cap ops : forall l u e,
  1 <= cap -> Fresh l u e ->
  let '(l', u', e') := sue_run cap l u e ops in Fresh l' u' e'.
Proof.
  induction ops as [|o ops IH]; intros l u e Hcap HF; cbn [sue_run]; [exact HF|].
  pose proof (fresh_step cap l u e o Hcap HF) as H1.
  destruct (s_step cap l o) as [l1 [r cb]]. cbn [fst snd] in H1.
  apply IH; assumption.
Qed.

Lemma sue_run_l cap ops : forall l u e, fst (fst (sue_run cap l u e ops)) = fst (s_run cap l ops).
Proof.
  induction ops as [|o ops IH]; intros l u e; cbn [sue_run s_run]; [reflexivity|].
  destruct (s_step cap l o) as [l1 [r cb]]. rewrite IH. destruct (s_run cap l1 ops). reflexivity.
Qed.

(* after any history, get(k): a value returned is the most recent value put for k (not removed since);
   a miss for a key the capacity-free map still holds happens only for a key reported evicted since its last put *)
Lemma get_fresh_proof cap pre k :
  1 <= cap ->
  let '(l, u, e) := sue_run cap [] [] [] pre in
  l = fst (s_run cap [] pre) /\
  match fst (snd (s_step cap l (Get k))) with
  | RGet (Some v) => find k u = Some v
  | RGet None => find k u = None \/ In k e
  | _ => False
  end.
Proof.
  intros Hcap.
  pose proof (fresh_run cap pre [] [] [] Hcap) as HF.
  pose proof (sue_run_l cap pre [] [] []) as Hl.
  destruct (sue_run cap [] [] [] pre) as [[l u] e]. cbn [fst] in Hl.
  specialize (HF ltac:(split; intros ? ? H; discriminate)). destruct HF as [H1 H2].
  split; [exact Hl|]. cbn [s_step].
  destruct (find k l) as [v|] eqn:E; cbn [fst snd].
  - apply H1. exact E.
  - destruct (find k u) as [w|] eqn:Eu; [|left; reflexivity].
    destruct (H2 _ _ Eu) as [A|A]; [congruence|right; exact A].
Qed.
