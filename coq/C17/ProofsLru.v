(* LruMap refines the recency-list spec: invariant of the node array and simulation of every
   operation (get / put / remove / contains_key / clear / len) for every history. *)
From ZV.Common Require Import Base.
From Coq Require Import Permutation.
From ZV.C17 Require Import Spec Model ProofsSpec ProofsLinks.
Open Scope N_scope.

Definition kv (nd : N -> node) (i : N) : N * N := (nkey (nd i), nval (nd i)).
Definition absl (nd : N -> node) (l : list N) : rl := map (kv nd) l.
Definition keyof (nd : N -> node) (i : N) : N := nkey (nd i).

Record Inv (s : lru) (l : list N) : Prop := mkInv {
  I_capb : cap s < INVALID;
  I_links : Links (nodes s) (head s) (tail s) l;
  I_nd : NoDup l;
  I_in : forall i, In i l -> i < cap s /\ nvalid (nodes s i) = true;
  I_cnt : count s = nlen l;
  I_fnd : NoDup (free s);
  I_fr : forall i, In i (free s) -> i < cap s /\ ~ In i l;
  I_card : nlen l + nlen (free s) = cap s;
  I_hm : forall k i, hmap s k = Some i <-> In i l /\ keyof (nodes s) i = k;
  I_keys : NoDup (map (keyof (nodes s)) l)
}.

(* key and validity of every node unchanged *)
Definition same_kd (nd nd' : N -> node) : Prop :=
  forall j, nkey (nd' j) = nkey (nd j) /\ nvalid (nd' j) = nvalid (nd j).
Lemma same_data_kd nd nd' : same_data nd nd' -> same_kd nd nd'.
Proof. intros H j. destruct (H j) as (A & _ & C). auto. Qed.

Lemma Inv_ne s l : Inv s l -> forall j, In j l -> j <> INVALID.
Proof. intros H j Hj. pose proof (I_capb _ _ H). destruct (I_in _ _ H j Hj). lia. Qed.

Lemma nlen_perm {A} (l l' : list A) : Permutation l l' -> nlen l = nlen l'.
Proof. intros H. rewrite !nlen_length. f_equal. apply Permutation_length. exact H. Qed.

(* moving the invariant along a permutation of the list when only links (and values) changed *)
Lemma Inv_perm s s' l l' :
  Inv s l -> Permutation l l' ->
  Links (nodes s') (head s') (tail s') l' ->
  same_kd (nodes s) (nodes s') -> cap s' = cap s -> count s' = count s ->
  free s' = free s -> hmap s' = hmap s ->
  Inv s' l'.
Proof.
  intros H P HL Hkd Hcap Hcnt Hfree Hhm.
  assert (Hin : forall j, In j l' <-> In j l).
  { intros j. split; apply Permutation_in; [apply Permutation_sym|]; exact P. }
  assert (Hk : forall j, keyof (nodes s') j = keyof (nodes s) j) by (intros j; apply (Hkd j)).
  constructor.
  - rewrite Hcap. apply (I_capb _ _ H).
  - exact HL.
  - eapply Permutation_NoDup; [exact P|apply (I_nd _ _ H)].
  - intros i Hi. rewrite Hcap. destruct (I_in _ _ H i (proj1 (Hin i) Hi)) as [A B].
    split; [exact A|]. rewrite (proj2 (Hkd i)). exact B.
  - rewrite Hcnt, (I_cnt _ _ H). apply nlen_perm. exact P.
  - rewrite Hfree. apply (I_fnd _ _ H).
  - intros i Hi. rewrite Hfree in Hi. rewrite Hcap. destruct (I_fr _ _ H i Hi) as [A B].
    split; [exact A|]. rewrite Hin. exact B.
  - rewrite Hfree, Hcap, <- (nlen_perm _ _ P). apply (I_card _ _ H).
  - intros k i. rewrite Hhm, Hk, Hin. apply (I_hm _ _ H).
  - rewrite (map_ext _ _ Hk). eapply Permutation_NoDup; [apply Permutation_map; exact P|apply (I_keys _ _ H)].
Qed.

Lemma in_middle {A} (x : A) l1 i l2 : In x (l1 ++ i :: l2) <-> x = i \/ In x (l1 ++ l2).
Proof. rewrite !in_app_iff. cbn [In]. split; intros; intuition congruence. Qed.

(* ---------- move_to_head ---------- *)
Lemma move_to_head_inv s l1 i l2 :
  Inv s (l1 ++ i :: l2) ->
  Inv (move_to_head s i) (i :: l1 ++ l2) /\ same_data (nodes s) (nodes (move_to_head s i)) /\
  cap (move_to_head s i) = cap s.
Proof.
  intros H. unfold move_to_head.
  pose proof (Inv_ne _ _ H) as Hne.
  pose proof (I_nd _ _ H) as Hnd.
  destruct (N.eqb_spec (head s) i) as [Hh|Hh].
  - (* already at the head *)
    assert (l1 = []).
    { pose proof (links_head _ _ _ _ (I_links _ _ H)) as E.
      destruct l1 as [|x l1']; [reflexivity|]. cbn [app hd] in E.
      exfalso. rewrite Hh in E. subst x. cbn [app] in Hnd. inversion Hnd as [|? ? Hn _]. apply Hn.
      rewrite in_app_iff. cbn. auto. }
    subst l1. cbn [app] in *. split; [exact H|]. split; [apply same_data_refl|reflexivity].
  - pose proof (list_remove_fields s i) as F. cbv zeta in F.
    destruct F as (_ & _ & Fc & Fcap & Ffree & Fhm & Fdata & _).
    pose proof (insert_head_fields (list_remove s i) i) as G. cbv zeta in G.
    destruct G as (_ & _ & Gc & Gcap & Gfree & Ghm & Gdata & _).
    assert (HL1 := list_remove_links s l1 i l2 (I_links _ _ H) Hnd Hne).
    assert (Hnd2 : NoDup (l1 ++ l2)) by (eapply NoDup_remove_1; exact Hnd).
    assert (Hni : ~ In i (l1 ++ l2)) by (eapply NoDup_remove_2; exact Hnd).
    assert (HL2 := insert_head_links (list_remove s i) (l1 ++ l2) i HL1 Hnd2 Hni
                     ltac:(intros j Hj; apply Hne; apply in_middle; auto)).
    assert (Hdata := same_data_trans _ _ _ Fdata Gdata).
    split; [|split; [exact Hdata|congruence]].
    eapply (Inv_perm s _ (l1 ++ i :: l2)); [exact H| |exact HL2|apply same_data_kd; exact Hdata| | | |]; try congruence.
    + apply Permutation_sym, Permutation_middle.
    + rewrite Gc, Fc. pose proof (I_cnt _ _ H) as E. rewrite nlen_app in E. cbn [nlen] in E. lia.
Qed.

(* ---------- detaching a node: evict_lru and remove ---------- *)
Definition detach (s : lru) (i : N) : lru :=
  let s1 := with_hmap s (upd (hmap s) (nkey (nodes s i)) None) in
  let s2 := list_remove s1 i in
  let s3 := with_nodes s2 (upd (nodes s2) i (reset_node (nodes s2 i))) in
  with_free s3 (i :: free s3).

Lemma detach_inv s l1 i l2 :
  Inv s (l1 ++ i :: l2) ->
  Inv (detach s i) (l1 ++ l2) /\ cap (detach s i) = cap s /\
  (forall j, j <> i -> nodes (detach s i) j = nodes (list_remove s i) j) /\
  same_data (nodes s) (nodes (list_remove s i)) /\
  hmap (detach s i) = upd (hmap s) (keyof (nodes s) i) None.
Proof.
  intros H.
  pose proof (Inv_ne _ _ H) as Hne.
  pose proof (I_nd _ _ H) as Hnd.
  set (s1 := with_hmap s (upd (hmap s) (nkey (nodes s i)) None)).
  pose proof (list_remove_fields s1 i) as F. cbv zeta in F.
  destruct F as (_ & _ & Fc & Fcap & Ffree & Fhm & Fdata & _).
  assert (HL1 : Links (nodes (list_remove s1 i)) (head (list_remove s1 i)) (tail (list_remove s1 i)) (l1 ++ l2)).
  { apply list_remove_links; [exact (I_links _ _ H)|exact Hnd|exact Hne]. }
  assert (Hnd2 : NoDup (l1 ++ l2)) by (eapply NoDup_remove_1; exact Hnd).
  assert (Hni : ~ In i (l1 ++ l2)) by (eapply NoDup_remove_2; exact Hnd).
  assert (Hil : In i (l1 ++ i :: l2)) by (apply in_middle; auto).
  assert (Hnodes : forall j, j <> i -> nodes (detach s i) j = nodes (list_remove s1 i) j).
  { intros j Hj. unfold detach. fold s1. cbn [with_free with_nodes nodes]. apply upd_other. exact Hj. }
  assert (Hsame : nodes (list_remove s1 i) = nodes (list_remove s i)) by reflexivity.
  assert (Hkey : forall j, j <> i -> keyof (nodes (detach s i)) j = keyof (nodes s) j).
  { intros j Hj. unfold keyof. rewrite Hnodes by exact Hj. apply (Fdata j). }
  assert (Hkeys : NoDup (map (keyof (nodes s)) (l1 ++ i :: l2))) by apply (I_keys _ _ H).
  rewrite map_app in Hkeys. cbn [map] in Hkeys.
  split; [|split; [reflexivity|split; [intros j Hj; rewrite Hnodes, Hsame by exact Hj; reflexivity|split; [exact Fdata|reflexivity]]]].
  constructor.
  - apply (I_capb _ _ H).
  - unfold detach. fold s1. cbn [with_free with_nodes nodes head tail].
    eapply links_frame; [|exact HL1].
    intros j Hj. assert (j <> i) by (intros ->; contradiction).
    unfold nx, pv. rewrite upd_other by assumption. auto.
  - exact Hnd2.
  - intros j Hj. assert (Hji : j <> i) by (intros ->; contradiction).
    destruct (I_in _ _ H j ltac:(apply in_middle; auto)) as [A B].
    split; [exact A|]. rewrite Hnodes by exact Hji. rewrite (proj2 (proj2 (Fdata j))). exact B.
  - unfold detach. fold s1. cbn [with_free with_nodes count]. rewrite Fc.
    change (count s1) with (count s). rewrite (I_cnt _ _ H), !nlen_app. cbn [nlen]. lia.
  - unfold detach. fold s1. cbn [with_free with_nodes free]. rewrite Ffree. change (free s1) with (free s).
    constructor; [|apply (I_fnd _ _ H)].
    intros Hf. apply (I_fr _ _ H) in Hf. tauto.
  - unfold detach. fold s1. cbn [with_free with_nodes free cap]. rewrite Ffree, Fcap. change (free s1) with (free s).
    change (cap s1) with (cap s).
    intros j [<-|Hj].
    + split; [apply (I_in _ _ H); exact Hil|exact Hni].
    + destruct (I_fr _ _ H j Hj) as [A B]. split; [exact A|]. intros C. apply B. apply in_middle. auto.
  - unfold detach. fold s1. cbn [with_free with_nodes free cap]. rewrite Ffree. change (free s1) with (free s).
    pose proof (I_card _ _ H) as E. rewrite Fcap. change (cap s1) with (cap s).
    rewrite !nlen_app in *. cbn [nlen] in *. lia.
  - intros k j. change (hmap (detach s i)) with (upd (hmap s) (keyof (nodes s) i) None).
    unfold upd. destruct (N.eqb_spec k (keyof (nodes s) i)) as [Ek|Ek].
    + split; [discriminate|]. intros [Hj Hk]. exfalso.
      assert (Hji : j <> i) by (intros ->; contradiction).
      rewrite Hkey in Hk by exact Hji.
      (* two different nodes of the list with the same key *)
      apply NoDup_remove_2 in Hkeys. apply Hkeys. rewrite <- Ek, <- Hk.
      rewrite <- map_app. apply in_map. exact Hj.
    + rewrite (I_hm _ _ H k j). rewrite in_middle. split.
      * intros [[->|Hj] Hk]; [congruence|].
        split; [exact Hj|]. rewrite Hkey; [exact Hk|intros ->; contradiction].
      * intros [Hj Hk]. assert (Hji : j <> i) by (intros ->; contradiction).
        rewrite Hkey in Hk by exact Hji. auto.
  - rewrite (map_ext_in _ (keyof (nodes s))).
    + rewrite map_app. eapply NoDup_remove_1. exact Hkeys.
    + intros j Hj. apply Hkey. intros ->. contradiction.
Qed.

(* ---------- attaching a fresh node at the head: the insert path of put ---------- *)
Definition attach (s : lru) (i : N) (fr : list N) (k v : N) : lru :=
  let s2 := with_free s fr in
  let s3 := with_nodes s2 (upd (nodes s2) i (mkNode k v INVALID INVALID true)) in
  let s4 := insert_head s3 i in
  with_hmap s4 (upd (hmap s4) k (Some i)).

Lemma attach_inv s l i fr k v :
  Inv s l -> free s = i :: fr -> hmap s k = None ->
  Inv (attach s i fr k v) (i :: l) /\ cap (attach s i fr k v) = cap s /\
  kv (nodes (attach s i fr k v)) i = (k, v) /\
  (forall j, j <> i -> kv (nodes (attach s i fr k v)) j = kv (nodes s) j).
Proof.
  intros H Hfree Hk.
  pose proof (Inv_ne _ _ H) as Hne.
  assert (Hif : In i (free s)) by (rewrite Hfree; left; reflexivity).
  destruct (I_fr _ _ H i Hif) as [Hicap Hil].
  set (s3 := with_nodes (with_free s fr) (upd (nodes s) i (mkNode k v INVALID INVALID true))).
  assert (HL3 : Links (nodes s3) (head s3) (tail s3) l).
  { eapply links_frame; [|exact (I_links _ _ H)].
    intros j Hj. assert (j <> i) by (intros ->; contradiction).
    unfold nx, pv, s3. cbn [with_nodes nodes]. rewrite upd_other by assumption. auto. }
  pose proof (insert_head_fields s3 i) as G. cbv zeta in G.
  destruct G as (_ & _ & Gc & Gcap & Gfree & Ghm & Gdata & _).
  assert (HL4 := insert_head_links s3 l i HL3 (I_nd _ _ H) Hil Hne).
  assert (Hnode_i : nkey (nodes (insert_head s3 i) i) = k /\ nval (nodes (insert_head s3 i) i) = v /\
                    nvalid (nodes (insert_head s3 i) i) = true).
  { destruct (Gdata i) as (A & B & C). rewrite A, B, C. unfold s3. cbn [with_nodes nodes].
    rewrite upd_same. cbn. auto. }
  assert (Hnode_o : forall j, j <> i -> nkey (nodes (insert_head s3 i) j) = nkey (nodes s j) /\
                                        nval (nodes (insert_head s3 i) j) = nval (nodes s j) /\
                                        nvalid (nodes (insert_head s3 i) j) = nvalid (nodes s j)).
  { intros j Hj. destruct (Gdata j) as (A & B & C). rewrite A, B, C. unfold s3. cbn [with_nodes nodes].
    rewrite upd_other by exact Hj. auto. }
  assert (Hnokey : forall j, In j l -> keyof (nodes s) j <> k).
  { intros j Hj E. assert (hmap s k = Some j) by (apply (I_hm _ _ H); auto). congruence. }
  change (attach s i fr k v) with (with_hmap (insert_head s3 i) (upd (hmap (insert_head s3 i)) k (Some i))).
  split; [|split; [exact Gcap|split]].
  - constructor; cbn [with_hmap cap nodes head tail count free hmap].
    + rewrite Gcap. apply (I_capb _ _ H).
    + exact HL4.
    + constructor; [exact Hil|apply (I_nd _ _ H)].
    + rewrite Gcap. change (cap s3) with (cap s). intros j [<-|Hj].
      * split; [exact Hicap|apply Hnode_i].
      * assert (j <> i) by (intros ->; contradiction).
        destruct (I_in _ _ H j Hj) as [A B]. split; [exact A|].
        rewrite (proj2 (proj2 (Hnode_o j ltac:(assumption)))). exact B.
    + rewrite Gc. change (count s3) with (count s). rewrite (I_cnt _ _ H). cbn [nlen]. lia.
    + rewrite Gfree. change (free s3) with fr. pose proof (I_fnd _ _ H) as E. rewrite Hfree in E.
      inversion E. assumption.
    + rewrite Gfree, Gcap. change (free s3) with fr. change (cap s3) with (cap s).
      intros j Hj. pose proof (I_fnd _ _ H) as E. rewrite Hfree in E. inversion E as [|? ? Hnotin _]. subst.
      destruct (I_fr _ _ H j ltac:(rewrite Hfree; right; exact Hj)) as [A B].
      split; [exact A|]. intros [<-|C]; [contradiction|contradiction].
    + rewrite Gfree, Gcap. change (free s3) with fr. change (cap s3) with (cap s).
      pose proof (I_card _ _ H) as E. rewrite Hfree in E. cbn [nlen] in *. lia.
    + intros k' j. rewrite Ghm. change (hmap s3) with (hmap s). unfold upd, keyof.
      destruct (N.eqb_spec k' k) as [->|Ek].
      * split.
        -- intros E. inversion E. subst j. split; [left; reflexivity|apply Hnode_i].
        -- intros [[<-|Hj] Hkj]; [reflexivity|]. exfalso.
           assert (j <> i) by (intros ->; contradiction).
           rewrite (proj1 (Hnode_o j ltac:(assumption))) in Hkj. apply (Hnokey j Hj). exact Hkj.
      * rewrite (I_hm _ _ H k' j). split.
        -- intros [Hj Hkj]. assert (j <> i) by (intros ->; contradiction).
           split; [right; exact Hj|]. rewrite (proj1 (Hnode_o j ltac:(assumption))). exact Hkj.
        -- intros [[<-|Hj] Hkj].
           ++ exfalso. rewrite (proj1 Hnode_i) in Hkj. congruence.
           ++ assert (j <> i) by (intros ->; contradiction).
              rewrite (proj1 (Hnode_o j ltac:(assumption))) in Hkj. auto.
    + cbn [map]. unfold keyof at 1. rewrite (proj1 Hnode_i).
      rewrite (map_ext_in _ (keyof (nodes s))).
      * constructor; [|apply (I_keys _ _ H)].
        intros Hin. apply in_map_iff in Hin. destruct Hin as (j & Hkj & Hj). apply (Hnokey j Hj). exact Hkj.
      * intros j Hj. assert (j <> i) by (intros ->; contradiction).
        unfold keyof. apply (Hnode_o j). assumption.
  - cbn [with_hmap nodes]. unfold kv. destruct Hnode_i as (A & B & _). rewrite A, B. reflexivity.
  - intros j Hj. cbn [with_hmap nodes]. unfold kv. destruct (Hnode_o j Hj) as (A & B & _). rewrite A, B. reflexivity.
Qed.
