(* C17 mechanism layer, part 2: invalidation of the page cache (src/cache/basic_cache.rs).
   (1) the page-index arithmetic of LruPageCache::invalidate_range as written:
         start_page = start_offset / PAGE_SIZE
         end_page   = (start_offset + length).saturating_sub(1) / PAGE_SIZE
         for page_id in start_page..=end_page { invalidate_page }
       (Model.page_span / Model.inval_loop; restated here as the set of page ids visited);
   (2) LruPageCache::close_file ("invalidate the whole file"): flush_file (dirty set only), inner.retain,
       InvalidationTracker::cleanup_file, FileManager::close_file (Err for an id without a file entry);
   (3) histories in which the file is rewritten by somebody else (no cache call at all) and the invalidation
       is a separate, later call: the ghost set `stale` lists the pages that may still hold old bytes;
   (4) LruPageCache::read_with_prefetch and SingleLruPageCache (thin wrapper around LruPageCache).
   Definitions only. *)
From ZV.Common Require Import Base Run.
From ZV.C17 Require Import Spec Model.
Open Scope N_scope.

(* ---------- (1) pages visited by `for page_id in start_page..=end_page` ---------- *)
Definition first_page (ps off : N) : N := off / ps.
Definition last_page (ps off len : N) : N := (off + len - 1) / ps.      (* N subtraction saturates at 0 *)
(* p is one of the page ids the loop of invalidate_range / prefetch / read visits *)
Definition visited (ps off len p : N) : Prop :=
  first_page ps off <= p /\ p <= last_page ps off len.
(* page p holds at least one byte of [off, off+len) *)
Definition intersects (ps off len p : N) : Prop := off < (p + 1) * ps /\ p * ps < off + len.

Fixpoint span_keys (fid sp : N) (np : nat) : list pkey :=
  match np with O => [] | S n => (fid, sp) :: span_keys fid (sp + 1) n end.
Definition keys_of_range (ps fid off len : N) : list pkey :=
  let '(sp, np) := page_span ps off len in span_keys fid sp np.

(* ---------- (2) close_file ---------- *)
Definition other_file (fid : N) (k : pkey) : bool := negb (fst k =? fid).

Definition pc_close_file (c : pcache) (fid : N) : pcache * bool :=
  (mkPc (psize c) (pcap c)
        (fun g => if g =? fid then None else files c g)                  (* file_manager.close_file *)
        (filter (fun e => other_file fid (fst e)) (inner c))             (* inner.retain(|(f, _), _| f != file_id) *)
        (filter (other_file fid) (inval c))                              (* tracker.cleanup_file *)
        (filter (fun e => other_file fid (fst e)) (atimes c))
        (clock c),
   match files c fid with Some _ => true | None => false end).           (* Err("File ID not found") *)

(* ---------- (4a) read_with_prefetch: prefetch(offset + length, ahead) with its result dropped, then read ---------- *)
Definition pc_read_with_prefetch (c : pcache) (fid off len ahead : N) : pcache * list N :=
  let c1 := if ahead =? 0 then c else pc_prefetch c fid (off + len) ahead in
  pc_read c1 fid off len.

(* ---------- (3) histories with external writes ---------- *)
Inductive xop : Type :=
| XRead (fid off len : N)
| XReadAhead (fid off len ahead : N)
| XPrefetch (fid off len : N)
| XInvPage (fid page : N)
| XInvRange (fid off len : N)
| XWrite (fid off : N) (data : list N)     (* the file is rewritten in place by somebody else: no cache call *)
| XClose (fid : N).

Inductive xres : Type := XBytes (l : list N) | XUnit | XOk (b : bool).

Definition x_step (c : pcache) (o : xop) : pcache * xres :=
  match o with
  | XRead f off len => let '(c1, r) := pc_read c f off len in (c1, XBytes r)
  | XReadAhead f off len ahead => let '(c1, r) := pc_read_with_prefetch c f off len ahead in (c1, XBytes r)
  | XPrefetch f off len => (pc_prefetch c f off len, XUnit)
  | XInvPage f p => (pc_invalidate_page c (f, p), XUnit)
  | XInvRange f off len => (pc_invalidate_range c f off len, XUnit)
  | XWrite f off data => (with_files c (fs_overwrite (files c) f off data), XUnit)
  | XClose f => let '(c1, ok) := pc_close_file c f in (c1, XOk ok)
  end.

Fixpoint x_run (c : pcache) (ops : list xop) : pcache * list xres :=
  match ops with
  | [] => (c, [])
  | o :: t => let '(c1, r) := x_step c o in
              let '(c2, rs) := x_run c1 t in (c2, r :: rs)
  end.

(* ghost: the pages that may hold bytes older than the file (rewritten since they were cached, not yet invalidated) *)
Definition stale_step (ps : N) (D : list pkey) (o : xop) : list pkey :=
  match o with
  | XWrite f off data => keys_of_range ps f off (nlen data) ++ D
  | XInvRange f off len => filter (fun k => negb (pmem k (keys_of_range ps f off len))) D
  | XInvPage f p => filter (fun k => negb (pkey_eqb (f, p) k)) D
  | XClose f => filter (other_file f) D
  | _ => D
  end.

(* every cached page that is not listed as stale holds what the file holds *)
Definition stale_ok (c : pcache) (D : list pkey) : Prop :=
  forall k pg, plookup k (inner c) = Some pg -> pmem k D = false ->
    pg = match files c (fst k) with Some f => page_of (psize c) f (snd k) | None => [] end.

(* the pages LruPageCache::read asks get_page for (after the clamp to the file size) *)
Definition read_visits (c : pcache) (fid off len p : N) : Prop :=
  match files c fid with
  | Some f => nlen f > off /\ visited (psize c) off (N.min len (nlen f - off)) p
  | None => visited (psize c) off len p
  end.
(* a read is clean when none of the pages it visits may be stale *)
Definition clean_read (c : pcache) (D : list pkey) (fid off len : N) : Prop :=
  forall p, read_visits c fid off len p -> pmem (fid, p) D = false.

Definition file_bytes (fs : N -> option (list N)) (fid off len : N) : list N :=
  match fs fid with Some f => file_range f off len | None => [] end.

(* every write lies inside its file (the size recorded by open_file stays right) *)
Definition xop_ok (fs : N -> option (list N)) (o : xop) : Prop :=
  match o with
  | XWrite fid off data => forall f, fs fid = Some f -> off + nlen data <= nlen f
  | _ => True
  end.
Definition x_next_files (fs : N -> option (list N)) (o : xop) : N -> option (list N) :=
  match o with
  | XWrite fid off data => fs_overwrite fs fid off data
  | XClose fid => fun g => if g =? fid then None else fs g
  | _ => fs
  end.
Fixpoint xops_ok (fs : N -> option (list N)) (ops : list xop) : Prop :=
  match ops with [] => True | o :: t => xop_ok fs o /\ xops_ok (x_next_files fs o) t end.

(* the statement "every clean read of the history returns the file's current bytes" *)
Fixpoint x_fresh (c : pcache) (D : list pkey) (ops : list xop) : Prop :=
  match ops with
  | [] => True
  | o :: t =>
      match o with
      | XRead f off len | XReadAhead f off len _ =>
          clean_read c D f off len -> snd (x_step c o) = XBytes (file_bytes (files c) f off len)
      | _ => True
      end /\ x_fresh (fst (x_step c o)) (stale_step (psize c) D o) t
  end.

(* histories in which every external write is directly followed by an invalidate_range that covers it *)
Fixpoint disciplined (ops : list xop) : Prop :=
  match ops with
  | [] => True
  | XWrite f off data :: t =>
      match t with
      | XInvRange f' o l :: t' => f' = f /\ o <= off /\ off + nlen data <= o + l /\ disciplined t'
      | _ => False
      end
  | _ :: t => disciplined t
  end.
Definition x_expected1 (fs : N -> option (list N)) (o : xop) : xres :=
  match o with
  | XRead f off len | XReadAhead f off len _ => XBytes (file_bytes fs f off len)
  | XClose f => XOk (match fs f with Some _ => true | None => false end)
  | _ => XUnit
  end.
Fixpoint x_expected (fs : N -> option (list N)) (ops : list xop) : list xres :=
  match ops with [] => [] | o :: t => x_expected1 fs o :: x_expected (x_next_files fs o) t end.

(* ---------- (4b) SingleLruPageCache: every method forwards to the wrapped LruPageCache ---------- *)
Inductive sop : Type :=
| SRead (fid off len : N) (buf : list N)     (* read(.., buffer): buffer.copy_from_slice(result.data()) *)
| SReadNew (fid off len : N)
| SPrefetch (fid off len : N)
| SInvPage (fid page : N)
| SInvRange (fid off len : N)
| SClose (fid : N)
| SSize.                                      (* size(): inner.len() *)

Inductive sres : Type := SBytes (l : list N) | SUnit | SOk (b : bool) | SNum (n : N).

Definition single_step (c : pcache) (o : sop) : pcache * sres :=
  match o with
  | SRead f off len buf =>
      let '(c1, r) := pc_read c f off len in
      (c1, SBytes (firstn 0 buf ++ r))          (* data_buffer.clear(); data_buffer.extend_from_slice(data) *)
  | SReadNew f off len => let '(c1, r) := pc_read c f off len in (c1, SBytes r)
  | SPrefetch f off len => (pc_prefetch c f off len, SUnit)
  | SInvPage f p => (pc_invalidate_page c (f, p), SUnit)
  | SInvRange f off len => (pc_invalidate_range c f off len, SUnit)
  | SClose f => let '(c1, ok) := pc_close_file c f in (c1, SOk ok)
  | SSize => (c, SNum (nlen (inner c)))
  end.
Fixpoint single_run (c : pcache) (ops : list sop) : pcache * list sres :=
  match ops with
  | [] => (c, [])
  | o :: t => let '(c1, r) := single_step c o in
              let '(c2, rs) := single_run c1 t in (c2, r :: rs)
  end.
(* the same call made on the wrapped cache directly *)
Definition sop_x (o : sop) : option xop :=
  match o with
  | SRead f off len _ | SReadNew f off len => Some (XRead f off len)
  | SPrefetch f off len => Some (XPrefetch f off len)
  | SInvPage f p => Some (XInvPage f p)
  | SInvRange f off len => Some (XInvRange f off len)
  | SClose f => Some (XClose f)
  | SSize => None
  end.
Definition sres_x (r : sres) : option xres :=
  match r with SBytes l => Some (XBytes l) | SUnit => Some XUnit | SOk b => Some (XOk b) | SNum _ => None end.
Fixpoint somes {A} (l : list (option A)) : list A :=
  match l with [] => [] | Some x :: t => x :: somes t | None :: t => somes t end.

(* ---------- FileManager::read_page as written: a PAGE_SIZE buffer, zero-filled behind the bytes read ---------- *)
Definition read_page_buf (ps : N) (f : list N) (p : N) : list N * N :=
  let got := page_of ps f p in
  (got ++ repeat 0 (N.to_nat (ps - nlen got)), nlen got).
(* get_page after a miss: `if bytes_read < PAGE_SIZE { page_buffer.truncate(bytes_read) }`;
   a failed read_page (virtual id) gives a zeroed PAGE_SIZE buffer and bytes_read = 0 *)
Definition load_page (ps : N) (file : option (list N)) (p : N) : list N :=
  let '(buf, n) := match file with
                   | Some f => read_page_buf ps f p
                   | None => (repeat 0 (N.to_nat ps), 0)
                   end in
  if n <? ps then firstn (N.to_nat n) buf else buf.

(* ---------- encodings used by the harness-generated case files ---------- *)
(* code 0 read | 1 prefetch | 2 invalidate_page | 3 invalidate_range | 4 rewrite [a, a+b) then invalidate_range(a, b)
        5 rewrite [a, a+b) only | 6 close_file | 7 read_with_prefetch (ahead = b) *)
Definition new_bytes (c : pcache) (f a b : N) : list N :=
  match files c f with
  | Some fl => ow_bytes (firstn (N.to_nat b) (skipn (N.to_nat a) fl)) 0
  | None => []
  end.
Definition x_step_h (c : pcache) (t : N * N * N * N) : pcache * list N :=
  let '(code, f, a, b) := t in
  if code =? 4 then
    match files c f with
    | Some _ => let nb := new_bytes c f a b in
                (fst (x_step (fst (x_step c (XWrite f a nb))) (XInvRange f a (nlen nb))), [])
    | None => (c, [])
    end
  else if code =? 5 then (fst (x_step c (XWrite f a (new_bytes c f a b))), [])
  else
    let o := if code =? 0 then XRead f a b else if code =? 1 then XPrefetch f a b
             else if code =? 2 then XInvPage f a else if code =? 3 then XInvRange f a b
             else if code =? 6 then XClose f else XReadAhead f a b b in
    let '(c1, r) := x_step c o in
    (c1, match r with XBytes l => l | XUnit => [] | XOk true => [1] | XOk false => [0] end).
Fixpoint x_run_h (c : pcache) (ops : list (N * N * N * N)) : pcache * list (list N) :=
  match ops with
  | [] => (c, [])
  | o :: t => let '(c1, r) := x_step_h c o in
              let '(c2, rs) := x_run_h c1 t in (c2, r :: rs)
  end.
Definition px_case (ps capbytes : N) (fs : list (N * (N * N))) (ops : list (N * N * N * N)) : list (list N) :=
  let fl := map (fun t => (fst t, gen_file (fst (snd t)) (snd (snd t)))) fs in
  map digest (snd (x_run_h (pc_new ps capbytes (files_of fl)) ops)).

(* SingleLruPageCache: same codes; 8 = read(.., &mut buffer) into a buffer that already holds b bytes; 9 = size() *)
Definition s_step_h (c : pcache) (t : N * N * N * N) : pcache * list N :=
  let '(code, f, a, b) := t in
  if (code =? 4) || (code =? 5) then x_step_h c t
  else
    let o := if code =? 0 then SReadNew f a b else if code =? 1 then SPrefetch f a b
             else if code =? 2 then SInvPage f a else if code =? 3 then SInvRange f a b
             else if code =? 6 then SClose f else if code =? 8 then SRead f a b (repeat 7 (N.to_nat (N.min b 64)))
             else SSize in
    let '(c1, r) := single_step c o in
    (c1, match r with SBytes l => l | SUnit => [] | SOk true => [1] | SOk false => [0] | SNum n => [n] end).
Fixpoint s_run_h (c : pcache) (ops : list (N * N * N * N)) : pcache * list (list N) :=
  match ops with
  | [] => (c, [])
  | o :: t => let '(c1, r) := s_step_h c o in
              let '(c2, rs) := s_run_h c1 t in (c2, r :: rs)
  end.
Definition ps_case (ps capbytes : N) (fs : list (N * (N * N))) (ops : list (N * N * N * N)) : list (list N) :=
  let fl := map (fun t => (fst t, gen_file (fst (snd t)) (snd (snd t)))) fs in
  map digest (snd (s_run_h (pc_new ps capbytes (files_of fl)) ops)).
