(* CachedBlobStore: over its virtual file id the page cache never supplies a byte, so every history shows what the
   wrapped store shows; and the store's traffic on a shared cache does not disturb the reads of real files. *)
From ZV.Common Require Import Base.
From ZV.C17 Require Import Spec Model ModelInval ModelBlob ProofsPage ProofsInval ProofsFresh.
Open Scope N_scope.

(* ---------- a property of every cached page that loading preserves ---------- *)
Definition pages_inv (c : pcache) (Q : pkey -> list N -> Prop) : Prop :=
  forall k pg, plookup k (inner c) = Some pg -> Q k pg.

Lemma get_page_pinv c k (Q : pkey -> list N -> Prop) :
  pages_inv c Q -> Q k (page_or_empty c k) ->
  let r := get_page c k in
  pages_inv (fst r) Q /\ Q k (snd r) /\ psize (fst r) = psize c /\ files (fst r) = files c.
Proof.
  intros Hc Hl. unfold get_page. cbv zeta.
  set (inner1 := if pmem k (inval c) then premove k (inner c) else inner c).
  assert (H1 : forall k' pg, plookup k' inner1 = Some pg -> Q k' pg).
  { subst inner1. destruct (pmem k (inval c)); [|exact Hc].
    intros k' pg H. apply Hc. eapply plookup_premove. exact H. }
  destruct (plookup k inner1) as [pg|] eqn:El.
  - cbn [fst snd]. split; [exact H1|]. split; [apply H1; exact El|split; reflexivity].
  - fold (page_or_empty c k).
    assert (Hev : forall inner2 inval2 at2,
              (forall k' pg, plookup k' inner2 = Some pg -> Q k' pg) ->
              let r := (mkPc (psize c) (pcap c) (files c) ((k, page_or_empty c k) :: inner2) inval2
                             (set_atime at2 k (clock c)) (S (clock c)), page_or_empty c k) in
              pages_inv (fst r) Q /\ Q k (snd r) /\ psize (fst r) = psize c /\ files (fst r) = files c).
    { intros inner2 inval2 at2 H2. cbn [fst snd]. split; [|split; [exact Hl|split; reflexivity]].
      intros k' pg' Hlk. cbn [inner plookup] in Hlk.
      destruct (pkey_eqb k k') eqn:E.
      - apply pkey_eqb_eq in E. subst k'. inversion Hlk. subst pg'. exact Hl.
      - apply H2. assumption. }
    assert (Hpm : forall k0, forall k' pg, plookup k' (premove k0 inner1) = Some pg -> Q k' pg).
    { intros k0 k' pg H. apply H1. eapply plookup_premove. exact H. }
    destruct (pcap c <=? nlen inner1).
    + destruct (find_lru (atimes c)) as [[lk t]|].
      * apply Hev. apply Hpm.
      * destruct inner1 as [|[k0 x] rest] eqn:Ei.
        -- apply Hev. assumption.
        -- apply Hev. apply Hpm.
    + apply Hev. assumption.
Qed.

(* ---------- virtual file ids ---------- *)
Definition Qv (v : N) : pkey -> list N -> Prop := fun k pg => fst k = v -> pg = [].

Lemma virt_ok_iff c v : virt_ok c v <-> files c v = None /\ pages_inv c (Qv v).
Proof.
  unfold virt_ok, pages_inv, Qv. split; intros [A B]; (split; [exact A|]).
  - intros [f p] pg H E. cbn [fst] in E. subst f. eapply B. exact H.
  - intros p pg H. apply (B (v, p) pg H). reflexivity.
Qed.

Lemma virt_loads c v k : files c v = None -> Qv v k (page_or_empty c k).
Proof. intros Hf E. unfold page_or_empty. rewrite E, Hf. reflexivity. Qed.

Lemma get_page_virt c v k :
  virt_ok c v -> virt_ok (fst (get_page c k)) v /\ (fst k = v -> snd (get_page c k) = []).
Proof.
  intros Hv. apply virt_ok_iff in Hv. destruct Hv as [Hf Hp].
  destruct (get_page_pinv c k (Qv v) Hp (virt_loads c v k Hf)) as (A & B & _ & D).
  split; [|exact B]. apply virt_ok_iff. split; [rewrite D; exact Hf|exact A].
Qed.

Lemma read_loop_keeps_virt v fid : forall np c page cur rem acc,
  virt_ok c v -> virt_ok (fst (read_loop np c fid page cur rem acc)) v.
Proof.
  induction np as [|np IH]; intros c page cur rem acc Hv; cbn [read_loop]; [exact Hv|].
  destruct (get_page_virt c v (fid, page) Hv) as [Hv1 _].
  destruct (get_page c (fid, page)) as [c1 pg]. cbn [fst] in Hv1.
  destruct (rem - N.min rem (psize c - (cur - page * psize c)) =? 0); [exact Hv1|].
  apply IH. exact Hv1.
Qed.

Lemma read_loop_virt v : forall np c page cur rem acc,
  virt_ok c v -> snd (read_loop np c v page cur rem acc) = acc.
Proof.
  induction np as [|np IH]; intros c page cur rem acc Hv; cbn [read_loop]; [reflexivity|].
  destruct (get_page_virt c v (v, page) Hv) as [Hv1 Hpg]. specialize (Hpg eq_refl).
  destruct (get_page c (v, page)) as [c1 pg]. cbn [fst snd] in *. subst pg.
  rewrite page_chunk_eq, skipn_nil, firstn_nil, app_nil_r.
  destruct (rem - N.min rem (psize c - (cur - page * psize c)) =? 0); [reflexivity|].
  apply IH. exact Hv1.
Qed.

Lemma pc_read_keeps_virt c v fid off len : virt_ok c v -> virt_ok (fst (pc_read c fid off len)) v.
Proof.
  intros Hv. unfold pc_read, pc_read_pages.
  destruct (files c fid) as [f|].
  - destruct (nlen f <=? off); [exact Hv|].
    destruct (page_span (psize c) off (N.min len (nlen f - off))) as [sp np]. apply read_loop_keeps_virt. exact Hv.
  - destruct (page_span (psize c) off len) as [sp np]. apply read_loop_keeps_virt. exact Hv.
Qed.

Lemma pc_read_virt c v off len : virt_ok c v -> snd (pc_read c v off len) = [].
Proof.
  intros Hv. unfold pc_read, pc_read_pages. rewrite (proj1 Hv).
  destruct (page_span (psize c) off len) as [sp np]. apply read_loop_virt. exact Hv.
Qed.

Lemma prefetch_keeps_virt c v fid off len : virt_ok c v -> virt_ok (pc_prefetch c fid off len) v.
Proof.
  intros Hv. unfold pc_prefetch. destruct (page_span (psize c) off len) as [sp np].
  revert c sp Hv. induction np as [|np IH]; intros c sp Hv; cbn [prefetch_loop]; [exact Hv|].
  apply IH. apply get_page_virt. exact Hv.
Qed.

Lemma inval_range_keeps_virt c v fid off len : virt_ok c v -> virt_ok (pc_invalidate_range c fid off len) v.
Proof.
  intros [Hf Hp]. destruct (inval_range_fields c fid off len) as [_ Ff]. split; [rewrite Ff; exact Hf|].
  intros p pg H. unfold pc_invalidate_range in H. destruct (page_span (psize c) off len) as [sp np].
  destruct (inval_loop_state fid np c sp (v, p)) as [A _]. rewrite A in H.
  destruct (in_span fid sp np (v, p)); [discriminate|]. eapply Hp. exact H.
Qed.

Lemma x_step_keeps_virt c v o : virt_ok c v -> virt_ok (fst (x_step c o)) v.
Proof.
  intros Hv. destruct o as [f off len|f off len ahead|f off len|f p|f off len|f off data|f]; cbn [x_step].
  - pose proof (pc_read_keeps_virt c v f off len Hv) as H. destruct (pc_read c f off len). exact H.
  - unfold pc_read_with_prefetch.
    assert (H : virt_ok (fst (pc_read (if ahead =? 0 then c else pc_prefetch c f (off + len) ahead) f off len)) v).
    { apply pc_read_keeps_virt. destruct (ahead =? 0); [exact Hv|apply prefetch_keeps_virt; exact Hv]. }
    destruct (pc_read (if ahead =? 0 then c else pc_prefetch c f (off + len) ahead) f off len). exact H.
  - cbn [fst]. apply prefetch_keeps_virt. exact Hv.
  - cbn [fst]. destruct Hv as [Hf Hp]. split; [exact Hf|].
    intros q pg H. cbn [pc_invalidate_page inner] in H. apply plookup_premove in H. eapply Hp. exact H.
  - cbn [fst]. apply inval_range_keeps_virt. exact Hv.
  - cbn [fst]. destruct Hv as [Hf Hp]. split; [|exact Hp].
    cbn [with_files files]. unfold fs_overwrite. destruct (v =? f); [rewrite Hf|]; auto.
  - cbn [pc_close_file fst]. destruct Hv as [Hf Hp]. split.
    + cbn [files]. destruct (v =? f); [reflexivity|exact Hf].
    + intros q pg H. cbn [inner] in H. rewrite plookup_filter in H.
      destruct (other_file f (v, q)); [|discriminate]. eapply Hp. exact H.
Qed.

Section BlobProofs.
  Variable St : Type.
  Variable i_put : St -> list N -> St * option N.
  Variable i_get : St -> N -> option (list N).
  Variable i_remove : St -> N -> St * bool.
  Variable i_size : St -> N -> option N.
  Variable i_contains : St -> N -> bool.
  Variable i_len : St -> N.

  Notation cbs := (cbs St).
  Notation cb_step := (cb_step St i_put i_get i_remove i_size i_contains i_len).
  Notation cb_run := (cb_run St i_put i_get i_remove i_size i_contains i_len).
  Notation i_step := (i_step St i_put i_get i_remove i_size i_contains i_len).
  Notation i_run := (i_run St i_put i_get i_remove i_size i_contains i_len).
  Notation cb_fresh := (cb_fresh St i_put i_get i_remove i_size i_contains i_len).

  Definition cb_virt (s : cbs) : Prop := virt_ok (b_cache St s) (b_fid St s).

  Lemma cb_step_inner (s : cbs) o :
    cb_virt s ->
    b_inner St (fst (cb_step s o)) = fst (i_step (b_inner St s) o) /\
    (match o with BCache _ => True | _ => snd (cb_step s o) = snd (i_step (b_inner St s) o) end) /\
    cb_virt (fst (cb_step s o)).
  Proof.
    intros Hv. unfold cb_virt in *.
    destruct o as [d|id|id|id|id| | |off len| | |st|xo]; cbn [cb_step i_step].
    - unfold cb_put. destruct (i_put (b_inner St s) d) as [st1 [id|]]; cbn [fst snd b_inner b_cache b_fid]; auto.
    - unfold cb_get. destruct (b_enabled St s); cbn [negb]; [|cbn [fst snd]; auto].
      destruct (mlookup id (b_meta St s)) as [[off size]|]; [|cbn [fst snd]; auto].
      pose proof (pc_read_virt (b_cache St s) (b_fid St s) off size Hv) as Hr.
      pose proof (pc_read_keeps_virt (b_cache St s) (b_fid St s) (b_fid St s) off size Hv) as Hk.
      destruct (pc_read (b_cache St s) (b_fid St s) off size) as [c1 buf]. cbn [fst snd] in *. subst buf.
      cbn [fst snd with_cache b_inner b_cache b_fid]. auto.
    - unfold cb_remove.
      set (c1 := match mlookup id (b_meta St s) with
                 | Some (off, size) => if b_enabled St s then pc_invalidate_range (b_cache St s) (b_fid St s) off size
                                       else b_cache St s
                 | None => b_cache St s end).
      assert (Hc1 : virt_ok c1 (b_fid St s)).
      { subst c1. destruct (mlookup id (b_meta St s)) as [[off size]|]; [|exact Hv].
        destruct (b_enabled St s); [apply inval_range_keeps_virt|]; exact Hv. }
      destruct (i_remove (b_inner St s) id) as [st1 [|]]; cbn [fst snd b_inner b_cache b_fid]; auto.
    - cbn [fst snd]. auto.
    - cbn [fst snd]. auto.
    - cbn [fst snd]. auto.
    - cbn [fst snd]. auto.
    - cbn [fst snd]. destruct (b_enabled St s); cbn [with_cache b_inner b_cache b_fid]; [|auto].
      split; [reflexivity|split; [reflexivity|]]. apply prefetch_keeps_virt. exact Hv.
    - cbn [fst snd b_inner b_cache b_fid]. auto.
    - cbn [fst snd b_inner b_cache b_fid]. auto.
    - cbn [fst snd b_inner b_cache b_fid]. auto.
    - pose proof (x_step_keeps_virt (b_cache St s) (b_fid St s) xo Hv) as Hk.
      destruct (x_step (b_cache St s) xo) as [c1 r]. cbn [fst snd with_cache b_inner b_cache b_fid] in *. auto.
  Qed.

  Lemma cached_store_proof : forall ops (s : cbs),
    cb_virt s ->
    store_view ops (snd (cb_run s ops)) = snd (i_run (b_inner St s) ops) /\
    b_inner St (fst (cb_run s ops)) = fst (i_run (b_inner St s) ops).
  Proof.
    induction ops as [|o ops IH]; intros s Hv; cbn [ModelBlob.cb_run ModelBlob.i_run store_view]; [auto|].
    destruct (cb_step_inner s o Hv) as (Hi & Hr & Hv1).
    assert (Hr' : match o with BCache _ => snd (i_step (b_inner St s) o) = RNone | _ => True end)
      by (destruct o; try exact I; reflexivity).
    destruct (cb_step s o) as [s1 r]. destruct (i_step (b_inner St s) o) as [st1 r']. cbn [fst snd] in *.
    specialize (IH s1 Hv1). rewrite Hi in IH.
    destruct (cb_run s1 ops) as [s2 rs]. destruct (i_run st1 ops) as [st2 rs']. cbn [fst snd store_view] in *.
    destruct IH as [A B]. split; [|exact B]. rewrite A.
    destruct o; try (rewrite Hr; reflexivity).
    (* BCache: both sides show RNone *)
    rewrite Hr'. reflexivity.
  Qed.

  (* ---------- the shared cache under the store's traffic ---------- *)
  Lemma cb_step_cache (s : cbs) o :
    b_cache St (fst (cb_step s o)) =
      match cache_calls St s o with [] => b_cache St s | xo :: _ => fst (x_step (b_cache St s) xo) end.
  Proof.
    destruct o as [d|id|id|id|id| | |off len| | |st|xo]; cbn [cb_step cache_calls]; try reflexivity.
    - unfold cb_put. destruct (i_put (b_inner St s) d) as [st1 [id|]]; reflexivity.
    - unfold cb_get. destruct (b_enabled St s); cbn [negb]; [|reflexivity].
      destruct (mlookup id (b_meta St s)) as [[off size]|]; [|reflexivity].
      cbn [x_step]. destruct (pc_read (b_cache St s) (b_fid St s) off size) as [c1 [|x buf]]; reflexivity.
    - unfold cb_remove. destruct (i_remove (b_inner St s) id) as [st1 [|]]; cbn [fst b_cache];
        (destruct (b_enabled St s); [destruct (mlookup id (b_meta St s)) as [[off size]|]; reflexivity
                                    |destruct (mlookup id (b_meta St s)) as [[off size]|]; reflexivity]).
    - destruct (b_enabled St s); reflexivity.
    - destruct (x_step (b_cache St s) xo) as [c1 r]. reflexivity.
  Qed.

  Lemma cache_calls_ok (s : cbs) o fs : bop_ok fs o -> Forall (xop_ok fs) (cache_calls St s o).
  Proof.
    intros Hok. destruct o as [d|id|id|id|id| | |off len| | |st|xo]; cbn [cache_calls]; try constructor.
    - destruct (b_enabled St s); [|constructor].
      destruct (mlookup id (b_meta St s)) as [[off size]|]; repeat constructor.
    - destruct (b_enabled St s); [|constructor].
      destruct (mlookup id (b_meta St s)) as [[off size]|]; repeat constructor.
    - destruct (b_enabled St s); repeat constructor.
    - exact Hok.
    - constructor.
  Qed.

  Lemma cache_calls_short (s : cbs) o : (length (cache_calls St s o) <= 1)%nat.
  Proof.
    destruct o as [d|id|id|id|id| | |off len| | |st|xo]; cbn [cache_calls length]; try lia.
    - destruct (b_enabled St s); [destruct (mlookup id (b_meta St s)) as [[off size]|]|]; cbn [length]; lia.
    - destruct (b_enabled St s); [destruct (mlookup id (b_meta St s)) as [[off size]|]|]; cbn [length]; lia.
    - destruct (b_enabled St s); cbn [length]; lia.
  Qed.

  Lemma cache_calls_files (s : cbs) o :
    match cache_calls St s o with
    | [] => b_next_files (files (b_cache St s)) o = files (b_cache St s)
    | xo :: _ => b_next_files (files (b_cache St s)) o = x_next_files (files (b_cache St s)) xo
    end.
  Proof.
    destruct o as [d|id|id|id|id| | |off len| | |st|xo]; cbn [cache_calls b_next_files]; try reflexivity.
    - destruct (b_enabled St s); [destruct (mlookup id (b_meta St s)) as [[off size]|]|]; reflexivity.
    - destruct (b_enabled St s); [destruct (mlookup id (b_meta St s)) as [[off size]|]|]; reflexivity.
    - destruct (b_enabled St s); reflexivity.
  Qed.

  Lemma cb_step_state (s : cbs) D o :
    0 < psize (b_cache St s) -> stale_ok (b_cache St s) D -> bop_ok (files (b_cache St s)) o ->
    stale_ok (b_cache St (fst (cb_step s o)))
             (fold_left (stale_step (psize (b_cache St s))) (cache_calls St s o) D) /\
    psize (b_cache St (fst (cb_step s o))) = psize (b_cache St s) /\
    files (b_cache St (fst (cb_step s o))) = b_next_files (files (b_cache St s)) o.
  Proof.
    intros Hps Hc Hok. rewrite cb_step_cache.
    pose proof (cache_calls_ok s o _ Hok) as Hall.
    pose proof (cache_calls_short s o) as Hlen.
    pose proof (cache_calls_files s o) as Hfiles.
    destruct (cache_calls St s o) as [|xo rest].
    - cbn [fold_left]. rewrite Hfiles. auto.
    - destruct rest; [|cbn [length] in Hlen; lia]. cbn [fold_left]. rewrite Hfiles.
      apply x_step_state; [exact Hps|exact Hc|]. inversion Hall. assumption.
  Qed.

  Lemma cb_fresh_proof : forall ops (s : cbs) D,
    0 < psize (b_cache St s) -> stale_ok (b_cache St s) D -> bops_ok (files (b_cache St s)) ops ->
    cb_fresh s D ops.
  Proof.
    induction ops as [|o ops IH]; intros s D Hps Hc Hok; cbn [ModelBlob.cb_fresh]; [exact I|].
    cbn [bops_ok] in Hok. destruct Hok as [Ho Hrest].
    destruct (cb_step_state s D o Hps Hc Ho) as (Hc1 & Hps1 & Hf1).
    split.
    - destruct o as [d|id|id|id|id| | |off len| | |st|xo]; try exact I.
      destruct xo as [f off len|f off len ahead| | | | |]; try exact I; intros Hclean; cbn [ModelBlob.cb_step].
      + pose proof (x_step_value (b_cache St s) D (XRead f off len) f off len Hps Hc Hclean (or_introl eq_refl)) as H.
        destruct (x_step (b_cache St s) (XRead f off len)) as [c1 r]. cbn [snd] in *. rewrite H. reflexivity.
      + pose proof (x_step_value (b_cache St s) D (XReadAhead f off len ahead) f off len Hps Hc Hclean
                      (or_intror (ex_intro _ ahead eq_refl))) as H.
        destruct (x_step (b_cache St s) (XReadAhead f off len ahead)) as [c1 r]. cbn [snd] in *. rewrite H. reflexivity.
    - apply IH; [rewrite Hps1; exact Hps|exact Hc1|rewrite Hf1; exact Hrest].
  Qed.
End BlobProofs.

(* a fresh store over a fresh or shared cache: the id handed out by register_file(-1) has no file entry *)
Lemma virt_ok_new ps capbytes fs v : fs v = None -> virt_ok (pc_new ps capbytes fs) v.
Proof. intros H. split; [exact H|]. intros p pg E. cbn in E. discriminate. Qed.
