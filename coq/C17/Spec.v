(* C17 spec layer S: what the property says, as short executable definitions.
   LRU map  : a recency list of (key, value), most recently used first.
   Page read: the bytes of the file in [off, off+len), clipped at end of file.
   Definitions only. *)
From ZV.Common Require Import Base.
Open Scope N_scope.

(* ---------- operations and observations of an LRU map ---------- *)
Inductive op : Type :=
| Get (k : N) | Put (k v : N) | Remove (k : N) | Contains (k : N) | Clear | Len.

Inductive res : Type :=
| RGet (o : option N)          (* get: value or miss *)
| RPut (o : option N)          (* put: previous value, if the key was present *)
| RPutErr                      (* put refused *)
| RRemove (o : option N)
| RContains (b : bool)
| RClear
| RLen (n : N).

(* what one step shows: the result and the eviction-callback invocations it made *)
Definition obs : Type := (res * list (N * N))%type.

(* ---------- recency list ---------- *)
Definition rl := list (N * N).

Fixpoint find (k : N) (l : rl) : option N :=
  match l with
  | [] => None
  | (k', v) :: t => if k' =? k then Some v else find k t
  end.

Fixpoint del (k : N) (l : rl) : rl :=
  match l with
  | [] => []
  | (k', v) :: t => if k' =? k then del k t else (k', v) :: del k t
  end.

Definition keys (l : rl) : list N := map fst l.

(* one step of the LRU map the property describes, capacity cap >= 1 *)
Definition s_step (cap : N) (l : rl) (o : op) : rl * obs :=
  match o with
  | Get k =>
      match find k l with
      | Some v => ((k, v) :: del k l, (RGet (Some v), []))
      | None => (l, (RGet None, []))
      end
  | Put k v =>
      match find k l with
      | Some old => ((k, v) :: del k l, (RPut (Some old), []))
      | None =>
          if cap <=? nlen l then
            match l with
            | [] => (l, (RPutErr, []))                      (* only when cap = 0 *)
            | _ => ((k, v) :: removelast l, (RPut None, [last l (0, 0)]))
            end
          else ((k, v) :: l, (RPut None, []))
      end
  | Remove k =>
      match find k l with
      | Some v => (del k l, (RRemove (Some v), []))
      | None => (l, (RRemove None, []))
      end
  | Contains k => (l, (RContains (match find k l with Some _ => true | None => false end), []))
  | Clear => ([], (RClear, []))
  | Len => (l, (RLen (nlen l), []))
  end.

Fixpoint s_run (cap : N) (l : rl) (ops : list op) : rl * list obs :=
  match ops with
  | [] => (l, [])
  | o :: t => let '(l1, ob) := s_step cap l o in
              let '(l2, obs) := s_run cap l1 t in (l2, ob :: obs)
  end.

(* ---------- the same LRU map told with time stamps (the property's wording:
   "the entry evicted is the one whose last access is oldest") ---------- *)
Definition tl := list (N * N * nat).                 (* key, value, time of last get/put; any order *)

Fixpoint tfind (k : N) (l : tl) : option (N * nat) :=
  match l with
  | [] => None
  | (k', v, t) :: r => if k' =? k then Some (v, t) else tfind k r
  end.
Fixpoint tdel (k : N) (l : tl) : tl :=
  match l with
  | [] => []
  | (k', v, t) :: r => if k' =? k then tdel k r else (k', v, t) :: tdel k r
  end.
(* the entry with the smallest stamp *)
Fixpoint oldest (l : tl) : option (N * N * nat) :=
  match l with
  | [] => None
  | (k, v, t) :: r =>
      match oldest r with
      | None => Some (k, v, t)
      | Some (k', v', t') => if (t <? t')%nat then Some (k, v, t) else Some (k', v', t')
      end
  end.

Definition t_step (cap : N) (now : nat) (l : tl) (o : op) : tl * obs :=
  match o with
  | Get k =>
      match tfind k l with
      | Some (v, _) => ((k, v, now) :: tdel k l, (RGet (Some v), []))
      | None => (l, (RGet None, []))
      end
  | Put k v =>
      match tfind k l with
      | Some (old, _) => ((k, v, now) :: tdel k l, (RPut (Some old), []))
      | None =>
          if cap <=? nlen l then
            match oldest l with
            | None => (l, (RPutErr, []))
            | Some (ek, ev, _) => ((k, v, now) :: tdel ek l, (RPut None, [(ek, ev)]))
            end
          else ((k, v, now) :: l, (RPut None, []))
      end
  | Remove k =>
      match tfind k l with
      | Some (v, _) => (tdel k l, (RRemove (Some v), []))
      | None => (l, (RRemove None, []))
      end
  | Contains k => (l, (RContains (match tfind k l with Some _ => true | None => false end), []))
  | Clear => ([], (RClear, []))
  | Len => (l, (RLen (nlen l), []))
  end.

Fixpoint t_run (cap : N) (now : nat) (l : tl) (ops : list op) : tl * list obs :=
  match ops with
  | [] => (l, [])
  | o :: t => let '(l1, ob) := t_step cap now l o in
              let '(l2, obs) := t_run cap (S now) l1 t in (l2, ob :: obs)
  end.

(* ---------- "get(k) returns the most recent value put for k if k has not been evicted or removed" ----------
   u: the map without a capacity (most recent value put per key, minus removes and clears);
   ev: the keys reported to the eviction callback since they were last put *)
Definition u_step (u : rl) (o : op) : rl :=
  match o with
  | Put k v => (k, v) :: del k u
  | Remove k => del k u
  | Clear => []
  | _ => u
  end.
Definition drop (k : N) (e : list N) : list N := filter (fun x => negb (x =? k)) e.
Definition ev_step (e : list N) (o : op) (cb : list (N * N)) : list N :=
  match o with
  | Put k _ => drop k e ++ map fst cb
  | Remove k => drop k e
  | Clear => []
  | _ => e ++ map fst cb
  end.
(* run the spec, the capacity-free map and the evicted-set side by side *)
Fixpoint sue_run (cap : N) (l u : rl) (e : list N) (ops : list op) : rl * rl * list N :=
  match ops with
  | [] => (l, u, e)
  | o :: t => let '(l1, (_, cb)) := s_step cap l o in sue_run cap l1 (u_step u o) (ev_step e o cb) t
  end.

(* ---------- page cache: bytes of a file in a range ---------- *)
Definition file_range (file : list N) (off len : N) : list N :=
  firstn (N.to_nat len) (skipn (N.to_nat off) file).
