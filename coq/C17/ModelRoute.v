(* C17 mechanism layer, part 4: ConcurrentLruMap::select_shard for the other two LoadBalancingStrategy values
   (src/containers/specialized/concurrent_lru_map.rs):
     RoundRobin     => stats.global_counter.fetch_add(1) as usize & shard_mask      (one tick per get/put/remove/contains_key)
     ThreadAffinity => hash_thread_id(thread::current().id()) & shard_mask         (the hasher is opaque: a parameter)
   and the dispatch that is common to all strategies (keyed operation -> one shard, clear -> every shard, len -> sum).
   Definitions only. *)
From ZV.Common Require Import Base Run.
From ZV.C17 Require Import Spec Model.
Open Scope N_scope.

Definition keyed (o : op) : bool :=
  match o with Get _ | Put _ _ | Remove _ | Contains _ => true | Clear | Len => false end.

Definition count_sum (sh : N -> lru) (n : nat) : N :=
  fold_right N.add 0 (map (fun j => count (sh (N.of_nat j))) (seq 0 n)).

(* get/put/remove/contains_key on shard j; clear on every shard; len = sum of the shard lengths *)
Definition g_step (sh : N -> lru) (n : nat) (j : N) (o : op) : (N -> lru) * obs :=
  match o with
  | Clear => (fun i => m_clear (sh i), (RClear, []))
  | Len => (sh, (RLen (count_sum sh n), []))
  | _ => let '(s1, ob) := m_step (sh j) o in (upd sh j s1, ob)
  end.

(* a history in which every operation comes with the shard select_shard chose for it *)
Fixpoint g_run (sh : N -> lru) (n : nat) (rops : list (N * op)) : (N -> lru) * list obs :=
  match rops with
  | [] => (sh, [])
  | (j, o) :: t => let '(sh1, ob) := g_step sh n j o in
                   let '(sh2, obs) := g_run sh1 n t in (sh2, ob :: obs)
  end.

(* the operations shard j sees, and the positions of their observations *)
Definition to_shard (j : N) (r : N * op) : bool :=
  match snd r with Clear => true | Len => false | _ => fst r =? j end.
Definition gsub (j : N) (rops : list (N * op)) : list op := map snd (filter (to_shard j) rops).
Fixpoint gpick (j : N) (rops : list (N * op)) (obs : list obs) : list Spec.obs :=
  match rops, obs with
  | r :: rops', ob :: obs' => if to_shard j r then ob :: gpick j rops' obs' else gpick j rops' obs'
  | _, _ => []
  end.

(* ---------- RoundRobin ---------- *)
Definition rr_shard (mask ctr : N) : N := N.land ctr mask.            (* (counter as usize) & shard_mask *)
Definition rr_tick (ctr : N) : N := (ctr + 1) mod W64.                (* AtomicU64::fetch_add wraps *)

Fixpoint rr_run (mask : N) (sh : N -> lru) (ctr : N) (n : nat) (ops : list op) : (N -> lru) * N * list obs :=
  match ops with
  | [] => (sh, ctr, [])
  | o :: t =>
      let '(sh1, ob) := g_step sh n (rr_shard mask ctr) o in
      let ctr1 := if keyed o then rr_tick ctr else ctr in
      let '(sh2, ctr2, obs) := rr_run mask sh1 ctr1 n t in (sh2, ctr2, ob :: obs)
  end.
Fixpoint rr_route (mask ctr : N) (ops : list op) : list (N * op) :=
  match ops with
  | [] => []
  | o :: t => (rr_shard mask ctr, o) :: rr_route mask (if keyed o then rr_tick ctr else ctr) t
  end.

(* ---------- ThreadAffinity: every operation is made by a thread; th = hash of its ThreadId ---------- *)
Definition ta_shard (th : N -> N) (mask tid : N) : N := N.land (th tid) mask.
Fixpoint ta_run (th : N -> N) (mask : N) (sh : N -> lru) (n : nat) (tops : list (N * op)) : (N -> lru) * list obs :=
  match tops with
  | [] => (sh, [])
  | (tid, o) :: t =>
      let '(sh1, ob) := g_step sh n (ta_shard th mask tid) o in
      let '(sh2, obs) := ta_run th mask sh1 n t in (sh2, ob :: obs)
  end.
Definition ta_route (th : N -> N) (mask : N) (tops : list (N * op)) : list (N * op) :=
  map (fun r => (ta_shard th mask (fst r), snd r)) tops.

(* ---------- encodings used by the harness-generated case files ---------- *)
Definition rr_case (percap : N) (nshards : nat) (ops : list (N * N * N)) : list (list Z) :=
  map enc_obs (snd (rr_run (N.of_nat nshards - 1) (fun _ => lru_new percap) 0 nshards (map dec_op ops))).
(* route: (thread, shard) pairs observed on the implementation; th := the observed shard itself *)
Definition ta_case (percap : N) (nshards : nat) (route : list (N * N)) (tops : list (N * (N * N * N))) : list (list Z) :=
  map enc_obs (snd (ta_run (route_of route) (N.of_nat nshards - 1) (fun _ => lru_new percap) nshards
                           (map (fun r => (fst r, dec_op (snd r))) tops))).
