(* invalidate_range / close_file: which cached pages go and which stay. *)
From ZV.Common Require Import Base.
From ZV.C17 Require Import Spec Model ModelInval ProofsPage.
Open Scope N_scope.

(* ---------- page table: equational lemmas ---------- *)
Lemma pkey_eqb_refl k : pkey_eqb k k = true.
Proof. apply pkey_eqb_eq. reflexivity. Qed.

Lemma pkey_eqb_neq a b : pkey_eqb a b = false <-> a <> b.
Proof.
  split.
  - intros H E. apply pkey_eqb_eq in E. congruence.
  - intros H. destruct (pkey_eqb a b) eqn:E; [|reflexivity]. apply pkey_eqb_eq in E. contradiction.
Qed.

Lemma pkey_eqb_sym a b : pkey_eqb a b = pkey_eqb b a.
Proof.
  destruct (pkey_eqb a b) eqn:E.
  - apply pkey_eqb_eq in E. subst. symmetry. apply pkey_eqb_refl.
  - apply pkey_eqb_neq in E. symmetry. apply pkey_eqb_neq. congruence.
Qed.

Lemma plookup_premove_same {A} k (l : list (pkey * A)) : plookup k (premove k l) = None.
Proof.
  induction l as [|[k1 z] l IH]; cbn [premove plookup]; [reflexivity|].
  destruct (pkey_eqb k1 k) eqn:E; [assumption|]. cbn [plookup]. rewrite E. assumption.
Qed.

Lemma plookup_premove_other {A} k k' (l : list (pkey * A)) :
  k' <> k -> plookup k' (premove k l) = plookup k' l.
Proof.
  intros Hne. induction l as [|[k1 z] l IH]; cbn [premove plookup]; [reflexivity|].
  destruct (pkey_eqb k1 k) eqn:E.
  - apply pkey_eqb_eq in E. subst k1.
    replace (pkey_eqb k k') with false by (symmetry; apply pkey_eqb_neq; congruence). assumption.
  - cbn [plookup]. destruct (pkey_eqb k1 k'); [reflexivity|assumption].
Qed.

Lemma plookup_filter {A} (P : pkey -> bool) k (l : list (pkey * A)) :
  plookup k (filter (fun e => P (fst e)) l) = if P k then plookup k l else None.
Proof.
  induction l as [|[k1 z] l IH]; cbn [filter plookup fst].
  - destruct (P k); reflexivity.
  - destruct (P k1) eqn:E1; cbn [plookup].
    + destruct (pkey_eqb k1 k) eqn:E.
      * apply pkey_eqb_eq in E. subst k1. rewrite E1. reflexivity.
      * exact IH.
    + destruct (pkey_eqb k1 k) eqn:E.
      * apply pkey_eqb_eq in E. subst k1. rewrite E1 in *. exact IH.
      * exact IH.
Qed.

Lemma pmem_filter (P : pkey -> bool) k (l : list pkey) :
  pmem k (filter P l) = pmem k l && P k.
Proof.
  induction l as [|k1 l IH]; cbn [filter pmem]; [reflexivity|].
  destruct (P k1) eqn:E1; cbn [pmem]; rewrite IH.
  - destruct (pkey_eqb k1 k) eqn:E; cbn [orb].
    + apply pkey_eqb_eq in E. subst k1. rewrite E1. destruct (pmem k l); reflexivity.
    + reflexivity.
  - destruct (pkey_eqb k1 k) eqn:E; cbn [orb].
    + apply pkey_eqb_eq in E. subst k1. rewrite E1. destruct (pmem k l); reflexivity.
    + reflexivity.
Qed.

Lemma pmem_app k (a b : list pkey) : pmem k (a ++ b) = pmem k a || pmem k b.
Proof.
  induction a as [|k1 a IH]; cbn [app pmem]; [reflexivity|]. rewrite IH. apply orb_assoc.
Qed.

Definition in_span (fid sp : N) (np : nat) (k : pkey) : bool :=
  (fst k =? fid) && (sp <=? snd k) && (snd k <? sp + N.of_nat np).

Lemma pmem_span_keys fid k : forall np sp, pmem k (span_keys fid sp np) = in_span fid sp np k.
Proof.
  induction np as [|np IH]; intros sp; cbn [span_keys pmem]; unfold in_span.
  - destruct (fst k =? fid), (sp <=? snd k) eqn:E1, (snd k <? sp + N.of_nat 0) eqn:E2; try reflexivity. lia.
  - rewrite IH. unfold in_span, pkey_eqb. destruct k as [a b]. cbn [fst snd].
    rewrite (N.eqb_sym fid a).
    destruct (a =? fid); cbn [andb orb]; [|reflexivity].
    destruct (N.eqb_spec sp b) as [E|E], (N.leb_spec (sp + 1) b), (N.ltb_spec b (sp + 1 + N.of_nat np)),
             (N.leb_spec sp b), (N.ltb_spec b (sp + N.of_nat (S np))); cbn [andb orb]; try reflexivity; lia.
Qed.

(* ---------- the loop of invalidate_range ---------- *)
Lemma inval_loop_state fid : forall np c page k,
  plookup k (inner (inval_loop np c fid page)) =
    (if in_span fid page np k then None else plookup k (inner c)) /\
  pmem k (inval (inval_loop np c fid page)) = in_span fid page np k || pmem k (inval c).
Proof.
  induction np as [|np IH]; intros c page k; cbn [inval_loop].
  - assert (E : in_span fid page 0 k = false).
    { unfold in_span. destruct (fst k =? fid), (N.leb_spec page (snd k)), (N.ltb_spec (snd k) (page + N.of_nat 0));
        cbn [andb]; try reflexivity; lia. }
    rewrite E. auto.
  - destruct (IH (pc_invalidate_page c (fid, page)) (page + 1) k) as [A B]. rewrite A, B.
    cbn [pc_invalidate_page inner inval pmem].
    assert (E : in_span fid page (S np) k = pkey_eqb (fid, page) k || in_span fid (page + 1) np k).
    { rewrite <- (pmem_span_keys fid k (S np) page), <- (pmem_span_keys fid k np (page + 1)). reflexivity. }
    rewrite E. destruct (in_span fid (page + 1) np k); cbn [orb].
    + rewrite orb_true_r. auto.
    + rewrite orb_false_r. destruct (pkey_eqb (fid, page) k) eqn:Ek; cbn [orb].
      * apply pkey_eqb_eq in Ek. subst k. split; [apply plookup_premove_same|reflexivity].
      * apply pkey_eqb_neq in Ek. split; [apply plookup_premove_other; congruence|reflexivity].
Qed.

Lemma in_span_visited ps fid off len k :
  in_span fid (fst (page_span ps off len)) (snd (page_span ps off len)) k = true <->
  fst k = fid /\ visited ps off len (snd k).
Proof.
  unfold in_span, page_span, visited, first_page, last_page. cbn [fst snd].
  rewrite !andb_true_iff, N.eqb_eq, N.leb_le, N.ltb_lt, N2Nat.id. split.
  - intros [[A B] C]. split; [exact A|]. lia.
  - intros [A [B C]]. split; [split; [exact A|exact B]|]. lia.
Qed.

Lemma visited_intersects ps off len p :
  0 < ps -> 0 < len -> (visited ps off len p <-> intersects ps off len p).
Proof.
  intros Hps Hlen. unfold visited, intersects, first_page, last_page.
  pose proof (div_bounds off ps Hps) as [A1 A2].
  pose proof (div_bounds (off + len - 1) ps Hps) as [B1 B2].
  split.
  - intros [H1 H2]. split; nia.
  - intros [H1 H2]. split.
    + assert (off / ps < p + 1) by (apply N.div_lt_upper_bound; lia). lia.
    + apply N.div_le_lower_bound; lia.
Qed.

Lemma visited_empty ps off p : 0 < ps -> visited ps off 0 p -> p = off / ps.
Proof.
  intros Hps [H1 H2]. unfold first_page, last_page in *.
  assert ((off + 0 - 1) / ps <= off / ps) by (apply N.div_le_mono; lia). lia.
Qed.

Lemma visited_mono ps off n o l p :
  0 < ps -> o <= off -> off + n <= o + l -> visited ps off n p -> visited ps o l p.
Proof.
  intros Hps H1 H2 [A B]. unfold visited, first_page, last_page in *.
  assert (o / ps <= off / ps) by (apply N.div_le_mono; lia).
  assert ((off + n - 1) / ps <= (o + l - 1) / ps) by (apply N.div_le_mono; lia).
  lia.
Qed.

Lemma inval_range_fields c fid off len :
  psize (pc_invalidate_range c fid off len) = psize c /\
  files (pc_invalidate_range c fid off len) = files c.
Proof.
  unfold pc_invalidate_range. destruct (page_span (psize c) off len) as [sp np]. apply inval_loop_fields.
Qed.

Lemma invalidate_range_covers_proof c fid off len :
  0 < psize c ->
  let c' := pc_invalidate_range c fid off len in
  (forall p, visited (psize c) off len p ->
     plookup (fid, p) (inner c') = None /\ pmem (fid, p) (inval c') = true) /\
  (forall k, ~ (fst k = fid /\ visited (psize c) off len (snd k)) ->
     plookup k (inner c') = plookup k (inner c) /\ pmem k (inval c') = pmem k (inval c)) /\
  (0 < len -> forall p, visited (psize c) off len p <-> intersects (psize c) off len p) /\
  (len = 0 -> forall p, visited (psize c) off len p -> p = off / psize c) /\
  psize c' = psize c /\ files c' = files c.
Proof.
  intros Hps c'. subst c'.
  split; [|split; [|split; [|split; [|apply inval_range_fields]]]].
  - intros p Hv. unfold pc_invalidate_range.
    pose proof (in_span_visited (psize c) fid off len (fid, p)) as Hi.
    destruct (page_span (psize c) off len) as [sp np]. cbn [fst snd] in Hi.
    destruct (inval_loop_state fid np c sp (fid, p)) as [A B]. rewrite A, B.
    replace (in_span fid sp np (fid, p)) with true by (symmetry; apply Hi; auto). auto.
  - intros k Hout. unfold pc_invalidate_range.
    pose proof (in_span_visited (psize c) fid off len k) as Hi.
    destruct (page_span (psize c) off len) as [sp np]. cbn [fst snd] in Hi.
    destruct (inval_loop_state fid np c sp k) as [A B]. rewrite A, B.
    destruct (in_span fid sp np k); [exfalso; apply Hout, Hi; reflexivity|]. auto.
  - intros Hlen p. apply visited_intersects; assumption.
  - intros -> p. apply visited_empty. assumption.
Qed.

(* ---------- close_file ---------- *)
Lemma other_file_true fid k : other_file fid k = true <-> fst k <> fid.
Proof. unfold other_file. rewrite negb_true_iff, N.eqb_neq. reflexivity. Qed.

Lemma invalidate_file_covers_proof c fid :
  let c' := fst (pc_close_file c fid) in
  (forall p, plookup (fid, p) (inner c') = None /\ pmem (fid, p) (inval c') = false) /\
  (forall k, fst k <> fid ->
     plookup k (inner c') = plookup k (inner c) /\ pmem k (inval c') = pmem k (inval c)) /\
  files c' fid = None /\ (forall g, g <> fid -> files c' g = files c g) /\
  psize c' = psize c /\
  snd (pc_close_file c fid) = match files c fid with Some _ => true | None => false end.
Proof.
  cbn [pc_close_file fst snd inner inval files psize].
  split; [|split; [|split; [|split; [|split; reflexivity]]]].
  - intros p. rewrite plookup_filter, pmem_filter. unfold other_file. cbn [fst]. rewrite N.eqb_refl. cbn [negb].
    rewrite andb_false_r. auto.
  - intros k Hk. rewrite plookup_filter, pmem_filter.
    replace (other_file fid k) with true by (symmetry; apply other_file_true; exact Hk).
    rewrite andb_true_r. auto.
  - rewrite N.eqb_refl. reflexivity.
  - intros g Hg. destruct (N.eqb_spec g fid); [contradiction|reflexivity].
Qed.

(* ---------- FileManager::read_page + the truncation in get_page = "the bytes of the page that exist" ---------- *)
Lemma page_of_len ps f p : nlen (page_of ps f p) <= ps.
Proof. unfold page_of. rewrite nlen_length, firstn_length. lia. Qed.

Lemma load_page_is_page_of ps f p :
  load_page ps (Some f) p = page_of ps f p /\ (0 < ps -> load_page ps None p = []).
Proof.
  unfold load_page, read_page_buf. split.
  - pose proof (page_of_len ps f p) as Hl.
    destruct (N.ltb_spec (nlen (page_of ps f p)) ps) as [H|H].
    + rewrite firstn_app, nlen_len, Nat.sub_diag, firstn_all. cbn [firstn]. apply app_nil_r.
    + replace (ps - nlen (page_of ps f p)) with 0 by lia. cbn [N.to_nat repeat]. apply app_nil_r.
  - intros Hps. destruct (N.ltb_spec 0 ps); [reflexivity|lia].
Qed.

(* ---------- the tracker never forgets: an invalidated (or evicted) page is reloaded on every later access ---------- *)
Lemma invalidated_reload_proof c k :
  pmem k (inval c) = true ->
  snd (get_page c k) = match files c (fst k) with Some f => page_of (psize c) f (snd k) | None => [] end /\
  pmem k (inval (fst (get_page c k))) = true.
Proof.
  intros Hi. unfold get_page. rewrite Hi, plookup_premove_same.
  destruct (pcap c <=? nlen (premove k (inner c))).
  - destruct (find_lru (atimes c)) as [[lk t]|].
    + cbn [fst snd inval pmem]. rewrite Hi, orb_true_r. auto.
    + destruct (premove k (inner c)) as [|[k0 x] rest].
      * cbn [fst snd inval]. auto.
      * cbn [fst snd inval pmem]. rewrite Hi, orb_true_r. auto.
  - cbn [fst snd inval]. auto.
Qed.
