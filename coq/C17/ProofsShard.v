(* ConcurrentLruMap with key-hash routing: seen from one shard, a history of the sharded map is the
   history of a single LruMap on the operations routed to that shard. *)
From ZV.Common Require Import Base.
From ZV.C17 Require Import Spec Model ProofsLinks.
Open Scope N_scope.

(* the observations at the positions of the operations routed to shard j *)
Fixpoint pick (sl : N -> N) (j : N) (ops : list op) (obs : list obs) : list Spec.obs :=
  match ops, obs with
  | o :: ops', ob :: obs' => if routed sl j o then ob :: pick sl j ops' obs' else pick sl j ops' obs'
  | _, _ => []
  end.

Lemma c_step_sel c n o : sel (fst (c_step c n o)) = sel c.
Proof.
  destruct o as [k|k v|k|k| |]; cbn [c_step];
    try (destruct (m_step (shard c (sel c k)) _) as [s1 ob]; reflexivity); reflexivity.
Qed.

Lemma c_step_shard c n o j :
  shard (fst (c_step c n o)) j =
    (if routed (sel c) j o then fst (m_step (shard c j) o) else shard c j) /\
  (routed (sel c) j o = true -> snd (c_step c n o) = snd (m_step (shard c j) o)).
Proof.
  destruct o as [k|k v|k|k| |]; cbn [c_step routed].
  1-4: destruct (N.eqb_spec (sel c k) j) as [E|E];
       [rewrite E; destruct (m_step (shard c j) _) as [s1 ob]; cbn [fst snd shard];
        rewrite upd_same; auto
       |destruct (m_step (shard c (sel c k)) _) as [s1 ob]; cbn [fst snd shard];
        rewrite upd_other by congruence; split; [reflexivity|discriminate]].
  - cbn [fst snd shard m_step]. auto.
  - cbn [fst snd]. split; [reflexivity|discriminate].
Qed.

Lemma cmap_per_shard_proof n j : forall ops c,
  shard (fst (c_run c n ops)) j = fst (m_run (shard c j) (filter (routed (sel c) j) ops)) /\
  pick (sel c) j ops (snd (c_run c n ops)) = snd (m_run (shard c j) (filter (routed (sel c) j) ops)).
Proof.
  induction ops as [|o ops IH]; intros c; cbn [c_run filter m_run pick]; [auto|].
  pose proof (c_step_shard c n o j) as [Hs Ho]. pose proof (c_step_sel c n o) as Hsel.
  destruct (c_step c n o) as [c1 ob]. cbn [fst snd] in *.
  specialize (IH c1). rewrite Hsel in IH.
  destruct (c_run c1 n ops) as [c2 obs]. cbn [fst snd pick] in *.
  destruct (routed (sel c) j o) eqn:Er.
  - cbn [m_run]. rewrite (Ho eq_refl). rewrite Hs in IH.
    destruct (m_step (shard c j) o) as [s1 ob1]. cbn [fst snd] in *.
    destruct IH as [A B]. destruct (m_run s1 (filter (routed (sel c) j) ops)) as [s2 obs2].
    cbn [fst snd] in *. rewrite A, B. auto.
  - rewrite Hs in IH. exact IH.
Qed.
