(* The intrusive doubly linked list of LruMap: the prev/next links stored in the node array
   describe a list of node indices, and LruList::remove / insert_head / move_to_head act on it
   as "delete one element" / "cons" / "move to front". *)
From ZV.Common Require Import Base.
From Coq Require Import Permutation.
From ZV.C17 Require Import Spec Model.
Open Scope N_scope.

(* a chain through a pointer field f: starts at h, visits exactly l, ends in e *)
Fixpoint path (f : N -> N) (h : N) (l : list N) (e : N) : Prop :=
  match l with
  | [] => h = e
  | i :: r => h = i /\ path f (f i) r e
  end.

Lemma path_app f l1 : forall h l2 e,
  path f h (l1 ++ l2) e <-> exists m, path f h l1 m /\ path f m l2 e.
Proof.
  induction l1 as [|x l1 IH]; intros h l2 e; cbn [app path].
  - split; [intros H; exists h; auto|intros (m & -> & H); exact H].
  - rewrite IH. split.
    + intros (-> & m & A & B). exists m. auto.
    + intros (m & (-> & A) & B). split; [reflexivity|]. exists m. auto.
Qed.

Lemma path_frame f g l : forall h e,
  (forall j, In j l -> g j = f j) -> path f h l e -> path g h l e.
Proof.
  induction l as [|x l IH]; intros h e Hfg; cbn [path]; [auto|].
  intros (-> & H). split; [reflexivity|].
  rewrite Hfg by (left; reflexivity). apply IH; [|exact H].
  intros j Hj. apply Hfg. right. exact Hj.
Qed.

Lemma path_head f h l e d : path f h l e -> l <> [] -> h = hd d l.
Proof. destruct l; [congruence|]. cbn. intros [-> _] _. reflexivity. Qed.

(* unlinking element i: its predecessor (or the start) now points to its successor *)
Lemma unlink_nil f f' h i B e :
  NoDup (i :: B) -> path f h (i :: B) e ->
  (forall j, In j B -> f' j = f j) ->
  path f' (f i) B e.
Proof.
  intros Hnd (-> & H) Hf. eapply path_frame; [|exact H]. exact Hf.
Qed.

Lemma unlink_snoc f f' h A a i B e :
  NoDup (A ++ a :: i :: B) -> path f h (A ++ a :: i :: B) e ->
  (forall j, In j A \/ In j B -> f' j = f j) -> f' a = f i ->
  path f' h (A ++ a :: B) e.
Proof.
  intros Hnd H Hf Ha.
  apply path_app in H. destruct H as (m & HA & HB).
  cbn [path] in HB. destruct HB as (-> & Hai & HB).
  apply path_app. exists a. split.
  - eapply path_frame; [|exact HA]. intros j Hj. apply Hf. left. exact Hj.
  - cbn [path]. split; [reflexivity|]. rewrite Ha.
    eapply path_frame; [|exact HB]. intros j Hj. apply Hf. right. exact Hj.
Qed.

(* ---------- field views of the node array ---------- *)
Definition nx (nd : N -> node) : N -> N := fun i => nnext (nd i).
Definition pv (nd : N -> node) : N -> N := fun i => nprev (nd i).

Definition same_data (nd nd' : N -> node) : Prop :=
  forall j, nkey (nd' j) = nkey (nd j) /\ nval (nd' j) = nval (nd j) /\ nvalid (nd' j) = nvalid (nd j).

Lemma same_data_refl nd : same_data nd nd.
Proof. intros j. auto. Qed.
Lemma same_data_trans a b c : same_data a b -> same_data b c -> same_data a c.
Proof. intros H1 H2 j. destruct (H1 j) as (A & B & C), (H2 j) as (D & E & F). repeat split; congruence. Qed.

Lemma upd_same {A} (f : N -> A) i x : upd f i x i = x.
Proof. unfold upd. rewrite N.eqb_refl. reflexivity. Qed.
Lemma upd_other {A} (f : N -> A) i x j : j <> i -> upd f i x j = f j.
Proof. unfold upd. intros H. destruct (N.eqb_spec j i); [contradiction|reflexivity]. Qed.

Lemma set_next_data nd a b : same_data nd (set_next nd a b).
Proof. intros j. unfold set_next, upd. destruct (N.eqb_spec j a); subst; cbn [nkey nval nvalid]; auto. Qed.
Lemma set_prev_data nd a b : same_data nd (set_prev nd a b).
Proof. intros j. unfold set_prev, upd. destruct (N.eqb_spec j a); subst; cbn [nkey nval nvalid]; auto. Qed.

Lemma nx_set_next nd a b j : nx (set_next nd a b) j = if j =? a then b else nx nd j.
Proof. unfold nx, set_next, upd. destruct (j =? a); reflexivity. Qed.
Lemma nx_set_prev nd a b j : nx (set_prev nd a b) j = nx nd j.
Proof. unfold nx, set_prev, upd. destruct (N.eqb_spec j a); subst; reflexivity. Qed.
Lemma pv_set_prev nd a b j : pv (set_prev nd a b) j = if j =? a then b else pv nd j.
Proof. unfold pv, set_prev, upd. destruct (j =? a); reflexivity. Qed.
Lemma pv_set_next nd a b j : pv (set_next nd a b) j = pv nd j.
Proof. unfold pv, set_next, upd. destruct (N.eqb_spec j a); subst; reflexivity. Qed.

(* what LruList::remove leaves in the array *)
Lemma list_remove_fields s i :
  let p := nprev (nodes s i) in
  let n := nnext (nodes s i) in
  let s' := list_remove s i in
  head s' = (if p =? INVALID then n else head s) /\
  tail s' = (if n =? INVALID then p else tail s) /\
  count s' = count s - 1 /\ cap s' = cap s /\ free s' = free s /\ hmap s' = hmap s /\
  same_data (nodes s) (nodes s') /\
  (forall j, nx (nodes s') j =
             if j =? i then INVALID else if negb (p =? INVALID) && (j =? p) then n else nx (nodes s) j) /\
  (forall j, pv (nodes s') j =
             if j =? i then INVALID else if negb (n =? INVALID) && (j =? n) then p else pv (nodes s) j).
Proof.
  cbv zeta. unfold list_remove. cbn [head tail count cap free hmap nodes].
  split; [reflexivity|]. split; [reflexivity|]. split; [reflexivity|]. split; [reflexivity|].
  split; [reflexivity|]. split; [reflexivity|]. split; [|split].
  - (* data *)
    destruct (nprev (nodes s i) =? INVALID), (nnext (nodes s i) =? INVALID);
      repeat (eapply same_data_trans; [|first [apply set_next_data|apply set_prev_data]]); apply same_data_refl.
  - (* next *)
    intros j. rewrite nx_set_next, nx_set_prev.
    destruct (nnext (nodes s i) =? INVALID); rewrite ?nx_set_prev;
      destruct (nprev (nodes s i) =? INVALID); rewrite ?nx_set_next; reflexivity.
  - (* prev *)
    intros j. rewrite pv_set_next, pv_set_prev.
    destruct (nnext (nodes s i) =? INVALID); rewrite ?pv_set_prev;
      destruct (nprev (nodes s i) =? INVALID); rewrite ?pv_set_next; reflexivity.
Qed.

(* what LruList::insert_head leaves in the array *)
Lemma insert_head_fields s i :
  let old := head s in
  let s' := insert_head s i in
  head s' = i /\
  tail s' = (if old =? INVALID then i else tail s) /\
  count s' = count s + 1 /\ cap s' = cap s /\ free s' = free s /\ hmap s' = hmap s /\
  same_data (nodes s) (nodes s') /\
  (forall j, nx (nodes s') j = if j =? i then old else nx (nodes s) j) /\
  (forall j, pv (nodes s') j =
             if negb (old =? INVALID) && (j =? old) then i else if j =? i then INVALID else pv (nodes s) j).
Proof.
  cbv zeta. unfold insert_head.
  destruct (head s =? INVALID) eqn:Eo; cbn [head tail count cap free hmap nodes negb andb];
    (split; [reflexivity|]); (split; [reflexivity|]); (split; [reflexivity|]); (split; [reflexivity|]);
    (split; [reflexivity|]); (split; [reflexivity|]); (split; [|split]).
  - repeat (eapply same_data_trans; [|first [apply set_next_data|apply set_prev_data]]); apply same_data_refl.
  - intros j. rewrite nx_set_next, nx_set_prev. reflexivity.
  - intros j. rewrite pv_set_next, pv_set_prev. reflexivity.
  - repeat (eapply same_data_trans; [|first [apply set_next_data|apply set_prev_data]]); apply same_data_refl.
  - intros j. rewrite nx_set_prev, nx_set_next, nx_set_prev. reflexivity.
  - intros j. rewrite pv_set_prev, pv_set_next, pv_set_prev. reflexivity.
Qed.

(* ---------- the links describe a list ---------- *)
Definition Links (nd : N -> node) (h t : N) (l : list N) : Prop :=
  path (nx nd) h l INVALID /\ path (pv nd) t (rev l) INVALID.

Lemma links_nil nd : Links nd INVALID INVALID [].
Proof. split; reflexivity. Qed.

Lemma links_frame nd nd' h t l :
  (forall j, In j l -> nx nd' j = nx nd j /\ pv nd' j = pv nd j) ->
  Links nd h t l -> Links nd' h t l.
Proof.
  intros Hf [A B]. split.
  - eapply path_frame; [|exact A]. intros j Hj. apply Hf. exact Hj.
  - eapply path_frame; [|exact B]. intros j Hj. apply Hf. apply in_rev. exact Hj.
Qed.

Lemma links_head nd h t l : Links nd h t l -> h = hd INVALID l.
Proof. intros [A _]. destruct l; [exact A|]. destruct A as [-> _]. reflexivity. Qed.
Lemma links_tail nd h t l : Links nd h t l -> t = last l INVALID.
Proof.
  intros [_ B]. destruct (rev l) as [|x r] eqn:E.
  - apply (f_equal (@rev N)) in E. rewrite rev_involutive in E. subst l. exact B.
  - apply (f_equal (@rev N)) in E. rewrite rev_involutive in E. subst l. cbn [rev].
    rewrite last_last. destruct B as [-> _]. reflexivity.
Qed.

Lemma rev_case {A} (l : list A) : l = [] \/ exists l' a, l = l' ++ [a].
Proof.
  destruct (rev l) as [|a r] eqn:E; apply (f_equal (@rev A)) in E; rewrite rev_involutive in E; subst l.
  - left. reflexivity.
  - right. exists (rev r), a. reflexivity.
Qed.

Lemma NoDup_rev {A} (l : list A) : NoDup l -> NoDup (rev l).
Proof. intros H. eapply Permutation_NoDup; [apply Permutation_rev|exact H]. Qed.

(* neighbours of element i, read from the links *)
Lemma links_neighbours nd h t l1 i l2 :
  Links nd h t (l1 ++ i :: l2) ->
  path (pv nd) (pv nd i) (rev l1) INVALID /\ path (nx nd) (nx nd i) l2 INVALID.
Proof.
  intros [A B]. split.
  - rewrite rev_app_distr in B. cbn [rev] in B. rewrite <- app_assoc in B. cbn [app] in B.
    apply path_app in B. destruct B as (m & _ & Hm). cbn [path] in Hm. destruct Hm as (_ & Hm). exact Hm.
  - apply path_app in A. destruct A as (m & _ & Hm). cbn [path] in Hm. destruct Hm as (_ & Hm). exact Hm.
Qed.

(* one direction of the unlinking done by LruList::remove; q is i's predecessor in this direction *)
Lemma unlink_dir f f' h A i B e q :
  NoDup (A ++ i :: B) -> path f h (A ++ i :: B) e ->
  (A = [] -> q = INVALID) -> (forall A' a, A = A' ++ [a] -> q = a) ->
  (forall j, In j (A ++ i :: B) -> j <> INVALID) ->
  (forall j, f' j = if j =? i then INVALID else if negb (q =? INVALID) && (j =? q) then f i else f j) ->
  path f' (if q =? INVALID then f i else h) (A ++ B) e.
Proof.
  intros Hnd Hp Hq0 Hq1 Hne Hf'.
  assert (Hi : ~ In i A /\ ~ In i B).
  { apply NoDup_remove_2 in Hnd. rewrite in_app_iff in Hnd. tauto. }
  destruct (rev_case A) as [->|(A' & a & ->)].
  - rewrite (Hq0 eq_refl) in *. rewrite N.eqb_refl in *. cbn [app] in *.
    eapply unlink_nil; [exact Hnd|exact Hp|].
    intros j Hj. rewrite Hf'. cbn [negb andb].
    destruct (N.eqb_spec j i) as [->|]; [tauto|reflexivity].
  - rewrite (Hq1 A' a eq_refl) in *.
    assert (Ha : a <> INVALID) by (apply Hne; rewrite !in_app_iff; cbn; tauto).
    destruct (N.eqb_spec a INVALID) as [|_]; [contradiction|].
    rewrite <- app_assoc in *. cbn [app] in *.
    assert (Hai : a <> i). { intros ->. apply (proj1 Hi). rewrite in_app_iff. cbn. tauto. }
    eapply unlink_snoc; [exact Hnd|exact Hp| |].
    + intros j Hj. rewrite Hf'. cbn [negb andb].
      destruct (N.eqb_spec j i) as [->|_].
      { exfalso. destruct Hj as [Hj|Hj]; [apply (proj1 Hi); rewrite in_app_iff; tauto|tauto]. }
      destruct (N.eqb_spec j a) as [->|_]; [|reflexivity].
      (* a occurs once in A' ++ a :: i :: B *)
      exfalso. apply NoDup_remove_2 in Hnd.
      rewrite in_app_iff in Hnd. cbn in Hnd. tauto.
    + rewrite Hf'. cbn [negb andb].
      destruct (N.eqb_spec a i) as [|_]; [contradiction|]. rewrite N.eqb_refl. reflexivity.
Qed.

(* LruList::remove deletes element i from the list *)
Lemma list_remove_links s l1 i l2 :
  Links (nodes s) (head s) (tail s) (l1 ++ i :: l2) ->
  NoDup (l1 ++ i :: l2) ->
  (forall j, In j (l1 ++ i :: l2) -> j <> INVALID) ->
  Links (nodes (list_remove s i)) (head (list_remove s i)) (tail (list_remove s i)) (l1 ++ l2).
Proof.
  intros HL Hnd Hne.
  pose proof (links_neighbours _ _ _ _ _ _ HL) as [Hp Hn].
  pose proof (list_remove_fields s i) as F. cbv zeta in F.
  destruct F as (Fh & Ft & _ & _ & _ & _ & _ & Fnx & Fpv).
  fold (pv (nodes s) i) in Fh, Ft, Fnx, Fpv. fold (nx (nodes s) i) in Fh, Ft, Fnx, Fpv.
  destruct HL as [A B].
  assert (Hrev : rev (l1 ++ i :: l2) = rev l2 ++ i :: rev l1).
  { rewrite rev_app_distr. cbn [rev]. rewrite <- app_assoc. reflexivity. }
  rewrite Hrev in B.
  assert (Hnd' : NoDup (rev l2 ++ i :: rev l1)) by (rewrite <- Hrev; apply NoDup_rev; exact Hnd).
  split.
  - rewrite Fh.
    apply (unlink_dir (nx (nodes s)) _ (head s) l1 i l2 INVALID (pv (nodes s) i) Hnd A).
    + intros ->. exact Hp.
    + intros A' a ->. rewrite rev_app_distr in Hp. cbn [rev app path] in Hp. apply Hp.
    + exact Hne.
    + exact Fnx.
  - rewrite Ft, rev_app_distr.
    apply (unlink_dir (pv (nodes s)) _ (tail s) (rev l2) i (rev l1) INVALID (nx (nodes s) i) Hnd' B).
    + intros E. apply (f_equal (@rev N)) in E. rewrite rev_involutive in E. subst l2. exact Hn.
    + intros A' a E. apply (f_equal (@rev N)) in E. rewrite rev_involutive, rev_app_distr in E.
      subst l2. cbn [rev app path] in Hn. apply Hn.
    + intros j Hj. apply Hne. rewrite <- Hrev in Hj. apply in_rev. exact Hj.
    + exact Fpv.
Qed.

(* LruList::insert_head conses element i *)
Lemma insert_head_links s l i :
  Links (nodes s) (head s) (tail s) l ->
  NoDup l -> ~ In i l -> (forall j, In j l -> j <> INVALID) ->
  Links (nodes (insert_head s i)) (head (insert_head s i)) (tail (insert_head s i)) (i :: l).
Proof.
  intros HL Hnd Hi Hne.
  pose proof (links_head _ _ _ _ HL) as Hh.
  pose proof (insert_head_fields s i) as F. cbv zeta in F.
  destruct F as (Fh & Ft & _ & _ & _ & _ & _ & Fnx & Fpv).
  destruct HL as [A B]. rewrite Fh, Ft. split.
  - cbn [path]. split; [reflexivity|]. rewrite Fnx, N.eqb_refl.
    eapply path_frame; [|exact A]. intros j Hj. rewrite Fnx.
    destruct (N.eqb_spec j i) as [->|]; [contradiction|reflexivity].
  - cbn [rev]. apply path_app. destruct l as [|x l'].
    + cbn [hd] in Hh. rewrite Hh in *. rewrite N.eqb_refl in *. exists i. cbn [rev path].
      split; [reflexivity|]. split; [reflexivity|]. rewrite Fpv. cbn [negb andb]. rewrite N.eqb_refl. reflexivity.
    + cbn [hd] in Hh. rewrite Hh in *.
      assert (Hx : x <> INVALID) by (apply Hne; left; reflexivity).
      destruct (N.eqb_spec x INVALID) as [|_]; [contradiction|].
      assert (Hxi : x <> i) by (intros ->; apply Hi; left; reflexivity).
      exists i. split.
      * cbn [rev] in *. apply path_app in B. destruct B as (m & B1 & B2).
        cbn [path] in B2. destruct B2 as (-> & B2).
        apply path_app. exists x. split.
        -- eapply path_frame; [|exact B1]. intros j Hj. rewrite Fpv. cbn [negb andb].
           apply in_rev in Hj.
           destruct (N.eqb_spec j x) as [->|_].
           { exfalso. inversion Hnd; contradiction. }
           destruct (N.eqb_spec j i) as [->|_]; [|reflexivity].
           exfalso. apply Hi. right. exact Hj.
        -- cbn [path]. split; [reflexivity|]. rewrite Fpv. cbn [negb andb]. rewrite N.eqb_refl. reflexivity.
      * cbn [path]. split; [reflexivity|]. rewrite Fpv. cbn [negb andb].
        destruct (N.eqb_spec i x) as [E|_]; [symmetry in E; contradiction|].
        rewrite N.eqb_refl. reflexivity.
Qed.

(* following `next` from the head enumerates the list *)
Lemma walk_path nd : forall fuel h l,
  path (nx nd) h l INVALID -> (forall j, In j l -> j <> INVALID) -> (length l <= fuel)%nat ->
  walk fuel nd h = l.
Proof.
  induction fuel as [|fuel IH]; intros h l Hp Hne Hlen.
  - destruct l; [reflexivity|cbn in Hlen; lia].
  - cbn [walk]. destruct l as [|x l]; cbn [path] in Hp.
    + rewrite Hp, N.eqb_refl. reflexivity.
    + destruct Hp as (-> & Hp).
      destruct (N.eqb_spec x INVALID) as [E|_]; [exfalso; apply (Hne x); [left; reflexivity|exact E]|].
      f_equal. apply IH; [exact Hp| |cbn in Hlen; lia].
      intros j Hj. apply Hne. right. exact Hj.
Qed.
