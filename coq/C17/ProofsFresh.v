(* Histories with external rewrites of the file and separate invalidation calls: every read that visits no
   page listed as stale returns the file's current bytes; read_with_prefetch; close_file; SingleLruPageCache. *)
From ZV.Common Require Import Base.
From ZV.C17 Require Import Spec Model ModelInval ProofsPage ProofsInval.
Open Scope N_scope.

Definition sok_list (c : pcache) (D : list pkey) (l : list (pkey * list N)) : Prop :=
  forall k pg, plookup k l = Some pg -> pmem k D = false -> pg = page_or_empty c k.

Lemma stale_ok_iff c D : stale_ok c D <-> sok_list c D (inner c).
Proof. reflexivity. Qed.

Lemma coherent_stale_nil c : coherent c <-> stale_ok c [].
Proof.
  split.
  - intros H k pg Hl _. apply H. exact Hl.
  - intros H k pg Hl. apply (H k pg Hl). reflexivity.
Qed.

Lemma sok_premove c D k l : sok_list c D l -> sok_list c D (premove k l).
Proof. intros H k' pg Hl. apply H. eapply plookup_premove. exact Hl. Qed.

(* get_page: the state stays fine for any page; the page returned is the file's page unless it is listed stale *)
Lemma get_page_stale c D k :
  stale_ok c D ->
  let r := get_page c k in
  stale_ok (fst r) D /\ psize (fst r) = psize c /\ files (fst r) = files c /\
  (pmem k D = false -> snd r = page_or_empty c k).
Proof.
  intros Hc. unfold get_page. cbv zeta.
  set (inner1 := if pmem k (inval c) then premove k (inner c) else inner c).
  assert (H1 : sok_list c D inner1).
  { subst inner1. destruct (pmem k (inval c)); [apply sok_premove|]; exact Hc. }
  destruct (plookup k inner1) as [pg|] eqn:El.
  - cbn [fst snd]. split; [exact H1|]. split; [reflexivity|]. split; [reflexivity|].
    intros Hk. apply H1; assumption.
  - set (pg := match files c (fst k) with Some f => page_of (psize c) f (snd k) | None => [] end).
    assert (Hev : forall inner2 inval2 at2,
              sok_list c D inner2 ->
              let r := (mkPc (psize c) (pcap c) (files c) ((k, pg) :: inner2) inval2
                             (set_atime at2 k (clock c)) (S (clock c)), pg) in
              stale_ok (fst r) D /\ psize (fst r) = psize c /\ files (fst r) = files c /\
              (pmem k D = false -> snd r = page_or_empty c k)).
    { intros inner2 inval2 at2 H2. cbn [fst snd]. split; [|split; [reflexivity|split; [reflexivity|reflexivity]]].
      intros k' pg' Hl Hk'. cbn [inner plookup] in Hl.
      destruct (pkey_eqb k k') eqn:E.
      - apply pkey_eqb_eq in E. subst k'. inversion Hl. reflexivity.
      - apply H2; assumption. }
    destruct (pcap c <=? nlen inner1).
    + destruct (find_lru (atimes c)) as [[lk t]|].
      * apply Hev. apply sok_premove. assumption.
      * destruct inner1 as [|[k0 x] rest] eqn:Ei.
        -- apply Hev. assumption.
        -- apply Hev. apply sok_premove. assumption.
    + apply Hev. assumption.
Qed.

(* ---------- the read loop ---------- *)
Lemma read_loop_state fid D : forall np c page cur rem acc,
  stale_ok c D ->
  let r := read_loop np c fid page cur rem acc in
  stale_ok (fst r) D /\ psize (fst r) = psize c /\ files (fst r) = files c.
Proof.
  induction np as [|np IH]; intros c page cur rem acc Hc; cbn [read_loop].
  - cbn [fst snd]. auto.
  - pose proof (get_page_stale c D (fid, page) Hc) as Hg. cbv zeta in Hg.
    destruct (get_page c (fid, page)) as [c1 pg]. cbn [fst snd] in Hg.
    destruct Hg as (Hc1 & Hps1 & Hf1 & _).
    destruct (rem - N.min rem (psize c - (cur - page * psize c)) =? 0).
    + cbn [fst snd]. auto.
    + specialize (IH c1 (page + 1) (cur + N.min rem (psize c - (cur - page * psize c)))
                     (rem - N.min rem (psize c - (cur - page * psize c)))
                     (acc ++ page_chunk pg (cur - page * psize c) (N.min rem (psize c - (cur - page * psize c)))) Hc1).
      cbv zeta in IH. rewrite Hps1, Hf1 in IH. exact IH.
Qed.

Lemma read_loop_value fid D (fl : option (list N)) : forall np c page cur rem acc,
  0 < psize c -> stale_ok c D -> files c fid = fl ->
  page * psize c <= cur -> cur < (page + 1) * psize c ->
  (rem = 0 \/ cur + rem <= (page + N.of_nat np) * psize c) ->
  (forall p, page <= p -> p < page + N.of_nat np -> pmem (fid, p) D = false) ->
  snd (read_loop np c fid page cur rem acc) =
    acc ++ match fl with Some f => firstn (N.to_nat rem) (skipn (N.to_nat cur) f) | None => [] end.
Proof.
  induction np as [|np IH]; intros c page cur rem acc Hps Hc Hf Hlo Hhi Hfit Hclean; cbn [read_loop].
  - cbn [snd]. assert (rem = 0) by lia. subst rem.
    destruct fl; cbn [N.to_nat firstn]; rewrite app_nil_r; reflexivity.
  - pose proof (get_page_stale c D (fid, page) Hc) as Hg. cbv zeta in Hg.
    destruct (get_page c (fid, page)) as [c1 pg]. cbn [fst snd] in Hg.
    destruct Hg as (Hc1 & Hps1 & Hf1 & Hpg).
    specialize (Hpg (Hclean page ltac:(lia) ltac:(lia))).
    unfold page_or_empty in Hpg. cbn [fst snd] in Hpg. rewrite Hf in Hpg. subst pg.
    set (oip := cur - page * psize c).
    set (btc := N.min rem (psize c - oip)).
    assert (Hchunk : page_chunk (match fl with Some f => page_of (psize c) f page | None => [] end) oip btc =
                     match fl with Some f => firstn (N.to_nat btc) (skipn (N.to_nat cur) f) | None => [] end).
    { destruct fl as [f|].
      - rewrite page_chunk_eq, chunk_of_page by (subst oip btc; lia).
        do 2 f_equal. subst oip. lia.
      - rewrite page_chunk_eq, skipn_nil, firstn_nil. reflexivity. }
    rewrite Hchunk.
    destruct (N.eqb_spec (rem - btc) 0) as [Hdone|Hmore].
    + cbn [snd]. assert (btc = rem) by (subst btc oip; lia).
      rewrite H. reflexivity.
    + assert (Hb : btc = psize c - oip) by (subst btc; lia).
      assert (Hnext : cur + btc = (page + 1) * psize c) by (subst oip; lia).
      assert (Hfit' : rem - btc = 0 \/ cur + btc + (rem - btc) <= (page + 1 + N.of_nat np) * psize c1).
      { rewrite Hps1. right. destruct Hfit as [Hz|Hfit]; [lia|].
        replace (page + N.of_nat (S np)) with (page + 1 + N.of_nat np) in Hfit by lia. lia. }
      assert (Hclean' : forall p, page + 1 <= p -> p < page + 1 + N.of_nat np -> pmem (fid, p) D = false).
      { intros p A B. apply Hclean; lia. }
      rewrite (IH c1 (page + 1) (cur + btc) (rem - btc) _
                  ltac:(rewrite Hps1; exact Hps) Hc1 ltac:(rewrite Hf1; exact Hf)
                  ltac:(rewrite Hps1; lia) ltac:(rewrite Hps1; lia) Hfit' Hclean').
      rewrite <- app_assoc. f_equal. destruct fl as [f|]; [|reflexivity].
      replace (N.to_nat rem) with (N.to_nat btc + N.to_nat (rem - btc))%nat by lia.
      rewrite firstn_split. f_equal. rewrite skipn_skipn'. do 2 f_equal. lia.
Qed.

Lemma read_pages_state c D fid off len :
  stale_ok c D ->
  stale_ok (fst (pc_read_pages c fid off len)) D /\
  psize (fst (pc_read_pages c fid off len)) = psize c /\ files (fst (pc_read_pages c fid off len)) = files c.
Proof.
  intros Hc. unfold pc_read_pages. destruct (page_span (psize c) off len) as [sp np].
  exact (read_loop_state fid D np c sp off len [] Hc).
Qed.

Lemma read_pages_value c D fid off len :
  0 < psize c -> stale_ok c D ->
  (forall p, visited (psize c) off len p -> pmem (fid, p) D = false) ->
  snd (pc_read_pages c fid off len) =
    match files c fid with Some f => file_range f off len | None => [] end.
Proof.
  intros Hps Hc Hclean. unfold pc_read_pages, page_span, file_range.
  pose proof (div_bounds off (psize c) Hps) as [Hlo Hhi].
  rewrite (read_loop_value fid D (files c fid)
             (N.to_nat ((off + len - 1) / psize c + 1 - off / psize c)) c (off / psize c) off len []
             Hps Hc eq_refl Hlo Hhi).
  - reflexivity.
  - destruct (N.eq_dec len 0) as [Hz|Hnz]; [left; assumption|right].
    pose proof (div_bounds (off + len - 1) (psize c) Hps) as [_ Hhi2].
    assert (Hmono : off / psize c <= (off + len - 1) / psize c) by (apply N.div_le_mono; lia).
    rewrite N2Nat.id. lia.
  - intros p A B. apply Hclean. unfold visited, first_page, last_page. rewrite N2Nat.id in B. lia.
Qed.

Lemma pc_read_state c D fid off len :
  stale_ok c D ->
  stale_ok (fst (pc_read c fid off len)) D /\
  psize (fst (pc_read c fid off len)) = psize c /\ files (fst (pc_read c fid off len)) = files c.
Proof.
  intros Hc. unfold pc_read. destruct (files c fid) as [f|].
  - destruct (nlen f <=? off); [cbn [fst]; auto|]. apply read_pages_state. exact Hc.
  - apply read_pages_state. exact Hc.
Qed.

Lemma pc_read_value c D fid off len :
  0 < psize c -> stale_ok c D -> clean_read c D fid off len ->
  snd (pc_read c fid off len) = file_bytes (files c) fid off len.
Proof.
  intros Hps Hc Hclean. unfold pc_read, file_bytes, clean_read, read_visits in *.
  destruct (files c fid) as [f|] eqn:Hf.
  - destruct (N.leb_spec (nlen f) off) as [Hout|Hin].
    + cbn [snd]. unfold file_range. rewrite skipn_all2; [rewrite firstn_nil; reflexivity|]. rewrite <- nlen_len. lia.
    + rewrite (read_pages_value c D fid off (N.min len (nlen f - off)) Hps Hc).
      * rewrite Hf. unfold file_range.
        rewrite <- (firstn_min_len (N.to_nat len)). f_equal. rewrite skipn_length, <- nlen_len. lia.
      * intros p Hv. apply Hclean. split; [lia|exact Hv].
  - rewrite (read_pages_value c D fid off len Hps Hc Hclean). rewrite Hf. reflexivity.
Qed.

(* ---------- prefetch ---------- *)
Lemma prefetch_loop_state fid D : forall np c page, stale_ok c D ->
  stale_ok (prefetch_loop np c fid page) D /\ psize (prefetch_loop np c fid page) = psize c /\
  files (prefetch_loop np c fid page) = files c.
Proof.
  induction np as [|np IH]; intros c page Hc; cbn [prefetch_loop]; [auto|].
  pose proof (get_page_stale c D (fid, page) Hc) as Hg. cbv zeta in Hg.
  destruct Hg as (Hc1 & Hps1 & Hf1 & _).
  destruct (IH (fst (get_page c (fid, page))) (page + 1) Hc1) as (A & B & C).
  rewrite Hps1 in B. rewrite Hf1 in C. auto.
Qed.

Lemma prefetch_state c D fid off len : stale_ok c D ->
  stale_ok (pc_prefetch c fid off len) D /\ psize (pc_prefetch c fid off len) = psize c /\
  files (pc_prefetch c fid off len) = files c.
Proof.
  intros Hc. unfold pc_prefetch. destruct (page_span (psize c) off len) as [sp np].
  apply prefetch_loop_state. exact Hc.
Qed.

(* ---------- invalidation ---------- *)
Lemma invalidate_page_state c D k : stale_ok c D ->
  stale_ok (pc_invalidate_page c k) (filter (fun k' => negb (pkey_eqb k k')) D).
Proof.
  intros Hc k' pg Hl Hk'. cbn [pc_invalidate_page inner] in Hl.
  pose proof (plookup_premove_ne _ _ _ _ Hl) as Hne. apply plookup_premove in Hl.
  rewrite pmem_filter in Hk'.
  replace (pkey_eqb k k') with false in Hk' by (symmetry; apply pkey_eqb_neq; congruence).
  cbn [negb] in Hk'. rewrite andb_true_r in Hk'.
  exact (Hc k' pg Hl Hk').
Qed.

Lemma invalidate_range_state c D fid off len : stale_ok c D ->
  stale_ok (pc_invalidate_range c fid off len)
           (filter (fun k => negb (pmem k (keys_of_range (psize c) fid off len))) D).
Proof.
  intros Hc k pg Hl Hk.
  destruct (inval_range_fields c fid off len) as [Fp Ff].
  unfold page_or_empty. rewrite Fp, Ff.
  unfold pc_invalidate_range, keys_of_range in *.
  destruct (page_span (psize c) off len) as [sp np].
  destruct (inval_loop_state fid np c sp k) as [A _]. rewrite A in Hl.
  rewrite pmem_filter, pmem_span_keys in Hk.
  destruct (in_span fid sp np k); [discriminate|]. cbn [negb] in Hk. rewrite andb_true_r in Hk.
  exact (Hc k pg Hl Hk).
Qed.

(* ---------- the file is rewritten by somebody else ---------- *)
Lemma write_state c D fid off data :
  0 < psize c -> stale_ok c D ->
  (forall f, files c fid = Some f -> off + nlen data <= nlen f) ->
  stale_ok (with_files c (fs_overwrite (files c) fid off data))
           (keys_of_range (psize c) fid off (nlen data) ++ D).
Proof.
  intros Hps Hc Hin k pg Hl Hk.
  rewrite pmem_app in Hk. apply orb_false_iff in Hk. destruct Hk as [Hk1 Hk2].
  cbn [with_files inner] in Hl. rewrite (Hc k pg Hl Hk2).
  unfold page_or_empty. cbn [with_files psize files]. unfold fs_overwrite.
  destruct (N.eqb_spec (fst k) fid) as [Ek|Ek]; [|reflexivity].
  destruct (files c (fst k)) as [f|] eqn:Efl; [|reflexivity].
  symmetry. apply page_outside; [exact Hps|apply Hin; rewrite <- Ek; exact Efl|].
  apply (span_outside (psize c) off (nlen data) (snd k) Hps).
  intros [A B]. unfold keys_of_range, page_span in Hk1. rewrite pmem_span_keys in Hk1.
  unfold in_span in Hk1. rewrite N2Nat.id in Hk1.
  destruct (N.eqb_spec (fst k) fid); [|contradiction].
  destruct (N.leb_spec (off / psize c) (snd k)); [|lia].
  destruct (N.ltb_spec (snd k) (off / psize c + ((off + nlen data - 1) / psize c + 1 - off / psize c))); [|lia].
  discriminate.
Qed.

(* ---------- close_file ---------- *)
Lemma close_state c D fid : stale_ok c D ->
  stale_ok (fst (pc_close_file c fid)) (filter (other_file fid) D).
Proof.
  intros Hc k pg Hl Hk. cbn [pc_close_file fst inner] in Hl.
  rewrite plookup_filter in Hl. rewrite pmem_filter in Hk.
  destruct (other_file fid k) eqn:Eo; [|discriminate]. rewrite andb_true_r in Hk.
  rewrite (Hc k pg Hl Hk). unfold page_or_empty. cbn [pc_close_file fst files psize].
  apply other_file_true in Eo. destruct (N.eqb_spec (fst k) fid); [contradiction|reflexivity].
Qed.

(* ---------- one step, whole histories ---------- *)
Lemma read_ahead_state c D fid off len ahead : stale_ok c D ->
  stale_ok (fst (pc_read_with_prefetch c fid off len ahead)) D /\
  psize (fst (pc_read_with_prefetch c fid off len ahead)) = psize c /\
  files (fst (pc_read_with_prefetch c fid off len ahead)) = files c.
Proof.
  intros Hc. unfold pc_read_with_prefetch.
  destruct (ahead =? 0); [apply pc_read_state; exact Hc|].
  destruct (prefetch_state c D fid (off + len) ahead Hc) as (A & B & C).
  destruct (pc_read_state (pc_prefetch c fid (off + len) ahead) D fid off len A) as (A' & B' & C').
  rewrite B in B'. rewrite C in C'. auto.
Qed.

Lemma clean_read_ext c c' D fid off len :
  psize c' = psize c -> files c' = files c -> clean_read c D fid off len -> clean_read c' D fid off len.
Proof. intros Hp Hf H p Hv. apply H. unfold read_visits in *. rewrite Hp, Hf in Hv. exact Hv. Qed.

Lemma read_ahead_value c D fid off len ahead :
  0 < psize c -> stale_ok c D -> clean_read c D fid off len ->
  snd (pc_read_with_prefetch c fid off len ahead) = file_bytes (files c) fid off len.
Proof.
  intros Hps Hc Hclean. unfold pc_read_with_prefetch.
  destruct (ahead =? 0); [apply (pc_read_value c D); assumption|].
  destruct (prefetch_state c D fid (off + len) ahead Hc) as (A & B & C).
  rewrite (pc_read_value _ D fid off len); [rewrite C; reflexivity|rewrite B; exact Hps|exact A|].
  apply (clean_read_ext c); assumption.
Qed.

Lemma x_step_state c D o :
  0 < psize c -> stale_ok c D -> xop_ok (files c) o ->
  stale_ok (fst (x_step c o)) (stale_step (psize c) D o) /\
  psize (fst (x_step c o)) = psize c /\ files (fst (x_step c o)) = x_next_files (files c) o.
Proof.
  intros Hps Hc Hok.
  destruct o as [f off len|f off len ahead|f off len|f p|f off len|f off data|f];
    cbn [x_step stale_step x_next_files].
  - pose proof (pc_read_state c D f off len Hc) as H. destruct (pc_read c f off len). exact H.
  - pose proof (read_ahead_state c D f off len ahead Hc) as H.
    destruct (pc_read_with_prefetch c f off len ahead). exact H.
  - cbn [fst]. apply prefetch_state. exact Hc.
  - cbn [fst]. split; [apply invalidate_page_state; exact Hc|split; reflexivity].
  - cbn [fst]. split; [apply invalidate_range_state; exact Hc|apply inval_range_fields].
  - cbn [fst]. split; [apply write_state; assumption|split; reflexivity].
  - pose proof (close_state c D f Hc) as H. destruct (pc_close_file c f) as [c1 ok] eqn:E.
    cbn [fst] in *. split; [exact H|]. unfold pc_close_file in E. inversion E. split; reflexivity.
Qed.

Lemma x_step_value c D o f off len :
  0 < psize c -> stale_ok c D -> clean_read c D f off len ->
  (o = XRead f off len \/ exists ahead, o = XReadAhead f off len ahead) ->
  snd (x_step c o) = XBytes (file_bytes (files c) f off len).
Proof.
  intros Hps Hc Hclean [->|[ahead ->]]; cbn [x_step].
  - pose proof (pc_read_value c D f off len Hps Hc Hclean) as H.
    destruct (pc_read c f off len). cbn [snd] in *. rewrite H. reflexivity.
  - pose proof (read_ahead_value c D f off len ahead Hps Hc Hclean) as H.
    destruct (pc_read_with_prefetch c f off len ahead). cbn [snd] in *. rewrite H. reflexivity.
Qed.

Lemma x_fresh_proof ops : forall c D,
  0 < psize c -> stale_ok c D -> xops_ok (files c) ops -> x_fresh c D ops.
Proof.
  induction ops as [|o ops IH]; intros c D Hps Hc Hok; cbn [x_fresh]; [exact I|].
  cbn [xops_ok] in Hok. destruct Hok as [Ho Hrest].
  destruct (x_step_state c D o Hps Hc Ho) as (Hc1 & Hps1 & Hf1).
  split.
  - destruct o; try exact I; intros Hclean; eapply x_step_value; eauto.
  - apply IH; [rewrite Hps1; exact Hps|exact Hc1|rewrite Hf1; exact Hrest].
Qed.

Lemma read_after_write_proof ps capbytes fs ops :
  0 < ps -> xops_ok fs ops -> x_fresh (pc_new ps capbytes fs) [] ops.
Proof.
  intros Hps Hok. apply x_fresh_proof; [exact Hps| |exact Hok].
  apply coherent_stale_nil. apply pc_new_coherent.
Qed.

(* ---------- disciplined histories: every write directly followed by a covering invalidate_range ---------- *)
Definition allclean (D : list pkey) : Prop := forall k, pmem k D = false.

Lemma allclean_clean c D f off len : allclean D -> clean_read c D f off len.
Proof. intros H p _. apply H. Qed.

Lemma allclean_filter P D : allclean D -> allclean (filter P D).
Proof. intros H k. rewrite pmem_filter, H. reflexivity. Qed.

Lemma covering_restores ps D f off data o l :
  0 < ps -> allclean D -> o <= off -> off + nlen data <= o + l ->
  allclean (stale_step ps (stale_step ps D (XWrite f off data)) (XInvRange f o l)).
Proof.
  intros Hps HD H1 H2 k. cbn [stale_step]. rewrite pmem_filter, pmem_app, HD, orb_false_r.
  destruct (pmem k (keys_of_range ps f off (nlen data))) eqn:E; [|reflexivity]. cbn [andb].
  apply negb_false_iff.
  unfold keys_of_range in *.
  pose proof (in_span_visited ps f off (nlen data) k) as Ha.
  pose proof (in_span_visited ps f o l k) as Hb.
  destruct (page_span ps off (nlen data)) as [sp np]. destruct (page_span ps o l) as [sp' np'].
  cbn [fst snd] in *. rewrite pmem_span_keys in *.
  apply Hb. apply Ha in E. destruct E as [Ef Ev]. split; [exact Ef|].
  eapply visited_mono; eauto.
Qed.

Lemma x_step_result c D o :
  0 < psize c -> stale_ok c D -> allclean D ->
  snd (x_step c o) = x_expected1 (files c) o.
Proof.
  intros Hps Hc HD.
  destruct o as [f off len|f off len ahead|f off len|f p|f off len|f off data|f];
    cbn [x_expected1]; try reflexivity.
  - eapply x_step_value; eauto using allclean_clean.
  - eapply x_step_value; eauto using allclean_clean.
Qed.

Lemma stale_step_allclean ps D o :
  allclean D -> (match o with XWrite _ _ _ => False | _ => True end) -> allclean (stale_step ps D o).
Proof.
  intros HD Ho. destruct o; cbn [stale_step]; try exact HD; try (apply allclean_filter; exact HD). contradiction.
Qed.

Lemma disciplined_run n : forall ops c D,
  (length ops <= n)%nat ->
  0 < psize c -> stale_ok c D -> allclean D -> xops_ok (files c) ops -> disciplined ops ->
  snd (x_run c ops) = x_expected (files c) ops.
Proof.
  induction n as [|n IH]; intros ops c D Hlen Hps Hc HD Hok Hd.
  - destruct ops; [reflexivity|cbn [length] in Hlen; lia].
  - destruct ops as [|o ops]; [reflexivity|].
    cbn [x_run x_expected]. cbn [xops_ok] in Hok. destruct Hok as [Ho Hrest].
    pose proof (x_step_result c D o Hps Hc HD) as Hr.
    destruct (x_step_state c D o Hps Hc Ho) as (Hc1 & Hps1 & Hf1).
    destruct (x_step c o) as [c1 r] eqn:E1. cbn [fst snd] in *. subst r.
    assert (Hgen : forall D1, stale_ok c1 D1 -> allclean D1 -> disciplined ops ->
              snd (x_run c1 ops) = x_expected (x_next_files (files c) o) ops).
    { intros D1 Hc1' HD1 Hd1. rewrite <- Hf1. apply (IH ops c1 D1); try assumption.
      - cbn [length] in Hlen. lia.
      - rewrite Hps1. exact Hps.
      - rewrite Hf1. exact Hrest. }
    assert (Hsnd : forall (x : xres) rs', snd (x_run c1 ops) = rs' ->
              snd (let '(c2, rs) := x_run c1 ops in (c2, x :: rs)) = x :: rs').
    { intros x rs' <-. destruct (x_run c1 ops); reflexivity. }
    destruct o as [f off len|f off len ahead|f off len|f p|f off len|f off data|f].
    1-5,7: (apply Hsnd; apply (Hgen _ Hc1); [apply stale_step_allclean; [exact HD|exact I]|exact Hd]).
    (* a write: the next operation is the covering invalidate_range *)
    cbn [disciplined] in Hd. destruct ops as [|o2 ops2]; [contradiction|].
    destruct o2 as [| | | |f' o l| |]; try contradiction.
    destruct Hd as (-> & Ho1 & Ho2 & Hd2).
    cbn [x_run x_expected]. cbn [xops_ok] in Hrest. destruct Hrest as [Ho' Hrest2].
    assert (Hps1' : 0 < psize c1) by (rewrite Hps1; exact Hps).
    destruct (x_step_state c1 _ (XInvRange f o l) Hps1' Hc1 I) as (Hc2 & Hps2 & Hf2).
    destruct (x_step c1 (XInvRange f o l)) as [c2 r2] eqn:E2.
    assert (r2 = XUnit) by (cbn [x_step] in E2; inversion E2; reflexivity). subst r2.
    cbn [fst snd] in *. cbn [x_expected1].
    assert (HD2 : allclean (stale_step (psize c1) (stale_step (psize c) D (XWrite f off data)) (XInvRange f o l))).
    { rewrite Hps1. apply covering_restores; assumption. }
    assert (Hrun : snd (x_run c2 ops2) =
                   x_expected (x_next_files (x_next_files (files c) (XWrite f off data)) (XInvRange f o l)) ops2).
    { rewrite <- Hf1, <- Hf2. eapply (IH ops2 c2); try eassumption.
      - cbn [length] in Hlen. lia.
      - rewrite Hps2. exact Hps1'.
      - rewrite Hf2, Hf1. exact Hrest2. }
    destruct (x_run c2 ops2) as [c3 rs]. cbn [snd] in *. rewrite Hrun. reflexivity.
Qed.

Lemma covering_history_proof ps capbytes fs ops :
  0 < ps -> xops_ok fs ops -> disciplined ops ->
  snd (x_run (pc_new ps capbytes fs) ops) = x_expected fs ops.
Proof.
  intros Hps Hok Hd.
  apply (disciplined_run (length ops) ops (pc_new ps capbytes fs) []); try assumption.
  - apply Nat.le_refl.
  - apply coherent_stale_nil. apply pc_new_coherent.
  - intros k. reflexivity.
Qed.

(* ---------- SingleLruPageCache ---------- *)
Lemma single_is_wrapped_proof : forall ops c,
  somes (map sres_x (snd (single_run c ops))) = snd (x_run c (somes (map sop_x ops))) /\
  fst (single_run c ops) = fst (x_run c (somes (map sop_x ops))).
Proof.
  induction ops as [|o ops IH]; intros c; cbn [single_run map somes x_run]; [auto|].
  assert (Hstep : match sop_x o with
                  | Some xo => fst (single_step c o) = fst (x_step c xo) /\
                               sres_x (snd (single_step c o)) = Some (snd (x_step c xo))
                  | None => fst (single_step c o) = c /\ sres_x (snd (single_step c o)) = None
                  end).
  { destruct o; cbn [sop_x single_step x_step]; try (split; reflexivity).
    - destruct (pc_read c fid off len); cbn [fst snd sres_x firstn app]. auto.
    - destruct (pc_read c fid off len); cbn [fst snd sres_x]. auto.
  }
  destruct (single_step c o) as [c1 r]. cbn [fst snd] in Hstep.
  specialize (IH c1). destruct (single_run c1 ops) as [c2 rs]. cbn [fst snd map somes] in *.
  destruct (sop_x o) as [xo|].
  - destruct Hstep as [Hs Hr]. rewrite Hr. cbn [somes x_run].
    destruct (x_step c xo) as [c1' r']. cbn [fst snd] in *. subst c1'.
    destruct (x_run c1 (somes (map sop_x ops))) as [c2' rs']. cbn [fst snd] in *.
    destruct IH as [A B]. rewrite A, B. auto.
  - destruct Hstep as [Hs Hr]. rewrite Hr. subst c1. exact IH.
Qed.
