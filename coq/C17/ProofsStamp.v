(* The recency list and the property's own wording.
   (1) keys stay distinct; the eviction callback of a step reports exactly the entries that stop
       being retrievable in a get/put step (once, with key and value), and never an entry that is
       still retrievable;
   (2) the recency-list spec is observationally the same as the time-stamped spec whose victim is the
       entry with the oldest last access. *)
From ZV.Common Require Import Base.
From ZV.C17 Require Import Spec ProofsSpec.
Open Scope N_scope.

(* ---------- keys ---------- *)
Lemma find_none_notin k l : find k l = None <-> ~ In k (keys l).
Proof.
  induction l as [|[k' v] l IH]; cbn [find keys map In fst]; [tauto|].
  destruct (N.eqb_spec k' k) as [->|Hne].
  - split; [discriminate|intros H; exfalso; apply H; auto].
  - rewrite IH. unfold keys. tauto.
Qed.

Lemma find_some_in k l v : find k l = Some v -> In k (keys l).
Proof.
  intros H. destruct (in_dec N.eq_dec k (keys l)) as [|Hn]; [assumption|].
  apply find_none_notin in Hn. congruence.
Qed.

Lemma keys_del x k l : In x (keys (del k l)) <-> In x (keys l) /\ x <> k.
Proof.
  induction l as [|[k' v] l IH]; cbn [del keys map In fst]; [tauto|].
  destruct (N.eqb_spec k' k) as [->|Hne].
  - fold (keys (del k l)). fold (keys l). rewrite IH. split; [tauto|]. intros [[->|H] Hx]; [congruence|tauto].
  - cbn [keys map In fst]. fold (keys (del k l)). fold (keys l). rewrite IH.
    split; [intros [->|[H Hx]]; auto|intros [[->|H] Hx]; auto].
Qed.

Lemma nodup_del k l : NoDup (keys l) -> NoDup (keys (del k l)).
Proof.
  induction l as [|[k' v] l IH]; cbn [del keys map fst]; [auto|].
  intros H. inversion H as [|? ? Hn Hr]. subst.
  destruct (k' =? k); [apply IH; exact Hr|].
  cbn [keys map fst]. constructor; [|apply IH; exact Hr].
  fold (keys (del k l)). rewrite keys_del. fold (keys l) in Hn. tauto.
Qed.

Lemma keys_app a b : keys (a ++ b) = keys a ++ keys b.
Proof. apply map_app. Qed.

Lemma find_app k a b :
  find k (a ++ b) = match find k a with Some v => Some v | None => find k b end.
Proof.
  induction a as [|[k' v] a IH]; cbn [app find]; [reflexivity|].
  destruct (k' =? k); [reflexivity|exact IH].
Qed.

Lemma snoc_cases {A} (l : list A) (d : A) : l <> [] -> l = removelast l ++ [last l d].
Proof. apply app_removelast_last. Qed.

Lemma nodup_app_l {A} (a b : list A) : NoDup (a ++ b) -> NoDup a.
Proof.
  induction a as [|x a IH]; cbn [app]; intros H; [constructor|].
  inversion H as [|? ? Hn Hr]. subst. constructor; [|apply IH; exact Hr].
  intros Hin. apply Hn. apply in_or_app. left. exact Hin.
Qed.

Lemma s_step_nodup cap l o : NoDup (keys l) -> NoDup (keys (fst (s_step cap l o))).
Proof.
  intros H. destruct o as [k|k v|k|k| |]; cbn [s_step].
  - destruct (find k l) eqn:E; cbn [fst]; [|exact H].
    cbn [keys map fst]. constructor; [|apply nodup_del; exact H].
    fold (keys (del k l)). rewrite keys_del. tauto.
  - destruct (find k l) eqn:E; cbn [fst].
    + cbn [keys map fst]. constructor; [|apply nodup_del; exact H].
      fold (keys (del k l)). rewrite keys_del. tauto.
    + apply find_none_notin in E.
      destruct (cap <=? nlen l).
      * destruct l as [|e l']; [exact H|]. cbn [fst].
        remember (e :: l') as l eqn:El.
        assert (Hl : l <> []) by (subst; discriminate).
        rewrite (snoc_cases l (0, 0) Hl) in H, E. rewrite keys_app in H, E.
        cbn [keys map fst]. fold (keys (removelast l)). constructor.
        -- rewrite in_app_iff in E. tauto.
        -- eapply nodup_app_l. exact H.
      * cbn [fst keys map]. constructor; assumption.
  - destruct (find k l); cbn [fst]; [apply nodup_del|]; exact H.
  - exact H.
  - constructor.
  - exact H.
Qed.

Lemma s_run_nodup cap ops : forall l, NoDup (keys l) -> NoDup (keys (fst (s_run cap l ops))).
Proof.
  induction ops as [|o ops IH]; intros l H; cbn [s_run]; [exact H|].
  pose proof (s_step_nodup cap l o H) as H1. destruct (s_step cap l o) as [l1 ob]. cbn [fst] in H1.
  specialize (IH l1 H1). destruct (s_run cap l1 ops) as [l2 obs]. exact IH.
Qed.

(* ---------- the callback reports exactly what is evicted ---------- *)
Definition evicting (o : op) : bool :=
  match o with Remove _ | Clear => false | _ => true end.

Lemma find_cons k k' v l : find k ((k', v) :: l) = if k' =? k then Some v else find k l.
Proof. reflexivity. Qed.

Lemma callback_exact_proof cap l o :
  NoDup (keys l) ->
  let l' := fst (s_step cap l o) in
  let cb := snd (snd (s_step cap l o)) in
  (forall k v, In (k, v) cb -> find k l = Some v /\ find k l' = None) /\
  (evicting o = true -> forall k v, find k l = Some v -> find k l' = None -> cb = [(k, v)]) /\
  (length cb <= 1)%nat.
Proof.
  intros Hnd. cbv zeta.
  assert (Hmove : forall k v, find k l = Some v ->
            forall k0 v0, find k0 l = Some v0 -> find k0 ((k, v) :: del k l) = None -> False).
  { intros k v Hk k0 v0 H0 Hn. rewrite find_cons in Hn.
    destruct (N.eqb_spec k k0) as [->|Hne]; [discriminate|].
    rewrite find_del_other in Hn by congruence. congruence. }
  destruct o as [k|k v|k|k| |]; cbn [s_step evicting].
  - destruct (find k l) as [v|] eqn:E; cbn [fst snd].
    + split; [intros ? ? []|]. split; [|cbn; lia]. intros _ k0 v0 H0 Hn. exfalso. eapply (Hmove k v E k0 v0 H0).
      rewrite find_cons in *. destruct (k =? k0); [discriminate|exact Hn].
    + split; [intros ? ? []|]. split; [|cbn; lia]. intros _ k0 v0 H0 Hn. congruence.
  - destruct (find k l) as [old|] eqn:E; cbn [fst snd].
    + split; [intros ? ? []|]. split; [|cbn; lia]. intros _ k0 v0 H0 Hn. exfalso.
      rewrite find_cons in Hn. destruct (N.eqb_spec k k0) as [->|Hne]; [discriminate|].
      rewrite find_del_other in Hn by congruence. congruence.
    + destruct (cap <=? nlen l).
      * destruct l as [|e l0]; cbn [fst snd].
        { split; [intros ? ? []|]. split; [|cbn; lia]. intros _ k0 v0 H0. discriminate. }
        remember (e :: l0) as l eqn:El.
        assert (Hl : l <> []) by (subst; discriminate).
        pose proof (snoc_cases l (0, 0) Hl) as Hs.
        destruct (last l (0, 0)) as [ek ev] eqn:Elast.
        set (l1 := removelast l) in *.
        assert (Hek : ~ In ek (keys l1)).
        { rewrite Hs, keys_app in Hnd. apply NoDup_remove_2 in Hnd. rewrite app_nil_r in Hnd. exact Hnd. }
        assert (Hfe : find ek l = Some ev).
        { rewrite Hs, find_app. apply find_none_notin in Hek. rewrite Hek. cbn [find]. rewrite N.eqb_refl. reflexivity. }
        assert (Hkne : ek <> k) by (intros ->; congruence).
        split; [|split; [|cbn; lia]].
        -- intros k0 v0 [Hin|[]]. inversion Hin. subst k0 v0. split; [exact Hfe|].
           rewrite find_cons. destruct (N.eqb_spec k ek) as [|_]; [congruence|].
           apply find_none_notin. exact Hek.
        -- intros _ k0 v0 H0 Hn. rewrite find_cons in Hn.
           destruct (N.eqb_spec k k0) as [|Hne]; [discriminate|].
           rewrite Hs, find_app, Hn in H0. cbn [find] in H0.
           destruct (N.eqb_spec ek k0) as [->|]; [|discriminate]. inversion H0. reflexivity.
      * cbn [fst snd]. split; [intros ? ? []|]. split; [|cbn; lia]. intros _ k0 v0 H0 Hn. exfalso.
        rewrite find_cons in Hn. destruct (k =? k0); [discriminate|congruence].
  - destruct (find k l); cbn [fst snd]; (split; [intros ? ? []|split; [discriminate|cbn; lia]]).
  - cbn [fst snd]. split; [intros ? ? []|]. split; [|cbn; lia]. intros _ k0 v0 H0 Hn. congruence.
  - cbn [fst snd]. split; [intros ? ? []|split; [discriminate|cbn; lia]].
  - cbn [fst snd]. split; [intros ? ? []|]. split; [|cbn; lia]. intros _ k0 v0 H0 Hn. congruence.
Qed.

(* ---------- the time-stamped spec ---------- *)
Definition strip (l : tl) : rl := map (fun e => (fst (fst e), snd (fst e))) l.

(* stamps strictly decrease along the list and stay below b *)
Fixpoint below (b : nat) (l : tl) : Prop :=
  match l with
  | [] => True
  | (k, v, t) :: r => (t < b)%nat /\ below t r
  end.

Lemma below_weaken b b' l : below b l -> (b <= b')%nat -> below b' l.
Proof. destruct l as [|[[k v] t] r]; cbn [below]; [auto|]. intros [A B] C. split; [lia|exact B]. Qed.

Lemma below_tdel k : forall l b, below b l -> below b (tdel k l).
Proof.
  induction l as [|[[k' v] t] r IH]; intros b; cbn [below tdel]; [auto|].
  intros [A B]. destruct (k' =? k).
  - apply IH. eapply below_weaken; [exact B|lia].
  - cbn [below]. split; [exact A|apply IH; exact B].
Qed.

Lemma strip_tdel k l : strip (tdel k l) = del k (strip l).
Proof.
  induction l as [|[[k' v] t] r IH]; cbn [strip map tdel del fst snd]; [reflexivity|].
  destruct (k' =? k); [exact IH|]. cbn [strip map fst snd]. fold (strip (tdel k r)). rewrite IH. reflexivity.
Qed.

Lemma tfind_strip k l :
  match tfind k l with Some (v, _) => find k (strip l) = Some v | None => find k (strip l) = None end.
Proof.
  induction l as [|[[k' v] t] r IH]; cbn [tfind strip map find fst snd]; [reflexivity|].
  destruct (k' =? k); [reflexivity|exact IH].
Qed.

Lemma nlen_strip l : nlen (strip l) = nlen l.
Proof. induction l as [|e r IH]; cbn [strip map nlen]; [reflexivity|]. fold (strip r). rewrite IH. reflexivity. Qed.

Lemma below_all b l : below b l -> forall k v t, In (k, v, t) l -> (t < b)%nat.
Proof.
  revert b. induction l as [|[[k' v'] t'] r IH]; intros b; cbn [below In]; [tauto|].
  intros [A B] k v t [E|Hin]; [inversion E; subst; exact A|].
  specialize (IH t' B k v t Hin). lia.
Qed.

Lemma oldest_last : forall l b d, below b l -> l <> [] -> oldest l = Some (last l d).
Proof.
  induction l as [|[[k v] t] r IH]; intros b d Hb Hne; [congruence|].
  cbn [below] in Hb. destruct Hb as [A B]. cbn [oldest].
  destruct r as [|e r'].
  - reflexivity.
  - rewrite (IH t d B ltac:(discriminate)).
    change (last ((k, v, t) :: e :: r') d) with (last (e :: r') d).
    destruct (last (e :: r') d) as [[k' v'] t'] eqn:El.
    assert (Hin : In (k', v', t') (e :: r')).
    { rewrite <- El.
      rewrite (app_removelast_last d (l := e :: r')) at 2 by discriminate.
      rewrite in_app_iff. right. left. reflexivity. }
    pose proof (below_all t _ B k' v' t' Hin) as Hlt.
    destruct (Nat.ltb_spec t t'); [lia|reflexivity].
Qed.

Lemma del_last_nodup l0 k v : NoDup (keys (l0 ++ [(k, v)])) -> del k (l0 ++ [(k, v)]) = l0.
Proof.
  intros H. rewrite keys_app in H. apply NoDup_remove_2 in H. rewrite app_nil_r in H.
  induction l0 as [|[k' v'] l0 IH]; cbn [app del].
  - rewrite N.eqb_refl. reflexivity.
  - cbn [keys map In fst] in H. destruct (N.eqb_spec k' k) as [->|_]; [exfalso; apply H; auto|].
    f_equal. apply IH. intros Hin. apply H. right. exact Hin.
Qed.

Lemma last_map' {A B} (f : A -> B) (l : list A) d : last (map f l) (f d) = f (last l d).
Proof.
  induction l as [|x l IH]; [reflexivity|]. destruct l as [|y l]; [reflexivity|].
  change (last (map f (x :: y :: l)) (f d)) with (last (map f (y :: l)) (f d)). rewrite IH. reflexivity.
Qed.

Definition R (b : nat) (l : rl) (t : tl) : Prop := strip t = l /\ below b t /\ NoDup (keys l).

Lemma t_step_sim cap now l t o :
  R now l t ->
  snd (t_step cap now t o) = snd (s_step cap l o) /\
  R (S now) (fst (s_step cap l o)) (fst (t_step cap now t o)).
Proof.
  intros (Hs & Hb & Hnd).
  pose proof (s_step_nodup cap l o Hnd) as Hnd'.
  assert (Hb' : below (S now) t) by (eapply below_weaken; [exact Hb|lia]).
  subst l.
  destruct o as [k|k v|k|k| |]; cbn [t_step s_step] in *.
  - pose proof (tfind_strip k t) as F. destruct (tfind k t) as [[v st]|]; rewrite F in *; cbn [fst snd] in *.
    + split; [reflexivity|]. split; [|split; [|exact Hnd']].
      * cbn [strip map fst snd]. fold (strip (tdel k t)). rewrite strip_tdel. reflexivity.
      * cbn [below]. split; [lia|apply below_tdel; exact Hb].
    + split; [reflexivity|]. split; [reflexivity|split; assumption].
  - pose proof (tfind_strip k t) as F. destruct (tfind k t) as [[old st]|]; rewrite F in *; cbn [fst snd] in *.
    + split; [reflexivity|]. split; [|split; [|exact Hnd']].
      * cbn [strip map fst snd]. fold (strip (tdel k t)). rewrite strip_tdel. reflexivity.
      * cbn [below]. split; [lia|apply below_tdel; exact Hb].
    + rewrite nlen_strip in *. destruct (cap <=? nlen t).
      * destruct t as [|e0 t0].
        { cbn [oldest strip map] in *. cbn [fst snd]. split; [reflexivity|]. split; [reflexivity|split; assumption]. }
        remember (e0 :: t0) as t eqn:Et.
        assert (Hne : t <> []) by (subst; discriminate).
        rewrite (oldest_last t now (0, 0, O) Hb Hne).
        destruct (last t (0, 0, O)) as [[ek ev] et] eqn:El.
        assert (Hstrip_ne : strip t <> []) by (subst t; discriminate).
        assert (Hsl : last (strip t) (0, 0) = (ek, ev)).
        { unfold strip. change (0, 0) with ((fun e : N * N * nat => (fst (fst e), snd (fst e))) (0, 0, O)).
          rewrite last_map'. rewrite El. reflexivity. }
        destruct (strip t) as [|s0 st] eqn:Est; [congruence|]. rewrite <- Est in *.
        cbn [fst snd] in *. rewrite Hsl. split; [reflexivity|]. split; [|split; [|exact Hnd']].
        -- cbn [strip map fst snd]. fold (strip (tdel ek t)). rewrite strip_tdel. f_equal.
           rewrite (app_removelast_last (0, 0) Hstrip_ne) at 1. rewrite Hsl.
           apply del_last_nodup. rewrite <- Hsl, <- app_removelast_last by exact Hstrip_ne. exact Hnd.
        -- cbn [below]. split; [lia|apply below_tdel; exact Hb].
      * cbn [fst snd] in *. split; [reflexivity|]. split; [reflexivity|]. split; [|exact Hnd'].
        cbn [below]. split; [lia|exact Hb].
  - pose proof (tfind_strip k t) as F. destruct (tfind k t) as [[v st]|]; rewrite F in *; cbn [fst snd] in *.
    + split; [reflexivity|]. split; [apply strip_tdel|]. split; [apply below_tdel; exact Hb'|exact Hnd'].
    + split; [reflexivity|]. split; [reflexivity|split; assumption].
  - pose proof (tfind_strip k t) as F. destruct (tfind k t) as [[v st]|]; rewrite F; cbn [fst snd];
      (split; [reflexivity|split; [reflexivity|split; assumption]]).
  - cbn [fst snd]. split; [reflexivity|]. split; [reflexivity|]. split; [exact I|constructor].
  - cbn [fst snd]. rewrite nlen_strip. split; [reflexivity|split; [reflexivity|split; assumption]].
Qed.

Lemma t_run_sim cap ops : forall now l t,
  R now l t -> snd (t_run cap now t ops) = snd (s_run cap l ops).
Proof.
  induction ops as [|o ops IH]; intros now l t HR; cbn [t_run s_run]; [reflexivity|].
  destruct (t_step_sim cap now l t o HR) as [A B].
  destruct (t_step cap now t o) as [t1 ob]. destruct (s_step cap l o) as [l1 ob']. cbn [fst snd] in *. subst ob'.
  specialize (IH (S now) l1 t1 B).
  destruct (t_run cap (S now) t1 ops) as [t2 obs]. destruct (s_run cap l1 ops) as [l2 obs']. cbn [snd] in *.
  rewrite IH. reflexivity.
Qed.

Lemma stamped_equiv_proof cap ops : snd (t_run cap 0 [] ops) = snd (s_run cap [] ops).
Proof. apply t_run_sim. split; [reflexivity|]. split; [exact I|constructor]. Qed.
