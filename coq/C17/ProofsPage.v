(* Page cache: the read loop of LruPageCache::read returns exactly the bytes of the file in the
   requested range, from every coherent cache state, and every operation keeps the cache coherent. *)
From ZV.Common Require Import Base.
From ZV.C17 Require Import Spec Model.
Open Scope N_scope.

(* ---------- list slicing with N indices ---------- *)
Lemma firstn_split {A} (a b : nat) (l : list A) :
  firstn (a + b) l = firstn a l ++ firstn b (skipn a l).
Proof.
  revert l. induction a as [|a IH]; intros l; [reflexivity|].
  destruct l as [|x l]; cbn [Nat.add firstn skipn app].
  - rewrite firstn_nil. reflexivity.
  - rewrite IH. reflexivity.
Qed.

Lemma skipn_skipn' {A} (a b : nat) (l : list A) : skipn a (skipn b l) = skipn (b + a) l.
Proof.
  revert l. induction b as [|b IH]; intros l; [reflexivity|].
  destruct l as [|x l]; cbn [Nat.add skipn]; [apply skipn_nil|apply IH].
Qed.

Lemma firstn_min_len {A} (n : nat) (l : list A) : firstn (Nat.min n (length l)) l = firstn n l.
Proof.
  destruct (Nat.le_ge_cases n (length l)) as [H|H].
  - rewrite Nat.min_l by assumption. reflexivity.
  - rewrite Nat.min_r by assumption. rewrite firstn_all. symmetry. apply firstn_all2. assumption.
Qed.

Lemma nlen_len {A} (l : list A) : N.to_nat (nlen l) = length l.
Proof. rewrite nlen_length. apply Nat2N.id. Qed.

(* the slice copied from a page is "btc bytes from oip", clipped by the page *)
Lemma page_chunk_eq pg oip btc :
  page_chunk pg oip btc = firstn (N.to_nat btc) (skipn (N.to_nat oip) pg).
Proof.
  unfold page_chunk. cbv zeta.
  destruct (N.ltb_spec oip (N.min (oip + btc) (nlen pg))) as [Hlt|Hge].
  - rewrite <- (firstn_min_len (N.to_nat btc)).
    f_equal. rewrite skipn_length, <- nlen_len. lia.
  - destruct (N.le_gt_cases (nlen pg) oip) as [Hout|Hin].
    + rewrite skipn_all2; [rewrite firstn_nil; reflexivity|]. rewrite <- nlen_len. lia.
    + assert (btc = 0) by lia. subst btc. reflexivity.
Qed.

(* a slice of a page is the same slice of the file *)
Lemma chunk_of_page ps f p oip btc :
  oip + btc <= ps ->
  firstn (N.to_nat btc) (skipn (N.to_nat oip) (page_of ps f p)) =
  firstn (N.to_nat btc) (skipn (N.to_nat (p * ps + oip)) f).
Proof.
  intros Hfit. unfold page_of.
  rewrite skipn_firstn_comm, firstn_firstn, skipn_skipn'.
  f_equal; [lia|f_equal; lia].
Qed.

(* ---------- page table ---------- *)
Lemma pkey_eqb_eq a b : pkey_eqb a b = true <-> a = b.
Proof.
  destruct a as [a1 a2], b as [b1 b2]. unfold pkey_eqb. cbn [fst snd].
  rewrite andb_true_iff, !N.eqb_eq. split; [intros [-> ->]; reflexivity|intros H; inversion H; auto].
Qed.

Lemma plookup_premove {A} (k k' : pkey) (l : list (pkey * A)) x :
  plookup k' (premove k l) = Some x -> plookup k' l = Some x.
Proof.
  induction l as [|[k0 y] l IH]; cbn [premove plookup]; [discriminate|].
  destruct (pkey_eqb k0 k) eqn:E0.
  - intros H. specialize (IH H).
    destruct (pkey_eqb k0 k') eqn:E1; [|assumption].
    (* k0 = k = k' would make the lookup in premove fail *)
    apply pkey_eqb_eq in E0, E1. subst k0 k'.
    exfalso. clear IH. revert H. clear.
    induction l as [|[k1 z] l IH]; cbn [premove plookup]; [discriminate|].
    destruct (pkey_eqb k1 k) eqn:E; [assumption|]. cbn [plookup]. rewrite E. assumption.
  - cbn [plookup]. destruct (pkey_eqb k0 k'); [auto|assumption].
Qed.

Definition page_or_empty (c : pcache) (k : pkey) : list N :=
  match files c (fst k) with Some f => page_of (psize c) f (snd k) | None => [] end.

Definition coh_list (c : pcache) (l : list (pkey * list N)) : Prop :=
  forall k pg, plookup k l = Some pg -> pg = page_or_empty c k.

Lemma coh_premove c k l : coh_list c l -> coh_list c (premove k l).
Proof. intros H k' pg Hl. apply H. eapply plookup_premove. exact Hl. Qed.

Lemma coherent_iff c : coherent c <-> coh_list c (inner c).
Proof. reflexivity. Qed.

(* get_page returns the file's page, keeps files/page size, keeps coherence *)
Lemma get_page_spec c k :
  coherent c ->
  let r := get_page c k in
  snd r = page_or_empty c k /\ coherent (fst r) /\ psize (fst r) = psize c /\ files (fst r) = files c.
Proof.
  intros Hc. unfold get_page. cbv zeta.
  set (inner1 := if pmem k (inval c) then premove k (inner c) else inner c).
  assert (H1 : coh_list c inner1).
  { subst inner1. destruct (pmem k (inval c)); [apply coh_premove|]; exact Hc. }
  destruct (plookup k inner1) as [pg|] eqn:El.
  - cbn [fst snd]. split; [apply H1; assumption|]. split; [|split; reflexivity].
    exact H1.
  - set (pg := match files c (fst k) with Some f => page_of (psize c) f (snd k) | None => [] end).
    assert (Hev : forall inner2 inval2 at2,
              coh_list c inner2 ->
              let r := (mkPc (psize c) (pcap c) (files c) ((k, pg) :: inner2) inval2
                             (set_atime at2 k (clock c)) (S (clock c)), pg) in
              snd r = page_or_empty c k /\ coherent (fst r) /\ psize (fst r) = psize c /\ files (fst r) = files c).
    { intros inner2 inval2 at2 H2. cbn [fst snd]. split; [reflexivity|]. split; [|split; reflexivity].
      intros k' pg' Hl. cbn [inner plookup] in Hl.
      destruct (pkey_eqb k k') eqn:E.
      - apply pkey_eqb_eq in E. subst k'. inversion Hl. reflexivity.
      - apply H2. assumption. }
    destruct (pcap c <=? nlen inner1).
    + destruct (find_lru (atimes c)) as [[lk t]|].
      * apply Hev. apply coh_premove. assumption.
      * destruct inner1 as [|[k0 x] rest] eqn:Ei.
        -- apply Hev. assumption.
        -- apply Hev. apply coh_premove. assumption.
    + apply Hev. assumption.
Qed.

(* ---------- the read loop ---------- *)
Lemma read_loop_spec fid f : forall np c page cur rem acc,
  0 < psize c -> coherent c -> files c fid = Some f ->
  page * psize c <= cur -> cur < (page + 1) * psize c ->
  (rem = 0 \/ cur + rem <= (page + N.of_nat np) * psize c) ->
  let r := read_loop np c fid page cur rem acc in
  snd r = acc ++ firstn (N.to_nat rem) (skipn (N.to_nat cur) f) /\
  coherent (fst r) /\ psize (fst r) = psize c /\ files (fst r) = files c.
Proof.
  induction np as [|np IH]; intros c page cur rem acc Hps Hc Hf Hlo Hhi Hfit; cbn [read_loop].
  - cbn [fst snd]. assert (rem = 0) by lia. subst rem.
    cbn [N.to_nat firstn]. rewrite app_nil_r. auto.
  - pose proof (get_page_spec c (fid, page) Hc) as Hg. cbv zeta in Hg.
    destruct (get_page c (fid, page)) as [c1 pg]. cbn [fst snd] in Hg.
    destruct Hg as (Hpg & Hc1 & Hps1 & Hf1).
    unfold page_or_empty in Hpg. cbn [fst snd] in Hpg. rewrite Hf in Hpg. subst pg.
    set (oip := cur - page * psize c).
    set (btc := N.min rem (psize c - oip)).
    assert (Hchunk : page_chunk (page_of (psize c) f page) oip btc =
                     firstn (N.to_nat btc) (skipn (N.to_nat cur) f)).
    { rewrite page_chunk_eq, chunk_of_page by (subst oip btc; lia).
      do 2 f_equal. subst oip. lia. }
    rewrite Hchunk.
    destruct (N.eqb_spec (rem - btc) 0) as [Hdone|Hmore].
    + cbn [fst snd]. assert (btc = rem) by (subst btc oip; lia).
      rewrite H. auto.
    + assert (Hb : btc = psize c - oip) by (subst btc; lia).
      assert (Hnext : cur + btc = (page + 1) * psize c) by (subst oip; lia).
      specialize (IH c1 (page + 1) (cur + btc) (rem - btc)
                     (acc ++ firstn (N.to_nat btc) (skipn (N.to_nat cur) f))).
      rewrite Hps1, Hf1 in IH.
      specialize (IH Hps Hc1 Hf ltac:(lia) ltac:(lia)).
      assert (Hfit' : rem - btc = 0 \/ cur + btc + (rem - btc) <= (page + 1 + N.of_nat np) * psize c).
      { right. destruct Hfit as [Hz|Hfit]; [lia|].
        replace (page + N.of_nat (S np)) with (page + 1 + N.of_nat np) in Hfit by lia. lia. }
      specialize (IH Hfit'). cbv zeta in IH.
      destruct IH as (Hr & Hrest). split; [|exact Hrest].
      rewrite Hr, <- app_assoc. f_equal.
      replace (N.to_nat rem) with (N.to_nat btc + N.to_nat (rem - btc))%nat by lia.
      rewrite firstn_split. f_equal. rewrite skipn_skipn'. do 2 f_equal. lia.
Qed.

Lemma div_bounds a b : 0 < b -> (a / b) * b <= a /\ a < (a / b + 1) * b.
Proof.
  intros Hb. pose proof (N.mul_div_le a b ltac:(lia)). pose proof (N.mul_succ_div_gt a b ltac:(lia)).
  rewrite <- N.add_1_r in H0. lia.
Qed.

Lemma read_pages_correct c fid f off len :
  0 < psize c -> coherent c -> files c fid = Some f ->
  snd (pc_read_pages c fid off len) = file_range f off len /\
  coherent (fst (pc_read_pages c fid off len)) /\
  psize (fst (pc_read_pages c fid off len)) = psize c /\ files (fst (pc_read_pages c fid off len)) = files c.
Proof.
  intros Hps Hc Hf. unfold pc_read_pages, page_span, file_range. cbv zeta.
  pose proof (div_bounds off (psize c) Hps) as [Hlo Hhi].
  pose proof (read_loop_spec fid f
                (N.to_nat ((off + len - 1) / psize c + 1 - off / psize c)) c (off / psize c) off len []
                Hps Hc Hf Hlo Hhi) as H.
  cbv zeta in H. cbn [app] in H. apply H.
  destruct (N.eq_dec len 0) as [Hz|Hnz]; [left; assumption|right].
  pose proof (div_bounds (off + len - 1) (psize c) Hps) as [_ Hhi2].
  assert (Hmono : off / psize c <= (off + len - 1) / psize c) by (apply N.div_le_mono; lia).
  rewrite N2Nat.id.
  replace (off / psize c + ((off + len - 1) / psize c + 1 - off / psize c))
    with ((off + len - 1) / psize c + 1) by lia.
  lia.
Qed.

Lemma read_correct_proof c fid f off len :
  0 < psize c -> coherent c -> files c fid = Some f ->
  snd (pc_read c fid off len) = file_range f off len /\
  coherent (fst (pc_read c fid off len)) /\
  psize (fst (pc_read c fid off len)) = psize c /\ files (fst (pc_read c fid off len)) = files c.
Proof.
  intros Hps Hc Hf. unfold pc_read. rewrite Hf.
  destruct (N.leb_spec (nlen f) off) as [Hout|Hin].
  - cbn [fst snd]. split; [|auto]. unfold file_range.
    rewrite skipn_all2; [rewrite firstn_nil; reflexivity|]. rewrite <- nlen_len. lia.
  - destruct (read_pages_correct c fid f off (N.min len (nlen f - off)) Hps Hc Hf) as (A & B).
    split; [|exact B]. rewrite A. unfold file_range.
    rewrite <- (firstn_min_len (N.to_nat len)). f_equal. rewrite skipn_length, <- nlen_len. lia.
Qed.

(* an unknown (virtual) file id yields no bytes at all *)
Lemma read_loop_virtual fid : forall np c page cur rem acc,
  coherent c -> files c fid = None ->
  let r := read_loop np c fid page cur rem acc in
  snd r = acc /\ coherent (fst r) /\ psize (fst r) = psize c /\ files (fst r) = files c.
Proof.
  induction np as [|np IH]; intros c page cur rem acc Hc Hf; cbn [read_loop].
  - cbn [fst snd]. auto.
  - pose proof (get_page_spec c (fid, page) Hc) as Hg. cbv zeta in Hg.
    destruct (get_page c (fid, page)) as [c1 pg]. cbn [fst snd] in Hg.
    destruct Hg as (Hpg & Hc1 & Hps1 & Hf1).
    unfold page_or_empty in Hpg. cbn [fst snd] in Hpg. rewrite Hf in Hpg. subst pg.
    rewrite page_chunk_eq, skipn_nil, firstn_nil, app_nil_r.
    destruct (rem - N.min rem (psize c - (cur - page * psize c)) =? 0).
    + cbn [fst snd]. auto.
    + specialize (IH c1 (page + 1) (cur + N.min rem (psize c - (cur - page * psize c)))
                     (rem - N.min rem (psize c - (cur - page * psize c))) acc Hc1).
      rewrite Hf1, Hps1 in IH. specialize (IH Hf). exact IH.
Qed.

Lemma read_virtual_proof c fid off len :
  coherent c -> files c fid = None ->
  snd (pc_read c fid off len) = [] /\ coherent (fst (pc_read c fid off len)) /\
  psize (fst (pc_read c fid off len)) = psize c /\ files (fst (pc_read c fid off len)) = files c.
Proof.
  intros Hc Hf. unfold pc_read. rewrite Hf. unfold pc_read_pages.
  destruct (page_span (psize c) off len) as [sp np].
  exact (read_loop_virtual fid np c sp off len [] Hc Hf).
Qed.

(* prefetch and invalidation keep the cache coherent *)
Lemma prefetch_loop_coh fid : forall np c page, coherent c ->
  coherent (prefetch_loop np c fid page) /\ psize (prefetch_loop np c fid page) = psize c /\
  files (prefetch_loop np c fid page) = files c.
Proof.
  induction np as [|np IH]; intros c page Hc; cbn [prefetch_loop]; [auto|].
  pose proof (get_page_spec c (fid, page) Hc) as Hg. cbv zeta in Hg.
  destruct Hg as (_ & Hc1 & Hps1 & Hf1).
  destruct (IH (fst (get_page c (fid, page))) (page + 1) Hc1) as (A & B & C).
  rewrite Hps1 in B. rewrite Hf1 in C. auto.
Qed.

Lemma invalidate_page_coh c k : coherent c ->
  coherent (pc_invalidate_page c k) /\ psize (pc_invalidate_page c k) = psize c /\
  files (pc_invalidate_page c k) = files c.
Proof.
  intros Hc. split; [|split; reflexivity].
  intros k' pg Hl. cbn [pc_invalidate_page inner] in Hl.
  apply plookup_premove in Hl. apply Hc in Hl. exact Hl.
Qed.

Lemma inval_loop_coh fid : forall np c page, coherent c ->
  coherent (inval_loop np c fid page) /\ psize (inval_loop np c fid page) = psize c /\
  files (inval_loop np c fid page) = files c.
Proof.
  induction np as [|np IH]; intros c page Hc; cbn [inval_loop]; [auto|].
  destruct (invalidate_page_coh c (fid, page) Hc) as (Hc1 & Hps1 & Hf1).
  destruct (IH (pc_invalidate_page c (fid, page)) (page + 1) Hc1) as (A & B & C).
  rewrite Hps1 in B. rewrite Hf1 in C. auto.
Qed.

(* ---------- overwrite + explicit invalidation ---------- *)
Lemma overwrite_skipn_after (f data : list N) (o n : nat) :
  (o + length data <= length f)%nat -> (o + length data <= n)%nat ->
  skipn n (firstn o f ++ data ++ skipn (o + length data) f) = skipn n f.
Proof.
  intros Hin Hn.
  rewrite skipn_app, firstn_length, (skipn_all2 (firstn o f)) by (rewrite firstn_length; lia).
  rewrite Nat.min_l by lia. cbn [app].
  rewrite skipn_app, (skipn_all2 data) by lia. cbn [app].
  rewrite skipn_skipn'. f_equal. lia.
Qed.

Lemma overwrite_firstn_before (f rest : list N) (o m ps : nat) :
  (o <= length f)%nat -> (m + ps <= o)%nat ->
  firstn ps (skipn m (firstn o f ++ rest)) = firstn ps (skipn m f).
Proof.
  intros Ho Hm.
  rewrite skipn_app, firstn_length, Nat.min_l by lia.
  replace (m - o)%nat with 0%nat by lia. cbn [skipn].
  rewrite firstn_app, skipn_length, firstn_length, Nat.min_l by lia.
  replace (ps - (o - m))%nat with 0%nat by lia. cbn [firstn]. rewrite app_nil_r.
  rewrite skipn_firstn_comm, firstn_firstn. f_equal. lia.
Qed.

Lemma page_outside ps f off data p :
  0 < ps -> off + nlen data <= nlen f ->
  ((p + 1) * ps <= off \/ off + nlen data <= p * ps) ->
  page_of ps (overwrite f off data) p = page_of ps f p.
Proof.
  intros Hps Hin Hout. unfold page_of, overwrite.
  pose proof (nlen_len f) as Lf. pose proof (nlen_len data) as Ld.
  destruct Hout as [Hb|Ha].
  - apply overwrite_firstn_before; lia.
  - f_equal. apply overwrite_skipn_after; lia.
Qed.

Lemma plookup_premove_ne {A} (k k' : pkey) (l : list (pkey * A)) x :
  plookup k' (premove k l) = Some x -> k' <> k.
Proof.
  intros H ->. revert H.
  induction l as [|[k1 z] l IH]; cbn [premove plookup]; [discriminate|].
  destruct (pkey_eqb k1 k) eqn:E; [assumption|]. cbn [plookup]. rewrite E. assumption.
Qed.

Lemma inval_loop_fields fid : forall np c page,
  psize (inval_loop np c fid page) = psize c /\ files (inval_loop np c fid page) = files c.
Proof.
  induction np as [|np IH]; intros c page; cbn [inval_loop]; [auto|].
  destruct (IH (pc_invalidate_page c (fid, page)) (page + 1)) as [A B]. auto.
Qed.

Lemma inval_loop_lookup fid : forall np c page k pg,
  plookup k (inner (inval_loop np c fid page)) = Some pg ->
  plookup k (inner c) = Some pg /\ ~ (fst k = fid /\ page <= snd k /\ snd k < page + N.of_nat np).
Proof.
  induction np as [|np IH]; intros c page k pg H; cbn [inval_loop] in H.
  - split; [exact H|]. intros (_ & A & B). lia.
  - apply IH in H. destruct H as [H Hout]. cbn [pc_invalidate_page inner] in H.
    pose proof (plookup_premove_ne _ _ _ _ H) as Hne. apply plookup_premove in H.
    split; [exact H|]. intros (Hf & A & B). apply Hout. split; [exact Hf|]. split; [|lia].
    destruct (N.eq_dec (snd k) page) as [E|E]; [|lia].
    exfalso. apply Hne. destruct k as [a b]. cbn [fst snd] in *. subst. reflexivity.
Qed.

Lemma span_outside ps off len p :
  0 < ps ->
  let sp := off / ps in
  let np := (off + len - 1) / ps + 1 - sp in
  ~ (sp <= p /\ p < sp + np) -> (p + 1) * ps <= off \/ off + len <= p * ps.
Proof.
  intros Hps sp np Hout.
  pose proof (div_bounds off ps Hps) as [A1 A2]. fold sp in A1, A2.
  pose proof (div_bounds (off + len - 1) ps Hps) as [B1 B2].
  set (ep := (off + len - 1) / ps) in *.
  destruct (N.lt_ge_cases p sp) as [Hlt|Hge].
  - left. nia.
  - right. assert (Hp : sp + np <= p) by lia. subst np.
    destruct (N.le_gt_cases sp ep) as [Hle|Hgt].
    + assert (ep + 1 <= p) by lia. nia.
    + (* ep < sp: only when len = 0 and off is a multiple of the page size *)
      assert (len = 0 \/ 0 < len) as [->|Hl] by lia; [nia|].
      exfalso. assert (off / ps <= (off + len - 1) / ps) by (apply N.div_le_mono; lia). fold sp ep in H. lia.
Qed.

Lemma overwrite_coherent_proof c fid off data :
  0 < psize c -> coherent c ->
  (forall f, files c fid = Some f -> off + nlen data <= nlen f) ->
  coherent (pc_overwrite c fid off data) /\
  psize (pc_overwrite c fid off data) = psize c /\
  files (pc_overwrite c fid off data) = fs_overwrite (files c) fid off data.
Proof.
  intros Hps Hc Hin. unfold pc_overwrite, pc_invalidate_range, page_span.
  set (c1 := with_files c (fs_overwrite (files c) fid off data)).
  change (psize c1) with (psize c).
  set (sp := off / psize c).
  set (npn := (off + nlen data - 1) / psize c + 1 - sp).
  destruct (inval_loop_fields fid (N.to_nat npn) c1 sp) as [Fp Ff].
  split; [|split; [exact Fp|exact Ff]].
  intros k pg Hl. apply inval_loop_lookup in Hl. destruct Hl as [Hl Hout].
  change (inner c1) with (inner c) in Hl. apply Hc in Hl. rewrite Hl.
  rewrite Fp, Ff. change (psize c1) with (psize c). change (files c1) with (fs_overwrite (files c) fid off data).
  unfold fs_overwrite. destruct (N.eqb_spec (fst k) fid) as [Ek|Ek]; [|reflexivity].
  destruct (files c (fst k)) as [f|] eqn:Efl; [|reflexivity].
  symmetry. apply page_outside; [exact Hps|apply Hin; rewrite <- Ek; exact Efl|].
  apply (span_outside (psize c) off (nlen data) (snd k) Hps). fold sp. fold npn.
  intros [A B]. apply Hout. split; [exact Ek|]. split; [exact A|]. rewrite N2Nat.id. exact B.
Qed.

(* whole histories: every read of every history returns the file's current bytes *)
Definition expected (fs : N -> option (list N)) (o : pop) : list N :=
  match o with
  | PRead fid off len => match fs fid with Some f => file_range f off len | None => [] end
  | _ => []
  end.
Definition next_files (fs : N -> option (list N)) (o : pop) : N -> option (list N) :=
  match o with POverwrite fid off data => fs_overwrite fs fid off data | _ => fs end.
(* every overwrite lies inside its file *)
Definition op_ok (fs : N -> option (list N)) (o : pop) : Prop :=
  match o with
  | POverwrite fid off data => forall f, fs fid = Some f -> off + nlen data <= nlen f
  | _ => True
  end.
Fixpoint ops_ok (fs : N -> option (list N)) (ops : list pop) : Prop :=
  match ops with [] => True | o :: t => op_ok fs o /\ ops_ok (next_files fs o) t end.
Fixpoint expected_run (fs : N -> option (list N)) (ops : list pop) : list (list N) :=
  match ops with [] => [] | o :: t => expected fs o :: expected_run (next_files fs o) t end.

Lemma pc_step_spec c o :
  0 < psize c -> coherent c -> op_ok (files c) o ->
  snd (pc_step c o) = expected (files c) o /\ coherent (fst (pc_step c o)) /\
  psize (fst (pc_step c o)) = psize c /\ files (fst (pc_step c o)) = next_files (files c) o.
Proof.
  intros Hps Hc Hok. destruct o as [fid off len|fid off len|fid page|fid off len|fid off data];
    cbn [pc_step expected next_files].
  - destruct (files c fid) as [f|] eqn:Hf.
    + apply read_correct_proof; assumption.
    + apply read_virtual_proof; assumption.
  - cbn [fst snd]. unfold pc_prefetch. destruct (page_span (psize c) off len) as [sp np].
    split; [reflexivity|]. apply prefetch_loop_coh. assumption.
  - cbn [fst snd]. split; [reflexivity|]. apply invalidate_page_coh. assumption.
  - cbn [fst snd]. unfold pc_invalidate_range. destruct (page_span (psize c) off len) as [sp np].
    split; [reflexivity|]. apply inval_loop_coh. assumption.
  - cbn [fst snd]. split; [reflexivity|]. apply overwrite_coherent_proof; assumption.
Qed.

Lemma pc_run_spec ops : forall c,
  0 < psize c -> coherent c -> ops_ok (files c) ops ->
  snd (pc_run c ops) = expected_run (files c) ops.
Proof.
  induction ops as [|o ops IH]; intros c Hps Hc Hok; cbn [pc_run expected_run]; [reflexivity|].
  cbn [ops_ok] in Hok. destruct Hok as [Ho Hrest].
  destruct (pc_step_spec c o Hps Hc Ho) as (Hr & Hc1 & Hps1 & Hf1).
  destruct (pc_step c o) as [c1 r]. cbn [fst snd] in *.
  specialize (IH c1). rewrite Hps1, Hf1 in IH. specialize (IH Hps Hc1 Hrest).
  destruct (pc_run c1 ops) as [c2 rs]. cbn [snd] in *.
  rewrite Hr, IH. reflexivity.
Qed.

Lemma pc_new_coherent ps capb fs : coherent (pc_new ps capb fs).
Proof. intros k pg H. cbn in H. discriminate. Qed.

(* CachedBlobStore over a virtual file id: the cache never supplies data, get = inner get *)
Lemma cached_get_inner c vfid meta data :
  coherent c -> files c vfid = None ->
  snd (cached_get c vfid meta data) = data /\ coherent (fst (cached_get c vfid meta data)).
Proof.
  intros Hc Hf. unfold cached_get. destruct meta as [[off size]|]; [|auto].
  destruct (read_virtual_proof c vfid off size Hc Hf) as (A & B & _).
  destruct (pc_read c vfid off size) as [c1 buf]. cbn [fst snd] in *. subst buf. auto.
Qed.
