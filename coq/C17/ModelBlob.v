(* C17 mechanism layer, part 3: CachedBlobStore (src/blob_store/cached_store.rs) in front of any blob store.
   State: the wrapped store, the (possibly shared) LruPageCache, the virtual file id obtained from
   register_file(-1), cache_enabled, write_strategy, blob_metadata: id -> (offset, size), next_offset.
   put / get / remove / size / contains / len / flush / prefetch_range / enable / disable / set_write_strategy as written.
   Not represented: the tracker's dirty set (cache_data_at_offset -> mark_dirty, flush -> mark_clean); nothing reads it
   except to clear it, so the write strategy has no effect on any result.
   The wrapped store is a parameter: the theorems hold for every store.  Definitions only. *)
From ZV.Common Require Import Base Run.
From ZV.C17 Require Import Spec Model ModelInval.
Open Scope N_scope.

(* blob_metadata: HashMap<RecordId, (u64, usize)> *)
Fixpoint mlookup (id : N) (l : list (N * (N * N))) : option (N * N) :=
  match l with [] => None | (i, x) :: t => if i =? id then Some x else mlookup id t end.
Fixpoint mremove (id : N) (l : list (N * (N * N))) : list (N * (N * N)) :=
  match l with [] => [] | (i, x) :: t => if i =? id then mremove id t else (i, x) :: mremove id t end.

Inductive bop : Type :=
| BPut (data : list N) | BGet (id : N) | BRemove (id : N)
| BSize (id : N) | BContains (id : N) | BLen
| BFlush | BPrefetch (off len : N) | BDisable | BEnable | BSetStrategy (s : N)
| BCache (o : xop).            (* somebody uses the shared page cache directly (a real file read through it, ...) *)

Inductive bres : Type :=
| RId (o : option N)               (* put: Ok(id) / Err *)
| RBytes (o : option (list N))     (* get: Ok(bytes) / Err *)
| ROk (b : bool)                   (* remove: Ok / Err *)
| RSize (o : option N) | RHas (b : bool) | RCount (n : N)
| RNone
| RCache (r : xres).

Section Blob.
  Variable St : Type.                                  (* the wrapped store *)
  Variable i_put : St -> list N -> St * option N.      (* None: Err *)
  Variable i_get : St -> N -> option (list N).
  Variable i_remove : St -> N -> St * bool.
  Variable i_size : St -> N -> option N.
  Variable i_contains : St -> N -> bool.
  Variable i_len : St -> N.

  Record cbs : Type := mkB {
    b_inner : St; b_cache : pcache; b_fid : N; b_enabled : bool; b_strategy : N;
    b_meta : list (N * (N * N)); b_next : N }.

  Definition with_cache (s : cbs) (c : pcache) : cbs :=
    mkB (b_inner s) c (b_fid s) (b_enabled s) (b_strategy s) (b_meta s) (b_next s).

  (* BlobStore::put *)
  Definition cb_put (s : cbs) (data : list N) : cbs * bres :=
    let off := b_next s in                                             (* next_offset.fetch_add(data.len()) *)
    let '(st1, r) := i_put (b_inner s) data in                         (* self.inner.put(data)? *)
    match r with
    | None => (mkB st1 (b_cache s) (b_fid s) (b_enabled s) (b_strategy s) (b_meta s) (off + nlen data), RId None)
    | Some id =>
        (* cache_data_at_offset only marks pages dirty *)
        (mkB st1 (b_cache s) (b_fid s) (b_enabled s) (b_strategy s)
             ((id, (off, nlen data)) :: mremove id (b_meta s)) (off + nlen data), RId (Some id))
    end.

  (* BlobStore::get *)
  Definition cb_get (s : cbs) (id : N) : cbs * bres :=
    if negb (b_enabled s) then (s, RBytes (i_get (b_inner s) id))
    else
      match mlookup id (b_meta s) with
      | Some (off, size) =>
          let '(c1, buf) := pc_read (b_cache s) (b_fid s) off size in       (* read_cached *)
          match buf with
          | [] => (with_cache s c1, RBytes (i_get (b_inner s) id))         (* !buffer.has_data(): fall back *)
          | _ => (with_cache s c1, RBytes (Some buf))
          end
      | None => (s, RBytes (i_get (b_inner s) id))
      end.

  (* BlobStore::remove *)
  Definition cb_remove (s : cbs) (id : N) : cbs * bres :=
    let c1 := match mlookup id (b_meta s) with                           (* invalidate_cached_blob *)
              | Some (off, size) =>
                  if b_enabled s then pc_invalidate_range (b_cache s) (b_fid s) off size else b_cache s
              | None => b_cache s
              end in
    let '(st1, ok) := i_remove (b_inner s) id in                          (* self.inner.remove(id)? *)
    if ok then (mkB st1 c1 (b_fid s) (b_enabled s) (b_strategy s) (mremove id (b_meta s)) (b_next s), ROk true)
    else (mkB st1 c1 (b_fid s) (b_enabled s) (b_strategy s) (b_meta s) (b_next s), ROk false).

  Definition cb_step (s : cbs) (o : bop) : cbs * bres :=
    match o with
    | BPut d => cb_put s d
    | BGet id => cb_get s id
    | BRemove id => cb_remove s id
    | BSize id => (s, RSize (i_size (b_inner s) id))
    | BContains id => (s, RHas (i_contains (b_inner s) id))
    | BLen => (s, RCount (i_len (b_inner s)))
    | BFlush => (s, RNone)                                               (* flush_file: dirty set only *)
    | BPrefetch off len =>
        ((if b_enabled s then with_cache s (pc_prefetch (b_cache s) (b_fid s) off len) else s), RNone)
    | BDisable => (mkB (b_inner s) (b_cache s) (b_fid s) false (b_strategy s) (b_meta s) (b_next s), RNone)
    | BEnable => (mkB (b_inner s) (b_cache s) (b_fid s) true (b_strategy s) (b_meta s) (b_next s), RNone)
    | BSetStrategy st => (mkB (b_inner s) (b_cache s) (b_fid s) (b_enabled s) st (b_meta s) (b_next s), RNone)
    | BCache xo => let '(c1, r) := x_step (b_cache s) xo in (with_cache s c1, RCache r)
    end.

  Fixpoint cb_run (s : cbs) (ops : list bop) : cbs * list bres :=
    match ops with
    | [] => (s, [])
    | o :: t => let '(s1, r) := cb_step s o in
                let '(s2, rs) := cb_run s1 t in (s2, r :: rs)
    end.

  (* the same calls made on the wrapped store directly *)
  Definition i_step (st : St) (o : bop) : St * bres :=
    match o with
    | BPut d => let '(st1, r) := i_put st d in (st1, RId r)
    | BGet id => (st, RBytes (i_get st id))
    | BRemove id => let '(st1, ok) := i_remove st id in (st1, ROk ok)
    | BSize id => (st, RSize (i_size st id))
    | BContains id => (st, RHas (i_contains st id))
    | BLen => (st, RCount (i_len st))
    | _ => (st, RNone)
    end.
  Fixpoint i_run (st : St) (ops : list bop) : St * list bres :=
    match ops with
    | [] => (st, [])
    | o :: t => let '(st1, r) := i_step st o in
                let '(st2, rs) := i_run st1 t in (st2, r :: rs)
    end.
  (* what the history shows of the store: the results of the direct uses of the cache are masked *)
  Fixpoint store_view (ops : list bop) (rs : list bres) : list bres :=
    match ops, rs with
    | o :: ops', r :: rs' => (match o with BCache _ => RNone | _ => r end) :: store_view ops' rs'
    | _, _ => []
    end.

  (* the calls one operation makes on the page cache *)
  Definition cache_calls (s : cbs) (o : bop) : list xop :=
    match o with
    | BGet id =>
        if b_enabled s then
          match mlookup id (b_meta s) with Some (off, size) => [XRead (b_fid s) off size] | None => [] end
        else []
    | BRemove id =>
        if b_enabled s then
          match mlookup id (b_meta s) with Some (off, size) => [XInvRange (b_fid s) off size] | None => [] end
        else []
    | BPrefetch off len => if b_enabled s then [XPrefetch (b_fid s) off len] else []
    | BCache xo => [xo]
    | _ => []
    end.

  (* "every clean read made directly on the shared cache returns the file's current bytes", with the store's traffic in between *)
  Fixpoint cb_fresh (s : cbs) (D : list pkey) (ops : list bop) : Prop :=
    match ops with
    | [] => True
    | o :: t =>
        match o with
        | BCache (XRead f off len) | BCache (XReadAhead f off len _) =>
            clean_read (b_cache s) D f off len ->
            snd (cb_step s o) = RCache (XBytes (file_bytes (files (b_cache s)) f off len))
        | _ => True
        end /\
        cb_fresh (fst (cb_step s o)) (fold_left (stale_step (psize (b_cache s))) (cache_calls s o) D) t
    end.
  Definition bop_ok (fs : N -> option (list N)) (o : bop) : Prop :=
    match o with BCache xo => xop_ok fs xo | _ => True end.
  Definition b_next_files (fs : N -> option (list N)) (o : bop) : N -> option (list N) :=
    match o with BCache xo => x_next_files fs xo | _ => fs end.
  Fixpoint bops_ok (fs : N -> option (list N)) (ops : list bop) : Prop :=
    match ops with [] => True | o :: t => bop_ok fs o /\ bops_ok (b_next_files fs o) t end.
End Blob.

(* the pages of a virtual file id (no file entry) are empty *)
Definition virt_ok (c : pcache) (v : N) : Prop :=
  files c v = None /\ forall p pg, plookup (v, p) (inner c) = Some pg -> pg = [].

(* ---------- MemoryBlobStore (src/blob_store/memory.rs), the store the harness wraps ---------- *)
Record mem : Type := mkMem { m_data : list (N * list N); m_next : N }.
Fixpoint alookup (id : N) (l : list (N * list N)) : option (list N) :=
  match l with [] => None | (i, x) :: t => if i =? id then Some x else alookup id t end.
Fixpoint aremove (id : N) (l : list (N * list N)) : list (N * list N) :=
  match l with [] => [] | (i, x) :: t => if i =? id then aremove id t else (i, x) :: aremove id t end.
Definition mem_new : mem := mkMem [] 1.
Definition mem_put (m : mem) (d : list N) : mem * option N :=
  (mkMem ((m_next m, d) :: aremove (m_next m) (m_data m)) (m_next m + 1), Some (m_next m)).
Definition mem_get (m : mem) (id : N) : option (list N) := alookup id (m_data m).
Definition mem_remove (m : mem) (id : N) : mem * bool :=
  match alookup id (m_data m) with
  | Some _ => (mkMem (aremove id (m_data m)) (m_next m), true)
  | None => (m, false)
  end.
Definition mem_size (m : mem) (id : N) : option N := option_map nlen (mem_get m id).
Definition mem_contains (m : mem) (id : N) : bool := match mem_get m id with Some _ => true | None => false end.
Definition mem_len (m : mem) : N := nlen (m_data m).

(* ---------- encodings used by the harness-generated case files ---------- *)
(* 0 put(len a, seed b) | 1 get(id a) | 2 remove(id a) | 3 flush | 4 prefetch_range(a, b) | 5 disable | 6 enable | 7 set strategy a
   8 read(file rf, a, b) on the shared cache | 9 size(id a) | 10 contains(id a) | 11 len
   12 rewrite [a, a+b) of file rf, then invalidate_range(rf, a, b) on the shared cache *)
Definition dec_bop (c : pcache) (rf : N) (t : N * N * N) : list bop :=
  let '(code, a, b) := t in
  if code =? 0 then [BPut (gen_file b a)] else if code =? 1 then [BGet a] else if code =? 2 then [BRemove a]
  else if code =? 3 then [BFlush] else if code =? 4 then [BPrefetch a b] else if code =? 5 then [BDisable]
  else if code =? 6 then [BEnable] else if code =? 7 then [BSetStrategy a] else if code =? 8 then [BCache (XRead rf a b)]
  else if code =? 9 then [BSize a] else if code =? 10 then [BContains a] else if code =? 11 then [BLen]
  else let nb := new_bytes c rf a b in [BCache (XWrite rf a nb); BCache (XInvRange rf a (nlen nb))].

Definition enc_bres (r : bres) : list N :=
  match r with
  | RId (Some id) => [1; id] | RId None => [0]
  | RBytes (Some l) => 1 :: digest l | RBytes None => [0]
  | ROk b => [if b then 1 else 0]
  | RSize (Some n) => [1; n] | RSize None => [0]
  | RHas b => [if b then 1 else 0]
  | RCount n => [n]
  | RNone => []
  | RCache (XBytes l) => digest l
  | RCache _ => []
  end.

Definition mcbs := cbs mem.
Definition mcb_step := cb_step mem mem_put mem_get mem_remove mem_size mem_contains mem_len.
Fixpoint blob_run_h (s : mcbs) (rf : N) (ops : list (N * N * N)) : list (list N) :=
  match ops with
  | [] => []
  | t :: rest =>
      let fix go (s : mcbs) (l : list bop) (last : list N) : mcbs * list N :=
        match l with
        | [] => (s, last)
        | o :: l' => let '(s1, r) := mcb_step s o in go s1 l' (enc_bres r)
        end in
      let '(s1, r) := go s (dec_bop (b_cache mem s) rf t) [] in
      r :: blob_run_h s1 rf rest
  end.
Definition blob_case (ps capbytes : N) (fs : list (N * (N * N))) (rf vfid strategy : N) (ops : list (N * N * N)) : list (list N) :=
  let fl := map (fun t => (fst t, gen_file (fst (snd t)) (snd (snd t)))) fs in
  blob_run_h (mkB mem mem_new (pc_new ps capbytes (files_of fl)) vfid true strategy [] 0) rf ops.
