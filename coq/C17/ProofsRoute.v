(* ConcurrentLruMap, any routing: seen from shard j a history is the history of one LruMap on the operations that
   were routed to j.  RoundRobin and ThreadAffinity are instances; so is Hash. *)
From ZV.Common Require Import Base.
From ZV.C17 Require Import Spec Model ModelRoute ProofsLinks ProofsLru ProofsRefine ProofsShard.
Open Scope N_scope.

Lemma g_step_shard sh n j' o j :
  fst (g_step sh n j' o) j =
    (if to_shard j (j', o) then fst (m_step (sh j) o) else sh j) /\
  (to_shard j (j', o) = true -> snd (g_step sh n j' o) = snd (m_step (sh j) o)).
Proof.
  unfold to_shard. cbn [fst snd].
  destruct o as [k|k v|k|k| |]; cbn [g_step].
  1-4: destruct (N.eqb_spec j' j) as [E|E];
       [rewrite E; destruct (m_step (sh j) _) as [s1 ob]; cbn [fst snd]; rewrite upd_same; auto
       |destruct (m_step (sh j') _) as [s1 ob]; cbn [fst snd];
        rewrite upd_other by congruence; split; [reflexivity|discriminate]].
  - cbn [fst snd m_step]. auto.
  - cbn [fst snd]. split; [reflexivity|discriminate].
Qed.

Lemma g_per_shard_proof n j : forall rops sh,
  fst (g_run sh n rops) j = fst (m_run (sh j) (gsub j rops)) /\
  gpick j rops (snd (g_run sh n rops)) = snd (m_run (sh j) (gsub j rops)).
Proof.
  induction rops as [|[j' o] rops IH]; intros sh; unfold gsub; cbn [g_run filter map m_run gpick]; [auto|].
  pose proof (g_step_shard sh n j' o j) as [Hs Ho].
  destruct (g_step sh n j' o) as [sh1 ob]. cbn [fst snd] in *.
  specialize (IH sh1). unfold gsub in IH.
  destruct (g_run sh1 n rops) as [sh2 obs]. cbn [fst snd gpick] in *.
  destruct (to_shard j (j', o)) eqn:Er.
  - cbn [map snd m_run]. rewrite (Ho eq_refl). rewrite Hs in IH.
    destruct (m_step (sh j) o) as [s1 ob1]. cbn [fst snd] in *.
    destruct IH as [A B]. destruct (m_run s1 (map snd (filter (to_shard j) rops))) as [s2 obs2].
    cbn [fst snd] in *. rewrite A, B. auto.
  - rewrite Hs in IH. exact IH.
Qed.

(* ---------- RoundRobin and ThreadAffinity are routed histories ---------- *)
Lemma rr_run_routed : forall ops mask sh ctr n,
  fst (fst (rr_run mask sh ctr n ops)) = fst (g_run sh n (rr_route mask ctr ops)) /\
  snd (rr_run mask sh ctr n ops) = snd (g_run sh n (rr_route mask ctr ops)).
Proof.
  induction ops as [|o ops IH]; intros mask sh ctr n; cbn [rr_run rr_route g_run]; [auto|].
  destruct (g_step sh n (rr_shard mask ctr) o) as [sh1 ob].
  specialize (IH mask sh1 (if keyed o then rr_tick ctr else ctr) n).
  destruct (rr_run mask sh1 (if keyed o then rr_tick ctr else ctr) n ops) as [[sh2 ctr2] obs].
  destruct (g_run sh1 n (rr_route mask (if keyed o then rr_tick ctr else ctr) ops)) as [sh2' obs'].
  cbn [fst snd] in *. destruct IH as [A B]. subst. auto.
Qed.

Lemma ta_run_routed th mask : forall tops sh n,
  ta_run th mask sh n tops = g_run sh n (ta_route th mask tops).
Proof.
  induction tops as [|[tid o] tops IH]; intros sh n; cbn [ta_run ta_route map g_run fst snd]; [reflexivity|].
  destruct (g_step sh n (ta_shard th mask tid) o) as [sh1 ob].
  rewrite IH. reflexivity.
Qed.

Lemma hash_run_routed : forall ops c n,
  shard (fst (c_run c n ops)) = fst (g_run (shard c) n (map (fun o => (match o with Get k | Put k _ | Remove k | Contains k => sel c k | _ => 0 end, o)) ops)) /\
  snd (c_run c n ops) = snd (g_run (shard c) n (map (fun o => (match o with Get k | Put k _ | Remove k | Contains k => sel c k | _ => 0 end, o)) ops)).
Proof.
  induction ops as [|o ops IH]; intros c n; cbn [c_run map g_run]; [auto|].
  assert (Hstep : shard (fst (c_step c n o)) =
                  fst (g_step (shard c) n (match o with Get k | Put k _ | Remove k | Contains k => sel c k | _ => 0 end) o) /\
                  snd (c_step c n o) =
                  snd (g_step (shard c) n (match o with Get k | Put k _ | Remove k | Contains k => sel c k | _ => 0 end) o) /\
                  sel (fst (c_step c n o)) = sel c).
  { destruct o as [k|k v|k|k| |]; cbn [c_step g_step];
      try (destruct (m_step (shard c (sel c k)) _) as [s1 ob]; cbn [fst snd shard sel]; auto);
      cbn [fst snd shard sel]; auto. }
  destruct (c_step c n o) as [c1 ob]. cbn [fst snd] in Hstep. destruct Hstep as (Hs & Ho & Hsel).
  destruct (g_step (shard c) n _ o) as [sh1 ob']. cbn [fst snd] in *. subst sh1 ob'.
  specialize (IH c1 n). rewrite Hsel in IH.
  destruct (c_run c1 n ops) as [c2 obs]. destruct (g_run (shard c1) n _) as [sh2 obs']. cbn [fst snd] in *.
  destruct IH as [A B]. subst. auto.
Qed.

Lemma rr_per_shard_proof mask sh ctr n ops j :
  fst (fst (rr_run mask sh ctr n ops)) j = fst (m_run (sh j) (gsub j (rr_route mask ctr ops))) /\
  gpick j (rr_route mask ctr ops) (snd (rr_run mask sh ctr n ops)) = snd (m_run (sh j) (gsub j (rr_route mask ctr ops))).
Proof.
  destruct (rr_run_routed ops mask sh ctr n) as [A B]. rewrite A, B. apply g_per_shard_proof.
Qed.

Lemma ta_per_shard_proof th mask sh n tops j :
  fst (ta_run th mask sh n tops) j = fst (m_run (sh j) (gsub j (ta_route th mask tops))) /\
  gpick j (ta_route th mask tops) (snd (ta_run th mask sh n tops)) = snd (m_run (sh j) (gsub j (ta_route th mask tops))).
Proof. rewrite ta_run_routed. apply g_per_shard_proof. Qed.

Lemma rr_shard_is_lru_proof mask cp ctr n ops j :
  1 <= cp -> cp < INVALID ->
  gpick j (rr_route mask ctr ops) (snd (rr_run mask (fun _ => lru_new cp) ctr n ops)) =
    snd (s_run cp [] (gsub j (rr_route mask ctr ops))).
Proof.
  intros H1 H2. rewrite (proj2 (rr_per_shard_proof mask (fun _ => lru_new cp) ctr n ops j)).
  exact (proj1 (lru_refines_proof cp _ H1 H2)).
Qed.

Lemma ta_shard_is_lru_proof th mask cp n tops j :
  1 <= cp -> cp < INVALID ->
  gpick j (ta_route th mask tops) (snd (ta_run th mask (fun _ => lru_new cp) n tops)) =
    snd (s_run cp [] (gsub j (ta_route th mask tops))).
Proof.
  intros H1 H2. rewrite (proj2 (ta_per_shard_proof th mask (fun _ => lru_new cp) n tops j)).
  exact (proj1 (lru_refines_proof cp _ H1 H2)).
Qed.

(* ---------- one shard: the whole history is one LRU ---------- *)
Lemma rr_one_shard : forall ops sh ctr,
  snd (rr_run 0 sh ctr 1 ops) = snd (m_run (sh 0) ops).
Proof.
  induction ops as [|o ops IH]; intros sh ctr; cbn [rr_run m_run]; [reflexivity|].
  unfold rr_shard. rewrite N.land_0_r.
  assert (Hstep : fst (g_step sh 1 0 o) 0 = fst (m_step (sh 0) o) /\ snd (g_step sh 1 0 o) = snd (m_step (sh 0) o)).
  { destruct o as [k|k v|k|k| |]; cbn [g_step];
      try (destruct (m_step (sh 0) _) as [s1 ob]; cbn [fst snd]; rewrite upd_same; auto).
    - cbn [m_step fst snd]. auto.
    - cbn [m_step fst snd]. unfold count_sum. cbn [seq map fold_right N.of_nat].
      rewrite N.add_0_r. auto. }
  destruct (g_step sh 1 0 o) as [sh1 ob]. destruct (m_step (sh 0) o) as [s1 ob1]. cbn [fst snd] in Hstep.
  destruct Hstep as [Hs Ho]. subst ob1.
  specialize (IH sh1 (if keyed o then rr_tick ctr else ctr)). rewrite Hs in IH.
  destruct (rr_run 0 sh1 (if keyed o then rr_tick ctr else ctr) 1 ops) as [[sh2 c2] obs].
  destruct (m_run s1 ops) as [s2 obs2]. cbn [snd] in *. rewrite IH. reflexivity.
Qed.

Lemma rr_one_shard_is_lru_proof cp ctr ops :
  1 <= cp -> cp < INVALID ->
  snd (rr_run 0 (fun _ => lru_new cp) ctr 1 ops) = snd (s_run cp [] ops).
Proof.
  intros H1 H2. rewrite rr_one_shard. exact (proj1 (lru_refines_proof cp ops H1 H2)).
Qed.

(* ---------- one thread: everything it does lands in its own shard ---------- *)
Definition not_len (o : op) : bool := match o with Len => false | _ => true end.

Lemma ta_one_thread_sub th mask t : forall tops,
  Forall (fun r => fst r = t) tops ->
  gsub (ta_shard th mask t) (ta_route th mask tops) = filter not_len (map snd tops).
Proof.
  induction tops as [|[tid o] tops IH]; intros H; [reflexivity|].
  inversion H as [|x l Hx Hl]. cbn [fst] in Hx. subst tid.
  unfold gsub in *. cbn [ta_route map filter fst snd]. unfold to_shard at 1. cbn [fst snd].
  destruct o; cbn [not_len]; try rewrite N.eqb_refl; cbn [map snd]; try (f_equal; apply IH; assumption);
    apply IH; assumption.
Qed.

Lemma ta_one_thread_is_lru_proof th mask cp n t tops :
  1 <= cp -> cp < INVALID -> Forall (fun r => fst r = t) tops ->
  gpick (ta_shard th mask t) (ta_route th mask tops) (snd (ta_run th mask (fun _ => lru_new cp) n tops)) =
    snd (s_run cp [] (filter not_len (map snd tops))).
Proof.
  intros H1 H2 Ht. rewrite ta_shard_is_lru_proof by assumption. rewrite ta_one_thread_sub by assumption. reflexivity.
Qed.
