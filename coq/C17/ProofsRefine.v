(* Simulation: every LruMap operation acts on the abstraction (the list of (key,value) read along
   the links) exactly as the recency-list spec does, with the same result and the same callback
   invocations; hence whole histories agree. *)
From ZV.Common Require Import Base.
From Coq Require Import Permutation.
From ZV.C17 Require Import Spec Model ProofsSpec ProofsLinks ProofsLru.
Open Scope N_scope.

(* ---------- the spec functions on an abstraction ---------- *)
Lemma absl_app nd l1 l2 : absl nd (l1 ++ l2) = absl nd l1 ++ absl nd l2.
Proof. apply map_app. Qed.

Lemma absl_ext nd nd' l : (forall j, In j l -> kv nd' j = kv nd j) -> absl nd' l = absl nd l.
Proof. intros H. apply map_ext_in. exact H. Qed.

Lemma nlen_absl nd l : nlen (absl nd l) = nlen l.
Proof. induction l as [|x l IH]; cbn [absl map nlen]; [reflexivity|]. unfold absl in IH. rewrite IH. reflexivity. Qed.

Lemma absl_cons nd x l : absl nd (x :: l) = (keyof nd x, nval (nd x)) :: absl nd l.
Proof. reflexivity. Qed.
Lemma find_cons_eq k v t : find k ((k, v) :: t) = Some v.
Proof. cbn [find]. rewrite N.eqb_refl. reflexivity. Qed.
Lemma find_cons_ne k k' v t : k' <> k -> find k ((k', v) :: t) = find k t.
Proof. intros H. cbn [find]. destruct (N.eqb_spec k' k); [contradiction|reflexivity]. Qed.
Lemma del_cons_eq k v t : del k ((k, v) :: t) = del k t.
Proof. cbn [del]. rewrite N.eqb_refl. reflexivity. Qed.
Lemma del_cons_ne k k' v t : k' <> k -> del k ((k', v) :: t) = (k', v) :: del k t.
Proof. intros H. cbn [del]. destruct (N.eqb_spec k' k); [contradiction|reflexivity]. Qed.

Lemma find_absl_none nd l k : (forall j, In j l -> keyof nd j <> k) -> find k (absl nd l) = None.
Proof.
  induction l as [|x l IH]; intros H; [reflexivity|].
  rewrite absl_cons, find_cons_ne by (apply H; left; reflexivity).
  apply IH. intros j Hj. apply H. right. exact Hj.
Qed.

Lemma find_absl_in nd l i :
  NoDup (map (keyof nd) l) -> In i l -> find (keyof nd i) (absl nd l) = Some (nval (nd i)).
Proof.
  induction l as [|x l IH]; intros Hnd Hi; [contradiction|].
  rewrite absl_cons.
  cbn [map] in Hnd. inversion Hnd as [|? ? Hx Hnd']. subst.
  destruct Hi as [->|Hi].
  - apply find_cons_eq.
  - rewrite find_cons_ne; [apply IH; assumption|].
    intros E. apply Hx. rewrite E. apply in_map. exact Hi.
Qed.

Lemma del_app k a b : del k (a ++ b) = del k a ++ del k b.
Proof.
  induction a as [|[k' v] a IH]; cbn [app del]; [reflexivity|].
  destruct (k' =? k); [exact IH|]. cbn [app]. rewrite IH. reflexivity.
Qed.

Lemma del_absl_none nd l k : (forall j, In j l -> keyof nd j <> k) -> del k (absl nd l) = absl nd l.
Proof.
  induction l as [|x l IH]; intros H; [reflexivity|].
  rewrite absl_cons, del_cons_ne by (apply H; left; reflexivity).
  rewrite IH; [reflexivity|]. intros j Hj. apply H. right. exact Hj.
Qed.

Lemma del_absl_mid nd l1 i l2 :
  NoDup (map (keyof nd) (l1 ++ i :: l2)) ->
  del (keyof nd i) (absl nd (l1 ++ i :: l2)) = absl nd (l1 ++ l2).
Proof.
  intros Hnd. rewrite map_app in Hnd. cbn [map] in Hnd.
  pose proof (NoDup_remove_2 _ _ _ Hnd) as Hni. rewrite in_app_iff in Hni.
  rewrite !absl_app, absl_cons, del_app, del_cons_eq.
  rewrite !del_absl_none; [reflexivity| |].
  - intros j Hj E. apply Hni. right. rewrite <- E. apply in_map. exact Hj.
  - intros j Hj E. apply Hni. left. rewrite <- E. apply in_map. exact Hj.
Qed.

(* ---------- the simulation relation ---------- *)
Definition Sim (s : lru) (a : rl) : Prop := exists l, Inv s l /\ a = absl (nodes s) l.

Lemma inv_nokey s l k : Inv s l -> hmap s k = None -> forall j, In j l -> keyof (nodes s) j <> k.
Proof. intros H Hk j Hj E. assert (hmap s k = Some j) by (apply (I_hm _ _ H); auto). congruence. Qed.

Lemma inv_node_ok s l i : Inv s l -> In i l -> node_ok s i = true.
Proof.
  intros H Hi. destruct (I_in _ _ H i Hi) as [A B]. unfold node_ok. rewrite B.
  destruct (N.ltb_spec i (cap s)); [reflexivity|lia].
Qed.

(* get *)
Lemma get_sim s a k :
  Sim s a ->
  Sim (fst (m_get s k)) (fst (s_step (cap s) a (Get k))) /\
  snd (s_step (cap s) a (Get k)) = (RGet (snd (m_get s k)), []) /\ cap (fst (m_get s k)) = cap s.
Proof.
  intros (l & H & ->). unfold m_get. cbn [s_step].
  destruct (hmap s k) as [i|] eqn:Ek.
  - apply (I_hm _ _ H) in Ek. destruct Ek as [Hi Hki].
    rewrite (inv_node_ok s l i H Hi).
    destruct (in_split _ _ Hi) as (l1 & l2 & ->).
    destruct (move_to_head_inv s l1 i l2 H) as (H' & Hd & Hc).
    rewrite <- Hki. rewrite (find_absl_in _ _ i (I_keys _ _ H) Hi). cbn [fst snd].
    split; [|split; [|exact Hc]].
    + exists (i :: l1 ++ l2). split; [exact H'|].
      cbn [absl map]. f_equal.
      * unfold kv, keyof. destruct (Hd i) as (A & B & _). rewrite A, B. reflexivity.
      * rewrite (del_absl_mid _ _ _ _ (I_keys _ _ H)). symmetry. apply absl_ext.
        intros j _. unfold kv. destruct (Hd j) as (A & B & _). rewrite A, B. reflexivity.
    + destruct (Hd i) as (_ & B & _). rewrite B. reflexivity.
  - rewrite (find_absl_none _ _ _ (inv_nokey s l k H Ek)). cbn [fst snd].
    split; [exists l; auto|auto].
Qed.

(* contains_key, len *)
Lemma contains_sim s a k :
  Sim s a ->
  (match find k a with Some _ => true | None => false end) =
  (match hmap s k with Some _ => true | None => false end).
Proof.
  intros (l & H & ->). destruct (hmap s k) as [i|] eqn:Ek.
  - apply (I_hm _ _ H) in Ek. destruct Ek as [Hi Hki]. rewrite <- Hki.
    rewrite (find_absl_in _ _ i (I_keys _ _ H) Hi). reflexivity.
  - rewrite (find_absl_none _ _ _ (inv_nokey s l k H Ek)). reflexivity.
Qed.

Lemma len_sim s a : Sim s a -> nlen a = count s.
Proof. intros (l & H & ->). rewrite nlen_absl. symmetry. apply (I_cnt _ _ H). Qed.

(* clear, new *)
Lemma nseq_down_in n : forall i, In i (nseq_down n) -> i < N.of_nat n.
Proof.
  induction n as [|n IH]; intros i Hi; cbn [nseq_down] in Hi; [contradiction|].
  destruct Hi as [<-|Hi]; [lia|]. apply IH in Hi. lia.
Qed.
Lemma nseq_down_nodup n : NoDup (nseq_down n).
Proof.
  induction n as [|n IH]; cbn [nseq_down]; constructor; [|exact IH].
  intros Hi. apply nseq_down_in in Hi. lia.
Qed.
Lemma nseq_down_len n : nlen (nseq_down n) = N.of_nat n.
Proof. induction n as [|n IH]; cbn [nseq_down nlen]; [reflexivity|]. rewrite IH. lia. Qed.

Lemma fresh_inv c nd : c < INVALID ->
  Inv (mkLru c nd INVALID INVALID 0 (nseq_down (N.to_nat c)) (fun _ => None)) [].
Proof.
  intros Hc. constructor; cbn [cap nodes head tail count free hmap].
  - exact Hc.
  - apply links_nil.
  - constructor.
  - intros i [].
  - reflexivity.
  - apply nseq_down_nodup.
  - intros i Hi. apply nseq_down_in in Hi. split; [lia|intros []].
  - rewrite nseq_down_len. cbn [nlen]. lia.
  - intros k i. split; [discriminate|intros [[] _]].
  - constructor.
Qed.

Lemma new_sim c : c < INVALID -> Sim (lru_new c) [].
Proof. intros Hc. exists []. split; [apply fresh_inv; exact Hc|reflexivity]. Qed.

Lemma clear_sim s a : Sim s a -> Sim (m_clear s) [] /\ cap (m_clear s) = cap s.
Proof.
  intros (l & H & _). split; [|reflexivity]. exists []. split; [|reflexivity].
  apply fresh_inv. apply (I_capb _ _ H).
Qed.

(* remove *)
Lemma remove_eq s k i :
  hmap s k = Some i -> node_ok s i = true -> nkey (nodes s i) = k ->
  m_remove s k = (detach s i, Some (nval (nodes (list_remove s i) i))).
Proof.
  intros Hk Hok Hki. unfold m_remove. rewrite Hk.
  change (node_ok (with_hmap s (upd (hmap s) k None)) i) with (node_ok s i). rewrite Hok.
  unfold detach. rewrite Hki. reflexivity.
Qed.

Lemma remove_sim s a k :
  Sim s a ->
  Sim (fst (m_remove s k)) (fst (s_step (cap s) a (Remove k))) /\
  snd (s_step (cap s) a (Remove k)) = (RRemove (snd (m_remove s k)), []) /\ cap (fst (m_remove s k)) = cap s.
Proof.
  intros (l & H & ->). cbn [s_step].
  destruct (hmap s k) as [i|] eqn:Ek.
  - pose proof Ek as Ek'. apply (I_hm _ _ H) in Ek'. destruct Ek' as [Hi Hki].
    rewrite (remove_eq s k i Ek (inv_node_ok s l i H Hi) Hki).
    destruct (in_split _ _ Hi) as (l1 & l2 & ->).
    destruct (detach_inv s l1 i l2 H) as (H' & Hc & Hn & Hd & _).
    rewrite <- Hki. rewrite (find_absl_in _ _ i (I_keys _ _ H) Hi). cbn [fst snd].
    split; [|split; [|exact Hc]].
    + exists (l1 ++ l2). split; [exact H'|].
      rewrite (del_absl_mid _ _ _ _ (I_keys _ _ H)). symmetry. apply absl_ext.
      intros j Hj. assert (j <> i).
      { intros ->. apply (NoDup_remove_2 _ _ _ (I_nd _ _ H)). exact Hj. }
      unfold kv. rewrite Hn by assumption. destruct (Hd j) as (A & B & _). rewrite A, B. reflexivity.
    + destruct (Hd i) as (_ & B & _). rewrite B. reflexivity.
  - unfold m_remove. rewrite Ek.
    rewrite (find_absl_none _ _ _ (inv_nokey s l k H Ek)). cbn [fst snd].
    split; [exists l; auto|auto].
Qed.

(* put *)
Lemma evict_eq s t :
  tail s = t -> t <> INVALID -> nvalid (nodes s t) = true ->
  evict_lru s = Some (detach s t, (nkey (nodes s t), nval (nodes s t))).
Proof.
  intros Ht Hne Hv. unfold evict_lru. rewrite Ht.
  destruct (N.eqb_spec t INVALID) as [|_]; [contradiction|]. rewrite Hv. cbn [negb].
  reflexivity.
Qed.

Lemma set_val_inv s l i v :
  Inv s l -> Inv (with_nodes s (set_val (nodes s) i v)) l.
Proof.
  intros H.
  assert (Hkd : same_kd (nodes s) (set_val (nodes s) i v)).
  { intros j. unfold set_val, upd. destruct (N.eqb_spec j i); subst; cbn [nkey nvalid]; auto. }
  eapply (Inv_perm s _ l l H (Permutation_refl l)); try reflexivity; [|exact Hkd].
  cbn [with_nodes nodes head tail].
  eapply links_frame; [|exact (I_links _ _ H)].
  intros j _. unfold nx, pv, set_val, upd. destruct (N.eqb_spec j i); subst; cbn [nnext nprev]; auto.
Qed.

Lemma removelast_snoc {A} (l : list A) x : removelast (l ++ [x]) = l.
Proof. apply removelast_last. Qed.

Lemma put_sim s a k v :
  1 <= cap s -> Sim s a ->
  Sim (fst (m_put s k v)) (fst (s_step (cap s) a (Put k v))) /\
  snd (s_step (cap s) a (Put k v)) = snd (m_put s k v) /\ cap (fst (m_put s k v)) = cap s.
Proof.
  intros Hcap (l & H & ->). unfold m_put. cbn [s_step].
  destruct (hmap s k) as [i|] eqn:Ek.
  - (* existing key: replace the value, move to the head *)
    pose proof Ek as Ek'. apply (I_hm _ _ H) in Ek'. destruct Ek' as [Hi Hki].
    rewrite (inv_node_ok s l i H Hi).
    rewrite <- Hki. rewrite (find_absl_in _ _ i (I_keys _ _ H) Hi).
    destruct (in_split _ _ Hi) as (l1 & l2 & ->).
    pose proof (set_val_inv s _ i v H) as H0.
    destruct (move_to_head_inv _ l1 i l2 H0) as (H' & Hd & Hc).
    cbn [fst snd]. split; [|split; [reflexivity|exact Hc]].
    exists (i :: l1 ++ l2). split; [exact H'|].
    rewrite absl_cons. f_equal.
    + unfold keyof. destruct (Hd i) as (A & B & _). rewrite A, B. cbn [with_nodes nodes].
      unfold set_val. rewrite upd_same. reflexivity.
    + rewrite (del_absl_mid _ _ _ _ (I_keys _ _ H)). symmetry. apply absl_ext.
      intros j Hj. assert (j <> i).
      { intros ->. apply (NoDup_remove_2 _ _ _ (I_nd _ _ H)). exact Hj. }
      unfold kv. destruct (Hd j) as (A & B & _). rewrite A, B. cbn [with_nodes nodes].
      unfold set_val. rewrite upd_other by assumption. reflexivity.
  - (* new key *)
    rewrite (find_absl_none _ _ _ (inv_nokey s l k H Ek)).
    rewrite nlen_absl, <- (I_cnt _ _ H).
    destruct (N.leb_spec (cap s) (count s)) as [Hfull|Hroom].
    + (* full: evict the tail *)
      assert (Hl : l <> []) by (intros ->; pose proof (I_cnt _ _ H) as E; cbn [nlen] in E; lia).
      destruct (rev_case l) as [->|(l0 & t & ->)]; [congruence|].
      assert (Ht : tail s = t).
      { rewrite (links_tail _ _ _ _ (I_links _ _ H)). apply last_last. }
      assert (Htl : In t (l0 ++ [t])) by (rewrite in_app_iff; cbn; auto).
      rewrite (evict_eq s t Ht (Inv_ne _ _ H t Htl) (proj2 (I_in _ _ H t Htl))).
      destruct (detach_inv s l0 t [] H) as (H1 & Hc1 & Hn1 & Hd1 & Hh1).
      rewrite app_nil_r in H1.
      assert (Hf1 : free (detach s t) = t :: free s) by reflexivity.
      rewrite Hf1.
      assert (Hk1 : hmap (detach s t) k = None).
      { rewrite Hh1. unfold upd. destruct (k =? keyof (nodes s) t); [reflexivity|exact Ek]. }
      destruct (attach_inv (detach s t) l0 t (free s) k v H1 Hf1 Hk1) as (H2 & Hc2 & Hkv & Hother).
      change (with_hmap _ _) with (attach (detach s t) t (free s) k v).
      destruct (absl (nodes s) (l0 ++ [t])) as [|e a'] eqn:Ea.
      { exfalso. apply (f_equal (@length _)) in Ea. unfold absl in Ea. rewrite map_length, app_length in Ea. cbn in Ea. lia. }
      rewrite <- Ea. clear Ea e a'.
      rewrite absl_app. cbn [absl map]. fold (absl (nodes s) l0).
      rewrite removelast_snoc, last_last. cbn [fst snd].
      split; [|split; [reflexivity|congruence]].
      exists (t :: l0). split; [exact H2|].
      rewrite absl_cons. f_equal.
      * unfold kv in Hkv. inversion Hkv. unfold keyof. congruence.
      * symmetry. apply absl_ext. intros j Hj.
        assert (j <> t).
        { intros ->. pose proof (I_nd _ _ H) as Hnd. apply NoDup_remove_2 in Hnd. rewrite app_nil_r in Hnd. contradiction. }
        rewrite Hother by assumption. unfold kv. rewrite Hn1 by assumption.
        destruct (Hd1 j) as (A & B & _). rewrite A, B. reflexivity.
    + (* room: take a free node *)
      destruct (free s) as [|i fr] eqn:Ef.
      { exfalso. pose proof (I_card _ _ H) as E. rewrite Ef in E. cbn [nlen] in E.
        pose proof (I_cnt _ _ H). lia. }
      destruct (attach_inv s l i fr k v H Ef Ek) as (H2 & Hc2 & Hkv & Hother).
      change (with_hmap _ _) with (attach s i fr k v).
      cbn [fst snd]. split; [|split; [reflexivity|exact Hc2]].
      exists (i :: l). split; [exact H2|].
      rewrite absl_cons. f_equal.
      * unfold kv in Hkv. inversion Hkv. unfold keyof. congruence.
      * symmetry. apply absl_ext. intros j Hj.
        assert (j <> i).
        { intros ->. destruct (I_fr _ _ H i ltac:(rewrite Ef; left; reflexivity)) as [_ C]. contradiction. }
        apply Hother. assumption.
Qed.

(* ---------- one step, whole histories ---------- *)
Lemma step_sim s a o :
  1 <= cap s -> Sim s a ->
  Sim (fst (m_step s o)) (fst (s_step (cap s) a o)) /\
  snd (s_step (cap s) a o) = snd (m_step s o) /\ cap (fst (m_step s o)) = cap s.
Proof.
  intros Hcap HS. destruct o as [k|k v|k|k| |]; cbn [m_step].
  - pose proof (get_sim s a k HS) as (A & B & C). destruct (m_get s k) as [s1 r]. cbn [fst snd] in *. auto.
  - apply put_sim; assumption.
  - pose proof (remove_sim s a k HS) as (A & B & C). destruct (m_remove s k) as [s1 r]. cbn [fst snd] in *. auto.
  - cbn [s_step fst snd]. rewrite (contains_sim s a k HS). auto.
  - cbn [s_step fst snd]. destruct (clear_sim s a HS) as [A B]. auto.
  - cbn [s_step fst snd]. rewrite (len_sim s a HS). auto.
Qed.

Lemma run_sim ops : forall s a,
  1 <= cap s -> Sim s a ->
  snd (m_run s ops) = snd (s_run (cap s) a ops) /\
  Sim (fst (m_run s ops)) (fst (s_run (cap s) a ops)).
Proof.
  induction ops as [|o ops IH]; intros s a Hcap HS; cbn [m_run s_run]; [auto|].
  destruct (step_sim s a o Hcap HS) as (A & B & C).
  destruct (m_step s o) as [s1 ob]. destruct (s_step (cap s) a o) as [a1 ob']. cbn [fst snd] in *. subst ob'.
  specialize (IH s1 a1). rewrite C in IH. specialize (IH Hcap A).
  destruct (m_run s1 ops) as [s2 obs]. destruct (s_run (cap s) a1 ops) as [a2 obs']. cbn [fst snd] in *.
  destruct IH as [-> HS2]. auto.
Qed.

Lemma run_cap ops : forall s a, 1 <= cap s -> Sim s a -> cap (fst (m_run s ops)) = cap s.
Proof.
  induction ops as [|o ops IH]; intros s a Hcap HS; cbn [m_run]; [reflexivity|].
  destruct (step_sim s a o Hcap HS) as (A & B & C).
  destruct (m_step s o) as [s1 ob]. cbn [fst snd] in *.
  specialize (IH s1 _ ltac:(lia) A). destruct (m_run s1 ops) as [s2 obs]. cbn [fst] in *. congruence.
Qed.

Lemma sim_count_le s a : Sim s a -> count s <= cap s.
Proof. intros (l & H & _). pose proof (I_card _ _ H). pose proof (I_cnt _ _ H). lia. Qed.

Lemma sim_abs_list s a : Sim s a -> abs_list s = a.
Proof.
  intros (l & H & ->). unfold abs_list.
  rewrite (walk_path (nodes s) (N.to_nat (cap s)) (head s) l (proj1 (I_links _ _ H)) (Inv_ne _ _ H)); [reflexivity|].
  pose proof (I_card _ _ H) as E. rewrite nlen_length in E. lia.
Qed.

Lemma lru_refines_proof c ops :
  1 <= c -> c < INVALID ->
  snd (m_run (lru_new c) ops) = snd (s_run c [] ops) /\
  abs_list (fst (m_run (lru_new c) ops)) = fst (s_run c [] ops).
Proof.
  intros H1 H2. destruct (run_sim ops (lru_new c) [] H1 (new_sim c H2)) as [A B].
  split; [exact A|]. apply sim_abs_list. exact B.
Qed.

Lemma lru_size_proof c ops :
  1 <= c -> c < INVALID -> count (fst (m_run (lru_new c) ops)) <= c.
Proof.
  intros H1 H2. destruct (run_sim ops (lru_new c) [] H1 (new_sim c H2)) as [_ B].
  pose proof (run_cap ops (lru_new c) [] H1 (new_sim c H2)) as C. cbn [lru_new cap] in C.
  apply sim_count_le in B. rewrite C in B. exact B.
Qed.
