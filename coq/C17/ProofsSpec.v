(* Facts about the recency-list spec S (Spec.v): the statements of the property on S. *)
From ZV.Common Require Import Base.
From ZV.C17 Require Import Spec.
Open Scope N_scope.

Lemma nlen_cons {A} (x : A) l : nlen (x :: l) = 1 + nlen l.
Proof. reflexivity. Qed.

Lemma nlen_del_le k l : nlen (del k l) <= nlen l.
Proof.
  induction l as [|[k' v] l IH]; cbn [del nlen]; [lia|].
  destruct (k' =? k); cbn [nlen]; lia.
Qed.

Lemma find_some_del_lt k l v : find k l = Some v -> nlen (del k l) < nlen l.
Proof.
  induction l as [|[k' v'] l IH]; cbn [find del nlen]; [discriminate|].
  destruct (k' =? k).
  - intros _. pose proof (nlen_del_le k l). lia.
  - intros H. apply IH in H. cbn [nlen]. lia.
Qed.

Lemma nlen_removelast {A} (l : list A) : l <> [] -> nlen (removelast l) + 1 = nlen l.
Proof.
  induction l as [|x l IH]; [congruence|].
  intros _. destruct l as [|y l].
  - reflexivity.
  - change (removelast (x :: y :: l)) with (x :: removelast (y :: l)).
    rewrite !nlen_cons. rewrite nlen_cons in IH. specialize (IH ltac:(discriminate)). lia.
Qed.

(* one step never takes the map above its capacity *)
Lemma s_step_size cap l o :
  1 <= cap -> nlen l <= cap -> nlen (fst (s_step cap l o)) <= cap.
Proof.
  intros Hc Hl. destruct o as [k|k v|k|k| |]; cbn [s_step].
  - destruct (find k l) eqn:E; cbn [fst]; [|assumption].
    apply find_some_del_lt in E. rewrite nlen_cons. lia.
  - destruct (find k l) eqn:E; cbn [fst].
    + apply find_some_del_lt in E. rewrite nlen_cons. lia.
    + destruct (N.leb_spec cap (nlen l)) as [Hfull|Hroom].
      * destruct l as [|e l']; cbn [fst]; [assumption|].
        rewrite nlen_cons.
        pose proof (nlen_removelast (e :: l') ltac:(discriminate)). lia.
      * cbn [fst]. rewrite nlen_cons. lia.
  - destruct (find k l) eqn:E; cbn [fst]; [|assumption].
    pose proof (nlen_del_le k l). lia.
  - assumption.
  - cbn [fst nlen]. lia.
  - assumption.
Qed.

Lemma s_run_size cap ops : forall l,
  1 <= cap -> nlen l <= cap -> nlen (fst (s_run cap l ops)) <= cap.
Proof.
  induction ops as [|o ops IH]; intros l Hc Hl; cbn [s_run]; [assumption|].
  pose proof (s_step_size cap l o Hc Hl) as H1.
  destruct (s_step cap l o) as [l1 ob]. cbn [fst] in H1.
  specialize (IH l1 Hc H1). destruct (s_run cap l1 ops) as [l2 obs]. exact IH.
Qed.

(* find after the basic moves *)
Lemma find_del_same k l : find k (del k l) = None.
Proof.
  induction l as [|[k' v] l IH]; cbn [del find]; [reflexivity|].
  destruct (k' =? k) eqn:E; [assumption|]. cbn [find]. rewrite E. assumption.
Qed.
Lemma find_del_other k k' l : k' <> k -> find k' (del k l) = find k' l.
Proof.
  intros Hne. induction l as [|[k0 v] l IH]; cbn [del find]; [reflexivity|].
  destruct (k0 =? k) eqn:E.
  - apply N.eqb_eq in E. subst k0.
    destruct (k =? k') eqn:E2; [apply N.eqb_eq in E2; congruence|]. assumption.
  - cbn [find]. rewrite IH. reflexivity.
Qed.

(* get(k) right after put(k,v) returns v, whatever happened before (k was just used, so it is not the victim) *)
Lemma s_put_get cap l k v :
  1 <= cap -> nlen l <= cap ->
  find k (fst (s_step cap l (Put k v))) = Some v.
Proof.
  intros Hc Hl. cbn [s_step].
  destruct (find k l) eqn:E; cbn [fst find].
  - rewrite N.eqb_refl. reflexivity.
  - destruct (N.leb_spec cap (nlen l)).
    + destruct l as [|e l']; [cbn [nlen] in *; lia|]. cbn [fst find]. rewrite N.eqb_refl. reflexivity.
    + cbn [fst find]. rewrite N.eqb_refl. reflexivity.
Qed.
