(* C19: crash images of a whole history of syncs: composition of the crash relation over sealed segments *)
From ZV.Common Require Import Base Run.
From ZV.C19 Require Import Model ProofsBytes ProofsMv ProofsCrash.
Open Scope N_scope.

(* every droppable operation of the segment is pinned by a later fsync inside the segment *)
Definition sealed (ops : list fop) : Prop :=
  forall j o p, nth_error ops j = Some o -> droppable o = Some p -> pinned p (skipn (S j) ops) = true.

Lemma pinned_app_true : forall a b p, pinned p a = true -> pinned p (a ++ b) = true.
Proof.
  induction a as [|o a IH]; intros b p H; [discriminate|].
  destruct o; cbn [pinned app] in *; try (apply IH; exact H).
  - destruct (p0 =? p); [reflexivity|apply IH; exact H].
  - destruct (a0 =? p); apply IH; exact H.
Qed.

Lemma apply_all_app d a b : apply_all d (a ++ b) = apply_all (apply_all d a) b.
Proof. unfold apply_all. apply fold_left_app. Qed.

Lemma firstn_app_l {A} (a b : list A) k : (k <= length a)%nat -> firstn k (a ++ b) = firstn k a.
Proof. intros H. rewrite firstn_app. replace (k - length a)%nat with 0%nat by lia. cbn [firstn]. apply app_nil_r. Qed.
Lemma firstn_app_r {A} (a b : list A) k : (length a <= k)%nat -> firstn k (a ++ b) = a ++ firstn (k - length a) b.
Proof. intros H. rewrite firstn_app. rewrite firstn_all2 by exact H. reflexivity. Qed.
Lemma skipn_app_l {A} (a b : list A) k : (k <= length a)%nat -> skipn k (a ++ b) = skipn k a ++ b.
Proof. intros H. rewrite skipn_app. replace (k - length a)%nat with 0%nat by lia. reflexivity. Qed.
Lemma skipn_app_r {A} (a b : list A) k : (length a <= k)%nat -> skipn k (a ++ b) = skipn (k - length a) b.
Proof. intros H. rewrite skipn_app. rewrite skipn_all2 by exact H. reflexivity. Qed.

(* window of a dropped / rolled-back operation j with the crash after k operations *)
Definition window (ops : list fop) (j k : nat) : list fop := firstn (k - j - 1) (skipn (S j) ops).

Lemma window_left a b j k : (j < k)%nat -> (k <= length a)%nat -> window (a ++ b) j k = window a j k.
Proof.
  intros Hjk Hk. unfold window. rewrite skipn_app_l by lia.
  apply firstn_app_l. rewrite skipn_length. lia.
Qed.
Lemma window_right a b j k : (length a <= j)%nat -> (j < k)%nat ->
  window (a ++ b) j k = window b (j - length a) (k - length a).
Proof.
  intros Hj Hjk. unfold window. rewrite skipn_app_r by lia.
  replace (S j - length a)%nat with (S (j - length a)) by lia.
  replace (k - length a - (j - length a) - 1)%nat with (k - j - 1)%nat by lia. reflexivity.
Qed.
Lemma window_cross a b j k : (j < length a)%nat -> (length a < k)%nat ->
  exists w, window (a ++ b) j k = skipn (S j) a ++ w.
Proof.
  intros Hj Hk. unfold window. rewrite skipn_app_l by lia.
  rewrite firstn_app_r by (rewrite skipn_length; lia). eexists; reflexivity.
Qed.

Lemma crash_app d a b d' :
  sealed a -> crash d (a ++ b) d' -> crash d a d' \/ crash (apply_all d a) b d'.
Proof.
  intros Hseal H.
  inversion H as [k|k o o' Hn Ht|j k o p Hjk Hn Hd Hp|j k p off data s e Hjk Hn Hp Hs He q dk]; subst.
  - destruct (Nat.le_gt_cases k (length a)) as [Hk|Hk].
    + left. rewrite firstn_app_l by exact Hk. apply crash_prefix.
    + right. rewrite firstn_app_r by lia. rewrite apply_all_app. apply crash_prefix.
  - destruct (Nat.lt_ge_cases k (length a)) as [Hk|Hk].
    + left. rewrite firstn_app_l by lia. rewrite nth_error_app1 in Hn by exact Hk.
      eapply crash_torn; eassumption.
    + right. rewrite firstn_app_r by lia. rewrite apply_all_app.
      rewrite nth_error_app2 in Hn by exact Hk. eapply crash_torn; eassumption.
  - fold (window (a ++ b) j k) in *.
    destruct (Nat.le_gt_cases k (length a)) as [Hk|Hk].
    + left. rewrite window_left in * by lia. rewrite firstn_app_l by lia.
      rewrite nth_error_app1 in Hn by lia. eapply crash_drop; eassumption.
    + destruct (Nat.le_gt_cases (length a) j) as [Hj|Hj].
      * right. rewrite window_right in * by lia. rewrite firstn_app_r by lia. rewrite apply_all_app.
        rewrite nth_error_app2 in Hn by lia.
        apply (crash_drop (apply_all d a) b (j - length a) (k - length a) o p); try assumption. lia.
      * exfalso. destruct (window_cross a b j k Hj Hk) as (w & Hw). rewrite Hw in Hp.
        rewrite nth_error_app1 in Hn by lia.
        rewrite (pinned_app_true _ w p (Hseal j o p Hn Hd)) in Hp. discriminate.
  - fold (window (a ++ b) j k) in *.
    destruct (Nat.le_gt_cases k (length a)) as [Hk|Hk].
    + left. subst q dk. rewrite window_left in * by lia. rewrite !firstn_app_l by lia.
      rewrite nth_error_app1 in Hn by lia.
      apply (crash_block d a j k p off data s e); assumption.
    + destruct (Nat.le_gt_cases (length a) j) as [Hj|Hj].
      * right. subst q dk. rewrite window_right in * by lia. rewrite !firstn_app_r by lia.
        rewrite !apply_all_app. rewrite nth_error_app2 in Hn by lia.
        apply (crash_block (apply_all d a) b (j - length a) (k - length a) p off data s e); try assumption. lia.
      * exfalso. destruct (window_cross a b j k Hj Hk) as (w & Hw). rewrite Hw in Hp.
        rewrite nth_error_app1 in Hn by lia.
        rewrite (pinned_app_true _ w p (Hseal j _ p Hn eq_refl)) in Hp. discriminate.
Qed.

Lemma crash_nil d d' : crash d [] d' -> d' = d.
Proof.
  intros H. inversion H as [k|k o o' Hn|j k o p _ Hn|j k p off data s e _ Hn]; subst.
  - rewrite firstn_nil_any. reflexivity.
  - destruct k; discriminate.
  - destruct j; discriminate.
  - destruct j; discriminate.
Qed.

Lemma sync_ops_sealed path tmp img : sealed (mv_sync_ops path tmp img).
Proof.
  unfold sealed, mv_sync_ops. intros j o p Hn Hd.
  destruct j as [|[|[|[|j]]]]; cbn [nth_error] in Hn; [| | | |destruct j; discriminate Hn];
    injection Hn as <-; cbn [droppable] in Hd; try discriminate.
  injection Hd as <-. cbn [skipn pinned]. rewrite N.eqb_refl. reflexivity.
Qed.

(* a history of syncs: one atomic-replace segment per synced image *)
Fixpoint hist_ops (path tmp : N) (imgs : list (list N)) : list fop :=
  match imgs with [] => [] | i :: t => mv_sync_ops path tmp i ++ hist_ops path tmp t end.

Lemma hist_crash_core path tmp : tmp <> path -> forall imgs d d',
  crash d (hist_ops path tmp imgs) d' -> d' path = d path \/ exists img, In img imgs /\ d' path = Some img.
Proof.
  intros Hne. induction imgs as [|i t IH]; intros d d' H; cbn [hist_ops] in H.
  - left. rewrite (crash_nil _ _ H). reflexivity.
  - apply crash_app in H; [|apply sync_ops_sealed]. destruct H as [H|H].
    + destruct (mv_sync_atomic_core d path tmp i Hne d' H) as [E|E]; [left; exact E|].
      right. exists i. split; [left; reflexivity|exact E].
    + destruct (IH _ _ H) as [E|(img & Hin & E)].
      * pose proof (crash_prefix d (mv_sync_ops path tmp i) 4) as Hp.
        change (firstn 4 (mv_sync_ops path tmp i)) with (mv_sync_ops path tmp i) in Hp.
        destruct (mv_sync_atomic_core d path tmp i Hne _ Hp) as [E2|E2].
        -- left. congruence.
        -- right. exists i. split; [left; reflexivity|congruence].
      * right. exists img. split; [right; exact Hin|exact E].
Qed.

(* T: any history of syncs of well-formed contents, interrupted anywhere: the vector file reopens as the content
   that was on disk before the history or as the content of one of its syncs *)
Definition mv_state := (list N * N * list N)%type.     (* content, capacity, bytes of the unused capacity *)
Definition st_image (es : N) (s : mv_state) : list N := let '(xs, cap, tail) := s in mv_image es xs cap tail.
Definition st_wf (es : N) (s : mv_state) : Prop := let '(xs, cap, tail) := s in mv_wf es xs cap tail.
Definition st_content (s : mv_state) : list N := let '(xs, _, _) := s in xs.

Lemma mv_history_crash_safe_proof es path tmp s0 (hist : list mv_state) d d' :
  tmp <> path -> st_wf es s0 -> Forall (st_wf es) hist ->
  d path = Some (st_image es s0) ->
  crash d (hist_ops path tmp (map (st_image es) hist)) d' ->
  exists f s, d' path = Some f /\ In s (s0 :: hist) /\
              mv_open es f = Some (nlen (st_content s), st_content s).
Proof.
  intros Hne Hw0 Hw Hd Hc.
  destruct (hist_crash_core path tmp Hne _ _ _ Hc) as [E|(img & Hin & E)].
  - exists (st_image es s0), s0. split; [congruence|]. split; [left; reflexivity|].
    destruct s0 as ((xs, cap), tail). apply mv_reopen_after_clean_sync_proof. exact Hw0.
  - apply in_map_iff in Hin. destruct Hin as (s & <- & Hs).
    exists (st_image es s), s. split; [exact E|]. split; [right; exact Hs|].
    rewrite Forall_forall in Hw. specialize (Hw s Hs).
    destruct s as ((xs, cap), tail). apply mv_reopen_after_clean_sync_proof. exact Hw.
Qed.

(* a history of record publications in a directory store (PlainBlobStore::put): (record file, temporary file, data) *)
Fixpoint puts_ops (h : list (N * N * list N)) : list fop :=
  match h with [] => [] | (p, t, img) :: r => mv_sync_ops p t img ++ puts_ops r end.

Lemma puts_history_crash_safe_proof : forall (h : list (N * N * list N)) d d',
  (forall p t img, In (p, t, img) h -> t <> p) ->
  crash d (puts_ops h) d' ->
  forall q, (forall p t img, In (p, t, img) h -> q <> t) ->
    d' q = d q \/ exists t img, In (q, t, img) h /\ d' q = Some img.
Proof.
  induction h as [|((p, t), img) r IH]; intros d d' Hne H q Hq; cbn [puts_ops] in H.
  - left. rewrite (crash_nil _ _ H). reflexivity.
  - assert (Htp : t <> p) by (apply (Hne p t img); left; reflexivity).
    assert (Hqt : q <> t) by (apply (Hq p t img); left; reflexivity).
    apply crash_app in H; [|apply sync_ops_sealed]. destruct H as [H|H].
    + destruct (replace_crash_safe_proof d p t img d' Htp H q Hqt) as [E|(-> & E)]; [left; exact E|].
      right. exists t, img. split; [left; reflexivity|exact E].
    + assert (Hne' : forall p0 t0 img0, In (p0, t0, img0) r -> t0 <> p0) by (intros; eapply Hne; right; eassumption).
      assert (Hq' : forall p0 t0 img0, In (p0, t0, img0) r -> q <> t0) by (intros; eapply Hq; right; eassumption).
      destruct (IH _ _ Hne' H q Hq') as [E|(t1 & img1 & Hin & E)].
      * pose proof (crash_prefix d (mv_sync_ops p t img) 4) as Hp.
        change (firstn 4 (mv_sync_ops p t img)) with (mv_sync_ops p t img) in Hp.
        destruct (replace_crash_safe_proof d p t img _ Htp Hp q Hqt) as [E2|(-> & E2)].
        -- left. congruence.
        -- right. exists t, img. split; [left; reflexivity|congruence].
      * right. exists t1, img1. split; [right; exact Hin|exact E].
Qed.
