(* C19: the atomic-replace protocol with any number of writes to the temporary file
   (ZipOffsetBlobStore::save_to_file, ZReorderMapBuilder::new .. finish, PlainBlobStore::put, MmapVec::sync) *)
From ZV.Common Require Import Base Run.
From ZV.C19 Require Import Model ProofsBytes ProofsMv ProofsCrash ProofsHist ModelZo.
Open Scope N_scope.

(* an operation that touches no file other than p (and renames nothing) *)
Definition only (p : N) (o : fop) : Prop :=
  match o with
  | FOpen q _ _ => q = p
  | FSetLen q _ => q = p
  | FWrite q _ _ => q = p
  | FFsync _ => True
  | FRename _ _ => False
  | FUnlink q => q = p
  end.

Lemma apply_only p o d q : only p o -> q <> p -> apply d o q = d q.
Proof.
  intros Ho Hq. destruct o; cbn [only] in Ho; try subst; cbn [apply].
  - destruct (d p); [destruct trunc|destruct creat]; try reflexivity; apply dset_other; exact Hq.
  - apply dset_other; exact Hq.
  - apply dset_other; exact Hq.
  - reflexivity.
  - contradiction.
  - apply dset_other; exact Hq.
Qed.
Lemma apply_all_only p ops : Forall (only p) ops -> forall d q, q <> p -> apply_all d ops q = d q.
Proof.
  induction ops as [|o ops IH]; intros H d q Hq; [reflexivity|].
  inversion H as [|? ? Ho Hops]; subst. unfold apply_all. cbn [fold_left]. fold (apply_all (apply d o) ops).
  rewrite (IH Hops _ _ Hq). apply (apply_only p); assumption.
Qed.
Lemma Forall_firstn {A} (P : A -> Prop) l k : Forall P l -> Forall P (firstn k l).
Proof. revert k; induction l as [|x l IH]; intros [|k] H; cbn [firstn]; try constructor; inversion H; subst; auto. Qed.
Lemma Forall_skipn {A} (P : A -> Prop) l k : Forall P l -> Forall P (skipn k l).
Proof. revert k; induction l as [|x l IH]; intros [|k] H; cbn [skipn]; try assumption; inversion H; subst; auto. Qed.
Lemma Forall_nth_error {A} (P : A -> Prop) l k x : Forall P l -> nth_error l k = Some x -> P x.
Proof. intros H Hn. rewrite Forall_forall in H. apply H. eapply nth_error_In; eassumption. Qed.
Lemma name_after_only p ops : Forall (only p) ops -> name_after p ops = p.
Proof.
  induction ops as [|o ops IH]; intros H; [reflexivity|]. inversion H as [|? ? Ho Hops]; subst.
  destruct o; cbn [name_after only] in *; try (apply IH; exact Hops). contradiction.
Qed.

(* every crash image of operations that touch only p leaves all other files alone *)
Lemma crash_only p ops d d' : Forall (only p) ops -> crash d ops d' -> forall q, q <> p -> d' q = d q.
Proof.
  intros Hall H q Hq.
  inversion H as [k|k o o' Hn Ht|j k o p0 Hjk Hn Hd Hp|j k p0 off data s e Hjk Hn Hp Hs He q0 dk]; subst.
  - apply (apply_all_only p); [apply Forall_firstn; exact Hall|exact Hq].
  - pose proof (Forall_nth_error _ _ _ _ Hall Hn) as Ho.
    destruct o; cbn [torn] in Ht; try contradiction. destruct Ht as (c & ->). cbn [only] in Ho. subst p0.
    rewrite (apply_only p) by (cbn [only]; auto).
    apply (apply_all_only p); [apply Forall_firstn; exact Hall|exact Hq].
  - rewrite (apply_all_only p) by (try apply Forall_firstn; try apply Forall_skipn; assumption).
    apply (apply_all_only p); [apply Forall_firstn; exact Hall|exact Hq].
  - pose proof (Forall_nth_error _ _ _ _ Hall Hn) as Ho. cbn [only] in Ho. subst p0.
    subst q0 dk. rewrite name_after_only by (apply Forall_firstn; apply Forall_skipn; exact Hall).
    rewrite dset_other by exact Hq.
    apply (apply_all_only p); [apply Forall_firstn; exact Hall|exact Hq].
Qed.

(* ------------------------------------------------------------------ consecutive writes build the concatenation *)
Lemma skipn_zeros_app (f : list N) n : skipn (length f + n) (f ++ zeros n) = [].
Proof. apply skipn_all2. rewrite app_length, zeros_length. lia. Qed.
Lemma write_at_end f data : write_at f (length f) data = f ++ data.
Proof.
  unfold write_at, resize.
  replace (Nat.max (length f) (length f + length data)) with (length f + length data)%nat by lia.
  rewrite (firstn_all2 f) by lia. replace (length f + length data - length f)%nat with (length data) by lia.
  rewrite (firstn_app_exact f _ (length f) eq_refl). rewrite skipn_zeros_app. rewrite app_nil_r. reflexivity.
Qed.

Lemma seq_writes_only p ws : forall off, Forall (only p) (seq_writes p off ws).
Proof.
  induction ws as [|w ws IH]; intros off; cbn [seq_writes]; [constructor|].
  destruct w; [apply IH|]. constructor; [reflexivity|apply IH].
Qed.
Lemma seq_writes_content p ws : forall d f off, d p = Some f -> off = nlen f ->
  apply_all d (seq_writes p off ws) p = Some (f ++ concat ws).
Proof.
  induction ws as [|w ws IH]; intros d f off Hd Hoff; cbn [seq_writes concat].
  - rewrite app_nil_r. exact Hd.
  - destruct w as [|b w]; [cbn [app]; apply IH; assumption|].
    unfold apply_all. cbn [fold_left]. fold (apply_all (apply d (FWrite p off (b :: w))) (seq_writes p (off + nlen (b :: w)) ws)).
    rewrite (IH _ (f ++ b :: w)).
    + rewrite <- app_assoc. reflexivity.
    + cbn [apply]. rewrite dset_same. rewrite Hd. subst off. rewrite nlen_nat. rewrite write_at_end. reflexivity.
    + subst off. rewrite nlen_app. reflexivity.
Qed.

(* the writes, then fsync, pin every earlier write of the temporary file *)
Definition is_write (p : N) (o : fop) : Prop := exists off data, o = FWrite p off data.
Lemma pinned_writes_sync p l rest : Forall (is_write p) l -> pinned p (l ++ FFsync p :: rest) = true.
Proof.
  induction l as [|o l IH]; intros H; cbn [app pinned].
  - rewrite N.eqb_refl. reflexivity.
  - inversion H as [|? ? (off & data & ->) Hl]; subst. cbn [pinned]. apply IH. exact Hl.
Qed.
Lemma seq_writes_are_writes p ws : forall off, Forall (is_write p) (seq_writes p off ws).
Proof.
  induction ws as [|w ws IH]; intros off; cbn [seq_writes]; [constructor|].
  destruct w; [apply IH|]. constructor; [eexists; eexists; reflexivity|apply IH].
Qed.

Section Replace.
  Variables (path tmp : N) (ws : list (list N)) (trunc : bool).
  (* everything before the rename *)
  Let X := FOpen tmp true trunc :: seq_writes tmp 0 ws ++ [FFsync tmp].

  Lemma X_only : Forall (only tmp) X.
  Proof.
    unfold X. constructor; [reflexivity|]. apply Forall_app. split; [apply seq_writes_only|].
    constructor; [exact I|constructor].
  Qed.
  Lemma X_sealed : sealed X.
  Proof.
    unfold sealed, X. intros j o p Hn Hd.
    destruct j as [|j]; cbn [nth_error] in Hn.
    - injection Hn as <-. discriminate Hd.
    - change (skipn (S (S j)) (FOpen tmp true trunc :: seq_writes tmp 0 ws ++ [FFsync tmp]))
        with (skipn (S j) (seq_writes tmp 0 ws ++ [FFsync tmp])).
      assert (Hj : (j < length (seq_writes tmp 0 ws))%nat).
      { destruct (Nat.lt_ge_cases j (length (seq_writes tmp 0 ws))) as [|Hge]; [assumption|exfalso].
        rewrite nth_error_app2 in Hn by exact Hge.
        destruct (j - length (seq_writes tmp 0 ws))%nat as [|[|m]]; cbn [nth_error] in Hn; try discriminate.
        injection Hn as <-. discriminate Hd. }
      rewrite nth_error_app1 in Hn by exact Hj.
      pose proof (Forall_nth_error _ _ _ _ (seq_writes_are_writes tmp ws 0) Hn) as (off & data & ->).
      cbn [droppable] in Hd. injection Hd as <-.
      rewrite skipn_app_l by lia. cbn [app]. apply pinned_writes_sync.
      apply Forall_skipn. apply seq_writes_are_writes.
  Qed.

  Lemma crash_single_rename d1 d' : crash d1 [FRename tmp path] d' -> d' = d1 \/ d' = apply d1 (FRename tmp path).
  Proof.
    intros H. inversion H as [k|k o o' Hn Ht|j k o p _ Hn Hd|j k p off data s e _ Hn]; subst.
    - destruct k; [left; reflexivity|right]. cbn [firstn]. rewrite firstn_nil_any. reflexivity.
    - destruct k as [|k]; cbn [nth_error] in Hn; [injection Hn as <-; contradiction|destruct k; discriminate].
    - destruct j as [|j]; cbn [nth_error] in Hn; [injection Hn as <-; discriminate|destruct j; discriminate].
    - destruct j as [|j]; cbn [nth_error] in Hn; [discriminate|destruct j; discriminate].
  Qed.
End Replace.

(* T: every crash image of  create(tmp); write..; fsync(tmp); rename(tmp, path)  leaves every file other than the
   temporary one as it was, except that `path` may hold exactly the concatenation of the writes - whatever the
   temporary file held before (it is created truncated) *)
Lemma replace_multi_crash_safe_proof d path tmp ws d' :
  tmp <> path -> crash d (replace_ops path tmp ws) d' ->
  forall q, q <> tmp -> d' q = d q \/ (q = path /\ d' q = Some (concat ws)).
Proof.
  intros Hne Hc q Hq.
  unfold replace_ops in Hc.
  change (FOpen tmp true true :: seq_writes tmp 0 ws ++ [FFsync tmp; FRename tmp path])
    with ((FOpen tmp true true :: seq_writes tmp 0 ws ++ [FFsync tmp]) ++ [FRename tmp path]) in Hc
    || (replace (FOpen tmp true true :: seq_writes tmp 0 ws ++ [FFsync tmp; FRename tmp path])
         with ((FOpen tmp true true :: seq_writes tmp 0 ws ++ [FFsync tmp]) ++ [FRename tmp path]) in Hc
         by (cbn [app]; rewrite <- app_assoc; reflexivity)).
  apply crash_app in Hc; [|apply X_sealed].
  destruct Hc as [Hc|Hc].
  - left. apply (crash_only tmp _ _ _ (X_only tmp ws true) Hc). exact Hq.
  - set (d1 := apply_all d (FOpen tmp true true :: seq_writes tmp 0 ws ++ [FFsync tmp])) in *.
    assert (Hd1 : forall q0, q0 <> tmp -> d1 q0 = d q0).
    { intros q0 Hq0. apply (apply_all_only tmp); [apply X_only|exact Hq0]. }
    assert (Ht : d1 tmp = Some (concat ws)).
    { unfold d1, apply_all. cbn [fold_left]. rewrite fold_left_app. cbn [fold_left apply].
      fold (apply_all (apply d (FOpen tmp true true)) (seq_writes tmp 0 ws)).
      apply (seq_writes_content tmp ws _ []); [apply s1_tmp|reflexivity]. }
    destruct (crash_single_rename path tmp d1 d' Hc) as [->| ->].
    + left. apply Hd1. exact Hq.
    + cbn [apply]. rewrite Ht.
      destruct (N.eq_dec q path) as [->|Hqp].
      * right. split; [reflexivity|apply dset_same].
      * left. rewrite dset_other by exact Hqp. rewrite dset_other by exact Hq. apply Hd1. exact Hq.
Qed.

(* the complete protocol publishes exactly the concatenation of the writes, whatever the temporary name held before *)
Lemma replace_publishes d path tmp ws : tmp <> path ->
  apply_all d (replace_ops path tmp ws) path = Some (concat ws).
Proof.
  intros Hne. unfold replace_ops, apply_all. cbn [fold_left]. rewrite fold_left_app. cbn [fold_left].
  fold (apply_all (apply d (FOpen tmp true true)) (seq_writes tmp 0 ws)).
  set (d2 := apply_all (apply d (FOpen tmp true true)) (seq_writes tmp 0 ws)).
  assert (Ht : d2 tmp = Some (concat ws)) by (apply (seq_writes_content tmp ws _ []); [apply s1_tmp|reflexivity]).
  cbn [apply]. rewrite Ht. apply dset_same.
Qed.

(* T (PlainBlobStore::put): a leftover temporary file of an interrupted put - any content at all - contributes no byte
   to the record a later put with the same id publishes *)
Lemma plain_tmp_truncated_proof d path tmp garbage data :
  tmp <> path -> d tmp = Some garbage ->
  apply_all d (replace_ops path tmp [data]) path = Some data.
Proof. intros Hne _. rewrite (replace_publishes d path tmp [data] Hne). cbn [concat]. rewrite app_nil_r. reflexivity. Qed.

(* R: the same protocol with the temporary file opened without O_TRUNC publishes stale bytes of the leftover *)
Lemma plain_put_notrunc_refuted_proof :
  exists d garbage data, d 2 = Some garbage /\
    apply_all d (replace_ops_notrunc 1 2 [data]) 1 <> Some data /\
    apply_all d (replace_ops 1 2 [data]) 1 = Some data.
Proof.
  exists (dset (fun _ => None) 2 (Some [9; 9; 9; 9; 9])), [9; 9; 9; 9; 9], [1; 2].
  split; [reflexivity|]. split; [vm_compute; discriminate|vm_compute; reflexivity].
Qed.
