(* C19: the correspondence cases written by the harness (harness/src/c19.rs) and their checker.  Definitions only. *)
From ZV.Common Require Import Base Run.
Require ZV.C03.Model ZV.C03.ModelStore ZV.C03.ModelPlain.
From ZV.C19 Require Import Model ModelZo ModelPlainDir ModelMvOps ModelRoW ModelMvHist.
Open Scope N_scope.

(* the builder configuration the harness uses: compress_level 0, the given checksum level, default offset configuration *)
Definition zo_cfg (ck : N) : C03.Model.zcfg :=
  {| C03.Model.z_cl := 0; C03.Model.z_ck := ck; C03.Model.z_log2 := 6; C03.Model.z_ow := 16; C03.Model.z_sw := 32;
     C03.Model.z_simd := 1 |}.
Definition zo_built (ck : N) (recs : list (list N)) : option zo :=
  match C03.Model.zip_build C03.Model.id_codec_c (zo_cfg ck) recs with
  | Some st => Some (zo_of (zo_cfg ck) st)
  | None => None
  end.
Definition zo_eqb (a b : zo) : bool :=
  eqb_ln (zo_content a) (zo_content b) && eqb_ln (zo_index a) (zo_index b) && eqb_ln (zo_data a) (zo_data b)
  && (zo_size a =? zo_size b) && (zo_log2 a =? zo_log2 b) && (zo_ow a =? zo_ow b) && (zo_sw a =? zo_sw b)
  && (zo_simd a =? zo_simd b) && (zo_ck a =? zo_ck b) && (zo_cl a =? zo_cl b) && (zo_unzip a =? zo_unzip b).

Inductive xcase :=
| XOld (c : Model.case)
| XZoLoad (file : list N) (expect : list (list Z))
    (* reader process: load_from_file, len, get(0..len): [[-1]] = Err; otherwise [len] :: per id [1; bytes] | [0] = Err *)
| XZoSave (ck : N) (recs : list (list N)) (file : list N)
    (* builder + save_to_file of these records: the model's image is the file and loads as the built store *)
| XZoOps (ck : N) (recs : list (list N)) (trace : list fop)   (* traced operations of that save_to_file *)
| XRoW (vals : list N) (neg : bool) (trace : list fop)        (* traced operations of one ZReorderMapBuilder build *)
| XPlainHist (ops : list phop) (trace : list nfop)            (* traced operations of a PlainBlobStore history *)
| XMvOps (es ic : N) (sow : bool) (gtab : list (N * N)) (ops : list mvop) (expect : list (list N)) (final : list N)
    (* MmapVec history: [len; capacity; file length] after each operation, the elements at the end *)
| XMmio (initial : N) (ops : list mmop) (expect : list (list N)) (file : list N)
    (* MemoryMappedOutput history: [position; capacity] after each operation, the file at the end *)
| XMvUnits (es ic : N) (trace : list fop).
    (* all traced file operations of a MmapVec history (vector file 1, temporary 2): create, then syncs and
       resize_to_capacity units whose images pass the decidable well-formedness check of the history theorem *)

Fixpoint eqb_lln (a b : list (list N)) : bool :=
  match a, b with
  | [], [] => true
  | x :: a', y :: b' => eqb_ln x y && eqb_lln a' b'
  | _, _ => false
  end.
Fixpoint eqb_llz (a b : list (list Z)) : bool :=
  match a, b with
  | [], [] => true
  | x :: a', y :: b' => eqb_lz x y && eqb_llz a' b'
  | _, _ => false
  end.

Definition zo_obs (s : zo) (id : N) : list Z :=
  match zo_get s id with Some d => 1%Z :: zs d | None => [0%Z] end.
Fixpoint mo_trace (s : mmo) (ops : list mmop) : list (list N) * option mmo :=
  match ops with
  | [] => ([], Some s)
  | o :: t => match mo_step s o with
              | Some s1 => let '(r, e) := mo_trace s1 t in ([o_pos s1; o_cap s1] :: r, e)
              | None => ([], None)
              end
  end.

Definition xcase_ok (c : xcase) : bool :=
  match c with
  | XOld c => case_ok c
  | XZoLoad file expect =>
      match zo_load file with
      | None => eqb_llz expect [[(-1)%Z]]
      | Some s =>
          match expect with
          | [n] :: recs =>
              Z.eqb n (Z.of_N (zo_len s))
              && (if zo_cl s =? 0
                  then eqb_llz recs (map (fun i => zo_obs s (N.of_nat i)) (seq 0 (length recs)))
                       && (N.of_nat (length recs) =? zo_len s)
                  else true)
          | _ => false
          end
      end
  | XZoSave ck recs file =>
      match zo_built ck recs with
      | None => false
      | Some s =>
          eqb_ln (zo_save s) file
          && match zo_load file with Some s' => zo_eqb s' s | None => false end
          && eqb_llz (map (fun i => zo_obs s (N.of_nat i)) (seq 0 (length recs))) (map (fun r => 1%Z :: zs r) recs)
          && (zo_len s =? nlen recs)
      end
  | XZoOps ck recs trace =>
      match zo_built ck recs with
      | None => false
      | Some s => ops_eqb trace (zo_save_ops 1 2 s)
      end
  | XRoW vals neg trace => ops_eqb trace (ro_build_ops 1 2 vals neg)
  | XPlainHist ops trace => nops_eqb trace (rops_nops (resolve C03.ModelPlain.plain_create ops))
  | XMvOps es ic sow gtab ops expect final =>
      let tr := st_trace (gf_table gtab) es sow (st_create es ic) ops in
      eqb_lln (map (fun s => [nlen (s_xs s); s_cap s; s_flen s]) tr) expect
      && (length tr =? length ops)%nat
      && eqb_ln (s_xs (last tr (st_create es ic))) final
  | XMmio initial ops expect file =>
      match mo_trace (mo_create initial) ops with
      | (r, Some s) => eqb_lln r expect && eqb_ln (o_file s) file
      | (_, None) => false
      end
  | XMvUnits es ic trace =>
      match trace with
      | c1 :: c2 :: c3 :: rest =>
          ops_eqb [c1; c2; c3] (mv_create_ops 1 (MV_HEADER + ic * es))
          && match parse_units rest with
             | Some us => forallb (unit_okb es) us && forallb (unit_shape_okb es) us
             | None => false
             end
      | _ => false
      end
  end.
