(* C19 property theorems.  Nothing but statements closed by `exact`, a pin, and Print Assumptions. *)
From ZV.Common Require Import Base Run.
From ZV.C19 Require Import Model ProofsBytes ProofsMv ProofsCrash ProofsRo ProofsRoCut ProofsHist.
Open Scope N_scope.

(* a vector synced from content xs (capacity cap, arbitrary bytes in the unused capacity) reopens as exactly xs *)
Theorem mv_reopen_after_clean_sync :
  forall es xs cap tail, mv_wf es xs cap tail -> mv_open es (mv_image es xs cap tail) = Some (nlen xs, xs).
Proof. exact mv_reopen_after_clean_sync_proof. Qed.
Check mv_reopen_after_clean_sync :
  forall es xs cap tail, mv_wf es xs cap tail -> mv_open es (mv_image es xs cap tail) = Some (nlen xs, xs).
Print Assumptions mv_reopen_after_clean_sync.

(* for ANY byte string: if open accepts it, all len elements lie inside the file (never a byte the file does not
   contain, hence no fault), and element i is the little-endian value of the file bytes at 80 + i*es *)
Theorem mv_open_inside_file :
  forall es f n xs, mv_open es f = Some (n, xs) ->
    mv_touched_end es n <= nlen f /\ length xs = N.to_nat n.
Proof. exact mv_open_inside_file_proof. Qed.
Check mv_open_inside_file :
  forall es f n xs, mv_open es f = Some (n, xs) ->
    mv_touched_end es n <= nlen f /\ length xs = N.to_nat n.
Print Assumptions mv_open_inside_file.

Theorem mv_open_elements :
  forall es f n xs i, mv_open es f = Some (n, xs) -> (i < N.to_nat n)%nat ->
    nth_error xs i = Some (field f (80 + i * N.to_nat es) (N.to_nat es)).
Proof. exact mv_open_elements_proof. Qed.
Check mv_open_elements :
  forall es f n xs i, mv_open es f = Some (n, xs) -> (i < N.to_nat n)%nat ->
    nth_error xs i = Some (field f (80 + i * N.to_nat es) (N.to_nat es)).
Print Assumptions mv_open_elements.

(* a synced file cut short at any byte is refused *)
Theorem mv_truncated_refused :
  forall es xs cap tail k, mv_wf es xs cap tail -> (k < length (mv_image es xs cap tail))%nat ->
    mv_open es (firstn k (mv_image es xs cap tail)) = None.
Proof. exact mv_truncated_refused_proof. Qed.
Check mv_truncated_refused :
  forall es xs cap tail k, mv_wf es xs cap tail -> (k < length (mv_image es xs cap tail))%nat ->
    mv_open es (firstn k (mv_image es xs cap tail)) = None.
Print Assumptions mv_truncated_refused.

(* every crash image of sync() (prefix of its operations, torn write, dropped unsynced write, rolled-back range)
   leaves a vector file that reopens as the previously synced content or as the new content *)
Theorem mv_sync_crash_safe :
  forall es d path tmp xs cap tail xs' cap' tail' d',
    tmp <> path -> mv_wf es xs cap tail -> mv_wf es xs' cap' tail' ->
    d path = Some (mv_image es xs cap tail) ->
    crash d (mv_sync_ops path tmp (mv_image es xs' cap' tail')) d' ->
    exists f, d' path = Some f /\
              (mv_open es f = Some (nlen xs, xs) \/ mv_open es f = Some (nlen xs', xs')).
Proof. exact mv_sync_crash_safe_proof. Qed.
Check mv_sync_crash_safe :
  forall es d path tmp xs cap tail xs' cap' tail' d',
    tmp <> path -> mv_wf es xs cap tail -> mv_wf es xs' cap' tail' ->
    d path = Some (mv_image es xs cap tail) ->
    crash d (mv_sync_ops path tmp (mv_image es xs' cap' tail')) d' ->
    exists f, d' path = Some f /\
              (mv_open es f = Some (nlen xs, xs) \/ mv_open es f = Some (nlen xs', xs')).
Print Assumptions mv_sync_crash_safe.

(* whole histories: any number of syncs of arbitrary well-formed contents (whatever pushes, pops, sets, truncates,
   grows happened in memory between them), interrupted at any point of the concatenated operation sequence - the
   crash relation ranges over the whole history, including dropped/rolled-back writes of earlier syncs unless
   fsynced: the vector file reopens as the content on disk before the history or the content of one of its syncs *)
Theorem mv_history_crash_safe :
  forall es path tmp s0 (hist : list mv_state) d d',
    tmp <> path -> st_wf es s0 -> Forall (st_wf es) hist ->
    d path = Some (st_image es s0) ->
    crash d (hist_ops path tmp (map (st_image es) hist)) d' ->
    exists f s, d' path = Some f /\ In s (s0 :: hist) /\
                mv_open es f = Some (nlen (st_content s), st_content s).
Proof. exact mv_history_crash_safe_proof. Qed.
Check mv_history_crash_safe :
  forall es path tmp s0 (hist : list mv_state) d d',
    tmp <> path -> st_wf es s0 -> Forall (st_wf es) hist ->
    d path = Some (st_image es s0) ->
    crash d (hist_ops path tmp (map (st_image es) hist)) d' ->
    exists f s, d' path = Some f /\ In s (s0 :: hist) /\
                mv_open es f = Some (nlen (st_content s), st_content s).
Print Assumptions mv_history_crash_safe.

(* a directory store: any history of record publications (PlainBlobStore::put: temporary name, fsync, rename),
   interrupted anywhere: every file that is not a temporary name is as before the history or holds the complete
   data of one of the puts to that name - no torn record is ever visible under a record name *)
Theorem puts_history_crash_safe :
  forall (h : list (N * N * list N)) d d',
    (forall p t img, In (p, t, img) h -> t <> p) ->
    crash d (puts_ops h) d' ->
    forall q, (forall p t img, In (p, t, img) h -> q <> t) ->
      d' q = d q \/ exists t img, In (q, t, img) h /\ d' q = Some img.
Proof. exact puts_history_crash_safe_proof. Qed.
Check puts_history_crash_safe :
  forall (h : list (N * N * list N)) d d',
    (forall p t img, In (p, t, img) h -> t <> p) ->
    crash d (puts_ops h) d' ->
    forall q, (forall p t img, In (p, t, img) h -> q <> t) ->
      d' q = d q \/ exists t img, In (q, t, img) h /\ d' q = Some img.
Print Assumptions puts_history_crash_safe.

(* the crash relation composes over segments whose writes are all fsynced inside the segment *)
Theorem crash_compose :
  forall d a b d', sealed a -> crash d (a ++ b) d' -> crash d a d' \/ crash (apply_all d a) b d'.
Proof. exact crash_app. Qed.
Check crash_compose :
  forall d a b d', sealed a -> crash d (a ++ b) d' -> crash d a d' \/ crash (apply_all d a) b d'.
Print Assumptions crash_compose.

(* the atomic-replace protocol shared by MmapVec::sync, PlainBlobStore::put and SuffixArrayDictionary::save_to_file
   (temporary sibling, fsync, rename): in every crash image every file other than the temporary one is as before,
   except that the target may hold the complete new content - so a directory store shows the old record set or
   the old set plus the complete new record, never a torn one *)
Theorem replace_crash_safe :
  forall d path tmp img d',
    tmp <> path -> crash d (mv_sync_ops path tmp img) d' ->
    forall q, q <> tmp -> d' q = d q \/ (q = path /\ d' q = Some img).
Proof. exact replace_crash_safe_proof. Qed.
Check replace_crash_safe :
  forall d path tmp img d',
    tmp <> path -> crash d (mv_sync_ops path tmp img) d' ->
    forall q, q <> tmp -> d' q = d q \/ (q = path /\ d' q = Some img).
Print Assumptions replace_crash_safe.

(* the in-place set_len of resize_to_capacity / shrink_to_fit: refused, or the synced content *)
Theorem mv_set_len_safe :
  forall es xs cap tail n, mv_wf es xs cap tail ->
    mv_open es (resize (mv_image es xs cap tail) n) = None \/
    mv_open es (resize (mv_image es xs cap tail) n) = Some (nlen xs, xs).
Proof. exact mv_set_len_safe_proof. Qed.
Check mv_set_len_safe :
  forall es xs cap tail n, mv_wf es xs cap tail ->
    mv_open es (resize (mv_image es xs cap tail) n) = None \/
    mv_open es (resize (mv_image es xs cap tail) n) = Some (nlen xs, xs).
Print Assumptions mv_set_len_safe.

(* ZReorderMap: for every value sequence the builder accepts (values <= 0x7FFFFFFFFF, either direction), the file
   written by push*/finish - run detection, 5-byte records, LEB128 run lengths - is accepted by open (header and
   record validation) and iteration yields exactly the pushed values *)
Theorem ro_roundtrip :
  forall vs neg, Forall (fun v => v < V39) vs -> nlen vs <= RO_MAXSIZE -> ro_decode (ro_encode vs neg) = Some vs.
Proof. exact ro_roundtrip_proof. Qed.
Check ro_roundtrip :
  forall vs neg, Forall (fun v => v < V39) vs -> nlen vs <= RO_MAXSIZE -> ro_decode (ro_encode vs neg) = Some vs.
Print Assumptions ro_roundtrip.

(* ... and the same file cut short at any byte is refused by open (the header announces the element count before
   any record is written, so this is what an interrupted build leaves) *)
Theorem ro_truncated_refused :
  forall vs neg k, Forall (fun v => v < V39) vs -> nlen vs <= RO_MAXSIZE ->
    (k < length (ro_encode vs neg))%nat -> ro_decode (firstn k (ro_encode vs neg)) = None.
Proof. exact ro_truncated_refused_proof. Qed.
Check ro_truncated_refused :
  forall vs neg k, Forall (fun v => v < V39) vs -> nlen vs <= RO_MAXSIZE ->
    (k < length (ro_encode vs neg))%nat -> ro_decode (firstn k (ro_encode vs neg)) = None.
Print Assumptions ro_truncated_refused.

(* the protocol of the pinned tree (rewrite in place, header-only validation) fails the property; both repairs
   are needed: the same image is refused by the fixed open *)
Theorem mv_torn_rewrite_v0_refuted :
  exists d', crash w_disk (mv_sync_ops_v0 1 w_new) d' /\
    exists f n xs, d' 1 = Some f /\ mv_open_v0 8 f = Some (n, xs) /\
      xs <> [7; 9] /\ xs <> [7; 9; 11] /\ nlen f < mv_touched_end 8 n /\ mv_open 8 f = None.
Proof. exact mv_torn_rewrite_v0_refuted_proof. Qed.
Check mv_torn_rewrite_v0_refuted :
  exists d', crash w_disk (mv_sync_ops_v0 1 w_new) d' /\
    exists f n xs, d' 1 = Some f /\ mv_open_v0 8 f = Some (n, xs) /\
      xs <> [7; 9] /\ xs <> [7; 9; 11] /\ nlen f < mv_touched_end 8 n /\ mv_open 8 f = None.
Print Assumptions mv_torn_rewrite_v0_refuted.

