(* C19 property theorems.  Nothing but statements closed by `exact`, a pin, and Print Assumptions. *)
From ZV.Common Require Import Base Run.
From ZV.C19 Require Import Model ProofsBytes ProofsMv ProofsCrash ProofsRo ProofsRoCut ProofsHist.
Require ZV.C03.Model ZV.C03.ModelStore ZV.C03.ModelPlain.
From ZV.C19 Require Import ModelZo ProofsZo ProofsReplace ProofsZoCrash ModelPlainDir ProofsPlainDir ModelMvOps ProofsMvOps
  ModelRoW ProofsRoW ModelMvHist ProofsMvHist ModelCases.
Open Scope N_scope.

(* a vector synced from content xs (capacity cap, arbitrary bytes in the unused capacity) reopens as exactly xs *)
Theorem mv_reopen_after_clean_sync :
  forall es xs cap tail, mv_wf es xs cap tail -> mv_open es (mv_image es xs cap tail) = Some (nlen xs, xs).
Proof. exact mv_reopen_after_clean_sync_proof. Qed.
Check mv_reopen_after_clean_sync :
  forall es xs cap tail, mv_wf es xs cap tail -> mv_open es (mv_image es xs cap tail) = Some (nlen xs, xs).
Print Assumptions mv_reopen_after_clean_sync.

(* for ANY byte string: if open accepts it, all len elements lie inside the file (never a byte the file does not
   contain, hence no fault), and element i is the little-endian value of the file bytes at 80 + i*es *)
Theorem mv_open_inside_file :
  forall es f n xs, mv_open es f = Some (n, xs) ->
    mv_touched_end es n <= nlen f /\ length xs = N.to_nat n.
Proof. exact mv_open_inside_file_proof. Qed.
Check mv_open_inside_file :
  forall es f n xs, mv_open es f = Some (n, xs) ->
    mv_touched_end es n <= nlen f /\ length xs = N.to_nat n.
Print Assumptions mv_open_inside_file.

Theorem mv_open_elements :
  forall es f n xs i, mv_open es f = Some (n, xs) -> (i < N.to_nat n)%nat ->
    nth_error xs i = Some (field f (80 + i * N.to_nat es) (N.to_nat es)).
Proof. exact mv_open_elements_proof. Qed.
Check mv_open_elements :
  forall es f n xs i, mv_open es f = Some (n, xs) -> (i < N.to_nat n)%nat ->
    nth_error xs i = Some (field f (80 + i * N.to_nat es) (N.to_nat es)).
Print Assumptions mv_open_elements.

(* a synced file cut short at any byte is refused *)
Theorem mv_truncated_refused :
  forall es xs cap tail k, mv_wf es xs cap tail -> (k < length (mv_image es xs cap tail))%nat ->
    mv_open es (firstn k (mv_image es xs cap tail)) = None.
Proof. exact mv_truncated_refused_proof. Qed.
Check mv_truncated_refused :
  forall es xs cap tail k, mv_wf es xs cap tail -> (k < length (mv_image es xs cap tail))%nat ->
    mv_open es (firstn k (mv_image es xs cap tail)) = None.
Print Assumptions mv_truncated_refused.

(* every crash image of sync() (prefix of its operations, torn write, dropped unsynced write, rolled-back range)
   leaves a vector file that reopens as the previously synced content or as the new content *)
Theorem mv_sync_crash_safe :
  forall es d path tmp xs cap tail xs' cap' tail' d',
    tmp <> path -> mv_wf es xs cap tail -> mv_wf es xs' cap' tail' ->
    d path = Some (mv_image es xs cap tail) ->
    crash d (mv_sync_ops path tmp (mv_image es xs' cap' tail')) d' ->
    exists f, d' path = Some f /\
              (mv_open es f = Some (nlen xs, xs) \/ mv_open es f = Some (nlen xs', xs')).
Proof. exact mv_sync_crash_safe_proof. Qed.
Check mv_sync_crash_safe :
  forall es d path tmp xs cap tail xs' cap' tail' d',
    tmp <> path -> mv_wf es xs cap tail -> mv_wf es xs' cap' tail' ->
    d path = Some (mv_image es xs cap tail) ->
    crash d (mv_sync_ops path tmp (mv_image es xs' cap' tail')) d' ->
    exists f, d' path = Some f /\
              (mv_open es f = Some (nlen xs, xs) \/ mv_open es f = Some (nlen xs', xs')).
Print Assumptions mv_sync_crash_safe.

(* whole histories: any number of syncs of arbitrary well-formed contents (whatever pushes, pops, sets, truncates,
   grows happened in memory between them), interrupted at any point of the concatenated operation sequence - the
   crash relation ranges over the whole history, including dropped/rolled-back writes of earlier syncs unless
   fsynced: the vector file reopens as the content on disk before the history or the content of one of its syncs *)
Theorem mv_history_crash_safe :
  forall es path tmp s0 (hist : list mv_state) d d',
    tmp <> path -> st_wf es s0 -> Forall (st_wf es) hist ->
    d path = Some (st_image es s0) ->
    crash d (hist_ops path tmp (map (st_image es) hist)) d' ->
    exists f s, d' path = Some f /\ In s (s0 :: hist) /\
                mv_open es f = Some (nlen (st_content s), st_content s).
Proof. exact mv_history_crash_safe_proof. Qed.
Check mv_history_crash_safe :
  forall es path tmp s0 (hist : list mv_state) d d',
    tmp <> path -> st_wf es s0 -> Forall (st_wf es) hist ->
    d path = Some (st_image es s0) ->
    crash d (hist_ops path tmp (map (st_image es) hist)) d' ->
    exists f s, d' path = Some f /\ In s (s0 :: hist) /\
                mv_open es f = Some (nlen (st_content s), st_content s).
Print Assumptions mv_history_crash_safe.

(* a directory store: any history of record publications (PlainBlobStore::put: temporary name, fsync, rename),
   interrupted anywhere: every file that is not a temporary name is as before the history or holds the complete
   data of one of the puts to that name - no torn record is ever visible under a record name *)
Theorem puts_history_crash_safe :
  forall (h : list (N * N * list N)) d d',
    (forall p t img, In (p, t, img) h -> t <> p) ->
    crash d (puts_ops h) d' ->
    forall q, (forall p t img, In (p, t, img) h -> q <> t) ->
      d' q = d q \/ exists t img, In (q, t, img) h /\ d' q = Some img.
Proof. exact puts_history_crash_safe_proof. Qed.
Check puts_history_crash_safe :
  forall (h : list (N * N * list N)) d d',
    (forall p t img, In (p, t, img) h -> t <> p) ->
    crash d (puts_ops h) d' ->
    forall q, (forall p t img, In (p, t, img) h -> q <> t) ->
      d' q = d q \/ exists t img, In (q, t, img) h /\ d' q = Some img.
Print Assumptions puts_history_crash_safe.

(* the crash relation composes over segments whose writes are all fsynced inside the segment *)
Theorem crash_compose :
  forall d a b d', sealed a -> crash d (a ++ b) d' -> crash d a d' \/ crash (apply_all d a) b d'.
Proof. exact crash_app. Qed.
Check crash_compose :
  forall d a b d', sealed a -> crash d (a ++ b) d' -> crash d a d' \/ crash (apply_all d a) b d'.
Print Assumptions crash_compose.

(* the atomic-replace protocol shared by MmapVec::sync, PlainBlobStore::put and SuffixArrayDictionary::save_to_file
   (temporary sibling, fsync, rename): in every crash image every file other than the temporary one is as before,
   except that the target may hold the complete new content - so a directory store shows the old record set or
   the old set plus the complete new record, never a torn one *)
Theorem replace_crash_safe :
  forall d path tmp img d',
    tmp <> path -> crash d (mv_sync_ops path tmp img) d' ->
    forall q, q <> tmp -> d' q = d q \/ (q = path /\ d' q = Some img).
Proof. exact replace_crash_safe_proof. Qed.
Check replace_crash_safe :
  forall d path tmp img d',
    tmp <> path -> crash d (mv_sync_ops path tmp img) d' ->
    forall q, q <> tmp -> d' q = d q \/ (q = path /\ d' q = Some img).
Print Assumptions replace_crash_safe.

(* the in-place set_len of resize_to_capacity / shrink_to_fit: refused, or the synced content *)
Theorem mv_set_len_safe :
  forall es xs cap tail n, mv_wf es xs cap tail ->
    mv_open es (resize (mv_image es xs cap tail) n) = None \/
    mv_open es (resize (mv_image es xs cap tail) n) = Some (nlen xs, xs).
Proof. exact mv_set_len_safe_proof. Qed.
Check mv_set_len_safe :
  forall es xs cap tail n, mv_wf es xs cap tail ->
    mv_open es (resize (mv_image es xs cap tail) n) = None \/
    mv_open es (resize (mv_image es xs cap tail) n) = Some (nlen xs, xs).
Print Assumptions mv_set_len_safe.

(* ZReorderMap: for every value sequence the builder accepts (values <= 0x7FFFFFFFFF, either direction), the file
   written by push*/finish - run detection, 5-byte records, LEB128 run lengths - is accepted by open (header and
   record validation) and iteration yields exactly the pushed values *)
Theorem ro_roundtrip :
  forall vs neg, Forall (fun v => v < V39) vs -> nlen vs <= RO_MAXSIZE -> ro_decode (ro_encode vs neg) = Some vs.
Proof. exact ro_roundtrip_proof. Qed.
Check ro_roundtrip :
  forall vs neg, Forall (fun v => v < V39) vs -> nlen vs <= RO_MAXSIZE -> ro_decode (ro_encode vs neg) = Some vs.
Print Assumptions ro_roundtrip.

(* ... and the same file cut short at any byte is refused by open (the header announces the element count before
   any record is written, so this is what an interrupted build leaves) *)
Theorem ro_truncated_refused :
  forall vs neg k, Forall (fun v => v < V39) vs -> nlen vs <= RO_MAXSIZE ->
    (k < length (ro_encode vs neg))%nat -> ro_decode (firstn k (ro_encode vs neg)) = None.
Proof. exact ro_truncated_refused_proof. Qed.
Check ro_truncated_refused :
  forall vs neg k, Forall (fun v => v < V39) vs -> nlen vs <= RO_MAXSIZE ->
    (k < length (ro_encode vs neg))%nat -> ro_decode (firstn k (ro_encode vs neg)) = None.
Print Assumptions ro_truncated_refused.

(* the protocol of the pinned tree (rewrite in place, header-only validation) fails the property; both repairs
   are needed: the same image is refused by the fixed open *)
Theorem mv_torn_rewrite_v0_refuted :
  exists d', crash w_disk (mv_sync_ops_v0 1 w_new) d' /\
    exists f n xs, d' 1 = Some f /\ mv_open_v0 8 f = Some (n, xs) /\
      xs <> [7; 9] /\ xs <> [7; 9; 11] /\ nlen f < mv_touched_end 8 n /\ mv_open 8 f = None.
Proof. exact mv_torn_rewrite_v0_refuted_proof. Qed.
Check mv_torn_rewrite_v0_refuted :
  exists d', crash w_disk (mv_sync_ops_v0 1 w_new) d' /\
    exists f n xs, d' 1 = Some f /\ mv_open_v0 8 f = Some (n, xs) /\
      xs <> [7; 9] /\ xs <> [7; 9; 11] /\ nlen f < mv_touched_end 8 n /\ mv_open 8 f = None.
Print Assumptions mv_torn_rewrite_v0_refuted.

(* ================================================================== second part: more of the code inside the model *)

(* ZipOffsetBlobStore: the byte-level store behind a value-level store of ZV.C03.Model is written as exactly the image
   zip_image of that model (whose agreement with the real file is checked under C03 and again here) *)
Theorem zo_save_is_zip_image :
  forall c st, zo_save (zo_of c st) = C03.Model.zip_image c st.
Proof. exact zo_save_is_zip_image_proof. Qed.
Check zo_save_is_zip_image :
  forall c st, zo_save (zo_of c st) = C03.Model.zip_image c st.
Print Assumptions zo_save_is_zip_image.

(* save_to_writer then load_from_reader: for every store the format can carry - every content length, multiples of 16
   (no padding) included - the file loads, as a store with the same len, the same content and the same answer to every get *)
Theorem zo_reopen_after_save :
  forall s, zo_wf s ->
    exists s', zo_load (zo_save s) = Some s' /\ zo_len s' = zo_len s /\ zo_content s' = zo_content s /\
               (forall id, zo_get s' id = zo_get s id) /\ (forall id, zo_range s' id = zo_range s id).
Proof. exact zo_reopen_after_save_proof. Qed.
Check zo_reopen_after_save :
  forall s, zo_wf s ->
    exists s', zo_load (zo_save s) = Some s' /\ zo_len s' = zo_len s /\ zo_content s' = zo_content s /\
               (forall id, zo_get s' id = zo_get s id) /\ (forall id, zo_range s' id = zo_range s id).
Print Assumptions zo_reopen_after_save.

(* the saved file cut at any byte before its reserved 64-byte footer is refused ... *)
Theorem zo_truncated_refused :
  forall s k, zo_wf s -> (k + 64 < length (zo_save s))%nat -> zo_load (firstn k (zo_save s)) = None.
Proof. exact zo_truncated_refused_proof. Qed.
Check zo_truncated_refused :
  forall s k, zo_wf s -> (k + 64 < length (zo_save s))%nat -> zo_load (firstn k (zo_save s)) = None.
Print Assumptions zo_truncated_refused.

(* ... and cut inside the footer (which load_from_reader never reads) it loads as the saved store: refused or the
   synced state, for every truncation length *)
Theorem zo_footer_cut_reopens :
  forall s k, zo_wf s -> (length (zo_save s) <= k + 64)%nat -> zo_load (firstn k (zo_save s)) = Some s.
Proof. exact zo_footer_cut_proof. Qed.
Check zo_footer_cut_reopens :
  forall s k, zo_wf s -> (length (zo_save s) <= k + 64)%nat -> zo_load (firstn k (zo_save s)) = Some s.
Print Assumptions zo_footer_cut_reopens.

(* for ANY byte string: if load accepts it, header + content + padding + offset index lie inside the file, the content
   of the store is the file bytes [128, 128 + content_bytes), and every get reads a range inside that content *)
Theorem zo_load_inside_file :
  forall f s, zo_load f = Some s ->
    zo_consumed f <= nlen f /\
    zo_content s = firstn (N.to_nat (field f 64 8)) (skipn 128 f) /\
    128 + nlen (zo_content s) <= nlen f /\
    (forall id a e, zo_range s id = Some (a, e) -> a <= e /\ e <= nlen (zo_content s)).
Proof. exact zo_load_inside_file_proof. Qed.
Check zo_load_inside_file :
  forall f s, zo_load f = Some s ->
    zo_consumed f <= nlen f /\
    zo_content s = firstn (N.to_nat (field f 64 8)) (skipn 128 f) /\
    128 + nlen (zo_content s) <= nlen f /\
    (forall id a e, zo_range s id = Some (a, e) -> a <= e /\ e <= nlen (zo_content s)).
Print Assumptions zo_load_inside_file.

(* the atomic-replace protocol with any number of writes to the temporary file (create+truncate, write.., fsync,
   rename): in every crash image every file other than the temporary one is as before, except that the target may hold
   exactly the concatenation of the writes *)
Theorem replace_multi_crash_safe :
  forall d path tmp ws d',
    tmp <> path -> crash d (replace_ops path tmp ws) d' ->
    forall q, q <> tmp -> d' q = d q \/ (q = path /\ d' q = Some (concat ws)).
Proof. exact replace_multi_crash_safe_proof. Qed.
Check replace_multi_crash_safe :
  forall d path tmp ws d',
    tmp <> path -> crash d (replace_ops path tmp ws) d' ->
    forall q, q <> tmp -> d' q = d q \/ (q = path /\ d' q = Some (concat ws)).
Print Assumptions replace_multi_crash_safe.

(* save_to_file: every crash image leaves the store file untouched or complete, and the complete file loads as the store *)
Theorem zo_save_crash_safe :
  forall d path tmp s d',
    tmp <> path -> zo_wf s -> crash d (zo_save_ops path tmp s) d' ->
    d' path = d path \/ (d' path = Some (zo_save s) /\ zo_load (zo_save s) = Some s).
Proof. exact zo_save_crash_safe_proof. Qed.
Check zo_save_crash_safe :
  forall d path tmp s d',
    tmp <> path -> zo_wf s -> crash d (zo_save_ops path tmp s) d' ->
    d' path = d path \/ (d' path = Some (zo_save s) /\ zo_load (zo_save s) = Some s).
Print Assumptions zo_save_crash_safe.

(* saving over an earlier save: the file loads as the earlier store or as the new one *)
Theorem zo_resave_crash_safe :
  forall d path tmp s0 s d',
    tmp <> path -> zo_wf s0 -> zo_wf s -> d path = Some (zo_save s0) -> crash d (zo_save_ops path tmp s) d' ->
    exists f, d' path = Some f /\ (zo_load f = Some s0 \/ zo_load f = Some s).
Proof. exact zo_resave_crash_safe_proof. Qed.
Check zo_resave_crash_safe :
  forall d path tmp s0 s d',
    tmp <> path -> zo_wf s0 -> zo_wf s -> d path = Some (zo_save s0) -> crash d (zo_save_ops path tmp s) d' ->
    exists f, d' path = Some f /\ (zo_load f = Some s0 \/ zo_load f = Some s).
Print Assumptions zo_resave_crash_safe.

(* PlainBlobStore as a directory store (ZV.C03.ModelPlain: file names, temporary name + rename, rescan on reopen), for
   every injective naming of files: every crash image of every history of put/remove, reopened, is a store in which
   every id holds nothing, or what its file held before the history, or the complete record of one put to that id *)
Theorem plain_crash_safe :
  forall (nm : fname -> N), (forall a b, nm a = nm b -> a = b) ->
    forall h d d' m st',
    crash d (map (to_fop nm) (rops_nops h)) d' ->
    (forall k, C03.ModelPlain.dlookup k m = d' (nm k)) -> C03.ModelPlain.plain_open m = Some st' ->
    forall id, snd (C03.ModelPlain.plain_get st' id) = None
               \/ snd (C03.ModelPlain.plain_get st' id) = d (nm (render id))
               \/ exists data, In (RPut id data) h /\ snd (C03.ModelPlain.plain_get st' id) = Some data.
Proof. exact plain_crash_safe_proof. Qed.
Check plain_crash_safe :
  forall (nm : fname -> N), (forall a b, nm a = nm b -> a = b) ->
    forall h d d' m st',
    crash d (map (to_fop nm) (rops_nops h)) d' ->
    (forall k, C03.ModelPlain.dlookup k m = d' (nm k)) -> C03.ModelPlain.plain_open m = Some st' ->
    forall id, snd (C03.ModelPlain.plain_get st' id) = None
               \/ snd (C03.ModelPlain.plain_get st' id) = d (nm (render id))
               \/ exists data, In (RPut id data) h /\ snd (C03.ModelPlain.plain_get st' id) = Some data.
Print Assumptions plain_crash_safe.

(* a leftover temporary file of an interrupted put - any bytes at all - contributes nothing to the record a later put
   with the same id publishes: the temporary file is created truncated *)
Theorem plain_tmp_truncated :
  forall d path tmp garbage data,
    tmp <> path -> d tmp = Some garbage ->
    apply_all d (replace_ops path tmp [data]) path = Some data.
Proof. exact plain_tmp_truncated_proof. Qed.
Check plain_tmp_truncated :
  forall d path tmp garbage data,
    tmp <> path -> d tmp = Some garbage ->
    apply_all d (replace_ops path tmp [data]) path = Some data.
Print Assumptions plain_tmp_truncated.

(* ... and without O_TRUNC (a seeded regression) the published record carries stale bytes of the leftover *)
Theorem plain_put_notrunc_refuted :
  exists d garbage data, d 2 = Some garbage /\
    apply_all d (replace_ops_notrunc 1 2 [data]) 1 <> Some data /\
    apply_all d (replace_ops 1 2 [data]) 1 = Some data.
Proof. exact plain_put_notrunc_refuted_proof. Qed.
Check plain_put_notrunc_refuted :
  exists d garbage data, d 2 = Some garbage /\
    apply_all d (replace_ops_notrunc 1 2 [data]) 1 <> Some data /\
    apply_all d (replace_ops 1 2 [data]) 1 = Some data.
Print Assumptions plain_put_notrunc_refuted.

(* MmapVec: push (grow), pop, get_mut, truncate, clear, reserve, shrink_to_fit, resize, extend, push_bulk_simd,
   copy_from_simd, sync, reopen, for every growth function and both sync_on_write settings: every operation history
   keeps  length <= capacity /\ 80 + capacity*es <= file length  *)
Theorem mv_ops_preserve_header_inv :
  forall gf es sow s ops s',
    st_inv es s -> st_run gf es sow s ops = Some s' -> st_inv es s'.
Proof. exact mv_ops_preserve_header_inv_proof. Qed.
Check mv_ops_preserve_header_inv :
  forall gf es sow s ops s',
    st_inv es s -> st_run gf es sow s ops = Some s' -> st_inv es s'.
Print Assumptions mv_ops_preserve_header_inv.

(* ... so the image sync() writes in any reachable state satisfies the hypotheses of mv_reopen_after_clean_sync: it
   reopens as exactly the elements, whatever the unused capacity holds *)
Theorem mv_ops_sync_reopens :
  forall gf es sow ic ops s tail,
    (es = 1 \/ es = 2 \/ es = 4 \/ es = 8) -> MV_HEADER + ic * es < W64 -> Forall (op_vals_ok es) ops ->
    st_run gf es sow (st_create es ic) ops = Some s ->
    nlen tail = (s_cap s - nlen (s_xs s)) * es ->
    mv_open es (mv_image es (s_xs s) (s_cap s) tail) = Some (nlen (s_xs s), s_xs s).
Proof. exact mv_ops_sync_reopens_proof. Qed.
Check mv_ops_sync_reopens :
  forall gf es sow ic ops s tail,
    (es = 1 \/ es = 2 \/ es = 4 \/ es = 8) -> MV_HEADER + ic * es < W64 -> Forall (op_vals_ok es) ops ->
    st_run gf es sow (st_create es ic) ops = Some s ->
    nlen tail = (s_cap s - nlen (s_xs s)) * es ->
    mv_open es (mv_image es (s_xs s) (s_cap s) tail) = Some (nlen (s_xs s), s_xs s).
Print Assumptions mv_ops_sync_reopens.

(* the seeded regression of copy_from_simd (reserve(other.len() - capacity())): length 14 > capacity 12, the synced file
   is refused, a push brings elements 12, 13 back as 0; the code as it is keeps the invariant on the same input *)
Theorem mv_copy_from_underreserve_refuted :
  st_inv 8 bad_start /\
  exists s, st_copy_from_bad gf_1618 8 false bad_start bad_src = Some s /\
    s_cap s < nlen (s_xs s) /\ ~ st_inv 8 s /\
    st_step gf_1618 8 false s OReopen = None /\
    (exists s2, st_step gf_1618 8 false s (OPush 7) = Some s2 /\ s_xs s2 = firstn 12 bad_src ++ [0; 0; 7]) /\
    (exists s3, st_step gf_1618 8 false bad_start (OCopyFrom bad_src) = Some s3 /\ st_inv 8 s3 /\ s_xs s3 = bad_src).
Proof. exact mv_copy_from_underreserve_refuted_proof. Qed.
Check mv_copy_from_underreserve_refuted :
  st_inv 8 bad_start /\
  exists s, st_copy_from_bad gf_1618 8 false bad_start bad_src = Some s /\
    s_cap s < nlen (s_xs s) /\ ~ st_inv 8 s /\
    st_step gf_1618 8 false s OReopen = None /\
    (exists s2, st_step gf_1618 8 false s (OPush 7) = Some s2 /\ s_xs s2 = firstn 12 bad_src ++ [0; 0; 7]) /\
    (exists s3, st_step gf_1618 8 false bad_start (OCopyFrom bad_src) = Some s3 /\ st_inv 8 s3 /\ s_xs s3 = bad_src).
Print Assumptions mv_copy_from_underreserve_refuted.

(* ZReorderMapBuilder: the header write and the flushes of the 4096-byte buffer, however many occur, hand the file exactly
   the encoding ro_encode (for which ro_roundtrip and ro_truncated_refused hold) *)
Theorem ro_builder_writes_concat :
  forall vs neg, concat (ro_builder_writes vs neg) = ro_encode vs neg.
Proof. exact ro_builder_writes_concat_proof. Qed.
Check ro_builder_writes_concat :
  forall vs neg, concat (ro_builder_writes vs neg) = ro_encode vs neg.
Print Assumptions ro_builder_writes_concat.

(* a build (temporary file, the writes, sync_all, rename): every crash image leaves the map file as it was or complete *)
Theorem ro_build_crash_safe :
  forall d path tmp vs neg d',
    tmp <> path -> crash d (ro_build_ops path tmp vs neg) d' ->
    d' path = d path \/ d' path = Some (ro_encode vs neg).
Proof. exact ro_build_crash_safe_proof. Qed.
Check ro_build_crash_safe :
  forall d path tmp vs neg d',
    tmp <> path -> crash d (ro_build_ops path tmp vs neg) d' ->
    d' path = d path \/ d' path = Some (ro_encode vs neg).
Print Assumptions ro_build_crash_safe.

(* the seeded regression (an intermediate flush writes whole 4 KiB blocks only, then clears the buffer): 820 single-value
   records lose 4 bytes and the finished file is refused *)
Theorem ro_builder_whole_blocks_refuted :
  concat (ro_builder_writes_bad ro_many false) <> ro_encode ro_many false /\
  nlen (concat (ro_builder_writes_bad ro_many false)) = 4112 /\ nlen (ro_encode ro_many false) = 4116 /\
  ro_decode (concat (ro_builder_writes_bad ro_many false)) = None /\
  concat (ro_builder_writes ro_many false) = ro_encode ro_many false.
Proof. exact ro_builder_whole_blocks_refuted_proof. Qed.
Check ro_builder_whole_blocks_refuted :
  concat (ro_builder_writes_bad ro_many false) <> ro_encode ro_many false /\
  nlen (concat (ro_builder_writes_bad ro_many false)) = 4112 /\ nlen (ro_encode ro_many false) = 4116 /\
  ro_decode (concat (ro_builder_writes_bad ro_many false)) = None /\
  concat (ro_builder_writes ro_many false) = ro_encode ro_many false.
Print Assumptions ro_builder_whole_blocks_refuted.

(* MemoryMappedOutput::create, write_slice*, flush, truncate, flush (growth by 50% or to the required size, zero-filled
   set_len): the file holds exactly the concatenation of the chunks; MemoryMappedInput returns exactly those bytes in
   whatever slice lengths they are read and refuses one byte more *)
Theorem mmio_roundtrip :
  forall initial chunks s,
    mo_run (mo_create initial) (map MWrite chunks ++ [MFlush; MTruncate; MFlush]) = Some s ->
    o_file s = concat chunks /\ mo_inv s /\
    (forall lens, fold_right N.add 0 lens = nlen (concat chunks) -> mi_read_all (o_file s) 0 lens = Some (concat chunks)) /\
    mi_read (o_file s) (nlen (o_file s)) 1 = None.
Proof. exact mmio_roundtrip_proof. Qed.
Check mmio_roundtrip :
  forall initial chunks s,
    mo_run (mo_create initial) (map MWrite chunks ++ [MFlush; MTruncate; MFlush]) = Some s ->
    o_file s = concat chunks /\ mo_inv s /\
    (forall lens, fold_right N.add 0 lens = nlen (concat chunks) -> mi_read_all (o_file s) 0 lens = Some (concat chunks)) /\
    mi_read (o_file s) (nlen (o_file s)) 1 = None.
Print Assumptions mmio_roundtrip.

(* every history of write_slice / seek / flush / truncate keeps |file| = capacity and position <= capacity: the slice
   write_slice indexes always lies inside the mapping *)
Theorem mmio_history_inv :
  forall ops s s', mo_inv s -> mo_run s ops = Some s' -> mo_inv s'.
Proof. exact mo_run_inv. Qed.
Check mmio_history_inv :
  forall ops s s', mo_inv s -> mo_run s ops = Some s' -> mo_inv s'.
Print Assumptions mmio_history_inv.

(* a set_len in front of any operation sequence (never pinned: the later fsyncs are on the temporary file): the crash
   images are the untouched disk, those of the sequence after the set_len, and those of the sequence without it *)
Theorem crash_setlen_compose :
  forall d p n Y d',
    crash d (FSetLen p n :: Y) d' -> d' = d \/ crash (apply d (FSetLen p n)) Y d' \/ crash d Y d'.
Proof. exact crash_cons_setlen. Qed.
Check crash_setlen_compose :
  forall d p n Y d',
    crash d (FSetLen p n :: Y) d' -> d' = d \/ crash (apply d (FSetLen p n)) Y d' \/ crash d Y d'.
Print Assumptions crash_setlen_compose.

(* MmapVec: whole histories of syncs and resize_to_capacity units (sync, set_len, sync) over well-formed states,
   interrupted anywhere - set_len lost or applied, any write torn, dropped or partly rolled back: the vector file
   reopens as an error, or as the state on disk before the history, or as one of the states of the history *)
Theorem mv_units_crash_safe :
  forall es path tmp s0 (us : list munit) d d',
    tmp <> path -> ms_wf es s0 -> Forall (munit_wf es) us ->
    d path = Some (ms_image es s0) ->
    crash d (units_ops path tmp (map (munit_unit es) us)) d' ->
    exists f, d' path = Some f /\
      (mv_open es f = None \/
       exists s, (s = s0 \/ exists u, In u us /\ In s (munit_states u)) /\
                 mv_open es f = Some (nlen (ms_content s), ms_content s)).
Proof. exact mv_units_crash_safe_proof. Qed.
Check mv_units_crash_safe :
  forall es path tmp s0 (us : list munit) d d',
    tmp <> path -> ms_wf es s0 -> Forall (munit_wf es) us ->
    d path = Some (ms_image es s0) ->
    crash d (units_ops path tmp (map (munit_unit es) us)) d' ->
    exists f, d' path = Some f /\
      (mv_open es f = None \/
       exists s, (s = s0 \/ exists u, In u us /\ In s (munit_states u)) /\
                 mv_open es f = Some (nlen (ms_content s), ms_content s)).
Print Assumptions mv_units_crash_safe.

(* the same with decidable hypotheses, exactly what the harness checks on every traced history (XMvUnits): the image
   on disk before the history and every image it syncs pass img_okb *)
Theorem mv_traced_history_crash_safe :
  forall es path tmp img0 us d d',
    tmp <> path -> img_okb es img0 = true -> forallb (unit_okb es) us = true ->
    d path = Some img0 -> crash d (units_ops path tmp us) d' ->
    exists f, d' path = Some f /\
      (mv_open es f = None \/
       exists img, In img (img0 :: flat_map unit_images us) /\ mv_open es f = mv_open es img /\ mv_open es img <> None).
Proof. exact mv_traced_history_crash_safe_proof. Qed.
Check mv_traced_history_crash_safe :
  forall es path tmp img0 us d d',
    tmp <> path -> img_okb es img0 = true -> forallb (unit_okb es) us = true ->
    d path = Some img0 -> crash d (units_ops path tmp us) d' ->
    exists f, d' path = Some f /\
      (mv_open es f = None \/
       exists img, In img (img0 :: flat_map unit_images us) /\ mv_open es f = mv_open es img /\ mv_open es img <> None).
Print Assumptions mv_traced_history_crash_safe.
