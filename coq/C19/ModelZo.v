(* C19 model, part 2: the ZipOffsetBlobStore file (src/blob_store/zip_offset.rs FileHeader::to_bytes / from_bytes /
   validate, save_to_writer, load_from_reader, get_record_impl; src/blob_store/sorted_uint_vec.rs to_bytes / from_bytes /
   get2 / get_unchecked / get_block_min_val / get_block_delta / extract_bits) and the general atomic-replace protocol
   with several writes to the temporary file (save_to_file, ZReorderMapBuilder::new..finish, PlainBlobStore::put).
   Definitions only.

   The store is modelled as the bytes the Rust struct holds (content, the packed sample index, the packed delta data,
   the element count of the offset vector, the configuration bytes): this is what save_to_writer writes and what
   load_from_reader rebuilds.  ZV.C03.Model has the value-level view (zstore) and its image zip_image; zo_of maps one to
   the other and zo_save (zo_of c st) = zip_image c st (ProofsZo.zo_save_is_zip_image). *)
From ZV.Common Require Import Base Run.
Require ZV.C03.Model.
From ZV.C19 Require Import Model.
Open Scope N_scope.

(* ------------------------------------------------------------------ the in-memory store, byte level *)
Record zo := {
  zo_content : list N;     (* ZipOffsetBlobStore::content *)
  zo_index : list N;       (* SortedUintVec::index: packed block samples *)
  zo_data : list N;        (* SortedUintVec::data: packed deltas *)
  zo_size : N;             (* SortedUintVec::size = number of records + 1 (0 for a store made by new()) *)
  zo_log2 : N;             (* offset_config.log2_block_units *)
  zo_ow : N;               (* offset_config.offset_width *)
  zo_sw : N;               (* offset_config.sample_width *)
  zo_simd : N;             (* offset_config.use_simd as u8 *)
  zo_ck : N;               (* config.checksum_level *)
  zo_cl : N;               (* config.compress_level *)
  zo_unzip : N }.          (* stats.uncompressed_size *)

Definition zo_len (s : zo) : N := zo_size s - 1.                     (* offsets.len().saturating_sub(1) *)

(* SortedUintVecConfig::validate *)
Definition suv_cfg_ok (log2 ow sw : N) : bool :=
  (4 <=? log2) && (log2 <=? 8) && (8 <=? ow) && (ow <=? 32) && (16 <=? sw) && (sw <=? 64)
  && negb ((57 <? sw) && (sw <? 64)).

(* extract_bits: width and bounds checks, then the portable extraction (C03.Model.extract_bits) *)
Definition zo_bits (data : list N) (bit_off w : N) : option N :=
  if (w =? 0) || (64 <? w) then None
  else let need := N.min ((bit_off mod 8 + w + 7) / 8) 8 in
       if nlen data <? bit_off / 8 + need then None
       else Some (C03.Model.extract_bits data bit_off w).
Definition zo_nblocks (s : zo) : N := (zo_size s + (2 ^ zo_log2 s - 1)) / 2 ^ zo_log2 s.
(* get_unchecked: block sample + delta; the u64 addition is checked in the baseline profile (None) *)
Definition zo_offset (s : zo) (i : N) : option N :=
  let b := i / 2 ^ zo_log2 s in
  if zo_nblocks s <=? b then None
  else match zo_bits (zo_index s) (b * zo_sw s) (zo_sw s), zo_bits (zo_data s) (i * zo_ow s) (zo_ow s) with
       | Some m, Some dl => if m + dl mod W32 <? W64 then Some (m + dl mod W32) else None
       | _, _ => None
       end.
(* get2 *)
Definition zo_get2 (s : zo) (i : N) : option (N * N) :=
  if (zo_size s <=? i) || (zo_size s <=? i + 1) then None
  else match zo_offset s i, zo_offset s (i + 1) with
       | Some a, Some b => Some (a, b)
       | _, _ => None
       end.
(* the byte range of the content that get(id) reads: get_record_impl up to the slice *)
Definition zo_range (s : zo) (id : N) : option (N * N) :=
  if zo_len s <=? id then None
  else match zo_get2 s id with
       | None => None
       | Some (a, e) => if (e <? a) || (nlen (zo_content s) <? e) then None else Some (a, e)
       end.
Definition zo_has_ck (s : zo) : bool := (zo_ck s =? 2) || (zo_ck s =? 3).
(* get for an uncompressed store (compress_level 0; zstd is outside this model) *)
Definition zo_get (s : zo) (id : N) : option (list N) :=
  match zo_range s id with
  | None => None
  | Some (a, e) =>
      let rec := firstn (N.to_nat (e - a)) (skipn (N.to_nat a) (zo_content s)) in
      if zo_has_ck s then
        if nlen rec <? 4 then None
        else let n := (length rec - 4)%nat in
             if eqb_ln (le_bytes 4 (C03.Model.checksum (firstn n rec))) (skipn n rec) then Some (firstn n rec) else None
      else Some rec
  end.

(* ------------------------------------------------------------------ the file image *)
Definition zo_magic : list N := C03.Model.magic.
Definition zo_class : list N := C03.Model.class_name.
(* SortedUintVec::to_bytes *)
Definition suv_bytes (s : zo) : list N :=
  le_bytes 8 (zo_size s) ++ [zo_log2 s; zo_ow s; zo_sw s; zo_simd s; 0; 0; 0; 0]
  ++ le_bytes 8 (nlen (zo_index s)) ++ le_bytes 8 (nlen (zo_data s)) ++ zo_index s ++ zo_data s.
Definition zo_pad (cb : N) : N := (16 - cb mod 16) mod 16.
(* FileHeader::new + to_bytes *)
Definition zo_header (s : zo) : list N :=
  let cb := nlen (zo_content s) in
  let ob := nlen (suv_bytes s) in
  let file_size := 128 + cb + zo_pad cb + ob + 64 in
  let rcv := (zo_len s) mod 2 ^ 40 + zo_ck s * 2 ^ 40 + 1 * 2 ^ 48 in
  zo_magic ++ zo_class ++ le_bytes 8 file_size ++ le_bytes 8 (zo_unzip s) ++ le_bytes 8 rcv
  ++ le_bytes 8 cb ++ le_bytes 8 ob ++ [zo_log2 s; zo_ck s; zo_cl s] ++ zeros 45.
(* save_to_writer: the write_all calls it issues (an empty slice issues no write) *)
Definition zo_save_writes (s : zo) : list (list N) :=
  [zo_header s; zo_content s; zeros (N.to_nat (zo_pad (nlen (zo_content s)))); suv_bytes s; zeros 64].
Definition zo_save (s : zo) : list N := concat (zo_save_writes s).

(* SortedUintVec::from_bytes *)
Definition suv_parse (b : list N) : option (N * N * N * N * N * list N * list N) :=
  if nlen b <? 32 then None
  else let size := field b 0 8 in
       let log2 := nth 8 b 0 in let ow := nth 9 b 0 in let sw := nth 10 b 0 in
       let simd := if nth 11 b 0 =? 0 then 0 else 1 in
       let il := field b 16 8 in let dl := field b 24 8 in
       if negb (nlen b =? 32 + il + dl) then None          (* checked_add, then bytes.len() != total *)
       else if negb (suv_cfg_ok log2 ow sw) then None
       else if N.min (dl * 8) (W64 - 1) / ow <? size then None
       else Some (size, log2, ow, sw, simd, firstn (N.to_nat il) (skipn 32 b), skipn (32 + N.to_nat il) b).

(* load_from_reader on the byte string the reader delivers.  Sizes from the header are compared with what is
   left before they are used as a count. *)
Definition zo_load (f : list N) : option zo :=
  if nlen f <? 128 then None                                                   (* read_exact(header) *)
  else if negb (eqb_ln (firstn 20 f) zo_magic) then None
  else if negb (eqb_ln (firstn 20 (skipn 20 f)) zo_class) then None
  else let rcv := field f 56 8 in
  if negb ((rcv / 2 ^ 48) mod 2 ^ 16 =? 1) then None                           (* format_version *)
  else let log2h := nth 80 f 0 in let ck := nth 81 f 0 in let cl := nth 82 f 0 in
  if (22 <? cl) || (3 <? ck) || negb (suv_cfg_ok log2h 16 32) then None        (* with_config(config)?.validate *)
  else let cb := field f 64 8 in let ob := field f 72 8 in
  let r1 := skipn 128 f in
  if nlen r1 <? cb then None                                                   (* take(cb).read_to_end: short *)
  else let r2 := skipn (N.to_nat cb) r1 in
  if nlen r2 <? zo_pad cb then None                                            (* read_exact(padding) *)
  else let r3 := skipn (N.to_nat (zo_pad cb)) r2 in
  if nlen r3 <? ob then None                                                   (* take(ob).read_to_end: short *)
  else match suv_parse (firstn (N.to_nat ob) r3) with
       | None => None
       | Some (size, log2, ow, sw, simd, index, data) =>
           if negb (size - 1 =? rcv mod 2 ^ 40) then None                      (* store.len() != header.records() *)
           else Some {| zo_content := firstn (N.to_nat cb) r1; zo_index := index; zo_data := data; zo_size := size;
                        zo_log2 := log2; zo_ow := ow; zo_sw := sw; zo_simd := simd; zo_ck := ck; zo_cl := cl;
                        zo_unzip := field f 48 8 |}
       end.
(* number of bytes load_from_reader consumes from a file it accepts (the 64-byte footer is never read) *)
Definition zo_consumed (f : list N) : N :=
  let cb := field f 64 8 in 128 + cb + zo_pad cb + field f 72 8.

(* a store that save_to_writer / load_from_reader can carry: validated configuration, sizes that fit their fields,
   an offset vector whose data section holds `size` deltas *)
Definition zo_wf (s : zo) : Prop :=
  suv_cfg_ok (zo_log2 s) (zo_ow s) (zo_sw s) = true /\ zo_simd s <= 1 /\ zo_ck s <= 3 /\ zo_cl s <= 22
  /\ zo_size s <= nlen (zo_data s) * 8 / zo_ow s /\ zo_len s < 2 ^ 40 /\ zo_unzip s < W64
  /\ Forall (fun b => b < 256) (zo_content s) /\ Forall (fun b => b < 256) (zo_index s)
  /\ Forall (fun b => b < 256) (zo_data s)
  /\ nlen (zo_content s) + nlen (zo_index s) + nlen (zo_data s) < 2 ^ 60.

(* the value-level store of ZV.C03.Model as the bytes the Rust struct holds *)
Definition zo_of (c : C03.Model.zcfg) (st : C03.Model.zstore) : zo :=
  let v := C03.Model.st_offsets st in
  {| zo_content := C03.Model.st_content st;
     zo_index := C03.Model.pack_bytes (C03.Model.z_sw c) (C03.Model.v_samples v);
     zo_data := C03.Model.pack_bytes (C03.Model.z_ow c) (C03.Model.v_deltas v);
     zo_size := C03.Model.v_size v;
     zo_log2 := C03.Model.z_log2 c; zo_ow := C03.Model.z_ow c; zo_sw := C03.Model.z_sw c;
     zo_simd := C03.Model.z_simd c; zo_ck := C03.Model.z_ck c; zo_cl := C03.Model.z_cl c;
     zo_unzip := C03.Model.st_unzip st |}.

(* ------------------------------------------------------------------ atomic replace with several writes *)
(* consecutive write_all calls on a freshly created file: each lands at the current end; empty slices issue nothing *)
Fixpoint seq_writes (p : N) (off : N) (ws : list (list N)) : list fop :=
  match ws with
  | [] => []
  | w :: t => match w with
              | [] => seq_writes p off t
              | _ => FWrite p off w :: seq_writes p (off + nlen w) t
              end
  end.
(* File::create(tmp); write_all ...; sync_all; rename(tmp, path) *)
Definition replace_ops (path tmp : N) (ws : list (list N)) : list fop :=
  FOpen tmp true true :: seq_writes tmp 0 ws ++ [FFsync tmp; FRename tmp path].
(* the same with the temporary file opened without O_TRUNC (a seeded regression of PlainBlobStore::put) *)
Definition replace_ops_notrunc (path tmp : N) (ws : list (list N)) : list fop :=
  FOpen tmp true false :: seq_writes tmp 0 ws ++ [FFsync tmp; FRename tmp path].
Definition zo_save_ops (path tmp : N) (s : zo) : list fop := replace_ops path tmp (zo_save_writes s).
