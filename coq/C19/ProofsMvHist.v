(* C19: crash images of whole MmapVec histories (syncs and resize_to_capacity units) *)
From ZV.Common Require Import Base Run.
From ZV.C19 Require Import Model ProofsBytes ProofsMv ProofsCrash ProofsHist ModelMvHist.
Open Scope N_scope.

(* a set_len in front of a sequence: the crash images are those of the sequence after it, those of the sequence
   without it (the set_len was never pinned), or the untouched disk *)
Lemma crash_cons_setlen d p n Y d' :
  crash d (FSetLen p n :: Y) d' -> d' = d \/ crash (apply d (FSetLen p n)) Y d' \/ crash d Y d'.
Proof.
  intros H.
  inversion H as [k|k o o' Hn Ht|j k o q Hjk Hn Hd Hp|j k q off data s e Hjk Hn Hp Hs He q0 dk]; subst.
  - destruct k as [|k]; [left; reflexivity|]. right; left. cbn [firstn]. unfold apply_all. cbn [fold_left].
    apply crash_prefix.
  - destruct k as [|k]; cbn [nth_error] in Hn; [injection Hn as <-; contradiction|].
    right; left. cbn [firstn]. unfold apply_all. cbn [fold_left]. eapply crash_torn; eassumption.
  - destruct j as [|j]; cbn [nth_error] in Hn.
    + right; right. cbn [firstn skipn]. unfold apply_all at 2. cbn [fold_left].
      replace (k - 0 - 1)%nat with (k - 1)%nat by lia. apply crash_prefix.
    + right; left. destruct k as [|k]; [lia|]. cbn [firstn skipn] in *. unfold apply_all at 2. cbn [fold_left].
      replace (S k - S j - 1)%nat with (k - j - 1)%nat in * by lia.
      apply (crash_drop (apply d (FSetLen p n)) Y j k o q); try assumption. lia.
  - destruct j as [|j]; cbn [nth_error] in Hn; [discriminate|].
    right; left. destruct k as [|k]; [lia|]. subst q0 dk. cbn [firstn skipn] in *.
    replace (S k - S j - 1)%nat with (k - j - 1)%nat in * by lia.
    unfold apply_all at 1 3. cbn [fold_left].
    apply (crash_block (apply d (FSetLen p n)) Y j k q off data s e); try assumption. lia.
Qed.

Lemma sync_ops_full d path tmp img : tmp <> path -> apply_all d (mv_sync_ops path tmp img) path = Some img.
Proof.
  intros Hne. unfold mv_sync_ops, apply_all. cbn [fold_left].
  set (d1 := apply d (FOpen tmp true true)).
  assert (E : d1 tmp = Some []) by apply s1_tmp.
  cbn [apply]. rewrite dset_same. rewrite dset_same. rewrite E.
  change (N.to_nat 0) with 0%nat. rewrite write_at_empty. reflexivity.
Qed.

Section Units.
  Variables (path tmp : N).
  Hypothesis Hne : tmp <> path.

  (* what the vector file can hold in a crash image of a history of units *)
  Definition hist_view (us : list unit) (d d' : disk) : Prop :=
    d' path = d path \/ exists u c, In u us /\ In c (unit_contents u) /\ d' path = Some c.
  Lemma units_crash_view : forall us d d', crash d (units_ops path tmp us) d' -> hist_view us d d'.
  Proof.
    (* the induction needs the conclusion for every start disk with the same vector file: only `d path` matters *)
    assert (Hgen : forall us d d', crash d (units_ops path tmp us) d' ->
              d' path = d path \/ exists u c, In u us /\ In c (unit_contents u) /\ d' path = Some c).
    { induction us as [|u us IH]; intros d d' H; unfold units_ops in H; cbn [flat_map] in H.
      - left. rewrite (crash_nil _ _ H). reflexivity.
      - fold (units_ops path tmp us) in H. destruct u as [img|a n b]; cbn [unit_ops] in H.
        + apply crash_app in H; [|apply sync_ops_sealed]. destruct H as [H|H].
          * destruct (mv_sync_atomic_core d path tmp img Hne d' H) as [E|E]; [left; exact E|].
            right. exists (USync img), img. split; [left; reflexivity|split; [left; reflexivity|exact E]].
          * destruct (IH _ _ H) as [E|(u0 & c0 & Hin & Hc0 & E)].
            -- right. exists (USync img), img. split; [left; reflexivity|split; [left; reflexivity|]].
               rewrite E. apply sync_ops_full. exact Hne.
            -- right. exists u0, c0. split; [right; exact Hin|split; assumption].
        + rewrite <- app_assoc in H. apply crash_app in H; [|apply sync_ops_sealed]. destruct H as [H|H].
          * destruct (mv_sync_atomic_core d path tmp a Hne d' H) as [E|E]; [left; exact E|].
            right. exists (UResize a n b), a. split; [left; reflexivity|split; [left; reflexivity|exact E]].
          * set (dA := apply_all d (mv_sync_ops path tmp a)) in *.
            assert (EA : dA path = Some a) by (apply sync_ops_full; exact Hne).
            cbn [app] in H. apply crash_cons_setlen in H. destruct H as [->|[H|H]].
            -- right. exists (UResize a n b), a. split; [left; reflexivity|split; [left; reflexivity|exact EA]].
            -- (* the set_len applied, then the second sync and the rest *)
               set (dS := apply dA (FSetLen path n)) in *.
               assert (ES : dS path = Some (resize a (N.to_nat n))) by (unfold dS; cbn [apply]; rewrite dset_same, EA; reflexivity).
               apply crash_app in H; [|apply sync_ops_sealed]. destruct H as [H|H].
               ++ destruct (mv_sync_atomic_core dS path tmp b Hne d' H) as [E|E].
                  ** right. exists (UResize a n b), (resize a (N.to_nat n)).
                     split; [left; reflexivity|split; [right; left; reflexivity|congruence]].
                  ** right. exists (UResize a n b), b. split; [left; reflexivity|split; [right; right; left; reflexivity|exact E]].
               ++ destruct (IH _ _ H) as [E|(u0 & c0 & Hin & Hc0 & E)].
                  ** right. exists (UResize a n b), b. split; [left; reflexivity|split; [right; right; left; reflexivity|]].
                     rewrite E. apply sync_ops_full. exact Hne.
                  ** right. exists u0, c0. split; [right; exact Hin|split; assumption].
            -- (* the set_len lost: the second sync and the rest on the disk after the first sync *)
               apply crash_app in H; [|apply sync_ops_sealed]. destruct H as [H|H].
               ++ destruct (mv_sync_atomic_core dA path tmp b Hne d' H) as [E|E].
                  ** right. exists (UResize a n b), a. split; [left; reflexivity|split; [left; reflexivity|congruence]].
                  ** right. exists (UResize a n b), b. split; [left; reflexivity|split; [right; right; left; reflexivity|exact E]].
               ++ destruct (IH _ _ H) as [E|(u0 & c0 & Hin & Hc0 & E)].
                  ** right. exists (UResize a n b), b. split; [left; reflexivity|split; [right; right; left; reflexivity|]].
                     rewrite E. apply sync_ops_full. exact Hne.
                  ** right. exists u0, c0. split; [right; exact Hin|split; assumption]. }
    exact Hgen.
  Qed.
End Units.

(* T: any history of syncs and resize_to_capacity units over well-formed states, interrupted anywhere (set_len lost or
   applied, any write torn, dropped or partly rolled back): the vector file reopens as an error or as the content of
   the state on disk before the history or of one of the states of the history - never as anything else *)
Lemma mv_units_crash_safe_proof es path tmp s0 (us : list munit) d d' :
  tmp <> path -> ms_wf es s0 -> Forall (munit_wf es) us ->
  d path = Some (ms_image es s0) ->
  crash d (units_ops path tmp (map (munit_unit es) us)) d' ->
  exists f, d' path = Some f /\
    (mv_open es f = None \/
     exists s, (s = s0 \/ exists u, In u us /\ In s (munit_states u)) /\ mv_open es f = Some (nlen (ms_content s), ms_content s)).
Proof.
  intros Hne Hw0 Hw Hd Hc.
  assert (Hopen : forall s, ms_wf es s -> mv_open es (ms_image es s) = Some (nlen (ms_content s), ms_content s)).
  { intros ((xs, cap), tail) Hs. apply mv_reopen_after_clean_sync_proof. exact Hs. }
  destruct (units_crash_view path tmp Hne _ _ _ Hc) as [E|(u & c & Hin & Hcin & E)].
  - exists (ms_image es s0). split; [congruence|]. right. exists s0. split; [left; reflexivity|apply Hopen; exact Hw0].
  - apply in_map_iff in Hin. destruct Hin as (mu & <- & Hmu).
    rewrite Forall_forall in Hw. specialize (Hw mu Hmu). unfold munit_wf in Hw. rewrite Forall_forall in Hw.
    exists c. split; [exact E|].
    destruct mu as [s|s1 n s2]; cbn [munit_unit unit_contents munit_states] in *.
    + destruct Hcin as [<-|[]]. right. exists s. split; [right; exists (MSync s); split; [exact Hmu|left; reflexivity]|].
      apply Hopen. apply Hw. left; reflexivity.
    + destruct Hcin as [<-|[<-|[<-|[]]]].
      * right. exists s1. split; [right; exists (MResize s1 n s2); split; [exact Hmu|left; reflexivity]|].
        apply Hopen. apply Hw. left; reflexivity.
      * assert (Hs1 : ms_wf es s1) by (apply Hw; left; reflexivity).
        destruct s1 as ((xs, cap), tail). cbn [ms_image ms_content].
        destruct (mv_set_len_safe_proof es xs cap tail (N.to_nat n) Hs1) as [E1|E1]; [left; exact E1|].
        right. exists (xs, cap, tail). split; [right; exists (MResize (xs, cap, tail) n s2); split; [exact Hmu|left; reflexivity]|exact E1].
      * right. exists s2. split; [right; exists (MResize s1 n s2); split; [exact Hmu|right; left; reflexivity]|].
        apply Hopen. apply Hw. right; left; reflexivity.
Qed.


(* ------------------------------------------------------------------ traced images are images of well-formed states *)
Lemma eqb_ln_true a : forall b, eqb_ln a b = true -> a = b.
Proof.
  induction a as [|x a IH]; intros [|y b] H; cbn [eqb_ln] in H; try discriminate; [reflexivity|].
  apply andb_prop in H. destruct H as (H1 & H2). apply N.eqb_eq in H1. subst y. f_equal. apply IH. exact H2.
Qed.
Lemma le_bytes_le_val bs : Forall (fun b => b < 256) bs -> le_bytes (length bs) (le_val bs) = bs.
Proof.
  induction bs as [|b t IH]; intros H; cbn [length le_bytes le_val]; [reflexivity|].
  inversion H as [|? ? Hb Ht]; subst. f_equal; [lia|].
  replace ((b + 256 * le_val t) / 256) with (le_val t) by lia. apply IH. exact Ht.
Qed.
Lemma le_val_bound bs : Forall (fun b => b < 256) bs -> le_val bs < 256 ^ N.of_nat (length bs).
Proof.
  induction bs as [|b t IH]; intros H; cbn [length le_val].
  - change (256 ^ N.of_nat 0) with 1. lia.
  - inversion H as [|? ? Hb Ht]; subst. rewrite pow256_S. specialize (IH Ht). lia.
Qed.
Lemma Forall_firstn' {A} (P : A -> Prop) l k : Forall P l -> Forall P (firstn k l).
Proof. revert k; induction l as [|x l IH]; intros [|k] H; cbn [firstn]; try constructor; inversion H; subst; auto. Qed.
Lemma Forall_skipn' {A} (P : A -> Prop) l k : Forall P l -> Forall P (skipn k l).
Proof. revert k; induction l as [|x l IH]; intros [|k] H; cbn [skipn]; try assumption; inversion H; subst; auto. Qed.

(* reading n elements of es bytes and writing them back gives the bytes read *)
Lemma data_of_read es n : forall data, Forall (fun b => b < 256) data -> (n * es <= length data)%nat ->
  mv_data_bytes es (read_elems es data n) = firstn (n * es) data
  /\ Forall (fun x => x < 256 ^ N.of_nat es) (read_elems es data n).
Proof.
  induction n as [|n IH]; intros data Hb Hl; cbn [read_elems mv_data_bytes flat_map].
  - split; [reflexivity|constructor].
  - assert (Hf : length (firstn es data) = es) by (rewrite firstn_length; lia).
    destruct (IH (skipn es data)) as (E1 & E2); [apply Forall_skipn'; exact Hb|rewrite skipn_length; lia|].
    split.
    + unfold mv_data_bytes in E1. rewrite E1.
      rewrite <- Hf at 1. rewrite le_bytes_le_val by (apply Forall_firstn'; exact Hb).
      replace (S n * es)%nat with (es + n * es)%nat by lia.
      rewrite <- (firstn_skipn es data) at 3. rewrite firstn_app, Hf.
      rewrite (firstn_all2 (firstn es data)) by lia. f_equal. f_equal. lia.
    + constructor; [|exact E2]. rewrite <- Hf at 2. apply le_val_bound. apply Forall_firstn'. exact Hb.
Qed.

Lemma img_okb_wf es img : img_okb es img = true ->
  exists xs cap tail, img = mv_image es xs cap tail /\ mv_wf es xs cap tail.
Proof.
  unfold img_okb. set (h := mv_parse img). intros H.
  apply andb_prop in H; destruct H as (H & H4). apply andb_prop in H; destruct H as (H & H3).
  apply andb_prop in H; destruct H as (H & H2). apply andb_prop in H; destruct H as (H & H1).
  apply andb_prop in H; destruct H as (Hes & H0).
  assert (Hes' : es = 1 \/ es = 2 \/ es = 4 \/ es = 8).
  { repeat (apply orb_prop in Hes; destruct Hes as [Hes|Hes]); apply N.eqb_eq in Hes; auto. }
  assert (Hb : Forall (fun b => b < 256) img).
  { apply Forall_forall. intros b Hin. unfold bytes_okb in H0. rewrite forallb_forall in H0. apply N.ltb_lt. apply H0. exact Hin. }
  apply eqb_ln_true in H1. apply N.leb_le in H2. apply N.ltb_lt in H3. apply N.eqb_eq in H4.
  set (len := h_len h) in *. set (cap := h_cap h) in *.
  set (body := skipn 80 img).
  assert (Himg : img = mv_header_bytes es len cap ++ body) by (rewrite <- H1; symmetry; apply firstn_skipn).
  assert (Lb : length body = N.to_nat (cap * es)).
  { unfold body. rewrite skipn_length. rewrite nlen_length in H4. unfold MV_HEADER in H4. lia. }
  assert (Hes0 : 0 < es) by (destruct Hes' as [-> | [-> | [-> | ->]]]; lia).
  destruct (data_of_read (N.to_nat es) (N.to_nat len) body) as (D1 & D2).
  { apply Forall_skipn'. exact Hb. }
  { rewrite Lb. nia. }
  exists (read_elems (N.to_nat es) body (N.to_nat len)), cap, (skipn (N.to_nat len * N.to_nat es) body).
  assert (Ln : nlen (read_elems (N.to_nat es) body (N.to_nat len)) = len)
    by (rewrite nlen_length, read_elems_length; lia).
  split.
  - unfold mv_image. rewrite Ln. rewrite D1. rewrite firstn_skipn. exact Himg.
  - unfold mv_wf. rewrite Ln. split; [exact Hes'|]. split; [rewrite N2Nat.id in D2; exact D2|].
    split; [exact H2|]. split; [|exact H3].
    rewrite nlen_length, skipn_length, Lb. nia.
Qed.

Lemma units_okb_wf es : forall us, forallb (unit_okb es) us = true ->
  exists mus, map (munit_unit es) mus = us /\ Forall (munit_wf es) mus /\
              (forall mu s, In mu mus -> In s (munit_states mu) -> In (ms_image es s) (flat_map unit_images us)).
Proof.
  induction us as [|u us IH]; intros H; cbn [forallb] in H.
  - exists []. split; [reflexivity|split; [constructor|intros mu s []]].
  - apply andb_prop in H. destruct H as (Hu & Hus). destruct (IH Hus) as (mus & E & W & I).
    destruct u as [img|a n b]; cbn [unit_okb] in Hu.
    + destruct (img_okb_wf es img Hu) as (xs & cap & tail & -> & Hw).
      exists (MSync (xs, cap, tail) :: mus). split; [cbn [map munit_unit ms_image]; rewrite E; reflexivity|]. split.
      * constructor; [|exact W]. unfold munit_wf. cbn [munit_states]. constructor; [exact Hw|constructor].
      * intros mu s [<-|Hin] Hs; cbn [flat_map unit_images].
        -- destruct Hs as [<-|[]]. left. reflexivity.
        -- apply in_or_app. right. eapply I; eassumption.
    + apply andb_prop in Hu. destruct Hu as (Ha & Hb).
      destruct (img_okb_wf es a Ha) as (xs & cap & tail & -> & Hw).
      destruct (img_okb_wf es b Hb) as (xs2 & cap2 & tail2 & -> & Hw2).
      exists (MResize (xs, cap, tail) n (xs2, cap2, tail2) :: mus).
      split; [cbn [map munit_unit ms_image]; rewrite E; reflexivity|]. split.
      * constructor; [|exact W]. unfold munit_wf. cbn [munit_states]. constructor; [exact Hw|constructor; [exact Hw2|constructor]].
      * intros mu s [<-|Hin] Hs; cbn [flat_map unit_images].
        -- destruct Hs as [<-|[<-|[]]]; [left; reflexivity|right; left; reflexivity].
        -- apply in_or_app. right. eapply I; eassumption.
Qed.

(* T: for a traced history - the image on disk before it and every image it syncs pass the decidable check the harness
   runs on the real trace - every crash image reopens as an error or exactly as one of those images reopens *)
Lemma mv_traced_history_crash_safe_proof es path tmp img0 us d d' :
  tmp <> path -> img_okb es img0 = true -> forallb (unit_okb es) us = true ->
  d path = Some img0 -> crash d (units_ops path tmp us) d' ->
  exists f, d' path = Some f /\
    (mv_open es f = None \/
     exists img, In img (img0 :: flat_map unit_images us) /\ mv_open es f = mv_open es img /\ mv_open es img <> None).
Proof.
  intros Hne H0 Hus Hd Hc.
  destruct (img_okb_wf es img0 H0) as (xs & cap & tail & -> & Hw0).
  destruct (units_okb_wf es us Hus) as (mus & <- & W & I).
  destruct (mv_units_crash_safe_proof es path tmp (xs, cap, tail) mus d d' Hne Hw0 W Hd Hc) as (f & Ef & [En|(s & Hs & Eo)]).
  - exists f. split; [exact Ef|left; exact En].
  - exists f. split; [exact Ef|right].
    assert (Hopen : forall s', ms_wf es s' -> mv_open es (ms_image es s') = Some (nlen (ms_content s'), ms_content s')).
    { intros ((xs', cap'), tail') Hs'. apply mv_reopen_after_clean_sync_proof. exact Hs'. }
    destruct Hs as [->|(mu & Hmu & Hin)].
    + exists (mv_image es xs cap tail). split; [left; reflexivity|].
      pose proof (Hopen (xs, cap, tail) Hw0) as Ho. cbn [ms_image ms_content] in Ho, Eo. rewrite Ho.
      split; [exact Eo|discriminate].
    + exists (ms_image es s). split; [right; eapply I; eassumption|].
      rewrite Forall_forall in W. specialize (W mu Hmu). unfold munit_wf in W. rewrite Forall_forall in W.
      rewrite (Hopen s (W s Hin)). split; [exact Eo|discriminate].
Qed.

Example parse_units_example :
  parse_units (units_ops 1 2 [USync [1; 2]; UResize [3] 5 [3; 0; 0; 0; 0]; USync []])
  = Some [USync [1; 2]; UResize [3] 5 [3; 0; 0; 0; 0]; USync []].
Proof. vm_compute. reflexivity. Qed.
