(* C19: every operation of MmapVec keeps the header invariant; synced images of reachable states reopen *)
From ZV.Common Require Import Base Run.
From ZV.C19 Require Import Model ProofsBytes ProofsMv ModelMvOps.
Open Scope N_scope.

Lemma Forall_firstn_mv {A} (P : A -> Prop) l k : Forall P l -> Forall P (firstn k l).
Proof. revert k; induction l as [|x l IH]; intros [|k] H; cbn [firstn]; try constructor; inversion H; subst; auto. Qed.

Section Inv.
  Variable gf : N -> N.
  Variable es : N.
  Variable sow : bool.
  Variable P : N -> Prop.                   (* a predicate on element values carried along (e.g. "fits the type") *)

  (* invariant + element values in range *)
  Definition st_ok (s : mvs) : Prop := st_inv es s /\ Forall P (s_xs s).

  Lemma sync_ok s : st_ok s -> st_ok (st_sync es s).
  Proof.
    intros ((H1 & H2 & H3) & Hv). unfold st_ok, st_inv, st_sync, file_size. cbn [s_xs s_cap s_flen].
    repeat split; try assumption; lia.
  Qed.
  Lemma sow_ok s : st_ok s -> st_ok (st_sow es sow s).
  Proof. intros H. unfold st_sow. destruct sow; [apply sync_ok|]; exact H. Qed.
  Lemma set_xs_ok s xs : st_ok s -> nlen xs <= s_cap s -> Forall P xs -> st_ok (st_set_xs s xs).
  Proof.
    intros ((H1 & H2 & H3) & Hv) Hl Hx. unfold st_ok, st_inv, st_set_xs. cbn [s_xs s_cap s_flen].
    repeat split; assumption.
  Qed.

  (* resize_to_capacity to a capacity that holds the elements: the elements are kept *)
  Lemma resize_cap_ok s new s' :
    st_ok s -> nlen (s_xs s) <= new -> st_resize_cap es s new = Some s' ->
    st_ok s' /\ s_xs s' = s_xs s /\ s_cap s' = new.
  Proof.
    intros ((H1 & H2 & H3) & Hv) Hn H. unfold st_resize_cap in H.
    destruct (N.leb_spec W64 (file_size es new)) as [|Hsz]; [discriminate|].
    replace (nlen (s_xs s) <=? N.min (s_cap s) new) with true in H by (symmetry; apply N.leb_le; lia).
    injection H as <-. unfold st_ok, st_inv, file_size in *. cbn [s_xs s_cap s_flen].
    repeat split; try assumption; lia.
  Qed.
  Lemma reserve_ok s n s' :
    st_ok s -> st_reserve gf es s n = Some s' ->
    st_ok s' /\ s_xs s' = s_xs s /\ nlen (s_xs s) + n <= s_cap s'.
  Proof.
    intros Hs H. unfold st_reserve in H.
    destruct (N.leb_spec W64 (nlen (s_xs s) + n)) as [|Hr]; [discriminate|].
    destruct (N.ltb_spec (s_cap s) (nlen (s_xs s) + n)) as [Hc|Hc].
    - eapply resize_cap_ok in H; [|exact Hs|pose proof (N.le_max_l (nlen (s_xs s) + n) (gf (s_cap s))); lia]. destruct H as (Hok & Hx & Hcap).
      split; [exact Hok|split; [exact Hx|rewrite Hcap; apply N.le_max_l]].
    - injection H as <-. split; [exact Hs|split; [reflexivity|exact Hc]].
  Qed.
  Lemma push_ok s v s' : st_ok s -> P v -> st_push gf es sow s v = Some s' ->
    st_ok s' /\ s_xs s' = s_xs s ++ [v].
  Proof.
    intros Hs Hv H. unfold st_push in H.
    destruct (N.leb_spec (s_cap s) (nlen (s_xs s))) as [Hfull|Hroom].
    - destruct (st_grow gf es s) as [s1|] eqn:G; [|discriminate]. unfold st_grow in G.
      destruct Hs as (Hi & Hvs). pose proof Hi as (H1 & _).
      eapply resize_cap_ok in G; [|exact (conj Hi Hvs)|pose proof (N.le_max_r (gf (s_cap s)) (s_cap s + 1)); lia]. destruct G as (Hok & Hx & Hcap).
      injection H as <-. split.
      + apply sow_ok. apply set_xs_ok; [exact Hok| |].
        * rewrite Hx, nlen_app, Hcap. cbn [nlen]. pose proof (N.le_max_r (gf (s_cap s)) (s_cap s + 1)). lia.
        * rewrite Hx. apply Forall_app. split; [exact Hvs|constructor; [exact Hv|constructor]].
      + rewrite Hx. unfold st_sow, st_sync, st_set_xs. destruct sow; reflexivity.
    - injection H as <-. split.
      + apply sow_ok. apply set_xs_ok; [exact Hs| |].
        * rewrite nlen_app. cbn [nlen]. lia.
        * apply Forall_app. split; [apply Hs|constructor; [exact Hv|constructor]].
      + unfold st_sow, st_sync, st_set_xs. destruct sow; reflexivity.
  Qed.
  Lemma push_all_ok vs : forall s s', st_ok s -> Forall P vs -> st_push_all gf es sow s vs = Some s' ->
    st_ok s' /\ s_xs s' = s_xs s ++ vs.
  Proof.
    induction vs as [|v vs IH]; intros s s' Hs Hv H; cbn [st_push_all] in H.
    - injection H as <-. split; [exact Hs|]. rewrite app_nil_r. reflexivity.
    - inversion Hv as [|? ? Hv1 Hv2]; subst.
      destruct (st_push gf es sow s v) as [s1|] eqn:E; [|discriminate].
      destruct (push_ok s v s1 Hs Hv1 E) as (Hok & Hx).
      destruct (IH s1 s' Hok Hv2 H) as (Hok' & Hx'). split; [exact Hok'|]. rewrite Hx', Hx, <- app_assoc. reflexivity.
  Qed.
  Lemma truncate_ok s n : st_ok s -> st_ok (st_truncate es sow s n).
  Proof.
    intros Hs. unfold st_truncate. destruct (n <? nlen (s_xs s)); [|exact Hs].
    apply sow_ok. apply set_xs_ok; [exact Hs| |].
    - destruct Hs as ((H1 & _) & _). rewrite nlen_length in *. rewrite firstn_length. lia.
    - apply Forall_firstn_mv. apply Hs.
  Qed.
  Lemma set_nth_P xs : forall i v, Forall P xs -> P v -> Forall P (set_nth xs i v).
  Proof.
    induction xs as [|x xs IH]; intros i v H Hv; cbn [set_nth]; [constructor|].
    inversion H; subst. destruct i; constructor; auto.
  Qed.
  Lemma set_nth_length xs : forall i v, length (set_nth xs i v) = length xs.
  Proof. induction xs as [|x xs IH]; intros i v; cbn [set_nth]; [reflexivity|]. destruct i; cbn [length]; auto. Qed.
  Lemma fill_P n v : P v -> Forall P (fill n v).
  Proof. intros H. induction n; cbn [fill]; constructor; auto. Qed.
  Lemma fill_length n v : length (fill n v) = n.
  Proof. induction n; cbn [fill length]; auto. Qed.
  Lemma removelast_P xs : Forall P xs -> Forall P (removelast xs).
  Proof.
    induction xs as [|x xs IH]; intros H; cbn [removelast]; [constructor|]. inversion H; subst.
    destruct xs; [constructor|]. constructor; auto.
  Qed.
  Lemma removelast_len {A} (xs : list A) : (length (removelast xs) <= length xs)%nat.
  Proof. induction xs as [|x xs IH]; cbn [removelast length]; [lia|]. destruct xs; cbn [length] in *; lia. Qed.

  (* T: one operation keeps the header invariant (and the element range) *)
  Lemma step_ok s o s' : st_ok s -> op_vals P o -> st_step gf es sow s o = Some s' -> st_ok s'.
  Proof.
    intros Hs Hv H. destruct o; cbn [st_step op_vals] in *.
    - exact (proj1 (push_ok s v s' Hs Hv H)).
    - destruct (s_xs s) eqn:E; injection H as <-; [exact Hs|].
      change (match l with [] => [] | _ :: _ => n :: removelast l end) with (removelast (n :: l)). rewrite <- E.
      apply sow_ok. apply set_xs_ok; [exact Hs| |apply removelast_P; apply Hs].
      destruct Hs as ((H1 & _) & _). rewrite nlen_length in *. pose proof (removelast_len (s_xs s)). lia.
    - destruct (i <? nlen (s_xs s)); injection H as <-; [|exact Hs].
      apply set_xs_ok; [exact Hs| |apply set_nth_P; [apply Hs|exact Hv]].
      rewrite nlen_length, set_nth_length, <- nlen_length. apply Hs.
    - injection H as <-. apply truncate_ok. exact Hs.
    - injection H as <-. apply sow_ok. apply set_xs_ok; [exact Hs|cbn [nlen]; lia|constructor].
    - exact (proj1 (reserve_ok s n s' Hs H)).
    - destruct (N.ltb_spec (nlen (s_xs s)) (s_cap s)); [|injection H as <-; exact Hs].
      eapply resize_cap_ok in H; [|exact Hs|apply N.le_max_l]. exact (proj1 H).
    - destruct (N.ltb_spec (nlen (s_xs s)) n) as [Hlt|Hge].
      + destruct (st_reserve gf es s (n - nlen (s_xs s))) as [s1|] eqn:E; [|discriminate].
        destruct (reserve_ok s _ s1 Hs E) as (Hok & Hx & Hcap). injection H as <-.
        apply sow_ok. apply set_xs_ok; [exact Hok| |].
        * rewrite Hx, nlen_app. rewrite (nlen_length (fill _ _)), fill_length. rewrite nlen_length in *. lia.
        * apply Forall_app. split; [apply Hok|apply fill_P; exact Hv].
      + injection H as <-. apply sow_ok. apply truncate_ok. exact Hs.
    - destruct (0 <? hint).
      + destruct (st_reserve gf es s hint) as [s1|] eqn:E; [|discriminate].
        destruct (reserve_ok s _ s1 Hs E) as (Hok & _). exact (proj1 (push_all_ok vs s1 s' Hok Hv H)).
      + exact (proj1 (push_all_ok vs s s' Hs Hv H)).
    - destruct vs as [|b vs]; [injection H as <-; exact Hs|]. set (ws := b :: vs) in *.
      destruct (N.ltb_spec (s_cap s) (nlen (s_xs s) + nlen ws)) as [Hlt|Hge].
      + destruct (st_reserve gf es s (nlen ws)) as [s1|] eqn:E; [|discriminate].
        destruct (reserve_ok s _ s1 Hs E) as (Hok & Hx & Hcap). injection H as <-.
        apply sow_ok. apply set_xs_ok; [exact Hok| |].
        * rewrite Hx, nlen_app. exact Hcap.
        * apply Forall_app. split; [apply Hok|exact Hv].
      + injection H as <-. apply sow_ok. apply set_xs_ok; [exact Hs| |].
        * rewrite nlen_app. exact Hge.
        * apply Forall_app. split; [apply Hs|exact Hv].
    - destruct vs as [|b vs]; [injection H as <-; apply sow_ok; apply set_xs_ok; [exact Hs|cbn [nlen]; lia|constructor]|].
      set (ws := b :: vs) in *.
      destruct (N.ltb_spec (s_cap s) (nlen ws)) as [Hlt|Hge].
      + destruct (N.ltb_spec (nlen ws) (nlen (s_xs s))) as [|Hle]; [discriminate|].
        destruct (st_reserve gf es s (nlen ws - nlen (s_xs s))) as [s1|] eqn:E; [|discriminate].
        destruct (reserve_ok s _ s1 Hs E) as (Hok & Hx & Hcap). injection H as <-.
        apply sow_ok. apply set_xs_ok; [exact Hok|lia|exact Hv].
      + injection H as <-. apply sow_ok. apply set_xs_ok; [exact Hs|exact Hge|exact Hv].
    - injection H as <-. apply sync_ok. exact Hs.
    - destruct (_ && _); [|discriminate]. injection H as <-. apply sync_ok. exact Hs.
  Qed.

  Lemma run_ok ops : forall s s', st_ok s -> Forall (op_vals P) ops -> st_run gf es sow s ops = Some s' -> st_ok s'.
  Proof.
    induction ops as [|o ops IH]; intros s s' Hs Hv H; cbn [st_run] in H.
    - injection H as <-. exact Hs.
    - inversion Hv as [|? ? Hv1 Hv2]; subst. destruct (st_step gf es sow s o) as [s1|] eqn:E; [|discriminate].
      apply (IH s1 s' (step_ok s o s1 Hs Hv1 E) Hv2 H).
  Qed.
End Inv.

Lemma op_vals_true o : op_vals (fun _ => True) o.
Proof. destruct o; cbn [op_vals]; try exact I; apply Forall_forall; intros; exact I. Qed.

(* T: every operation history keeps  length <= capacity /\ 80 + capacity*es <= file_len  (from any state that has it:
   a created vector, an opened one) *)
Lemma mv_ops_preserve_header_inv_proof gf es sow s ops s' :
  st_inv es s -> st_run gf es sow s ops = Some s' -> st_inv es s'.
Proof.
  intros Hi H.
  assert (Hok : st_ok es (fun _ => True) s) by (split; [exact Hi|apply Forall_forall; intros; exact I]).
  apply (run_ok gf es sow (fun _ => True) ops s s' Hok); [|exact H].
  apply Forall_forall. intros o _. apply op_vals_true.
Qed.
Lemma st_create_inv es ic : MV_HEADER + ic * es < W64 -> st_inv es (st_create es ic).
Proof. intros H. unfold st_inv, st_create. cbn [s_xs s_cap s_flen nlen]. repeat split; lia. Qed.

(* T: hence every image sync() writes in a reachable state satisfies the hypotheses of mv_reopen_after_clean_sync:
   whatever the unused capacity holds, the file reopens as exactly the elements *)
Lemma mv_ops_sync_reopens_proof gf es sow ic ops s tail :
  (es = 1 \/ es = 2 \/ es = 4 \/ es = 8) -> MV_HEADER + ic * es < W64 -> Forall (op_vals_ok es) ops ->
  st_run gf es sow (st_create es ic) ops = Some s ->
  nlen tail = (s_cap s - nlen (s_xs s)) * es ->
  mv_open es (mv_image es (s_xs s) (s_cap s) tail) = Some (nlen (s_xs s), s_xs s).
Proof.
  intros Hes Hic Hv H Ht.
  assert (Hok : st_ok es (fun x => x < 256 ^ es) (st_create es ic)) by (split; [apply st_create_inv; exact Hic|constructor]).
  destruct (run_ok gf es sow _ ops _ s Hok Hv H) as ((H1 & H2 & H3) & Hx).
  apply mv_reopen_after_clean_sync_proof. unfold mv_wf. repeat split; assumption.
Qed.

(* R: the seeded regression of copy_from_simd (reserve(other.len() - capacity())): a destination that is not full
   (capacity 8, 3 elements, growth 1.618) copied from 14 elements ends with length 14 > capacity 12; the synced file
   is refused on reopen, and a push loses the elements beyond the capacity (they come back as 0) *)
Definition gf_1618 (c : N) : N := c * 1618 / 1000.
Definition bad_start : mvs := {| s_xs := [1; 2; 3]; s_cap := 8; s_flen := 144 |}.
Definition bad_src : list N := [11; 12; 13; 14; 15; 16; 17; 18; 19; 20; 21; 22; 23; 24].
Lemma mv_copy_from_underreserve_refuted_proof :
  st_inv 8 bad_start /\
  exists s, st_copy_from_bad gf_1618 8 false bad_start bad_src = Some s /\
    s_cap s < nlen (s_xs s) /\ ~ st_inv 8 s /\
    st_step gf_1618 8 false s OReopen = None /\
    (exists s2, st_step gf_1618 8 false s (OPush 7) = Some s2 /\ s_xs s2 = firstn 12 bad_src ++ [0; 0; 7]) /\
    (exists s3, st_step gf_1618 8 false bad_start (OCopyFrom bad_src) = Some s3 /\ st_inv 8 s3 /\ s_xs s3 = bad_src).
Proof.
  split; [unfold st_inv, bad_start; cbn [s_xs s_cap s_flen nlen]; unfold MV_HEADER, W64; repeat split; lia|].
  eexists. split; [vm_compute; reflexivity|].
  split; [vm_compute; reflexivity|].
  split; [intros (H & _); vm_compute in H; apply H; reflexivity|].
  split; [vm_compute; reflexivity|].
  split; [eexists; split; vm_compute; reflexivity|].
  eexists. split; [vm_compute; reflexivity|]. split; [|vm_compute; reflexivity].
  unfold st_inv. cbn [s_xs s_cap s_flen]. vm_compute. repeat split; intros; discriminate.
Qed.

Example mv_ops_example :
  st_run gf_1618 8 false (st_create 8 2) [OPush 5; OPush 6; OPush 7; OPop; OReserve 10; OShrink; OSync; OReopen]
  = Some {| s_xs := [5; 6]; s_cap := 2; s_flen := 96 |}.
Proof. vm_compute. reflexivity. Qed.
