(* C19: a finished ZReorderMap file cut short at any byte is refused by open *)
From ZV.Common Require Import Base Run.
From ZV.C19 Require Import Model ProofsBytes ProofsRo.
Open Scope N_scope.

(* a strict prefix of a var_uint never terminates: every byte before the last has the continuation bit *)
Lemma read_var_cut : forall f v fuel j shift acc,
  (j < length (var_bytes f v))%nat -> read_var fuel (firstn j (var_bytes f v)) shift acc = None.
Proof.
  induction f as [|f IH]; intros v fuel j shift acc Hj.
  - cbn [var_bytes length] in Hj. lia.
  - destruct fuel as [|fuel]; [reflexivity|].
    change (var_bytes (S f) v) with (if v <? 128 then [v] else (v mod 128 + 128) :: var_bytes f (v / 128)) in *.
    destruct (N.ltb_spec v 128) as [Hlt|Hge].
    + cbn [length] in Hj. replace j with 0%nat by lia. reflexivity.
    + destruct j as [|j]; [reflexivity|].
      cbn [firstn read_var]. cbv zeta.
      destruct (64 <=? shift); [reflexivity|].
      assert (Hr : v mod 128 < 128) by (apply N.mod_lt; discriminate).
      replace (v mod 128 + 128 <? 128) with false by (symmetry; apply N.ltb_ge; lia).
      apply IH. cbn [length] in Hj. lia.
Qed.

Lemma read_entry_short d : (length d < 5)%nat -> read_entry d = None.
Proof.
  intros H. unfold read_entry. replace (nlen d <? 5) with true; [reflexivity|].
  symmetry. apply N.ltb_lt. rewrite nlen_length. lia.
Qed.

(* a record cut anywhere inside is unreadable *)
Lemma read_entry_cut r j : run_ok r -> (j < length (rec_bytes r))%nat -> read_entry (firstn j (rec_bytes r)) = None.
Proof.
  intros Hr Hj. destruct (Nat.lt_ge_cases j 5) as [H5|H5].
  - apply read_entry_short. rewrite firstn_length. lia.
  - destruct r as (b, l). destruct Hr as (Hb & Hl1 & Hl). cbn [fst snd] in *. unfold V39 in Hb.
    unfold rec_bytes in *. destruct (N.eqb_spec l 1) as [->|Hne].
    + rewrite le_bytes_length in Hj. lia.
    + rewrite app_length, le_bytes_length in Hj.
      rewrite firstn_app, le_bytes_length.
      rewrite (firstn_all2 (le_bytes 5 (2 * b))) by (rewrite le_bytes_length; lia).
      unfold read_entry.
      replace (nlen (le_bytes 5 (2 * b) ++ firstn (j - 5) (var_bytes 10 l)) <? 5) with false
        by (symmetry; apply N.ltb_ge; rewrite nlen_length, app_length, le_bytes_length; lia).
      rewrite (firstn_app_exact _ _ 5%nat (le_bytes_length 5 _)).
      rewrite (skipn_app_exact _ _ 5%nat (le_bytes_length 5 _)).
      rewrite le_val_le_bytes by (change (256 ^ N.of_nat 5) with 1099511627776; lia).
      replace ((2 * b) mod 2 =? 1) with false by (symmetry; apply N.eqb_neq; lia).
      rewrite read_var_cut by lia. reflexivity.
Qed.

Lemma read_runs_cut : forall rs fuel size covered j,
  Forall run_ok rs -> covered + run_sum rs = size -> size < W63 ->
  (j < length (flat_map rec_bytes rs))%nat ->
  read_runs fuel (firstn j (flat_map rec_bytes rs)) size covered = None.
Proof.
  induction rs as [|r t IH]; intros fuel size covered j Hok Hsum Hsz Hj.
  - cbn [flat_map length] in Hj. lia.
  - destruct fuel as [|fuel]; [reflexivity|].
    assert (Hr : run_ok r) by (inversion Hok; assumption).
    assert (Ht : Forall run_ok t) by (inversion Hok; assumption).
    cbn [flat_map] in *. rewrite app_length in Hj.
    cbn [read_runs]. rewrite firstn_app.
    destruct (Nat.lt_ge_cases j (length (rec_bytes r))) as [Hin|Hout].
    + (* the cut falls inside this record *)
      replace (j - length (rec_bytes r))%nat with 0%nat by lia. cbn [firstn]. rewrite app_nil_r.
      rewrite read_entry_cut by assumption. reflexivity.
    + rewrite firstn_all2 by lia.
      rewrite read_entry_rec by exact Hr.
      destruct r as (b, l). cbn [fst snd run_sum] in *. destruct Hr as (Hb & Hl1 & Hl). cbn [fst snd] in *.
      replace (l =? 0) with false by (symmetry; apply N.eqb_neq; lia).
      unfold W63 in *.
      replace (W64 <=? covered + l) with false by (symmetry; apply N.leb_gt; unfold W64; lia).
      destruct t as [|r2 t2]; [cbn [flat_map length] in Hj; lia|].
      assert (H1 : 1 <= run_sum (r2 :: t2)) by (apply run_sum_pos; [discriminate|exact Ht]).
      replace (size <=? covered + l) with false by (symmetry; apply N.leb_gt; lia).
      rewrite (IH fuel size (covered + l)); [reflexivity|exact Ht|lia|exact Hsz|lia].
Qed.

Lemma ro_truncated_refused_proof vs neg k :
  Forall (fun v => v < V39) vs -> nlen vs <= RO_MAXSIZE ->
  (k < length (ro_encode vs neg))%nat -> ro_decode (firstn k (ro_encode vs neg)) = None.
Proof.
  intros Hvs Hn Hk.
  destruct (group_spec neg vs None Hvs I) as (Hok & Hexp & Hsum & Hnil). cbn zeta in *.
  cbn [cur_values cur_len app] in *.
  set (rs := group neg vs None) in *.
  unfold ro_decode, ro_parse.
  assert (Hnl : nlen (firstn k (ro_encode vs neg)) = N.of_nat k) by (apply nlen_firstn; lia).
  rewrite Hnl.
  destruct (Nat.lt_ge_cases k 16) as [Hs|Hs].
  - replace (N.of_nat k <? 16) with true by (symmetry; apply N.ltb_lt; lia). reflexivity.
  - replace (N.of_nat k <? 16) with false by (symmetry; apply N.ltb_ge; lia).
    unfold ro_encode in *. fold rs in Hk |- *.
    set (body := flat_map rec_bytes rs) in *.
    set (sign := if neg then MINUS1 else 1) in *.
    set (hdr := le_bytes 8 (nlen vs) ++ le_bytes 8 sign).
    assert (Hh : length hdr = 16%nat) by (unfold hdr; rewrite app_length, !le_bytes_length; reflexivity).
    assert (Hf : le_bytes 8 (nlen vs) ++ le_bytes 8 sign ++ body = hdr ++ body) by (unfold hdr; rewrite app_assoc; reflexivity).
    rewrite Hf in *. rewrite app_length, Hh in Hk.
    assert (Hcut : firstn k (hdr ++ body) = hdr ++ firstn (k - 16) body).
    { rewrite firstn_app, Hh. rewrite firstn_all2 by lia. reflexivity. }
    rewrite Hcut.
    assert (H8 : firstn 8 (hdr ++ firstn (k - 16) body) = le_bytes 8 (nlen vs)).
    { unfold hdr. rewrite <- app_assoc. apply firstn_app_exact. apply le_bytes_length. }
    assert (H16 : firstn 8 (skipn 8 (hdr ++ firstn (k - 16) body)) = le_bytes 8 sign).
    { unfold hdr. rewrite <- app_assoc. rewrite (skipn_app_exact _ _ 8%nat (le_bytes_length 8 _)).
      apply firstn_app_exact. apply le_bytes_length. }
    rewrite H8, H16.
    unfold RO_MAXSIZE in *.
    rewrite le_val_le_bytes by (change (256 ^ N.of_nat 8) with W64; unfold W64; lia).
    rewrite le_val_le_bytes by (change (256 ^ N.of_nat 8) with W64; unfold sign, MINUS1, W64; destruct neg; lia).
    replace (184467440737095516 <? nlen vs) with false by (symmetry; apply N.ltb_ge; exact Hn).
    assert (Hsg : negb ((sign =? 1) || (sign =? MINUS1)) = false) by (unfold sign; destruct neg; reflexivity).
    rewrite Hsg.
    destruct vs as [|v0 t].
    + exfalso. assert (rs = []) by reflexivity. unfold body in Hk. rewrite H in Hk. cbn [flat_map length] in Hk. lia.
    + replace (nlen (v0 :: t) =? 0) with false by (symmetry; apply N.eqb_neq; cbn [nlen]; lia).
      rewrite (skipn_app_exact _ _ 16%nat Hh).
      unfold body. rewrite read_runs_cut; [reflexivity|exact Hok|rewrite Hsum; lia|unfold W63; lia|fold body; lia].
Qed.
