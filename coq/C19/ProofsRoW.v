(* C19: the writes ZReorderMapBuilder issues concatenate to ro_encode; MemoryMappedOutput -> MemoryMappedInput *)
From ZV.Common Require Import Base Run.
From ZV.C19 Require Import Model ProofsBytes ProofsMv ProofsCrash ProofsHist ModelZo ProofsReplace ModelRoW.
Open Scope N_scope.

Lemma ro_chunks_concat recs : forall buf, concat (ro_chunks recs buf) = buf ++ concat recs.
Proof.
  induction recs as [|r recs IH]; intros buf; cbn [ro_chunks concat].
  - destruct buf; cbn [concat]; rewrite ?app_nil_r; reflexivity.
  - destruct (4096 <=? nlen (buf ++ r)); cbn [concat]; rewrite IH; [|rewrite <- app_assoc; reflexivity].
    cbn [app]. rewrite <- app_assoc. reflexivity.
Qed.
Lemma flat_map_concat {A B} (f : A -> list B) l : flat_map f l = concat (map f l).
Proof. induction l as [|x l IH]; cbn [flat_map map concat]; [reflexivity|]. now rewrite IH. Qed.

(* T: however many intermediate flushes happen, the bytes handed to the file are exactly the encoding *)
Lemma ro_builder_writes_concat_proof vs neg : concat (ro_builder_writes vs neg) = ro_encode vs neg.
Proof.
  unfold ro_builder_writes, ro_encode, ro_header. cbn [concat]. rewrite ro_chunks_concat. cbn [app].
  rewrite <- app_assoc. rewrite flat_map_concat. reflexivity.
Qed.

(* every write but the header and the last holds at least 4096 bytes and fewer than 4096 + one record *)
Lemma ro_chunks_sizes recs : forall buf, nlen buf < 4096 ->
  forall w rest, ro_chunks recs buf = w :: rest -> rest <> [] -> 4096 <= nlen w.
Proof.
  induction recs as [|r recs IH]; intros buf Hb w rest H Hr; cbn [ro_chunks] in H.
  - destruct buf; [discriminate|]. injection H as <- <-. contradiction.
  - destruct (N.leb_spec 4096 (nlen (buf ++ r))) as [Hge|Hlt].
    + injection H as <- <-. exact Hge.
    + eapply IH; eassumption.
Qed.

(* T: every crash image of a build leaves the map file as it was or holding the complete encoding *)
Lemma ro_build_crash_safe_proof d path tmp vs neg d' :
  tmp <> path -> crash d (ro_build_ops path tmp vs neg) d' ->
  d' path = d path \/ d' path = Some (ro_encode vs neg).
Proof.
  intros Hne Hc. unfold ro_build_ops in Hc.
  destruct (replace_multi_crash_safe_proof d path tmp _ d' Hne Hc path) as [E|(_ & E)].
  - intros E; apply Hne; symmetry; exact E.
  - left; exact E.
  - right. rewrite E, ro_builder_writes_concat_proof. reflexivity.
Qed.

(* R: the seeded regression (whole 4 KiB blocks only, then clear) loses bytes: 820 single-value records *)
Definition ro_many : list N := map (fun i => 1000 * N.of_nat i + 7) (seq 0 820).
Lemma ro_builder_whole_blocks_refuted_proof :
  concat (ro_builder_writes_bad ro_many false) <> ro_encode ro_many false /\
  nlen (concat (ro_builder_writes_bad ro_many false)) = 4112 /\ nlen (ro_encode ro_many false) = 4116 /\
  ro_decode (concat (ro_builder_writes_bad ro_many false)) = None /\
  concat (ro_builder_writes ro_many false) = ro_encode ro_many false.
Proof.
  assert (E1 : nlen (concat (ro_builder_writes_bad ro_many false)) = 4112) by (vm_compute; reflexivity).
  assert (E2 : nlen (ro_encode ro_many false) = 4116) by (vm_compute; reflexivity).
  split; [intros E; apply (f_equal nlen) in E; rewrite E1, E2 in E; discriminate E|].
  split; [exact E1|]. split; [exact E2|]. split; [vm_compute; reflexivity|apply ro_builder_writes_concat_proof].
Qed.

(* ------------------------------------------------------------------ MemoryMappedOutput *)
Lemma resize_length f n : length (resize f n) = n.
Proof. unfold resize. rewrite app_length, firstn_length, zeros_length. lia. Qed.
Lemma write_at_length f off data : length (write_at f off data) = Nat.max (length f) (off + length data).
Proof.
  unfold write_at. set (n := Nat.max (length f) (off + length data)).
  rewrite !app_length, firstn_length, skipn_length, resize_length. lia.
Qed.
Lemma firstn_resize f n k : (k <= length f)%nat -> (k <= n)%nat -> firstn k (resize f n) = firstn k f.
Proof.
  intros H1 H2. unfold resize. rewrite firstn_app, firstn_firstn, firstn_length.
  replace (Nat.min k n) with k by lia. replace (k - Nat.min n (length f))%nat with 0%nat by lia.
  cbn [firstn]. apply app_nil_r.
Qed.
Lemma write_at_prefix f off data : (off <= length f)%nat ->
  firstn (off + length data) (write_at f off data) = firstn off f ++ data.
Proof.
  intros H. unfold write_at. set (n := Nat.max (length f) (off + length data)).
  rewrite firstn_resize by lia.
  rewrite firstn_app, firstn_length. replace (Nat.min off (length f)) with off by lia.
  rewrite (firstn_all2 (firstn off f)) by (rewrite firstn_length; lia).
  replace (off + length data - off)%nat with (length data) by lia.
  rewrite firstn_app, firstn_all, Nat.sub_diag. cbn [firstn]. rewrite app_nil_r. reflexivity.
Qed.

Lemma mo_ensure_inv s r : mo_inv s -> mo_inv (mo_ensure s r) /\ r <= o_cap (mo_ensure s r) /\ o_pos (mo_ensure s r) = o_pos s
  /\ firstn (N.to_nat (o_pos s)) (o_file (mo_ensure s r)) = firstn (N.to_nat (o_pos s)) (o_file s).
Proof.
  intros (H1 & H2). unfold mo_ensure. destruct (N.leb_spec r (o_cap s)) as [Hle|Hgt].
  - repeat split; assumption.
  - cbn [o_file o_pos o_cap]. pose proof (N.le_max_l r (o_cap s + o_cap s / 2)) as Hm.
    unfold mo_inv. cbn [o_file o_pos o_cap]. rewrite nlen_length, resize_length, N2Nat.id.
    repeat split; try lia.
    apply firstn_resize; rewrite nlen_length in H1; lia.
Qed.

(* every history keeps |file| = capacity and position <= capacity: the slice write_slice indexes lies in the mapping *)
Lemma mo_step_inv s o s' : mo_inv s -> mo_step s o = Some s' -> mo_inv s'.
Proof.
  intros Hi H. destruct o; cbn [mo_step] in H.
  - destruct (N.leb_spec W64 (o_pos s + nlen data)); [discriminate|]. injection H as <-.
    destruct (mo_ensure_inv s (o_pos s + nlen data) Hi) as ((E1 & E2) & E3 & E4 & _).
    set (s1 := mo_ensure s (o_pos s + nlen data)) in *.
    unfold mo_inv. cbn [o_file o_pos o_cap]. rewrite nlen_length, write_at_length.
    rewrite (nlen_length data) in *. rewrite (nlen_length (o_file s1)) in *.
    rewrite Nat.max_l by lia. lia.
  - destruct (N.ltb_spec (o_cap s) p); [discriminate|]. injection H as <-. destruct Hi as (H1 & H2).
    unfold mo_inv. cbn [o_file o_pos o_cap]. split; assumption.
  - injection H as <-. exact Hi.
  - injection H as <-. destruct Hi as (H1 & H2). unfold mo_inv. cbn [o_file o_pos o_cap].
    rewrite nlen_length, firstn_length. rewrite nlen_length in H1. lia.
Qed.
Lemma mo_run_inv ops : forall s s', mo_inv s -> mo_run s ops = Some s' -> mo_inv s'.
Proof.
  induction ops as [|o ops IH]; intros s s' Hi H; cbn [mo_run] in H; [injection H as <-; exact Hi|].
  destruct (mo_step s o) as [s1|] eqn:E; [|discriminate]. eapply IH; [eapply mo_step_inv; eassumption|exact H].
Qed.
Lemma mo_create_inv n : mo_inv (mo_create n).
Proof. unfold mo_inv, mo_create. cbn [o_file o_pos o_cap]. rewrite nlen_length, zeros_length, N2Nat.id. split; lia. Qed.

(* sequential writes: the bytes before the position are the concatenation of what was written *)
Lemma mo_writes_prefix chunks : forall s s' acc, mo_inv s ->
  firstn (N.to_nat (o_pos s)) (o_file s) = acc -> o_pos s = nlen acc ->
  mo_run s (map MWrite chunks) = Some s' ->
  mo_inv s' /\ firstn (N.to_nat (o_pos s')) (o_file s') = acc ++ concat chunks /\ o_pos s' = nlen (acc ++ concat chunks).
Proof.
  induction chunks as [|c chunks IH]; intros s s' acc Hi Hp Hn H; cbn [map mo_run concat] in *.
  - injection H as <-. rewrite app_nil_r. split; [exact Hi|split; assumption].
  - destruct (mo_step s (MWrite c)) as [s1|] eqn:E; [|discriminate].
    pose proof (mo_step_inv s _ s1 Hi E) as Hi1. cbn [mo_step] in E.
    destruct (N.leb_spec W64 (o_pos s + nlen c)); [discriminate|]. injection E as E.
    destruct (mo_ensure_inv s (o_pos s + nlen c) Hi) as ((E1 & E2) & E3 & E4 & E5).
    assert (Hpre : firstn (N.to_nat (o_pos s1)) (o_file s1) = acc ++ c).
    { rewrite <- E. cbn [o_file o_pos]. rewrite E4.
      replace (N.to_nat (o_pos s + nlen c)) with (N.to_nat (o_pos s) + length c)%nat by (rewrite nlen_length; lia).
      rewrite write_at_prefix by (rewrite nlen_length in E1; lia). rewrite E5, Hp. reflexivity. }
    assert (Hpos : o_pos s1 = nlen (acc ++ c)) by (rewrite <- E; cbn [o_pos]; rewrite nlen_app; lia).
    destruct (IH s1 s' (acc ++ c) Hi1 Hpre Hpos H) as (A & B & C).
    rewrite <- app_assoc in B, C. split; [exact A|split; assumption].
Qed.

(* T: create, write_slice*, truncate leaves exactly the concatenation of the chunks in the file, and
   MemoryMappedInput returns exactly those bytes, in whatever slice lengths they are read, and refuses one byte more *)
Lemma mi_read_all_exact f : forall lens pos, pos <= nlen f ->
  pos + fold_right N.add 0 lens = nlen f -> mi_read_all f pos lens = Some (skipn (N.to_nat pos) f).
Proof.
  induction lens as [|l lens IH]; intros pos Hp Hs; cbn [mi_read_all fold_right] in *.
  - rewrite skipn_all2 by (rewrite nlen_length in Hs; lia). reflexivity.
  - unfold mi_read. destruct (N.ltb_spec (nlen f - pos) l) as [Hlt|Hge]; [exfalso; lia|].
    rewrite (IH (pos + l)) by lia. f_equal.
    replace (N.to_nat (pos + l)) with (N.to_nat l + N.to_nat pos)%nat by lia.
    rewrite <- skipn_skipn. apply firstn_skipn.
Qed.
Lemma mmio_roundtrip_proof initial chunks s :
  mo_run (mo_create initial) (map MWrite chunks ++ [MFlush; MTruncate; MFlush]) = Some s ->
  o_file s = concat chunks /\ mo_inv s /\
  (forall lens, fold_right N.add 0 lens = nlen (concat chunks) -> mi_read_all (o_file s) 0 lens = Some (concat chunks)) /\
  mi_read (o_file s) (nlen (o_file s)) 1 = None.
Proof.
  intros H.
  assert (Hsplit : forall ops1 ops2 s0 s2, mo_run s0 (ops1 ++ ops2) = Some s2 ->
            exists s1, mo_run s0 ops1 = Some s1 /\ mo_run s1 ops2 = Some s2).
  { induction ops1 as [|o ops1 IH]; intros ops2 s0 s2 Hr; cbn [app mo_run] in *; [eexists; split; [reflexivity|exact Hr]|].
    destruct (mo_step s0 o) as [sx|]; [|discriminate]. apply IH. exact Hr. }
  destruct (Hsplit _ _ _ _ H) as (s1 & R1 & R2).
  destruct (mo_writes_prefix chunks (mo_create initial) s1 [] (mo_create_inv initial)) as (Hi1 & Hp1 & Hn1);
    [reflexivity|reflexivity|exact R1|]. cbn [app] in Hp1, Hn1.
  cbn [mo_run mo_step] in R2. injection R2 as <-. cbn [o_file o_pos o_cap].
  assert (Hinv : mo_inv {| o_file := firstn (N.to_nat (o_pos s1)) (o_file s1); o_pos := o_pos s1; o_cap := o_pos s1 |}).
  { destruct Hi1 as (A & B). unfold mo_inv. cbn [o_file o_pos o_cap]. rewrite nlen_length, firstn_length.
    rewrite nlen_length in A. lia. }
  rewrite Hp1. split; [reflexivity|]. split; [rewrite <- Hp1; exact Hinv|]. split.
  - intros lens Hl. rewrite (mi_read_all_exact (concat chunks) lens 0) by lia. reflexivity.
  - unfold mi_read. rewrite N.sub_diag. reflexivity.
Qed.

Example mmio_example :
  mo_run (mo_create 4) [MWrite [1; 2; 3]; MWrite [4; 5; 6; 7]; MFlush; MTruncate; MFlush]
  = Some {| o_file := [1; 2; 3; 4; 5; 6; 7]; o_pos := 7; o_cap := 7 |}.
Proof. vm_compute. reflexivity. Qed.
Example ro_writes_example : length (ro_builder_writes ro_many false) = 2%nat /\
  map nlen (ro_builder_writes ro_many false) = [16; 4100].
Proof. vm_compute. split; reflexivity. Qed.
