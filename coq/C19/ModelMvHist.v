(* C19 model, part 6: the file operations of whole MmapVec histories.  Every operation of src/memory/mmap_vec.rs touches
   the file only through sync() (atomic replace, Model.mv_sync_ops) and through resize_to_capacity = sync(); set_len;
   (re-read); sync().  A history is therefore a sequence of units; the harness checks that every traced history parses
   as such a sequence (after the three operations of create).  Definitions only. *)
From ZV.Common Require Import Base Run.
From ZV.C19 Require Import Model.
Open Scope N_scope.

Inductive unit :=
| USync (img : list N)                            (* sync() *)
| UResize (img1 : list N) (n : N) (img2 : list N). (* resize_to_capacity: sync(), set_len(n), sync() *)
Definition unit_ops (path tmp : N) (u : unit) : list fop :=
  match u with
  | USync img => mv_sync_ops path tmp img
  | UResize a n b => mv_sync_ops path tmp a ++ FSetLen path n :: mv_sync_ops path tmp b
  end.
Definition units_ops (path tmp : N) (us : list unit) : list fop := flat_map (unit_ops path tmp) us.
(* what the vector file can hold while / after a unit runs *)
Definition unit_contents (u : unit) : list (list N) :=
  match u with
  | USync img => [img]
  | UResize a n b => [a; resize a (N.to_nat n); b]
  end.

(* MmapVec::create: create_backing_file = create+truncate, one zero byte at size-1, sync_all *)
Definition mv_create_ops (path : N) (size : N) : list fop :=
  [FOpen path true true; FWrite path (size - 1) [0]; FFsync path].

(* parse a traced history (vector file = 1, temporary = 2) into units *)
Fixpoint parse_units (tr : list fop) : option (list unit) :=
  match tr with
  | [] => Some []
  | FOpen 2 true true :: FWrite 2 0 a :: FFsync 2 :: FRename 2 1 :: rest =>
      match rest with
      | FSetLen 1 n :: FOpen 2 true true :: FWrite 2 0 b :: FFsync 2 :: FRename 2 1 :: rest' =>
          match parse_units rest' with Some us => Some (UResize a n b :: us) | None => None end
      | _ => match parse_units rest with Some us => Some (USync a :: us) | None => None end
      end
  | _ => None
  end.

(* the units as states: (elements, capacity, bytes of the unused capacity) *)
Definition mstate := (list N * N * list N)%type.
Definition ms_image (es : N) (s : mstate) : list N := let '(xs, cap, tail) := s in mv_image es xs cap tail.
Definition ms_wf (es : N) (s : mstate) : Prop := let '(xs, cap, tail) := s in mv_wf es xs cap tail.
Definition ms_content (s : mstate) : list N := let '(xs, _, _) := s in xs.
Inductive munit :=
| MSync (s : mstate)
| MResize (s1 : mstate) (n : N) (s2 : mstate).
Definition munit_unit (es : N) (u : munit) : unit :=
  match u with
  | MSync s => USync (ms_image es s)
  | MResize s1 n s2 => UResize (ms_image es s1) n (ms_image es s2)
  end.
Definition munit_states (u : munit) : list mstate := match u with MSync s => [s] | MResize s1 _ s2 => [s1; s2] end.
Definition munit_wf (es : N) (u : munit) : Prop := Forall (ms_wf es) (munit_states u).

(* decidable form of "the image of a well-formed state" (what the harness checks on every traced image) *)
Definition bytes_okb (l : list N) : bool := forallb (fun b => b <? 256) l.
Definition img_okb (es : N) (img : list N) : bool :=
  let h := mv_parse img in
  ((es =? 1) || (es =? 2) || (es =? 4) || (es =? 8))
  && bytes_okb img
  && eqb_ln (firstn 80 img) (mv_header_bytes es (h_len h) (h_cap h))
  && (h_len h <=? h_cap h) && (MV_HEADER + h_cap h * es <? W64)
  && (nlen img =? MV_HEADER + h_cap h * es).
Definition unit_okb (es : N) (u : unit) : bool :=
  match u with
  | USync img => img_okb es img
  | UResize a n b => img_okb es a && img_okb es b
  end.
Definition unit_images (u : unit) : list (list N) := match u with USync i => [i] | UResize a _ b => [a; b] end.
(* resize_to_capacity keeps the elements and sets the file length to that of the second image *)
Definition unit_shape_okb (es : N) (u : unit) : bool :=
  match u with
  | USync _ => true
  | UResize a n b =>
      (n =? nlen b)
      && match mv_open es a, mv_open es b with
         | Some (l1, x1), Some (l2, x2) => (l1 =? l2) && eqb_ln x1 x2
         | _, _ => false
         end
  end.
