(* C19 model, part 5: the buffered writer of ZReorderMapBuilder (src/blob_store/reorder_map.rs new / write_sequence /
   finish): the 16-byte header is one write; records are appended to a buffer that is handed to the file and cleared
   whenever it holds 4096 bytes or more after a record; finish writes what is left (nothing if the buffer is empty),
   flushes and renames the temporary file into place.  MemoryMappedOutput / MemoryMappedInput (src/io/mmap.rs).
   Definitions only. *)
From ZV.Common Require Import Base Run.
From ZV.C19 Require Import Model ModelZo.
Open Scope N_scope.

Fixpoint ro_chunks (recs : list (list N)) (buf : list N) : list (list N) :=
  match recs with
  | [] => match buf with [] => [] | _ => [buf] end
  | r :: t => let b := buf ++ r in
              if 4096 <=? nlen b then b :: ro_chunks t [] else ro_chunks t b
  end.
Definition ro_header (n : N) (neg : bool) : list N := le_bytes 8 n ++ le_bytes 8 (if neg then MINUS1 else 1).
(* the write_all calls of one build, in order *)
Definition ro_builder_writes (vs : list N) (neg : bool) : list (list N) :=
  ro_header (nlen vs) neg :: ro_chunks (map rec_bytes (group neg vs None)) [].
(* the file operations of one build: <path>.build-tmp, the writes, sync_all, rename *)
Definition ro_build_ops (path tmp : N) (vs : list N) (neg : bool) : list fop :=
  replace_ops path tmp (ro_builder_writes vs neg).

(* the seeded regression: an intermediate flush writes only the whole 4096-byte blocks of the buffer, then clears it *)
Fixpoint ro_chunks_bad (recs : list (list N)) (buf : list N) : list (list N) :=
  match recs with
  | [] => match buf with [] => [] | _ => [buf] end
  | r :: t => let b := buf ++ r in
              if 4096 <=? nlen b then firstn (length b - length b mod 4096) b :: ro_chunks_bad t [] else ro_chunks_bad t b
  end.
Definition ro_builder_writes_bad (vs : list N) (neg : bool) : list (list N) :=
  ro_header (nlen vs) neg :: ro_chunks_bad (map rec_bytes (group neg vs None)) [].

(* ------------------------------------------------------------------ MemoryMappedOutput / MemoryMappedInput *)
Record mmo := { o_file : list N;     (* the file (the shared mapping covers all of it) *)
                o_pos : N;           (* position *)
                o_cap : N }.         (* capacity *)
Inductive mmop :=
| MWrite (data : list N)            (* write_slice *)
| MSeek (p : N)
| MFlush
| MTruncate.
Definition mo_create (initial : N) : mmo := {| o_file := zeros (N.to_nat initial); o_pos := 0; o_cap := initial |}.
(* ensure_capacity: grow by 50% or to the required size, whichever is larger; set_len zero-fills *)
Definition mo_ensure (s : mmo) (required : N) : mmo :=
  if required <=? o_cap s then s
  else let new := N.max required (o_cap s + o_cap s / 2) in
       {| o_file := resize (o_file s) (N.to_nat new); o_pos := o_pos s; o_cap := new |}.
Definition mo_step (s : mmo) (o : mmop) : option mmo :=
  match o with
  | MWrite data =>
      let required := o_pos s + nlen data in
      if W64 <=? required then None
      else let s1 := mo_ensure s required in
           Some {| o_file := write_at (o_file s1) (N.to_nat (o_pos s1)) data; o_pos := required; o_cap := o_cap s1 |}
  | MSeek p => if o_cap s <? p then None else Some {| o_file := o_file s; o_pos := p; o_cap := o_cap s |}
  | MFlush => Some s
  | MTruncate => Some {| o_file := firstn (N.to_nat (o_pos s)) (o_file s); o_pos := o_pos s; o_cap := o_pos s |}
  end.
Fixpoint mo_run (s : mmo) (ops : list mmop) : option mmo :=
  match ops with
  | [] => Some s
  | o :: t => match mo_step s o with Some s1 => mo_run s1 t | None => None end
  end.
Definition mo_inv (s : mmo) : Prop := nlen (o_file s) = o_cap s /\ o_pos s <= o_cap s.

(* MemoryMappedInput: len() and read_slice on the bytes of the file *)
Definition mi_read (f : list N) (pos len : N) : option (list N * N) :=
  if nlen f - pos <? len then None                          (* len > remaining() *)
  else Some (firstn (N.to_nat len) (skipn (N.to_nat pos) f), pos + len).
(* read everything in slices of the given lengths; None if a read is refused *)
Fixpoint mi_read_all (f : list N) (pos : N) (lens : list N) : option (list N) :=
  match lens with
  | [] => Some []
  | l :: t => match mi_read f pos l with
              | Some (d, pos') => match mi_read_all f pos' t with Some r => Some (d ++ r) | None => None end
              | None => None
              end
  end.
Definition writes_of (chunks : list (list N)) : list mmop := map MWrite chunks.
