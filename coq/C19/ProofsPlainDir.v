(* C19: PlainBlobStore histories under the crash relation *)
From ZV.Common Require Import Base Run.
Require ZV.C03.Model ZV.C03.ModelStore ZV.C03.ModelPlain ZV.C03.ProofsPlainFs.
From ZV.C19 Require Import Model ProofsBytes ProofsMv ProofsCrash ProofsHist ModelZo ProofsReplace ModelPlainDir.
Open Scope N_scope.

(* the named operations are the operations of the model under the naming *)
Lemma nreplace_ops nm path tmp ws : map (to_fop nm) (nreplace path tmp ws) = replace_ops (nm path) (nm tmp) ws.
Proof.
  unfold nreplace, replace_ops. cbn [map to_fop]. f_equal. rewrite map_app. cbn [map to_fop]. f_equal.
  generalize 0. induction ws as [|w ws IH]; intros off; cbn [seq_writes map]; [reflexivity|].
  destruct w; [apply IH|]. cbn [map to_fop]. f_equal. apply IH.
Qed.
Lemma rops_named nm h : map (to_fop nm) (rops_nops h) = rops_ops nm h.
Proof.
  induction h as [|o h IH]; [reflexivity|]. unfold rops_nops, rops_ops in *. cbn [flat_map]. rewrite map_app, IH. f_equal.
  destruct o; cbn [rop_nops rop_ops]; [apply nreplace_ops|reflexivity].
Qed.

Lemma replace_ops_sealed path tmp ws : sealed (replace_ops path tmp ws).
Proof.
  unfold replace_ops.
  replace (FOpen tmp true true :: seq_writes tmp 0 ws ++ [FFsync tmp; FRename tmp path])
    with ((FOpen tmp true true :: seq_writes tmp 0 ws ++ [FFsync tmp]) ++ [FRename tmp path])
    by (cbn [app]; rewrite <- app_assoc; reflexivity).
  pose proof (X_sealed tmp ws true) as HX. unfold sealed in *. intros j o p Hn Hd.
  set (X := FOpen tmp true true :: seq_writes tmp 0 ws ++ [FFsync tmp]) in *.
  destruct (Nat.lt_ge_cases j (length X)) as [Hj|Hj].
  - rewrite nth_error_app1 in Hn by exact Hj. rewrite skipn_app_l by lia. apply pinned_app_true. eapply HX; eassumption.
  - rewrite nth_error_app2 in Hn by exact Hj. destruct (j - length X)%nat as [|m]; cbn [nth_error] in Hn.
    + injection Hn as <-. discriminate Hd.
    + destruct m; discriminate Hn.
Qed.
Lemma unlink_sealed p : sealed [FUnlink p].
Proof. intros j o q Hn Hd. destruct j as [|[|j]]; cbn [nth_error] in Hn; try discriminate. injection Hn as <-. discriminate Hd. Qed.

Lemma crash_single_unlink d p d' : crash d [FUnlink p] d' -> d' = d \/ d' = apply d (FUnlink p).
Proof.
  intros H. inversion H as [k|k o o' Hn Ht|j k o q _ Hn Hd|j k q off data s e _ Hn]; subst.
  - destruct k; [left; reflexivity|right]. cbn [firstn]. rewrite firstn_nil_any. reflexivity.
  - destruct k as [|k]; cbn [nth_error] in Hn; [injection Hn as <-; contradiction|destruct k; discriminate].
  - destruct j as [|j]; cbn [nth_error] in Hn; [injection Hn as <-; discriminate|destruct j; discriminate].
  - destruct j as [|j]; cbn [nth_error] in Hn; [discriminate|destruct j; discriminate].
Qed.

Section Naming.
  Variable nm : fname -> N.
  Hypothesis nm_inj : forall a b, nm a = nm b -> a = b.

  Lemma rec_not_tmp id id' : nm (render id) <> nm (tmp_name id').
  Proof. intros H. apply nm_inj in H. symmetry in H. revert H. apply C03.ProofsPlainFs.tmp_not_render. Qed.
  Lemma rec_inj id id' : nm (render id) = nm (render id') -> id = id'.
  Proof. intros H. apply nm_inj in H. apply C03.ProofsPlainFs.render_inj. exact H. Qed.

  (* what one record file may look like after a (possibly interrupted) history, relative to the disk before it *)
  Definition rec_view (h : list rop) (d d' : disk) (id : N) : Prop :=
    d' (nm (render id)) = d (nm (render id))
    \/ (In (RRemove id) h /\ d' (nm (render id)) = None)
    \/ (exists data, In (RPut id data) h /\ d' (nm (render id)) = Some data).

  Lemma rec_view_mono h1 h2 d d' id : (forall o, In o h1 -> In o h2) -> rec_view h1 d d' id -> rec_view h2 d d' id.
  Proof.
    intros Hsub [E|[(Hin & E)|(data & Hin & E)]].
    - left; exact E.
    - right; left. split; [apply Hsub; exact Hin|exact E].
    - right; right. exists data. split; [apply Hsub; exact Hin|exact E].
  Qed.

  (* one operation, interrupted or complete *)
  Lemma rop_crash_view o d d' id : crash d (rop_ops nm o) d' -> rec_view [o] d d' id.
  Proof.
    destruct o as [id' data|id']; cbn [rop_ops]; intros H.
    - assert (Hne : nm (tmp_name id') <> nm (render id')) by (intros E; symmetry in E; revert E; apply rec_not_tmp).
      destruct (replace_multi_crash_safe_proof d _ _ [data] d' Hne H (nm (render id)) (rec_not_tmp id id')) as [E|(Eq & E)].
      + left; exact E.
      + right; right. exists data. apply rec_inj in Eq. subst id'. split; [left; reflexivity|].
        rewrite E. cbn [concat]. rewrite app_nil_r. reflexivity.
    - destruct (crash_single_unlink d _ d' H) as [->| ->]; [left; reflexivity|].
      cbn [apply]. destruct (N.eq_dec (nm (render id)) (nm (render id'))) as [E|E].
      + right; left. apply rec_inj in E. subst id'. split; [left; reflexivity|apply dset_same].
      + left. apply dset_other. exact E.
  Qed.
  Lemma rop_sealed o : sealed (rop_ops nm o).
  Proof. destruct o; cbn [rop_ops]; [apply replace_ops_sealed|apply unlink_sealed]. Qed.
  Lemma rop_full_view o d id : rec_view [o] d (apply_all d (rop_ops nm o)) id.
  Proof.
    apply rop_crash_view.
    pose proof (crash_prefix d (rop_ops nm o) (length (rop_ops nm o))) as H. rewrite firstn_all in H. exact H.
  Qed.

  Lemma plain_history_view : forall h d d' id, crash d (rops_ops nm h) d' -> rec_view h d d' id.
  Proof.
    induction h as [|o h IH]; intros d d' id H; unfold rops_ops in H; cbn [flat_map] in H.
    - left. rewrite (crash_nil _ _ H). reflexivity.
    - apply crash_app in H; [|apply rop_sealed]. destruct H as [H|H].
      + apply (rec_view_mono [o]); [intros x [<-|[]]; left; reflexivity|]. apply rop_crash_view. exact H.
      + fold (rops_ops nm h) in H. specialize (IH _ _ id H).
        pose proof (rop_full_view o d id) as H1.
        destruct IH as [E|[(Hin & E)|(data & Hin & E)]].
        * apply (rec_view_mono [o]); [intros x [<-|[]]; left; reflexivity|].
          destruct H1 as [E1|[(Hin1 & E1)|(data1 & Hin1 & E1)]].
          -- left. congruence.
          -- right; left. split; [exact Hin1|congruence].
          -- right; right. exists data1. split; [exact Hin1|congruence].
        * right; left. split; [right; exact Hin|exact E].
        * right; right. exists data. split; [right; exact Hin|exact E].
  Qed.

  (* T: every crash image of every history of put/remove: reopening (rescan of the directory, as modelled in
     ZV.C03.ModelPlain) gives a store in which every id holds nothing, or what its file held before the history, or
     the complete record of one put of the history to that id *)
  Lemma plain_crash_safe_proof h d d' m st' :
    crash d (map (to_fop nm) (rops_nops h)) d' ->
    (forall k, C03.ModelPlain.dlookup k m = d' (nm k)) -> C03.ModelPlain.plain_open m = Some st' ->
    forall id, snd (C03.ModelPlain.plain_get st' id) = None
               \/ snd (C03.ModelPlain.plain_get st' id) = d (nm (render id))
               \/ exists data, In (RPut id data) h /\ snd (C03.ModelPlain.plain_get st' id) = Some data.
  Proof.
    intros Hc Hm Ho id. rewrite rops_named in Hc.
    assert (Hdir : C03.ModelPlain.p_dir st' = m).
    { unfold C03.ModelPlain.plain_open in Ho. destruct (_ <? _); [|discriminate]. injection Ho as <-. reflexivity. }
    unfold C03.ModelPlain.plain_get. cbn [snd]. rewrite Hdir, Hm.
    destruct (plain_history_view h d d' id Hc) as [E|[(_ & E)|(data & Hin & E)]].
    - right; left. exact E.
    - left. exact E.
    - right; right. exists data. split; assumption.
  Qed.
End Naming.

(* an injective naming exists: prime-power style coding of byte strings *)
Fixpoint name_code (s : fname) : N :=
  match s with [] => 0 | b :: t => 2 ^ b * (2 * name_code t + 1) end.
Lemma pow2_odd_inj : forall a b x y, 2 ^ a * (2 * x + 1) = 2 ^ b * (2 * y + 1) -> a = b /\ x = y.
Proof.
  intros a. induction a as [|a IH] using N.peano_ind; intros b x y H.
  - destruct (N.eq_dec b 0) as [->|Hb].
    + change (2 ^ 0) with 1 in H. split; [reflexivity|lia].
    + exfalso. change (2 ^ 0) with 1 in H.
      replace b with (N.succ (N.pred b)) in H by (apply N.succ_pred; exact Hb). rewrite N.pow_succ_r' in H. lia.
  - destruct (N.eq_dec b 0) as [->|Hb].
    + exfalso. change (2 ^ 0) with 1 in H. rewrite N.pow_succ_r' in H. lia.
    + replace b with (N.succ (N.pred b)) in H by (apply N.succ_pred; exact Hb). rewrite !N.pow_succ_r' in H.
      assert (H' : 2 ^ a * (2 * x + 1) = 2 ^ N.pred b * (2 * y + 1)) by lia.
      destruct (IH _ _ _ H') as (-> & ->). split; [apply N.succ_pred; exact Hb|reflexivity].
Qed.
Lemma name_code_inj : forall a b, name_code a = name_code b -> a = b.
Proof.
  induction a as [|x a IH]; intros [|y b] H; cbn [name_code] in H.
  - reflexivity.
  - exfalso. pose proof (pow2_pos y). nia.
  - exfalso. pose proof (pow2_pos x). nia.
  - apply pow2_odd_inj in H. destruct H as (-> & H). f_equal. apply IH. exact H.
Qed.

(* the hypotheses are inhabited: put, put, remove, put after a reopen of an empty directory *)
Example plain_history_example :
  resolve C03.ModelPlain.plain_create [HPut [1; 2]; HPut []; HRemove 1; HReopen; HPut [7]]
  = [RPut 1 [1; 2]; RPut 2 []; RRemove 1; RPut 3 [7]].
Proof. vm_compute. reflexivity. Qed.
