(* C19 model: files as byte lists, the file operations the writers issue, the crash relation,
   and the open/read logic of MmapVec (src/memory/mmap_vec.rs) and ZReorderMap
   (src/blob_store/reorder_map.rs) as written.  Definitions only. *)
From ZV.Common Require Import Base Run.
Open Scope N_scope.

(* ------------------------------------------------------------------ bytes *)
Fixpoint le_val (bs : list N) : N :=                 (* little-endian value of a byte string *)
  match bs with [] => 0 | b :: t => b + 256 * le_val t end.
Fixpoint le_bytes (n : nat) (v : N) : list N :=      (* v.to_le_bytes()[..n] *)
  match n with O => [] | S k => (v mod 256) :: le_bytes k (v / 256) end.
Fixpoint zeros (n : nat) : list N := match n with O => [] | S k => 0 :: zeros k end.
Definition field (f : list N) (off n : nat) : N := le_val (firstn n (skipn off f)).
   (* a read from the zero-filled copy of the file that MmapVec::create_mmap makes: bytes past EOF read 0 *)

(* ------------------------------------------------------------------ MmapVec *)
Definition MV_MAGIC : N := 5570180127579850051.      (* 0x4D4D41505F564543 "MMAP_VEC" *)
Definition MV_VERSION : N := 1.
Definition MV_HEADER : N := 80.                       (* size_of::<MmapVecHeader>() *)

Record mv_hdr := { h_magic : N; h_version : N; h_es : N; h_len : N; h_cap : N }.
Definition mv_parse (f : list N) : mv_hdr :=
  {| h_magic := field f 0 8; h_version := field f 8 4; h_es := field f 12 4;
     h_len := field f 16 8; h_cap := field f 24 8 |}.

(* MmapVecHeader::validate::<T> *)
Definition mv_hdr_ok (es : N) (h : mv_hdr) : bool :=
  (h_magic h =? MV_MAGIC) && (h_version h =? MV_VERSION) && (h_es h =? es) && (h_len h <=? h_cap h).
(* validate_file_length: checked_mul, checked_add in u64, then file_len >= needed *)
Definition mv_len_ok (es : N) (h : mv_hdr) (flen : N) : bool :=
  (MV_HEADER <=? flen) && (h_cap h * es <? W64) && (h_cap h * es + MV_HEADER <? W64)
  && (h_cap h * es + MV_HEADER <=? flen).

Fixpoint read_elems (es : nat) (data : list N) (n : nat) : list N :=
  match n with O => [] | S k => le_val (firstn es data) :: read_elems es (skipn es data) k end.

(* MmapVec::<T>::open followed by len() and get(0..len): None = Err *)
Definition mv_open (es : N) (f : list N) : option (N * list N) :=
  let h := mv_parse f in
  if mv_hdr_ok es h && mv_len_ok es h (nlen f)
  then Some (h_len h, read_elems (N.to_nat es) (skipn 80 f) (N.to_nat (h_len h)))
  else None.
(* the pinned tree's open: header checks only *)
Definition mv_open_v0 (es : N) (f : list N) : option (N * list N) :=
  let h := mv_parse f in
  if mv_hdr_ok es h
  then Some (h_len h, read_elems (N.to_nat es) (skipn 80 f) (N.to_nat (h_len h)))
  else None.
(* bytes of the file that get(i) touches, i < len: [80 + i*es, 80 + (i+1)*es) *)
Definition mv_touched_end (es len : N) : N := MV_HEADER + len * es.

(* what sync() writes: header, the elements, the unused capacity *)
Definition mv_header_bytes (es len cap : N) : list N :=
  le_bytes 8 MV_MAGIC ++ le_bytes 4 MV_VERSION ++ le_bytes 4 es ++ le_bytes 8 len ++ le_bytes 8 cap
  ++ zeros 48.
Definition mv_data_bytes (es : nat) (xs : list N) : list N := flat_map (le_bytes es) xs.
Definition mv_image (es : N) (xs : list N) (cap : N) (tail : list N) : list N :=
  mv_header_bytes es (nlen xs) cap ++ mv_data_bytes (N.to_nat es) xs ++ tail.
Definition mv_wf (es : N) (xs : list N) (cap : N) (tail : list N) : Prop :=
  (es = 1 \/ es = 2 \/ es = 4 \/ es = 8) /\ Forall (fun x => x < 256 ^ es) xs /\ nlen xs <= cap
  /\ nlen tail = (cap - nlen xs) * es /\ MV_HEADER + cap * es < W64.

(* ------------------------------------------------------------------ files, operations, crashes *)
Inductive fop :=
| FOpen (p : N) (creat trunc : bool)
| FSetLen (p : N) (n : N)
| FWrite (p : N) (off : N) (data : list N)
| FFsync (p : N)
| FRename (a b : N)
| FUnlink (p : N).

Definition disk := N -> option (list N).
Definition dset (d : disk) (p : N) (v : option (list N)) : disk := fun q => if q =? p then v else d q.
Definition resize (f : list N) (n : nat) : list N := firstn n f ++ zeros (n - length f).
Definition write_at (f : list N) (off : nat) (data : list N) : list N :=
  let g := resize f (Nat.max (length f) (off + length data)) in
  firstn off g ++ data ++ skipn (off + length data) g.
Definition apply (d : disk) (o : fop) : disk :=
  match o with
  | FOpen p creat trunc =>
      match d p with
      | Some f => if trunc then dset d p (Some []) else d
      | None => if creat then dset d p (Some []) else d
      end
  | FSetLen p n => dset d p (Some (resize (match d p with Some f => f | None => [] end) (N.to_nat n)))
  | FWrite p off data => dset d p (Some (write_at (match d p with Some f => f | None => [] end) (N.to_nat off) data))
  | FFsync _ => d
  | FRename a b => match d a with Some f => dset (dset d a None) b (Some f) | None => d end
  | FUnlink p => dset d p None
  end.
Definition apply_all (d : disk) (ops : list fop) : disk := fold_left apply ops d.

(* the last operation of an interrupted sequence may be a write cut at any byte *)
Definition torn (o o' : fop) : Prop :=
  match o with
  | FWrite p off data => exists k, o' = FWrite p off (firstn k data)
  | _ => False
  end.
(* a write / set_len is pinned once the file it went to (under whatever name it has by then) is fsynced *)
Fixpoint pinned (p : N) (ops : list fop) : bool :=
  match ops with
  | [] => false
  | FFsync q :: t => if q =? p then true else pinned p t
  | FRename a b :: t => if a =? p then pinned b t else pinned p t
  | _ :: t => pinned p t
  end.
Fixpoint name_after (p : N) (ops : list fop) : N :=
  match ops with
  | [] => p
  | FRename a b :: t => if a =? p then name_after b t else name_after p t
  | _ :: t => name_after p t
  end.
Definition droppable (o : fop) : option N :=
  match o with FWrite p _ _ => Some p | FSetLen p _ => Some p | _ => None end.
(* bytes [s, e) of cur replaced by what `before` held there (zeros where it was shorter) *)
Definition splice (cur before : list N) (s e : nat) : list N :=
  firstn s cur ++ firstn (e - s) (skipn s (before ++ zeros e)) ++ skipn e cur.
Definition file_of (d : disk) (p : N) : list N := match d p with Some f => f | None => [] end.

(* Crash images of a sequence of operations issued on disk d:
   - any prefix of the operations;
   - the next operation, if a write, cut at any byte;
   - an earlier unsynced write / set_len missing ("header written, data not", and vice versa);
   - one range of an earlier unsynced write still holding its pre-write content (block rollback;
     the harness uses 4 KiB-aligned ranges, the relation allows any range inside the write). *)
Inductive crash (d : disk) (ops : list fop) : disk -> Prop :=
| crash_prefix k : crash d ops (apply_all d (firstn k ops))
| crash_torn k o o' : nth_error ops k = Some o -> torn o o' ->
    crash d ops (apply (apply_all d (firstn k ops)) o')
| crash_drop j k o p : (j < k)%nat -> nth_error ops j = Some o -> droppable o = Some p ->
    pinned p (firstn (k - j - 1) (skipn (S j) ops)) = false ->
    crash d ops (apply_all (apply_all d (firstn j ops)) (firstn (k - j - 1) (skipn (S j) ops)))
| crash_block j k p off data s e : (j < k)%nat -> nth_error ops j = Some (FWrite p off data) ->
    pinned p (firstn (k - j - 1) (skipn (S j) ops)) = false ->
    (N.to_nat off <= s)%nat -> (e <= N.to_nat off + length data)%nat ->
    let q := name_after p (firstn (k - j - 1) (skipn (S j) ops)) in
    let dk := apply_all d (firstn k ops) in
    crash d ops (dset dk q (Some (splice (file_of dk q) (file_of (apply_all d (firstn j ops)) p) s e))).

(* MmapVec::sync as fixed: sibling temporary file, flush, rename over the vector file *)
Definition mv_sync_ops (path tmp : N) (img : list N) : list fop :=
  [FOpen tmp true true; FWrite tmp 0 img; FFsync tmp; FRename tmp path].
(* MmapVec::sync of the pinned tree: fs::write = truncate in place, then write, no flush *)
Definition mv_sync_ops_v0 (path : N) (img : list N) : list fop :=
  [FOpen path true true; FWrite path 0 img].

(* ------------------------------------------------------------------ ZReorderMap *)
Definition RO_MAXSIZE : N := 184467440737095516.    (* usize::MAX / 100 *)
Definition MINUS1 : N := 18446744073709551615.       (* -1i64 as u64 *)

(* writer: ZReorderMapBuilder::write_var_uint / write_sequence / push / finish *)
Fixpoint var_bytes (fuel : nat) (v : N) : list N :=
  match fuel with
  | O => []
  | S k => if v <? 128 then [v] else (v mod 128 + 128) :: var_bytes k (v / 128)
  end.
Definition rec_bytes (r : N * N) : list N :=
  let '(base, len) := r in
  if len =? 1 then le_bytes 5 (2 * base + 1) else le_bytes 5 (2 * base) ++ var_bytes 10 len.
Definition next_expected (neg : bool) (base len : N) : option N :=
  if neg then (if len <=? base then Some (base - len) else None) else Some (base + len).
Fixpoint group (neg : bool) (vs : list N) (cur : option (N * N)) : list (N * N) :=
  match vs with
  | [] => match cur with None => [] | Some r => [r] end
  | v :: t =>
      match cur with
      | None => group neg t (Some (v, 1))
      | Some (b, l) =>
          match next_expected neg b l with
          | Some e => if e =? v then group neg t (Some (b, l + 1)) else (b, l) :: group neg t (Some (v, 1))
          | None => (b, l) :: group neg t (Some (v, 1))
          end
      end
  end.
Definition ro_encode (vs : list N) (neg : bool) : list N :=
  le_bytes 8 (nlen vs) ++ le_bytes 8 (if neg then MINUS1 else 1) ++ flat_map rec_bytes (group neg vs None).

(* reader: read_var_uint / read_entry / open (rewind + validate_entries) / Iterator::next *)
Fixpoint read_var (fuel : nat) (d : list N) (shift acc : N) : option (N * list N) :=
  match fuel with
  | O => None
  | S k =>
      match d with
      | [] => None
      | b :: t =>
          if 64 <=? shift then None
          else let acc' := (acc + ((b mod 128) * 2 ^ shift) mod W64) in
               if b <? 128 then Some (acc', t) else read_var k t (shift + 7) acc'
      end
  end.
Definition read_entry (d : list N) : option (N * N * list N) :=
  if nlen d <? 5 then None
  else let enc := le_val (firstn 5 d) in
       let rest := skipn 5 d in
       if enc mod 2 =? 1 then Some (enc / 2, 1, rest)
       else match read_var 12 rest 0 0 with
            | Some (len, rest') => Some (enc / 2, len, rest')
            | None => None
            end.
(* validate_entries: runs non-empty, summing to exactly size, nothing after the last one *)
Fixpoint read_runs (fuel : nat) (d : list N) (size covered : N) : option (list (N * N)) :=
  match fuel with
  | O => None
  | S k =>
      match read_entry d with
      | None => None
      | Some (base, len, rest) =>
          if len =? 0 then None
          else if W64 <=? covered + len then None
          else if size <=? covered + len
               then (if (covered + len =? size) && (nlen rest =? 0) then Some [(base, len)] else None)
               else match read_runs k rest size (covered + len) with
                    | Some rs => Some ((base, len) :: rs)
                    | None => None
                    end
      end
  end.
Definition ro_parse (f : list N) : option (N * bool * list (N * N)) :=
  if nlen f <? 16 then None
  else let size := le_val (firstn 8 f) in
       let sign := le_val (firstn 8 (skipn 8 f)) in
       if RO_MAXSIZE <? size then None
       else if negb ((sign =? 1) || (sign =? MINUS1)) then None
       else let neg := sign =? MINUS1 in
            if size =? 0 then (if nlen f =? 16 then Some (0, neg, []) else None)
            else match read_runs (length f) (skipn 16 f) size 0 with
                 | Some rs => Some (size, neg, rs)
                 | None => None
                 end.
Fixpoint run_values (neg : bool) (v : N) (n : nat) : list N :=
  match n with
  | O => []
  | S k => v :: run_values neg (if neg then (v + MINUS1) mod W64 else (v + 1) mod W64) k
  end.
Definition ro_expand (neg : bool) (rs : list (N * N)) : list N :=
  flat_map (fun r => run_values neg (fst r) (N.to_nat (snd r))) rs.
Definition ro_decode (f : list N) : option (list N) :=
  match ro_parse f with Some (_, neg, rs) => Some (ro_expand neg rs) | None => None end.

(* ------------------------------------------------------------------ correspondence cases *)
Inductive case :=
| CMv (es : N) (file : list N) (expect : list Z)        (* reader process: MmapVec::open + read all; [-1] = Err *)
| CRo (file : list N) (expect : list Z)                  (* reader process: ZReorderMap::open + iterate *)
| CRoEnc (vals : list N) (neg : bool) (file : list N)    (* the builder's file for these values *)
| COps (trace : list fop) (img : list N).                (* traced file operations of one sync()/put()/save, files numbered
                                                            1 = target, 2 = temporary; consecutive writes to the temporary
                                                            file merged by the harness; img = the content published *)

Definition fop_eqb (a b : fop) : bool :=
  match a, b with
  | FOpen p c t, FOpen p' c' t' => (p =? p') && Bool.eqb c c' && Bool.eqb t t'
  | FSetLen p n, FSetLen p' n' => (p =? p') && (n =? n')
  | FWrite p o d, FWrite p' o' d' => (p =? p') && (o =? o') && eqb_ln d d'
  | FFsync p, FFsync p' => p =? p'
  | FRename a1 b1, FRename a2 b2 => (a1 =? a2) && (b1 =? b2)
  | FUnlink p, FUnlink p' => p =? p'
  | _, _ => false
  end.
Fixpoint ops_eqb (a b : list fop) : bool :=
  match a, b with
  | [], [] => true
  | x :: a', y :: b' => fop_eqb x y && ops_eqb a' b'
  | _, _ => false
  end.

Definition zs (xs : list N) : list Z := map Z.of_N xs.
Definition case_ok (c : case) : bool :=
  match c with
  | CMv es f expect =>
      match mv_open es f with
      | None => eqb_lz expect [(-1)%Z]
      | Some (n, xs) => eqb_lz expect (Z.of_N n :: zs xs)
      end
  | CRo f expect =>
      match ro_parse f with
      | None => eqb_lz expect [(-1)%Z]
      | Some (size, neg, rs) =>
          match expect with
          | e0 :: es => if Z.eqb e0 (Z.of_N size) then eqb_lz es (zs (ro_expand neg rs)) else false
          | [] => false
          end
      end
  | CRoEnc vs neg f => eqb_ln (ro_encode vs neg) f
  | COps trace img => ops_eqb trace (mv_sync_ops 1 2 img)
  end.
