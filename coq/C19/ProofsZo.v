(* C19: the ZipOffsetBlobStore file: save then load gives the store back; truncations; what load reads *)
From ZV.Common Require Import Base Run.
Require ZV.C03.Model.
From ZV.C19 Require Import Model ProofsBytes ProofsMv ModelZo.
Open Scope N_scope.

Lemma zeros_repeat n : zeros n = repeat 0 n.
Proof. induction n as [|n IH]; cbn [zeros repeat]; [reflexivity|]. now rewrite IH. Qed.
Lemma le_bytes_c03 n x : C03.Model.le_bytes n x = le_bytes n x.
Proof. revert x; induction n as [|n IH]; intros x; cbn [C03.Model.le_bytes le_bytes]; [reflexivity|]. now rewrite IH. Qed.

Lemma eqb_ln_refl a : eqb_ln a a = true.
Proof. induction a as [|x a IH]; cbn [eqb_ln]; [reflexivity|]. rewrite N.eqb_refl, IH. reflexivity. Qed.
Lemma eqb_ln_eq a : forall b, eqb_ln a b = true -> a = b.
Proof.
  induction a as [|x a IH]; intros [|y b] H; cbn [eqb_ln] in H; try discriminate; [reflexivity|].
  apply andb_prop in H. destruct H as (H1 & H2). apply N.eqb_eq in H1. subst y. f_equal. apply IH. exact H2.
Qed.

Lemma nlen_skipn {A} (l : list A) k : nlen (skipn k l) = nlen l - N.of_nat k.
Proof. rewrite !nlen_length, skipn_length. lia. Qed.
Lemma nlen_zeros n : nlen (zeros n) = N.of_nat n.
Proof. rewrite nlen_length, zeros_length. reflexivity. Qed.
Lemma nlen_le_bytes n v : nlen (le_bytes n v) = N.of_nat n.
Proof. rewrite nlen_length, le_bytes_length. reflexivity. Qed.

(* the image written by save_to_writer is the image of ZV.C03.Model *)
Lemma zo_save_is_zip_image_proof c st : zo_save (zo_of c st) = C03.Model.zip_image c st.
Proof.
  unfold zo_save, zo_save_writes, C03.Model.zip_image, zo_header, suv_bytes, C03.Model.suv_image, zo_of, zo_len,
    C03.Model.zip_len, zo_pad, zo_magic, zo_class.
  cbn [concat zo_content zo_index zo_data zo_size zo_log2 zo_ow zo_sw zo_simd zo_ck zo_cl zo_unzip].
  rewrite (zeros_repeat 45), (zeros_repeat 64), (zeros_repeat (N.to_nat ((16 - nlen (C03.Model.st_content st) mod 16) mod 16))).
  repeat rewrite le_bytes_c03. rewrite app_nil_r. repeat rewrite <- app_assoc. reflexivity.
Qed.

(* ------------------------------------------------------------------ the header *)
Lemma zo_header_length s : length (zo_header s) = 128%nat.
Proof.
  unfold zo_header. repeat rewrite app_length. repeat rewrite le_bytes_length. rewrite zeros_length. reflexivity.
Qed.

Definition zo_rcv (s : zo) : N := (zo_len s) mod 2 ^ 40 + zo_ck s * 2 ^ 40 + 1 * 2 ^ 48.
Definition zo_ob (s : zo) : N := nlen (suv_bytes s).
Definition zo_cb (s : zo) : N := nlen (zo_content s).

Lemma magic_len : length zo_magic = 20%nat. Proof. reflexivity. Qed.
Lemma class_len : length zo_class = 20%nat. Proof. reflexivity. Qed.

Lemma le8 v : v < W64 -> le_val (le_bytes 8 v) = v.
Proof. intros H. apply le_val_le_bytes. change (256 ^ N.of_nat 8) with W64. exact H. Qed.

Section Header.
  Variable s : zo.
  Variable r : list N.
  Let f := zo_header s ++ r.

  Lemma hdr_magic : firstn 20 f = zo_magic.
  Proof. unfold f, zo_header. rewrite <- app_assoc. apply firstn_app_exact. reflexivity. Qed.
  Lemma hdr_class : firstn 20 (skipn 20 f) = zo_class.
  Proof.
    unfold f, zo_header. repeat rewrite <- app_assoc.
    rewrite (skipn_app_exact zo_magic _ 20 magic_len). apply firstn_app_exact. reflexivity.
  Qed.
  Ltac skip_pre := repeat rewrite <- app_assoc;
    rewrite (field_skip zo_magic _ 20) by reflexivity; rewrite (field_skip zo_class _ 20) by reflexivity.
  Lemma hdr_unzip : zo_unzip s < W64 -> field f 48 8 = zo_unzip s.
  Proof.
    intros H. unfold f, zo_header. change 48%nat with (20 + (20 + (8 + 0)))%nat. skip_pre.
    rewrite field_skip by apply le_bytes_length. rewrite field_head by apply le_bytes_length. apply le8. exact H.
  Qed.
  Lemma hdr_rcv : zo_rcv s < W64 -> field f 56 8 = zo_rcv s.
  Proof.
    intros H. unfold f, zo_header. change 56%nat with (20 + (20 + (8 + (8 + 0))))%nat. skip_pre.
    do 2 (rewrite field_skip by apply le_bytes_length). rewrite field_head by apply le_bytes_length. apply le8. exact H.
  Qed.
  Lemma hdr_cb : zo_cb s < W64 -> field f 64 8 = zo_cb s.
  Proof.
    intros H. unfold f, zo_header. change 64%nat with (20 + (20 + (8 + (8 + (8 + 0)))))%nat. skip_pre.
    do 3 (rewrite field_skip by apply le_bytes_length). rewrite field_head by apply le_bytes_length. apply le8. exact H.
  Qed.
  Lemma hdr_ob : zo_ob s < W64 -> field f 72 8 = zo_ob s.
  Proof.
    intros H. unfold f, zo_header. change 72%nat with (20 + (20 + (8 + (8 + (8 + (8 + 0))))))%nat. skip_pre.
    do 4 (rewrite field_skip by apply le_bytes_length). rewrite field_head by apply le_bytes_length. apply le8. exact H.
  Qed.
  Lemma hdr_cfg : nth 80 f 0 = zo_log2 s /\ nth 81 f 0 = zo_ck s /\ nth 82 f 0 = zo_cl s.
  Proof. unfold f, zo_header. split; [reflexivity | split; reflexivity]. Qed.
  Lemma hdr_skip : skipn 128 f = r.
  Proof. unfold f. apply skipn_app_exact. apply zo_header_length. Qed.
  Lemma hdr_nlen : nlen f = 128 + nlen r.
  Proof. unfold f. rewrite nlen_app, nlen_length, zo_header_length. reflexivity. Qed.
End Header.

(* ------------------------------------------------------------------ the offset vector image *)
Lemma suv_bytes_nlen s : nlen (suv_bytes s) = 32 + nlen (zo_index s) + nlen (zo_data s).
Proof.
  unfold suv_bytes. rewrite !nlen_app, !nlen_le_bytes. cbn [nlen]. lia.
Qed.

Lemma wf_sizes s : zo_wf s ->
  nlen (zo_index s) < 2 ^ 60 /\ nlen (zo_data s) < 2 ^ 60 /\ zo_cb s < 2 ^ 60 /\ zo_ob s < 2 ^ 61 /\ zo_size s < 2 ^ 63
  /\ 0 < zo_ow s.
Proof.
  intros (Hcfg & _ & _ & _ & Hsz & _ & _ & _ & _ & _ & Htot).
  unfold zo_cb, zo_ob. rewrite suv_bytes_nlen.
  unfold suv_cfg_ok in Hcfg. repeat (apply andb_prop in Hcfg; destruct Hcfg as (Hcfg & ?)).
  assert (Hw : 8 <= zo_ow s) by (apply N.leb_le; assumption).
  change (2 ^ 60) with 1152921504606846976 in *. change (2 ^ 61) with 2305843009213693952.
  change (2 ^ 63) with 9223372036854775808.
  assert (nlen (zo_data s) * 8 / zo_ow s <= nlen (zo_data s)).
  { apply N.div_le_upper_bound; [lia|]. nia. }
  repeat split; lia.
Qed.

Lemma suv_parse_bytes s : zo_wf s ->
  suv_parse (suv_bytes s) = Some (zo_size s, zo_log2 s, zo_ow s, zo_sw s, zo_simd s, zo_index s, zo_data s).
Proof.
  intros Hwf. pose proof (wf_sizes s Hwf) as (Hi & Hd & _ & _ & Hs & Hw0).
  destruct Hwf as (Hcfg & Hsimd & _ & _ & Hsz & _).
  change (2 ^ 60) with 1152921504606846976 in *. change (2 ^ 63) with 9223372036854775808 in *.
  unfold suv_parse. rewrite suv_bytes_nlen.
  replace (32 + nlen (zo_index s) + nlen (zo_data s) <? 32) with false by (symmetry; apply N.ltb_ge; lia).
  assert (F0 : field (suv_bytes s) 0 8 = zo_size s).
  { unfold suv_bytes. rewrite field_head by apply le_bytes_length. apply le8. unfold W64. lia. }
  assert (F16 : field (suv_bytes s) 16 8 = nlen (zo_index s)).
  { unfold suv_bytes. change 16%nat with (8 + (8 + 0))%nat. rewrite field_skip by apply le_bytes_length.
    change ([zo_log2 s; zo_ow s; zo_sw s; zo_simd s; 0; 0; 0; 0] ++ le_bytes 8 (nlen (zo_index s)) ++
            le_bytes 8 (nlen (zo_data s)) ++ zo_index s ++ zo_data s)
      with ([zo_log2 s; zo_ow s; zo_sw s; zo_simd s; 0; 0; 0; 0] ++ (le_bytes 8 (nlen (zo_index s)) ++
            le_bytes 8 (nlen (zo_data s)) ++ zo_index s ++ zo_data s)).
    rewrite field_skip by reflexivity. rewrite field_head by apply le_bytes_length. apply le8. unfold W64. lia. }
  assert (F24 : field (suv_bytes s) 24 8 = nlen (zo_data s)).
  { unfold suv_bytes. change 24%nat with (8 + (8 + (8 + 0)))%nat. rewrite field_skip by apply le_bytes_length.
    change ([zo_log2 s; zo_ow s; zo_sw s; zo_simd s; 0; 0; 0; 0] ++ le_bytes 8 (nlen (zo_index s)) ++
            le_bytes 8 (nlen (zo_data s)) ++ zo_index s ++ zo_data s)
      with ([zo_log2 s; zo_ow s; zo_sw s; zo_simd s; 0; 0; 0; 0] ++ (le_bytes 8 (nlen (zo_index s)) ++
            le_bytes 8 (nlen (zo_data s)) ++ zo_index s ++ zo_data s)).
    rewrite field_skip by reflexivity. rewrite field_skip by apply le_bytes_length.
    rewrite field_head by apply le_bytes_length. apply le8. unfold W64. lia. }
  rewrite F0, F16, F24.
  assert (N8 : nth 8 (suv_bytes s) 0 = zo_log2 s) by reflexivity.
  assert (N9 : nth 9 (suv_bytes s) 0 = zo_ow s) by reflexivity.
  assert (N10 : nth 10 (suv_bytes s) 0 = zo_sw s) by reflexivity.
  assert (N11 : nth 11 (suv_bytes s) 0 = zo_simd s) by reflexivity.
  rewrite N8, N9, N10, N11. rewrite N.eqb_refl. cbn [negb]. rewrite Hcfg. cbn [negb].
  replace (N.min (nlen (zo_data s) * 8) (W64 - 1)) with (nlen (zo_data s) * 8) by (unfold W64; lia).
  replace (nlen (zo_data s) * 8 / zo_ow s <? zo_size s) with false by (symmetry; apply N.ltb_ge; exact Hsz).
  assert (Hsim : (if zo_simd s =? 0 then 0 else 1) = zo_simd s).
  { destruct (N.eqb_spec (zo_simd s) 0) as [E|E]; lia. }
  rewrite Hsim.
  assert (Sk : skipn 32 (suv_bytes s) = zo_index s ++ zo_data s).
  { unfold suv_bytes.
    replace (le_bytes 8 (zo_size s) ++ [zo_log2 s; zo_ow s; zo_sw s; zo_simd s; 0; 0; 0; 0] ++
             le_bytes 8 (nlen (zo_index s)) ++ le_bytes 8 (nlen (zo_data s)) ++ zo_index s ++ zo_data s)
      with ((le_bytes 8 (zo_size s) ++ [zo_log2 s; zo_ow s; zo_sw s; zo_simd s; 0; 0; 0; 0] ++
             le_bytes 8 (nlen (zo_index s)) ++ le_bytes 8 (nlen (zo_data s))) ++ zo_index s ++ zo_data s)
      by (repeat rewrite <- app_assoc; reflexivity).
    apply skipn_app_exact. repeat rewrite app_length. repeat rewrite le_bytes_length. reflexivity. }
  rewrite Sk. rewrite firstn_app_exact by (symmetry; apply nlen_nat).
  replace (skipn (32 + N.to_nat (nlen (zo_index s))) (suv_bytes s)) with (zo_data s).
  2:{ rewrite Nat.add_comm, <- skipn_skipn, Sk. symmetry. apply skipn_app_exact. symmetry. apply nlen_nat. }
  reflexivity.
Qed.

(* ------------------------------------------------------------------ load on a file that starts with the header of s *)
Definition zo_load_body (s : zo) (r1 : list N) : option zo :=
  if nlen r1 <? zo_cb s then None
  else if nlen (skipn (N.to_nat (zo_cb s)) r1) <? zo_pad (zo_cb s) then None
  else if nlen (skipn (N.to_nat (zo_pad (zo_cb s))) (skipn (N.to_nat (zo_cb s)) r1)) <? zo_ob s then None
  else match suv_parse (firstn (N.to_nat (zo_ob s)) (skipn (N.to_nat (zo_pad (zo_cb s))) (skipn (N.to_nat (zo_cb s)) r1))) with
       | None => None
       | Some (size, log2, ow, sw, simd, index, data) =>
           if negb (size - 1 =? zo_len s) then None
           else Some {| zo_content := firstn (N.to_nat (zo_cb s)) r1; zo_index := index; zo_data := data; zo_size := size;
                        zo_log2 := log2; zo_ow := ow; zo_sw := sw; zo_simd := simd; zo_ck := zo_ck s; zo_cl := zo_cl s;
                        zo_unzip := zo_unzip s |}
       end.

Lemma wf_rcv s : zo_wf s -> zo_rcv s < W64 /\ (zo_rcv s / 2 ^ 48) mod 2 ^ 16 = 1 /\ zo_rcv s mod 2 ^ 40 = zo_len s.
Proof.
  intros (_ & _ & Hck & _ & _ & Hlen & _). unfold zo_rcv.
  change (2 ^ 40) with 1099511627776 in *. change (2 ^ 48) with 281474976710656. change (2 ^ 16) with 65536.
  unfold W64. rewrite (N.mod_small (zo_len s)) by exact Hlen. repeat split; lia.
Qed.

Lemma cfg_ok_hdr l ow sw : suv_cfg_ok l ow sw = true -> suv_cfg_ok l 16 32 = true.
Proof.
  unfold suv_cfg_ok. intros H.
  assert (E : 4 <=? l = true /\ l <=? 8 = true)
    by (repeat (apply andb_prop in H; destruct H as (H & ?)); split; assumption).
  destruct E as (E1 & E2). rewrite E1, E2. reflexivity.
Qed.

Lemma zo_load_header s r : zo_wf s -> zo_load (zo_header s ++ r) = zo_load_body s r.
Proof.
  intros Hwf. pose proof (wf_rcv s Hwf) as (Hr1 & Hr2 & Hr3).
  pose proof (wf_sizes s Hwf) as (_ & _ & Hcb & Hob & _ & _).
  destruct Hwf as (Hcfg & _ & Hck & Hcl & _ & _ & Hun & _).
  change (2 ^ 60) with 1152921504606846976 in *. change (2 ^ 61) with 2305843009213693952 in *.
  unfold zo_load. cbv zeta.
  rewrite hdr_nlen, hdr_magic, hdr_class, !eqb_ln_refl. cbn [negb].
  replace (128 + nlen r <? 128) with false by (symmetry; apply N.ltb_ge; lia).
  rewrite (hdr_rcv s r Hr1), Hr2, Hr3. rewrite N.eqb_refl. cbn [negb].
  destruct (hdr_cfg s r) as (E80 & E81 & E82). rewrite E80, E81, E82.
  replace (22 <? zo_cl s) with false by (symmetry; apply N.ltb_ge; exact Hcl).
  replace (3 <? zo_ck s) with false by (symmetry; apply N.ltb_ge; exact Hck).
  rewrite (cfg_ok_hdr _ _ _ Hcfg). cbn [negb orb].
  rewrite (hdr_cb s r) by (unfold W64; lia). rewrite (hdr_ob s r) by (unfold W64; lia).
  rewrite (hdr_unzip s r Hun). rewrite hdr_skip. reflexivity.
Qed.

(* the four sections after the header *)
Definition zo_tail (s : zo) : list N :=
  zo_content s ++ zeros (N.to_nat (zo_pad (zo_cb s))) ++ suv_bytes s ++ zeros 64.
Lemma zo_save_split s : zo_save s = zo_header s ++ zo_tail s.
Proof.
  unfold zo_save, zo_save_writes, zo_tail, zo_cb. cbn [concat]. rewrite app_nil_r. reflexivity.
Qed.
Lemma zo_tail_nlen s : nlen (zo_tail s) = zo_cb s + zo_pad (zo_cb s) + zo_ob s + 64.
Proof.
  unfold zo_tail, zo_cb, zo_ob. rewrite !nlen_app, !nlen_zeros. rewrite N2Nat.id. change (N.of_nat 64) with 64. lia.
Qed.
Lemma zo_save_nlen s : nlen (zo_save s) = 128 + zo_cb s + zo_pad (zo_cb s) + zo_ob s + 64.
Proof. rewrite zo_save_split, hdr_nlen, zo_tail_nlen. lia. Qed.

Lemma zo_eta s :
  {| zo_content := zo_content s; zo_index := zo_index s; zo_data := zo_data s; zo_size := zo_size s;
     zo_log2 := zo_log2 s; zo_ow := zo_ow s; zo_sw := zo_sw s; zo_simd := zo_simd s; zo_ck := zo_ck s;
     zo_cl := zo_cl s; zo_unzip := zo_unzip s |} = s.
Proof. destruct s; reflexivity. Qed.

(* body on a rest that holds at least content, padding and the offset image; whatever follows is not read *)
Lemma zo_body_complete s rest : zo_wf s ->
  zo_load_body s (zo_content s ++ zeros (N.to_nat (zo_pad (zo_cb s))) ++ suv_bytes s ++ rest) = Some s.
Proof.
  intros Hwf. unfold zo_load_body.
  assert (Lc : length (zo_content s) = N.to_nat (zo_cb s)) by (unfold zo_cb; symmetry; apply nlen_nat).
  assert (Lp : length (zeros (N.to_nat (zo_pad (zo_cb s)))) = N.to_nat (zo_pad (zo_cb s))) by apply zeros_length.
  assert (Lo : length (suv_bytes s) = N.to_nat (zo_ob s)) by (unfold zo_ob; symmetry; apply nlen_nat).
  rewrite (skipn_app_exact _ _ _ Lc). rewrite (skipn_app_exact _ _ _ Lp).
  rewrite (firstn_app_exact _ _ _ Lo). rewrite (firstn_app_exact _ _ _ Lc).
  rewrite !nlen_app, nlen_zeros, N2Nat.id. fold (zo_cb s). fold (zo_ob s).
  replace (zo_cb s + (zo_pad (zo_cb s) + (zo_ob s + nlen rest)) <? zo_cb s) with false by (symmetry; apply N.ltb_ge; lia).
  replace (zo_pad (zo_cb s) + (zo_ob s + nlen rest) <? zo_pad (zo_cb s)) with false by (symmetry; apply N.ltb_ge; lia).
  replace (zo_ob s + nlen rest <? zo_ob s) with false by (symmetry; apply N.ltb_ge; lia).
  rewrite (suv_parse_bytes s Hwf). unfold zo_len. rewrite N.eqb_refl. cbn [negb].
  f_equal. apply zo_eta.
Qed.

(* T: the file written by save_to_writer loads as the store it was written from *)
Lemma zo_reload s : zo_wf s -> zo_load (zo_save s) = Some s.
Proof.
  intros Hwf. rewrite zo_save_split, (zo_load_header s _ Hwf). unfold zo_tail. apply zo_body_complete. exact Hwf.
Qed.

Lemma zo_reopen_after_save_proof s : zo_wf s ->
  exists s', zo_load (zo_save s) = Some s' /\ zo_len s' = zo_len s /\ zo_content s' = zo_content s /\
             (forall id, zo_get s' id = zo_get s id) /\ (forall id, zo_range s' id = zo_range s id).
Proof. intros Hwf. exists s. split; [apply zo_reload; exact Hwf|]. repeat split; reflexivity. Qed.

(* ------------------------------------------------------------------ truncations *)
Lemma zo_body_short s r1 : nlen r1 < zo_cb s + zo_pad (zo_cb s) + zo_ob s -> zo_load_body s r1 = None.
Proof.
  intros H. unfold zo_load_body. rewrite !nlen_skipn, !N2Nat.id.
  destruct (N.ltb_spec (nlen r1) (zo_cb s)) as [|H1]; [reflexivity|].
  destruct (N.ltb_spec (nlen r1 - zo_cb s) (zo_pad (zo_cb s))) as [|H2]; [reflexivity|].
  destruct (N.ltb_spec (nlen r1 - zo_cb s - zo_pad (zo_cb s)) (zo_ob s)) as [|H3]; [reflexivity|].
  exfalso. lia.
Qed.

Lemma firstn_app_ge {A} (a b : list A) k : (length a <= k)%nat -> firstn k (a ++ b) = a ++ firstn (k - length a) b.
Proof. intros H. rewrite firstn_app. rewrite firstn_all2 by exact H. reflexivity. Qed.

Lemma zo_load_short f : nlen f < 128 -> zo_load f = None.
Proof. intros H. unfold zo_load. replace (nlen f <? 128) with true by (symmetry; apply N.ltb_lt; exact H). reflexivity. Qed.

(* T: the saved file cut anywhere before its (unread, reserved) 64-byte footer is refused *)
Lemma zo_truncated_refused_proof s k : zo_wf s ->
  (k + 64 < length (zo_save s))%nat -> zo_load (firstn k (zo_save s)) = None.
Proof.
  intros Hwf Hk.
  assert (Hn : N.of_nat (length (zo_save s)) = 128 + zo_cb s + zo_pad (zo_cb s) + zo_ob s + 64)
    by (rewrite <- nlen_length; apply zo_save_nlen).
  destruct (Nat.lt_ge_cases k 128) as [Hlt|Hge].
  - apply zo_load_short. rewrite nlen_length, firstn_length.
    pose proof (Nat.le_min_l k (length (zo_save s))). lia.
  - rewrite zo_save_split. rewrite firstn_app_ge by (rewrite zo_header_length; exact Hge).
    rewrite (zo_load_header s _ Hwf). apply zo_body_short.
    rewrite zo_header_length. rewrite nlen_length, firstn_length.
    pose proof (Nat.le_min_l (k - 128) (length (zo_tail s))). lia.
Qed.

(* ... and cut inside the footer it loads as the same store: load_from_reader never reads the footer *)
Lemma zo_footer_cut_proof s k : zo_wf s ->
  (length (zo_save s) <= k + 64)%nat -> zo_load (firstn k (zo_save s)) = Some s.
Proof.
  intros Hwf Hk.
  assert (Hn : N.of_nat (length (zo_save s)) = 128 + zo_cb s + zo_pad (zo_cb s) + zo_ob s + 64)
    by (rewrite <- nlen_length; apply zo_save_nlen).
  assert (Lc : length (zo_content s) = N.to_nat (zo_cb s)) by (unfold zo_cb; symmetry; apply nlen_nat).
  assert (Lo : length (suv_bytes s) = N.to_nat (zo_ob s)) by (unfold zo_ob; symmetry; apply nlen_nat).
  rewrite zo_save_split. rewrite firstn_app_ge by (rewrite zo_header_length; lia).
  rewrite (zo_load_header s _ Hwf). unfold zo_tail. rewrite zo_header_length.
  rewrite firstn_app_ge by lia. rewrite firstn_app_ge by (rewrite zeros_length; lia).
  rewrite firstn_app_ge by (rewrite zeros_length; lia).
  apply zo_body_complete. exact Hwf.
Qed.

(* ------------------------------------------------------------------ any byte string: what load accepts lies inside the file *)
Lemma zo_load_inside_file_proof f s : zo_load f = Some s ->
  zo_consumed f <= nlen f /\
  zo_content s = firstn (N.to_nat (field f 64 8)) (skipn 128 f) /\
  128 + nlen (zo_content s) <= nlen f /\
  (forall id a e, zo_range s id = Some (a, e) -> a <= e /\ e <= nlen (zo_content s)).
Proof.
  unfold zo_load. cbv zeta.
  destruct (nlen f <? 128) eqn:E0; [discriminate|].
  destruct (negb (eqb_ln (firstn 20 f) zo_magic)); [discriminate|].
  destruct (negb (eqb_ln (firstn 20 (skipn 20 f)) zo_class)); [discriminate|].
  destruct (negb ((field f 56 8 / 2 ^ 48) mod 2 ^ 16 =? 1)); [discriminate|].
  destruct ((22 <? nth 82 f 0) || (3 <? nth 81 f 0) || negb (suv_cfg_ok (nth 80 f 0) 16 32)); [discriminate|].
  destruct (nlen (skipn 128 f) <? field f 64 8) eqn:E1; [discriminate|].
  destruct (nlen (skipn (N.to_nat (field f 64 8)) (skipn 128 f)) <? zo_pad (field f 64 8)) eqn:E2; [discriminate|].
  destruct (nlen (skipn (N.to_nat (zo_pad (field f 64 8))) (skipn (N.to_nat (field f 64 8)) (skipn 128 f))) <? field f 72 8) eqn:E3;
    [discriminate|].
  destruct (suv_parse _) as [((((((size & log2) & ow) & sw) & simd) & index) & data)|]; [|discriminate].
  destruct (negb (size - 1 =? field f 56 8 mod 2 ^ 40)); [discriminate|].
  intros H. injection H as Hs.
  assert (Hcont : zo_content s = firstn (N.to_nat (field f 64 8)) (skipn 128 f)) by (rewrite <- Hs; reflexivity).
  clear Hs.
  apply N.ltb_ge in E0, E1, E2, E3. rewrite !nlen_skipn in *. rewrite !N2Nat.id in *.
  change (N.of_nat 128) with 128 in *.
  assert (Hc : nlen (zo_content s) = field f 64 8).
  { rewrite Hcont. pose proof (nlen_length f) as Hnl. rewrite nlen_firstn by (rewrite skipn_length; lia). apply N2Nat.id. }
  split; [|split; [exact Hcont|split; [|intros id a e H; split]]].
  - unfold zo_consumed. lia.
  - rewrite Hc. lia.
  - unfold zo_range in H.
    destruct (zo_len _ <=? id); [discriminate|]. destruct (zo_get2 _ id) as [(a0, e0)|]; [|discriminate].
    destruct ((e0 <? a0) || (nlen (zo_content s) <? e0)) eqn:E; [discriminate|].
    injection H as <- <-. apply orb_false_elim in E. destruct E as (Ea & _). apply N.ltb_ge in Ea. exact Ea.
  - unfold zo_range in H.
    destruct (zo_len _ <=? id); [discriminate|]. destruct (zo_get2 _ id) as [(a0, e0)|]; [|discriminate].
    destruct ((e0 <? a0) || (nlen (zo_content s) <? e0)) eqn:E; [discriminate|].
    injection H as <- <-. apply orb_false_elim in E. destruct E as (_ & Eb). apply N.ltb_ge in Eb. exact Eb.
Qed.

(* the hypotheses are inhabited: a store of the records "ab", "" and "c" (checksum level 0, default offset configuration) *)
Definition zo_example : zo :=
  {| zo_content := [97; 98; 99]; zo_index := [0; 0; 0; 0]; zo_data := [0; 0; 2; 0; 2; 0; 3; 0]; zo_size := 4;
     zo_log2 := 6; zo_ow := 16; zo_sw := 32; zo_simd := 1; zo_ck := 0; zo_cl := 0; zo_unzip := 3 |}.
Example zo_wf_example : zo_wf zo_example /\ zo_get zo_example 0 = Some [97; 98] /\ zo_get zo_example 1 = Some []
                        /\ zo_get zo_example 2 = Some [99] /\ zo_get zo_example 3 = None.
Proof.
  split; [|vm_compute; repeat split; reflexivity].
  unfold zo_wf. cbn [zo_example zo_content zo_index zo_data zo_size zo_log2 zo_ow zo_sw zo_simd zo_ck zo_cl zo_unzip zo_len].
  repeat split; try (vm_compute; reflexivity); try (vm_compute; discriminate); repeat constructor; reflexivity.
Qed.
