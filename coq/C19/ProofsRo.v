(* C19: ZReorderMap - what the builder writes is read back exactly *)
From ZV.Common Require Import Base Run.
From ZV.C19 Require Import Model ProofsBytes.
Open Scope N_scope.

Definition V39 : N := 549755813888.      (* values are <= 0x7FFFFFFFFF, i.e. < 2^39 *)
Lemma V39_eq : V39 = 2 ^ 39. Proof. reflexivity. Qed.

(* ---------------------------------------------------------------- var_uint *)
Lemma pow7S f : 2 ^ (7 * N.of_nat (S f)) = 128 * 2 ^ (7 * N.of_nat f).
Proof.
  rewrite Nat2N.inj_succ. replace (7 * N.succ (N.of_nat f)) with (7 + 7 * N.of_nat f) by lia.
  rewrite N.pow_add_r. reflexivity.
Qed.

Lemma read_var_bytes : forall f m v shift acc rest,
  v < 2 ^ (7 * N.of_nat (S f)) -> shift < 64 -> v * 2 ^ shift < W64 ->
  read_var (S f + m) (var_bytes (S f) v ++ rest) shift acc = Some (acc + v * 2 ^ shift, rest).
Proof.
  induction f as [|f IH]; intros m v shift acc rest Hv Hs Hb.
  - (* one byte at most *)
    change (2 ^ (7 * N.of_nat 1)) with 128 in Hv.
    cbn [var_bytes]. replace (v <? 128) with true by (symmetry; apply N.ltb_lt; exact Hv).
    cbn [app Nat.add read_var]. cbv zeta.
    replace (64 <=? shift) with false by (symmetry; apply N.leb_gt; exact Hs).
    rewrite (N.mod_small v 128) by exact Hv.
    rewrite (N.mod_small (v * 2 ^ shift) W64) by exact Hb.
    replace (v <? 128) with true by (symmetry; apply N.ltb_lt; exact Hv). reflexivity.
  - change (var_bytes (S (S f)) v) with (if v <? 128 then [v] else (v mod 128 + 128) :: var_bytes (S f) (v / 128)).
    destruct (N.ltb_spec v 128) as [Hlt|Hge].
    + cbn [app Nat.add read_var]. cbv zeta.
      replace (64 <=? shift) with false by (symmetry; apply N.leb_gt; exact Hs).
      rewrite (N.mod_small v 128) by exact Hlt.
      rewrite (N.mod_small (v * 2 ^ shift) W64) by exact Hb.
      replace (v <? 128) with true by (symmetry; apply N.ltb_lt; exact Hlt). reflexivity.
    + (* continuation byte *)
      change (S (S f) + m)%nat with (S (S f + m)).
      cbn [app read_var]. cbv zeta.
      replace (64 <=? shift) with false by (symmetry; apply N.leb_gt; exact Hs).
      set (r := v mod 128). set (q := v / 128).
      assert (Hr : r < 128) by (unfold r; apply N.mod_lt; discriminate).
      assert (Hvq : v = 128 * q + r) by (unfold q, r; apply N.div_mod'; discriminate).
      assert (Hq1 : 1 <= q) by lia.
      replace ((r + 128) mod 128) with r by (unfold r; lia).
      replace (r + 128 <? 128) with false by (symmetry; apply N.ltb_ge; lia).
      set (p := 2 ^ shift) in *.
      assert (Hp : 0 < p) by (unfold p; apply pow2_pos).
      assert (Hp7 : 2 ^ (shift + 7) = p * 128) by (unfold p; rewrite N.pow_add_r; reflexivity).
      assert (Hrp : r * p < W64) by nia.
      rewrite (N.mod_small (r * p) W64) by exact Hrp.
      assert (Hs7 : shift + 7 < 64).
      { destruct (N.lt_ge_cases (shift + 7) 64) as [|Hc]; [assumption|exfalso].
        assert (2 ^ 64 <= 2 ^ (shift + 7)) by (apply N.pow_le_mono_r; [discriminate|exact Hc]).
        rewrite Hp7 in *. change (2 ^ 64) with W64 in *. nia. }
      rewrite IH.
      * f_equal. f_equal. rewrite Hp7. nia.
      * rewrite pow7S in Hv. unfold q. lia.
      * exact Hs7.
      * rewrite Hp7. nia.
Qed.

(* ---------------------------------------------------------------- one record *)
Definition run_ok (r : N * N) : Prop := fst r < V39 /\ 1 <= snd r /\ snd r < W63.

Lemma rec_bytes_length r : (5 <= length (rec_bytes r))%nat.
Proof.
  destruct r as (b, l). unfold rec_bytes. destruct (l =? 1).
  - rewrite le_bytes_length. lia.
  - rewrite app_length, le_bytes_length. lia.
Qed.

Lemma read_entry_rec r rest : run_ok r -> read_entry (rec_bytes r ++ rest) = Some (fst r, snd r, rest).
Proof.
  destruct r as (b, l). unfold run_ok. cbn [fst snd]. intros (Hb & Hl1 & Hl).
  unfold read_entry.
  assert (Hn : nlen (rec_bytes (b, l) ++ rest) <? 5 = false).
  { apply N.ltb_ge. rewrite nlen_length, app_length. pose proof (rec_bytes_length (b, l)). lia. }
  rewrite Hn. unfold rec_bytes. unfold V39 in Hb. unfold W63 in Hl.
  destruct (N.eqb_spec l 1) as [->|Hne].
  - rewrite (firstn_app_exact _ _ 5%nat (le_bytes_length 5 _)).
    rewrite (skipn_app_exact _ _ 5%nat (le_bytes_length 5 _)).
    rewrite le_val_le_bytes by (change (256 ^ N.of_nat 5) with 1099511627776; lia).
    replace ((2 * b + 1) mod 2 =? 1) with true by (symmetry; apply N.eqb_eq; lia).
    replace ((2 * b + 1) / 2) with b by lia. reflexivity.
  - rewrite <- app_assoc.
    rewrite (firstn_app_exact _ _ 5%nat (le_bytes_length 5 _)).
    rewrite (skipn_app_exact _ _ 5%nat (le_bytes_length 5 _)).
    rewrite le_val_le_bytes by (change (256 ^ N.of_nat 5) with 1099511627776; lia).
    replace ((2 * b) mod 2 =? 1) with false by (symmetry; apply N.eqb_neq; lia).
    change 12%nat with (10 + 2)%nat.
    rewrite (read_var_bytes 9 2 l 0 0 rest).
    + replace (2 * b / 2) with b by lia. replace (0 + l * 2 ^ 0) with l by (change (2 ^ 0) with 1; lia).
      reflexivity.
    + change (2 ^ (7 * N.of_nat 10)) with 1180591620717411303424. lia.
    + lia.
    + change (2 ^ 0) with 1. unfold W64. lia.
Qed.

(* ---------------------------------------------------------------- the record stream *)
Fixpoint run_sum (rs : list (N * N)) : N := match rs with [] => 0 | r :: t => snd r + run_sum t end.

Lemma run_sum_pos rs : rs <> [] -> Forall run_ok rs -> 1 <= run_sum rs.
Proof.
  destruct rs as [|r t]; [congruence|]. intros _ H. inversion H as [|? ? (_ & H1 & _) _]; subst.
  cbn [run_sum]. lia.
Qed.

Lemma read_runs_ok : forall rs fuel size covered,
  rs <> [] -> Forall run_ok rs -> covered + run_sum rs = size -> size < W63 ->
  (length rs <= fuel)%nat ->
  read_runs fuel (flat_map rec_bytes rs) size covered = Some rs.
Proof.
  induction rs as [|r t IH]; intros fuel size covered Hne Hok Hsum Hsz Hf; [congruence|].
  destruct fuel as [|fuel]; [cbn [length] in Hf; lia|].
  assert (Hr : run_ok r) by (inversion Hok; assumption).
  assert (Ht : Forall run_ok t) by (inversion Hok; assumption).
  cbn [flat_map read_runs]. rewrite read_entry_rec by exact Hr.
  destruct r as (b, l). cbn [fst snd run_sum] in *. destruct Hr as (Hb & Hl1 & Hl). cbn [fst snd] in *.
  replace (l =? 0) with false by (symmetry; apply N.eqb_neq; lia).
  unfold W63 in *. replace (W64 <=? covered + l) with false by (symmetry; apply N.leb_gt; unfold W64; lia).
  destruct t as [|r2 t2].
  - cbn [run_sum flat_map] in *.
    replace (size <=? covered + l) with true by (symmetry; apply N.leb_le; lia).
    replace (covered + l =? size) with true by (symmetry; apply N.eqb_eq; lia).
    cbn [nlen]. reflexivity.
  - assert (H1 : 1 <= run_sum (r2 :: t2)) by (apply run_sum_pos; [discriminate|exact Ht]).
    replace (size <=? covered + l) with false by (symmetry; apply N.leb_gt; lia).
    rewrite (IH fuel size (covered + l)).
    + reflexivity.
    + discriminate.
    + exact Ht.
    + lia.
    + exact Hsz.
    + cbn [length] in *. lia.
Qed.

Lemma flat_map_rec_length rs : (length rs <= length (flat_map rec_bytes rs))%nat.
Proof.
  induction rs as [|r t IH]; cbn [flat_map length]; [lia|].
  rewrite app_length. pose proof (rec_bytes_length r). lia.
Qed.

(* ---------------------------------------------------------------- run detection and expansion *)
Definition nth_val (neg : bool) (b : N) (n : nat) : N := if neg then b - N.of_nat n else b + N.of_nat n.
Definition no_wrap (neg : bool) (b : N) (n : nat) : Prop := if neg then N.of_nat n <= b /\ b < W64 else b + N.of_nat n < W64.

Lemma run_values_snoc neg : forall n b, no_wrap neg b n ->
  run_values neg b (S n) = run_values neg b n ++ [nth_val neg b n].
Proof.
  induction n as [|n IH]; intros b H.
  - cbn [run_values app]. unfold nth_val. destruct neg; f_equal; cbn [N.of_nat]; lia.
  - change (run_values neg b (S (S n)))
      with (b :: run_values neg (if neg then (b + MINUS1) mod W64 else (b + 1) mod W64) (S n)).
    change (run_values neg b (S n))
      with (b :: run_values neg (if neg then (b + MINUS1) mod W64 else (b + 1) mod W64) n).
    cbn [app]. f_equal. unfold no_wrap, nth_val in *. rewrite Nat2N.inj_succ in *.
    destruct neg.
    + destruct H as (H & Hb64).
      assert (E : (b + MINUS1) mod W64 = b - 1) by (unfold MINUS1, W64 in *; lia).
      rewrite E. rewrite IH by (unfold W64 in *; lia). do 2 f_equal. lia.
    + assert (E : (b + 1) mod W64 = b + 1) by (apply N.mod_small; lia).
      rewrite E. rewrite IH by lia. do 2 f_equal. lia.
Qed.

Definition cur_ok (neg : bool) (cur : option (N * N)) : Prop :=
  match cur with
  | None => True
  | Some (b, l) => b < V39 /\ 1 <= l /\ (if neg then l <= b + 1 else b + l <= V39)
  end.
Definition cur_values (neg : bool) (cur : option (N * N)) : list N :=
  match cur with None => [] | Some (b, l) => run_values neg b (N.to_nat l) end.
Definition cur_len (cur : option (N * N)) : N := match cur with None => 0 | Some (_, l) => l end.

Lemma expand_cons neg r rs : ro_expand neg (r :: rs) = run_values neg (fst r) (N.to_nat (snd r)) ++ ro_expand neg rs.
Proof. reflexivity. Qed.

Lemma run_ok_of_cur neg b l : cur_ok neg (Some (b, l)) -> run_ok (b, l).
Proof.
  unfold cur_ok, run_ok, V39, W63. cbn [fst snd]. intros (Hb & Hl & H). destruct neg; lia.
Qed.

Lemma group_spec neg : forall vs cur,
  Forall (fun v => v < V39) vs -> cur_ok neg cur ->
  let rs := group neg vs cur in
  Forall run_ok rs /\ ro_expand neg rs = cur_values neg cur ++ vs /\
  run_sum rs = cur_len cur + nlen vs /\ (rs = [] -> cur = None /\ vs = []).
Proof.
  induction vs as [|v t IH]; intros cur Hvs Hc; cbn zeta.
  - destruct cur as [(b, l)|]; cbn [group].
    + split; [|split; [|split]].
      * constructor; [apply (run_ok_of_cur neg); exact Hc|constructor].
      * rewrite expand_cons. cbn [fst snd ro_expand flat_map cur_values]. reflexivity.
      * cbn [run_sum snd cur_len nlen]. lia.
      * discriminate.
    + split; [constructor|]. split; [reflexivity|]. split; [reflexivity|]. intros _. split; reflexivity.
  - inversion Hvs as [|? ? Hv Ht]; subst.
    assert (Hstart : cur_ok neg (Some (v, 1))).
    { unfold cur_ok, V39 in *. destruct neg; lia. }
    destruct cur as [(b, l)|]; cbn [group].
    + assert (Hrun : run_ok (b, l)) by (apply (run_ok_of_cur neg); exact Hc).
      assert (Hbreak :
        let rs := (b, l) :: group neg t (Some (v, 1)) in
        Forall run_ok rs /\ ro_expand neg rs = cur_values neg (Some (b, l)) ++ v :: t /\
        run_sum rs = cur_len (Some (b, l)) + nlen (v :: t) /\ (rs = [] -> Some (b, l) = None /\ v :: t = [])).
      { cbn zeta. destruct (IH (Some (v, 1)) Ht Hstart) as (A & B & C & _).
        split; [|split; [|split]].
        - constructor; assumption.
        - rewrite expand_cons, B. cbn [fst snd cur_values]. change (N.to_nat 1) with 1%nat.
          cbn [run_values app]. reflexivity.
        - cbn [run_sum snd cur_len nlen] in *. lia.
        - discriminate. }
      unfold next_expected. unfold cur_ok in Hc. destruct Hc as (Hb & Hl & Hdir).
      destruct neg.
      * destruct (N.leb_spec l b) as [Hlb|Hlb]; [|exact Hbreak].
        destruct (N.eqb_spec (b - l) v) as [E|E]; [|exact Hbreak].
        assert (Hc' : cur_ok true (Some (b, l + 1))) by (unfold cur_ok; lia).
        destruct (IH (Some (b, l + 1)) Ht Hc') as (A & B & C & D).
        split; [exact A|]. split; [|split].
        -- rewrite B. cbn [cur_values]. replace (N.to_nat (l + 1)) with (S (N.to_nat l)) by lia.
           rewrite run_values_snoc by (unfold no_wrap, V39, W64 in *; lia).
           rewrite <- app_assoc. cbn [app]. unfold nth_val. rewrite N2Nat.id. rewrite E. reflexivity.
        -- cbn [cur_len nlen] in *. lia.
        -- intros H0. destruct (D H0) as (D1 & _). discriminate.
      * destruct (N.eqb_spec (b + l) v) as [E|E]; [|exact Hbreak].
        assert (Hc' : cur_ok false (Some (b, l + 1))) by (unfold cur_ok, V39 in *; lia).
        destruct (IH (Some (b, l + 1)) Ht Hc') as (A & B & C & D).
        split; [exact A|]. split; [|split].
        -- rewrite B. cbn [cur_values]. replace (N.to_nat (l + 1)) with (S (N.to_nat l)) by lia.
           rewrite run_values_snoc by (unfold no_wrap, V39, W64 in *; lia).
           rewrite <- app_assoc. cbn [app]. unfold nth_val. rewrite N2Nat.id. rewrite E. reflexivity.
        -- cbn [cur_len nlen] in *. lia.
        -- intros H0. destruct (D H0) as (D1 & _). discriminate.
    + destruct (IH (Some (v, 1)) Ht Hstart) as (A & B & C & D).
      split; [exact A|]. split; [|split].
      * rewrite B. cbn [cur_values]. change (N.to_nat 1) with 1%nat. cbn [run_values app]. reflexivity.
      * cbn [cur_len nlen] in *. lia.
      * intros H0. destruct (D H0) as (D1 & _). discriminate.
Qed.

(* ---------------------------------------------------------------- T: finish, then open and iterate *)
Lemma ro_roundtrip_proof vs neg :
  Forall (fun v => v < V39) vs -> nlen vs <= RO_MAXSIZE -> ro_decode (ro_encode vs neg) = Some vs.
Proof.
  intros Hvs Hn.
  destruct (group_spec neg vs None Hvs I) as (Hok & Hexp & Hsum & Hnil). cbn zeta in *.
  cbn [cur_values cur_len app] in *.
  set (rs := group neg vs None) in *.
  unfold ro_decode, ro_parse, ro_encode. fold rs.
  set (body := flat_map rec_bytes rs).
  set (sign := if neg then MINUS1 else 1).
  assert (Hlen : nlen (le_bytes 8 (nlen vs) ++ le_bytes 8 sign ++ body) = 16 + nlen body).
  { rewrite !nlen_app, !nlen_length, !le_bytes_length. cbn [N.of_nat]. lia. }
  rewrite Hlen.
  replace (16 + nlen body <? 16) with false by (symmetry; apply N.ltb_ge; lia).
  rewrite (firstn_app_exact _ _ 8%nat (le_bytes_length 8 _)).
  rewrite (skipn_app_exact _ _ 8%nat (le_bytes_length 8 _)).
  rewrite (firstn_app_exact _ _ 8%nat (le_bytes_length 8 _)).
  unfold RO_MAXSIZE in *.
  rewrite le_val_le_bytes by (change (256 ^ N.of_nat 8) with W64; unfold W64; lia).
  rewrite le_val_le_bytes by (change (256 ^ N.of_nat 8) with W64; unfold sign, MINUS1, W64; destruct neg; lia).
  replace (184467440737095516 <? nlen vs) with false by (symmetry; apply N.ltb_ge; exact Hn).
  assert (Hsg : negb ((sign =? 1) || (sign =? MINUS1)) = false) by (unfold sign; destruct neg; reflexivity).
  rewrite Hsg.
  assert (Hng : (sign =? MINUS1) = neg) by (unfold sign; destruct neg; reflexivity).
  rewrite Hng.
  destruct vs as [|v0 t].
  - cbn [nlen]. change (0 =? 0) with true. cbv iota.
    assert (rs = []) by reflexivity. unfold body. rewrite H. cbn [flat_map nlen].
    change (16 + 0 =? 16) with true. cbv iota. reflexivity.
  - assert (Hne : rs <> []) by (intros H0; destruct (Hnil H0) as (_ & D); discriminate).
    replace (nlen (v0 :: t) =? 0) with false by (symmetry; apply N.eqb_neq; cbn [nlen]; lia).
    assert (Hsk : skipn 16 (le_bytes 8 (nlen (v0 :: t)) ++ le_bytes 8 sign ++ body) = body).
    { rewrite app_assoc. apply skipn_app_exact. rewrite app_length, !le_bytes_length. reflexivity. }
    rewrite Hsk. unfold body.
    rewrite (read_runs_ok rs _ (nlen (v0 :: t)) 0 Hne Hok).
    + rewrite Hexp. reflexivity.
    + rewrite Hsum. lia.
    + unfold W63. lia.
    + rewrite !app_length. pose proof (flat_map_rec_length rs). lia.
Qed.

Example ro_roundtrip_example :
  ro_decode (ro_encode [10; 11; 12; 20; 549755813887; 5; 4; 3] false) = Some [10; 11; 12; 20; 549755813887; 5; 4; 3].
Proof. vm_compute. reflexivity. Qed.
