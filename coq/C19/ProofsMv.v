(* C19: MmapVec open/read on synced images, truncated images, arbitrary files *)
From ZV.Common Require Import Base Run.
From ZV.C19 Require Import Model ProofsBytes.
Open Scope N_scope.

Lemma field_skip (a r : list N) k off n : length a = k -> field (a ++ r) (k + off) n = field r off n.
Proof.
  intros H. unfold field.
  rewrite (Nat.add_comm k off), <- skipn_skipn, (skipn_app_exact a r k H). reflexivity.
Qed.
Lemma field_head (x r : list N) n : length x = n -> field (x ++ r) 0 n = le_val x.
Proof. intros H. apply (field_at [] x r 0%nat n); [reflexivity|exact H]. Qed.

Lemma mv_parse_header es len cap rest :
  es < W32 -> len < W64 -> cap < W64 ->
  mv_parse (mv_header_bytes es len cap ++ rest)
  = {| h_magic := MV_MAGIC; h_version := MV_VERSION; h_es := es; h_len := len; h_cap := cap |}.
Proof.
  intros He Hl Hc. unfold mv_parse, mv_header_bytes. repeat rewrite <- app_assoc.
  f_equal.
  - change 12%nat with (8 + (4 + 0))%nat. rewrite field_skip by apply le_bytes_length.
    rewrite field_skip by apply le_bytes_length.
    rewrite field_head by apply le_bytes_length. apply le_val_le_bytes.
    change (256 ^ N.of_nat 4) with W32. exact He.
  - change 16%nat with (8 + (4 + (4 + 0)))%nat. do 3 (rewrite field_skip by apply le_bytes_length).
    rewrite field_head by apply le_bytes_length. apply le_val_le_bytes.
    change (256 ^ N.of_nat 8) with W64. exact Hl.
  - change 24%nat with (8 + (4 + (4 + (8 + 0))))%nat. do 4 (rewrite field_skip by apply le_bytes_length).
    rewrite field_head by apply le_bytes_length. apply le_val_le_bytes.
    change (256 ^ N.of_nat 8) with W64. exact Hc.
Qed.

Lemma mv_header_length es len cap : length (mv_header_bytes es len cap) = 80%nat.
Proof. unfold mv_header_bytes. repeat rewrite app_length. repeat rewrite le_bytes_length. rewrite zeros_length. reflexivity. Qed.

Lemma mv_data_length es xs : length (mv_data_bytes es xs) = (length xs * es)%nat.
Proof.
  induction xs as [|x xs IH]; cbn [mv_data_bytes flat_map length]; [reflexivity|].
  rewrite app_length, le_bytes_length. unfold mv_data_bytes in IH. rewrite IH. lia.
Qed.

Lemma read_elems_data es xs rest :
  Forall (fun x => x < 256 ^ N.of_nat es) xs ->
  read_elems es (mv_data_bytes es xs ++ rest) (length xs) = xs.
Proof.
  induction xs as [|x xs IH]; intros H; cbn [mv_data_bytes flat_map length read_elems]; [reflexivity|].
  inversion H as [|? ? Hx Hxs]; subst.
  rewrite <- app_assoc.
  rewrite (firstn_app_exact _ _ es (le_bytes_length es x)).
  rewrite (skipn_app_exact _ _ es (le_bytes_length es x)).
  rewrite le_val_le_bytes by exact Hx. f_equal. apply IH. exact Hxs.
Qed.

Lemma mv_image_nlen es xs cap tail :
  mv_wf es xs cap tail -> nlen (mv_image es xs cap tail) = MV_HEADER + cap * es.
Proof.
  intros (Hes & _ & Hle & Ht & _). unfold mv_image. rewrite !nlen_app, !nlen_length.
  rewrite mv_header_length, mv_data_length. rewrite nlen_length in Ht, Hle.
  rewrite nlen_length in Ht. rewrite Ht. unfold MV_HEADER.
  rewrite Nat2N.inj_mul, N2Nat.id. lia.
Qed.

Lemma wf_es_small es xs cap tail : mv_wf es xs cap tail -> es < W32 /\ 0 < es.
Proof. intros (Hes & _). unfold W32. destruct Hes as [-> | [-> | [-> | ->]]]; lia. Qed.

(* T: a synced image reopens as exactly the content it was written from *)
Lemma mv_reopen_after_clean_sync_proof es xs cap tail :
  mv_wf es xs cap tail -> mv_open es (mv_image es xs cap tail) = Some (nlen xs, xs).
Proof.
  intros Hwf. pose proof (mv_image_nlen _ _ _ _ Hwf) as Hn.
  pose proof (wf_es_small _ _ _ _ Hwf) as (Hes32 & Hes0).
  destruct Hwf as (Hes & Hxs & Hle & Ht & Hsz).
  assert (Hcap : cap < W64) by (unfold MV_HEADER in Hsz; nia).
  assert (Hp : mv_parse (mv_image es xs cap tail)
               = {| h_magic := MV_MAGIC; h_version := MV_VERSION; h_es := es; h_len := nlen xs; h_cap := cap |})
    by (unfold mv_image; apply mv_parse_header; try assumption; lia).
  unfold mv_open. rewrite Hn, Hp.
  unfold mv_hdr_ok, mv_len_ok. cbn [h_magic h_version h_es h_len h_cap].
  rewrite !N.eqb_refl. cbn [andb].
  replace (nlen xs <=? cap) with true by (symmetry; apply N.leb_le; exact Hle).
  replace (MV_HEADER <=? MV_HEADER + cap * es) with true by (symmetry; apply N.leb_le; lia).
  replace (cap * es <? W64) with true by (symmetry; apply N.ltb_lt; unfold MV_HEADER in Hsz; lia).
  replace (cap * es + MV_HEADER <? W64) with true by (symmetry; apply N.ltb_lt; lia).
  replace (cap * es + MV_HEADER <=? MV_HEADER + cap * es) with true by (symmetry; apply N.leb_le; lia).
  cbn [andb]. f_equal. f_equal.
  unfold mv_image. rewrite (skipn_app_exact _ _ 80%nat (mv_header_length _ _ _)).
  rewrite nlen_nat. apply read_elems_data.
  rewrite N2Nat.id. exact Hxs.
Qed.

(* T: whatever open accepts - any byte string at all - lies inside the file: get(i), i < len, touches only
   bytes [80 + i*es, 80 + (i+1)*es) and 80 + len*es <= |file| *)
Lemma read_elems_length es n : forall d, length (read_elems es d n) = n.
Proof. induction n as [|n IH]; intros d; cbn [read_elems length]; [reflexivity|]. now rewrite IH. Qed.

Lemma mv_open_some es f n xs :
  mv_open es f = Some (n, xs) ->
  mv_hdr_ok es (mv_parse f) = true /\ mv_len_ok es (mv_parse f) (nlen f) = true /\
  n = h_len (mv_parse f) /\ xs = read_elems (N.to_nat es) (skipn 80 f) (N.to_nat (h_len (mv_parse f))).
Proof.
  unfold mv_open. remember (skipn 80 f) as d. remember (mv_parse f) as h.
  destruct (mv_hdr_ok es h && mv_len_ok es h (nlen f)) eqn:E; [|discriminate].
  intros H. apply andb_prop in E. destruct E as (E1 & E2).
  injection H as Hn Hx. repeat split; try assumption; symmetry; assumption.
Qed.

Lemma mv_open_inside_file_proof es f n xs :
  mv_open es f = Some (n, xs) ->
  mv_touched_end es n <= nlen f /\ length xs = N.to_nat n.
Proof.
  intros H. apply mv_open_some in H. destruct H as (E1 & E2 & -> & ->).
  unfold mv_hdr_ok in E1. unfold mv_len_ok in E2.
  repeat (apply andb_prop in E1; destruct E1 as (E1 & ?)).
  repeat (apply andb_prop in E2; destruct E2 as (E2 & ?)).
  split.
  - unfold mv_touched_end.
    assert (h_len (mv_parse f) <= h_cap (mv_parse f)) by (apply N.leb_le; assumption).
    assert (h_cap (mv_parse f) * es + MV_HEADER <= nlen f) by (apply N.leb_le; assumption).
    assert (h_len (mv_parse f) * es <= h_cap (mv_parse f) * es) by (apply N.mul_le_mono_r; assumption).
    lia.
  - apply read_elems_length.
Qed.

Lemma read_elems_nth es : forall n data i,
  (i < n)%nat -> nth_error (read_elems es data n) i = Some (le_val (firstn es (skipn (i * es) data))).
Proof.
  induction n as [|n IH]; intros data i Hi; [lia|].
  cbn [read_elems]. destruct i as [|i]; cbn [nth_error].
  - reflexivity.
  - rewrite IH by lia. rewrite skipn_skipn. do 4 f_equal. lia.
Qed.

(* element i of what open returns is the little-endian value of the file bytes at 80 + i*es *)
Lemma mv_open_elements_proof es f n xs i :
  mv_open es f = Some (n, xs) -> (i < N.to_nat n)%nat ->
  nth_error xs i = Some (field f (80 + i * N.to_nat es) (N.to_nat es)).
Proof.
  intros H Hi. apply mv_open_some in H. destruct H as (_ & _ & -> & ->).
  rewrite read_elems_nth by exact Hi. unfold field. rewrite skipn_skipn. do 4 f_equal. lia.
Qed.

(* T: a synced image cut short at any byte is refused *)
Lemma mv_truncated_refused_proof es xs cap tail k :
  mv_wf es xs cap tail -> (k < length (mv_image es xs cap tail))%nat ->
  mv_open es (firstn k (mv_image es xs cap tail)) = None.
Proof.
  intros Hwf Hk. pose proof (mv_image_nlen _ _ _ _ Hwf) as Hn.
  pose proof (wf_es_small _ _ _ _ Hwf) as (Hes32 & Hes0).
  destruct Hwf as (Hes & Hxs & Hle & Ht & Hsz).
  set (img := mv_image es xs cap tail) in *.
  unfold mv_open.
  assert (Hnl : nlen (firstn k img) = N.of_nat k) by (apply nlen_firstn; lia).
  rewrite Hnl.
  destruct (Nat.lt_ge_cases k 80) as [Hs|Hs].
  - unfold mv_len_ok. replace (MV_HEADER <=? N.of_nat k) with false
      by (symmetry; apply N.leb_gt; unfold MV_HEADER; lia).
    cbn [andb]. rewrite andb_false_r. reflexivity.
  - assert (Hp : mv_parse (firstn k img) = mv_parse img).
    { unfold mv_parse. rewrite !field_firstn by lia. reflexivity. }
    rewrite Hp. unfold img at 1 2. unfold mv_image.
    assert (Hcap : cap < W64) by (unfold MV_HEADER in Hsz; nia).
    rewrite mv_parse_header by (try assumption; lia).
    unfold mv_len_ok. cbn [h_cap].
    rewrite nlen_length in Hn.
    replace (cap * es + MV_HEADER <=? N.of_nat k) with false by (symmetry; apply N.leb_gt; lia).
    rewrite !andb_false_r. reflexivity.
Qed.

(* growing the file (set_len) keeps what open sees; open reads nothing of the extension *)
Lemma read_elems_app es : forall n data extra,
  (n * es <= length data)%nat -> read_elems es (data ++ extra) n = read_elems es data n.
Proof.
  induction n as [|n IH]; intros data extra H; cbn [read_elems]; [reflexivity|].
  rewrite firstn_app, skipn_app.
  replace (es - length data)%nat with 0%nat by lia. cbn [firstn skipn]. rewrite app_nil_r.
  f_equal. apply IH. rewrite skipn_length. lia.
Qed.

Lemma mv_open_extended_proof es f extra st :
  mv_open es f = Some st -> mv_open es (f ++ extra) = Some st.
Proof.
  intros H. destruct st as (n, xs). pose proof H as H0.
  apply mv_open_inside_file_proof in H0. destruct H0 as (Hin & _).
  apply mv_open_some in H. destruct H as (E1 & E2 & Hn & Hx).
  assert (H64 : (80 <= length f)%nat).
  { unfold mv_len_ok in E2. repeat (apply andb_prop in E2; destruct E2 as (E2 & ?)).
    apply N.leb_le in E2. unfold MV_HEADER in E2. rewrite nlen_length in E2. lia. }
  assert (Hp : mv_parse (f ++ extra) = mv_parse f).
  { unfold mv_parse. rewrite !field_app by lia. reflexivity. }
  assert (E3 : mv_len_ok es (mv_parse f) (nlen (f ++ extra)) = true).
  { unfold mv_len_ok in *. repeat (apply andb_prop in E2; destruct E2 as (E2 & ?)).
    rewrite nlen_app. repeat (apply andb_true_intro; split); try assumption.
    - apply N.leb_le. apply N.leb_le in E2. lia.
    - apply N.leb_le. match goal with h : (_ + MV_HEADER <=? _) = true |- _ => apply N.leb_le in h end. lia. }
  unfold mv_open. rewrite Hp, E1, E3. cbn [andb]. subst n xs. f_equal. f_equal.
  rewrite skipn_app. replace (80 - length f)%nat with 0%nat by lia.
  change (skipn 0 extra) with extra.
  apply read_elems_app. rewrite skipn_length.
  unfold mv_touched_end, MV_HEADER in Hin. rewrite nlen_length in Hin.
  assert (N.of_nat (N.to_nat (h_len (mv_parse f)) * N.to_nat es) = h_len (mv_parse f) * es)
    by (rewrite Nat2N.inj_mul, !N2Nat.id; reflexivity).
  lia.
Qed.
