(* C19: little-endian fields, firstn/skipn bookkeeping *)
From ZV.Common Require Import Base Run.
From ZV.C19 Require Import Model.
Open Scope N_scope.

Lemma pow256_S (n : nat) : 256 ^ N.of_nat (S n) = 256 * 256 ^ N.of_nat n.
Proof. rewrite Nat2N.inj_succ, N.pow_succ_r'. reflexivity. Qed.

Lemma le_bytes_length n v : length (le_bytes n v) = n.
Proof. revert v; induction n as [|n IH]; intros v; cbn [le_bytes length]; [reflexivity|]. now rewrite IH. Qed.

Lemma le_val_le_bytes n v : v < 256 ^ N.of_nat n -> le_val (le_bytes n v) = v.
Proof.
  revert v; induction n as [|n IH]; intros v Hv.
  - cbn [le_bytes le_val]. change (256 ^ N.of_nat 0) with 1 in Hv. lia.
  - cbn [le_bytes le_val]. rewrite pow256_S in Hv. rewrite IH by lia. lia.
Qed.

Lemma le_val_zeros n : le_val (zeros n) = 0.
Proof. induction n as [|n IH]; cbn [zeros le_val]; [reflexivity|]. rewrite IH. reflexivity. Qed.

Lemma zeros_length n : length (zeros n) = n.
Proof. induction n as [|n IH]; cbn [zeros length]; [reflexivity|]. now rewrite IH. Qed.

Lemma nlen_nat {A} (l : list A) : N.to_nat (nlen l) = length l.
Proof. rewrite nlen_length. apply Nat2N.id. Qed.

Lemma skipn_app_exact {A} (a b : list A) n : length a = n -> skipn n (a ++ b) = b.
Proof. intros <-. rewrite skipn_app, skipn_all, Nat.sub_diag. reflexivity. Qed.

Lemma firstn_app_exact {A} (a b : list A) n : length a = n -> firstn n (a ++ b) = a.
Proof. intros <-. rewrite firstn_app, firstn_all, Nat.sub_diag. cbn [firstn]. apply app_nil_r. Qed.

(* a field that sits at offset |pre| of pre ++ x ++ post *)
Lemma field_at (pre x post : list N) off n :
  length pre = off -> length x = n -> field (pre ++ x ++ post) off n = le_val x.
Proof.
  intros Hp Hx. unfold field. rewrite (skipn_app_exact pre _ off Hp).
  rewrite (firstn_app_exact x post n Hx). reflexivity.
Qed.

(* cutting a file after the field does not change the field *)
Lemma field_firstn (f : list N) k off n : (off + n <= k)%nat -> field (firstn k f) off n = field f off n.
Proof.
  intros H. unfold field. rewrite skipn_firstn_comm, firstn_firstn.
  f_equal. f_equal. lia.
Qed.

(* appending to a file does not change a field that lies inside it *)
Lemma field_app (f g : list N) off n : (off + n <= length f)%nat -> field (f ++ g) off n = field f off n.
Proof.
  intros H. unfold field. rewrite skipn_app, firstn_app.
  rewrite skipn_length.
  replace (n - (length f - off))%nat with 0%nat by lia. cbn [firstn]. rewrite app_nil_r. reflexivity.
Qed.

Lemma nlen_firstn {A} (l : list A) k : (k <= length l)%nat -> nlen (firstn k l) = N.of_nat k.
Proof. intros H. rewrite nlen_length, firstn_length. f_equal. lia. Qed.

Lemma skipn_skipn {A} (x y : nat) (l : list A) : skipn x (skipn y l) = skipn (x + y) l.
Proof.
  revert l; induction y as [|y IH]; intros l.
  - rewrite Nat.add_0_r. reflexivity.
  - destruct l as [|a l].
    + rewrite !skipn_nil. reflexivity.
    + rewrite Nat.add_succ_r. cbn [skipn]. apply IH.
Qed.
