(* C19: ZipOffsetBlobStore::save_to_file under the crash relation *)
From ZV.Common Require Import Base Run.
From ZV.C19 Require Import Model ProofsBytes ProofsMv ProofsCrash ProofsHist ModelZo ProofsZo ProofsReplace.
Open Scope N_scope.

(* T: every crash image of save_to_file (temporary file written by five write_all calls, sync_all, rename) leaves the
   store file as it was or holding the complete image; a complete image loads as the saved store, an untouched file
   as whatever it was before *)
Lemma zo_save_crash_safe_proof d path tmp s d' :
  tmp <> path -> zo_wf s -> crash d (zo_save_ops path tmp s) d' ->
  d' path = d path \/ (d' path = Some (zo_save s) /\ zo_load (zo_save s) = Some s).
Proof.
  intros Hne Hwf Hc. unfold zo_save_ops in Hc.
  destruct (replace_multi_crash_safe_proof d path tmp _ d' Hne Hc path) as [E|(_ & E)].
  - intros E; apply Hne; symmetry; exact E.
  - left; exact E.
  - right. split; [exact E|apply zo_reload; exact Hwf].
Qed.

(* saving over an earlier save of a store s0: the file loads as s0 or as s, never as anything else *)
Lemma zo_resave_crash_safe_proof d path tmp s0 s d' :
  tmp <> path -> zo_wf s0 -> zo_wf s -> d path = Some (zo_save s0) -> crash d (zo_save_ops path tmp s) d' ->
  exists f, d' path = Some f /\ (zo_load f = Some s0 \/ zo_load f = Some s).
Proof.
  intros Hne H0 Hs Hd Hc. destruct (zo_save_crash_safe_proof d path tmp s d' Hne Hs Hc) as [E|(E & L)].
  - exists (zo_save s0). split; [congruence|left; apply zo_reload; exact H0].
  - exists (zo_save s). split; [exact E|right; exact L].
Qed.

Example zo_save_ops_example :
  map (fun o => match o with FWrite _ off data => (off, nlen data) | _ => (0, 0) end) (zo_save_ops 1 2 zo_example)
  = [(0, 0); (0, 128); (128, 3); (131, 13); (144, 44); (188, 64); (0, 0); (0, 0)].
Proof. vm_compute. reflexivity. Qed.
