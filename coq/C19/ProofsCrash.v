(* C19: crash images of the sync protocol; set_len images; refutation of the pinned tree's protocol *)
From ZV.Common Require Import Base Run.
From ZV.C19 Require Import Model ProofsBytes ProofsMv.
Open Scope N_scope.

Lemma dset_same d p v : dset d p v p = v.
Proof. unfold dset. rewrite N.eqb_refl. reflexivity. Qed.
Lemma dset_other d p v q : q <> p -> dset d p v q = d q.
Proof. intros H. unfold dset. apply N.eqb_neq in H. rewrite H. reflexivity. Qed.

Lemma skipn_zeros_all n : skipn n (zeros n) = [].
Proof. induction n as [|n IH]; cbn [zeros skipn]; [reflexivity|exact IH]. Qed.

Lemma write_at_empty img : write_at [] 0 img = img.
Proof.
  unfold write_at, resize. cbn [length firstn Nat.add app]. rewrite Nat.max_0_l.
  destruct (length img) eqn:E.
  - destruct img; [reflexivity|discriminate].
  - cbn [firstn]. rewrite Nat.sub_0_r. cbn [app]. rewrite <- E.
    change (firstn (length img) []) with (@nil N) || idtac.
    rewrite skipn_zeros_all || (destruct (length img); cbn [firstn app]; rewrite skipn_zeros_all).
    apply app_nil_r.
Qed.

Lemma firstn_nil_any {A} k : firstn k (@nil A) = [].
Proof. destruct k; reflexivity. Qed.

(* The atomic-replace protocol (temporary sibling file, fsync, rename) used by MmapVec::sync,
   PlainBlobStore::put and SuffixArrayDictionary::save_to_file: seen from any file other than the temporary
   one, every crash image equals the old disk, except that `path` may already hold the complete new content. *)
Section Replace.
  Variables (d : disk) (path tmp : N) (img : list N).
  Hypothesis Hne : tmp <> path.
  Let ops := mv_sync_ops path tmp img.

  Lemma s1_other q : q <> tmp -> apply d (FOpen tmp true true) q = d q.
  Proof. intros H. cbn [apply]. destruct (d tmp); apply dset_other; exact H. Qed.
  Lemma s1_tmp : apply d (FOpen tmp true true) tmp = Some [].
  Proof. cbn [apply]. destruct (d tmp); apply dset_same. Qed.

  Definition view_ok (d' : disk) : Prop :=
    forall q, q <> tmp -> d' q = d q \/ (q = path /\ d' q = Some img).

  Lemma prefix_view k : view_ok (apply_all d (firstn k ops)).
  Proof.
    unfold ops, mv_sync_ops, view_ok. intros q Hq.
    destruct k as [|[|[|[|k]]]]; cbn [firstn apply_all fold_left].
    - left; reflexivity.
    - left. apply s1_other; exact Hq.
    - left. cbn [apply]. rewrite dset_other by exact Hq. apply s1_other; exact Hq.
    - left. cbn [apply]. rewrite dset_other by exact Hq. apply s1_other; exact Hq.
    - rewrite firstn_nil_any. cbn [fold_left].
      set (s1 := apply d (FOpen tmp true true)).
      cbn [apply]. rewrite dset_same.
      destruct (N.eq_dec q path) as [->|Hqp].
      + right. split; [reflexivity|]. rewrite dset_same.
        unfold s1. rewrite s1_tmp. change (N.to_nat 0) with 0%nat. rewrite write_at_empty. reflexivity.
      + left. rewrite dset_other by exact Hqp. rewrite dset_other by exact Hq.
        rewrite dset_other by exact Hq. apply s1_other; exact Hq.
  Qed.

  Lemma replace_atomic_core d' : crash d ops d' -> view_ok d'.
  Proof.
    intros H. inversion H as [k|k o o' Hn Ht|j k o p Hjk Hn Hd Hp|j k p off data s e Hjk Hn Hp Hs He q0 dk]; subst.
    - apply prefix_view.
    - (* torn: only the write of the temporary file can be torn *)
      unfold ops, mv_sync_ops in Hn.
      destruct k as [|[|[|[|k]]]]; cbn [nth_error] in Hn; [| | | |destruct k; discriminate Hn];
        injection Hn as <-; cbn [torn] in Ht; try contradiction.
      destruct Ht as (c & ->). intros q Hq. left.
      cbn [firstn apply_all fold_left]. cbn [apply]. rewrite dset_other by exact Hq. apply s1_other; exact Hq.
    - (* an unsynced write dropped: only the temporary file's write, and only before its fsync *)
      unfold ops, mv_sync_ops in Hn.
      destruct j as [|[|[|[|j]]]]; cbn [nth_error] in Hn; [| | | |destruct j; discriminate Hn];
        injection Hn as <-; cbn [droppable] in Hd; try discriminate.
      injection Hd as <-.
      unfold ops, mv_sync_ops in *. cbn [skipn] in *.
      destruct k as [|[|[|k]]]; try lia.
      + cbn [Nat.sub firstn apply_all fold_left]. intros q Hq. left. apply s1_other; exact Hq.
      + exfalso. cbn [Nat.sub firstn pinned] in Hp. rewrite N.eqb_refl in Hp. discriminate.
    - (* block rollback: same window *)
      unfold ops, mv_sync_ops in Hn.
      destruct j as [|[|[|[|j]]]]; cbn [nth_error] in Hn; [| | | |destruct j; discriminate Hn]; try discriminate.
      injection Hn as <- <- <-.
      unfold ops, mv_sync_ops in *. cbn [skipn] in *.
      destruct k as [|[|[|k]]]; try lia.
      + subst q0 dk. cbn [Nat.sub firstn name_after]. intros q Hq. left.
        rewrite dset_other by exact Hq.
        cbn [firstn apply_all fold_left]. cbn [apply]. rewrite dset_other by exact Hq. apply s1_other; exact Hq.
      + exfalso. cbn [Nat.sub firstn pinned] in Hp. rewrite N.eqb_refl in Hp. discriminate.
  Qed.

  Lemma mv_sync_atomic_core d' : crash d ops d' -> d' path = d path \/ d' path = Some img.
  Proof.
    intros H. destruct (replace_atomic_core d' H path) as [E|(_ & E)].
    - intro E; apply Hne; symmetry; exact E.
    - left; exact E.
    - right; exact E.
  Qed.
End Replace.

(* T: a crash during PlainBlobStore::put / SuffixArrayDictionary::save_to_file / MmapVec::sync leaves every file
   other than the temporary one as it was, except that the target may hold the complete new content *)
Lemma replace_crash_safe_proof d path tmp img d' :
  tmp <> path -> crash d (mv_sync_ops path tmp img) d' ->
  forall q, q <> tmp -> d' q = d q \/ (q = path /\ d' q = Some img).
Proof. intros Hne Hc. eapply replace_atomic_core; eassumption. Qed.

(* T: whatever crash image the fixed sync() leaves, the vector file holds the previously synced image
   or the complete new one, so reopening shows the earlier content or the new content *)
Lemma mv_sync_crash_safe_proof es d path tmp xs cap tail xs' cap' tail' d' :
  tmp <> path -> mv_wf es xs cap tail -> mv_wf es xs' cap' tail' ->
  d path = Some (mv_image es xs cap tail) ->
  crash d (mv_sync_ops path tmp (mv_image es xs' cap' tail')) d' ->
  exists f, d' path = Some f /\
            (mv_open es f = Some (nlen xs, xs) \/ mv_open es f = Some (nlen xs', xs')).
Proof.
  intros Hne Hw Hw' Hd Hc.
  destruct (mv_sync_atomic_core d path tmp _ Hne d' Hc) as [E|E].
  - exists (mv_image es xs cap tail). split; [congruence|]. left. apply mv_reopen_after_clean_sync_proof; assumption.
  - exists (mv_image es xs' cap' tail'). split; [exact E|]. right. apply mv_reopen_after_clean_sync_proof; assumption.
Qed.

(* T: resize_to_capacity's in-place set_len on a synced file: the result is refused or shows the synced content *)
Lemma mv_set_len_safe_proof es xs cap tail n :
  mv_wf es xs cap tail ->
  mv_open es (resize (mv_image es xs cap tail) n) = None \/
  mv_open es (resize (mv_image es xs cap tail) n) = Some (nlen xs, xs).
Proof.
  intros Hw. unfold resize.
  destruct (Nat.lt_ge_cases n (length (mv_image es xs cap tail))) as [Hlt|Hge].
  - left. replace (n - length (mv_image es xs cap tail))%nat with 0%nat by lia.
    cbn [zeros]. rewrite app_nil_r. apply mv_truncated_refused_proof; assumption.
  - right. rewrite firstn_all2 by lia. apply mv_open_extended_proof.
    apply mv_reopen_after_clean_sync_proof; assumption.
Qed.

(* R: the pinned tree (in-place rewrite, header-only validation): a torn rewrite reopens as a vector that
   never existed and get() touches bytes the file does not contain *)
Definition w_old : list N := mv_image 8 [7; 9] 2 [].
Definition w_new : list N := mv_image 8 [7; 9; 11] 4 (zeros 8).
Definition w_disk : disk := dset (fun _ => None) 1 (Some w_old).

Lemma mv_torn_rewrite_v0_refuted_proof :
  exists d', crash w_disk (mv_sync_ops_v0 1 w_new) d' /\
    exists f n xs, d' 1 = Some f /\ mv_open_v0 8 f = Some (n, xs) /\
      xs <> [7; 9] /\ xs <> [7; 9; 11] /\ nlen f < mv_touched_end 8 n /\ mv_open 8 f = None.
Proof.
  eexists. split.
  - apply (crash_torn w_disk (mv_sync_ops_v0 1 w_new) 1 (FWrite 1 0 w_new) (FWrite 1 0 (firstn 33 w_new))).
    + reflexivity.
    + exists 33%nat. reflexivity.
  - exists (firstn 33 w_new), 3, [0; 0; 0].
    split; [vm_compute; reflexivity|].
    split; [vm_compute; reflexivity|].
    split; [discriminate|]. split; [discriminate|].
    split; [vm_compute; reflexivity|vm_compute; reflexivity].
Qed.

(* the hypotheses are inhabited by non-trivial values *)
Example mv_wf_example : mv_wf 8 [7; 9; 18446744073709551615] 5 (zeros 16).
Proof.
  unfold mv_wf. split; [right; right; right; reflexivity|].
  split; [repeat constructor; reflexivity|].
  split; [vm_compute; discriminate|]. split; reflexivity.
Qed.
Example crash_example :
  crash w_disk (mv_sync_ops 1 2 w_new) (apply_all w_disk (firstn 2 (mv_sync_ops 1 2 w_new))).
Proof. exact (crash_prefix w_disk (mv_sync_ops 1 2 w_new) 2). Qed.
(* the magic is the byte string "CEV_PAMM" on disk (little-endian "MMAP_VEC") *)
Example mv_magic_bytes : le_bytes 8 MV_MAGIC = [67; 69; 86; 95; 80; 65; 77; 77].
Proof. reflexivity. Qed.
