(* C19 model, part 3: PlainBlobStore (src/blob_store/plain.rs) as a crash-safe directory store.
   ZV.C03.ModelPlain models the store over a directory map (file names as byte strings, `render` = format!("{}", id),
   `tmp_name` = format!(".{}.tmp", id), put = temporary file + rename, reopen = rescan).  Here the same histories are
   refined to the file operations they issue, so that this property's crash relation (Model.crash) applies.
   Definitions only. *)
From ZV.Common Require Import Base Run.
Require ZV.C03.Model ZV.C03.ModelStore ZV.C03.ModelPlain.
From ZV.C19 Require Import Model ModelZo.
Open Scope N_scope.

Definition fname := C03.ModelPlain.fname.
Definition render := C03.ModelPlain.render.
Definition tmp_name := C03.ModelPlain.tmp_name.

(* file operations on named files *)
Inductive nfop :=
| NOpen (p : fname) (creat trunc : bool)
| NSetLen (p : fname) (n : N)
| NWrite (p : fname) (off : N) (data : list N)
| NFsync (p : fname)
| NRename (a b : fname)
| NUnlink (p : fname).
(* the file system's naming: any injective assignment of names to files (a Section variable in the proofs) *)
Definition to_fop (nm : fname -> N) (o : nfop) : fop :=
  match o with
  | NOpen p c t => FOpen (nm p) c t
  | NSetLen p n => FSetLen (nm p) n
  | NWrite p off data => FWrite (nm p) off data
  | NFsync p => FFsync (nm p)
  | NRename a b => FRename (nm a) (nm b)
  | NUnlink p => FUnlink (nm p)
  end.

(* a history with the record ids resolved *)
Inductive rop :=
| RPut (id : N) (data : list N)       (* put that was handed id *)
| RRemove (id : N).                   (* remove of an existing record *)
(* put: File::create(.id.tmp), write_all(data) (no write for an empty record), sync_all, rename(.id.tmp, id);
   remove: remove_file(id) *)
Definition nreplace (path tmp : fname) (ws : list (list N)) : list nfop :=
  NOpen tmp true true ::
  (fix go (off : N) (ws : list (list N)) : list nfop :=
     match ws with
     | [] => []
     | w :: t => match w with [] => go off t | _ => NWrite tmp off w :: go (off + nlen w) t end
     end) 0 ws
  ++ [NFsync tmp; NRename tmp path].
Definition rop_nops (o : rop) : list nfop :=
  match o with
  | RPut id data => nreplace (render id) (tmp_name id) [data]
  | RRemove id => [NUnlink (render id)]
  end.
Definition rops_nops (h : list rop) : list nfop := flat_map rop_nops h.
Definition rop_ops (nm : fname -> N) (o : rop) : list fop :=
  match o with
  | RPut id data => replace_ops (nm (render id)) (nm (tmp_name id)) [data]
  | RRemove id => [FUnlink (nm (render id))]
  end.
Definition rops_ops (nm : fname -> N) (h : list rop) : list fop := flat_map (rop_ops nm) h.

(* histories as the caller sees them; the ids come from the store (ZV.C03.ModelPlain: next_id, rescan on reopen) *)
Inductive phop :=
| HPut (data : list N)
| HRemove (id : N)
| HReopen.           (* drop the store, PlainBlobStore::new on the same directory *)
Definition resolve_step (st : C03.ModelPlain.plain) (o : phop) : C03.ModelPlain.plain * list rop :=
  match o with
  | HPut data => (fst (C03.ModelPlain.plain_put st data), [RPut (C03.ModelPlain.p_next st) data])
  | HRemove id =>
      match C03.ModelPlain.dlookup (render id) (C03.ModelPlain.p_dir st) with
      | Some _ => (fst (C03.ModelPlain.plain_remove st id), [RRemove id])
      | None => (st, [])                                  (* remove_file fails: no operation reaches the disk *)
      end
  | HReopen => match C03.ModelPlain.plain_open (C03.ModelPlain.p_dir st) with Some st' => (st', []) | None => (st, []) end
  end.
Fixpoint resolve (st : C03.ModelPlain.plain) (ops : list phop) : list rop :=
  match ops with
  | [] => []
  | o :: t => let '(st', r) := resolve_step st o in r ++ resolve st' t
  end.

(* comparison of traced operations (harness cases) *)
Definition nfop_eqb (a b : nfop) : bool :=
  match a, b with
  | NOpen p c t, NOpen p' c' t' => eqb_ln p p' && Bool.eqb c c' && Bool.eqb t t'
  | NSetLen p n, NSetLen p' n' => eqb_ln p p' && (n =? n')
  | NWrite p o d, NWrite p' o' d' => eqb_ln p p' && (o =? o') && eqb_ln d d'
  | NFsync p, NFsync p' => eqb_ln p p'
  | NRename a1 b1, NRename a2 b2 => eqb_ln a1 a2 && eqb_ln b1 b2
  | NUnlink p, NUnlink p' => eqb_ln p p'
  | _, _ => false
  end.
Fixpoint nops_eqb (a b : list nfop) : bool :=
  match a, b with
  | [], [] => true
  | x :: a', y :: b' => nfop_eqb x y && nops_eqb a' b'
  | _, _ => false
  end.
