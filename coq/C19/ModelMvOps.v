(* C19 model, part 4: the in-memory operations of MmapVec (src/memory/mmap_vec.rs) as a state machine over the header
   fields and the length of the backing file: create, push (grow), pop, get_mut, truncate, clear, reserve,
   shrink_to_fit, resize, extend, push_bulk_simd, copy_from_simd, sync, and sync + drop + open.
   resize_to_capacity = sync; set_len; re-read the file into a fresh zeroed allocation; set_capacity; sync.
   `growth_factor : f64` enters only as  (capacity as f64 * growth_factor) as usize : an arbitrary function gf.
   None = the operation panics (checked usize arithmetic of the baseline profile) or returns Err.
   Definitions only. *)
From ZV.Common Require Import Base Run.
From ZV.C19 Require Import Model.
Open Scope N_scope.

Record mvs := { s_xs : list N;      (* the elements 0..len (header.length = their number) *)
                s_cap : N;          (* header.capacity *)
                s_flen : N }.       (* length of the backing file *)

Inductive mvop :=
| OPush (v : N)
| OPop
| OSet (i v : N)                    (* if let Some(x) = get_mut(i) { *x = v } *)
| OTruncate (n : N)
| OClear
| OReserve (n : N)
| OShrink
| OResize (n v : N)
| OExtend (hint : N) (vs : list N)  (* hint = the iterator's size_hint().0 (= |vs| for a Vec) *)
| OBulk (vs : list N)               (* push_bulk_simd *)
| OCopyFrom (vs : list N)           (* copy_from_simd(other) with other.as_slice() = vs *)
| OSync
| OReopen.                          (* sync(); drop; MmapVec::open *)

Section Ops.
  Variable gf : N -> N.             (* (capacity as f64 * growth_factor) as usize *)
  Variable es : N.                  (* size_of::<T>() *)
  Variable sow : bool.              (* config.sync_on_write *)

  Definition file_size (cap : N) : N := MV_HEADER + cap * es.     (* calculate_file_size / file_size_from_header *)
  Definition st_sync (s : mvs) : mvs := {| s_xs := s_xs s; s_cap := s_cap s; s_flen := file_size (s_cap s) |}.
  Definition st_sow (s : mvs) : mvs := if sow then st_sync s else s.
  Definition st_set_xs (s : mvs) (xs : list N) : mvs := {| s_xs := xs; s_cap := s_cap s; s_flen := s_flen s |}.

  (* resize_to_capacity: only the elements below the old capacity are written by sync, only those below the new
     capacity survive set_len; the rest of the fresh allocation is zero; header.length is carried over unchanged *)
  Definition st_resize_cap (s : mvs) (new : N) : option mvs :=
    if W64 <=? file_size new then None
    else let keep := N.min (s_cap s) new in
         let xs := if nlen (s_xs s) <=? keep then s_xs s
                   else firstn (N.to_nat keep) (s_xs s) ++ zeros (length (s_xs s) - N.to_nat keep) in
         Some {| s_xs := xs; s_cap := new; s_flen := file_size new |}.
  Definition st_grow (s : mvs) : option mvs := st_resize_cap s (N.max (gf (s_cap s)) (s_cap s + 1)).
  Definition st_reserve (s : mvs) (additional : N) : option mvs :=
    let required := nlen (s_xs s) + additional in
    if W64 <=? required then None
    else if s_cap s <? required then st_resize_cap s (N.max required (gf (s_cap s))) else Some s.
  Definition st_push (s : mvs) (v : N) : option mvs :=
    match (if s_cap s <=? nlen (s_xs s) then st_grow s else Some s) with
    | None => None
    | Some s1 => Some (st_sow (st_set_xs s1 (s_xs s1 ++ [v])))
    end.
  Fixpoint st_push_all (s : mvs) (vs : list N) : option mvs :=
    match vs with
    | [] => Some s
    | v :: t => match st_push s v with Some s1 => st_push_all s1 t | None => None end
    end.
  Definition st_truncate (s : mvs) (n : N) : mvs :=
    if n <? nlen (s_xs s) then st_sow (st_set_xs s (firstn (N.to_nat n) (s_xs s))) else s.
  Fixpoint set_nth (xs : list N) (i : nat) (v : N) : list N :=
    match xs, i with
    | [], _ => []
    | _ :: t, O => v :: t
    | x :: t, S k => x :: set_nth t k v
    end.
  Fixpoint fill (n : nat) (v : N) : list N := match n with O => [] | S k => v :: fill k v end.

  Definition st_step (s : mvs) (o : mvop) : option mvs :=
    match o with
    | OPush v => st_push s v
    | OPop => match s_xs s with
              | [] => Some s
              | _ => Some (st_sow (st_set_xs s (removelast (s_xs s))))
              end
    | OSet i v => if i <? nlen (s_xs s) then Some (st_set_xs s (set_nth (s_xs s) (N.to_nat i) v)) else Some s
    | OTruncate n => Some (st_truncate s n)
    | OClear => Some (st_sow (st_set_xs s []))
    | OReserve n => st_reserve s n
    | OShrink => if nlen (s_xs s) <? s_cap s then st_resize_cap s (N.max (nlen (s_xs s)) 1) else Some s
    | OResize n v =>
        if nlen (s_xs s) <? n then
          match st_reserve s (n - nlen (s_xs s)) with
          | None => None
          | Some s1 => Some (st_sow (st_set_xs s1 (s_xs s1 ++ fill (N.to_nat n - length (s_xs s1)) v)))
          end
        else Some (st_sow (st_truncate s n))
    | OExtend hint vs =>
        match (if 0 <? hint then st_reserve s hint else Some s) with
        | None => None
        | Some s1 => st_push_all s1 vs
        end
    | OBulk vs =>
        match vs with
        | [] => Some s
        | _ => match (if s_cap s <? nlen (s_xs s) + nlen vs then st_reserve s (nlen vs) else Some s) with
               | None => None
               | Some s1 => Some (st_sow (st_set_xs s1 (s_xs s1 ++ vs)))
               end
        end
    | OCopyFrom vs =>
        match vs with
        | [] => Some (st_sow (st_set_xs s []))
        | _ => match (if s_cap s <? nlen vs
                      then (if nlen vs <? nlen (s_xs s) then None        (* other.len() - self.len() underflows *)
                            else st_reserve s (nlen vs - nlen (s_xs s)))
                      else Some s) with
               | None => None
               | Some s1 => Some (st_sow (st_set_xs s1 vs))
               end
        end
    | OSync => Some (st_sync s)
    | OReopen =>
        (* the synced file is header(len, cap) + cap elements; open = validate + validate_file_length *)
        let s1 := st_sync s in
        if (nlen (s_xs s1) <=? s_cap s1) && (file_size (s_cap s1) <? W64) && (file_size (s_cap s1) <=? s_flen s1)
        then Some s1 else None
    end.
  Fixpoint st_run (s : mvs) (ops : list mvop) : option mvs :=
    match ops with
    | [] => Some s
    | o :: t => match st_step s o with Some s1 => st_run s1 t | None => None end
    end.
  (* the states after each operation (for the harness cases); stops at the first failing operation *)
  Fixpoint st_trace (s : mvs) (ops : list mvop) : list mvs :=
    match ops with
    | [] => []
    | o :: t => match st_step s o with Some s1 => s1 :: st_trace s1 t | None => [] end
    end.

  (* the seeded regression of copy_from_simd: reserve(other.len() - self.capacity()) *)
  Definition st_copy_from_bad (s : mvs) (vs : list N) : option mvs :=
    match vs with
    | [] => Some (st_sow (st_set_xs s []))
    | _ => match (if s_cap s <? nlen vs then st_reserve s (nlen vs - s_cap s) else Some s) with
           | None => None
           | Some s1 => Some (st_sow (st_set_xs s1 vs))
           end
    end.
End Ops.

(* MmapVec::create *)
Definition st_create (es ic : N) : mvs := {| s_xs := []; s_cap := ic; s_flen := MV_HEADER + ic * es |}.

(* the header invariant, and what an operation list may carry *)
Definition st_inv (es : N) (s : mvs) : Prop :=
  nlen (s_xs s) <= s_cap s /\ MV_HEADER + s_cap s * es <= s_flen s /\ MV_HEADER + s_cap s * es < W64.
Definition op_vals (P : N -> Prop) (o : mvop) : Prop :=
  match o with
  | OPush v | OSet _ v | OResize _ v => P v
  | OExtend _ vs | OBulk vs | OCopyFrom vs => Forall P vs
  | _ => True
  end.
Definition op_vals_ok (es : N) (o : mvop) : Prop := op_vals (fun x => x < 256 ^ es) o.   (* values of type T *)

(* growth as a finite table (harness cases): capacities at which the real run evaluated the growth formula *)
Fixpoint gf_table (tab : list (N * N)) (c : N) : N :=
  match tab with [] => 0 | (k, v) :: t => if k =? c then v else gf_table t c end.
