(* C06 / GoldHashMap: the structure invariant; relink, rehash and compaction re-establish it. *)
From ZV.Common Require Import Base.
From ZV.C06 Require Import Model ModelGold Spec ProofsList ProofsGoldChain ProofsGoldRelink.
From Coq Require Import Permutation.
Open Scope N_scope.

Section GoldInv.
  Variable h : N -> N.
  Variable ml : N -> N.
  Variable cfg : gcfg.

  Definition nbk (g : gold) : nat := length (g_buckets g).
  Definition hb (nb : nat) (k : N) : nat := N.to_nat (h k mod N.of_nat nb).

  Definition cache_ok (c : option (list N)) (es : list gentry) : Prop :=
    forall cl, c = Some cl -> length cl = length es /\
      forall i, (i < length es)%nat -> glive (nth i es gdummy) = true -> nth i cl 0 = h (g_key (nth i es gdummy)).

  Definition fl_ok (fl : list nat) (es : list gentry) : Prop :=
    NoDup fl /\ forall i, In i fl -> (i < length es)%nat /\ glive (nth i es gdummy) = false.

  Definition chains_ok (bs : list link) (es : list gentry) : Prop :=
    (forall b, (b < length bs)%nat -> exists c, chain es (nth b bs Tail) c
        /\ forall i, In i c -> hb (length bs) (g_key (nth i es gdummy)) = b)
    /\ (forall i, (i < length es)%nat -> glive (nth i es gdummy) = true ->
        exists c, chain es (nth (hb (length bs) (g_key (nth i es gdummy))) bs Tail) c /\ In i c).

  Record GI (g : gold) : Prop := mkGI {
    gi_nb : (0 < nbk g)%nat;
    gi_chains : chains_ok (g_buckets g) (g_entries g);
    gi_cache : cache_ok (g_cache g) (g_entries g);
    gi_fl : fl_ok (g_fl g) (g_entries g);
    gi_len : g_len g = nlen (filter glive (g_entries g))
  }.

  Definition GR (g : gold) (m : smap) : Prop :=
    GI g /\ Permutation (map gkv (filter glive (g_entries g))) m /\ NoDup (map fst m).

  Lemma hb_lt nb k : (0 < nb)%nat -> (hb nb k < nb)%nat.
  Proof.
    intros NB. unfold hb. assert (N.of_nat nb <> 0) by lia.
    pose proof (N.mod_lt (h k) (N.of_nat nb) H). lia.
  Qed.

  (* ---- relink ---- *)
  Lemma relink_go_rl g es0 nb : forall n bs es i,
    (forall j, g_key (nth j es gdummy) = g_key (nth j es0 gdummy)) ->
    relink_go h g nb bs es i n = rl_go (hash_at h g es0) nb bs es i n.
  Proof.
    induction n as [|n IH]; intros bs es i Hk; cbn [relink_go rl_go]; [reflexivity|].
    destruct (is_del (g_link (nth i es gdummy))); [apply IH; exact Hk|].
    assert (E : hash_at h g es i = hash_at h g es0 i).
    { unfold hash_at. destruct (g_cache g); [reflexivity|]. rewrite Hk. reflexivity. }
    unfold bk. rewrite E. apply IH.
    intros j. destruct (Nat.eq_dec j i) as [->|Hj].
    - destruct (Nat.lt_ge_cases i (length es)) as [Hi|Hi].
      + rewrite nth_upd_same by exact Hi. cbn [g_key]. apply Hk.
      + rewrite (nth_overflow (upd es i _)) by (rewrite length_upd; lia).
        rewrite <- Hk. rewrite (nth_overflow es) by lia. reflexivity.
    - rewrite nth_upd_other by congruence. apply Hk.
  Qed.

  Lemma same_kl_cache c es es' : same_kl es es' -> cache_ok c es -> cache_ok c es'.
  Proof.
    intros [Hl Hs] Hc cl E. destruct (Hc cl E) as [L V]. split; [congruence|].
    intros i Hi Li. destruct (Hs i) as [K Lv]. rewrite K. apply V; [lia|congruence].
  Qed.

  Lemma same_kl_fl fl es es' : same_kl es es' -> fl_ok fl es -> fl_ok fl es'.
  Proof.
    intros [Hl Hs] [ND Hf]. split; [exact ND|]. intros i Hi. destruct (Hf i Hi) as [A B].
    destruct (Hs i) as [_ Lv]. split; [lia|congruence].
  Qed.

  Lemma same_kl_nlen es es' : same_kl es es' -> nlen (filter glive es') = nlen (filter glive es).
  Proof. intros S. rewrite !nlen_length. f_equal. apply same_kl_len. exact S. Qed.

  (* relink re-establishes the chains from any bucket/link state, keeping keys, values, liveness *)
  Lemma relink_spec g :
    (0 < nbk g)%nat -> cache_ok (g_cache g) (g_entries g) ->
    let g' := relink h g in
    same_kvl (g_entries g) (g_entries g') /\ length (g_buckets g') = nbk g
    /\ chains_ok (g_buckets g') (g_entries g')
    /\ g_cache g' = g_cache g /\ g_len g' = g_len g /\ g_maxload g' = g_maxload g
    /\ g_flsize g' = g_flsize g /\ g_fl g' = g_fl g.
  Proof.
    intros NB CO. unfold relink. fold (nbk g).
    rewrite (relink_go_rl g (g_entries g)) by (intros; reflexivity).
    set (hf := hash_at h g (g_entries g)).
    pose proof (rl_go_spec hf (nbk g) NB (g_entries g) (length (g_entries g)) _ _ O
                  (RL_init hf (nbk g) NB (g_entries g)) eq_refl) as HR.
    destruct (rl_go hf (nbk g) (repeat Tail (nbk g)) (g_entries g) 0 (length (g_entries g))) as [bs es].
    cbn [fst snd] in HR. cbn [g_entries g_buckets g_cache g_len g_maxload g_flsize g_fl].
    destruct HR as [Lb [SK HC]].
    split; [exact SK|]. split; [exact Lb|]. split; [|repeat split].
    (* the abstract bucket of a live entry is the bucket of its key *)
    assert (BK : forall j, (j < length (g_entries g))%nat -> glive (nth j (g_entries g) gdummy) = true ->
                 bk hf (nbk g) j = hb (nbk g) (g_key (nth j es gdummy))).
    { intros j Hj Lj. unfold bk, hb, hf, hash_at. destruct SK as [_ Hs]. destruct (Hs j) as [K _]. rewrite K.
      destruct (g_cache g) as [cl|] eqn:Ec; [|reflexivity].
      destruct (CO cl eq_refl) as [_ V]. rewrite (V j Hj Lj). reflexivity. }
    destruct SK as [Le Hs].
    split.
    - intros b Hb. rewrite Lb in Hb. destruct (HC b Hb) as [c [C [H1 H2]]]. exists c. split; [exact C|].
      intros i Hi. destruct (H1 i Hi) as [Hlt Bi]. rewrite Lb.
      destruct (chain_in _ _ _ _ C Hi) as [_ Li]. destruct (Hs i) as [_ [_ Lv]].
      rewrite <- BK; [exact Bi|exact Hlt|congruence].
    - intros i Hi Li. rewrite Lb. rewrite Le in Hi. destruct (Hs i) as [_ [_ Lv]].
      assert (Li0 : glive (nth i (g_entries g) gdummy) = true) by congruence.
      destruct (HC (bk hf (nbk g) i) (bk_lt hf (nbk g) NB i)) as [c [C [_ H2]]].
      exists c. rewrite <- (BK i Hi Li0). split; [exact C|]. apply H2; [exact Hi|exact Li0|reflexivity].
  Qed.

  Lemma relink_GI g m :
    (0 < nbk g)%nat -> cache_ok (g_cache g) (g_entries g) -> fl_ok (g_fl g) (g_entries g) ->
    g_len g = nlen (filter glive (g_entries g)) ->
    Permutation (map gkv (filter glive (g_entries g))) m -> NoDup (map fst m) ->
    GR (relink h g) m.
  Proof.
    intros NB CO FO LE P ND.
    destruct (relink_spec g NB CO) as [SK [Lb [CH [Ec [El [_ [_ Ef]]]]]]].
    split; [|split; [|exact ND]].
    - constructor.
      + unfold nbk. rewrite Lb. exact NB.
      + exact CH.
      + rewrite Ec. eapply same_kl_cache; [apply same_kvl_kl; exact SK|exact CO].
      + rewrite Ef. eapply same_kl_fl; [apply same_kvl_kl; exact SK|exact FO].
      + rewrite El, LE. symmetry. apply same_kl_nlen. apply same_kvl_kl. exact SK.
    - rewrite (same_kvl_filter _ _ SK). exact P.
  Qed.
End GoldInv.
