(* C06 / GoldHashIdx: cyclic positions, probe paths, the probe loops. *)
From ZV.Common Require Import Base.
From ZV.C06 Require Import Model ModelIdx Spec ProofsList.
From Coq Require Import Permutation.
Open Scope nat_scope.

(* addition modulo n on residues, without division *)
Definition addm (n a b : nat) : nat := if a + b <? n then a + b else a + b - n.

Ltac addm_crush :=
  unfold addm in *;
  repeat match goal with
         | |- context [?a <? ?b] => destruct (Nat.ltb_spec a b)
         | H : context [?a <? ?b] |- _ => destruct (Nat.ltb_spec a b)
         end; try lia.

Lemma mod_addm n a b : a < n -> b < n -> (a + b) mod n = addm n a b.
Proof.
  intros Ha Hb. unfold addm. destruct (Nat.ltb_spec (a + b) n).
  - apply Nat.mod_small. assumption.
  - set (c := a + b - n). assert (E : a + b = c + 1 * n) by (unfold c; lia).
    rewrite E, Nat.mod_add by lia. apply Nat.mod_small. unfold c; lia.
Qed.

Lemma addm_lt n a b : a < n -> b < n -> addm n a b < n.
Proof. intros; addm_crush. Qed.
Lemma addm_0 n a : a < n -> addm n a 0 = a.
Proof. intros; addm_crush. Qed.
Lemma addm_inj n a b c : a < n -> b < n -> c < n -> addm n a b = addm n a c -> b = c.
Proof. intros; addm_crush. Qed.
Lemma addm_assoc n a b c : a < n -> b < n -> c < n -> addm n (addm n a b) c = addm n a (addm n b c).
Proof. intros; addm_crush. Qed.
(* every residue is reached from a *)
Lemma addm_surj n a p : a < n -> p < n -> exists u, u < n /\ addm n a u = p.
Proof.
  intros Ha Hp. destruct (Nat.le_gt_cases a p).
  - exists (p - a). split; [lia|]. addm_crush.
  - exists (p + n - a). split; [lia|]. addm_crush.
Qed.
Lemma addm_succ n a u : a < n -> u < n -> S u < n -> addm n a (S u) = (S (addm n a u)) mod n.
Proof.
  intros Ha Hu Hs. unfold addm.
  destruct (Nat.ltb_spec (a + u) n), (Nat.ltb_spec (a + S u) n); try lia.
  - rewrite Nat.mod_small by lia. lia.
  - replace (S (a + u)) with (0 + 1 * n) by lia. rewrite Nat.mod_add by lia. rewrite Nat.mod_small by lia. lia.
  - rewrite Nat.mod_small by lia. lia.
Qed.

Lemma ipath_addm cap d : d < cap -> ipath cap d = map (addm cap d) (seq 0 cap).
Proof.
  intros Hd. unfold ipath. apply map_ext_in. intros i Hi. apply in_seq in Hi. apply mod_addm; lia.
Qed.

Lemma ihome_lt cap hash : 0 < cap -> ihome cap hash < cap.
Proof.
  intros Hc. unfold ihome. assert (N.of_nat cap <> 0%N) by lia.
  pose proof (N.mod_lt hash (N.of_nat cap) H). lia.
Qed.

Definition somep (t : list (option ibucket)) (p : nat) : Prop := nth p t None <> None.

Lemma somep_dec t p : {somep t p} + {nth p t None = None}.
Proof. unfold somep. destruct (nth p t None); [left; discriminate|right; reflexivity]. Qed.

(* ---------- iscan over an arithmetic path ---------- *)
Section Scan.
  Variables (t : list (option ibucket)) (H K : N) (f : nat -> nat).

  Lemma iscan_found_at : forall n a i b,
    i < n ->
    (forall j, j < i -> exists b', nth (f (a + j)) t None = Some b' /\ ibmatch b' H K = false) ->
    nth (f (a + i)) t None = Some b -> ibmatch b H K = true ->
    iscan t H K (map f (seq a n)) = IFound (f (a + i)) b.
  Proof.
    induction n as [|n IH]; intros a i b Hi Hbefore Hat Hm; [lia|].
    cbn [seq map iscan]. destruct i as [|i].
    - rewrite Nat.add_0_r in Hat. rewrite Hat, Hm. rewrite Nat.add_0_r. reflexivity.
    - destruct (Hbefore 0 ltac:(lia)) as [b' [E M]]. rewrite Nat.add_0_r in E. rewrite E, M.
      replace (a + S i) with (S a + i) in * by lia. apply IH; try assumption; [lia|].
      intros j Hj. replace (S a + j) with (a + S j) by lia. apply Hbefore. lia.
  Qed.

  Lemma iscan_empty_at : forall n a i,
    i < n ->
    (forall j, j < i -> exists b', nth (f (a + j)) t None = Some b' /\ ibmatch b' H K = false) ->
    nth (f (a + i)) t None = None ->
    iscan t H K (map f (seq a n)) = IEmpty (f (a + i)).
  Proof.
    induction n as [|n IH]; intros a i Hi Hbefore Hat; [lia|].
    cbn [seq map iscan]. destruct i as [|i].
    - rewrite Nat.add_0_r in Hat. rewrite Hat. rewrite Nat.add_0_r. reflexivity.
    - destruct (Hbefore 0 ltac:(lia)) as [b' [E M]]. rewrite Nat.add_0_r in E. rewrite E, M.
      replace (a + S i) with (S a + i) in * by lia. apply IH; try assumption; [lia|].
      intros j Hj. replace (S a + j) with (a + S j) by lia. apply Hbefore. lia.
  Qed.

  (* what each outcome says *)
  Lemma iscan_spec : forall n a,
    match iscan t H K (map f (seq a n)) with
    | IFound p b => exists i, i < n /\ p = f (a + i) /\ nth p t None = Some b /\ ibmatch b H K = true
                    /\ forall j, j < i -> exists b', nth (f (a + j)) t None = Some b' /\ ibmatch b' H K = false
    | IEmpty p => exists i, i < n /\ p = f (a + i) /\ nth p t None = None
                    /\ forall j, j < i -> exists b', nth (f (a + j)) t None = Some b' /\ ibmatch b' H K = false
    | IExhausted => forall j, j < n -> exists b', nth (f (a + j)) t None = Some b' /\ ibmatch b' H K = false
    end.
  Proof.
    induction n as [|n IH]; intros a; cbn [seq map iscan]; [intros j Hj; lia|].
    destruct (nth (f a) t None) as [b|] eqn:E.
    - destruct (ibmatch b H K) eqn:M.
      + exists 0. rewrite Nat.add_0_r. repeat split; try assumption; [lia|intros j Hj; lia].
      + specialize (IH (S a)).
        assert (Shift : forall j, j < 1 -> exists b', nth (f (a + j)) t None = Some b' /\ ibmatch b' H K = false).
        { intros j Hj. assert (j = 0) by lia. subst j. rewrite Nat.add_0_r. exists b. split; assumption. }
        destruct (iscan t H K (map f (seq (S a) n))) as [p b1|p|].
        * destruct IH as [i [Hi [Ep [En [Em Hb]]]]]. exists (S i). replace (a + S i) with (S a + i) by lia.
          repeat split; try assumption; [lia|].
          intros j Hj. destruct j as [|j]; [apply Shift; lia|].
          replace (a + S j) with (S a + j) by lia. apply Hb. lia.
        * destruct IH as [i [Hi [Ep [En Hb]]]]. exists (S i). replace (a + S i) with (S a + i) by lia.
          repeat split; try assumption; [lia|].
          intros j Hj. destruct j as [|j]; [apply Shift; lia|].
          replace (a + S j) with (S a + j) by lia. apply Hb. lia.
        * intros j Hj. destruct j as [|j]; [apply Shift; lia|].
          replace (a + S j) with (S a + j) by lia. apply IH. lia.
    - exists 0. rewrite Nat.add_0_r. repeat split; try assumption; [lia|intros j Hj; lia].
  Qed.
End Scan.

(* first empty slot along a path *)
Lemma ifirst_none_spec t f : forall n a,
  match ifirst_none t (map f (seq a n)) with
  | Some q => exists i, i < n /\ q = f (a + i) /\ nth q t None = None /\ forall j, j < i -> somep t (f (a + j))
  | None => forall j, j < n -> somep t (f (a + j))
  end.
Proof.
  induction n as [|n IH]; intros a; cbn [seq map ifirst_none]; [intros j Hj; lia|].
  destruct (nth (f a) t None) as [b|] eqn:E.
  - specialize (IH (S a)).
    assert (S0 : somep t (f (a + 0))) by (rewrite Nat.add_0_r; unfold somep; rewrite E; discriminate).
    destruct (ifirst_none t (map f (seq (S a) n))) as [q|].
    + destruct IH as [i [Hi [Eq [En Hb]]]]. exists (S i). replace (a + S i) with (S a + i) by lia.
      repeat split; try assumption; [lia|].
      intros j Hj. destruct j as [|j]; [exact S0|]. replace (a + S j) with (S a + j) by lia. apply Hb. lia.
    + intros j Hj. destruct j as [|j]; [exact S0|]. replace (a + S j) with (S a + j) by lia. apply IH. lia.
  - exists 0. rewrite Nat.add_0_r. repeat split; try assumption; [lia|intros j Hj; lia].
Qed.

(* ---------- the occupied slots as a list ---------- *)
Definition olist {A} (o : option A) : list A := match o with Some x => [x] | None => [] end.
Definition somes (t : list (option ibucket)) : list ibucket := flat_map olist t.

Lemma somes_upd t p o :
  p < length t ->
  exists X, Permutation (somes t) (olist (nth p t None) ++ X) /\ Permutation (somes (upd t p o)) (olist o ++ X).
Proof.
  revert p; induction t as [|a t IH]; intros [|p] Hp; cbn [length] in Hp; try lia.
  - exists (somes t). cbn [upd nth somes flat_map]. split; apply Permutation_refl.
  - destruct (IH p ltac:(lia)) as [X [P1 P2]]. exists (olist a ++ X).
    cbn [upd nth somes flat_map]. fold (somes t). fold (somes (upd t p o)). split.
    + rewrite P1. apply Permutation_app_swap_app.
    + rewrite P2. apply Permutation_app_swap_app.
Qed.

Lemma somes_in t b : In b (somes t) <-> exists p, p < length t /\ nth p t None = Some b.
Proof.
  unfold somes. rewrite in_flat_map. split.
  - intros [o [Ho Hb]]. destruct o as [b'|]; cbn in Hb; [|tauto]. destruct Hb as [<-|[]].
    destruct (In_nth _ _ None Ho) as [p [Hp E]]. exists p. split; assumption.
  - intros [p [Hp E]]. exists (Some b). split; [rewrite <- E; apply nth_In; exact Hp|left; reflexivity].
Qed.

Lemma somes_repeat n : somes (repeat None n) = [].
Proof. induction n as [|n IH]; [reflexivity|]. cbn [repeat somes flat_map olist app]. exact IH. Qed.

Lemma nodup_app_r {A} (a b : list A) : NoDup (a ++ b) -> NoDup b.
Proof. induction a as [|x a IH]; cbn [app]; intros ND; [exact ND|]. inversion ND; subst. apply IH. assumption. Qed.

(* distinct keys at list level imply distinct positions *)
Lemma keys_nodup_pos : forall t p q b1 b2,
  NoDup (map ib_key (somes t)) -> p < length t -> q < length t ->
  nth p t None = Some b1 -> nth q t None = Some b2 -> ib_key b1 = ib_key b2 -> p = q.
Proof.
  induction t as [|a t IH]; intros p q b1 b2 ND Hp Hq E1 E2 Ek; cbn [length] in *; [lia|].
  cbn [somes flat_map] in ND. fold (somes t) in ND. rewrite map_app in ND.
  destruct p as [|p], q as [|q]; cbn [nth] in *.
  - reflexivity.
  - exfalso. subst a. cbn [olist map app] in ND. inversion ND as [|? ? Hn _]; subst. apply Hn.
    rewrite Ek. apply in_map. apply somes_in. exists q. split; [lia|exact E2].
  - exfalso. subst a. cbn [olist map app] in ND. inversion ND as [|? ? Hn _]; subst. apply Hn.
    rewrite <- Ek. apply in_map. apply somes_in. exists p. split; [lia|exact E1].
  - f_equal. eapply IH; try eassumption; try lia. apply nodup_app_r in ND. exact ND.
Qed.

(* a table with fewer buckets than slots has an empty slot *)
Lemma exists_none t : length (somes t) < length t -> exists p, p < length t /\ nth p t None = None.
Proof.
  induction t as [|a t IH]; cbn [length somes flat_map]; intros Hl; [lia|]. fold (somes t) in Hl.
  destruct a as [b|].
  - cbn [olist app length] in Hl. destruct (IH ltac:(lia)) as [p [Hp E]]. exists (S p). split; [lia|exact E].
  - exists 0. split; [lia|reflexivity].
Qed.
