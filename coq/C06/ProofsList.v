(* C06: list facts - point update, filters under point update, counting, the spec map. *)
From ZV.Common Require Import Base.
From ZV.C06 Require Import Model Spec.
From Coq Require Import Permutation.
Open Scope N_scope.

(* ---------- upd ---------- *)
Lemma length_upd {A} (l : list A) n x : length (upd l n x) = length l.
Proof.
  revert n; induction l as [|a l IH]; intros [|n]; cbn [upd length]; auto.
Qed.

Lemma nth_upd_same {A} (l : list A) n x d : (n < length l)%nat -> nth n (upd l n x) d = x.
Proof.
  revert n; induction l as [|a l IH]; intros [|n] Hn; cbn [upd nth length] in *; try lia; auto.
  apply IH; lia.
Qed.

Lemma nth_upd_other {A} (l : list A) n m x d : n <> m -> nth m (upd l n x) d = nth m l d.
Proof.
  revert n m; induction l as [|a l IH]; intros [|n] [|m] Hnm; cbn [upd nth]; auto; try congruence.
Qed.

Definition optf {A} (f : A -> bool) (x : A) : list A := if f x then [x] else [].

Lemma filter_cons_optf {A} (f : A -> bool) a l : filter f (a :: l) = optf f a ++ filter f l.
Proof. unfold optf; cbn [filter]; destruct (f a); reflexivity. Qed.

(* the filtered list before and after a point update differ in that one element only *)
Lemma filter_upd {A} (f : A -> bool) (l : list A) n x d :
  (n < length l)%nat ->
  exists X, Permutation (filter f l) (optf f (nth n l d) ++ X)
         /\ Permutation (filter f (upd l n x)) (optf f x ++ X).
Proof.
  revert n; induction l as [|a l IH]; intros [|n] Hn; cbn [length] in Hn; try lia.
  - exists (filter f l). cbn [upd nth]. rewrite !filter_cons_optf. split; apply Permutation_refl.
  - destruct (IH n ltac:(lia)) as [X [P1 P2]].
    exists (optf f a ++ X). cbn [upd nth]. rewrite !filter_cons_optf. split.
    + rewrite P1. apply Permutation_app_swap_app.
    + rewrite P2. apply Permutation_app_swap_app.
Qed.

Lemma filter_all {A} (f : A -> bool) (l : list A) :
  (forall x, In x l -> f x = true) -> filter f l = l.
Proof.
  induction l as [|a l IH]; intros H; cbn [filter]; [reflexivity|].
  rewrite (H a (or_introl eq_refl)). f_equal. apply IH. intros x Hx; apply H; right; exact Hx.
Qed.

Lemma filter_none {A} (f : A -> bool) (l : list A) :
  (forall x, In x l -> f x = false) -> filter f l = [].
Proof.
  induction l as [|a l IH]; intros H; cbn [filter]; [reflexivity|].
  rewrite (H a (or_introl eq_refl)). apply IH. intros x Hx; apply H; right; exact Hx.
Qed.

(* pigeonhole: fewer selected elements than positions -> some position is not selected *)
Lemma exists_unselected {A} (f : A -> bool) (l : list A) d :
  (length (filter f l) < length l)%nat ->
  exists p, (p < length l)%nat /\ f (nth p l d) = false.
Proof.
  induction l as [|a l IH]; cbn [filter length]; intros H; [lia|].
  destruct (f a) eqn:Fa.
  - cbn [length] in H. destruct (IH ltac:(lia)) as [p [Hp Hf]].
    exists (S p); split; [lia|exact Hf].
  - exists O; split; [lia|exact Fa].
Qed.

Lemma nlen_perm {A} (a b : list A) : Permutation a b -> nlen a = nlen b.
Proof. intros P. rewrite !nlen_length. f_equal. apply Permutation_length; exact P. Qed.

(* ---------- the spec map ---------- *)
Lemma sget_in m k v : NoDup (map fst m) -> (sget m k = Some v <-> In (k, v) m).
Proof.
  induction m as [|[k' v'] m IH]; cbn [sget map fst In]; intros ND.
  - split; [discriminate|tauto].
  - inversion ND as [|? ? Hnotin ND']; subst.
    destruct (N.eqb_spec k' k) as [->|Hne].
    + split.
      * intros [= ->]; left; reflexivity.
      * intros [[= ->]|Hin]; [reflexivity|].
        exfalso; apply Hnotin. apply (in_map fst) in Hin; exact Hin.
    + rewrite (IH ND'). split; [intros Hin; right; exact Hin|].
      intros [[= -> ->]|Hin]; [congruence|exact Hin].
Qed.

Lemma sget_none m k : sget m k = None <-> ~ In k (map fst m).
Proof.
  induction m as [|[k' v'] m IH]; cbn [sget map fst In].
  - tauto.
  - destruct (N.eqb_spec k' k) as [->|Hne].
    + split; [discriminate|intros H; exfalso; apply H; left; reflexivity].
    + rewrite IH. split; [intros H [E|I]; [congruence|exact (H I)]|intros H I; apply H; right; exact I].
Qed.

Lemma sremove_absent m k : ~ In k (map fst m) -> sremove m k = m.
Proof.
  intros H. unfold sremove. apply filter_all. intros [k' v'] Hin. cbn [fst].
  destruct (N.eqb_spec k' k) as [->|]; [|reflexivity].
  exfalso; apply H. apply (in_map fst) in Hin; exact Hin.
Qed.

Lemma sremove_keys m k : forall x, In x (map fst (sremove m k)) -> In x (map fst m) /\ x <> k.
Proof.
  intros x Hx. apply in_map_iff in Hx. destruct Hx as [[k' v'] [<- Hin]].
  unfold sremove in Hin. apply filter_In in Hin. destruct Hin as [Hin Hb]. cbn [fst] in *.
  split; [apply (in_map fst) in Hin; exact Hin|].
  destruct (N.eqb_spec k' k); [discriminate|assumption].
Qed.

Lemma sremove_nodup m k : NoDup (map fst m) -> NoDup (map fst (sremove m k)).
Proof.
  induction m as [|[k' v'] m IH]; cbn [sremove filter map fst]; intros ND; [constructor|].
  inversion ND as [|? ? Hnotin ND']; subst. fold (sremove m k).
  destruct (N.eqb_spec k' k); cbn [negb]; [apply IH; exact ND'|].
  cbn [map fst]. constructor; [|apply IH; exact ND'].
  intros Hin. apply sremove_keys in Hin. tauto.
Qed.

Lemma sinsert_nodup m k v : NoDup (map fst m) -> NoDup (map fst (sinsert m k v)).
Proof.
  intros ND. unfold sinsert. cbn [map fst]. constructor; [|apply sremove_nodup; exact ND].
  intros Hin. apply sremove_keys in Hin. tauto.
Qed.

Lemma filter_perm {A} (f : A -> bool) (a b : list A) :
  Permutation a b -> Permutation (filter f a) (filter f b).
Proof.
  induction 1; cbn [filter].
  - constructor.
  - destruct (f x); [constructor|]; assumption.
  - destruct (f x), (f y); try constructor; try apply Permutation_refl. 
  - eapply Permutation_trans; eassumption.
Qed.

(* removing the (only) entry for k leaves the rest *)
Lemma sremove_perm m k v Y :
  NoDup (map fst m) -> Permutation m ((k, v) :: Y) -> Permutation (sremove m k) Y.
Proof.
  intros ND P. unfold sremove.
  rewrite (filter_perm _ _ _ P). cbn [filter fst]. rewrite N.eqb_refl. cbn [negb].
  rewrite filter_all; [apply Permutation_refl|].
  intros [k' v'] Hin. cbn [fst].
  destruct (N.eqb_spec k' k) as [->|]; [|reflexivity].
  exfalso.
  assert (ND2 : NoDup (map fst ((k, v) :: Y))).
  { eapply Permutation_NoDup; [apply Permutation_map; exact P|exact ND]. }
  cbn [map fst] in ND2. inversion ND2 as [|? ? Hnotin _]; subst.
  apply Hnotin. apply (in_map fst) in Hin; exact Hin.
Qed.
