(* C06: every operation of the standard storage simulates the spec map; whole histories follow. *)
From ZV.Common Require Import Base.
From ZV.C06 Require Import Model Spec ProofsBasic ProofsList ProofsScan ProofsInv ProofsResize.
From Coq Require Import Permutation.
Open Scope N_scope.

Lemma sized_nonempty st : sized st -> entries st <> [].
Proof.
  intros [j [Hl [_ H16]]] E. rewrite E in Hl. cbn in Hl. rewrite <- Hl in H16. lia.
Qed.

Lemma init_sized st k v : sized st -> init_if_empty st k v = st.
Proof.
  intros S. unfold init_if_empty. pose proof (sized_nonempty _ S).
  destruct (entries st); [congruence|reflexivity].
Qed.

Lemma pow2_le16 a : a <= 4 -> 2 ^ a <= 16.
Proof. intros H. change 16 with (2 ^ 4). apply N.pow_le_mono_r; [discriminate|exact H]. Qed.
Lemma pow2_ge32 a : 4 < a -> 32 <= 2 ^ a.
Proof. intros H. change 32 with (2 ^ 5). apply N.pow_le_mono_r; [discriminate|lia]. Qed.

Section Refine.
  Variable h : N -> N.

  Lemma init_R st m k v :
    R h st m -> R h (init_if_empty st k v) m /\ sized (init_if_empty st k v).
  Proof.
    intros HR. unfold init_if_empty.
    destruct (entries st) as [|e0 es0] eqn:Ees.
    - pose proof (empty_R _ _ _ HR Ees) as ->.
      destruct HR as [[[a Ha] _] _].
      set (cap := N.max (alloc st) 16).
      assert (Hcap : exists j, cap = 2 ^ j /\ 16 <= 2 ^ j).
      { unfold cap. rewrite Ha. destruct (N.le_gt_cases a 4) as [L|G].
        - exists 4. pose proof (pow2_le16 a L). change (2 ^ 4) with 16. lia.
        - exists a. pose proof (pow2_ge32 a G). lia. }
      destruct Hcap as [j [Hj H16]].
      set (es := repeat (mkslot 0 k v) (N.to_nat cap)).
      assert (Hlen : length es = N.to_nat cap) by apply repeat_length.
      assert (S : sized (mkstd es (cap - 1) (if cap <=? alloc st then alloc st else N.max cap (2 * alloc st)))).
      { exists j. cbn [entries mask]. rewrite Hlen, N2Nat.id. rewrite Hj. repeat split. exact H16. }
      split; [|exact S].
      split; [split; [|right; exact S]|].
      + cbn [alloc]. destruct (N.leb_spec cap (alloc st)) as [L|G]; [exists a; exact Ha|].
        unfold cap in *. rewrite Ha in *.
        destruct (N.le_gt_cases a 3) as [L3|G3].
        * exists 4. assert (2 ^ (a + 1) <= 16) by (apply pow2_le16; lia).
          rewrite N.pow_add_r in H. change (2 ^ 1) with 2 in H. change (2 ^ 4) with 16. lia.
        * exfalso. destruct (N.le_gt_cases a 4) as [L4|G4].
          -- assert (a = 4) by lia. subst a. change (2 ^ 4) with 16 in G. lia.
          -- pose proof (pow2_ge32 a G4). lia.
      + split; [|split; [|constructor]].
        * intros p Hp Lp. exfalso. cbn [entries] in Hp, Lp.
          assert (Hin : In (nth p es dummy) es) by (apply nth_In; exact Hp).
          apply repeat_dead in Hin. destruct Hin as [D _]. congruence.
        * cbn [entries]. unfold lives. rewrite filter_none; [apply Permutation_refl|].
          intros e He. apply (repeat_dead _ _ _ _ He).
    - split; [exact HR|]. destruct HR as [[_ [E|S]] _]; [congruence|exact S].
  Qed.

  Lemma insert_standard_R st m k v st' r :
    R h st m -> insert_standard st (hk h k) k v = (st', r) ->
    match r with
    | Some x => R h st' (sinsert m k v) /\ x = sget m k
    | None => R h st' m /\ sized st' /\ st' = init_if_empty st k v
              /\ ins_scan (entries st') (hk h k) k (path st' (hk h k)) None = Full
    end.
  Proof.
    intros HR. unfold insert_standard.
    destruct (init_R st m k v HR) as [R1 S1].
    set (st1 := init_if_empty st k v) in *.
    pose proof (ins_scan_scan (hk h k) k (entries st1) (path st1 (hk h k)) None) as SS.
    destruct (ins_scan (entries st1) (hk h k) k (path st1 (hk h k)) None) as [q|p|] eqn:IS.
    - intros [= <- <-].
      destruct (ins_scan_place (hk h k) k _ _ _ IS) as [l1 [l2 [Pth [Hl Dq]]]].
      destruct R1 as [W1 [I1 [P1 N1]]].
      pose proof (find_none h st1 k I1 SS) as NK.
      destruct (R_place h st1 m k v q l1 l2) as [RR SG]; try assumption.
      + split; [exact W1|split; [exact I1|split; assumption]].
      + intros x Hx. destruct (Hl x Hx) as [Lx Mx]. split; [intros ->; congruence|].
        split; [apply liveb_true in Lx; tauto|exact Mx].
      + split; [exact RR|]. symmetry; exact SG.
    - intros [= <- <-].
      destruct (R_val h st1 m k p v R1 S1 SS) as [RR SG].
      split; [exact RR|]. symmetry; exact SG.
    - intros [= <- <-]. split; [exact R1|]. split; [exact S1|]. split; [reflexivity|exact IS].
  Qed.

  Lemma insert_R st m k v st' r :
    R h st m -> insert h st k v = (st', r) ->
    R h st' (sinsert m k v) /\ r = Some (sget m k).
  Proof.
    intros HR. unfold insert.
    destruct (insert_standard st (hk h k) k v) as [sa ra] eqn:E1.
    pose proof (insert_standard_R _ _ _ _ _ _ HR E1) as H1.
    destruct ra as [x|].
    - intros [= <- <-]. destruct H1 as [RR ->]. split; [exact RR|reflexivity].
    - destruct H1 as [Ra [Sa [_ Fa]]].
      destruct (resize_R h sa m (hk h k) k (okh_norm _) Ra Sa Fa) as [st2 [Er [R2 [S2 C2]]]].
      rewrite Er.
      destruct (insert_standard st2 (hk h k) k v) as [sb rb] eqn:E2.
      pose proof (insert_standard_R _ _ _ _ _ _ R2 E2) as H2.
      intros [= <- <-].
      destruct rb as [x|].
      + destruct H2 as [RR ->]. split; [exact RR|reflexivity].
      + exfalso. destruct H2 as [_ [_ [Eq Fb]]]. rewrite (init_sized _ _ _ S2) in Eq. subst sb.
        exact (not_full h st2 (hk h k) k (okh_norm _) S2 C2 Fb).
  Qed.

  Lemma remove_R st m k st' r :
    R h st m -> remove h st k = (st', r) -> R h st' (sremove m k) /\ r = sget m k.
  Proof.
    intros HR. unfold remove.
    destruct (entries st) as [|e0 es0] eqn:Ees.
    - intros [= <- <-]. pose proof (empty_R _ _ _ HR Ees) as ->. split; [exact HR|reflexivity].
    - rewrite <- Ees.
      assert (S : sized st) by (destruct HR as [[_ [E|S]] _]; [congruence|exact S]).
      rewrite (scan_rm_scan (hk h k) k (okh_norm (h k))).
      destruct (scan (entries st) (hk h k) k (path st (hk h k))) as [p|] eqn:Sc.
      + intros [= <- <-]. destruct (R_tomb h st m k p HR S Sc) as [RR SG].
        split; [exact RR|symmetry; exact SG].
      + intros [= <- <-].
        assert (NK : ~ In k (map fst m)).
        { rewrite (R_keys _ _ _ HR). apply (find_none h); [apply HR|exact Sc]. }
        rewrite sremove_absent by exact NK. split; [exact HR|].
        symmetry. apply sget_none. exact NK.
  Qed.

  Lemma get_mut_set_R st m k x st' r :
    R h st m -> get_mut_set h st k x = (st', r) ->
    R h st' (match sget m k with Some _ => sinsert m k x | None => m end) /\ r = sget m k.
  Proof.
    intros HR. unfold get_mut_set, find.
    destruct (entries st) as [|e0 es0] eqn:Ees.
    - intros [= <- <-]. pose proof (empty_R _ _ _ HR Ees) as ->. split; [exact HR|reflexivity].
    - rewrite <- Ees.
      assert (S : sized st) by (destruct HR as [[_ [E|S]] _]; [congruence|exact S]).
      destruct (scan (entries st) (hk h k) k (path st (hk h k))) as [p|] eqn:Sc.
      + intros [= <- <-]. destruct (R_val h st m k p x HR S Sc) as [RR SG].
        rewrite SG. split; [exact RR|reflexivity].
      + intros [= <- <-].
        assert (NK : ~ In k (map fst m)).
        { rewrite (R_keys _ _ _ HR). apply (find_none h); [apply HR|exact Sc]. }
        rewrite (proj2 (sget_none m k) NK). split; [exact HR|reflexivity].
  Qed.

  Lemma clear_R st m : R h st m -> R h (clear st) [].
  Proof.
    intros [[A _] _]. unfold clear. split; [split; [exact A|left; reflexivity]|].
    split; [intros p Hp; cbn in Hp; lia|]. split; [apply Permutation_refl|constructor].
  Qed.

  Lemma step_R st m o :
    R h st m ->
    R h (fst (step h st o)) (fst (sstep m o)) /\ obs_agree (snd (step h st o)) (snd (sstep m o)).
  Proof.
    intros HR. destruct o as [[c k] v].
    destruct c as [|[[[?|?|]|[?|?|]|]|[[?|?|]|[?|?|]|]|]]; cbn [step sstep].
    all: lazymatch goal with
      | |- context [insert ?a ?b ?c ?d] =>
          destruct (insert a b c d) as [s1 r1] eqn:E; destruct (insert_R _ _ _ _ _ _ HR E) as [RR ->];
          split; [exact RR|reflexivity]
      | |- context [remove ?a ?b ?c] =>
          destruct (remove a b c) as [s1 r1] eqn:E; destruct (remove_R _ _ _ _ _ HR E) as [RR ->];
          split; [exact RR|reflexivity]
      | |- context [get_mut_set ?a ?b ?c ?d] =>
          destruct (get_mut_set a b c d) as [s1 r1] eqn:E; destruct (get_mut_set_R _ _ _ _ _ _ HR E) as [RR ->];
          split; [exact RR|reflexivity]
      | |- context [OLen] =>
          split; [exact HR|]; cbn [fst snd obs_agree]; f_equal; unfold len;
          destruct HR as [_ [_ [P _]]]; rewrite <- (nlen_perm _ _ P); rewrite !nlen_length, map_length; reflexivity
      | |- context [OIter] =>
          split; [exact HR|]; cbn [fst snd obs_agree]; unfold iter; apply HR
      | |- context [get ?a ?b ?c] =>
          split; [exact HR|]; cbn [fst snd obs_agree]; rewrite (get_sim a b _ c HR); reflexivity
      | |- _ => split; [apply (clear_R _ _ HR)|reflexivity]
      end.
  Qed.

  Lemma run_R ops : forall st m, R h st m -> Forall2 obs_agree (run h st ops) (srun m ops).
  Proof.
    induction ops as [|o t IH]; intros st m HR; cbn [run srun]; [constructor|].
    destruct (step_R st m o HR) as [RR OA].
    destruct (step h st o) as [s1 o1]. destruct (sstep m o) as [m1 o2]. cbn [fst snd] in *.
    constructor; [exact OA|apply IH; exact RR].
  Qed.

  Lemma init_R0 c : pow2cap c -> R h (init c) [].
  Proof.
    intros [j Hj]. unfold init. split; [split; [exists j; exact Hj|left; reflexivity]|].
    split; [intros p Hp; cbn in Hp; lia|]. split; [apply Permutation_refl|constructor].
  Qed.
End Refine.

Lemma std_refines_map_proof :
  forall (h : N -> N) (c : N) (ops : list op),
    pow2cap c -> Forall2 obs_agree (run h (init c) ops) (srun [] ops).
Proof. intros h c ops P. apply run_R. apply init_R0. exact P. Qed.

(* the hypothesis of the theorem is satisfiable by the capacities the presets use *)
Example pow2cap_16 : pow2cap 16.
Proof. exists 4. reflexivity. Qed.
Example pow2cap_64 : pow2cap 64.
Proof. exists 6. reflexivity. Qed.
(* and the theorem is not vacuous: a history that fills the table, grows it and re-inserts after removal *)
Example refines_nontrivial :
  let ops := map (fun i => (0, N.of_nat i * 16, N.of_nat i)) (seq 0 20) ++ [(1, 16, 0); (0, 16, 7); (2, 16, 0); (5, 0, 0)] in
  nth 22 (run (hasher 1) (init 16) ops) OUnit = ORes (Some 7) /\ nth 23 (run (hasher 1) (init 16) ops) OUnit = OLen 20.
Proof. vm_compute. split; reflexivity. Qed.
