(* C06 extension: GoldHashIdx::insert_batch and get_batch (src/containers/specialized/gold_hash_idx.rs):

     insert_batch(items): target_capacity = (self.len + items.len()) * 2;
                          if target_capacity > self.capacity { self.resize_to(target_capacity.next_power_of_two())? }
                          for (key, value) in items { self.insert(key, value)?; }
     resize_to(new_capacity): the table is replaced by `new_capacity` empty slots, every old bucket re-inserted
     get_batch(keys): keys.iter().map(|key| self.get(key))

   op code 16 = the pre-sizing step of insert_batch for k items, op code 17 = one insert of its loop (answer
   discarded, an Err aborts the batch: OErr); get_batch is the sequence of its get calls (code 2). *)
From ZV.Common Require Import Base.
From ZV.C06 Require Import Model ModelIdx Spec.
Open Scope N_scope.

Section IdxX.
  Variable h : N -> N.

  Definition iresize_to (g : gidx) (nc : nat) : option gidx :=
    ireinsert h (mkix (repeat None nc) (ix_values g) (ix_free g) 0) (ix_table g).

  Definition ipresize (g : gidx) (n : N) : option gidx :=
    let target := (ix_len g + n) * 2 in
    if N.of_nat (icap g) <? target then iresize_to g (N.to_nat (next_pow2 target)) else Some g.

  Definition istepx (g : gidx) (o : op) : gidx * obs :=
    let '(c, k, v) := o in
    if c =? 16 then match ipresize g k with Some g' => (g', OUnit) | None => (g, OErr) end
    else if c =? 17 then let '(g', r) := iinsert h g k v in (g', match r with Some _ => OUnit | None => OErr end)
    else istep h g o.

  Fixpoint irunx (g : gidx) (ops : list op) : list obs :=
    match ops with
    | [] => []
    | o :: t => let '(g', ob) := istepx g o in ob :: irunx g' t
    end.
End IdxX.

(* the mathematical map under the two steps of a batch insertion *)
Definition sstepi (m : smap) (o : op) : smap * obs :=
  let '(c, k, v) := o in
  if c =? 16 then (m, OUnit)
  else if c =? 17 then (sinsert m k v, OUnit)
  else sstep m o.

Fixpoint sruni (m : smap) (ops : list op) : list obs :=
  match ops with
  | [] => []
  | o :: t => let '(m', ob) := sstepi m o in ob :: sruni m' t
  end.
