(* C06 extension: the remaining content-changing entry points of EasyHashMap that are built from put()
   (src/containers/specialized/easy_hash_map.rs):

     get_or_insert(key, value) / get_or_insert_with(key, f):
         key_exists = inner.contains_key(&key); if !key_exists { self.put(key.clone(), value) }
         Ok(inner.get_mut(&key).expect("Key should exist after insertion"))
     extend(iter) / Extend::extend / FromIterator:  for (key, value) in iter { self.put(key, value) }

   op code 12 = get_or_insert (answer: the value found or inserted; OErr stands for the `expect` panic),
   op code 15 = one put() of an extend loop (no answer).  The other codes are ModelEasy's. *)
From ZV.Common Require Import Base.
From ZV.C06 Require Import Model ModelEasy Spec.
Open Scope N_scope.

Section EasyX.
  Variable h : N -> N.
  Variable grow : N -> N -> bool.
  Variable auto : bool.

  Definition easy_get_or_insert (st : std) (k v : N) : std * obs :=
    let key_exists := match get h st k with Some _ => true | None => false end in
    let st1 := if key_exists then st else easy_put h grow auto st k v in
    (st1, match get h st1 k with Some x => ORes (Some x) | None => OErr end).

  Definition easy_stepx (st : std) (o : op) : std * obs :=
    let '(c, k, v) := o in
    if c =? 12 then easy_get_or_insert st k v
    else if c =? 15 then (easy_put h grow auto st k v, OUnit)
    else easy_step h grow auto st o.

  Fixpoint easy_runx (st : std) (ops : list op) : list obs :=
    match ops with
    | [] => []
    | o :: t => let '(st', ob) := easy_stepx st o in ob :: easy_runx st' t
    end.
End EasyX.

(* the mathematical map under the two additional operations *)
Definition sstepx (m : smap) (o : op) : smap * obs :=
  let '(c, k, v) := o in
  if c =? 12 then
    match sget m k with
    | Some x => (m, ORes (Some x))
    | None => (sinsert m k v, ORes (Some v))
    end
  else if c =? 15 then (sinsert m k v, OUnit)
  else sstep m o.

Fixpoint srunx (m : smap) (ops : list op) : list obs :=
  match ops with
  | [] => []
  | o :: t => let '(m', ob) := sstepx m o in ob :: srunx m' t
  end.
