(* C06: SmallMap - inline arrays, swap-remove, promotion to the standard storage - refines the spec map. *)
From ZV.Common Require Import Base.
From ZV.C06 Require Import Model Spec ProofsBasic ProofsList ProofsScan ProofsInv ProofsResize ProofsRefine.
From Coq Require Import Permutation.
Open Scope N_scope.

(* ---------- the inline representation ---------- *)
Lemma sm_find_some kvs k i :
  sm_find kvs k = Some i ->
  exists l1 v l2, kvs = l1 ++ (k, v) :: l2 /\ length l1 = i /\ ~ In k (map fst l1).
Proof.
  revert i. induction kvs as [|[k' v'] t IH]; intros i; cbn [sm_find]; [discriminate|].
  destruct (N.eqb_spec k' k) as [->|Hne].
  - intros [= <-]. exists [], v', t. repeat split. intros [].
  - destruct (sm_find t k) as [j|] eqn:F; cbn [option_map]; [|discriminate].
    intros [= <-]. destruct (IH j eq_refl) as [l1 [v [l2 [-> [Hl Hn]]]]].
    exists ((k', v') :: l1), v, l2. cbn [app length map fst]. repeat split; [lia|].
    intros [E|I]; [congruence|exact (Hn I)].
Qed.

Lemma sm_find_none kvs k : sm_find kvs k = None -> ~ In k (map fst kvs).
Proof.
  induction kvs as [|[k' v'] t IH]; cbn [sm_find map fst]; [intros _ []|].
  destruct (N.eqb_spec k' k) as [->|Hne]; [discriminate|].
  destruct (sm_find t k) eqn:F; cbn [option_map]; [discriminate|].
  intros _ [E|I]; [congruence|exact (IH eq_refl I)].
Qed.

Lemma upd_mid {A} (l1 : list A) x y l2 : upd (l1 ++ x :: l2) (length l1) y = l1 ++ y :: l2.
Proof. induction l1 as [|a l1 IH]; cbn [app length upd]; [reflexivity|]. rewrite IH. reflexivity. Qed.

Lemma swap_remove_perm (l1 : list (N * N)) x l2 :
  Permutation (sm_swap_remove (l1 ++ x :: l2) (length l1)) (l1 ++ l2).
Proof.
  unfold sm_swap_remove.
  destruct (exists_last (l := x :: l2) ltac:(discriminate)) as [body [z E]].
  destruct l2 as [|y l2'].
  - (* removing the last element *)
    assert (length (l1 ++ [x]) - 1 = length l1)%nat as -> by (rewrite app_length; cbn; lia).
    rewrite Nat.ltb_irrefl. rewrite removelast_last, app_nil_r. apply Permutation_refl.
  - destruct body as [|b body']; [destruct l2'; discriminate|].
    cbn [app] in E. injection E as <- E2.
    rewrite E2.
    replace (l1 ++ x :: body' ++ [z]) with ((l1 ++ x :: body') ++ [z]) by (rewrite <- app_assoc; reflexivity).
    assert (length ((l1 ++ x :: body') ++ [z]) - 1 = length (l1 ++ x :: body'))%nat as ->
      by (rewrite (app_length _ [z]); cbn; lia).
    rewrite nth_middle, removelast_last.
    assert (Nat.ltb (length l1) (length (l1 ++ x :: body')) = true) as ->
      by (apply Nat.ltb_lt; rewrite app_length; cbn; lia).
    rewrite upd_mid. apply Permutation_app_head. apply Permutation_cons_append.
Qed.

Lemma nth_mid {A} (l1 : list A) x l2 d : nth (length l1) (l1 ++ x :: l2) d = x.
Proof. apply nth_middle. Qed.

(* ---------- promotion ---------- *)
Definition sinsert_all (m : smap) (kvs : list (N * N)) : smap :=
  fold_left (fun m kv => sinsert m (fst kv) (snd kv)) kvs m.

Lemma sinsert_all_perm kvs : forall m,
  NoDup (map fst kvs) -> (forall k, In k (map fst kvs) -> ~ In k (map fst m)) ->
  Permutation (sinsert_all m kvs) (kvs ++ m).
Proof.
  induction kvs as [|[k v] t IH]; intros m ND Hd; [apply Permutation_refl|].
  cbn [map fst] in ND. inversion ND as [|? ? Hn ND']; subst.
  change (sinsert_all m ((k, v) :: t)) with (sinsert_all (sinsert m k v) t).
  assert (Ei : sinsert m k v = (k, v) :: m).
  { unfold sinsert. rewrite sremove_absent; [reflexivity|]. apply Hd. left. reflexivity. }
  rewrite IH; [|exact ND'|].
  - rewrite Ei. cbn [app]. symmetry. apply Permutation_middle.
  - rewrite Ei. intros k' Hk' [E|I]; cbn [fst] in *; [subst; contradiction|].
    apply (Hd k'); [right; exact Hk'|exact I].
Qed.

Section Small.
  Variable h : N -> N.

  Definition RS (sm : smallmap) (m : smap) : Prop :=
    match sm with
    | Small kvs => Permutation kvs m /\ NoDup (map fst m)
    | Large st => R h st m
    end.

  Lemma R_perm st m m' : R h st m -> Permutation m m' -> R h st m'.
  Proof.
    intros [W [I [P ND]]] PP. split; [exact W|]. split; [exact I|]. split.
    - eapply Permutation_trans; eassumption.
    - eapply Permutation_NoDup; [apply Permutation_map; exact PP|exact ND].
  Qed.

  Lemma insert_all_R kvs : forall st m,
    R h st m -> exists st', insert_all h st kvs = Some st' /\ R h st' (sinsert_all m kvs).
  Proof.
    induction kvs as [|[k v] t IH]; intros st m HR; cbn [insert_all sinsert_all fold_left].
    - exists st. split; [reflexivity|exact HR].
    - destruct (insert h st k v) as [s1 r1] eqn:E.
      destruct (insert_R h _ _ _ _ _ _ HR E) as [RR ->]. cbn [fst snd].
      apply IH. exact RR.
  Qed.

  (* facts shared by the operations on the inline form *)
  Lemma small_present (kvs m l1 : smap) v l2 k :
    Permutation kvs m -> NoDup (map fst m) -> kvs = l1 ++ (k, v) :: l2 ->
    Permutation m ((k, v) :: l1 ++ l2) /\ sget m k = Some v.
  Proof.
    intros P ND ->.
    assert (Pm : Permutation m ((k, v) :: l1 ++ l2)).
    { symmetry in P. rewrite P. symmetry. apply Permutation_middle. }
    split; [exact Pm|]. apply sget_in; [exact ND|].
    eapply Permutation_in; [symmetry; exact Pm|left; reflexivity].
  Qed.

  Lemma small_absent (kvs m : smap) k :
    Permutation kvs m -> ~ In k (map fst kvs) -> ~ In k (map fst m).
  Proof.
    intros P Hn Hin. apply Hn. eapply Permutation_in; [symmetry; apply Permutation_map; exact P|exact Hin].
  Qed.

  Lemma sm_insert_R sm m k v sm' r :
    RS sm m -> sm_insert h sm k v = (sm', r) -> RS sm' (sinsert m k v) /\ r = Some (sget m k).
  Proof.
    destruct sm as [kvs|st]; cbn [RS sm_insert].
    - intros [P ND].
      destruct (sm_find kvs k) as [i|] eqn:F.
      + intros [= <- <-].
        destruct (sm_find_some _ _ _ F) as [l1 [vi [l2 [E [Hl Hn]]]]].
        destruct (small_present kvs m l1 vi l2 k P ND E) as [Pm SG].
        subst kvs i. rewrite nth_mid, upd_mid. cbn [snd RS]. rewrite SG. split; [|reflexivity].
        split; [|apply sinsert_nodup; exact ND].
        unfold sinsert. rewrite (sremove_perm m k vi (l1 ++ l2) ND Pm).
        symmetry. apply Permutation_middle.
      + apply sm_find_none in F. pose proof (small_absent _ _ _ P F) as NK.
        assert (SG : sget m k = None) by (apply sget_none; exact NK).
        destruct (Nat.leb SMALL_MAP_THRESHOLD (length kvs)).
        * destruct (insert_all_R kvs (init 16) [] (init_R0 h 16 pow2cap_16)) as [st [Ea Ra]].
          rewrite Ea.
          assert (Rm : R h st m).
          { eapply R_perm; [exact Ra|]. rewrite sinsert_all_perm.
            - rewrite app_nil_r. exact P.
            - eapply Permutation_NoDup; [symmetry; apply Permutation_map; exact P|exact ND].
            - intros ? _ []. }
          destruct (insert h st k v) as [s1 r1] eqn:E.
          destruct (insert_R h _ _ _ _ _ _ Rm E) as [RR ->].
          intros [= <- <-]. cbn [RS]. split; [exact RR|reflexivity].
        * intros [= <- <-]. cbn [RS]. rewrite SG. split; [|reflexivity].
          split; [|apply sinsert_nodup; exact ND].
          unfold sinsert. rewrite sremove_absent by exact NK.
          rewrite <- P. symmetry. apply Permutation_cons_append.
    - intros HR. destruct (insert h st k v) as [s1 r1] eqn:E.
      destruct (insert_R h _ _ _ _ _ _ HR E) as [RR ->].
      intros [= <- <-]. cbn [RS]. split; [exact RR|reflexivity].
  Qed.

  Lemma sm_get_R sm m k : RS sm m -> sm_get h sm k = sget m k.
  Proof.
    destruct sm as [kvs|st]; cbn [RS sm_get].
    - intros [P ND]. destruct (sm_find kvs k) as [i|] eqn:F.
      + destruct (sm_find_some _ _ _ F) as [l1 [vi [l2 [E [Hl Hn]]]]].
        destruct (small_present kvs m l1 vi l2 k P ND E) as [_ SG].
        subst kvs i. rewrite nth_mid. cbn [snd]. symmetry; exact SG.
      + apply sm_find_none in F. symmetry. apply sget_none. eapply small_absent; eassumption.
    - apply get_sim.
  Qed.

  Lemma sm_get_mut_set_R sm m k x sm' r :
    RS sm m -> sm_get_mut_set h sm k x = (sm', r) ->
    RS sm' (match sget m k with Some _ => sinsert m k x | None => m end) /\ r = sget m k.
  Proof.
    destruct sm as [kvs|st]; cbn [RS sm_get_mut_set].
    - intros [P ND]. destruct (sm_find kvs k) as [i|] eqn:F.
      + intros [= <- <-].
        destruct (sm_find_some _ _ _ F) as [l1 [vi [l2 [E [Hl Hn]]]]].
        destruct (small_present kvs m l1 vi l2 k P ND E) as [Pm SG].
        subst kvs i. rewrite nth_mid, upd_mid. cbn [snd RS]. rewrite SG. split; [|reflexivity].
        split; [|apply sinsert_nodup; exact ND].
        unfold sinsert. rewrite (sremove_perm m k vi (l1 ++ l2) ND Pm).
        symmetry. apply Permutation_middle.
      + intros [= <- <-]. apply sm_find_none in F. pose proof (small_absent _ _ _ P F) as NK.
        rewrite (proj2 (sget_none m k) NK). cbn [RS]. split; [split; assumption|reflexivity].
    - intros HR. destruct (get_mut_set h st k x) as [s1 r1] eqn:E.
      destruct (get_mut_set_R h _ _ _ _ _ _ HR E) as [RR ->].
      intros [= <- <-]. cbn [RS]. split; [exact RR|reflexivity].
  Qed.

  Lemma sm_remove_R sm m k sm' r :
    RS sm m -> sm_remove h sm k = (sm', r) -> RS sm' (sremove m k) /\ r = sget m k.
  Proof.
    destruct sm as [kvs|st]; cbn [RS sm_remove].
    - intros [P ND]. destruct (sm_find kvs k) as [i|] eqn:F.
      + intros [= <- <-].
        destruct (sm_find_some _ _ _ F) as [l1 [vi [l2 [E [Hl Hn]]]]].
        destruct (small_present kvs m l1 vi l2 k P ND E) as [Pm SG].
        subst kvs i. rewrite nth_mid. cbn [snd RS]. rewrite SG. split; [|reflexivity].
        split; [|apply sremove_nodup; exact ND].
        rewrite (sremove_perm m k vi (l1 ++ l2) ND Pm). apply swap_remove_perm.
      + intros [= <- <-]. apply sm_find_none in F. pose proof (small_absent _ _ _ P F) as NK.
        rewrite sremove_absent by exact NK. rewrite (proj2 (sget_none m k) NK).
        cbn [RS]. split; [split; assumption|reflexivity].
    - intros HR. destruct (remove h st k) as [s1 r1] eqn:E.
      destruct (remove_R h _ _ _ _ _ HR E) as [RR ->].
      intros [= <- <-]. cbn [RS]. split; [exact RR|reflexivity].
  Qed.

  Lemma sm_step_R sm m o :
    RS sm m ->
    RS (fst (sm_step h sm o)) (fst (sstep m o)) /\ obs_agree (snd (sm_step h sm o)) (snd (sstep m o)).
  Proof.
    intros HR. destruct o as [[c k] v].
    destruct c as [|[[[?|?|]|[?|?|]|]|[[?|?|]|[?|?|]|]|]]; cbn [sm_step sstep].
    all: lazymatch goal with
      | |- context [sm_insert ?a ?b ?c ?d] =>
          destruct (sm_insert a b c d) as [s1 r1] eqn:E; destruct (sm_insert_R _ _ _ _ _ _ HR E) as [RR ->];
          split; [exact RR|reflexivity]
      | |- context [sm_remove ?a ?b ?c] =>
          destruct (sm_remove a b c) as [s1 r1] eqn:E; destruct (sm_remove_R _ _ _ _ _ HR E) as [RR ->];
          split; [exact RR|reflexivity]
      | |- context [sm_get_mut_set ?a ?b ?c ?d] =>
          destruct (sm_get_mut_set a b c d) as [s1 r1] eqn:E; destruct (sm_get_mut_set_R _ _ _ _ _ _ HR E) as [RR ->];
          split; [exact RR|reflexivity]
      | |- context [OLen] =>
          split; [exact HR|]; cbn [fst snd obs_agree]; f_equal;
          destruct sm as [kvs|st]; cbn [sm_len RS] in *;
          [apply nlen_perm; apply HR
          |unfold len; destruct HR as [_ [_ [P _]]]; rewrite <- (nlen_perm _ _ P); rewrite !nlen_length, map_length; reflexivity]
      | |- context [OIter] =>
          split; [exact HR|]; cbn [fst snd obs_agree];
          destruct sm as [kvs|st]; cbn [sm_iter RS] in *; [apply HR|unfold iter; apply HR]
      | |- context [sm_get ?a ?b ?c] =>
          split; [exact HR|]; cbn [fst snd obs_agree]; rewrite (sm_get_R b _ c HR); reflexivity
      | |- _ => split; [cbn [fst sm_clear RS]; split; [apply Permutation_refl|constructor]|reflexivity]
      end.
  Qed.

  Lemma sm_run_R ops : forall sm m, RS sm m -> Forall2 obs_agree (sm_run h sm ops) (srun m ops).
  Proof.
    induction ops as [|o t IH]; intros sm m HR; cbn [sm_run srun]; [constructor|].
    destruct (sm_step_R sm m o HR) as [RR OA].
    destruct (sm_step h sm o) as [s1 o1]. destruct (sstep m o) as [m1 o2]. cbn [fst snd] in *.
    constructor; [exact OA|apply IH; exact RR].
  Qed.
End Small.

Lemma smallmap_refines_map_proof :
  forall (h : N -> N) (ops : list op), Forall2 obs_agree (sm_run h (Small []) ops) (srun [] ops).
Proof.
  intros h ops. apply sm_run_R. cbn [RS]. split; [apply Permutation_refl|constructor].
Qed.

(* promotion happens and keeps the contents: ten keys, then a removal, a read and len *)
Example smallmap_promotes :
  let ops := map (fun i => (0, N.of_nat i, 100 + N.of_nat i)) (seq 0 10) ++ [(1, 3, 0); (2, 9, 0); (5, 0, 0)] in
  nth 11 (sm_run (hasher 0) (Small []) ops) OUnit = ORes (Some 109)
  /\ nth 12 (sm_run (hasher 0) (Small []) ops) OUnit = OLen 9.
Proof. vm_compute. split; reflexivity. Qed.
