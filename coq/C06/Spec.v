(* C06 spec layer: the property statement itself.  A mathematical map is an association
   list without duplicate keys; every operation answers as the property text says.
   Iteration is compared as a permutation (order is not part of the property). *)
From ZV.Common Require Import Base.
From ZV.C06 Require Import Model.
From Coq Require Import Permutation.
Open Scope N_scope.

Definition smap := list (N * N).

Fixpoint sget (m : smap) (k : N) : option N :=
  match m with
  | [] => None
  | (k', v) :: t => if k' =? k then Some v else sget t k
  end.
Definition sremove (m : smap) (k : N) : smap := filter (fun p => negb (fst p =? k)) m.
Definition sinsert (m : smap) (k v : N) : smap := (k, v) :: sremove m k.

(* get(k) is the last value inserted unless removed since; insert returns the previous
   value exactly when present; remove returns the stored value exactly when present;
   len is the number of live keys; iteration yields the live entries *)
Definition sstep (m : smap) (o : op) : smap * obs :=
  let '(c, k, v) := o in
  match c with
  | 0 => (sinsert m k v, ORes (sget m k))
  | 1 => (sremove m k, ORes (sget m k))
  | 2 => (m, ORes (sget m k))
  | 3 => (match sget m k with Some _ => sinsert m k v | None => m end, ORes (sget m k))
  | 4 => (m, OBool (match sget m k with Some _ => true | None => false end))
  | 5 => (m, OLen (nlen m))
  | 6 => (m, OIter m)
  | _ => ([], OUnit)
  end.

Fixpoint srun (m : smap) (ops : list op) : list obs :=
  match ops with
  | [] => []
  | o :: t => let '(m', ob) := sstep m o in ob :: srun m' t
  end.

(* two observations agree: equal, except that iteration may come in any order *)
Definition obs_agree (a b : obs) : Prop :=
  match a, b with
  | OIter x, OIter y => Permutation x y
  | _, _ => a = b
  end.

(* initial capacities for which the theorems are stated: powers of two (the default 16,
   the pool preset's 64, with_capacity(2^k), everything resize_storage produces) *)
Definition pow2cap (c : N) : Prop := exists j, c = 2 ^ j.
