(* C06 mechanism model, part 6: src/hash_map/gold_hash_map.rs (GoldHashMap) as written.
   Buckets hold links into the entry vector; every entry carries the link to the next entry of its
   chain; removed entries are marked DELMARK and (optionally) pushed on a free-list stack that
   insert pops; auto-GC compacts the entry vector and relinks.  Definitions only.
   External parts are parameters: the hash function h (DefaultHasher on the key) and the float
   computation `(cap as f32 * load_factor) as usize` (ml : bucket count -> max_load).
   Keys and values are N.  The link-type capacity check (index > L::MAX) is not modelled. *)
From ZV.Common Require Import Base.
From ZV.C06 Require Import Model.
Open Scope N_scope.

Inductive link := Idx (i : nat) | DelMark | Tail.
Record gentry := mkg { g_key : N; g_val : N; g_link : link }.
Definition gdummy : gentry := mkg 0 0 Tail.

Record gcfg := mkcfg { c_cache : bool; c_gc : bool; c_reuse : bool }.

Record gold := mkgold {
  g_buckets : list link;
  g_entries : list gentry;
  g_cache : option (list N);
  g_len : N;
  g_maxload : N;
  g_flsize : N;
  g_fl : list nat          (* freelist stack, head = top *)
}.

Definition link_eqb (a b : link) : bool :=
  match a, b with
  | Idx i, Idx j => Nat.eqb i j
  | DelMark, DelMark => true
  | Tail, Tail => true
  | _, _ => false
  end.
Definition is_del (l : link) : bool := match l with DelMark => true | _ => false end.

Definition PRIMES : list N :=
  [5; 11; 23; 47; 97; 199; 409; 823; 1741; 3469; 6949; 14033; 28411; 57557; 116731; 236897;
   480881; 976369; 1982627; 4026031; 8175383; 16601593; 33712729; 68460391; 139022417;
   282312799; 573292817; 1164186217].
Fixpoint first_ge (ps : list N) (n : N) : option N :=
  match ps with
  | [] => None
  | p :: t => if n <=? p then Some p else first_ge t n
  end.
(* next_prime: first table entry >= n, else n.next_power_of_two() *)
Definition next_prime (n : N) : N :=
  match first_ge PRIMES n with
  | Some p => p
  | None => 2 ^ N.log2_up n
  end.

Inductive fres := Found (i : nat) (prev : option nat) | NotFound | Stuck.

Section Gold.
  Variable h : N -> N.        (* hash_key *)
  Variable ml : N -> N.       (* (cap as f32 * load_factor) as usize *)
  Variable cfg : gcfg.

  Definition bucket_of (g : gold) (hash : N) : nat := N.to_nat (hash mod N.of_nat (length (g_buckets g))).

  (* the chain walk of get / get_mut / insert / remove; Stuck = walk onto DELMARK (index panic)
     or a cycle (fuel = number of entries + 1) *)
  Fixpoint walk (es : list gentry) (k : N) (l : link) (prev : option nat) (fuel : nat) : fres :=
    match fuel with
    | O => match l with Tail => NotFound | _ => Stuck end
    | S f =>
        match l with
        | Tail => NotFound
        | DelMark => Stuck
        | Idx i =>
            if Nat.ltb i (length es) then
              if g_key (nth i es gdummy) =? k then Found i prev
              else walk es k (g_link (nth i es gdummy)) (Some i) f
            else Stuck
        end
    end.

  Definition gfind (g : gold) (k : N) : fres :=
    walk (g_entries g) k (nth (bucket_of g (h k)) (g_buckets g) Tail) None (S (length (g_entries g))).

  Definition hash_at (g : gold) (es : list gentry) (i : nat) : N :=
    match g_cache g with
    | Some c => nth i c 0
    | None => h (g_key (nth i es gdummy))
    end.

  (* relink: buckets.fill(TAIL); for i in 0..entries.len() { if link != DELMARK { push at head } } *)
  Fixpoint relink_go (g : gold) (nb : nat) (bs : list link) (es : list gentry) (i : nat) (n : nat)
    : list link * list gentry :=
    match n with
    | O => (bs, es)
    | S n' =>
        if is_del (g_link (nth i es gdummy)) then relink_go g nb bs es (S i) n'
        else
          let b := N.to_nat (hash_at g es i mod N.of_nat nb) in
          let e := nth i es gdummy in
          relink_go g nb (upd bs b (Idx i)) (upd es i (mkg (g_key e) (g_val e) (nth b bs Tail))) (S i) n'
    end.

  Definition relink (g : gold) : gold :=
    let nb := length (g_buckets g) in
    let '(bs, es) := relink_go g nb (repeat Tail nb) (g_entries g) O (length (g_entries g)) in
    mkgold bs es (g_cache g) (g_len g) (g_maxload g) (g_flsize g) (g_fl g).

  Definition rehash (g : gold) (new_size : N) : gold :=
    let ns := next_prime (N.max new_size 5) in
    if ns =? N.of_nat (length (g_buckets g)) then g
    else relink (mkgold (repeat Tail (N.to_nat ns)) (g_entries g) (g_cache g) (g_len g) (ml ns) (g_flsize g) (g_fl g)).

  Definition with_config (initial_capacity : N) : gold :=
    let cap := next_prime (N.max initial_capacity 5) in
    mkgold (repeat Tail (N.to_nat cap)) [] (if c_cache cfg then Some [] else None) 0 (ml cap) 0 [].

  (* Result<Option<V>> with Stuck = the walk panicked / did not terminate *)
  Definition ginsert (g0 : gold) (k v : N) : gold * option (option N) :=
    let g := if g_maxload g0 <=? g_len g0 then rehash g0 (N.of_nat (length (g_buckets g0)) + 1) else g0 in
    let hash := h k in
    let b := bucket_of g hash in
    match gfind g k with
    | Stuck => (g, None)
    | Found i _ =>
        let e := nth i (g_entries g) gdummy in
        (mkgold (g_buckets g) (upd (g_entries g) i (mkg (g_key e) v (g_link e))) (g_cache g)
                (g_len g) (g_maxload g) (g_flsize g) (g_fl g), Some (Some (g_val e)))
    | NotFound =>
        (* allocate_slot *)
        let '(idx, fl', fls', cache1) :=
          match (if c_reuse cfg then g_fl g else []) with
          | i :: rest => (i, rest, g_flsize g - 1, g_cache g)
          | [] => (length (g_entries g), g_fl g, g_flsize g,
                   match g_cache g with Some c => Some (c ++ [0]) | None => None end)
          end in
        let ne := mkg k v (nth b (g_buckets g) Tail) in
        let es' := if Nat.ltb idx (length (g_entries g)) then upd (g_entries g) idx ne
                   else g_entries g ++ [ne] in
        let cache2 := match cache1 with
                      | Some c => Some (if Nat.ltb idx (length c) then upd c idx hash else c)
                      | None => None
                      end in
        (mkgold (upd (g_buckets g) b (Idx idx)) es' cache2 (g_len g + 1) (g_maxload g) fls' fl', Some None)
    end.

  (* revoke_deleted: compact (moved entries get link TAIL), truncate, reset freelist, relink *)
  Fixpoint compact (es : list gentry) (c : option (list N)) (r w : nat) (n : nat)
                   (acc : list gentry) (cacc : list N) : list gentry * list N :=
    match n with
    | O => (rev acc, rev cacc)
    | S n' =>
        let e := nth r es gdummy in
        if is_del (g_link e) then compact es c (S r) w n' acc cacc
        else
          let e' := if Nat.eqb w r then e else mkg (g_key e) (g_val e) Tail in
          compact es c (S r) (S w) n' (e' :: acc)
                  (match c with Some cl => nth r cl 0 :: cacc | None => cacc end)
    end.

  Definition revoke_deleted (g : gold) : gold :=
    if g_flsize g =? 0 then g
    else
      let '(es', c') := compact (g_entries g) (g_cache g) O O (length (g_entries g)) [] [] in
      relink (mkgold (g_buckets g) es' (match g_cache g with Some _ => Some c' | None => None end)
                     (g_len g) (g_maxload g) 0 []).

  Definition gremove (g : gold) (k : N) : gold * option (option N) :=
    let b := bucket_of g (h k) in
    match gfind g k with
    | Stuck => (g, None)
    | NotFound => (g, Some None)
    | Found idx prev =>
        let e := nth idx (g_entries g) gdummy in
        let next := g_link e in
        let '(bs1, es1) :=
          match prev with
          | Some p => let pe := nth p (g_entries g) gdummy in
                      (g_buckets g, upd (g_entries g) p (mkg (g_key pe) (g_val pe) next))
          | None => (upd (g_buckets g) b next, g_entries g)
          end in
        (* free_slot *)
        let e1 := nth idx es1 gdummy in
        let es2 := upd es1 idx (mkg (g_key e1) (g_val e1) DelMark) in
        let fls := g_flsize g + 1 in
        let fl := if c_reuse cfg then idx :: g_fl g else g_fl g in
        let len' := g_len g - 1 in
        let g1 := mkgold bs1 es2 (g_cache g) len' (g_maxload g) fls fl in
        let g2 := if c_gc cfg && (len' / 2 <? fls) then revoke_deleted g1 else g1 in
        (g2, Some (Some (g_val e)))
    end.

  Definition gget (g : gold) (k : N) : option (option N) :=
    match gfind g k with
    | Found i _ => Some (Some (g_val (nth i (g_entries g) gdummy)))
    | NotFound => Some None
    | Stuck => None
    end.

  Definition gget_mut_set (g : gold) (k x : N) : gold * option (option N) :=
    match gfind g k with
    | Found i _ =>
        let e := nth i (g_entries g) gdummy in
        (mkgold (g_buckets g) (upd (g_entries g) i (mkg (g_key e) x (g_link e))) (g_cache g)
                (g_len g) (g_maxload g) (g_flsize g) (g_fl g), Some (Some (g_val e)))
    | NotFound => (g, Some None)
    | Stuck => (g, None)
    end.

  Definition giter (g : gold) : list (N * N) :=
    map (fun e => (g_key e, g_val e)) (filter (fun e => negb (is_del (g_link e))) (g_entries g)).

  Definition gclear (g : gold) : gold :=
    mkgold (repeat Tail (length (g_buckets g))) []
           (match g_cache g with Some _ => Some [] | None => None end) 0 (g_maxload g) 0 [].

  Definition gstep (g : gold) (o : op) : gold * obs :=
    let '(c, k, v) := o in
    let res (r : option (option N)) := match r with Some x => ORes x | None => OErr end in
    match c with
    | 0 => let '(g', r) := ginsert g k v in (g', res r)
    | 1 => let '(g', r) := gremove g k in (g', res r)
    | 2 => (g, res (gget g k))
    | 3 => let '(g', r) := gget_mut_set g k v in (g', res r)
    | 4 => (g, match gget g k with Some (Some _) => OBool true | Some None => OBool false | None => OErr end)
    | 5 => (g, OLen (g_len g))
    | 6 => (g, OIter (giter g))
    | _ => (gclear g, OUnit)
    end.

  Fixpoint grun (g : gold) (ops : list op) : list obs :=
    match ops with
    | [] => []
    | o :: t => let '(g', ob) := gstep g o in ob :: grun g' t
    end.

  Fixpoint gexec (g : gold) (ops : list op) : gold :=
    match ops with
    | [] => g
    | o :: t => gexec (fst (gstep g o)) t
    end.
End Gold.

(* table lookup used by the correspondence check for the two external functions *)
Fixpoint assoc (t : list (N * N)) (d : N) (k : N) : N :=
  match t with
  | [] => d
  | (k', v) :: r => if k' =? k then v else assoc r d k
  end.
