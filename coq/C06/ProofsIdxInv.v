(* C06 / GoldHashIdx: well-formedness (table + value pool), lookup, insertion of a new key, update. *)
From ZV.Common Require Import Base.
From ZV.C06 Require Import Model ModelIdx Spec ProofsList ProofsIdxPath ProofsIdxRehash.
From Coq Require Import Permutation.
Open Scope nat_scope.

Definition valof (vals : list (option N)) (b : ibucket) : option N := nth (ib_vidx b) vals None.
Definition pair_of (vals : list (option N)) (b : ibucket) : list (N * N) :=
  match valof vals b with Some v => [(ib_key b, v)] | None => [] end.
Definition pairs (vals : list (option N)) (bs : list ibucket) : list (N * N) := flat_map (pair_of vals) bs.

Lemma all_some_len (t : list (option ibucket)) :
  (forall p, p < length t -> nth p t None <> None) -> length (somes t) = length t.
Proof.
  induction t as [|a t IH]; intros Hall; [reflexivity|].
  cbn [somes flat_map length]. fold (somes t).
  pose proof (Hall 0 ltac:(cbn; lia)) as H0. cbn [nth] in H0. destruct a as [b|]; [|congruence].
  cbn [olist app length]. f_equal. apply IH. intros p Hp. apply (Hall (S p)). cbn [length]. lia.
Qed.

Lemma in_perm_cons {A} (x : A) l : In x l -> exists X, Permutation l (x :: X).
Proof.
  intros Hin. apply in_split in Hin. destruct Hin as [l1 [l2 ->]]. exists (l1 ++ l2).
  symmetry. apply Permutation_middle.
Qed.

Lemma pairs_ext vals vals' bs :
  (forall b, In b bs -> valof vals' b = valof vals b) -> pairs vals' bs = pairs vals bs.
Proof.
  intros H. unfold pairs. induction bs as [|b bs IH]; [reflexivity|]. cbn [flat_map].
  unfold pair_of at 1 3. rewrite (H b (or_introl eq_refl)). f_equal. apply IH. intros b' Hb'. apply H. right. exact Hb'.
Qed.

Lemma pairs_perm vals a b : Permutation a b -> Permutation (pairs vals a) (pairs vals b).
Proof. intros P. unfold pairs. apply Permutation_flat_map. exact P. Qed.

Lemma pairs_keys vals bs :
  (forall b, In b bs -> exists v, valof vals b = Some v) -> map fst (pairs vals bs) = map ib_key bs.
Proof.
  induction bs as [|b bs IH]; intros H; [reflexivity|]. cbn [pairs flat_map map]. fold (pairs vals bs).
  destruct (H b (or_introl eq_refl)) as [v Ev]. unfold pair_of. rewrite Ev. cbn [app map fst]. f_equal.
  apply IH. intros b' Hb'. apply H. right. exact Hb'.
Qed.

Section IdxInv.
  Variable h : N -> N.

  Record WF (g : gidx) : Prop := mkWF {
    wf_tab : tab_ok h (icap g) (ix_table g);
    wf_cap : 0 < icap g;
    wf_len : ix_len g = N.of_nat (length (somes (ix_table g)));
    wf_keys : NoDup (map ib_key (somes (ix_table g)));
    wf_val : forall b, In b (somes (ix_table g)) -> exists v, valof (ix_values g) b = Some v;
    wf_vidx : NoDup (map ib_vidx (somes (ix_table g)));
    wf_free : NoDup (ix_free g) /\
              forall i, In i (ix_free g) -> i < length (ix_values g) /\ nth i (ix_values g) None = None
  }.

  Definition the_scan (g : gidx) (K : N) : ires :=
    iscan (ix_table g) (h K) K (ipath (icap g) (ihome (icap g) (h K))).

  Lemma ibmatch_true b H K : ibmatch b H K = true <-> ib_hash b = H /\ ib_key b = K.
  Proof.
    unfold ibmatch. destruct (N.eqb_spec (ib_hash b) H), (N.eqb_spec (ib_key b) K); cbn; split; intros; try tauto; try discriminate.
  Qed.

  Lemma scan_present g K p b :
    WF g -> p < icap g -> nth p (ix_table g) None = Some b -> ib_key b = K -> the_scan g K = IFound p b.
  Proof.
    intros W Hp Eb Ek. destruct W as [[Hl Hok] Hc _ Hk _ _ _].
    destruct (Hok p b Hp Eb) as [Hh [dl [Hdl [Edl R]]]].
    unfold the_scan. rewrite <- Ek, <- Hh.
    set (d := ihome (icap g) (ib_hash b)) in *.
    assert (Hd : d < icap g) by (apply ihome_lt; exact Hc).
    rewrite (ipath_addm _ d Hd).
    rewrite <- Edl. change (addm (icap g) d dl) with (addm (icap g) d (0 + dl)).
    apply iscan_found_at.
    - exact Hdl.
    - intros j Hj. cbn [Nat.add]. specialize (R j Hj). unfold somep in R.
      destruct (nth (addm (icap g) d j) (ix_table g) None) as [b'|] eqn:Eb'; [|congruence].
      exists b'. split; [reflexivity|].
      destruct (ibmatch b' (ib_hash b) (ib_key b)) eqn:M; [|reflexivity]. exfalso.
      apply ibmatch_true in M. destruct M as [_ Mk].
      assert (E : addm (icap g) d j = p).
      { eapply (keys_nodup_pos (ix_table g)); try eassumption; try (rewrite Hl; assumption).
        rewrite Hl. apply addm_lt; [exact Hd|lia]. }
      rewrite <- Edl in E. apply addm_inj in E; try assumption; lia.
    - cbn [Nat.add]. rewrite Edl. exact Eb.
    - apply ibmatch_true. split; reflexivity.
  Qed.

  Lemma scan_result g K :
    WF g -> length (somes (ix_table g)) < icap g ->
    match the_scan g K with
    | IFound p b => p < icap g /\ nth p (ix_table g) None = Some b /\ ib_key b = K /\ In b (somes (ix_table g))
    | IEmpty p => p < icap g /\ nth p (ix_table g) None = None
                  /\ (forall b, In b (somes (ix_table g)) -> ib_key b <> K)
                  /\ exists i, i < icap g /\ p = addm (icap g) (ihome (icap g) (h K)) i
                       /\ forall j, j < i -> somep (ix_table g) (addm (icap g) (ihome (icap g) (h K)) j)
    | IExhausted => False
    end.
  Proof.
    intros W Hcnt. pose proof W as [[Hl Hok] Hc _ Hk _ _ _].
    set (d := ihome (icap g) (h K)).
    assert (Hd : d < icap g) by (apply ihome_lt; exact Hc).
    pose proof (iscan_spec (ix_table g) (h K) K (addm (icap g) d) (icap g) 0) as SP.
    destruct (the_scan g K) as [p b|p|] eqn:ES; unfold the_scan in ES; fold d in ES;
      rewrite (ipath_addm _ d Hd) in ES; rewrite ES in SP; cbn [Nat.add] in SP.
    - destruct SP as [i [Hi [Ep [En [Em _]]]]].
      assert (Hp : p < icap g) by (rewrite Ep; apply addm_lt; assumption).
      apply ibmatch_true in Em. destruct Em as [_ Ek].
      repeat split; try assumption. apply somes_in. exists p. split; [rewrite Hl; exact Hp|exact En].
    - destruct SP as [i [Hi [Ep [En Hb]]]].
      assert (Hp : p < icap g) by (rewrite Ep; apply addm_lt; assumption).
      split; [exact Hp|]. split; [exact En|]. split.
      + intros b Hb' Ek. apply somes_in in Hb'. destruct Hb' as [q [Hq Eq]]. rewrite Hl in Hq.
        pose proof (scan_present g K q b W Hq Eq Ek) as SP2. unfold the_scan in SP2. fold d in SP2.
        rewrite (ipath_addm _ d Hd) in SP2. congruence.
      + exists i. split; [exact Hi|]. split; [exact Ep|]. intros j Hj. destruct (Hb j Hj) as [b' [E _]].
        unfold somep. rewrite E. discriminate.
    - assert (length (somes (ix_table g)) = length (ix_table g)); [|unfold icap in Hcnt; lia].
      apply all_some_len. intros p Hp. rewrite Hl in Hp.
      destruct (addm_surj (icap g) d p Hd Hp) as [u [Hu Eu]].
      destruct (SP u Hu) as [b' [E _]]. rewrite Eu in E. rewrite E. discriminate.
  Qed.

  (* a new bucket in an empty slot that its probe reaches *)
  Lemma tab_ok_place cap t p nb i :
    0 < cap -> tab_ok h cap t -> p < cap -> nth p t None = None ->
    ib_hash nb = h (ib_key nb) -> i < cap -> p = addm cap (ihome cap (ib_hash nb)) i ->
    (forall j, j < i -> somep t (addm cap (ihome cap (ib_hash nb)) j)) ->
    tab_ok h cap (upd t p (Some nb)).
  Proof.
    intros Hc [Hl Hok] Hp En Hh Hi Ep Hb.
    assert (Mono : forall y, somep t y -> somep (upd t p (Some nb)) y).
    { intros y Sy. unfold somep in *. destruct (Nat.eq_dec y p) as [->|Hy].
      - rewrite nth_upd_same by lia. discriminate.
      - rewrite nth_upd_other by congruence. exact Sy. }
    split; [rewrite length_upd; exact Hl|].
    intros q b Hq Eb. destruct (Nat.eq_dec q p) as [->|Hqp].
    - rewrite nth_upd_same in Eb by lia. injection Eb as <-. split; [exact Hh|].
      exists i. split; [exact Hi|]. split; [symmetry; exact Ep|]. intros j Hj. apply Mono. apply Hb. exact Hj.
    - rewrite nth_upd_other in Eb by congruence. destruct (Hok q b Hq Eb) as [Hhb [dl [Hdl [Edl R]]]].
      split; [exact Hhb|]. exists dl. split; [exact Hdl|]. split; [exact Edl|].
      intros j Hj. apply Mono. apply R. exact Hj.
  Qed.

  (* ---- insertion of an absent key (no resize) ---- *)
  Lemma core_new g K v :
    WF g -> length (somes (ix_table g)) < icap g ->
    (forall b, In b (somes (ix_table g)) -> ib_key b <> K) ->
    exists g' nb, iinsert_core h g K v = Some (g', None) /\ WF g' /\ icap g' = icap g
      /\ Permutation (somes (ix_table g')) (nb :: somes (ix_table g)) /\ ib_key nb = K
      /\ valof (ix_values g') nb = Some v
      /\ (forall j x, nth j (ix_values g) None = Some x -> nth j (ix_values g') None = Some x)
      /\ ix_len g' = (ix_len g + 1)%N.
  Proof.
    intros W Hcnt Habs. pose proof (scan_result g K W Hcnt) as SR.
    unfold iinsert_core. fold (the_scan g K).
    destruct (the_scan g K) as [p b|p|]; [exfalso| |contradiction].
    { destruct SR as [_ [_ [Ek Hin]]]. exact (Habs b Hin Ek). }
    destruct SR as [Hp [En [_ [i [Hi [Ep Hb]]]]]].
    pose proof W as [Htab Hc Hlen Hkeys Hval Hvidx [NDf Hf]].
    (* the value slot *)
    assert (Alloc : exists vi vals' fr',
              ialloc g v = Some (vi, vals', fr')
              /\ nth vi vals' None = Some v
              /\ nth vi (ix_values g) None = None
              /\ (forall j x, nth j (ix_values g) None = Some x -> nth j vals' None = Some x)
              /\ NoDup fr' /\ (forall i', In i' fr' -> i' < length vals' /\ nth i' vals' None = None)).
    { unfold ialloc. destruct (ix_free g) as [|i1 rest] eqn:Ef.
      - exists (length (ix_values g)), (ix_values g ++ [Some v]), []. split; [reflexivity|].
        split; [apply nth_middle|]. split; [apply nth_overflow; lia|]. split.
        + intros j x Ej. rewrite app_nth1; [exact Ej|].
          destruct (Nat.lt_ge_cases j (length (ix_values g))) as [A|A]; [exact A|]. rewrite nth_overflow in Ej by lia. discriminate.
        + split; [constructor|intros ? []].
      - destruct (Hf i1 (or_introl eq_refl)) as [Hlt1 N1]. apply Nat.ltb_lt in Hlt1. rewrite Hlt1. apply Nat.ltb_lt in Hlt1.
        exists i1, (upd (ix_values g) i1 (Some v)), rest. split; [reflexivity|].
        split; [apply nth_upd_same; exact Hlt1|]. split; [exact N1|]. split.
        + intros j x Ej. rewrite nth_upd_other; [exact Ej|]. intros ->. congruence.
        + inversion NDf as [|? ? Hn1 NDr]; subst. split; [exact NDr|].
          intros i' Hi'. destruct (Hf i' (or_intror Hi')) as [A B]. rewrite length_upd. split; [exact A|].
          rewrite nth_upd_other; [exact B|]. intros ->. contradiction. }
    destruct Alloc as [vi [vals' [fr' [Ea [Evi [Nvi [Hmono [NDf' Hf']]]]]]]].
    rewrite Ea.
    set (nb := mkib K vi (h K)).
    set (t' := upd (ix_table g) p (Some nb)).
    destruct Htab as [Hl Hok].
    destruct (somes_upd (ix_table g) p (Some nb) ltac:(rewrite Hl; exact Hp)) as [X [P1 P2]].
    rewrite En in P1. cbn [olist app] in P1, P2. fold t' in P2.
    assert (Pm : Permutation (somes t') (nb :: somes (ix_table g))) by (rewrite P2, <- P1; apply Permutation_refl).
    exists (mkix t' vals' fr' (ix_len g + 1)), nb.
    split; [reflexivity|]. split.
    - constructor; cbn [ix_table ix_values ix_free ix_len]; unfold icap; cbn [ix_table].
      + unfold t'. rewrite length_upd. fold (icap g).
        apply (tab_ok_place (icap g) (ix_table g) p nb i); try assumption.
        * split; assumption.
        * reflexivity.
      + unfold t'. rewrite length_upd. exact Hc.
      + rewrite Hlen, (Permutation_length Pm). cbn [length]. lia.
      + eapply Permutation_NoDup; [symmetry; apply Permutation_map; exact Pm|]. cbn [map]. constructor; [|exact Hkeys].
        intros Hin. apply in_map_iff in Hin. destruct Hin as [b [Ek Hb']]. exact (Habs b Hb' Ek).
      + intros b Hb'. apply (Permutation_in _ Pm) in Hb'. destruct Hb' as [<-|Hb'].
        * exists v. unfold valof, nb; cbn [ib_vidx]. exact Evi.
        * destruct (Hval b Hb') as [x Ex]. exists x. unfold valof in *. apply Hmono. exact Ex.
      + eapply Permutation_NoDup; [symmetry; apply Permutation_map; exact Pm|]. cbn [map]. constructor; [|exact Hvidx].
        intros Hin. apply in_map_iff in Hin. destruct Hin as [b [Ev Hb']]. destruct (Hval b Hb') as [x Ex].
        unfold valof in Ex. cbn [ib_vidx nb] in Ev. rewrite Ev in Ex. congruence.
      + split; assumption.
    - split; [unfold icap; cbn [ix_table]; unfold t'; rewrite length_upd; reflexivity|].
      split; [exact Pm|]. split; [reflexivity|]. split; [exact Evi|]. split; [exact Hmono|reflexivity].
  Qed.
End IdxInv.
