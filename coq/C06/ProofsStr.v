(* C06 extension: HashStrMap - the wrapper answers like the map it holds; the counters never influence an answer
   and satisfy len <= unique_keys <= total_inserts in every reachable state. *)
From ZV.Common Require Import Base.
From ZV.C06 Require Import Model Spec ModelStr ProofsList.
From Coq Require Import Permutation Lia.
Open Scope N_scope.

Lemma obs_agree_refl o : obs_agree o o.
Proof. destruct o; cbn; reflexivity. Qed.

(* one step: same answer as the spec map, and the map component is the spec map's next state *)
Lemma hs_step_spec m o :
  fst (fst o) <> 8 ->
  hs_map (fst (hs_step m o)) = fst (sstep (hs_map m) o) /\ snd (hs_step m o) = snd (sstep (hs_map m) o).
Proof.
  destruct o as [[c k] v]. cbn [fst]. intros NE.
  destruct c as [|[[[?|?|]|[?|?|]|]|[[?|?|]|[?|?|]|]|]]; cbn [hs_step sstep hs_insert hs_remove fst snd hs_map hs_clear];
    try (split; reflexivity); try congruence;
    try (match goal with p : positive |- _ => destruct p; cbn [hs_clear hs_map fst snd]; try (split; reflexivity); congruence end).
  unfold hs_get_mut_set. destruct (sget (hs_map m) k); split; reflexivity.
Qed.

Lemma hs_run_spec ops : forall m,
  Forall (fun o => fst (fst o) <> 8) ops -> hs_run m ops = srun (hs_map m) ops.
Proof.
  induction ops as [|o t IH]; intros m HF; cbn [hs_run srun]; [reflexivity|].
  inversion HF as [|? ? H1 H2]; subst.
  destruct (hs_step_spec m o H1) as [E1 E2].
  destruct (hs_step m o) as [m' ob]. destruct (sstep (hs_map m) o) as [s' ob']. cbn [fst snd] in *.
  subst. rewrite IH by exact H2. reflexivity.
Qed.

Lemma hashstr_refines_map_proof :
  forall ops, Forall (fun o => fst (fst o) <> 8) ops -> Forall2 obs_agree (hs_run hs_new ops) (srun [] ops).
Proof.
  intros ops HF. rewrite hs_run_spec by exact HF. cbn [hs_new hs_map].
  generalize (srun [] ops). induction l; constructor; [apply obs_agree_refl|assumption].
Qed.

(* --- the counters --- *)
Lemma nlen_sremove_le m k : nlen (sremove m k) <= nlen m.
Proof.
  induction m as [|[k' v] t IH]; cbn [sremove filter nlen fst]; [lia|].
  fold (sremove t k). destruct (k' =? k); cbn [negb nlen]; lia.
Qed.

Lemma nlen_sremove_present m k x : sget m k = Some x -> nlen (sremove m k) + 1 <= nlen m.
Proof.
  induction m as [|[k' v] t IH]; cbn [sget sremove filter nlen fst]; [discriminate|].
  fold (sremove t k). destruct (k' =? k); cbn [negb nlen].
  - intros _. pose proof (nlen_sremove_le t k). lia.
  - intros H. specialize (IH H). lia.
Qed.

Definition hs_inv (m : hsm) : Prop := nlen (hs_map m) <= hs_unique m /\ hs_unique m <= hs_total m.

Lemma hs_step_inv m o : hs_inv m -> hs_inv (fst (hs_step m o)).
Proof.
  unfold hs_inv. intros [A B]. destruct o as [[c k] v].
  destruct c as [|[[[?|?|]|[?|?|]|]|[[?|?|]|[?|?|]|]|]]; cbn [hs_step fst]; try (split; assumption);
    try (cbn [hs_clear hs_map hs_unique hs_total nlen]; split; lia);
    try (match goal with p : positive |- _ => destruct p; cbn [fst hs_clear hs_map hs_unique hs_total nlen]; split; (assumption || lia) end).
  - (* insert *)
    cbn [hs_insert fst hs_map hs_unique hs_total]. unfold hs_contains, sinsert. cbn [nlen].
    destruct (sget (hs_map m) k) eqn:E; cbn [negb].
    + pose proof (nlen_sremove_present _ _ _ E). split; lia.
    + pose proof (nlen_sremove_le (hs_map m) k). split; lia.
  - (* get_mut *)
    unfold hs_get_mut_set. destruct (sget (hs_map m) k) eqn:E; cbn [fst hs_map hs_unique hs_total]; [|split; assumption].
    unfold sinsert. cbn [nlen]. pose proof (nlen_sremove_present _ _ _ E). split; lia.
  - (* remove *)
    cbn [hs_remove fst hs_map hs_unique hs_total]. pose proof (nlen_sremove_le (hs_map m) k). split; lia.
Qed.

Lemma hashstr_counters_proof :
  forall ops, let m := hs_exec hs_new ops in nlen (hs_map m) <= hs_unique m /\ hs_unique m <= hs_total m.
Proof.
  intros ops. cbn zeta.
  assert (G : forall m, hs_inv m -> hs_inv (hs_exec m ops)).
  { induction ops as [|o t IH]; intros m H; cbn [hs_exec]; [exact H|]. apply IH. apply hs_step_inv. exact H. }
  apply G. unfold hs_inv. cbn. split; lia.
Qed.

(* non-vacuity: a re-inserted key, a removal, statistics, clear *)
Example hashstr_history :
  hs_run hs_new [(0, 1, 10); (0, 2, 20); (0, 1, 11); (1, 2, 0); (8, 0, 0); (8, 0, 1); (8, 0, 2); (2, 1, 0); (7, 0, 0); (8, 0, 1)]
  = [ORes None; ORes None; ORes (Some 10); ORes (Some 20); OLen 1; OLen 3; OLen 2; ORes (Some 11); OUnit; OLen 0].
Proof. vm_compute. reflexivity. Qed.
