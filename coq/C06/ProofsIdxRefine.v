(* C06 / GoldHashIdx: every operation simulates the spec map; whole histories follow. *)
From ZV.Common Require Import Base.
From ZV.C06 Require Import Model ModelIdx Spec ProofsList ProofsIdxPath ProofsIdxRehash ProofsIdxInv.
From Coq Require Import Permutation.
Open Scope nat_scope.

Lemma pairs_mono vals vals' bs :
  (forall b, In b bs -> exists v, valof vals b = Some v) ->
  (forall j x, nth j vals None = Some x -> nth j vals' None = Some x) ->
  pairs vals' bs = pairs vals bs.
Proof.
  intros Hv Hm. apply pairs_ext. intros b Hb. destruct (Hv b Hb) as [v Ev]. unfold valof in *.
  rewrite Ev. apply Hm. exact Ev.
Qed.

Lemma ithreshold_4 c : ithreshold (4 * c) = N.of_nat (3 * c).
Proof. unfold ithreshold. lia. Qed.

Lemma nth_repeat_none {A} n p : nth p (repeat (@None A) n) None = None.
Proof.
  destruct (nth_in_or_default p (repeat (@None A) n) None) as [Hin|E]; [apply repeat_spec in Hin|]; assumption.
Qed.

Section IdxRefine.
  Variable h : N -> N.

  Definition IR (g : gidx) (m : smap) : Prop :=
    WF h g
    /\ (exists c, icap g = 4 * c /\ 4 <= c /\ (ix_len g <= N.of_nat (3 * c))%N)
    /\ Permutation (pairs (ix_values g) (somes (ix_table g))) m
    /\ NoDup (map fst m).

  Lemma IR_count g m : IR g m -> length (somes (ix_table g)) < icap g.
  Proof.
    intros [W [[c [Ec [Hc Hl]]] _]]. rewrite (wf_len _ _ W) in Hl. lia.
  Qed.

  Lemma IR_keys g m k : IR g m ->
    (In k (map fst m) <-> In k (map ib_key (somes (ix_table g)))).
  Proof.
    intros [W [_ [P _]]]. rewrite <- (pairs_keys (ix_values g)) by (apply (wf_val _ _ W)).
    split; apply Permutation_in; [symmetry|]; apply Permutation_map; exact P.
  Qed.

  Lemma pair_in g m b v :
    IR g m -> In b (somes (ix_table g)) -> valof (ix_values g) b = Some v -> In (ib_key b, v) m.
  Proof.
    intros [_ [_ [P _]]] Hb Ev. eapply Permutation_in; [exact P|].
    unfold pairs. apply in_flat_map. exists b. split; [exact Hb|]. unfold pair_of. rewrite Ev. left. reflexivity.
  Qed.

  (* ---- lookup ---- *)
  Lemma iget_sim g m k : IR g m -> iget h g k = sget m k.
  Proof.
    intros HR. pose proof HR as [W [_ [P ND]]].
    pose proof (scan_result h g k W (IR_count _ _ HR)) as SR.
    unfold iget. fold (the_scan h g k).
    destruct (the_scan h g k) as [p b|p|]; [| |contradiction].
    - destruct SR as [_ [_ [Ek Hin]]]. destruct (wf_val _ _ W b Hin) as [v Ev].
      change (nth (ib_vidx b) (ix_values g) None) with (valof (ix_values g) b). rewrite Ev.
      symmetry. apply sget_in; [exact ND|]. rewrite <- Ek. eapply pair_in; eassumption.
    - destruct SR as [_ [_ [Habs _]]]. symmetry. apply sget_none.
      rewrite (IR_keys _ _ _ HR). intros Hin. apply in_map_iff in Hin. destruct Hin as [b [Ek Hb]].
      exact (Habs b Hb Ek).
  Qed.

  (* ---- overwrite the value of a present key ---- *)
  Lemma set_value_R g m b x :
    IR g m -> In b (somes (ix_table g)) ->
    exists old, valof (ix_values g) b = Some old
      /\ IR (mkix (ix_table g) (upd (ix_values g) (ib_vidx b) (Some x)) (ix_free g) (ix_len g)) (sinsert m (ib_key b) x)
      /\ sget m (ib_key b) = Some old.
  Proof.
    intros HR Hb. pose proof HR as [W [Hcap [P ND]]].
    destruct (wf_val _ _ W b Hb) as [old Eo]. exists old. split; [exact Eo|].
    assert (Hlt : ib_vidx b < length (ix_values g)).
    { unfold valof in Eo. destruct (Nat.lt_ge_cases (ib_vidx b) (length (ix_values g))) as [A|A]; [exact A|].
      rewrite nth_overflow in Eo by lia. discriminate. }
    destruct (in_perm_cons b _ Hb) as [X PX].
    assert (NDv : NoDup (map ib_vidx (b :: X))).
    { eapply Permutation_NoDup; [apply Permutation_map; exact PX|apply (wf_vidx _ _ W)]. }
    cbn [map] in NDv. inversion NDv as [|? ? Hnb _]; subst.
    set (vals' := upd (ix_values g) (ib_vidx b) (Some x)).
    assert (Eb' : valof vals' b = Some x) by (unfold valof, vals'; apply nth_upd_same; exact Hlt).
    assert (Eoth : forall b', In b' X -> valof vals' b' = valof (ix_values g) b').
    { intros b' Hb'. unfold valof, vals'. apply nth_upd_other. intros E. apply Hnb. rewrite E. apply in_map. exact Hb'. }
    assert (Pm : Permutation m ((ib_key b, old) :: pairs (ix_values g) X)).
    { rewrite <- P. rewrite (pairs_perm _ _ _ PX). cbn [pairs flat_map]. unfold pair_of at 1. rewrite Eo. apply Permutation_refl. }
    split; [|apply sget_in; [exact ND|]; eapply Permutation_in; [symmetry; exact Pm|left; reflexivity]].
    split; [|split; [exact Hcap|split; [|apply sinsert_nodup; exact ND]]].
    - destruct W as [Wt Wc Wl Wk Wv Wx [NDf Hf]].
      constructor; cbn [ix_table ix_values ix_free ix_len]; try assumption.
      + intros b' Hb'. apply (Permutation_in _ PX) in Hb'. destruct Hb' as [<-|Hb']; [exists x; exact Eb'|].
        rewrite (Eoth b' Hb'). apply Wv. eapply Permutation_in; [symmetry; exact PX|right; exact Hb'].
      + split; [exact NDf|]. intros i Hi. destruct (Hf i Hi) as [A B]. unfold vals'. rewrite length_upd.
        split; [exact A|]. rewrite nth_upd_other; [exact B|]. intros E. unfold valof in Eo. rewrite E in Eo. congruence.
    - cbn [ix_table ix_values]. fold vals'. rewrite (pairs_perm _ _ _ PX). cbn [pairs flat_map]. unfold pair_of at 1. rewrite Eb'.
      cbn [app]. fold (pairs vals' X). rewrite (pairs_ext _ _ _ Eoth).
      unfold sinsert. apply perm_skip. symmetry. eapply sremove_perm; eassumption.
  Qed.

  (* ---- insertion without resize ---- *)
  Lemma core_R g m k v c :
    IR g m -> icap g = 4 * c -> (ix_len g < N.of_nat (3 * c))%N ->
    exists g' r, iinsert_core h g k v = Some (g', r) /\ IR g' (sinsert m k v) /\ r = sget m k /\ icap g' = icap g.
  Proof.
    intros HR Ec Hlt. pose proof HR as [W [[c0 [Ec0 [Hc0 Hl0]]] [P ND]]].
    assert (c0 = c) by lia. subst c0.
    pose proof (scan_result h g k W (IR_count _ _ HR)) as SR.
    destruct (the_scan h g k) as [p b|p|] eqn:ES; [| |contradiction].
    - destruct SR as [_ [_ [Ek Hin]]].
      destruct (set_value_R g m b v HR Hin) as [old [Eo [RR SG]]].
      unfold iinsert_core. fold (the_scan h g k). rewrite ES.
      change (nth (ib_vidx b) (ix_values g) None) with (valof (ix_values g) b). rewrite Eo.
      eexists _, _. split; [reflexivity|]. rewrite <- Ek. split; [exact RR|]. split; [symmetry; exact SG|reflexivity].
    - destruct SR as [_ [_ [Habs _]]].
      destruct (core_new h g k v W (IR_count _ _ HR) Habs) as [g' [nb [Ei [W' [Ecap [Pm [Ekn [Evn [Hmono Elen]]]]]]]]].
      assert (NK : ~ In k (map fst m)).
      { rewrite (IR_keys _ _ _ HR). intros Hin. apply in_map_iff in Hin. destruct Hin as [b [Ek Hb]]. exact (Habs b Hb Ek). }
      exists g', None. split; [exact Ei|]. split; [|split; [symmetry; apply sget_none; exact NK|exact Ecap]].
      split; [exact W'|]. split; [exists c; rewrite Ecap, Elen; repeat split; lia|].
      split; [|apply sinsert_nodup; exact ND].
      rewrite (pairs_perm _ _ _ Pm). cbn [pairs flat_map]. unfold pair_of at 1. rewrite Evn, Ekn. cbn [app].
      fold (pairs (ix_values g') (somes (ix_table g))).
      rewrite (pairs_mono (ix_values g) (ix_values g') _ (wf_val _ _ W) Hmono).
      unfold sinsert. rewrite sremove_absent by exact NK. apply perm_skip. exact P.
  Qed.

  (* ---- resize ---- *)
  Lemma reinsert_ok : forall old g' c',
    WF h g' -> icap g' = 4 * c' ->
    (forall b, In b (somes old) -> exists v, valof (ix_values g') b = Some v) ->
    NoDup (map ib_key (somes old)) ->
    (forall b b', In b (somes old) -> In b' (somes (ix_table g')) -> ib_key b' <> ib_key b) ->
    N.to_nat (ix_len g') + length (somes old) < 3 * c' ->
    exists g'', ireinsert h g' old = Some g'' /\ WF h g'' /\ icap g'' = icap g'
      /\ Permutation (pairs (ix_values g'') (somes (ix_table g'')))
                     (pairs (ix_values g') (somes old) ++ pairs (ix_values g') (somes (ix_table g')))
      /\ N.to_nat (ix_len g'') = N.to_nat (ix_len g') + length (somes old).
  Proof.
    induction old as [|o r IH]; intros g' c' W Ec Hv NDk Hdis Hb.
    - exists g'. cbn [ireinsert somes flat_map pairs app length].
      split; [reflexivity|]. split; [exact W|]. split; [reflexivity|]. split; [apply Permutation_refl|lia].
    - destruct o as [b|]; cbn [ireinsert]; [|apply (IH g' c'); assumption].
      cbn [somes flat_map olist app] in Hv, NDk, Hdis, Hb. fold (somes r) in Hv, NDk, Hdis, Hb.
      destruct (Hv b (or_introl eq_refl)) as [v Ev].
      change (nth (ib_vidx b) (ix_values g') None) with (valof (ix_values g') b). rewrite Ev.
      assert (Hthr : (ithreshold (icap g') <=? ix_len g')%N = false).
      { rewrite Ec, ithreshold_4. apply N.leb_gt. cbn [length] in Hb. lia. }
      rewrite Hthr.
      assert (Hcnt : length (somes (ix_table g')) < icap g').
      { rewrite (wf_len _ _ W) in Hb. cbn [length] in Hb. lia. }
      destruct (core_new h g' (ib_key b) v W Hcnt) as [g1 [nb [Ei [W1 [Ecap1 [Pm [Ekn [Evn [Hmono Elen]]]]]]]]].
      { intros b' Hb' E. exact (Hdis b b' (or_introl eq_refl) Hb' E). }
      rewrite Ei. cbn [map] in NDk. inversion NDk as [|? ? Hnk NDk']; subst.
      destruct (IH g1 c' W1 ltac:(lia)) as [g2 [Er [W2 [Ecap2 [P2 Elen2]]]]].
      + intros b' Hb'. destruct (Hv b' (or_intror Hb')) as [x Ex]. exists x. unfold valof in *. apply Hmono. exact Ex.
      + exact NDk'.
      + intros b1 b' Hb1 Hb' E. apply (Permutation_in _ Pm) in Hb'. destruct Hb' as [<-|Hb'].
        * apply Hnk. rewrite <- Ekn, E. apply in_map. exact Hb1.
        * exact (Hdis b1 b' (or_intror Hb1) Hb' E).
      + rewrite Elen. cbn [length] in Hb. lia.
      + exists g2. split; [exact Er|]. split; [exact W2|]. split; [lia|]. split.
        * assert (E1 : pair_of (ix_values g1) nb = [(ib_key b, v)]) by (unfold pair_of; rewrite Evn, Ekn; reflexivity).
          assert (E2 : pair_of (ix_values g') b = [(ib_key b, v)]) by (unfold pair_of; rewrite Ev; reflexivity).
          assert (M1 : pairs (ix_values g1) (somes r) = pairs (ix_values g') (somes r)).
          { apply pairs_mono; [intros b' Hb'; apply Hv; right; exact Hb'|exact Hmono]. }
          assert (M2 : pairs (ix_values g1) (somes (ix_table g')) = pairs (ix_values g') (somes (ix_table g'))).
          { apply pairs_mono; [apply (wf_val _ _ W)|exact Hmono]. }
          rewrite P2. rewrite (pairs_perm _ _ _ Pm).
          change (somes (Some b :: r)) with (b :: somes r).
          change (pairs (ix_values g1) (nb :: somes (ix_table g'))) with (pair_of (ix_values g1) nb ++ pairs (ix_values g1) (somes (ix_table g'))).
          change (pairs (ix_values g') (b :: somes r)) with (pair_of (ix_values g') b ++ pairs (ix_values g') (somes r)).
          rewrite E1, E2, M1, M2. cbn [app]. symmetry. apply Permutation_middle.
        * rewrite Elen2, Elen. change (somes (Some b :: r)) with (b :: somes r). cbn [length]. lia.
  Qed.

  Lemma resize_R g m c :
    IR g m -> icap g = 4 * c ->
    exists g1, iresize h g = Some g1 /\ IR g1 m /\ icap g1 = 4 * (2 * c) /\ ix_len g1 = ix_len g.
  Proof.
    intros HR Ec. pose proof HR as [W [[c0 [Ec0 [Hc0 Hl0]]] [P ND]]]. assert (c0 = c) by lia. subst c0.
    unfold iresize.
    set (g0 := mkix (repeat None (2 * icap g)) (ix_values g) (ix_free g) 0).
    assert (W0 : WF h g0).
    { constructor; unfold g0, icap; cbn [ix_table ix_values ix_free ix_len]; rewrite ?repeat_length, ?somes_repeat.
      - split; [apply repeat_length|]. intros p b _ E. rewrite nth_repeat_none in E. discriminate.
      - pose proof (wf_cap _ _ W). unfold icap in *. lia.
      - reflexivity.
      - constructor.
      - intros b [].
      - constructor.
      - apply (wf_free _ _ W). }
    destruct (reinsert_ok (ix_table g) g0 (2 * c) W0) as [g1 [Er [W1 [Ecap1 [P1 Elen1]]]]].
    - unfold g0, icap; cbn [ix_table]. rewrite repeat_length. fold (icap g). lia.
    - apply (wf_val _ _ W).
    - apply (wf_keys _ _ W).
    - intros b b' _ Hb'. unfold g0 in Hb'; cbn [ix_table] in Hb'. rewrite somes_repeat in Hb'. destruct Hb'.
    - unfold g0; cbn [ix_len]. rewrite (wf_len _ _ W) in Hl0. lia.
    - exists g1. split; [exact Er|].
      assert (Ecap : icap g1 = 4 * (2 * c)).
      { rewrite Ecap1. unfold g0, icap; cbn [ix_table]. rewrite repeat_length. fold (icap g). lia. }
      assert (Elen : ix_len g1 = ix_len g).
      { unfold g0 in Elen1; cbn [ix_len] in Elen1. rewrite (wf_len _ _ W). lia. }
      split; [|split; assumption].
      split; [exact W1|]. split; [exists (2 * c); rewrite Elen; repeat split; try assumption; lia|].
      split; [|exact ND].
      rewrite P1. unfold g0; cbn [ix_table ix_values]. rewrite somes_repeat. cbn [pairs flat_map]. rewrite app_nil_r. exact P.
  Qed.

  Lemma iinsert_R g m k v g' r :
    IR g m -> iinsert h g k v = (g', r) -> IR g' (sinsert m k v) /\ r = Some (sget m k).
  Proof.
    intros HR. pose proof HR as [W [[c [Ec [Hc Hl]]] _]]. unfold iinsert.
    rewrite Ec at 1. rewrite ithreshold_4.
    destruct (N.leb_spec (N.of_nat (3 * c)) (ix_len g)) as [Hge|Hlt].
    - destruct (resize_R g m c HR Ec) as [g1 [Er [R1 [Ec1 El1]]]]. rewrite Er.
      destruct (core_R g1 m k v (2 * c) R1 Ec1 ltac:(lia)) as [g2 [r2 [Ei [R2 [Er2 _]]]]].
      rewrite Ei. intros [= <- <-]. split; [exact R2|rewrite Er2; reflexivity].
    - destruct (core_R g m k v c HR Ec Hlt) as [g2 [r2 [Ei [R2 [Er2 _]]]]].
      rewrite Ei. intros [= <- <-]. split; [exact R2|rewrite Er2; reflexivity].
  Qed.

  Lemma iget_mut_set_R g m k x g' r :
    IR g m -> iget_mut_set h g k x = (g', r) ->
    IR g' (match sget m k with Some _ => sinsert m k x | None => m end) /\ r = sget m k.
  Proof.
    intros HR. pose proof HR as [W _]. unfold iget_mut_set. fold (the_scan h g k).
    pose proof (scan_result h g k W (IR_count _ _ HR)) as SR.
    destruct (the_scan h g k) as [p b|p|]; [| |contradiction].
    - destruct SR as [_ [_ [Ek Hin]]].
      destruct (set_value_R g m b x HR Hin) as [old [Eo [RR SG]]].
      change (nth (ib_vidx b) (ix_values g) None) with (valof (ix_values g) b). rewrite Eo.
      intros [= <- <-]. rewrite <- Ek, SG. split; [exact RR|reflexivity].
    - destruct SR as [_ [_ [Habs _]]]. intros [= <- <-].
      assert (NK : ~ In k (map fst m)).
      { rewrite (IR_keys _ _ _ HR). intros Hin. apply in_map_iff in Hin. destruct Hin as [b [Ek Hb]]. exact (Habs b Hb Ek). }
      rewrite (proj2 (sget_none m k) NK). split; [exact HR|reflexivity].
  Qed.

  Lemma iremove_R g m k g' r :
    IR g m -> iremove h g k = (g', r) -> IR g' (sremove m k) /\ r = Some (sget m k).
  Proof.
    intros HR. pose proof HR as [W [[c [Ec [Hc Hl]]] [P ND]]]. unfold iremove. fold (the_scan h g k).
    pose proof (scan_result h g k W (IR_count _ _ HR)) as SR.
    destruct (the_scan h g k) as [p b|p|]; [| |contradiction].
    - destruct SR as [Hp [Ep [Ek Hin]]].
      destruct (wf_val _ _ W b Hin) as [v Ev].
      change (nth (ib_vidx b) (ix_values g) None) with (valof (ix_values g) b). rewrite Ev.
      assert (Hlt : ib_vidx b < length (ix_values g)).
      { unfold valof in Ev. destruct (Nat.lt_ge_cases (ib_vidx b) (length (ix_values g))) as [A|A]; [exact A|].
        rewrite nth_overflow in Ev by lia. discriminate. }
      apply Nat.ltb_lt in Hlt. rewrite Hlt. apply Nat.ltb_lt in Hlt.
      pose proof (wf_tab _ _ W) as Tok. pose proof Tok as [Hlen _].
      destruct (rehash_ok h (icap g) (wf_cap _ _ W) (ix_table g) p b Tok Hp Ep (IR_count _ _ HR)) as [t2 [Er [Tok2 Pm2]]].
      rewrite Er. intros [= <- <-].
      (* the buckets that remain *)
      destruct (somes_upd (ix_table g) p None ltac:(rewrite Hlen; exact Hp)) as [X [P1 P2]].
      rewrite Ep in P1. cbn [olist app] in P1, P2.
      assert (PX : Permutation (somes t2) X) by (rewrite Pm2; exact P2).
      assert (NDv : NoDup (map ib_vidx (b :: X))).
      { eapply Permutation_NoDup; [apply Permutation_map; exact P1|apply (wf_vidx _ _ W)]. }
      cbn [map] in NDv. apply NoDup_cons_iff in NDv. destruct NDv as [Hnb NDvX].
      assert (NDk : NoDup (map ib_key (b :: X))).
      { eapply Permutation_NoDup; [apply Permutation_map; exact P1|apply (wf_keys _ _ W)]. }
      cbn [map] in NDk. apply NoDup_cons_iff in NDk. destruct NDk as [_ NDkX].
      set (vals' := upd (ix_values g) (ib_vidx b) None).
      assert (Eoth : forall b', In b' X -> valof vals' b' = valof (ix_values g) b').
      { intros b' Hb'. unfold valof, vals'. apply nth_upd_other. intros E. apply Hnb. rewrite E. apply in_map. exact Hb'. }
      assert (Pm : Permutation m ((k, v) :: pairs (ix_values g) X)).
      { rewrite <- P. rewrite (pairs_perm _ _ _ P1). cbn [pairs flat_map]. unfold pair_of at 1. rewrite Ev, Ek. apply Permutation_refl. }
      assert (Elen2 : length (somes (ix_table g)) = S (length X)) by (rewrite (Permutation_length P1); reflexivity).
      split; [|f_equal; symmetry; apply sget_in; [exact ND|]; eapply Permutation_in; [symmetry; exact Pm|left; reflexivity]].
      destruct Tok2 as [Hlen2 Hok2].
      split; [|split; [|split; [|apply sremove_nodup; exact ND]]].
      + destruct W as [_ Wc Wl _ Wv _ [NDf Hf]].
        constructor; unfold icap; cbn [ix_table ix_values ix_free ix_len]; rewrite ?Hlen2.
        * split; assumption.
        * exact Wc.
        * rewrite Wl, (Permutation_length PX), Elen2. lia.
        * eapply Permutation_NoDup; [symmetry; apply Permutation_map; exact PX|exact NDkX].
        * intros b' Hb'. apply (Permutation_in _ PX) in Hb'. rewrite (Eoth b' Hb').
          apply Wv. eapply Permutation_in; [symmetry; exact P1|right; exact Hb'].
        * eapply Permutation_NoDup; [symmetry; apply Permutation_map; exact PX|exact NDvX].
        * split.
          -- constructor; [|exact NDf]. intros Hi. destruct (Hf _ Hi) as [_ B]. unfold valof in Ev. congruence.
          -- intros i [<-|Hi]; unfold vals'; rewrite length_upd.
             ++ split; [exact Hlt|apply nth_upd_same; exact Hlt].
             ++ destruct (Hf i Hi) as [A B]. split; [exact A|]. rewrite nth_upd_other; [exact B|].
                intros E. unfold valof in Ev. rewrite E in Ev. congruence.
      + exists c. unfold icap; cbn [ix_table ix_len]. rewrite Hlen2. repeat split; try assumption. lia.
      + cbn [ix_table ix_values]. fold vals'. rewrite (pairs_perm _ _ _ PX). rewrite (pairs_ext _ _ _ Eoth).
        symmetry. eapply sremove_perm; eassumption.
    - destruct SR as [_ [_ [Habs _]]]. intros [= <- <-].
      assert (NK : ~ In k (map fst m)).
      { rewrite (IR_keys _ _ _ HR). intros Hin. apply in_map_iff in Hin. destruct Hin as [b [Ek Hb]]. exact (Habs b Hb Ek). }
      rewrite sremove_absent by exact NK. rewrite (proj2 (sget_none m k) NK). split; [exact HR|reflexivity].
  Qed.

  (* ---- histories over the operations GoldHashIdx offers (codes 0..5) ---- *)
  Definition offered (o : op) : Prop := (fst (fst o) <= 5)%N.

  Lemma istep_R g m o :
    IR g m -> offered o ->
    IR (fst (istep h g o)) (fst (sstep m o)) /\ obs_agree (snd (istep h g o)) (snd (sstep m o)).
  Proof.
    intros HR Ho. destruct o as [[c k] v]. unfold offered in Ho. cbn [fst] in Ho.
    destruct c as [|[[[?|?|]|[?|?|]|]|[[?|?|]|[?|?|]|]|]]; try (exfalso; lia); cbn [istep sstep].
    all: lazymatch goal with
      | |- context [iinsert ?a ?b ?c ?d] =>
          destruct (iinsert a b c d) as [s1 r1] eqn:E; destruct (iinsert_R _ _ _ _ _ _ HR E) as [RR ->];
          split; [exact RR|reflexivity]
      | |- context [iremove ?a ?b ?c] =>
          destruct (iremove a b c) as [s1 r1] eqn:E; destruct (iremove_R _ _ _ _ _ HR E) as [RR ->];
          split; [exact RR|reflexivity]
      | |- context [iget_mut_set ?a ?b ?c ?d] =>
          destruct (iget_mut_set a b c d) as [s1 r1] eqn:E; destruct (iget_mut_set_R _ _ _ _ _ _ HR E) as [RR ->];
          split; [exact RR|reflexivity]
      | |- context [OLen] =>
          split; [exact HR|]; cbn [fst snd obs_agree]; f_equal;
          destruct HR as [W [_ [P _]]]; rewrite (wf_len _ _ W), <- (nlen_perm _ _ P), nlen_length;
          f_equal; rewrite <- (map_length fst), (pairs_keys _ _ (wf_val _ _ W)), map_length; reflexivity
      | |- context [iget ?a ?b ?c] =>
          split; [exact HR|]; cbn [fst snd obs_agree]; rewrite (iget_sim b _ c HR); reflexivity
      end.
  Qed.

  Lemma irun_R ops : forall g m, IR g m -> Forall offered ops -> Forall2 obs_agree (irun h g ops) (srun m ops).
  Proof.
    induction ops as [|o t IH]; intros g m HR Ho; cbn [irun srun]; [constructor|].
    inversion Ho as [|? ? Ho1 Hot]; subst.
    destruct (istep_R g m o HR Ho1) as [RR OA].
    destruct (istep h g o) as [s1 o1]. destruct (sstep m o) as [m1 o2]. cbn [fst snd] in *.
    constructor; [exact OA|apply IH; assumption].
  Qed.

  Lemma iinit_R c : IR (iinit c) [].
  Proof.
    unfold iinit.
    assert (Hcap : exists c', N.to_nat (N.max (next_pow2 c) 16) = 4 * c' /\ 4 <= c').
    { unfold next_pow2. set (x := N.log2_up c). destruct (N.le_gt_cases x 4) as [L|G].
      - exists 4. assert (2 ^ x <= 2 ^ 4)%N by (apply N.pow_le_mono_r; [discriminate|exact L]).
        change (2 ^ 4)%N with 16%N in H. split; [lia|lia].
      - exists (N.to_nat (2 ^ (x - 2))). assert (E : (2 ^ x = 4 * 2 ^ (x - 2))%N).
        { replace x with (2 + (x - 2))%N at 1 by lia. rewrite N.pow_add_r. reflexivity. }
        assert (2 ^ 3 <= 2 ^ (x - 2))%N by (apply N.pow_le_mono_r; [discriminate|lia]).
        change (2 ^ 3)%N with 8%N in H. split; lia. }
    destruct Hcap as [c' [Ec' Hc']].
    split; [|split; [|split; [|constructor]]].
    - constructor; unfold icap; cbn [ix_table ix_values ix_free ix_len]; rewrite ?repeat_length, ?somes_repeat.
      + split; [apply repeat_length|]. intros p b _ E. rewrite nth_repeat_none in E. discriminate.
      + lia.
      + reflexivity.
      + constructor.
      + intros b [].
      + constructor.
      + split; [constructor|intros i []].
    - exists c'. unfold icap; cbn [ix_table ix_len]. rewrite repeat_length. repeat split; try assumption. lia.
    - cbn [ix_table ix_values]. rewrite somes_repeat. apply Permutation_refl.
  Qed.
End IdxRefine.

Lemma idx_refines_map_proof :
  forall (h : N -> N) (c : N) (ops : list op),
    Forall (fun o => (fst (fst o) <= 5)%N) ops ->
    Forall2 obs_agree (irun h (iinit c) ops) (srun [] ops).
Proof. intros h c ops Ho. apply irun_R; [apply iinit_R|exact Ho]. Qed.

(* not vacuous: growth, removal inside a cluster (buckets are moved back), re-insertion *)
Example idx_nontrivial :
  let ops : list op := map (fun i => (0%N, N.of_nat i, (100 + N.of_nat i)%N)) (seq 0 14)
             ++ [(1, 3, 0); (1, 5, 0); (2, 4, 0); (2, 3, 0); (0, 3, 7); (2, 3, 0); (5, 0, 0)]%N in
  nth 16 (irun (hasher 4) (iinit 16) ops) OUnit = ORes (Some 104%N)
  /\ nth 17 (irun (hasher 4) (iinit 16) ops) OUnit = ORes None
  /\ nth 19 (irun (hasher 4) (iinit 16) ops) OUnit = ORes (Some 7%N)
  /\ nth 20 (irun (hasher 4) (iinit 16) ops) OUnit = OLen 13.
Proof. vm_compute. repeat split. Qed.
