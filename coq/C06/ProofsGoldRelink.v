(* C06 / GoldHashMap: relink rebuilds every chain; compaction keeps the live entries. *)
From ZV.Common Require Import Base.
From ZV.C06 Require Import Model ModelGold Spec ProofsList ProofsGoldChain.
From Coq Require Import Permutation.
Open Scope N_scope.

(* two entry vectors of equal length whose entries agree on key, value and liveness *)
Definition same_kvl (es es' : list gentry) : Prop :=
  length es' = length es /\
  forall j, g_key (nth j es' gdummy) = g_key (nth j es gdummy)
         /\ g_val (nth j es' gdummy) = g_val (nth j es gdummy)
         /\ glive (nth j es' gdummy) = glive (nth j es gdummy).

(* the weaker relation that suffices for everything except the values *)
Definition same_kl (es es' : list gentry) : Prop :=
  length es' = length es /\
  forall j, g_key (nth j es' gdummy) = g_key (nth j es gdummy)
         /\ glive (nth j es' gdummy) = glive (nth j es gdummy).

Lemma same_kvl_kl es es' : same_kvl es es' -> same_kl es es'.
Proof. intros [L H]. split; [exact L|]. intros j. destruct (H j) as [A [_ C]]. split; assumption. Qed.

Lemma same_kl_len : forall es es', same_kl es es' ->
  length (filter glive es') = length (filter glive es).
Proof.
  induction es as [|e es IH]; intros [|e' es'] [Hl Hs]; cbn [length] in Hl; try discriminate; [reflexivity|].
  cbn [filter]. destruct (Hs O) as [_ L]. cbn [nth] in L. rewrite L.
  assert (IHs : same_kl es es') by (split; [lia|]; intros j; exact (Hs (S j))).
  destruct (glive e); cbn [length]; [f_equal|]; apply IH; exact IHs.
Qed.

Lemma same_kvl_refl es : same_kvl es es.
Proof. split; [reflexivity|]. intros j. repeat split. Qed.

Lemma same_kvl_trans a b c : same_kvl a b -> same_kvl b c -> same_kvl a c.
Proof.
  intros [L1 H1] [L2 H2]. split; [congruence|]. intros j.
  destruct (H1 j) as [A1 [B1 C1]]. destruct (H2 j) as [A2 [B2 C2]]. repeat split; congruence.
Qed.

Lemma same_kvl_filter : forall es es', same_kvl es es' ->
  map gkv (filter glive es') = map gkv (filter glive es).
Proof.
  induction es as [|e es IH]; intros [|e' es'] [Hl Hs]; cbn [length] in Hl; try discriminate; [reflexivity|].
  cbn [filter].
  destruct (Hs O) as [K [V L]]. cbn [nth] in K, V, L. rewrite L.
  assert (IHs : same_kvl es es').
  { split; [lia|]. intros j. exact (Hs (S j)). }
  destruct (glive e); cbn [map]; [f_equal; [unfold gkv; congruence|]|]; apply IH; exact IHs.
Qed.

Lemma same_kvl_upd_link es i l :
  (i < length es)%nat -> (is_del l = is_del (g_link (nth i es gdummy))) ->
  same_kvl es (upd es i (mkg (g_key (nth i es gdummy)) (g_val (nth i es gdummy)) l)).
Proof.
  intros Hi Hd. split; [apply length_upd|]. intros j.
  destruct (Nat.eq_dec j i) as [->|Hj].
  - rewrite nth_upd_same by exact Hi. cbn [g_key g_val]. repeat split. unfold glive; cbn [g_link]. rewrite Hd. reflexivity.
  - rewrite nth_upd_other by congruence. repeat split.
Qed.

Lemma nodup_bounded_length (l : list nat) n :
  NoDup l -> (forall x, In x l -> (x < n)%nat) -> (length l <= n)%nat.
Proof.
  intros ND Hb. rewrite <- (seq_length n 0). apply NoDup_incl_length; [exact ND|].
  intros x Hx. apply in_seq. specialize (Hb x Hx). lia.
Qed.

Section Relink.
  Variable hf : nat -> N.      (* the hash relink uses for entry j *)
  Variable nb : nat.
  Hypothesis NB : (0 < nb)%nat.

  Definition bk (j : nat) : nat := N.to_nat (hf j mod N.of_nat nb).

  Lemma bk_lt j : (bk j < nb)%nat.
  Proof.
    unfold bk. assert (N.of_nat nb <> 0) by lia.
    pose proof (N.mod_lt (hf j) (N.of_nat nb) H). lia.
  Qed.

  (* state of the loop before index i *)
  Definition RL (es0 : list gentry) (bs : list link) (es : list gentry) (i : nat) : Prop :=
    length bs = nb /\ same_kvl es0 es /\
    forall b, (b < nb)%nat -> exists c, chain es (nth b bs Tail) c
      /\ (forall j, In j c -> (j < i)%nat /\ bk j = b)
      /\ (forall j, (j < i)%nat -> glive (nth j es0 gdummy) = true -> bk j = b -> In j c).

  (* the loop body, written with the abstract hash *)
  Fixpoint rl_go (bs : list link) (es : list gentry) (i n : nat) : list link * list gentry :=
    match n with
    | O => (bs, es)
    | S n' =>
        if is_del (g_link (nth i es gdummy)) then rl_go bs es (S i) n'
        else
          let e := nth i es gdummy in
          rl_go (upd bs (bk i) (Idx i)) (upd es i (mkg (g_key e) (g_val e) (nth (bk i) bs Tail))) (S i) n'
    end.

  Lemma rl_go_spec es0 : forall n bs es i,
    RL es0 bs es i -> (i + n = length es0)%nat ->
    RL es0 (fst (rl_go bs es i n)) (snd (rl_go bs es i n)) (length es0).
  Proof.
    induction n as [|n IH]; intros bs es i HR Hn; cbn [rl_go].
    - cbn [fst snd]. replace (length es0) with i by lia. exact HR.
    - destruct HR as [Lb [SK HC]].
      destruct SK as [Le Hs]. 
      destruct (Hs i) as [_ [_ Li]].
      destruct (is_del (g_link (nth i es gdummy))) eqn:D.
      + (* deleted entry: nothing changes, and it is not live *)
        apply IH; [|lia]. split; [exact Lb|]. split; [split; assumption|].
        intros b Hb. destruct (HC b Hb) as [c [C [H1 H2]]]. exists c. split; [exact C|]. split.
        * intros j Hj. destruct (H1 j Hj). split; [lia|assumption].
        * intros j Hj Lj Bj. destruct (Nat.eq_dec j i) as [->|Hne].
          -- exfalso. rewrite <- Li in Lj. unfold glive in Lj. rewrite D in Lj. discriminate.
          -- apply H2; [lia|assumption|assumption].
      + (* live entry i is pushed at the head of its bucket's chain *)
        assert (Hi : (i < length es)%nat) by lia.
        set (e := nth i es gdummy) in *.
        set (es1 := upd es i (mkg (g_key e) (g_val e) (nth (bk i) bs Tail))).
        assert (Hframe : forall b c, chain es (nth b bs Tail) c -> (forall j, In j c -> (j < i)%nat) ->
                                     chain es1 (nth b bs Tail) c).
        { intros b c C Hlt. eapply chain_frame; [exact C|unfold es1; rewrite length_upd; lia|].
          intros j Hj. unfold es1. rewrite nth_upd_other; [reflexivity|]. specialize (Hlt j Hj). lia. }
        apply IH; [|lia]. split; [rewrite length_upd; exact Lb|]. split.
        * apply (same_kvl_trans es0 es es1); [split; assumption|].
          unfold es1. apply same_kvl_upd_link; [exact Hi|].
          fold e. rewrite D.
          destruct (HC (bk i) (bk_lt i)) as [c [C _]]. apply chain_not_del in C.
          destruct (nth (bk i) bs Tail); try reflexivity. congruence.
        * intros b Hb. destruct (HC b Hb) as [c [C [H1 H2]]].
          destruct (Nat.eq_dec b (bk i)) as [->|Hbne].
          -- exists (i :: c). rewrite nth_upd_same by (rewrite Lb; exact Hb). split.
             ++ constructor; [unfold es1; rewrite length_upd; exact Hi|].
                unfold es1 at 2. rewrite nth_upd_same by exact Hi. cbn [g_link].
                apply Hframe; [exact C|]. intros j Hj. apply H1. exact Hj.
             ++ split.
                ** intros j [<-|Hj]; [split; [lia|reflexivity]|]. destruct (H1 j Hj). split; [lia|assumption].
                ** intros j Hj Lj Bj. destruct (Nat.eq_dec j i) as [->|Hne]; [left; reflexivity|].
                   right. apply H2; [lia|assumption|assumption].
          -- exists c. rewrite nth_upd_other by congruence. split.
             ++ apply Hframe; [exact C|]. intros j Hj. apply H1. exact Hj.
             ++ split.
                ** intros j Hj. destruct (H1 j Hj). split; [lia|assumption].
                ** intros j Hj Lj Bj. destruct (Nat.eq_dec j i) as [->|Hne]; [congruence|].
                   apply H2; [lia|assumption|assumption].
  Qed.

  Lemma RL_init es0 : RL es0 (repeat Tail nb) es0 O.
  Proof.
    split; [apply repeat_length|]. split; [apply same_kvl_refl|].
    intros b Hb. exists []. split.
    - assert (E : nth b (repeat Tail nb) Tail = Tail).
      { destruct (nth_in_or_default b (repeat Tail nb) Tail) as [Hin|E]; [apply repeat_spec in Hin|]; assumption. }
      rewrite E. constructor.
    - split; [intros j []|intros j Hj; lia].
  Qed.
End Relink.
