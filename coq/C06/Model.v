(* C06 mechanism model.  Definitions only - no proofs in this file.

   Part 1: src/hash_map/zipora_hash_map.rs, standard storage, as written (after the
   fix: commits recorded in findings/C06.txt):
     hash_key/normalize_hash, insert + insert_standard (lazy sizing, linear probing
     `(index + i) & mask` for i in 0..len, first-tombstone reuse only after the probe
     has seen an empty slot or the whole path), resize_storage (max(2*len,32), re-insert
     every slot with hash != 0 at its first empty slot), get_standard, get_mut_standard,
     remove_standard (tombstone = hash u64::MAX, key/value kept), len, iterator,
     clear_standard (entries.clear(), mask = 0, allocation kept).
   Keys and values are N.  The hasher is a function parameter h : N -> N.
   `alloc` is FastVec's capacity (with_capacity(n) allocates exactly n; ensure_capacity
   grows to max(need, 2*cap)).
   Part 2: the three stub storage strategies (insert stores nothing).
   Part 3: src/containers/specialized/small_map.rs (inline arrays, swap-remove,
   promotion to a default ZiporaHashMap above 8 entries, clear demotes).
   Part 4: the code before the fix: commits (for the refutation theorems).
   Part 5: operation histories and observations for the correspondence check. *)
From ZV.Common Require Import Base.
Open Scope N_scope.

Definition MAXH : N := 18446744073709551615.  (* u64::MAX, the tombstone marker *)

Record slot := mkslot { s_hash : N; s_key : N; s_val : N }.
Definition dummy : slot := mkslot 0 0 0.

Record std := mkstd { entries : list slot; mask : N; alloc : N }.

(* ZiporaHashMap::normalize_hash *)
Definition norm (x : N) : N :=
  if x =? 0 then 1 else if x =? MAXH then MAXH - 1 else x.

Fixpoint upd {A} (l : list A) (n : nat) (x : A) : list A :=
  match l, n with
  | [], _ => []
  | _ :: t, O => x :: t
  | y :: t, S k => y :: upd t k x
  end.

(* the probe path: (index + i) & mask for i in 0..cap, index = hash & mask *)
Definition probe_at (hash msk : N) (i : nat) : nat :=
  N.to_nat (N.land (N.land hash msk + N.of_nat i) msk).
Definition probe (hash msk : N) (cap : nat) : list nat :=
  map (probe_at hash msk) (seq 0 cap).

Definition liveb (e : slot) : bool :=
  negb (s_hash e =? 0) && negb (s_hash e =? MAXH).
Definition matchb (e : slot) (hash key : N) : bool :=
  (s_hash e =? hash) && (s_key e =? key).

(* get_standard / get_mut_standard: stop at an empty slot, skip tombstones *)
Fixpoint scan (es : list slot) (hash key : N) (ps : list nat) : option nat :=
  match ps with
  | [] => None
  | p :: t =>
      let e := nth p es dummy in
      if s_hash e =? 0 then None
      else if s_hash e =? MAXH then scan es hash key t
      else if matchb e hash key then Some p
      else scan es hash key t
  end.

(* remove_standard: no explicit tombstone branch *)
Fixpoint scan_rm (es : list slot) (hash key : N) (ps : list nat) : option nat :=
  match ps with
  | [] => None
  | p :: t =>
      let e := nth p es dummy in
      if s_hash e =? 0 then None
      else if matchb e hash key then Some p
      else scan_rm es hash key t
  end.

Inductive ins_res := Place (p : nat) | Update (p : nat) | Full.

(* the probe loop of insert_standard; tomb = first_tombstone *)
Fixpoint ins_scan (es : list slot) (hash key : N) (ps : list nat) (tomb : option nat) : ins_res :=
  match ps with
  | [] => match tomb with Some t => Place t | None => Full end
  | p :: t =>
      let e := nth p es dummy in
      if s_hash e =? 0 then Place (match tomb with Some q => q | None => p end)
      else if s_hash e =? MAXH then
        ins_scan es hash key t (match tomb with Some _ => tomb | None => Some p end)
      else if matchb e hash key then Update p
      else ins_scan es hash key t tomb
  end.

Definition path (st : std) (hash : N) : list nat :=
  probe hash (mask st) (length (entries st)).

(* `if entries.is_empty() { resize_with(capacity().max(16), template) ; mask = cap-1 }` *)
Definition init_if_empty (st : std) (k v : N) : std :=
  match entries st with
  | [] =>
      let cap := N.max (alloc st) 16 in
      mkstd (repeat (mkslot 0 k v) (N.to_nat cap)) (cap - 1)
            (if cap <=? alloc st then alloc st else N.max cap (2 * alloc st))
  | _ => st
  end.

(* Result<Option<V>>: None = Err *)
Definition insert_standard (st : std) (hash k v : N) : std * option (option N) :=
  let st1 := init_if_empty st k v in
  let es := entries st1 in
  match ins_scan es hash k (path st1 hash) None with
  | Update p =>
      let e := nth p es dummy in
      (mkstd (upd es p (mkslot (s_hash e) (s_key e) v)) (mask st1) (alloc st1), Some (Some (s_val e)))
  | Place p => (mkstd (upd es p (mkslot hash k v)) (mask st1) (alloc st1), Some None)
  | Full => (st1, None)
  end.

Fixpoint place_first_empty (es : list slot) (s : slot) (ps : list nat) : option (list slot) :=
  match ps with
  | [] => None
  | p :: t => if s_hash (nth p es dummy) =? 0 then Some (upd es p s)
              else place_first_empty es s t
  end.

Fixpoint reinsert_all (es : list slot) (msk : N) (items : list slot) : option (list slot) :=
  match items with
  | [] => Some es
  | s :: t =>
      match place_first_empty es s (probe (s_hash s) msk (length es)) with
      | None => None
      | Some es' => reinsert_all es' msk t
      end
  end.

(* resize_storage: None = Err("Failed to reinsert"), state untouched *)
Definition resize_storage (st : std) : option std :=
  let new_cap := N.max (2 * N.of_nat (length (entries st))) 32 in
  let existing := filter (fun e => negb (s_hash e =? 0)) (entries st) in
  match existing with
  | [] => Some st
  | t :: _ =>
      match reinsert_all (repeat (mkslot 0 (s_key t) (s_val t)) (N.to_nat new_cap))
                         (new_cap - 1) existing with
      | None => None
      | Some es' => Some (mkstd es' (new_cap - 1) new_cap)
      end
  end.

Section WithHasher.
  Variable h : N -> N.   (* BuildHasher: any function *)

  Definition hk (k : N) : N := norm (h k).

  Definition insert (st : std) (k v : N) : std * option (option N) :=
    match insert_standard st (hk k) k v with
    | (st', Some r) => (st', Some r)
    | (st1, None) =>
        match resize_storage st1 with
        | None => (st1, None)
        | Some st2 => insert_standard st2 (hk k) k v
        end
    end.

  Definition find (st : std) (k : N) : option nat :=
    match entries st with
    | [] => None
    | _ => scan (entries st) (hk k) k (path st (hk k))
    end.

  Definition get (st : std) (k : N) : option N :=
    match find st k with
    | Some p => Some (s_val (nth p (entries st) dummy))
    | None => None
    end.

  (* get_mut followed by `*v = x`; returns the value seen *)
  Definition get_mut_set (st : std) (k x : N) : std * option N :=
    match find st k with
    | Some p =>
        let e := nth p (entries st) dummy in
        (mkstd (upd (entries st) p (mkslot (s_hash e) (s_key e) x)) (mask st) (alloc st), Some (s_val e))
    | None => (st, None)
    end.

  Definition remove (st : std) (k : N) : std * option N :=
    match entries st with
    | [] => (st, None)
    | _ =>
        match scan_rm (entries st) (hk k) k (path st (hk k)) with
        | Some p =>
            let e := nth p (entries st) dummy in
            (mkstd (upd (entries st) p (mkslot MAXH (s_key e) (s_val e))) (mask st) (alloc st),
             Some (s_val e))
        | None => (st, None)
        end
    end.
End WithHasher.

Definition lives (es : list slot) : list slot := filter liveb es.
Definition kv (e : slot) : N * N := (s_key e, s_val e).
Definition len (st : std) : N := nlen (lives (entries st)).
Definition iter (st : std) : list (N * N) := map kv (lives (entries st)).
Definition clear (st : std) : std := mkstd [] 0 (alloc st).

(* create_storage: FastVec::with_capacity(initial_capacity), mask = cap.saturating_sub(1) *)
Definition init (cap : N) : std := mkstd [] (cap - 1) cap.

(* ---------- Part 2: stub storages (SmallInline / CacheOptimized / StringOptimized) ---------- *)
(* insert_* : Ok(None) without storing; get/get_mut/remove: None; len 0; iter empty *)

(* ---------- Part 3: SmallMap ---------- *)
Definition SMALL_MAP_THRESHOLD : nat := 8.

Inductive smallmap :=
| Small (kvs : list (N * N))      (* keys[0..len], values[0..len] *)
| Large (m : std).

Fixpoint sm_find (kvs : list (N * N)) (k : N) : option nat :=
  match kvs with
  | [] => None
  | (k', _) :: t => if k' =? k then Some O else option_map S (sm_find t k)
  end.

(* swap-remove: the last element fills the gap *)
Definition sm_swap_remove (kvs : list (N * N)) (i : nat) : list (N * N) :=
  let last := nth (length kvs - 1) kvs (0, 0) in
  let body := removelast kvs in
  if Nat.ltb i (length kvs - 1) then upd body i last else body.

Section SmallMapWithHasher.
  Variable h : N -> N.

  (* promote_to_large: ZiporaHashMap::new() then insert every pair in order *)
  Fixpoint insert_all (st : std) (kvs : list (N * N)) : option std :=
    match kvs with
    | [] => Some st
    | (k, v) :: t =>
        match insert h st k v with
        | (st', Some _) => insert_all st' t
        | (_, None) => None
        end
    end.

  Definition sm_insert (m : smallmap) (k v : N) : smallmap * option (option N) :=
    match m with
    | Small kvs =>
        match sm_find kvs k with
        | Some i => (Small (upd kvs i (k, v)), Some (Some (snd (nth i kvs (0, 0)))))
        | None =>
            if Nat.leb SMALL_MAP_THRESHOLD (length kvs) then
              match insert_all (init 16) kvs with
              | None => (m, None)
              | Some st => let '(st', r) := insert h st k v in (Large st', r)
              end
            else (Small (kvs ++ [(k, v)]), Some None)
        end
    | Large st => let '(st', r) := insert h st k v in (Large st', r)
    end.

  Definition sm_get (m : smallmap) (k : N) : option N :=
    match m with
    | Small kvs => match sm_find kvs k with Some i => Some (snd (nth i kvs (0, 0))) | None => None end
    | Large st => get h st k
    end.

  Definition sm_get_mut_set (m : smallmap) (k x : N) : smallmap * option N :=
    match m with
    | Small kvs =>
        match sm_find kvs k with
        | Some i => (Small (upd kvs i (k, x)), Some (snd (nth i kvs (0, 0))))
        | None => (m, None)
        end
    | Large st => let '(st', r) := get_mut_set h st k x in (Large st', r)
    end.

  Definition sm_remove (m : smallmap) (k : N) : smallmap * option N :=
    match m with
    | Small kvs =>
        match sm_find kvs k with
        | Some i => (Small (sm_swap_remove kvs i), Some (snd (nth i kvs (0, 0))))
        | None => (m, None)
        end
    | Large st => let '(st', r) := remove h st k in (Large st', r)
    end.
End SmallMapWithHasher.

Definition sm_len (m : smallmap) : N :=
  match m with Small kvs => nlen kvs | Large st => len st end.
Definition sm_iter (m : smallmap) : list (N * N) :=
  match m with Small kvs => kvs | Large st => iter st end.
Definition sm_clear (m : smallmap) : smallmap := Small [].

(* ---------- Part 4: the code before the fixes ---------- *)
(* insert_standard before 6e641f6: first empty-or-tombstone slot wins *)
Fixpoint ins_scan_old (es : list slot) (hash key : N) (ps : list nat) : ins_res :=
  match ps with
  | [] => Full
  | p :: t =>
      let e := nth p es dummy in
      if (s_hash e =? 0) || (s_hash e =? MAXH) then Place p
      else if matchb e hash key then Update p
      else ins_scan_old es hash key t
  end.

Definition insert_standard_old (st : std) (hash k v : N) : std * option (option N) :=
  let st1 := init_if_empty st k v in
  let es := entries st1 in
  match ins_scan_old es hash k (path st1 hash) with
  | Update p =>
      let e := nth p es dummy in
      (mkstd (upd es p (mkslot (s_hash e) (s_key e) v)) (mask st1) (alloc st1), Some (Some (s_val e)))
  | Place p => (mkstd (upd es p (mkslot hash k v)) (mask st1) (alloc st1), Some None)
  | Full => (st1, None)
  end.

(* iterator before 07d40e2: only hash == 0 is skipped *)
Definition iter_old (st : std) : list (N * N) :=
  map kv (filter (fun e => negb (s_hash e =? 0)) (entries st)).

(* ---------- Part 5: histories ---------- *)
(* op codes: 0 insert k v | 1 remove k | 2 get k | 3 get_mut k := v | 4 contains_key k
             5 len | 6 iter | 7 clear *)
Inductive obs :=
| ORes (r : option N)     (* Some v / None of insert(Ok), remove, get, get_mut *)
| OErr                    (* insert returned Err *)
| OBool (b : bool)
| OLen (n : N)
| OIter (l : list (N * N))
| OUnit.

Definition op : Type := N * N * N.

Definition step (h : N -> N) (st : std) (o : op) : std * obs :=
  let '(c, k, v) := o in
  match c with
  | 0 => let '(st', r) := insert h st k v in
         (st', match r with Some x => ORes x | None => OErr end)
  | 1 => let '(st', r) := remove h st k in (st', ORes r)
  | 2 => (st, ORes (get h st k))
  | 3 => let '(st', r) := get_mut_set h st k v in (st', ORes r)
  | 4 => (st, OBool (match get h st k with Some _ => true | None => false end))
  | 5 => (st, OLen (len st))
  | 6 => (st, OIter (iter st))
  | _ => (clear st, OUnit)
  end.

Fixpoint run (h : N -> N) (st : std) (ops : list op) : list obs :=
  match ops with
  | [] => []
  | o :: t => let '(st', ob) := step h st o in ob :: run h st' t
  end.

(* final state of a history (the correspondence check also compares slot order and capacity) *)
Fixpoint exec (h : N -> N) (st : std) (ops : list op) : std :=
  match ops with
  | [] => st
  | o :: t => exec h (fst (step h st o)) t
  end.

Definition sm_step (h : N -> N) (m : smallmap) (o : op) : smallmap * obs :=
  let '(c, k, v) := o in
  match c with
  | 0 => let '(m', r) := sm_insert h m k v in
         (m', match r with Some x => ORes x | None => OErr end)
  | 1 => let '(m', r) := sm_remove h m k in (m', ORes r)
  | 2 => (m, ORes (sm_get h m k))
  | 3 => let '(m', r) := sm_get_mut_set h m k v in (m', ORes r)
  | 4 => (m, OBool (match sm_get h m k with Some _ => true | None => false end))
  | 5 => (m, OLen (sm_len m))
  | 6 => (m, OIter (sm_iter m))
  | _ => (sm_clear m, OUnit)
  end.

Fixpoint sm_run (h : N -> N) (m : smallmap) (ops : list op) : list obs :=
  match ops with
  | [] => []
  | o :: t => let '(m', ob) := sm_step h m o in ob :: sm_run h m' t
  end.

(* the stub storages answer every history like this *)
Definition stub_step (o : op) : obs :=
  let '(c, _, _) := o in
  match c with
  | 0 | 1 | 2 | 3 => ORes None
  | 4 => OBool false
  | 5 => OLen 0
  | 6 => OIter []
  | _ => OUnit
  end.
Definition stub_run (ops : list op) : list obs := map stub_step ops.

(* the history runner of the pre-fix code: hasher not normalised (pass h itself as hk),
   old insert loop, old iterator *)
Definition insert_old (h : N -> N) (st : std) (k v : N) : std * option (option N) :=
  match insert_standard_old st (h k) k v with
  | (st', Some r) => (st', Some r)
  | (st1, None) =>
      match resize_storage st1 with
      | None => (st1, None)
      | Some st2 => insert_standard_old st2 (h k) k v
      end
  end.

Definition find_old (h : N -> N) (st : std) (k : N) : option nat :=
  match entries st with [] => None | _ => scan (entries st) (h k) k (path st (h k)) end.
Definition get_old (h : N -> N) (st : std) (k : N) : option N :=
  match find_old h st k with Some p => Some (s_val (nth p (entries st) dummy)) | None => None end.
Definition remove_old (h : N -> N) (st : std) (k : N) : std * option N :=
  match entries st with
  | [] => (st, None)
  | _ =>
      match scan_rm (entries st) (h k) k (path st (h k)) with
      | Some p =>
          let e := nth p (entries st) dummy in
          (mkstd (upd (entries st) p (mkslot MAXH (s_key e) (s_val e))) (mask st) (alloc st), Some (s_val e))
      | None => (st, None)
      end
  end.

Definition step_old (h : N -> N) (st : std) (o : op) : std * obs :=
  let '(c, k, v) := o in
  match c with
  | 0 => let '(st', r) := insert_old h st k v in
         (st', match r with Some x => ORes x | None => OErr end)
  | 1 => let '(st', r) := remove_old h st k in (st', ORes r)
  | 2 => (st, ORes (get_old h st k))
  | 4 => (st, OBool (match get_old h st k with Some _ => true | None => false end))
  | 5 => (st, OLen (len st))
  | 6 => (st, OIter (iter_old st))
  | 7 => (clear st, OUnit)
  | _ => (st, OUnit)
  end.
Fixpoint run_old (h : N -> N) (st : std) (ops : list op) : list obs :=
  match ops with
  | [] => []
  | o :: t => let '(st', ob) := step_old h st o in ob :: run_old h st' t
  end.

(* ---------- hashers used by the correspondence check (harness mirrors these) ---------- *)
Definition hasher (mode : N) (k : N) : N :=
  match mode with
  | 0 => let x := (k * 11400714819323198485) mod W64 in      (* Fibonacci mixing *)
         N.lxor x (x / 4294967296)
  | 1 => k                                                    (* identity *)
  | 2 => 0                                                    (* constant 0 (the empty marker) *)
  | 3 => MAXH                                                 (* constant u64::MAX (the tombstone marker) *)
  | 4 => k mod 4                                              (* many collisions, includes 0 *)
  | 5 => if k =? 0 then 0 else if k =? 1 then MAXH else k     (* two keys on the markers *)
  | 6 => (k * 1152921504606846976) mod W64                    (* k << 60: distinct hashes, one home slot *)
  | 7 => MAXH - (k mod 3)                                     (* MAX, MAX-1, MAX-2: remapped marker collides with a real hash *)
  | 8 => (k mod 3) * 16                                       (* 0, 16, 32: same home slot under mask 15 *)
  | _ => k mod 2
  end.

(* sorting of iteration results, so that the comparison does not depend on slot order *)
Definition kv_leb (a b : N * N) : bool :=
  (fst a <? fst b) || ((fst a =? fst b) && (snd a <=? snd b)).
Fixpoint kv_insert (x : N * N) (l : list (N * N)) : list (N * N) :=
  match l with
  | [] => [x]
  | y :: t => if kv_leb x y then x :: l else y :: kv_insert x t
  end.
Definition kv_sort (l : list (N * N)) : list (N * N) := fold_right kv_insert [] l.

Definition canon (o : obs) : obs :=
  match o with OIter l => OIter (kv_sort l) | _ => o end.

Definition eqb_on (a b : option N) : bool :=
  match a, b with
  | None, None => true
  | Some x, Some y => x =? y
  | _, _ => false
  end.
Fixpoint eqb_kvs (a b : list (N * N)) : bool :=
  match a, b with
  | [], [] => true
  | (k1, v1) :: a', (k2, v2) :: b' => (k1 =? k2) && (v1 =? v2) && eqb_kvs a' b'
  | _, _ => false
  end.
Definition eqb_obs (a b : obs) : bool :=
  match a, b with
  | ORes x, ORes y => eqb_on x y
  | OErr, OErr => true
  | OBool x, OBool y => Bool.eqb x y
  | OLen x, OLen y => x =? y
  | OIter x, OIter y => eqb_kvs x y
  | OUnit, OUnit => true
  | _, _ => false
  end.
Fixpoint eqb_obss (a b : list obs) : bool :=
  match a, b with
  | [], [] => true
  | x :: a', y :: b' => eqb_obs (canon x) (canon y) && eqb_obss a' b'
  | _, _ => false
  end.
