(* C06 / GoldHashMap: collision chains as lists of entry indices; the chain walk. *)
From ZV.Common Require Import Base.
From ZV.C06 Require Import Model ModelGold Spec ProofsList.
From Coq Require Import Permutation.
Open Scope N_scope.

Definition glive (e : gentry) : bool := negb (is_del (g_link e)).
Definition gkv (e : gentry) : N * N := (g_key e, g_val e).

Inductive chain (es : list gentry) : link -> list nat -> Prop :=
| ch_nil : chain es Tail []
| ch_cons i c : (i < length es)%nat -> chain es (g_link (nth i es gdummy)) c -> chain es (Idx i) (i :: c).

Lemma chain_not_del es l c : chain es l c -> l <> DelMark.
Proof. intros C; inversion C; discriminate. Qed.

Lemma chain_det es l c1 : chain es l c1 -> forall c2, chain es l c2 -> c1 = c2.
Proof.
  induction 1 as [|i c Hi C IH]; intros c2 C2; inversion C2; subst; [reflexivity|].
  f_equal. apply IH. assumption.
Qed.

Lemma chain_suffix es c1 : forall l i c2, chain es l (c1 ++ i :: c2) -> chain es (Idx i) (i :: c2).
Proof.
  induction c1 as [|x c1 IH]; intros l i c2 C; cbn [app] in C.
  - inversion C; subst. constructor; assumption.
  - inversion C; subst. eapply IH. eassumption.
Qed.

Lemma chain_tail es i c : chain es (Idx i) (i :: c) -> chain es (g_link (nth i es gdummy)) c.
Proof. intros C; inversion C; assumption. Qed.

Lemma chain_head es l i c : chain es l (i :: c) -> l = Idx i.
Proof. intros C; inversion C; reflexivity. Qed.

Lemma chain_in es l c i :
  chain es l c -> In i c -> (i < length es)%nat /\ glive (nth i es gdummy) = true.
Proof.
  intros C Hin. apply in_split in Hin. destruct Hin as [c1 [c2 ->]].
  apply chain_suffix in C. inversion C as [|? ? Hi Ct]; subst. split; [exact Hi|].
  apply chain_not_del in Ct. unfold glive. destruct (g_link (nth i es gdummy)); try reflexivity. congruence.
Qed.

Lemma chain_nodup es l c : chain es l c -> NoDup c.
Proof.
  induction 1 as [|i c Hi C IH]; constructor; [|exact IH].
  intros Hin. apply in_split in Hin. destruct Hin as [c1 [c2 E]].
  pose proof C as C'. rewrite E in C'. apply chain_suffix in C'. apply chain_tail in C'.
  pose proof (chain_det _ _ _ C _ C') as E2.
  rewrite E in E2. apply (f_equal (@length nat)) in E2. rewrite app_length in E2. cbn [length] in E2. lia.
Qed.

(* entries outside the chain may change, the table may grow *)
Lemma chain_frame es es' l c :
  chain es l c -> (length es <= length es')%nat ->
  (forall i, In i c -> g_link (nth i es' gdummy) = g_link (nth i es gdummy)) ->
  chain es' l c.
Proof.
  induction 1 as [|i c Hi C IH]; intros Hl Hs; [constructor|].
  constructor; [lia|]. rewrite (Hs i (or_introl eq_refl)). apply IH; [exact Hl|].
  intros j Hj. apply Hs. right. exact Hj.
Qed.

(* ---------- the walk ---------- *)
Fixpoint wres (es : list gentry) (k : N) (c : list nat) (prev : option nat) : fres :=
  match c with
  | [] => NotFound
  | i :: t => if g_key (nth i es gdummy) =? k then Found i prev else wres es k t (Some i)
  end.

Lemma walk_wres es k l c :
  chain es l c -> forall prev fuel, (length c < fuel)%nat -> walk es k l prev fuel = wres es k c prev.
Proof.
  induction 1 as [|i c Hi C IH]; intros prev fuel Hf.
  - destruct fuel; reflexivity.
  - destruct fuel as [|f]; [cbn [length] in Hf; lia|]. cbn [walk wres].
    apply Nat.ltb_lt in Hi. rewrite Hi.
    destruct (g_key (nth i es gdummy) =? k); [reflexivity|].
    apply IH. cbn [length] in Hf. lia.
Qed.

Lemma wres_not_stuck es k c : forall prev, wres es k c prev <> Stuck.
Proof.
  induction c as [|i t IH]; intros prev; cbn [wres]; [discriminate|].
  destruct (g_key (nth i es gdummy) =? k); [discriminate|apply IH].
Qed.

Lemma wres_notfound es k c : forall prev,
  wres es k c prev = NotFound -> forall j, In j c -> g_key (nth j es gdummy) <> k.
Proof.
  induction c as [|i t IH]; intros prev W j Hj; [destruct Hj|]. cbn [wres] in W.
  destruct (N.eqb_spec (g_key (nth i es gdummy)) k) as [E|E]; [discriminate|].
  destruct Hj as [<-|Hj]; [exact E|]. eapply IH; eassumption.
Qed.

Lemma wres_found es k c : forall prev i p,
  wres es k c prev = Found i p ->
  exists pre post, c = pre ++ i :: post /\ g_key (nth i es gdummy) = k
    /\ (forall j, In j pre -> g_key (nth j es gdummy) <> k)
    /\ ((pre = [] /\ p = prev) \/ (exists pre' x, pre = pre' ++ [x] /\ p = Some x)).
Proof.
  induction c as [|j t IH]; intros prev i p W; [discriminate|]. cbn [wres] in W.
  destruct (N.eqb_spec (g_key (nth j es gdummy)) k) as [E|E].
  - injection W as <- <-. exists [], t. repeat split; try assumption; [intros ? []|left; split; reflexivity].
  - destruct (IH _ _ _ W) as [pre [post [-> [Ek [Hn Hp]]]]].
    exists (j :: pre), post. split; [reflexivity|]. split; [exact Ek|]. split.
    + intros x [<-|Hx]; [exact E|apply Hn; exact Hx].
    + right. destruct Hp as [[-> ->]|[pre' [x [-> ->]]]].
      * exists [], j. split; reflexivity.
      * exists (j :: pre'), x. split; reflexivity.
Qed.

(* ---------- unlinking one entry ---------- *)
(* the chain is pre ++ idx :: post; the predecessor (if any) gets idx's link, idx is marked deleted *)
Lemma chain_unlink_head es idx post :
  chain es (Idx idx) (idx :: post) ->
  forall es', length es' = length es ->
    (forall j, j <> idx -> g_link (nth j es' gdummy) = g_link (nth j es gdummy)) ->
    chain es' (g_link (nth idx es gdummy)) post.
Proof.
  intros C es' Hl Hs. pose proof (chain_nodup _ _ _ C) as ND. inversion ND as [|? ? Hn _]; subst.
  apply chain_tail in C. eapply chain_frame; [exact C|lia|].
  intros j Hj. apply Hs. intros ->. contradiction.
Qed.

Lemma chain_unlink_mid es idx post pre' : forall l p,
  chain es l (pre' ++ p :: idx :: post) ->
  forall es', length es' = length es ->
    g_link (nth p es' gdummy) = g_link (nth idx es gdummy) ->
    (forall j, j <> idx -> j <> p -> g_link (nth j es' gdummy) = g_link (nth j es gdummy)) ->
    chain es' l (pre' ++ p :: post).
Proof.
  induction pre' as [|x pre' IH]; intros l p C es' Hl Hp Hs; cbn [app] in *.
  - pose proof (chain_nodup _ _ _ C) as ND.
    inversion C as [|? ? Hi Ct]; subst. constructor; [lia|]. rewrite Hp.
    inversion ND as [|? ? Hnp ND1]; subst. inversion ND1 as [|? ? Hni _]; subst.
    pose proof (chain_head _ _ _ _ Ct) as Eh. rewrite Eh in Ct.
    pose proof (chain_tail _ _ _ Ct) as Cp.
    eapply chain_frame; [exact Cp|lia|].
    intros j Hj. apply Hs; intros ->; [contradiction|]. apply Hnp. right. exact Hj.
  - pose proof (chain_nodup _ _ _ C) as ND.
    inversion C as [|? ? Hi Ct]; subst. constructor; [lia|].
    inversion ND as [|? ? Hnx _]; subst.
    rewrite Hs.
    + eapply IH; eassumption.
    + intros ->. apply Hnx. apply in_or_app. right. right. left. reflexivity.
    + intros ->. apply Hnx. apply in_or_app. right. left. reflexivity.
Qed.
