(* C06 / GoldHashMap: every operation simulates the spec map; whole histories follow. *)
From ZV.Common Require Import Base.
From ZV.C06 Require Import Model ModelGold Spec ProofsList ProofsGoldChain ProofsGoldRelink ProofsGoldInv ProofsGoldOps ProofsGoldIns.
From Coq Require Import Permutation.
Open Scope N_scope.

Section GoldRefine.
  Variable h : N -> N.
  Variable ml : N -> N.
  Variable cfg : gcfg.

  Notation GR := (GR h).

  Lemma ginsert_R g0 m k v g' r :
    GR g0 m -> ginsert h ml cfg g0 k v = (g', r) -> GR g' (sinsert m k v) /\ r = Some (sget m k).
  Proof.
    intros HR0. unfold ginsert.
    set (g := if g_maxload g0 <=? g_len g0 then rehash h ml g0 (N.of_nat (length (g_buckets g0)) + 1) else g0).
    assert (HR : GR g m) by (unfold g; destruct (g_maxload g0 <=? g_len g0); [apply rehash_GR|]; exact HR0).
    clearbody g. clear HR0 g0.
    destruct (gfind_spec h ml g k (proj1 HR)) as [c [C [Hc E]]]. rewrite E.
    change (bucket_of g (h k)) with (hb h (nbk g) k).
    destruct (wres (g_entries g) k c None) as [i p| |] eqn:W.
    - destruct (wres_found _ _ _ _ _ _ W) as [pre [post [Ec [Ek _]]]].
      assert (Hi : In i c) by (rewrite Ec; apply in_or_app; right; left; reflexivity).
      intros [= <- <-]. split.
      + apply (set_val_GR h g m k c i v HR C Hi Ek).
      + rewrite (found_present h g m k c i HR C Hi Ek). reflexivity.
    - pose proof (wres_notfound _ _ _ _ W) as Hn.
      assert (SG : sget m k = None) by (apply sget_none; eapply notfound_absent; eassumption).
      rewrite SG.
      assert (FLg : fl_ok (g_fl g) (g_entries g)) by (destruct HR as [[_ _ _ F _] _]; exact F).
      destruct (c_reuse cfg).
      + destruct (g_fl g) as [|idx rest] eqn:Efl.
        * cbv beta iota zeta. rewrite Nat.ltb_irrefl. intros [= <- <-]. split; [|reflexivity].
          apply (insert_append_GR h ml g m k v c HR C Hn). split; [constructor|intros ? []].
        * assert (Hlt : (idx < length (g_entries g))%nat) by (apply (proj2 FLg idx (or_introl eq_refl))).
          apply Nat.ltb_lt in Hlt. cbv beta iota zeta. rewrite Hlt. intros [= <- <-]. split; [|reflexivity].
          rewrite <- Efl in FLg.
          apply (insert_reuse_GR h ml g m k v idx rest c HR Efl C Hn).
      + cbv beta iota zeta. rewrite Nat.ltb_irrefl. intros [= <- <-]. split; [|reflexivity].
        apply (insert_append_GR h ml g m k v c HR C Hn). exact FLg.
    - exfalso. exact (wres_not_stuck _ _ _ _ W).
  Qed.

  Lemma gremove_R g m k g' r :
    GR g m -> gremove h cfg g k = (g', r) -> GR g' (sremove m k) /\ r = Some (sget m k).
  Proof.
    intros HR. unfold gremove.
    destruct (gfind_spec h ml g k (proj1 HR)) as [c [C [Hc E]]]. rewrite E.
    change (bucket_of g (h k)) with (hb h (nbk g) k).
    destruct (wres (g_entries g) k c None) as [idx p| |] eqn:W.
    - destruct (wres_found _ _ _ _ _ _ W) as [pre [post [Ec [Ek [_ Hp]]]]].
      assert (Hidx : In idx c) by (rewrite Ec; apply in_or_app; right; left; reflexivity).
      destruct (chain_in _ _ _ _ C Hidx) as [Hlt _].
      set (es := g_entries g) in *. set (next := g_link (nth idx es gdummy)).
      assert (Main : forall bs1 es1,
                (nth idx es1 gdummy = nth idx es gdummy) -> length es1 = length es ->
                (forall j, g_key (nth j es1 gdummy) = g_key (nth j es gdummy) /\ g_val (nth j es1 gdummy) = g_val (nth j es gdummy)) ->
                ((pre = [] /\ bs1 = upd (g_buckets g) (hb h (nbk g) k) next /\ es1 = es)
                 \/ (exists pre' x, pre = pre' ++ [x] /\ bs1 = g_buckets g /\ x <> idx
                       /\ g_link (nth x es1 gdummy) = next
                       /\ forall j, j <> x -> g_link (nth j es1 gdummy) = g_link (nth j es gdummy))) ->
                let e1 := nth idx es1 gdummy in
                let es2 := upd es1 idx (mkg (g_key e1) (g_val e1) DelMark) in
                let fl := if c_reuse cfg then idx :: g_fl g else g_fl g in
                let g1 := mkgold bs1 es2 (g_cache g) (g_len g - 1) (g_maxload g) (g_flsize g + 1) fl in
                let g2 := if c_gc cfg && ((g_len g - 1) / 2 <? g_flsize g + 1) then revoke_deleted h g1 else g1 in
                GR g2 (sremove m k) /\ Some (Some (g_val (nth idx es gdummy))) = Some (sget m k)).
      { intros bs1 es1 Hsame Hl1 Hkv1 Hc1. cbv zeta.
        assert (Hlt1 : (idx < length es1)%nat) by lia.
        destruct (remove_GR h ml g m k c pre post idx bs1
                    (upd es1 idx (mkg (g_key (nth idx es1 gdummy)) (g_val (nth idx es1 gdummy)) DelMark))
                    (if c_reuse cfg then idx :: g_fl g else g_fl g) (g_maxload g) (g_flsize g + 1) HR C Ec Ek)
          as [RR SG].
        - rewrite length_upd. exact Hl1.
        - intros j. destruct (Nat.eq_dec j idx) as [->|Hj].
          + rewrite nth_upd_same by exact Hlt1. cbn [g_key g_val]. rewrite Hsame. split; reflexivity.
          + rewrite nth_upd_other by congruence. apply Hkv1.
        - rewrite nth_upd_same by exact Hlt1. reflexivity.
        - destruct Hc1 as [[Ep [Eb Ee]]|[pre' [x [Ep [Eb [Hxi [Hxl Hs]]]]]]].
          + left. split; [exact Ep|]. split; [exact Eb|]. intros j Hj. rewrite nth_upd_other by congruence. rewrite Ee. reflexivity.
          + right. exists pre', x. split; [exact Ep|]. split; [exact Eb|]. split.
            * rewrite nth_upd_other by congruence. exact Hxl.
            * intros j Hj Hjx. rewrite nth_upd_other by congruence. apply Hs. exact Hjx.
        - destruct (c_reuse cfg); [left|right]; reflexivity.
        - split; [|rewrite SG; reflexivity].
          destruct (c_gc cfg && ((g_len g - 1) / 2 <? g_flsize g + 1)); [apply revoke_GR|]; exact RR. }
      destruct Hp as [[Ep ->]|[pre' [x [Ep ->]]]].
      + intros [= <- <-].
        apply (Main (upd (g_buckets g) (hb h (nbk g) k) next) es); try reflexivity.
        * intros j; split; reflexivity.
        * left. repeat split. exact Ep.
      + assert (Hx : In x c /\ x <> idx).
        { pose proof (chain_nodup _ _ _ C) as NDc. split.
          - rewrite Ec, Ep. apply in_or_app. left. apply in_or_app. right. left. reflexivity.
          - intros ->. rewrite Ec, Ep in NDc. rewrite <- app_assoc in NDc. apply NoDup_remove_2 in NDc.
            apply NDc. apply in_or_app. right. left. reflexivity. }
        destruct Hx as [Hxin Hxne]. destruct (chain_in _ _ _ _ C Hxin) as [Hxlt _].
        intros [= <- <-].
        apply (Main (g_buckets g) (upd es x (mkg (g_key (nth x es gdummy)) (g_val (nth x es gdummy)) next))).
        * rewrite nth_upd_other by congruence. reflexivity.
        * apply length_upd.
        * intros j. destruct (Nat.eq_dec j x) as [->|Hj].
          -- rewrite nth_upd_same by exact Hxlt. split; reflexivity.
          -- rewrite nth_upd_other by congruence. split; reflexivity.
        * right. exists pre', x. split; [exact Ep|]. split; [reflexivity|]. split; [exact Hxne|]. split.
          -- rewrite nth_upd_same by exact Hxlt. reflexivity.
          -- intros j Hj. rewrite nth_upd_other by congruence. reflexivity.
    - intros [= <- <-]. pose proof (wres_notfound _ _ _ _ W) as Hn.
      assert (NK : ~ In k (map fst m)) by (eapply notfound_absent; eassumption).
      rewrite sremove_absent by exact NK. rewrite (proj2 (sget_none m k) NK). split; [exact HR|reflexivity].
    - exfalso. exact (wres_not_stuck _ _ _ _ W).
  Qed.

  Lemma gget_mut_set_R g m k x g' r :
    GR g m -> gget_mut_set h g k x = (g', r) ->
    GR g' (match sget m k with Some _ => sinsert m k x | None => m end) /\ r = Some (sget m k).
  Proof.
    intros HR. unfold gget_mut_set.
    destruct (gfind_spec h ml g k (proj1 HR)) as [c [C [Hc E]]]. rewrite E.
    destruct (wres (g_entries g) k c None) as [i p| |] eqn:W.
    - destruct (wres_found _ _ _ _ _ _ W) as [pre [post [Ec [Ek _]]]].
      assert (Hi : In i c) by (rewrite Ec; apply in_or_app; right; left; reflexivity).
      intros [= <- <-]. rewrite (found_present h g m k c i HR C Hi Ek). split; [|reflexivity].
      apply (set_val_GR h g m k c i x HR C Hi Ek).
    - intros [= <- <-]. pose proof (wres_notfound _ _ _ _ W) as Hn.
      assert (NK : ~ In k (map fst m)) by (eapply notfound_absent; eassumption).
      rewrite (proj2 (sget_none m k) NK). split; [exact HR|reflexivity].
    - exfalso. exact (wres_not_stuck _ _ _ _ W).
  Qed.

  Lemma gstep_R g m o :
    GR g m ->
    GR (fst (gstep h ml cfg g o)) (fst (sstep m o)) /\ obs_agree (snd (gstep h ml cfg g o)) (snd (sstep m o)).
  Proof.
    intros HR. destruct o as [[c k] v].
    destruct c as [|[[[?|?|]|[?|?|]|]|[[?|?|]|[?|?|]|]|]]; cbn [gstep sstep].
    all: lazymatch goal with
      | |- context [ginsert ?a ?b ?c ?d ?e ?f] =>
          destruct (ginsert a b c d e f) as [s1 r1] eqn:E; destruct (ginsert_R _ _ _ _ _ _ HR E) as [RR ->];
          split; [exact RR|reflexivity]
      | |- context [gremove ?a ?b ?c ?d] =>
          destruct (gremove a b c d) as [s1 r1] eqn:E; destruct (gremove_R _ _ _ _ _ HR E) as [RR ->];
          split; [exact RR|reflexivity]
      | |- context [gget_mut_set ?a ?b ?c ?d] =>
          destruct (gget_mut_set a b c d) as [s1 r1] eqn:E; destruct (gget_mut_set_R _ _ _ _ _ _ HR E) as [RR ->];
          split; [exact RR|reflexivity]
      | |- context [OLen] =>
          split; [exact HR|]; cbn [fst snd obs_agree]; f_equal;
          destruct HR as [[_ _ _ _ LE] [P _]]; rewrite LE, <- (nlen_perm _ _ P); rewrite !nlen_length, map_length; reflexivity
      | |- context [OIter] =>
          split; [exact HR|]; cbn [fst snd obs_agree]; unfold giter; apply HR
      | |- context [gget ?a ?b ?c] =>
          split; [exact HR|]; cbn [fst snd obs_agree]; rewrite (gget_sim a ml b _ c HR);
          try reflexivity; destruct (sget m c); reflexivity
      | |- _ => split; [apply (gclear_GR h ml _ _ HR)|reflexivity]
      end.
  Qed.

  Lemma grun_R ops : forall g m, GR g m -> Forall2 obs_agree (grun h ml cfg g ops) (srun m ops).
  Proof.
    induction ops as [|o t IH]; intros g m HR; cbn [grun srun]; [constructor|].
    destruct (gstep_R g m o HR) as [RR OA].
    destruct (gstep h ml cfg g o) as [s1 o1]. destruct (sstep m o) as [m1 o2]. cbn [fst snd] in *.
    constructor; [exact OA|apply IH; exact RR].
  Qed.
End GoldRefine.

Lemma gold_refines_map_proof :
  forall (h ml : N -> N) (cfg : gcfg) (cap : N) (ops : list op),
    Forall2 obs_agree (grun h ml cfg (with_config ml cfg cap) ops) (srun [] ops).
Proof. intros h ml cfg cap ops. apply grun_R. apply with_config_GR. Qed.

(* not vacuous: rehash, removal, recycled slot, compaction *)
Example gold_nontrivial :
  let h := hasher 4 in let ml := fun c => c / 2 in let cfg := mkcfg true true true in
  let ops := map (fun i => (0, N.of_nat i, 100 + N.of_nat i)) (seq 0 12)
             ++ [(1, 3, 0); (1, 7, 0); (0, 40, 7); (1, 1, 0); (1, 2, 0); (1, 4, 0); (1, 5, 0); (2, 40, 0); (2, 7, 0); (5, 0, 0)] in
  nth 19 (grun h ml cfg (with_config ml cfg 5) ops) OUnit = ORes (Some 7)
  /\ nth 20 (grun h ml cfg (with_config ml cfg 5) ops) OUnit = ORes None
  /\ nth 21 (grun h ml cfg (with_config ml cfg 5) ops) OUnit = OLen 7.
Proof. vm_compute. repeat split. Qed.
