(* C06 mechanism model, part 7: src/containers/specialized/easy_hash_map.rs (EasyHashMap) as written:
   a ZiporaHashMap (standard storage, RandomState hasher) plus the auto-grow policy of put():
   when `len/capacity >= max_load_factor` the map is rebuilt into
   ZiporaHashMap::with_capacity(max(2*capacity, 64)) by inserting every iterated entry (errors ignored).
   The f64 comparison is a parameter `grow : len -> capacity -> bool`.  Definitions only. *)
From ZV.Common Require Import Base.
From ZV.C06 Require Import Model.
Open Scope N_scope.

Section Easy.
  Variable h : N -> N.
  Variable grow : N -> N -> bool.   (* load_factor >= max_load_factor, computed in f64 *)
  Variable auto : bool.             (* auto_grow *)

  (* for (k, v) in entries { let _ = new_map.insert(k, v); } *)
  Fixpoint insert_each (st : std) (kvs : list (N * N)) : std :=
    match kvs with
    | [] => st
    | (k, v) :: t => insert_each (fst (insert h st k v)) t
    end.

  (* should_grow: capacity == 0 || len/capacity >= max_load_factor *)
  Definition should_grow (st : std) : bool := (alloc st =? 0) || grow (len st) (alloc st).

  Definition easy_put (st : std) (k v : N) : std :=
    let st1 :=
      if auto && should_grow st then
        let nc := N.max (2 * alloc st) 64 in
        (* ZiporaHashMap::with_capacity(nc): initial_capacity = max(nc, 16) *)
        insert_each (init (N.max nc 16)) (iter st)
      else st in
    fst (insert h st1 k v).

  (* the operations as the harness drives them: "insert" = get then put; get_mut = get_or_insert on a
     present key; iteration is not public (code 6 is the internal get_all_entries) *)
  Definition easy_step (st : std) (o : op) : std * obs :=
    let '(c, k, v) := o in
    match c with
    | 0 => (easy_put st k v, ORes (get h st k))
    | 1 => let '(st', r) := remove h st k in (st', ORes r)
    | 2 => (st, ORes (get h st k))
    | 3 => let '(st', r) := get_mut_set h st k v in (st', ORes r)
    | 4 => (st, OBool (match get h st k with Some _ => true | None => false end))
    | 5 => (st, OLen (len st))
    | 6 => (st, OIter (iter st))
    | _ => (clear st, OUnit)
    end.

  Fixpoint easy_run (st : std) (ops : list op) : list obs :=
    match ops with
    | [] => []
    | o :: t => let '(st', ob) := easy_step st o in ob :: easy_run st' t
    end.
End Easy.
