(* C06: the table invariant and its preservation by every operation that does not resize. *)
From ZV.Common Require Import Base.
From ZV.C06 Require Import Model Spec ProofsBasic ProofsList ProofsScan.
From Coq Require Import Permutation.
Open Scope N_scope.

  Definition sized (st : std) : Prop :=
    exists j, N.of_nat (length (entries st)) = 2 ^ j /\ mask st = 2 ^ j - 1 /\ 16 <= 2 ^ j.

  Definition wf (st : std) : Prop :=
    (exists a, alloc st = 2 ^ a) /\ (entries st = [] \/ sized st).

  Definition with_entries (st : std) (es : list slot) : std := mkstd es (mask st) (alloc st).

  Lemma land_mask_mod x j : N.land x (2 ^ j - 1) = x mod 2 ^ j.
  Proof.
    replace (2 ^ j - 1) with (N.ones j) by (rewrite N.ones_equiv, N.pred_sub; reflexivity).
    apply N.land_ones.
  Qed.

  Lemma probe_at_mod H j i :
    probe_at H (2 ^ j - 1) i = N.to_nat ((H mod 2 ^ j + N.of_nat i) mod 2 ^ j).
  Proof. unfold probe_at. rewrite !land_mask_mod. reflexivity. Qed.

  Lemma path_lt st H x : sized st -> In x (path st H) -> (x < length (entries st))%nat.
  Proof.
    intros [j [Hl [Hm _]]] Hin. unfold path, probe in Hin. apply in_map_iff in Hin.
    destruct Hin as [i [<- _]]. rewrite Hm, probe_at_mod.
    pose proof (N.mod_lt (H mod 2 ^ j + N.of_nat i) (2 ^ j)) as B.
    assert (2 ^ j <> 0) by (apply N.pow_nonzero; discriminate). specialize (B H0). lia.
  Qed.

  Lemma path_with_entries st es H :
    length es = length (entries st) -> path (with_entries st es) H = path st H.
  Proof. intros E. unfold path, with_entries; cbn [entries mask]. rewrite E. reflexivity. Qed.

  Lemma sized_with_entries st es :
    length es = length (entries st) -> sized st -> sized (with_entries st es).
  Proof. intros E [j Hj]. exists j. unfold with_entries; cbn [entries mask]. rewrite E. exact Hj. Qed.

  Lemma wf_with_entries st es :
    length es = length (entries st) -> sized st -> wf st -> wf (with_entries st es).
  Proof.
    intros E S [A _]. split; [exact A|]. right. apply sized_with_entries; assumption.
  Qed.

  Lemma lives_in es e : In e (lives es) <-> In e es /\ liveb e = true.
  Proof. unfold lives. apply filter_In. Qed.

  Lemma keys_kv (l : list slot) : map fst (map kv l) = map s_key l.
  Proof. rewrite map_map. apply map_ext. intros e; reflexivity. Qed.

Section Inv.
  Variable h : N -> N.

  (* every live slot stores the (normalised) hash of its key and is what a search for its key finds *)
  Definition I2 (st : std) : Prop :=
    forall p, (p < length (entries st))%nat -> liveb (nth p (entries st) dummy) = true ->
      s_hash (nth p (entries st) dummy) = hk h (s_key (nth p (entries st) dummy)) /\
      scan (entries st) (s_hash (nth p (entries st) dummy)) (s_key (nth p (entries st) dummy))
           (path st (s_hash (nth p (entries st) dummy))) = Some p.



  Definition R (st : std) (m : smap) : Prop :=
    wf st /\ I2 st /\ Permutation (map kv (lives (entries st))) m /\ NoDup (map fst m).


  (* ---- the probe path stays inside the table ---- *)







  (* ---- what a search says about the set of live slots ---- *)
  Lemma find_sound st K p :
    sized st -> scan (entries st) (hk h K) K (path st (hk h K)) = Some p ->
    (p < length (entries st))%nat /\ liveb (nth p (entries st) dummy) = true /\
    s_key (nth p (entries st) dummy) = K /\ s_hash (nth p (entries st) dummy) = hk h K /\
    In (nth p (entries st) dummy) (lives (entries st)).
  Proof.
    intros S Sc. apply (scan_in _ _ (okh_norm _)) in Sc. destruct Sc as [Hin M].
    pose proof (path_lt _ _ _ S Hin) as Hp.
    pose proof (match_live _ _ _ (okh_norm _) M) as L.
    apply matchb_true in M. destruct M as [Mh Mk].
    repeat split; try assumption. apply lives_in. split; [apply nth_In; exact Hp|exact L].
  Qed.

  Lemma find_complete st K e :
    I2 st -> In e (lives (entries st)) -> s_key e = K ->
    exists p, (p < length (entries st))%nat /\ nth p (entries st) dummy = e /\
              scan (entries st) (hk h K) K (path st (hk h K)) = Some p.
  Proof.
    intros I Hin Hk. apply lives_in in Hin. destruct Hin as [Hin L].
    destruct (In_nth _ _ dummy Hin) as [p [Hp Hn]].
    exists p. split; [exact Hp|]. split; [exact Hn|].
    specialize (I p Hp). rewrite Hn in I. destruct (I L) as [Eh Sc].
    rewrite Eh, Hk in Sc. exact Sc.
  Qed.

  Lemma find_none st K :
    I2 st -> scan (entries st) (hk h K) K (path st (hk h K)) = None ->
    ~ In K (map s_key (lives (entries st))).
  Proof.
    intros I Sc Hin. apply in_map_iff in Hin. destruct Hin as [e [Hk He]].
    destruct (find_complete _ _ _ I He Hk) as [p [_ [_ S]]]. congruence.
  Qed.


  Lemma R_keys st m : R st m -> forall k, In k (map fst m) <-> In k (map s_key (lives (entries st))).
  Proof.
    intros [_ [_ [P _]]] k. rewrite <- keys_kv.
    split; apply Permutation_in; [symmetry|]; apply Permutation_map; exact P.
  Qed.

  Lemma empty_R st m : R st m -> entries st = [] -> m = [].
  Proof.
    intros [_ [_ [P _]]] E. rewrite E in P. cbn in P. apply Permutation_nil in P. exact P.
  Qed.

  (* ---- get ---- *)
  Lemma get_sim st m k : R st m -> get h st k = sget m k.
  Proof.
    intros HR. unfold get, find.
    destruct (entries st) as [|e0 es0] eqn:Ees.
    - rewrite (empty_R _ _ HR Ees). reflexivity.
    - destruct HR as [[_ [W|W]] [I [P ND]]]; [congruence|]. rewrite <- Ees in *.
      destruct (scan (entries st) (hk h k) k (path st (hk h k))) as [p|] eqn:Sc.
      + destruct (find_sound _ _ _ W Sc) as [_ [_ [Hk [_ Hin]]]].
        symmetry. apply sget_in; [exact ND|].
        eapply Permutation_in; [exact P|]. apply in_map_iff.
        exists (nth p (entries st) dummy). split; [|exact Hin]. unfold kv. rewrite Hk. reflexivity.
      + symmetry. apply sget_none. intros Hin.
        apply (find_none _ _ I Sc). rewrite <- keys_kv.
        eapply Permutation_in; [symmetry; apply Permutation_map; exact P|exact Hin].
  Qed.

  (* ---- point updates preserve I2 ---- *)
  Lemma I2_place st H K V q l1 l2 :
    sized st -> I2 st -> H = hk h K ->
    path st H = l1 ++ q :: l2 ->
    (forall x, In x l1 -> x <> q /\ s_hash (nth x (entries st) dummy) <> 0 /\ matchb (nth x (entries st) dummy) H K = false) ->
    liveb (nth q (entries st) dummy) = false ->
    ~ In K (map s_key (lives (entries st))) ->
    I2 (with_entries st (upd (entries st) q (mkslot H K V))).
  Proof.
    intros S I EH Pth Hl NL NK.
    assert (Hq : (q < length (entries st))%nat).
    { apply (path_lt st H); [exact S|]. rewrite Pth. apply in_or_app. right. left. reflexivity. }
    assert (OK : okh H) by (subst H; apply okh_norm).
    intros p Hp Lp. unfold with_entries in *; cbn [entries] in *. rewrite length_upd in Hp.
    fold (with_entries st (upd (entries st) q (mkslot H K V))).
    rewrite path_with_entries by apply length_upd.
    destruct (Nat.eq_dec p q) as [->|Hpq].
    - rewrite nth_upd_same by exact Hq. cbn [s_hash s_key]. split; [exact EH|].
      rewrite Pth. apply scan_place_self; try assumption.
      unfold matchb; cbn [s_hash s_key]. rewrite !N.eqb_refl. reflexivity.
    - rewrite nth_upd_other in * by congruence.
      destruct (I p Hp Lp) as [Eh Sc]. split; [exact Eh|].
      apply scan_upd_other; try assumption.
      + rewrite Eh. apply okh_norm.
      + cbn [s_hash]. apply OK.
      + destruct (matchb (mkslot H K V) (s_hash (nth p (entries st) dummy)) (s_key (nth p (entries st) dummy))) eqn:M; [|reflexivity].
        exfalso. apply matchb_true in M. cbn [s_hash s_key] in M. destruct M as [_ Mk].
        apply NK. apply in_map_iff. exists (nth p (entries st) dummy). split; [symmetry; exact Mk|].
        apply lives_in. split; [apply nth_In; exact Hp|exact Lp].
  Qed.

  Lemma I2_val st p x :
    I2 st -> (p < length (entries st))%nat ->
    I2 (with_entries st (upd (entries st) p
          (mkslot (s_hash (nth p (entries st) dummy)) (s_key (nth p (entries st) dummy)) x))).
  Proof.
    intros I Hp p' Hp' Lp'.
    set (e' := mkslot (s_hash (nth p (entries st) dummy)) (s_key (nth p (entries st) dummy)) x) in *.
    unfold with_entries in *; cbn [entries] in *. rewrite length_upd in Hp'.
    fold (with_entries st (upd (entries st) p e')).
    rewrite path_with_entries by apply length_upd.
    destruct (Nat.eq_dec p' p) as [->|Hpp].
    - rewrite nth_upd_same in * by exact Hp. cbn [s_hash s_key e'] in *.
      assert (L : liveb (nth p (entries st) dummy) = true) by exact Lp'.
      destruct (I p Hp L) as [Eh Sc]. split; [exact Eh|].
      rewrite scan_upd_val; [exact Sc|exact Hp|reflexivity|reflexivity].
    - rewrite nth_upd_other in * by congruence.
      destruct (I p' Hp' Lp') as [Eh Sc]. split; [exact Eh|].
      rewrite scan_upd_val; [exact Sc|exact Hp|reflexivity|reflexivity].
  Qed.

  Lemma I2_tomb st p :
    I2 st -> (p < length (entries st))%nat -> liveb (nth p (entries st) dummy) = true ->
    I2 (with_entries st (upd (entries st) p
          (mkslot MAXH (s_key (nth p (entries st) dummy)) (s_val (nth p (entries st) dummy))))).
  Proof.
    intros I Hp Lp p' Hp' Lp'.
    unfold with_entries in *; cbn [entries] in *. rewrite length_upd in Hp'.
    match goal with |- context [mkstd ?es _ _] => fold (with_entries st es) end.
    rewrite path_with_entries by apply length_upd.
    destruct (Nat.eq_dec p' p) as [->|Hpp].
    - rewrite nth_upd_same in Lp' by exact Hp. unfold liveb in Lp'. cbn [s_hash] in Lp'.
      rewrite N.eqb_refl in Lp'. rewrite Bool.andb_false_r in Lp'. discriminate.
    - rewrite nth_upd_other in * by congruence.
      destruct (I p' Hp' Lp') as [Eh Sc]. split; [exact Eh|].
      rewrite scan_upd_tomb; [exact Sc| |exact Hp| |].
      + rewrite Eh. apply okh_norm.
      + apply liveb_true in Lp. tauto.
      + destruct (matchb (nth p (entries st) dummy) (s_hash (nth p' (entries st) dummy)) (s_key (nth p' (entries st) dummy))) eqn:M; [|reflexivity].
        exfalso. apply matchb_true in M. destruct M as [Mh Mk].
        destruct (I p Hp Lp) as [_ Sc2]. rewrite Mh, Mk in Sc2. congruence.
  Qed.

  (* ---- the three kinds of state change, at the level of the refinement relation ---- *)
  Lemma optf_live e : liveb e = true -> optf liveb e = [e].
  Proof. intros L. unfold optf. rewrite L. reflexivity. Qed.
  Lemma optf_dead e : liveb e = false -> optf liveb e = [].
  Proof. intros L. unfold optf. rewrite L. reflexivity. Qed.

  Lemma R_val st m K p x :
    R st m -> sized st -> scan (entries st) (hk h K) K (path st (hk h K)) = Some p ->
    R (with_entries st (upd (entries st) p
         (mkslot (s_hash (nth p (entries st) dummy)) (s_key (nth p (entries st) dummy)) x)))
      (sinsert m K x)
    /\ sget m K = Some (s_val (nth p (entries st) dummy)).
  Proof.
    intros [W [I [P ND]]] S Sc.
    destruct (find_sound _ _ _ S Sc) as [Hp [L [Hk [Hh Hin]]]].
    set (e := nth p (entries st) dummy) in *.
    destruct (filter_upd liveb (entries st) p (mkslot (s_hash e) (s_key e) x) dummy Hp) as [X [P1 P2]].
    fold e in P1. rewrite optf_live in P1 by exact L.
    rewrite optf_live in P2 by (unfold liveb in *; cbn [s_hash]; exact L).
    fold (lives (entries st)) in P1. 
    assert (Pm : Permutation m ((K, s_val e) :: map kv X)).
    { rewrite <- P. rewrite P1. cbn [map app]. unfold kv at 1. rewrite Hk. apply Permutation_refl. }
    split.
    - split; [apply wf_with_entries; [apply length_upd|exact S|exact W]|].
      split; [apply I2_val; assumption|].
      split; [|apply sinsert_nodup; exact ND].
      unfold with_entries; cbn [entries]. unfold lives. rewrite P2. cbn [map app]. unfold kv at 1. cbn [s_key s_val].
      rewrite Hk. unfold sinsert. apply perm_skip. symmetry. eapply sremove_perm; eassumption.
    - apply sget_in; [exact ND|]. eapply Permutation_in; [symmetry; exact Pm|left; reflexivity].
  Qed.

  Lemma R_tomb st m K p :
    R st m -> sized st -> scan (entries st) (hk h K) K (path st (hk h K)) = Some p ->
    R (with_entries st (upd (entries st) p
         (mkslot MAXH (s_key (nth p (entries st) dummy)) (s_val (nth p (entries st) dummy)))))
      (sremove m K)
    /\ sget m K = Some (s_val (nth p (entries st) dummy)).
  Proof.
    intros [W [I [P ND]]] S Sc.
    destruct (find_sound _ _ _ S Sc) as [Hp [L [Hk [Hh Hin]]]].
    set (e := nth p (entries st) dummy) in *.
    destruct (filter_upd liveb (entries st) p (mkslot MAXH (s_key e) (s_val e)) dummy Hp) as [X [P1 P2]].
    fold e in P1. rewrite optf_live in P1 by exact L.
    rewrite optf_dead in P2 by (unfold liveb; cbn [s_hash]; rewrite N.eqb_refl; apply Bool.andb_false_r).
    fold (lives (entries st)) in P1.
    assert (Pm : Permutation m ((K, s_val e) :: map kv X)).
    { rewrite <- P. rewrite P1. cbn [map app]. unfold kv at 1. rewrite Hk. apply Permutation_refl. }
    split.
    - split; [apply wf_with_entries; [apply length_upd|exact S|exact W]|].
      split; [apply I2_tomb; assumption|].
      split; [|apply sremove_nodup; exact ND].
      unfold with_entries; cbn [entries]. unfold lives. rewrite P2. cbn [app].
      symmetry. eapply sremove_perm; eassumption.
    - apply sget_in; [exact ND|]. eapply Permutation_in; [symmetry; exact Pm|left; reflexivity].
  Qed.

  Lemma R_place st m K V q l1 l2 :
    R st m -> sized st ->
    path st (hk h K) = l1 ++ q :: l2 ->
    (forall x, In x l1 -> x <> q /\ s_hash (nth x (entries st) dummy) <> 0 /\ matchb (nth x (entries st) dummy) (hk h K) K = false) ->
    liveb (nth q (entries st) dummy) = false ->
    ~ In K (map s_key (lives (entries st))) ->
    R (with_entries st (upd (entries st) q (mkslot (hk h K) K V))) (sinsert m K V)
    /\ sget m K = None.
  Proof.
    intros HR S Pth Hl NL NK.
    assert (NKm : ~ In K (map fst m)) by (rewrite (R_keys _ _ HR); exact NK).
    destruct HR as [W [I [P ND]]].
    assert (Hq : (q < length (entries st))%nat).
    { apply (path_lt st (hk h K)); [exact S|]. rewrite Pth. apply in_or_app. right. left. reflexivity. }
    destruct (filter_upd liveb (entries st) q (mkslot (hk h K) K V) dummy Hq) as [X [P1 P2]].
    rewrite optf_dead in P1 by exact NL.
    rewrite optf_live in P2 by (apply liveb_true; cbn [s_hash]; apply okh_norm).
    fold (lives (entries st)) in P1. cbn [app] in P1.
    split.
    - split; [apply wf_with_entries; [apply length_upd|exact S|exact W]|].
      split; [eapply I2_place; try eassumption; reflexivity|].
      split; [|apply sinsert_nodup; exact ND].
      unfold with_entries; cbn [entries]. unfold lives. rewrite P2. cbn [map app]. unfold kv at 1. cbn [s_key s_val].
      unfold sinsert. rewrite sremove_absent by exact NKm. apply perm_skip.
      rewrite <- P1. exact P.
    - apply sget_none. exact NKm.
  Qed.
End Inv.
