(* C06: elementary facts and the refutation witnesses for the pre-fix code. *)
From ZV.Common Require Import Base.
From ZV.C06 Require Import Model Spec.
Open Scope N_scope.

Lemma norm_avoids_markers_proof : forall x, norm x <> 0 /\ norm x <> MAXH.
Proof.
  intros x. unfold norm, MAXH.
  destruct (N.eqb_spec x 0) as [->|H0]; [split; discriminate|].
  destruct (N.eqb_spec x 18446744073709551615) as [->|H1]; [split; discriminate|].
  split; assumption.
Qed.

Lemma norm_id_proof : forall x, x <> 0 -> x <> MAXH -> norm x = x.
Proof.
  intros x H0 H1. unfold norm.
  destruct (N.eqb_spec x 0); [contradiction|].
  destruct (N.eqb_spec x MAXH); [contradiction|reflexivity].
Qed.

(* the code before fix 5ae3b7a: the hasher's value is used as is *)
Lemma sentinel_unmapped_refuted_proof :
  exists h ops, run_old h (init 16) ops <> srun [] ops.
Proof.
  exists (hasher 2), [(0, 1, 10); (2, 1, 0)]. vm_compute. discriminate.
Qed.

Lemma sentinel_max_unmapped_refuted_proof :
  exists h ops, run_old h (init 16) ops <> srun [] ops.
Proof.
  exists (hasher 3), [(0, 1, 10); (1, 1, 0); (1, 1, 0)]. vm_compute. discriminate.
Qed.

(* the code before fix 6e641f6, with a perfectly ordinary hasher (identity) *)
Lemma tombstone_first_slot_refuted_proof :
  exists ops, run_old (hasher 1) (init 16) ops <> srun [] ops.
Proof.
  exists [(0, 1, 10); (0, 17, 20); (1, 1, 0); (0, 17, 30); (1, 17, 0); (2, 17, 0)].
  vm_compute. discriminate.
Qed.

(* the code before fix 07d40e2: iteration after a removal *)
Lemma iter_tombstone_refuted_proof :
  exists ops, run_old (hasher 1) (init 16) ops <> srun [] ops.
Proof.
  exists [(0, 1, 10); (1, 1, 0); (6, 0, 0)]. vm_compute. discriminate.
Qed.

(* the stub storage strategies (finding stub_storage_strategy) *)
Lemma stub_refuted_proof : exists ops, stub_run ops <> srun [] ops.
Proof.
  exists [(0, 1, 10); (2, 1, 0)]. vm_compute. discriminate.
Qed.
