(* C06 property theorems.  Nothing but statements closed by `exact`, a pin, and
   Print Assumptions.  The driver parses this file's output. *)
From ZV.Common Require Import Base.
From ZV.C06 Require Import Model ModelGold ModelEasy ModelIdx ModelFast ModelStr ModelEasyX ModelIdxX Spec ProofsBasic ProofsScan ProofsRefine ProofsSmall ProofsGoldRefine ProofsEasy ProofsIdxRefine ProofsFast ProofsStr ProofsEasyX ProofsIdxX.
Open Scope N_scope.

(* normalize_hash never produces a slot marker, whatever the hasher returned *)
Theorem norm_avoids_markers : forall x, norm x <> 0 /\ norm x <> MAXH.
Proof. exact norm_avoids_markers_proof. Qed.
Check norm_avoids_markers : forall x, norm x <> 0 /\ norm x <> MAXH.
Print Assumptions norm_avoids_markers.

(* The property for ZiporaHashMap's standard storage: for EVERY hasher h (any function, including
   ones that return 0, u64::MAX or a constant), every power-of-two initial capacity and EVERY
   history of insert/remove/get/get_mut/contains_key/len/iter/clear, the model of the code gives
   the answers of a mathematical map - across lazy sizing, tombstones, growth and clear. *)
Theorem std_refines_map :
  forall (h : N -> N) (c : N) (ops : list op),
    pow2cap c -> Forall2 obs_agree (run h (init c) ops) (srun [] ops).
Proof. exact std_refines_map_proof. Qed.
Check std_refines_map :
  forall (h : N -> N) (c : N) (ops : list op),
    pow2cap c -> Forall2 obs_agree (run h (init c) ops) (srun [] ops).
Print Assumptions std_refines_map.

(* SmallMap: for every hasher of the promoted representation and every history - inline arrays with
   swap-remove, promotion to ZiporaHashMap::new() when the 9th key arrives, clear demoting again *)
Theorem smallmap_refines_map :
  forall (h : N -> N) (ops : list op), Forall2 obs_agree (sm_run h (Small []) ops) (srun [] ops).
Proof. exact smallmap_refines_map_proof. Qed.
Check smallmap_refines_map :
  forall (h : N -> N) (ops : list op), Forall2 obs_agree (sm_run h (Small []) ops) (srun [] ops).
Print Assumptions smallmap_refines_map.

(* GoldHashMap (buckets + per-entry links + deleted-slot free list + auto-GC compaction + rehash):
   for EVERY hash function h, every max-load function ml (the f32 computation is a parameter),
   every combination of hash cache / auto GC / freelist reuse, every initial capacity and every
   history, the model answers like a mathematical map; the chain walk never gets stuck. *)
Theorem gold_refines_map :
  forall (h ml : N -> N) (cfg : gcfg) (cap : N) (ops : list op),
    Forall2 obs_agree (grun h ml cfg (with_config ml cfg cap) ops) (srun [] ops).
Proof. exact gold_refines_map_proof. Qed.
Check gold_refines_map :
  forall (h ml : N -> N) (cfg : gcfg) (cap : N) (ops : list op),
    Forall2 obs_agree (grun h ml cfg (with_config ml cfg cap) ops) (srun [] ops).
Print Assumptions gold_refines_map.

(* EasyHashMap: a ZiporaHashMap rebuilt into a larger one when put() decides to grow - for every hasher,
   every growth decision function (the f64 load-factor test is a parameter), auto_grow on or off *)
Theorem easy_refines_map :
  forall (h : N -> N) (grow : N -> N -> bool) (auto : bool) (c : N) (ops : list op),
    pow2cap c -> Forall2 obs_agree (easy_run h grow auto (init c) ops) (srun [] ops).
Proof. exact easy_refines_map_proof. Qed.
Check easy_refines_map :
  forall (h : N -> N) (grow : N -> N -> bool) (auto : bool) (c : N) (ops : list op),
    pow2cap c -> Forall2 obs_agree (easy_run h grow auto (init c) ops) (srun [] ops).
Print Assumptions easy_refines_map.

(* GoldHashIdx (open addressing without tombstones: remove empties the slot and rehash_after_removal takes out
   and re-places the cluster that follows; values in a separate pool with a free list; growth re-inserts):
   for EVERY hash function, every requested capacity and every history of the operations the type offers
   (insert, remove, get, get_mut, contains_key, len - codes 0..5), the model answers like a mathematical map;
   no loop runs out of fuel (insert's unbounded probe, the re-placement loops) and no value index is invalid. *)
Theorem idx_refines_map :
  forall (h : N -> N) (c : N) (ops : list op),
    Forall (fun o => fst (fst o) <= 5) ops ->
    Forall2 obs_agree (irun h (iinit c) ops) (srun [] ops).
Proof. exact idx_refines_map_proof. Qed.
Check idx_refines_map :
  forall (h : N -> N) (c : N) (ops : list op),
    Forall (fun o => fst (fst o) <= 5) ops ->
    Forall2 obs_agree (irun h (iinit c) ops) (srun [] ops).
Print Assumptions idx_refines_map.

(* remove_standard's probe loop (no tombstone branch) finds exactly what get_standard's finds *)
Theorem remove_loop_is_get_loop :
  forall H K, H <> 0 /\ H <> MAXH -> forall es ps, scan_rm es H K ps = scan es H K ps.
Proof. exact scan_rm_scan. Qed.
Check remove_loop_is_get_loop :
  forall H K, H <> 0 /\ H <> MAXH -> forall es ps, scan_rm es H K ps = scan es H K ps.
Print Assumptions remove_loop_is_get_loop.

(* --- the code before the fix: commits does not have the property (regression witnesses) --- *)
Theorem sentinel_unmapped_refuted : exists h ops, run_old h (init 16) ops <> srun [] ops.
Proof. exact sentinel_unmapped_refuted_proof. Qed.
Check sentinel_unmapped_refuted : exists h ops, run_old h (init 16) ops <> srun [] ops.
Print Assumptions sentinel_unmapped_refuted.

Theorem tombstone_first_slot_refuted : exists ops, run_old (hasher 1) (init 16) ops <> srun [] ops.
Proof. exact tombstone_first_slot_refuted_proof. Qed.
Check tombstone_first_slot_refuted : exists ops, run_old (hasher 1) (init 16) ops <> srun [] ops.
Print Assumptions tombstone_first_slot_refuted.

Theorem iter_tombstone_refuted : exists ops, run_old (hasher 1) (init 16) ops <> srun [] ops.
Proof. exact iter_tombstone_refuted_proof. Qed.
Check iter_tombstone_refuted : exists ops, run_old (hasher 1) (init 16) ops <> srun [] ops.
Print Assumptions iter_tombstone_refuted.

(* --- finding stub_storage_strategy: the three unimplemented storage strategies --- *)
Theorem stub_refuted : exists ops, stub_run ops <> srun [] ops.
Proof. exact stub_refuted_proof. Qed.
Check stub_refuted : exists ops, stub_run ops <> srun [] ops.
Print Assumptions stub_refuted.

(* --- extension: SmallMap<u8, V>::get_fast, the vectorised key search (SIMD lanes and mask bits modelled) --- *)
(* in every state a history can reach (at most 8 inline keys, or the promoted form), for every key, the vectorised
   lookup - unrolled search up to 4 keys, above that one 16-lane byte compare, movemask, the lane mask
   (1 << min(len, 8)) - 1 and trailing_zeros - returns exactly what the generic lookup returns *)
Theorem get_fast_is_get :
  forall (h : N -> N) (ops : list op) (k : N),
    let sm := sm_exec h (Small []) ops in sm_get_fast true h sm k = sm_get h sm k.
Proof. exact get_fast_is_get_proof. Qed.
Check get_fast_is_get :
  forall (h : N -> N) (ops : list op) (k : N),
    let sm := sm_exec h (Small []) ops in sm_get_fast true h sm k = sm_get h sm k.
Print Assumptions get_fast_is_get.

(* SmallMap<u8> with every get answered by get_fast is a mathematical map, for every history *)
Theorem smallmap_u8_refines_map :
  forall (h : N -> N) (ops : list op), Forall2 obs_agree (smf_run true h (Small []) ops) (srun [] ops).
Proof. exact smallmap_u8_refines_map_proof. Qed.
Check smallmap_u8_refines_map :
  forall (h : N -> N) (ops : list op), Forall2 obs_agree (smf_run true h (Small []) ops) (srun [] ops).
Print Assumptions smallmap_u8_refines_map.

(* the search before 3fcc283 (movemask not restricted to the lanes that hold keys) does not have the property:
   insert 1..5; get_fast(0) finds the zero padding of the key buffer *)
Theorem get_fast_unmasked_refuted : exists ops, smf_run false (hasher 0) (Small []) ops <> srun [] ops.
Proof. exact get_fast_unmasked_refuted_proof. Qed.
Check get_fast_unmasked_refuted : exists ops, smf_run false (hasher 0) (Small []) ops <> srun [] ops.
Print Assumptions get_fast_unmasked_refuted.

(* --- extension: HashStrMap = std::collections::HashMap<String, V> (trusted to be a map) + two counters --- *)
(* the wrapper's entry points answer like a mathematical map for every history (op code 8 = statistics() is an
   observation outside the property and excluded here); the counters never influence an answer *)
Theorem hashstr_refines_map :
  forall ops, Forall (fun o => fst (fst o) <> 8) ops -> Forall2 obs_agree (hs_run hs_new ops) (srun [] ops).
Proof. exact hashstr_refines_map_proof. Qed.
Check hashstr_refines_map :
  forall ops, Forall (fun o => fst (fst o) <> 8) ops -> Forall2 obs_agree (hs_run hs_new ops) (srun [] ops).
Print Assumptions hashstr_refines_map.

(* in every reachable state (statistics calls included): len() <= unique_keys <= total_inserts, so that
   interning_ratio() = 1 - unique/total lies in [0, 1) *)
Theorem hashstr_counters :
  forall ops, let m := hs_exec hs_new ops in nlen (hs_map m) <= hs_unique m /\ hs_unique m <= hs_total m.
Proof. exact hashstr_counters_proof. Qed.
Check hashstr_counters :
  forall ops, let m := hs_exec hs_new ops in nlen (hs_map m) <= hs_unique m /\ hs_unique m <= hs_total m.
Print Assumptions hashstr_counters.

(* --- extension: EasyHashMap's entry points built from put(): get_or_insert / get_or_insert_with (code 12: contains_key,
   put if absent - possibly through the growth rebuild -, get_mut(..).expect(..)) and extend / Extend / FromIterator
   (code 15: one put of the loop).  The `expect` never fires (no OErr), the answer is the value found or inserted. --- *)
Theorem easy_ext_refines_map :
  forall (h : N -> N) (grow : N -> N -> bool) (auto : bool) (c : N) (ops : list op),
    pow2cap c -> Forall2 obs_agree (easy_runx h grow auto (init c) ops) (srunx [] ops).
Proof. exact easy_ext_refines_map_proof. Qed.
Check easy_ext_refines_map :
  forall (h : N -> N) (grow : N -> N -> bool) (auto : bool) (c : N) (ops : list op),
    pow2cap c -> Forall2 obs_agree (easy_runx h grow auto (init c) ops) (srunx [] ops).
Print Assumptions easy_ext_refines_map.

(* --- extension: GoldHashIdx::insert_batch = pre-sizing (code 16: resize_to(next_power_of_two((len + n) * 2)) when that
   exceeds the capacity - a growth to ANY power of two, not only the doubling of insert) followed by the insert loop
   (code 17, answer discarded).  Neither step ever fails (no OErr) and the contents are those of the mathematical map. --- *)
Theorem idx_batch_refines_map :
  forall (h : N -> N) (c : N) (ops : list op),
    Forall (fun o => fst (fst o) <= 5 \/ fst (fst o) = 16 \/ fst (fst o) = 17) ops ->
    Forall2 obs_agree (irunx h (iinit c) ops) (sruni [] ops).
Proof. exact idx_batch_refines_map_proof. Qed.
Check idx_batch_refines_map :
  forall (h : N -> N) (c : N) (ops : list op),
    Forall (fun o => fst (fst o) <= 5 \/ fst (fst o) = 16 \/ fst (fst o) = 17) ops ->
    Forall2 obs_agree (irunx h (iinit c) ops) (sruni [] ops).
Print Assumptions idx_batch_refines_map.
