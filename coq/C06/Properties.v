(* C06 property theorems.  Nothing but statements closed by `exact`, a pin, and
   Print Assumptions.  The driver parses this file's output. *)
From ZV.Common Require Import Base.
From ZV.C06 Require Import Model Spec ProofsBasic.
Open Scope N_scope.

(* normalize_hash never produces a slot marker, whatever the hasher returned *)
Theorem norm_avoids_markers : forall x, norm x <> 0 /\ norm x <> MAXH.
Proof. exact norm_avoids_markers_proof. Qed.
Check norm_avoids_markers : forall x, norm x <> 0 /\ norm x <> MAXH.
Print Assumptions norm_avoids_markers.
