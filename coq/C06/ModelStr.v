(* C06 extension: HashStrMap (src/containers/specialized/hash_str_map.rs).
   The type is a std::collections::HashMap<String, V> plus two counters:

     struct HashStrMap<V> { map: HashMap<String, V>, total_inserts: usize, unique_keys: usize }
     insert / insert_string: was_new = !map.contains_key(key); result = map.insert(key, value);
                             total_inserts += 1; if was_new { unique_keys += 1 }; Ok(result)
     get / get_mut / remove / contains_key / len / iter: the map's
     clear / clear_all: map.clear(); both counters := 0
     statistics(): entries = len(), total_strings = total_inserts, unique_strings = unique_keys

   std's HashMap is TRUSTED to be a map: its operations are the association-list operations of Spec.v.
   What is modelled is the wrapper: which map call answers which entry point, and the counter bookkeeping
   (statistics() is an observation of the model: op code 8, v mod 3 selects the field).  Keys are numbers:
   the harness numbers its String keys injectively. *)
From ZV.Common Require Import Base.
From ZV.C06 Require Import Model Spec.
Open Scope N_scope.

Record hsm := mkhsm { hs_map : smap; hs_total : N; hs_unique : N }.

Definition hs_new : hsm := mkhsm [] 0 0.

Definition hs_contains (m : hsm) (k : N) : bool :=
  match sget (hs_map m) k with Some _ => true | None => false end.

Definition hs_insert (m : hsm) (k v : N) : hsm * option N :=
  let was_new := negb (hs_contains m k) in
  let result := sget (hs_map m) k in                (* HashMap::insert returns the previous value *)
  (mkhsm (sinsert (hs_map m) k v) (hs_total m + 1) (if was_new then hs_unique m + 1 else hs_unique m), result).

Definition hs_remove (m : hsm) (k : N) : hsm * option N :=
  (mkhsm (sremove (hs_map m) k) (hs_total m) (hs_unique m), sget (hs_map m) k).

Definition hs_get_mut_set (m : hsm) (k x : N) : hsm * option N :=
  match sget (hs_map m) k with
  | Some old => (mkhsm (sinsert (hs_map m) k x) (hs_total m) (hs_unique m), Some old)
  | None => (m, None)
  end.

Definition hs_clear (m : hsm) : hsm := mkhsm [] 0 0.

(* statistics(): entries / total_strings / unique_strings *)
Definition hs_stat (m : hsm) (which : N) : N :=
  match which mod 3 with
  | 0 => nlen (hs_map m)
  | 1 => hs_total m
  | _ => hs_unique m
  end.

Definition hs_step (m : hsm) (o : op) : hsm * obs :=
  let '(c, k, v) := o in
  match c with
  | 0 => let '(m', r) := hs_insert m k v in (m', ORes r)
  | 1 => let '(m', r) := hs_remove m k in (m', ORes r)
  | 2 => (m, ORes (sget (hs_map m) k))
  | 3 => let '(m', r) := hs_get_mut_set m k v in (m', ORes r)
  | 4 => (m, OBool (hs_contains m k))
  | 5 => (m, OLen (nlen (hs_map m)))
  | 6 => (m, OIter (hs_map m))
  | 8 => (m, OLen (hs_stat m v))
  | _ => (hs_clear m, OUnit)
  end.

Fixpoint hs_run (m : hsm) (ops : list op) : list obs :=
  match ops with
  | [] => []
  | o :: t => let '(m', ob) := hs_step m o in ob :: hs_run m' t
  end.

Fixpoint hs_exec (m : hsm) (ops : list op) : hsm :=
  match ops with
  | [] => m
  | o :: t => hs_exec (fst (hs_step m o)) t
  end.
