(* C06 mechanism model, part 8: src/containers/specialized/gold_hash_idx.rs (GoldHashIdx) as written.
   Open addressing over `table : Vec<Option<Bucket{key, value_index, hash}>>` with linear probing
   `(index + 1) % capacity`, no tombstones: remove empties the slot and rehash_after_removal takes out
   and re-places every bucket of the cluster that follows; values live in a separate pool
   `values : Vec<Option<ptr>>` with a free-list stack of indices.  Resize doubles when
   len >= (capacity as f64 * 0.75) as usize and re-inserts every bucket (the old value slots are not
   released).  Keys and values are N; the hash function (AHasher::default) is a parameter.
   Definitions only. *)
From ZV.Common Require Import Base.
From ZV.C06 Require Import Model.
Open Scope N_scope.

Record ibucket := mkib { ib_key : N; ib_vidx : nat; ib_hash : N }.
Record gidx := mkix {
  ix_table : list (option ibucket);
  ix_values : list (option N);
  ix_free : list nat;          (* stack, head = top *)
  ix_len : N
}.

Definition icap (g : gidx) : nat := length (ix_table g).
Definition ihome (cap : nat) (hash : N) : nat := N.to_nat (hash mod N.of_nat cap).
(* the slots visited from `start`: start, (start+1) % cap, ... (cap of them) *)
Definition ipath (cap start : nat) : list nat := map (fun i => Nat.modulo (start + i) cap) (seq 0 cap).
Definition inext (cap i : nat) : nat := Nat.modulo (S i) cap.

Definition ibmatch (b : ibucket) (hash key : N) : bool := (ib_hash b =? hash) && (ib_key b =? key).

Inductive ires := IFound (p : nat) (b : ibucket) | IEmpty (p : nat) | IExhausted.

(* the probe loop shared by insert/get/get_mut/remove: stops at the first None or the matching bucket *)
Fixpoint iscan (t : list (option ibucket)) (hash key : N) (ps : list nat) : ires :=
  match ps with
  | [] => IExhausted
  | p :: r =>
      match nth p t None with
      | None => IEmpty p
      | Some b => if ibmatch b hash key then IFound p b else iscan t hash key r
      end
  end.

(* first free slot from `start` (rehash_after_removal's inner while) *)
Fixpoint ifirst_none (t : list (option ibucket)) (ps : list nat) : option nat :=
  match ps with
  | [] => None
  | p :: r => match nth p t None with None => Some p | Some _ => ifirst_none t r end
  end.

(* (capacity as f64 * 0.75) as usize; capacity is a multiple of 4 *)
Definition ithreshold (cap : nat) : N := N.of_nat cap * 3 / 4.

Definition next_pow2 (n : N) : N := 2 ^ N.log2_up n.

Section Idx.
  Variable h : N -> N.

  (* allocate_value: reuse a free slot or push *)
  Definition ialloc (g : gidx) (v : N) : option (nat * list (option N) * list nat) :=
    match ix_free g with
    | i :: rest =>
        if Nat.ltb i (length (ix_values g)) then Some (i, upd (ix_values g) i (Some v), rest) else None
    | [] => Some (length (ix_values g), ix_values g ++ [Some v], [])
    end.

  (* the part of insert after the resize check; None = Err / endless loop *)
  Definition iinsert_core (g : gidx) (k v : N) : option (gidx * option N) :=
    let hash := h k in
    match iscan (ix_table g) hash k (ipath (icap g) (ihome (icap g) hash)) with
    | IEmpty p =>
        match ialloc g v with
        | Some (vi, vals, fr) =>
            Some (mkix (upd (ix_table g) p (Some (mkib k vi hash))) vals fr (ix_len g + 1), None)
        | None => None
        end
    | IFound p b =>
        match nth (ib_vidx b) (ix_values g) None with
        | Some old => Some (mkix (ix_table g) (upd (ix_values g) (ib_vidx b) (Some v)) (ix_free g) (ix_len g), Some old)
        | None => None
        end
    | IExhausted => None
    end.

  (* resize_to(new_cap): fresh table, len = 0, re-insert every bucket in slot order *)
  Fixpoint ireinsert (g : gidx) (old : list (option ibucket)) : option gidx :=
    match old with
    | [] => Some g
    | None :: r => ireinsert g r
    | Some b :: r =>
        match nth (ib_vidx b) (ix_values g) None with
        | None => None
        | Some v =>
            if ithreshold (icap g) <=? ix_len g then None   (* nested resize: not modelled *)
            else match iinsert_core g (ib_key b) v with
                 | Some (g', _) => ireinsert g' r
                 | None => None
                 end
        end
    end.

  Definition iresize (g : gidx) : option gidx :=
    let nc := (2 * icap g)%nat in
    ireinsert (mkix (repeat None nc) (ix_values g) (ix_free g) 0) (ix_table g).

  Definition iinsert (g : gidx) (k v : N) : gidx * option (option N) :=
    let g1 := if ithreshold (icap g) <=? ix_len g then iresize g else Some g in
    match g1 with
    | None => (g, None)
    | Some g1 =>
        match iinsert_core g1 k v with
        | Some (g', r) => (g', Some r)
        | None => (g1, None)
        end
    end.

  Definition iget (g : gidx) (k : N) : option N :=
    match iscan (ix_table g) (h k) k (ipath (icap g) (ihome (icap g) (h k))) with
    | IFound _ b => nth (ib_vidx b) (ix_values g) None
    | _ => None
    end.

  Definition iget_mut_set (g : gidx) (k x : N) : gidx * option N :=
    match iscan (ix_table g) (h k) k (ipath (icap g) (ihome (icap g) (h k))) with
    | IFound _ b =>
        match nth (ib_vidx b) (ix_values g) None with
        | Some old => (mkix (ix_table g) (upd (ix_values g) (ib_vidx b) (Some x)) (ix_free g) (ix_len g), Some old)
        | None => (g, None)
        end
    | _ => (g, None)
    end.

  (* rehash_after_removal: from the slot after `start`, take out and re-place every bucket up to the
     first empty slot; None = the loop does not terminate *)
  Fixpoint irehash (t : list (option ibucket)) (idx : nat) (fuel : nat) : option (list (option ibucket)) :=
    match fuel with
    | O => None
    | S f =>
        match nth idx t None with
        | None => Some t
        | Some b =>
            let t1 := upd t idx None in
            let cap := length t in
            match ifirst_none t1 (ipath cap (ihome cap (ib_hash b))) with
            | Some q => irehash (upd t1 q (Some b)) (inext cap idx) f
            | None => None
            end
        end
    end.

  Definition iremove (g : gidx) (k : N) : gidx * option (option N) :=
    match iscan (ix_table g) (h k) k (ipath (icap g) (ihome (icap g) (h k))) with
    | IFound p b =>
        match nth (ib_vidx b) (ix_values g) None with
        | None => (g, Some None)             (* get_value(..).ok()? *)
        | Some v =>
            let t1 := upd (ix_table g) p None in
            let vals := if Nat.ltb (ib_vidx b) (length (ix_values g)) then upd (ix_values g) (ib_vidx b) None else ix_values g in
            let fr := if Nat.ltb (ib_vidx b) (length (ix_values g)) then ib_vidx b :: ix_free g else ix_free g in
            match irehash t1 (inext (icap g) p) (S (icap g)) with
            | Some t2 => (mkix t2 vals fr (ix_len g - 1), Some (Some v))
            | None => (g, None)
            end
        end
    | _ => (g, Some None)
    end.

  Definition iinit (c : N) : gidx :=
    mkix (repeat None (N.to_nat (N.max (next_pow2 c) 16))) [] [] 0.

  (* codes 0..5 as in Model.v; GoldHashIdx offers neither iteration nor clear *)
  Definition istep (g : gidx) (o : op) : gidx * obs :=
    let '(c, k, v) := o in
    match c with
    | 0 => let '(g', r) := iinsert g k v in (g', match r with Some x => ORes x | None => OErr end)
    | 1 => let '(g', r) := iremove g k in (g', match r with Some x => ORes x | None => OErr end)
    | 2 => (g, ORes (iget g k))
    | 3 => let '(g', r) := iget_mut_set g k v in (g', ORes r)
    | 4 => (g, OBool (match iget g k with Some _ => true | None => false end))
    | 5 => (g, OLen (ix_len g))
    | _ => (g, OUnit)
    end.

  Fixpoint irun (g : gidx) (ops : list op) : list obs :=
    match ops with
    | [] => []
    | o :: t => let '(g', ob) := istep g o in ob :: irun g' t
    end.
End Idx.
