(* C06 / GoldHashIdx: the table invariant and rehash_after_removal. *)
From ZV.Common Require Import Base.
From ZV.C06 Require Import Model ModelIdx Spec ProofsList ProofsIdxPath.
From Coq Require Import Permutation.
Open Scope nat_scope.

(* least witness of a decidable predicate below a known one *)
Lemma least_witness (P : nat -> Prop) (dec : forall n, {P n} + {~ P n}) :
  forall n, P n -> exists m, m <= n /\ P m /\ forall k, k < m -> ~ P k.
Proof.
  intros n Hn.
  assert (G : forall n, (exists m, m < n /\ P m /\ forall k, k < m -> ~ P k) \/ (forall k, k < n -> ~ P k)).
  { induction n0 as [|n0 IH]; [right; intros k Hk; lia|].
    destruct IH as [[m [Hm [Pm Hmin]]]|Hnone].
    - left. exists m. repeat split; try assumption. lia.
    - destruct (dec n0) as [Pn|Nn].
      + left. exists n0. repeat split; try assumption. lia.
      + right. intros k Hk. destruct (Nat.eq_dec k n0) as [->|Hne]; [exact Nn|apply Hnone; lia]. }
  destruct (G (S n)) as [[m [Hm [Pm Hmin]]]|Hnone].
  - exists m. repeat split; try assumption. lia.
  - exfalso. apply (Hnone n); [lia|exact Hn].
Qed.

Section Tab.
  Variable h : N -> N.
  Variable cap : nat.
  Hypothesis CAP : 0 < cap.

  Definition runs (t : list (option ibucket)) (d delta : nat) : Prop :=
    forall i, i < delta -> somep t (addm cap d i).

  (* the bucket at p is reachable from its home slot without crossing an empty slot *)
  Definition reach (t : list (option ibucket)) (p : nat) (b : ibucket) : Prop :=
    exists delta, delta < cap /\ addm cap (ihome cap (ib_hash b)) delta = p /\ runs t (ihome cap (ib_hash b)) delta.

  Definition tab_ok (t : list (option ibucket)) : Prop :=
    length t = cap /\
    forall p b, p < cap -> nth p t None = Some b -> ib_hash b = h (ib_key b) /\ reach t p b.

  Section Rehash.
    Variable t0 : list (option ibucket).
    Variable i0 : nat.
    Hypothesis I0 : i0 < cap.
    Variable L : nat.
    Hypothesis L1 : 1 <= L.
    Hypothesis Lc : L < cap.
    Hypothesis LN : nth (addm cap i0 L) t0 None = None.

    Notation pos := (addm cap i0).

    Lemma pos_lt u : u < cap -> pos u < cap.
    Proof. intros; apply addm_lt; assumption. Qed.
    Lemma pos_inj u v : u < cap -> v < cap -> pos u = pos v -> u = v.
    Proof. intros Hu Hv E. eapply addm_inj; [exact I0| | |exact E]; assumption. Qed.

    (* a run of occupied slots that contains pos x (x < L) and ends before pos u, where going forward
       from x to u passes L, would contain the empty slot pos L *)
    Lemma barrier T d delta u x i :
      d < cap -> delta < cap -> u < cap -> i < delta ->
      addm cap d delta = pos u -> addm cap d i = pos x -> runs T d delta ->
      nth (pos L) T None = None -> x < L -> (L < u \/ u <= x) -> False.
    Proof.
      intros Hd Hdl Hu Hi Eu Ex R NL HxL Hcase.
      destruct (addm_surj cap i0 d I0 Hd) as [od [Hod Eod]].
      assert (Hx : x < cap) by lia.
      assert (Eu' : addm cap od delta = u).
      { apply pos_inj; [apply addm_lt; lia|exact Hu|]. rewrite <- addm_assoc by lia. rewrite Eod. exact Eu. }
      assert (Ex' : addm cap od i = x).
      { apply pos_inj; [apply addm_lt; lia|exact Hx|]. rewrite <- addm_assoc by lia. rewrite Eod. exact Ex. }
      assert (Hi' : i + (L - x) < delta /\ addm cap od (i + (L - x)) = L) by (clear - Hod Hdl Hu Hi Eu' Ex' HxL Hcase Lc; addm_crush).
      destruct Hi' as [Hlt EL].
      specialize (R (i + (L - x)) Hlt). unfold somep in R. apply R.
      rewrite <- Eod. rewrite addm_assoc by lia. rewrite EL. exact NL.
    Qed.

    Record INV (s : nat) (T : list (option ibucket)) : Prop := mkINV {
      inv_len : length T = cap;
      inv_same : forall u, s < u -> u < cap -> nth (pos u) T None = nth (pos u) t0 None;
      inv_hash : forall p b, nth p T None = Some b -> ib_hash b = h (ib_key b);
      inv_reach : forall u b, u < cap -> (u <= s \/ L <= u) -> nth (pos u) T None = Some b -> reach T (pos u) b;
      inv_perm : Permutation (somes T) (somes t0);
      inv_pend : forall u b, s < u -> u < L -> nth (pos u) t0 None = Some b ->
                 exists delta, delta < cap /\ addm cap (ihome cap (ib_hash b)) delta = pos u /\
                   forall i, i < delta ->
                     somep T (addm cap (ihome cap (ib_hash b)) i)
                     \/ exists w, w <= s /\ addm cap (ihome cap (ib_hash b)) i = pos w
    }.

    Hypothesis LS : forall u, 1 <= u -> u < L -> somep t0 (pos u).

    Lemma inv_step s T :
      INV s T -> S s < L ->
      exists b q,
        nth (pos (S s)) T None = Some b
        /\ ifirst_none (upd T (pos (S s)) None) (ipath cap (ihome cap (ib_hash b))) = Some q
        /\ INV (S s) (upd (upd T (pos (S s)) None) q (Some b)).
    Proof.
      intros [I1 I2 I3 I4 I5 I6] HsL.
      set (idx := pos (S s)).
      assert (Hidx : idx < cap) by (apply pos_lt; lia).
      assert (Eidx : nth idx T None = nth idx t0 None) by (apply I2; lia).
      pose proof (LS (S s) ltac:(lia) HsL) as Sidx. fold idx in Sidx. unfold somep in Sidx.
      destruct (nth idx t0 None) as [b|] eqn:Eb; [|congruence]. clear Sidx.
      exists b.
      set (d := ihome cap (ib_hash b)).
      assert (Hd : d < cap) by (apply ihome_lt; exact CAP).
      destruct (I6 (S s) b ltac:(lia) HsL Eb) as [delta [Hdl [Edl Hpend]]]. fold d in Edl, Hpend. fold idx in Edl.
      set (T1 := upd T idx None).
      assert (L1len : length T1 = cap) by (unfold T1; rewrite length_upd; exact I1).
      assert (N1 : nth idx T1 None = None) by (unfold T1; apply nth_upd_same; lia).
      assert (O1 : forall y, y <> idx -> nth y T1 None = nth y T None) by (intros y Hy; unfold T1; apply nth_upd_other; congruence).
      rewrite (ipath_addm cap d Hd).
      pose proof (ifirst_none_spec T1 (addm cap d) cap 0) as FS. cbn [Nat.add] in FS.
      destruct (ifirst_none T1 (map (addm cap d) (seq 0 cap))) as [q|].
      2:{ exfalso. specialize (FS delta Hdl). unfold somep in FS. rewrite Edl in FS. contradiction. }
      destruct FS as [istar [His [Eq [Nq Hbefore]]]].
      exists q. split; [exact Eidx|]. split; [reflexivity|].
      assert (Hle : istar <= delta).
      { destruct (Nat.le_gt_cases istar delta) as [A|A]; [exact A|]. exfalso.
        specialize (Hbefore delta A). unfold somep in Hbefore. rewrite Edl in Hbefore. contradiction. }
      assert (Hq : q < cap) by (rewrite Eq; apply addm_lt; assumption).
      (* q lies in the processed region *)
      assert (Qreg : exists w, w <= S s /\ q = pos w).
      { destruct (Nat.eq_dec istar delta) as [->|Hne].
        - exists (S s). split; [lia|]. rewrite Eq, Edl. reflexivity.
        - destruct (Hpend istar ltac:(lia)) as [Sq|[w [Hw Ew]]].
          + exfalso. rewrite <- Eq in Sq. unfold somep in Sq.
            destruct (Nat.eq_dec q idx) as [E|E].
            * apply Hne. apply (addm_inj cap d); try assumption; try lia.
            * rewrite O1 in Nq by exact E. contradiction.
          + exists w. split; [lia|]. rewrite Eq. exact Ew. }
      destruct Qreg as [wq [Hwq Eqw]].
      set (T2 := upd T1 q (Some b)).
      assert (N2q : nth q T2 None = Some b) by (unfold T2; apply nth_upd_same; lia).
      assert (O2 : forall y, y <> q -> nth y T2 None = nth y T1 None) by (intros y Hy; unfold T2; apply nth_upd_other; congruence).
      assert (Mono : forall y, y <> idx -> somep T y -> somep T2 y).
      { intros y Hy Sy. unfold somep. destruct (Nat.eq_dec y q) as [->|Hyq]; [rewrite N2q; discriminate|].
        rewrite O2, O1 by assumption. exact Sy. }
      assert (NLT : nth (pos L) T None = None) by (rewrite I2 by lia; exact LN).
      constructor.
      - unfold T2. rewrite length_upd. exact L1len.
      - intros u Hu Huc.
        assert (pos u <> idx) by (intros E; apply pos_inj in E; lia).
        assert (pos u <> q) by (rewrite Eqw; intros E; apply pos_inj in E; lia).
        rewrite O2, O1 by assumption. apply I2; lia.
      - intros p b' Ep. destruct (Nat.eq_dec p q) as [->|Hpq].
        + rewrite N2q in Ep. injection Ep as <-. apply (I3 idx). rewrite Eidx. reflexivity.
        + rewrite O2 in Ep by exact Hpq. destruct (Nat.eq_dec p idx) as [->|Hpi]; [rewrite N1 in Ep; discriminate|].
          rewrite O1 in Ep by exact Hpi. eapply I3; exact Ep.
      - intros u b' Hu Hcase Ep. destruct (Nat.eq_dec (pos u) q) as [Epq|Hpq].
        + rewrite Epq in *. rewrite N2q in Ep. injection Ep as <-.
          exists istar. split; [lia|]. split; [symmetry; exact Eq|].
          intros i Hi. fold d. unfold somep.
          assert (addm cap d i <> q).
          { rewrite Eq. intros E. apply addm_inj in E; try assumption; lia. }
          rewrite O2 by assumption. apply Hbefore. exact Hi.
        + rewrite O2 in Ep by exact Hpq.
          destruct (Nat.eq_dec (pos u) idx) as [Epi|Hpi]; [rewrite Epi, N1 in Ep; discriminate|].
          rewrite O1 in Ep by exact Hpi.
          assert (HuS : u <> S s) by (intros ->; apply Hpi; reflexivity).
          assert (HuL : u <> L) by (intros ->; rewrite NLT in Ep; discriminate).
          destruct (I4 u b' Hu ltac:(lia) Ep) as [dl [Hdlc [Edl' R]]].
          exists dl. split; [exact Hdlc|]. split; [exact Edl'|].
          intros i Hi. apply Mono; [|apply R; exact Hi].
          intros Ey. unfold idx in Ey.
          eapply (barrier T (ihome cap (ib_hash b')) dl u (S s) i); try eassumption; try lia.
          apply ihome_lt; exact CAP.
      - destruct (somes_upd T1 q (Some b) ltac:(lia)) as [X2 [P21 P22]].
        destruct (somes_upd T idx None ltac:(lia)) as [X1 [P11 P12]].
        fold T1 in P12. fold T2 in P22. rewrite Nq in P21. rewrite Eidx in P11. cbn [olist app] in *.
        rewrite P22, <- I5, P11, <- P21, P12. apply Permutation_refl.
      - intros u b' Hu HuL Ep.
        destruct (I6 u b' ltac:(lia) HuL Ep) as [dl [Hdlc [Edl' Hp]]].
        exists dl. split; [exact Hdlc|]. split; [exact Edl'|].
        intros i Hi. destruct (Hp i Hi) as [Sy|[w [Hw Ew]]].
        + destruct (Nat.eq_dec (addm cap (ihome cap (ib_hash b')) i) idx) as [E|E].
          * right. exists (S s). split; [lia|exact E].
          * left. apply Mono; assumption.
        + right. exists w. split; [lia|exact Ew].
    Qed.

    Lemma inext_pos u : S u < cap -> inext cap (pos u) = pos (S u).
    Proof. intros Hu. unfold inext. symmetry. apply addm_succ; lia. Qed.

    Lemma rehash_loop : forall n s T fuel,
      S s + n = L -> INV s T -> n < fuel ->
      exists T2, irehash T (pos (S s)) fuel = Some T2 /\ tab_ok T2 /\ Permutation (somes T2) (somes t0).
    Proof.
      induction n as [|n IH]; intros s T fuel Hn HI Hf.
      - destruct fuel as [|f]; [lia|]. cbn [irehash].
        assert (E : nth (pos (S s)) T None = None).
        { replace (S s) with L by lia. rewrite (inv_same _ _ HI) by lia. exact LN. }
        rewrite E. exists T. split; [reflexivity|]. split; [|apply (inv_perm _ _ HI)].
        split; [apply (inv_len _ _ HI)|]. intros p b Hp Ep.
        destruct (addm_surj cap i0 p I0 Hp) as [u [Hu Eu]]. subst p.
        split; [eapply (inv_hash _ _ HI); exact Ep|].
        apply (inv_reach _ _ HI u b Hu); [lia|exact Ep].
      - destruct fuel as [|f]; [lia|].
        destruct (inv_step s T HI ltac:(lia)) as [b [q [Eb [Eq HI']]]].
        cbn [irehash]. rewrite Eb. rewrite (inv_len _ _ HI). rewrite Eq.
        rewrite inext_pos by lia.
        apply (IH (S s)); [lia|exact HI'|lia].
    Qed.
  End Rehash.

  (* removal: empty slot i0, then re-place the cluster that follows *)
  Lemma rehash_ok t i0 b0 :
    tab_ok t -> i0 < cap -> nth i0 t None = Some b0 -> length (somes t) < cap ->
    exists t2, irehash (upd t i0 None) (inext cap i0) (S cap) = Some t2
      /\ tab_ok t2 /\ Permutation (somes t2) (somes (upd t i0 None)).
  Proof.
    intros [Hl Hok] Hi0 E0 Hcnt.
    set (t0 := upd t i0 None).
    assert (L0 : length t0 = cap) by (unfold t0; rewrite length_upd; exact Hl).
    assert (N0 : nth i0 t0 None = None) by (unfold t0; apply nth_upd_same; lia).
    assert (O0 : forall y, y <> i0 -> nth y t0 None = nth y t None) by (intros y Hy; unfold t0; apply nth_upd_other; congruence).
    (* some other slot is empty *)
    destruct (exists_none t ltac:(lia)) as [z [Hz Ez]]. rewrite Hl in Hz.
    assert (Hzi : z <> i0) by (intros ->; congruence).
    destruct (addm_surj cap i0 z Hi0 Hz) as [u0 [Hu0 Eu0]].
    assert (Hu0pos : 1 <= u0).
    { destruct u0; [|lia]. exfalso. rewrite addm_0 in Eu0 by exact Hi0. congruence. }
    set (P := fun u => 1 <= u /\ nth (addm cap i0 u) t0 None = None).
    assert (Pdec : forall n, {P n} + {~ P n}).
    { intros n. unfold P. destruct (le_lt_dec 1 n) as [A|A]; [|right; lia].
      destruct (nth (addm cap i0 n) t0 None) eqn:E; [right; intros [_ B]; discriminate|left; split; [exact A|reflexivity]]. }
    destruct (least_witness P Pdec u0) as [L [HLu [[HL1 HLN] Hmin]]].
    { split; [exact Hu0pos|]. rewrite Eu0, O0 by exact Hzi. exact Ez. }
    assert (HLc : L < cap) by lia.
    assert (LS : forall u, 1 <= u -> u < L -> somep t0 (addm cap i0 u)).
    { intros u Hu1 HuL. unfold somep. intros E. apply (Hmin u HuL). split; assumption. }
    (* the state before the loop *)
    assert (HI : INV t0 i0 L 0 t0).
    { constructor.
      - exact L0.
      - intros; reflexivity.
      - intros p b Ep. destruct (Nat.eq_dec p i0) as [->|Hp]; [congruence|]. rewrite O0 in Ep by exact Hp.
        destruct (Nat.lt_ge_cases p cap) as [Hpc|Hpc]; [apply (Hok p b Hpc Ep)|].
        rewrite nth_overflow in Ep by lia. discriminate.
      - intros u b Hu Hcase Ep.
        destruct (Nat.eq_dec u 0) as [->|Hune0]; [rewrite addm_0 in Ep by exact Hi0; congruence|].
        destruct Hcase as [A|A]; [lia|].
        assert (Hpu : addm cap i0 u <> i0) by (intros E; rewrite <- (addm_0 cap i0 Hi0) in E at 2; apply addm_inj in E; lia).
        rewrite O0 in Ep by exact Hpu.
        destruct (Hok _ b (addm_lt _ _ _ Hi0 Hu) Ep) as [_ [dl [Hdl [Edl R]]]].
        exists dl. split; [exact Hdl|]. split; [exact Edl|].
        intros i Hi. pose proof (R i Hi) as Ri. unfold somep in Ri |- *.
        destruct (Nat.eq_dec (addm cap (ihome cap (ib_hash b)) i) i0) as [Ey|Ey]; [|rewrite O0 by exact Ey; exact Ri].
        exfalso.
        assert (HuL : u <> L) by (intros ->; rewrite O0 in HLN by exact Hpu; congruence).
        assert (NLt : nth (addm cap i0 L) t None = None).
        { rewrite <- O0; [exact HLN|]. intros E. rewrite <- (addm_0 cap i0 Hi0) in E at 2. apply addm_inj in E; lia. }
        eapply (barrier i0 Hi0 L HL1 HLc t (ihome cap (ib_hash b)) dl u 0 i); try eassumption; try lia.
        + apply ihome_lt; exact CAP.
        + rewrite addm_0 by exact Hi0. exact Ey.
      - apply Permutation_refl.
      - intros u b Hu HuL Ep.
        assert (Hpu : addm cap i0 u <> i0) by (intros E; rewrite <- (addm_0 cap i0 Hi0) in E at 2; apply addm_inj in E; lia).
        rewrite O0 in Ep by exact Hpu.
        assert (Huc : u < cap) by lia.
        destruct (Hok _ b (addm_lt _ _ _ Hi0 Huc) Ep) as [_ [dl [Hdl [Edl R]]]].
        exists dl. split; [exact Hdl|]. split; [exact Edl|].
        intros i Hi. specialize (R i Hi).
        destruct (Nat.eq_dec (addm cap (ihome cap (ib_hash b)) i) i0) as [Ey|Ey].
        + right. exists 0. split; [lia|]. rewrite addm_0 by exact Hi0. exact Ey.
        + left. unfold somep in *. rewrite O0 by exact Ey. exact R. }
    destruct (rehash_loop t0 i0 Hi0 L HL1 HLc HLN LS (L - 1) 0 t0 (S cap) ltac:(lia) HI ltac:(lia)) as [T2 [Er [Tok Pm]]].
    exists T2. split; [|split; assumption].
    rewrite <- Er. f_equal. unfold inext.
    destruct (Nat.eq_dec cap 1) as [->|Hc1]; [lia|].
    rewrite (addm_succ cap i0 0) by lia. rewrite addm_0 by exact Hi0. reflexivity.
  Qed.
End Tab.
