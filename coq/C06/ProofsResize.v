(* C06: growth.  When insert_standard reports a full table (power-of-two capacity), resize_storage
   succeeds, keeps the invariant and the contents, and leaves room for the retried insertion. *)
From ZV.Common Require Import Base.
From ZV.C06 Require Import Model Spec ProofsBasic ProofsList ProofsScan ProofsInv.
From Coq Require Import Permutation.
Open Scope N_scope.

Definition nonemptyb (e : slot) : bool := negb (s_hash e =? 0).
Definition cnt (es : list slot) : nat := length (filter nonemptyb es).

Lemma nonemptyb_true e : nonemptyb e = true <-> s_hash e <> 0.
Proof. unfold nonemptyb. destruct (N.eqb_spec (s_hash e) 0); cbn; split; intros; congruence. Qed.
Lemma nonemptyb_false e : nonemptyb e = false <-> s_hash e = 0.
Proof. unfold nonemptyb. destruct (N.eqb_spec (s_hash e) 0); cbn; split; intros; congruence. Qed.

Lemma cnt_place es q s :
  (q < length es)%nat -> s_hash (nth q es dummy) = 0 -> s_hash s <> 0 ->
  cnt (upd es q s) = S (cnt es).
Proof.
  intros Hq E Ns. unfold cnt.
  destruct (filter_upd nonemptyb es q s dummy Hq) as [X [P1 P2]].
  unfold optf in P1, P2.
  rewrite (proj2 (nonemptyb_false _) E) in P1. rewrite (proj2 (nonemptyb_true _) Ns) in P2.
  rewrite (Permutation_length P1), (Permutation_length P2). reflexivity.
Qed.

Lemma lives_place es q s :
  (q < length es)%nat -> liveb (nth q es dummy) = false -> liveb s = true ->
  Permutation (lives (upd es q s)) (s :: lives es).
Proof.
  intros Hq D L. unfold lives.
  destruct (filter_upd liveb es q s dummy Hq) as [X [P1 P2]].
  unfold optf in P1, P2. rewrite D in P1. rewrite L in P2. cbn [app] in *.
  rewrite P2, P1. apply Permutation_refl.
Qed.

Lemma pfe_spec es s ps :
  (exists x, In x ps /\ s_hash (nth x es dummy) = 0) ->
  exists l1 q l2, ps = l1 ++ q :: l2
    /\ (forall x, In x l1 -> s_hash (nth x es dummy) <> 0)
    /\ s_hash (nth q es dummy) = 0
    /\ place_first_empty es s ps = Some (upd es q s).
Proof.
  induction ps as [|p t IH]; intros [x [Hin Hx]]; [destruct Hin|].
  cbn [place_first_empty].
  destruct (N.eqb_spec (s_hash (nth p es dummy)) 0) as [E|E].
  - exists [], p, t. repeat split; try assumption. intros ? [].
  - destruct Hin as [->|Hin]; [contradiction|].
    destruct (IH (ex_intro _ x (conj Hin Hx))) as [l1 [q [l2 [-> [Hl [Hq Hp]]]]]].
    exists (p :: l1), q, l2. repeat split; try assumption.
    intros y [<-|Hy]; [exact E|apply Hl; exact Hy].
Qed.

Section Resize.
  Variable h : N -> N.

  (* a power-of-two probe path visits every slot *)
  Lemma probe_surj st H p :
    sized st -> (p < length (entries st))%nat -> In p (path st H).
  Proof.
    intros [j [Hl [Hm _]]] Hp. unfold path, probe. apply in_map_iff.
    assert (C0 : 2 ^ j <> 0) by (apply N.pow_nonzero; discriminate).
    rewrite Hm.
    pose proof (N.mod_lt H (2 ^ j) C0) as HB.
    set (c := 2 ^ j) in *. set (Hm' := H mod c) in *.
    exists (N.to_nat ((N.of_nat p + c - Hm') mod c)).
    pose proof (N.mod_lt (N.of_nat p + c - Hm') c C0) as IB.
    split.
    - unfold c. rewrite probe_at_mod. fold c. fold Hm'. rewrite N2Nat.id.
      rewrite N.add_mod_idemp_r by exact C0.
      replace (Hm' + (N.of_nat p + c - Hm')) with (N.of_nat p + 1 * c) by lia.
      rewrite N.mod_add by exact C0. rewrite N.mod_small by lia. apply Nat2N.id.
    - apply in_seq. lia.
  Qed.

  Lemma all_live_cnt st H :
    sized st -> (forall x, In x (path st H) -> liveb (nth x (entries st) dummy) = true) ->
    filter nonemptyb (entries st) = entries st /\ lives (entries st) = entries st.
  Proof.
    intros S A.
    assert (AL : forall e, In e (entries st) -> liveb e = true).
    { intros e Hin. destruct (In_nth _ _ dummy Hin) as [p [Hp <-]]. apply A. apply probe_surj; assumption. }
    split; apply filter_all; intros e Hin; [|apply AL; exact Hin].
    apply nonemptyb_true. apply (proj1 (liveb_true e)). apply AL; exact Hin.
  Qed.

  Lemma not_full st H K :
    okh H -> sized st -> (cnt (entries st) < length (entries st))%nat ->
    ins_scan (entries st) H K (path st H) None <> Full.
  Proof.
    intros OK S C F. pose proof (ins_scan_full H K _ _ F) as A.
    destruct (all_live_cnt st H S A) as [E _]. unfold cnt in C. rewrite E in C. lia.
  Qed.

  Lemma reinsert_ok items : forall st,
    sized st -> I2 h st ->
    (forall e, In e items -> liveb e = true /\ s_hash e = hk h (s_key e)) ->
    NoDup (map s_key items) ->
    (forall e, In e items -> ~ In (s_key e) (map s_key (lives (entries st)))) ->
    (cnt (entries st) + length items < length (entries st))%nat ->
    exists fin, reinsert_all (entries st) (mask st) items = Some fin
      /\ length fin = length (entries st)
      /\ I2 h (with_entries st fin)
      /\ Permutation (lives fin) (items ++ lives (entries st))
      /\ cnt fin = (cnt (entries st) + length items)%nat.
  Proof.
    induction items as [|s t IH]; intros st S I Hit ND Hnew Hc.
    - exists (entries st). cbn [reinsert_all length app].
      split; [reflexivity|]. split; [reflexivity|]. split; [destruct st; exact I|].
      split; [apply Permutation_refl|lia].
    - cbn [reinsert_all]. fold (path st (s_hash s)).
      destruct (Hit s (or_introl eq_refl)) as [Ls Hs].
      (* an empty slot exists, and it lies on the path *)
      destruct (exists_unselected nonemptyb (entries st) dummy) as [p0 [Hp0 Ep0]].
      { fold (cnt (entries st)). cbn [length] in Hc. lia. }
      apply nonemptyb_false in Ep0.
      destruct (pfe_spec (entries st) s (path st (s_hash s))) as [l1 [q [l2 [Pth [Hl [Eq Hp]]]]]].
      { exists p0. split; [apply probe_surj; assumption|exact Ep0]. }
      rewrite Hp.
      assert (Hq : (q < length (entries st))%nat).
      { apply (path_lt st (s_hash s)); [exact S|]. rewrite Pth. apply in_or_app. right. left. reflexivity. }
      assert (Dq : liveb (nth q (entries st) dummy) = false) by (apply liveb_false; left; exact Eq).
      assert (Ns : s_hash s <> 0) by (apply liveb_true in Ls; tauto).
      set (st' := with_entries st (upd (entries st) q s)).
      assert (S' : sized st') by (apply sized_with_entries; [apply length_upd|exact S]).
      assert (I' : I2 h st').
      { destruct s as [sh sk sv]. cbn [s_hash s_key] in *. subst st'.
        eapply (I2_place h st sh sk sv q l1 l2); try eassumption.
        - intros x Hx. split; [intros ->; apply (Hl q Hx); exact Eq|]. split; [apply Hl; exact Hx|].
          destruct (matchb (nth x (entries st) dummy) sh sk) eqn:M; [|reflexivity].
          exfalso. apply (Hnew (mkslot sh sk sv) (or_introl eq_refl)). cbn [s_key].
          pose proof M as M2. apply matchb_true in M2. destruct M2 as [_ Mk].
          apply in_map_iff. exists (nth x (entries st) dummy). split; [exact Mk|].
          apply lives_in. split.
          + apply nth_In. apply (path_lt st sh); [exact S|]. rewrite Pth. apply in_or_app. left. exact Hx.
          + apply (match_live _ sh sk); [rewrite Hs; apply okh_norm|exact M].
        - apply (Hnew (mkslot sh sk sv) (or_introl eq_refl)). }
      pose proof (lives_place (entries st) q s Hq Dq Ls) as PL.
      pose proof (cnt_place (entries st) q s Hq Eq Ns) as CP.
      cbn [map] in ND. inversion ND as [|? ? Hns ND']; subst.
      destruct (IH st' S' I') as [fin [Hr [Hlen [If [Pf Cf]]]]].
      + intros e He. apply Hit. right. exact He.
      + exact ND'.
      + intros e He Hin. unfold st', with_entries in Hin; cbn [entries] in Hin.
        apply in_map_iff in Hin. destruct Hin as [e2 [Ek He2]].
        apply (Permutation_in _ PL) in He2. destruct He2 as [<-|He2].
        * apply Hns. rewrite Ek. apply in_map. exact He.
        * apply (Hnew e (or_intror He)). rewrite <- Ek. apply in_map. exact He2.
      + unfold st', with_entries; cbn [entries]. rewrite length_upd, CP. cbn [length] in Hc. lia.
      + unfold st', with_entries in Hr, Hlen, If, Pf, Cf; cbn [entries mask] in Hr, Hlen, Pf, Cf.
        rewrite length_upd in Hlen.
        exists fin. split; [exact Hr|]. split; [exact Hlen|]. split; [exact If|]. split.
        * rewrite Pf, PL. cbn [app]. symmetry. apply Permutation_middle.
        * rewrite Cf, CP. cbn [length]. lia.
  Qed.

  Lemma repeat_dead k v n e : In e (repeat (mkslot 0 k v) n) -> liveb e = false /\ nonemptyb e = false.
  Proof. intros Hin. apply repeat_spec in Hin. subst e. split; reflexivity. Qed.

  Lemma resize_unfold st t rest :
    filter (fun e => negb (s_hash e =? 0)) (entries st) = t :: rest ->
    resize_storage st =
      let nc := N.max (2 * N.of_nat (length (entries st))) 32 in
      match reinsert_all (repeat (mkslot 0 (s_key t) (s_val t)) (N.to_nat nc)) (nc - 1) (t :: rest) with
      | None => None
      | Some es' => Some (mkstd es' (nc - 1) nc)
      end.
  Proof. intros E. unfold resize_storage. rewrite E. reflexivity. Qed.

  Lemma resize_R st m H K :
    okh H -> R h st m -> sized st ->
    ins_scan (entries st) H K (path st H) None = Full ->
    exists st2, resize_storage st = Some st2 /\ R h st2 m /\ sized st2
                /\ (cnt (entries st2) < length (entries st2))%nat.
  Proof.
    intros OK [W [I [P ND]]] S F.
    pose proof (ins_scan_full H K _ _ F) as A.
    destruct (all_live_cnt st H S A) as [Efilt Elives].
    destruct S as [j [Hl [Hm H16]]].
    assert (S : sized st) by (exists j; repeat split; assumption).
    destruct (entries st) as [|t rest] eqn:Ees.
    { cbn [length] in Hl. cbn in Hl. rewrite <- Hl in H16. lia. }
    rewrite <- Ees in *.
    assert (Efilt' : filter (fun e => negb (s_hash e =? 0)) (entries st) = t :: rest).
    { change (fun e => negb (s_hash e =? 0)) with nonemptyb. rewrite Efilt. exact Ees. }
    rewrite (resize_unfold st t rest Efilt'). cbv zeta.
    assert (Enc : N.max (2 * N.of_nat (length (entries st))) 32 = 2 ^ (j + 1)).
    { rewrite Hl. rewrite N.pow_add_r. change (2 ^ 1) with 2. lia. }
    rewrite Enc. rewrite <- Ees.
    set (nc := 2 ^ (j + 1)) in *.
    assert (Hnc : nc = 2 * 2 ^ j) by (unfold nc; rewrite N.pow_add_r; change (2 ^ 1) with 2; lia).
    set (es0 := repeat (mkslot 0 (s_key t) (s_val t)) (N.to_nat nc)).
    set (st0 := mkstd es0 (nc - 1) nc).
    assert (Len0 : length es0 = N.to_nat nc) by apply repeat_length.
    assert (S0 : sized st0).
    { exists (j + 1). unfold st0; cbn [entries mask]. rewrite Len0, N2Nat.id. fold nc.
      split; [reflexivity|]. split; [reflexivity|]. lia. }
    assert (L0 : lives es0 = []).
    { apply filter_none. intros e He. apply (repeat_dead _ _ _ _ He). }
    assert (C0 : cnt es0 = O).
    { unfold cnt. rewrite filter_none; [reflexivity|]. intros e He. apply (repeat_dead _ _ _ _ He). }
    assert (I0 : I2 h st0).
    { intros p Hp Lp. exfalso. unfold st0 in Hp, Lp; cbn [entries] in Hp, Lp.
      assert (Hin : In (nth p es0 dummy) es0) by (apply nth_In; exact Hp).
      apply repeat_dead in Hin. destruct Hin as [D _]. congruence. }
    destruct (reinsert_ok (entries st) st0 S0 I0) as [fin [Hr [Hlen [If [Pf Cf]]]]].
    - intros e He. rewrite <- Elives in He. apply lives_in in He. destruct He as [He Le]. split; [exact Le|].
      destruct (In_nth _ _ dummy He) as [p [Hp Hn]]. specialize (I p Hp). rewrite Hn in I. apply I. exact Le.
    - rewrite <- keys_kv. rewrite <- Elives.
      eapply Permutation_NoDup; [symmetry; apply Permutation_map; exact P|exact ND].
    - intros e _. unfold st0; cbn [entries]. rewrite L0. intros [].
    - unfold st0; cbn [entries]. rewrite C0, Len0. lia.
    - unfold st0 in Hr, Hlen, Pf, Cf; cbn [entries mask] in Hr, Hlen, Pf, Cf.
      rewrite Hr.
      eexists. split; [reflexivity|].
      assert (S2 : sized (mkstd fin (nc - 1) nc)).
      { exists (j + 1). cbn [entries mask]. rewrite Hlen, Len0, N2Nat.id. fold nc.
        split; [reflexivity|]. split; [reflexivity|]. lia. }
      split; [|split; [exact S2|]].
      + split; [split; [exists (j + 1); reflexivity|right; exact S2]|].
        split; [exact If|]. split; [|exact ND].
        cbn [entries]. rewrite Pf. rewrite L0, app_nil_r.
        rewrite <- Elives at 1. exact P.
      + cbn [entries]. rewrite Cf, Hlen, C0, Len0. lia.
  Qed.
End Resize.
