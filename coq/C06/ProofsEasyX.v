(* C06 extension: EasyHashMap with get_or_insert(_with) and extend refines the spec map. *)
From ZV.Common Require Import Base.
From ZV.C06 Require Import Model ModelEasy ModelEasyX Spec ProofsBasic ProofsList ProofsScan ProofsInv ProofsResize ProofsRefine ProofsSmall ProofsEasy.
From Coq Require Import Permutation.
Open Scope N_scope.

Lemma sget_sinsert_same m k v : sget (sinsert m k v) k = Some v.
Proof. unfold sinsert. cbn [sget]. rewrite N.eqb_refl. reflexivity. Qed.

Section EasyXProofs.
  Variable h : N -> N.
  Variable grow : N -> N -> bool.
  Variable auto : bool.

  Lemma easy_stepx_R st m o :
    R h st m ->
    R h (fst (easy_stepx h grow auto st o)) (fst (sstepx m o))
    /\ obs_agree (snd (easy_stepx h grow auto st o)) (snd (sstepx m o)).
  Proof.
    intros HR. destruct o as [[c k] v]. unfold easy_stepx, sstepx.
    destruct (c =? 12).
    - unfold easy_get_or_insert. rewrite (get_sim h st m k HR).
      destruct (sget m k) as [x|] eqn:E; cbn [fst snd].
      + rewrite (get_sim h st m k HR), E. split; [exact HR|reflexivity].
      + pose proof (easy_put_R h grow auto st m k v HR) as R1.
        rewrite (get_sim h _ _ k R1), sget_sinsert_same. split; [exact R1|reflexivity].
    - destruct (c =? 15).
      + cbn [fst snd]. split; [apply easy_put_R; exact HR|reflexivity].
      + apply easy_step_R. exact HR.
  Qed.

  Lemma easy_runx_R ops : forall st m, R h st m -> Forall2 obs_agree (easy_runx h grow auto st ops) (srunx m ops).
  Proof.
    induction ops as [|o t IH]; intros st m HR; cbn [easy_runx srunx]; [constructor|].
    destruct (easy_stepx_R st m o HR) as [RR OA].
    destruct (easy_stepx h grow auto st o) as [s1 o1]. destruct (sstepx m o) as [m1 o2]. cbn [fst snd] in *.
    constructor; [exact OA|apply IH; exact RR].
  Qed.
End EasyXProofs.

Lemma easy_ext_refines_map_proof :
  forall (h : N -> N) (grow : N -> N -> bool) (auto : bool) (c : N) (ops : list op),
    pow2cap c -> Forall2 obs_agree (easy_runx h grow auto (init c) ops) (srunx [] ops).
Proof. intros h grow auto c ops P. apply easy_runx_R. apply init_R0. exact P. Qed.

(* the extended runner is the old one on the old operations *)
Lemma easy_runx_old h grow auto ops : forall st,
  Forall (fun o => fst (fst o) <> 12 /\ fst (fst o) <> 15) ops ->
  easy_runx h grow auto st ops = easy_run h grow auto st ops.
Proof.
  induction ops as [|o t IH]; intros st HF; cbn [easy_runx easy_run]; [reflexivity|].
  inversion HF as [|? ? [H1 H2] H3]; subst. destruct o as [[c k] v]. cbn [fst] in H1, H2.
  unfold easy_stepx. apply N.eqb_neq in H1, H2. rewrite H1, H2.
  destruct (easy_step h grow auto st (c, k, v)) as [s1 o1]. rewrite IH by exact H3. reflexivity.
Qed.

(* non-vacuity: get_or_insert on an absent key triggers the growth rebuild, then on a present key; an extend loop *)
Example easy_ext_history :
  let grow := fun l c => c <=? 2 * l in
  let ops := map (fun i => (15, N.of_nat i, 100 + N.of_nat i)) (seq 0 8) ++ [(12, 50, 7); (12, 3, 9); (12, 50, 8); (5, 0, 0); (15, 3, 1); (2, 3, 0)] in
  skipn 8 (easy_runx (hasher 0) grow true (init 16) ops)
  = [ORes (Some 7); ORes (Some 103); ORes (Some 7); OLen 9; OUnit; ORes (Some 1)].
Proof. vm_compute. reflexivity. Qed.
