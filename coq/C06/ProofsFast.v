(* C06 extension: SmallMap<u8>::get_fast (vectorised key search) returns what the generic lookup returns. *)
From ZV.Common Require Import Base.
From ZV.C06 Require Import Model ModelFast Spec ProofsList ProofsSmall.
From Coq Require Import Permutation Lia.
Open Scope N_scope.

Lemma find_first_sm_find kvs k : find_first (map fst kvs) k = sm_find kvs k.
Proof.
  induction kvs as [|[k' v] t IH]; [reflexivity|].
  cbn [map fst find_first sm_find]. rewrite IH. reflexivity.
Qed.

(* the masked vector search = first match, for every fill level of the inline array *)
Lemma find_optimized_u8_ok key ks :
  (length ks <= 8)%nat -> find_optimized_u8 true key ks = find_first ks key.
Proof.
  intros L.
  do 9 (destruct ks as [|? ks];
        [ repeat (cbn; match goal with |- context [N.eqb ?a key] => destruct (N.eqb a key) end); cbn; reflexivity | ]).
  cbn [length] in L. lia.
Qed.

Lemma find_key_index_simd_ok key ks :
  (length ks <= 8)%nat -> find_key_index_simd true key ks = find_first ks key.
Proof.
  intros L. unfold find_key_index_simd. destruct (Nat.leb (length ks) 4); [reflexivity|].
  apply find_optimized_u8_ok; exact L.
Qed.

(* the inline array never holds more than SMALL_MAP_THRESHOLD keys *)
Definition small_len (sm : smallmap) : Prop :=
  match sm with Small kvs => (length kvs <= 8)%nat | Large _ => True end.

Lemma length_removelast_le {A} (l : list A) : (length (removelast l) <= length l - 1)%nat.
Proof.
  induction l as [|a [|b t] IH]; cbn [removelast length] in *; lia.
Qed.

Lemma swap_remove_len kvs i : (length (sm_swap_remove kvs i) <= length kvs)%nat.
Proof.
  unfold sm_swap_remove. pose proof (length_removelast_le kvs).
  destruct (Nat.ltb i (length kvs - 1)); [rewrite length_upd|]; lia.
Qed.

Lemma sm_step_small_len h sm o : small_len sm -> small_len (fst (sm_step h sm o)).
Proof.
  intros HL. destruct o as [[c k] v].
  destruct c as [|[[[?|?|]|[?|?|]|]|[[?|?|]|[?|?|]|]|]]; cbn [sm_step]; try exact HL; try exact (Nat.le_0_l 8).
  - (* insert *)
    destruct sm as [kvs|st]; cbn [sm_insert small_len] in *.
    + destruct (sm_find kvs k) as [i|]; [cbn [fst small_len]; rewrite length_upd; exact HL|].
      unfold SMALL_MAP_THRESHOLD. destruct (Nat.leb 8 (length kvs)) eqn:E.
      * destruct (insert_all h (init 16) kvs) as [st|]; [|exact HL].
        destruct (insert h st k v); exact I.
      * apply PeanoNat.Nat.leb_gt in E. cbn [fst small_len]. rewrite app_length. cbn [length]. lia.
    + destruct (insert h st k v); exact I.
  - (* get_mut *)
    destruct sm as [kvs|st]; cbn [sm_get_mut_set small_len] in *.
    + destruct (sm_find kvs k) as [i|]; [|exact HL]. cbn [fst small_len]. rewrite length_upd. exact HL.
    + destruct (get_mut_set h st k v); exact I.
  - (* remove *)
    destruct sm as [kvs|st]; cbn [sm_remove small_len] in *.
    + destruct (sm_find kvs k) as [i|]; [|exact HL].
      cbn [fst small_len]. pose proof (swap_remove_len kvs i). lia.
    + destruct (remove h st k); exact I.
Qed.

Lemma sm_exec_small_len h ops : forall sm, small_len sm -> small_len (sm_exec h sm ops).
Proof.
  induction ops as [|o t IH]; intros sm HL; cbn [sm_exec]; [exact HL|].
  apply IH. apply sm_step_small_len. exact HL.
Qed.

Lemma sm_get_fast_ok h sm k : small_len sm -> sm_get_fast true h sm k = sm_get h sm k.
Proof.
  intros HL. destruct sm as [kvs|st]; [|reflexivity].
  cbn [sm_get_fast sm_get small_len] in *.
  rewrite find_key_index_simd_ok by (rewrite map_length; exact HL).
  rewrite find_first_sm_find. reflexivity.
Qed.

Lemma smf_step_ok h sm o : small_len sm -> smf_step true h sm o = sm_step h sm o.
Proof.
  intros HL. destruct o as [[c k] v]. unfold smf_step.
  destruct (N.eqb_spec c 2) as [->|NE]; [|reflexivity].
  cbn [sm_step]. rewrite sm_get_fast_ok by exact HL. reflexivity.
Qed.

Lemma smf_run_ok h ops : forall sm, small_len sm -> smf_run true h sm ops = sm_run h sm ops.
Proof.
  induction ops as [|o t IH]; intros sm HL; cbn [smf_run sm_run]; [reflexivity|].
  rewrite smf_step_ok by exact HL.
  pose proof (sm_step_small_len h sm o HL) as HL'.
  destruct (sm_step h sm o) as [m' ob]. cbn [fst] in HL'. rewrite IH by exact HL'. reflexivity.
Qed.

Lemma get_fast_is_get_proof :
  forall (h : N -> N) (ops : list op) (k : N),
    let sm := sm_exec h (Small []) ops in sm_get_fast true h sm k = sm_get h sm k.
Proof.
  intros h ops k sm. apply sm_get_fast_ok. apply sm_exec_small_len. exact (Nat.le_0_l 8).
Qed.

Lemma smallmap_u8_refines_map_proof :
  forall (h : N -> N) (ops : list op), Forall2 obs_agree (smf_run true h (Small []) ops) (srun [] ops).
Proof.
  intros h ops. rewrite smf_run_ok by exact (Nat.le_0_l 8). apply smallmap_refines_map_proof.
Qed.

(* the search before 3fcc283 (no lane mask): the zero padding of key_bytes matches key 0 *)
Lemma get_fast_unmasked_refuted_proof :
  exists ops, smf_run false (hasher 0) (Small []) ops <> srun [] ops.
Proof.
  exists [(0, 1, 10); (0, 2, 20); (0, 3, 30); (0, 4, 40); (0, 5, 50); (2, 0, 0)].
  vm_compute. discriminate.
Qed.

(* non-vacuity: five to eight inline keys (the vector path), a hit in lane 6, a miss of key 0, the promoted form *)
Example get_fast_vector_path :
  let ops := map (fun i => (0, N.of_nat i, 100 + N.of_nat i)) (seq 1 7) ++ [(2, 7, 0); (2, 0, 0); (0, 8, 1); (0, 9, 2); (2, 9, 0)] in
  skipn 7 (smf_run true (hasher 0) (Small []) ops)
  = [ORes (Some 107); ORes None; ORes None; ORes None; ORes (Some 2)]
  /\ find_optimized_u8 true 7 [1; 2; 3; 4; 5; 6; 7] = Some 6%nat
  /\ find_optimized_u8 false 0 [1; 2; 3; 4; 5] = Some 5%nat.
Proof. vm_compute. repeat split; reflexivity. Qed.
