(* C06 extension: SmallMap<u8, V>::get_fast - the vectorised key search of
   src/containers/specialized/small_map.rs (impl OptimizedSearch for u8, find_key_index_simd, get_fast),
   modelled at the level of the SIMD lanes and of the bits of the u32 mask.

     find_optimized (u8):   search_vec = _mm_set1_epi8(key)                  16 lanes holding the key
                            key_bytes  = [0u8; 8]; key_bytes[i] = keys[i]    for i < min(len, 8)
                            keys_vec   = _mm_loadl_epi64(key_bytes)          8 bytes, the upper 8 lanes are zero
                            cmp        = _mm_cmpeq_epi8(search_vec, keys_vec)
                            mask       = movemask(cmp) as u32 & ((1 << min(len, 8)) - 1)     (the `&` is fix 3fcc283)
                            mask != 0 -> Some(mask.trailing_zeros())
     find_key_index_simd:   len <= 4 -> the unrolled first-match search; else find_optimized
     get_fast:              Small -> values[index]; Large -> map.get(key)

   A u32 is a list of 32 booleans, bit i at position i. *)
From ZV.Common Require Import Base.
From ZV.C06 Require Import Model.
Open Scope N_scope.

Definition u32bits : Type := list bool.

(* the 16 byte lanes of keys_vec *)
Definition keys_vec (ks : list N) : list N :=
  let n := Nat.min (length ks) 8 in
  let key_bytes := firstn 8 (firstn n ks ++ repeat 0 8) in   (* zero-initialised, the first n lanes written *)
  key_bytes ++ repeat 0 8.                                    (* _mm_loadl_epi64 clears the upper half *)

(* _mm_cmpeq_epi8 against the broadcast key, then _mm_movemask_epi8 widened to u32 *)
Definition movemask (key : N) (lanes : list N) : u32bits :=
  map (fun b => b =? key) lanes ++ repeat false (32 - length lanes).

(* (1u32 << n) - 1 *)
Definition low_ones (n : nat) : u32bits := repeat true n ++ repeat false (32 - n).

(* a & b, bit by bit *)
Fixpoint band (a b : u32bits) : u32bits :=
  match a, b with
  | x :: a', y :: b' => (if y then x else false) :: band a' b'
  | _, _ => []
  end.

Definition nonzero (m : u32bits) : bool := existsb (fun b => b) m.

(* u32::trailing_zeros (32 for the all-zero word) *)
Fixpoint trailing_zeros (m : u32bits) : nat :=
  match m with
  | [] => O
  | true :: _ => O
  | false :: t => S (trailing_zeros t)
  end.

(* impl OptimizedSearch for u8: `masked` = with the lane mask of 3fcc283 *)
Definition find_optimized_u8 (masked : bool) (key : N) (ks : list N) : option nat :=
  if Nat.eqb (length ks) 0 then None
  else
    let mm := movemask key (keys_vec ks) in
    let mask := if masked then band mm (low_ones (Nat.min (length ks) 8)) else mm in
    if nonzero mask then Some (trailing_zeros mask) else None.

(* the unrolled searches for len 0..4: first match *)
Fixpoint find_first (ks : list N) (key : N) : option nat :=
  match ks with
  | [] => None
  | k' :: t => if k' =? key then Some O else option_map S (find_first t key)
  end.

Definition find_key_index_simd (masked : bool) (key : N) (ks : list N) : option nat :=
  if Nat.leb (length ks) 4 then find_first ks key else find_optimized_u8 masked key ks.

(* get_fast: values[index] is read without a bounds check against len (assume_init_ref on the value array of
   8 slots); a slot beyond len is uninitialised - the model reads 0 there *)
Definition sm_get_fast (masked : bool) (h : N -> N) (m : smallmap) (k : N) : option N :=
  match m with
  | Small kvs =>
      match find_key_index_simd masked k (map fst kvs) with
      | Some i => Some (snd (nth i kvs (0, 0)))
      | None => None
      end
  | Large st => get h st k
  end.

(* the SmallMap<u8> cell of the harness: `get` is answered by get_fast, everything else as before *)
Definition smf_step (masked : bool) (h : N -> N) (m : smallmap) (o : op) : smallmap * obs :=
  let '(c, k, v) := o in
  if c =? 2 then (m, ORes (sm_get_fast masked h m k)) else sm_step h m o.

Fixpoint smf_run (masked : bool) (h : N -> N) (m : smallmap) (ops : list op) : list obs :=
  match ops with
  | [] => []
  | o :: t => let '(m', ob) := smf_step masked h m o in ob :: smf_run masked h m' t
  end.

(* the state a history leads to *)
Fixpoint sm_exec (h : N -> N) (m : smallmap) (ops : list op) : smallmap :=
  match ops with
  | [] => m
  | o :: t => sm_exec h (fst (sm_step h m o)) t
  end.
