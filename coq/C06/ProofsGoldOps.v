(* C06 / GoldHashMap: lookup, value update, rehash, compaction + relink (auto GC), clear, creation. *)
From ZV.Common Require Import Base.
From ZV.C06 Require Import Model ModelGold Spec ProofsList ProofsGoldChain ProofsGoldRelink ProofsGoldInv.
From Coq Require Import Permutation.
Open Scope N_scope.

Lemma first_ge_in ps n p : first_ge ps n = Some p -> In p ps.
Proof.
  induction ps as [|q t IH]; cbn [first_ge]; [discriminate|].
  destruct (n <=? q); [intros [= <-]; left; reflexivity|intros H; right; apply IH; exact H].
Qed.

Lemma primes_pos : Forall (fun p => 0 < p) PRIMES.
Proof. unfold PRIMES. repeat constructor. Qed.

Lemma next_prime_pos n : 0 < next_prime n.
Proof.
  unfold next_prime. destruct (first_ge PRIMES n) as [p|] eqn:E.
  - apply first_ge_in in E. exact (proj1 (Forall_forall _ _) primes_pos p E).
  - apply pow2_pos.
Qed.

Lemma skipn_nth {A} (l : list A) r d : (r < length l)%nat -> skipn r l = nth r l d :: skipn (S r) l.
Proof.
  revert r; induction l as [|a l IH]; intros [|r] Hr; cbn [length] in Hr; try lia; [reflexivity|].
  cbn [skipn nth]. rewrite (IH r) by lia. reflexivity.
Qed.

Lemma Forall2_nth {A B} (P : A -> B -> Prop) la lb da db :
  Forall2 P la lb -> forall i, (i < length la)%nat -> P (nth i la da) (nth i lb db).
Proof.
  induction 1 as [|a b la lb Hab _ IH]; intros [|i] Hi; cbn [length] in Hi; try lia; cbn [nth]; [exact Hab|].
  apply IH. lia.
Qed.

Lemma Forall2_len {A B} (P : A -> B -> Prop) la lb : Forall2 P la lb -> length la = length lb.
Proof. induction 1; cbn [length]; congruence. Qed.

Lemma Forall2_snoc {A B} (P : A -> B -> Prop) la lb a b :
  Forall2 P la lb -> P a b -> Forall2 P (la ++ [a]) (lb ++ [b]).
Proof. intros H Hab. apply Forall2_app; [exact H|constructor; [exact Hab|constructor]]. Qed.

Section GoldOps.
  Variable h : N -> N.
  Variable ml : N -> N.
  Variable cfg : gcfg.

  Notation GI := (GI h).
  Notation GR := (GR h).

  (* ---- rehash ---- *)
  Lemma rehash_GR g m n : GR g m -> GR (rehash h ml g n) m.
  Proof.
    intros [GIg [P ND]]. unfold rehash.
    destruct (next_prime (N.max n 5) =? N.of_nat (length (g_buckets g))); [split; [exact GIg|split; assumption]|].
    destruct GIg as [_ _ CO FO LE].
    apply relink_GI; cbn [g_entries g_cache g_fl g_len g_buckets]; try assumption.
    unfold nbk; cbn [g_buckets]. rewrite repeat_length.
    pose proof (next_prime_pos (N.max n 5)). lia.
  Qed.

  (* ---- the chain walk on a well-formed map ---- *)
  Lemma gfind_spec g k :
    GI g ->
    exists c, chain (g_entries g) (nth (hb h (nbk g) k) (g_buckets g) Tail) c
      /\ (forall i, In i c -> hb h (nbk g) (g_key (nth i (g_entries g) gdummy)) = hb h (nbk g) k)
      /\ gfind h g k = wres (g_entries g) k c None.
  Proof.
    intros [NB [CH _] _ _ _].
    destruct (CH (hb h (nbk g) k) (hb_lt h ml _ k NB)) as [c [C Hc]].
    exists c. split; [exact C|]. split; [exact Hc|].
    unfold gfind. change (bucket_of g (h k)) with (hb h (nbk g) k).
    apply walk_wres; [exact C|].
    assert (length c <= length (g_entries g))%nat; [|lia].
    apply nodup_bounded_length; [eapply chain_nodup; exact C|].
    intros x Hx. apply (chain_in _ _ _ _ C Hx).
  Qed.

  Lemma live_in_filter es i : (i < length es)%nat -> glive (nth i es gdummy) = true ->
    In (nth i es gdummy) (filter glive es).
  Proof. intros Hi L. apply filter_In. split; [apply nth_In; exact Hi|exact L]. Qed.

  (* a key that the walk does not find is not in the map *)
  Lemma notfound_absent g m k c :
    GR g m -> chain (g_entries g) (nth (hb h (nbk g) k) (g_buckets g) Tail) c ->
    (forall j, In j c -> g_key (nth j (g_entries g) gdummy) <> k) ->
    ~ In k (map fst m).
  Proof.
    intros [[NB [_ CV] _ _ _] [P _]] C Hn Hin.
    assert (Hin2 : In k (map fst (map gkv (filter glive (g_entries g))))).
    { eapply Permutation_in; [symmetry; apply Permutation_map; exact P|exact Hin]. }
    rewrite map_map in Hin2. apply in_map_iff in Hin2. destruct Hin2 as [e [Ek He]]. cbn [gkv fst] in Ek.
    apply filter_In in He. destruct He as [He Le].
    destruct (In_nth _ _ gdummy He) as [j [Hj Ej]].
    destruct (CV j Hj) as [c' [C' Hjc]]; [rewrite Ej; exact Le|].
    rewrite Ej, Ek in C'. pose proof (chain_det _ _ _ C _ C') as <-.
    apply (Hn j Hjc). rewrite Ej. exact Ek.
  Qed.

  Lemma found_present g m k c i :
    GR g m -> chain (g_entries g) (nth (hb h (nbk g) k) (g_buckets g) Tail) c ->
    In i c -> g_key (nth i (g_entries g) gdummy) = k ->
    sget m k = Some (g_val (nth i (g_entries g) gdummy)).
  Proof.
    intros [_ [P ND]] C Hi Ek. apply sget_in; [exact ND|].
    eapply Permutation_in; [exact P|]. apply in_map_iff. exists (nth i (g_entries g) gdummy).
    split; [unfold gkv; rewrite Ek; reflexivity|].
    destruct (chain_in _ _ _ _ C Hi) as [Hlt L]. apply live_in_filter; assumption.
  Qed.

  Lemma gget_sim g m k : GR g m -> gget h g k = Some (sget m k).
  Proof.
    intros HR. destruct (gfind_spec g k (proj1 HR)) as [c [C [_ E]]].
    unfold gget. rewrite E.
    destruct (wres (g_entries g) k c None) as [i p| |] eqn:W.
    - destruct (wres_found _ _ _ _ _ _ W) as [pre [post [-> [Ek _]]]].
      rewrite (found_present g m k _ i HR C); [reflexivity| |exact Ek].
      apply in_or_app. right. left. reflexivity.
    - f_equal. symmetry. apply sget_none. eapply notfound_absent; try eassumption.
      eapply wres_notfound; exact W.
    - exfalso. exact (wres_not_stuck _ _ _ _ W).
  Qed.

  (* ---- entries change, keys and links stay ---- *)
  Lemma chains_ok_same bs es es' :
    same_kl es es' -> (forall j, g_link (nth j es' gdummy) = g_link (nth j es gdummy)) ->
    chains_ok h bs es -> chains_ok h bs es'.
  Proof.
    intros [Hl Hs] Hk [CH CV]. split.
    - intros b Hb. destruct (CH b Hb) as [c [C Hc]]. exists c. split.
      + eapply chain_frame; [exact C|lia|]. intros j _. apply Hk.
      + intros i Hi. destruct (Hs i) as [K _]. rewrite K. apply Hc. exact Hi.
    - intros i Hi Li. rewrite Hl in Hi. destruct (Hs i) as [K Lv]. rewrite K.
      destruct (CV i Hi) as [c [C Hc]]; [congruence|]. exists c. split; [|exact Hc].
      eapply chain_frame; [exact C|lia|]. intros j _. apply Hk.
  Qed.

  Definition set_val (g : gold) (i : nat) (x : N) : gold :=
    let e := nth i (g_entries g) gdummy in
    mkgold (g_buckets g) (upd (g_entries g) i (mkg (g_key e) x (g_link e))) (g_cache g)
           (g_len g) (g_maxload g) (g_flsize g) (g_fl g).

  Lemma set_val_GR g m k c i x :
    GR g m -> chain (g_entries g) (nth (hb h (nbk g) k) (g_buckets g) Tail) c ->
    In i c -> g_key (nth i (g_entries g) gdummy) = k ->
    GR (set_val g i x) (sinsert m k x).
  Proof.
    intros HR C Hi Ek. pose proof HR as [[NB CH CO FO LE] [P ND]].
    destruct (chain_in _ _ _ _ C Hi) as [Hlt L].
    set (e := nth i (g_entries g) gdummy) in *.
    set (e' := mkg (g_key e) x (g_link e)).
    assert (SK : same_kl (g_entries g) (upd (g_entries g) i e')).
    { split; [apply length_upd|]. intros j. destruct (Nat.eq_dec j i) as [->|Hj].
      - rewrite nth_upd_same by exact Hlt. fold e. unfold e', glive. cbn [g_key g_val g_link]. repeat split.
      - rewrite nth_upd_other by congruence. repeat split. }
    assert (LK : forall j, g_link (nth j (upd (g_entries g) i e') gdummy) = g_link (nth j (g_entries g) gdummy)).
    { intros j. destruct (Nat.eq_dec j i) as [->|Hj].
      - rewrite nth_upd_same by exact Hlt. reflexivity.
      - rewrite nth_upd_other by congruence. reflexivity. }
    destruct (filter_upd glive (g_entries g) i e' gdummy Hlt) as [X [P1 P2]].
    fold e in P1. unfold optf in P1, P2. rewrite L in P1.
    assert (L' : glive e' = true) by exact L. rewrite L' in P2. cbn [app] in P1, P2.
    assert (Pm : Permutation m ((k, g_val e) :: map gkv X)).
    { rewrite <- P, P1. cbn [map]. unfold gkv at 1. rewrite Ek. apply Permutation_refl. }
    unfold set_val. fold e. fold e'.
    split; [|split; [|apply sinsert_nodup; exact ND]].
    - constructor; cbn [g_buckets g_entries g_cache g_fl g_len].
      + exact NB.
      + eapply chains_ok_same; eassumption.
      + eapply same_kl_cache; eassumption.
      + eapply same_kl_fl; eassumption.
      + rewrite LE. symmetry. apply same_kl_nlen. exact SK.
    - cbn [g_entries]. rewrite P2. cbn [map]. unfold gkv at 1. cbn [g_key g_val e'].
      rewrite Ek. unfold sinsert. apply perm_skip. symmetry. eapply sremove_perm; eassumption.
  Qed.

  (* ---- clear / creation ---- *)
  Lemma nth_repeat_tail b n : nth b (repeat Tail n) Tail = Tail.
  Proof.
    destruct (nth_in_or_default b (repeat Tail n) Tail) as [Hin|E]; [apply repeat_spec in Hin|]; assumption.
  Qed.

  Lemma empty_GR nb c mlv : (0 < nb)%nat -> (c = None \/ c = Some []) ->
    GR (mkgold (repeat Tail nb) [] c 0 mlv 0 []) [].
  Proof.
    intros NB Hc. split; [|split; [apply Permutation_refl|constructor]].
    constructor; cbn [g_buckets g_entries g_cache g_fl g_len].
    - unfold nbk; cbn [g_buckets]. rewrite repeat_length. exact NB.
    - split.
      + intros b Hb. exists []. rewrite nth_repeat_tail. split; [constructor|intros ? []].
      + intros i Hi. cbn in Hi. lia.
    - intros cl E. destruct Hc as [->| ->]; [discriminate|]. injection E as <-. split; [reflexivity|].
      intros i Hi. cbn in Hi. lia.
    - split; [constructor|intros ? []].
    - reflexivity.
  Qed.

  Lemma gclear_GR g m : GR g m -> GR (gclear g) [].
  Proof.
    intros [[NB _ _ _ _] _]. unfold gclear. apply empty_GR; [exact NB|].
    destruct (g_cache g); [right|left]; reflexivity.
  Qed.

  Lemma with_config_GR cap : GR (with_config ml cfg cap) [].
  Proof.
    unfold with_config. apply empty_GR.
    - pose proof (next_prime_pos (N.max cap 5)). lia.
    - destruct (c_cache cfg); [right|left]; reflexivity.
  Qed.

  (* ---- compaction ---- *)
  Lemma compact_spec es c : forall n r w acc cacc,
    (r + n = length es)%nat ->
    let res := compact es c r w n acc cacc in
    map gkv (fst res) = map gkv (rev acc) ++ map gkv (filter glive (skipn r es))
    /\ (Forall (fun e => glive e = true) acc -> Forall (fun e => glive e = true) (fst res))
    /\ (forall cl, c = Some cl ->
          (forall i, (i < length es)%nat -> glive (nth i es gdummy) = true -> nth i cl 0 = h (g_key (nth i es gdummy))) ->
          Forall2 (fun e x => x = h (g_key e)) (rev acc) (rev cacc) ->
          Forall2 (fun e x => x = h (g_key e)) (fst res) (snd res)).
  Proof.
    induction n as [|n IH]; intros r w acc cacc Hr; cbn [compact].
    - cbn [fst snd]. rewrite skipn_all2 by lia. cbn [filter map]. rewrite app_nil_r.
      split; [reflexivity|]. split; [intros F; apply Forall_rev; exact F|]. intros cl _ _ F. exact F.
    - assert (Hlt : (r < length es)%nat) by lia.
      rewrite (skipn_nth es r gdummy Hlt). cbn [filter].
      destruct (is_del (g_link (nth r es gdummy))) eqn:D.
      + assert (L : glive (nth r es gdummy) = false) by (unfold glive; rewrite D; reflexivity).
        rewrite L. apply IH. lia.
      + assert (L : glive (nth r es gdummy) = true) by (unfold glive; rewrite D; reflexivity).
        rewrite L.
        set (e := nth r es gdummy) in *.
        set (e' := if Nat.eqb w r then e else mkg (g_key e) (g_val e) Tail).
        assert (Ke : gkv e' = gkv e) by (unfold e'; destruct (Nat.eqb w r); reflexivity).
        assert (Le : glive e' = true) by (unfold e'; destruct (Nat.eqb w r); [exact L|reflexivity]).
        assert (Kk : g_key e' = g_key e) by (unfold e'; destruct (Nat.eqb w r); reflexivity).
        destruct (IH (S r) (S w) (e' :: acc)
                     (match c with Some cl => nth r cl 0 :: cacc | None => cacc end) ltac:(lia)) as [A [B Cc]].
        split; [|split].
        * rewrite A. cbn [rev]. rewrite map_app. cbn [map]. rewrite Ke, <- app_assoc. reflexivity.
        * intros F. apply B. constructor; assumption.
        * intros cl Ec V F. apply (Cc cl Ec V). subst c. cbn [rev].
          apply Forall2_snoc; [exact F|]. rewrite Kk. apply V; assumption.
  Qed.

  Lemma revoke_GR g m : GR g m -> GR (revoke_deleted h g) m.
  Proof.
    intros [GIg [P ND]]. unfold revoke_deleted.
    destruct (g_flsize g =? 0); [split; [exact GIg|split; assumption]|].
    destruct GIg as [NB _ CO _ LE].
    pose proof (compact_spec (g_entries g) (g_cache g) (length (g_entries g)) O O [] [] eq_refl) as CS.
    destruct (compact (g_entries g) (g_cache g) 0 0 (length (g_entries g)) [] []) as [es' c'].
    cbn [fst snd rev map app skipn] in CS. destruct CS as [A [B Cc]].
    specialize (B (Forall_nil _)).
    assert (FA : filter glive es' = es').
    { apply filter_all. intros x Hx. exact (proj1 (Forall_forall _ _) B x Hx). }
    apply relink_GI; cbn [g_entries g_cache g_fl g_len g_buckets].
    - exact NB.
    - intros cl E. destruct (g_cache g) as [cl0|] eqn:Ec; [|discriminate]. injection E as <-.
      destruct (CO cl0 eq_refl) as [_ V]. specialize (Cc cl0 eq_refl V (Forall2_nil _)).
      split; [symmetry; eapply Forall2_len; exact Cc|].
      intros i Hi _. exact (Forall2_nth _ _ _ gdummy 0 Cc i Hi).
    - split; [constructor|intros ? []].
    - rewrite LE, FA. rewrite !nlen_length. f_equal.
      rewrite <- (map_length gkv es'), A, map_length. reflexivity.
    - rewrite FA, A. exact P.
    - exact ND.
  Qed.
End GoldOps.
