(* C06: EasyHashMap (ZiporaHashMap + rebuild-on-growth) refines the spec map. *)
From ZV.Common Require Import Base.
From ZV.C06 Require Import Model ModelEasy Spec ProofsBasic ProofsList ProofsScan ProofsInv ProofsResize ProofsRefine ProofsSmall.
From Coq Require Import Permutation.
Open Scope N_scope.

Section EasyProofs.
  Variable h : N -> N.
  Variable grow : N -> N -> bool.
  Variable auto : bool.

  Lemma insert_each_R kvs : forall st m,
    R h st m -> R h (insert_each h st kvs) (sinsert_all m kvs).
  Proof.
    induction kvs as [|[k v] t IH]; intros st m HR; cbn [insert_each sinsert_all fold_left]; [exact HR|].
    destruct (insert h st k v) as [s1 r1] eqn:E.
    destruct (insert_R h _ _ _ _ _ _ HR E) as [RR _]. cbn [fst snd].
    apply IH. exact RR.
  Qed.

  Lemma pow2cap_grow a : pow2cap (N.max (N.max (2 * 2 ^ a) 64) 16).
  Proof.
    destruct (N.le_gt_cases a 5) as [L|G].
    - exists 6. assert (2 ^ (a + 1) <= 2 ^ 6) by (apply N.pow_le_mono_r; [discriminate|lia]).
      rewrite N.pow_add_r in H. change (2 ^ 1) with 2 in H. change (2 ^ 6) with 64 in *. lia.
    - exists (a + 1). assert (2 ^ 6 <= 2 ^ a) by (apply N.pow_le_mono_r; [discriminate|lia]).
      rewrite N.pow_add_r. change (2 ^ 1) with 2. change (2 ^ 6) with 64 in H. lia.
  Qed.

  Lemma easy_put_R st m k v : R h st m -> R h (easy_put h grow auto st k v) (sinsert m k v).
  Proof.
    intros HR. unfold easy_put.
    assert (R1 : R h (if auto && should_grow grow st
                      then insert_each h (init (N.max (N.max (2 * alloc st) 64) 16)) (iter st) else st) m).
    { destruct (auto && should_grow grow st); [|exact HR].
      pose proof HR as [[[a Ha] _] [_ [P ND]]].
      eapply R_perm.
      - apply insert_each_R. apply init_R0. rewrite Ha. apply pow2cap_grow.
      - rewrite sinsert_all_perm.
        + rewrite app_nil_r. exact P.
        + unfold iter. rewrite keys_kv. rewrite <- keys_kv.
          eapply Permutation_NoDup; [symmetry; apply Permutation_map; exact P|exact ND].
        + intros ? _ []. }
    destruct (insert h _ k v) as [s1 r1] eqn:E.
    destruct (insert_R h _ _ _ _ _ _ R1 E) as [RR _]. exact RR.
  Qed.

  Lemma easy_step_R st m o :
    R h st m ->
    R h (fst (easy_step h grow auto st o)) (fst (sstep m o))
    /\ obs_agree (snd (easy_step h grow auto st o)) (snd (sstep m o)).
  Proof.
    intros HR. destruct o as [[c k] v].
    destruct c as [|[[[?|?|]|[?|?|]|]|[[?|?|]|[?|?|]|]|]]; cbn [easy_step sstep].
    all: lazymatch goal with
      | |- context [easy_put] =>
          split; [apply easy_put_R; exact HR|]; cbn [fst snd obs_agree]; rewrite (get_sim h st m k HR); reflexivity
      | |- context [remove ?a ?b ?c] =>
          destruct (remove a b c) as [s1 r1] eqn:E; destruct (remove_R _ _ _ _ _ _ HR E) as [RR ->];
          split; [exact RR|reflexivity]
      | |- context [get_mut_set ?a ?b ?c ?d] =>
          destruct (get_mut_set a b c d) as [s1 r1] eqn:E; destruct (get_mut_set_R _ _ _ _ _ _ _ HR E) as [RR ->];
          split; [exact RR|reflexivity]
      | |- context [OLen] =>
          split; [exact HR|]; cbn [fst snd obs_agree]; f_equal; unfold len;
          destruct HR as [_ [_ [P _]]]; rewrite <- (nlen_perm _ _ P); rewrite !nlen_length, map_length; reflexivity
      | |- context [OIter] =>
          split; [exact HR|]; cbn [fst snd obs_agree]; unfold iter; apply HR
      | |- context [get ?a ?b ?c] =>
          split; [exact HR|]; cbn [fst snd obs_agree]; rewrite (get_sim a b _ c HR); reflexivity
      | |- _ => split; [apply (clear_R _ _ _ HR)|reflexivity]
      end.
  Qed.

  Lemma easy_run_R ops : forall st m, R h st m -> Forall2 obs_agree (easy_run h grow auto st ops) (srun m ops).
  Proof.
    induction ops as [|o t IH]; intros st m HR; cbn [easy_run srun]; [constructor|].
    destruct (easy_step_R st m o HR) as [RR OA].
    destruct (easy_step h grow auto st o) as [s1 o1]. destruct (sstep m o) as [m1 o2]. cbn [fst snd] in *.
    constructor; [exact OA|apply IH; exact RR].
  Qed.
End EasyProofs.

Lemma easy_refines_map_proof :
  forall (h : N -> N) (grow : N -> N -> bool) (auto : bool) (c : N) (ops : list op),
    pow2cap c -> Forall2 obs_agree (easy_run h grow auto (init c) ops) (srun [] ops).
Proof. intros h grow auto c ops P. apply easy_run_R. apply init_R0. exact P. Qed.

(* not vacuous: the growth path is taken and keeps the contents *)
Example easy_grows :
  let grow := fun l c => c <=? 2 * l in
  let ops := map (fun i => (0, N.of_nat i, 100 + N.of_nat i)) (seq 0 12) ++ [(1, 3, 0); (0, 50, 7); (2, 3, 0); (2, 11, 0); (5, 0, 0)] in
  nth 14 (easy_run (hasher 0) grow true (init 16) ops) OUnit = ORes None
  /\ nth 15 (easy_run (hasher 0) grow true (init 16) ops) OUnit = ORes (Some 111)
  /\ nth 16 (easy_run (hasher 0) grow true (init 16) ops) OUnit = OLen 12.
Proof. vm_compute. repeat split. Qed.
