(* C06: the probe loops (scan, scan_rm, ins_scan) on a fixed table and under point updates. *)
From ZV.Common Require Import Base.
From ZV.C06 Require Import Model Spec ProofsBasic ProofsList.
Open Scope N_scope.

Definition okh (H : N) : Prop := H <> 0 /\ H <> MAXH.

Lemma okh_norm x : okh (norm x).
Proof. apply norm_avoids_markers_proof. Qed.

Lemma liveb_true e : liveb e = true <-> s_hash e <> 0 /\ s_hash e <> MAXH.
Proof.
  unfold liveb. destruct (N.eqb_spec (s_hash e) 0), (N.eqb_spec (s_hash e) MAXH); cbn; split; intros; try tauto; try discriminate.
Qed.

Lemma liveb_false e : liveb e = false <-> s_hash e = 0 \/ s_hash e = MAXH.
Proof.
  unfold liveb. destruct (N.eqb_spec (s_hash e) 0), (N.eqb_spec (s_hash e) MAXH); cbn; split; intros; try tauto; try discriminate.
Qed.

Lemma matchb_true e H K : matchb e H K = true <-> s_hash e = H /\ s_key e = K.
Proof.
  unfold matchb. destruct (N.eqb_spec (s_hash e) H), (N.eqb_spec (s_key e) K); cbn; split; intros; try tauto; try discriminate.
Qed.

Lemma match_live e H K : okh H -> matchb e H K = true -> liveb e = true.
Proof.
  intros [H0 H1] M. apply matchb_true in M. destruct M as [<- _]. apply liveb_true; split; assumption.
Qed.

Section Fixed.
  Variables (H K : N).
  Hypothesis HK : okh H.

  (* one step of scan, by the state of the probed slot *)
  Lemma scan_empty es p t : s_hash (nth p es dummy) = 0 -> scan es H K (p :: t) = None.
  Proof. intros E. cbn [scan]. rewrite E. reflexivity. Qed.

  Lemma scan_skip es p t :
    s_hash (nth p es dummy) <> 0 -> matchb (nth p es dummy) H K = false ->
    scan es H K (p :: t) = scan es H K t.
  Proof.
    intros E M. cbn [scan]. destruct (N.eqb_spec (s_hash (nth p es dummy)) 0); [contradiction|].
    destruct (N.eqb_spec (s_hash (nth p es dummy)) MAXH); [reflexivity|]. rewrite M. reflexivity.
  Qed.

  Lemma scan_hit es p t : matchb (nth p es dummy) H K = true -> scan es H K (p :: t) = Some p.
  Proof.
    intros M. pose proof (match_live _ _ _ HK M) as L. apply liveb_true in L. destruct L as [L0 L1].
    cbn [scan]. destruct (N.eqb_spec (s_hash (nth p es dummy)) 0); [contradiction|].
    destruct (N.eqb_spec (s_hash (nth p es dummy)) MAXH); [contradiction|]. rewrite M. reflexivity.
  Qed.

  (* three-way case split on a slot *)
  Lemma slot_cases e :
    s_hash e = 0 \/ (s_hash e <> 0 /\ matchb e H K = false) \/ matchb e H K = true.
  Proof.
    destruct (matchb e H K) eqn:M; [right; right; reflexivity|].
    destruct (N.eq_dec (s_hash e) 0); [left; assumption|right; left; split; [assumption|reflexivity]].
  Qed.

  Lemma scan_in es ps p :
    scan es H K ps = Some p -> In p ps /\ matchb (nth p es dummy) H K = true.
  Proof.
    induction ps as [|x t IH]; [discriminate|].
    destruct (slot_cases (nth x es dummy)) as [E|[[E M]|M]].
    - rewrite scan_empty by exact E. discriminate.
    - rewrite scan_skip by assumption. intros S. destruct (IH S). split; [right|]; assumption.
    - rewrite scan_hit by exact M. intros [= <-]. split; [left; reflexivity|exact M].
  Qed.

  Lemma scan_nomatch es ps :
    (forall p, In p ps -> matchb (nth p es dummy) H K = false) -> scan es H K ps = None.
  Proof.
    intros NM. destruct (scan es H K ps) as [p|] eqn:S; [|reflexivity].
    apply scan_in in S. destruct S as [I M]. rewrite (NM p I) in M. discriminate.
  Qed.

  (* remove_standard's loop equals get_standard's *)
  Lemma scan_rm_scan es ps : scan_rm es H K ps = scan es H K ps.
  Proof.
    induction ps as [|x t IH]; [reflexivity|].
    destruct (slot_cases (nth x es dummy)) as [E|[[E M]|M]].
    - rewrite scan_empty by exact E. cbn [scan_rm]. rewrite E. reflexivity.
    - rewrite scan_skip by assumption. cbn [scan_rm].
      destruct (N.eqb_spec (s_hash (nth x es dummy)) 0); [contradiction|]. rewrite M. exact IH.
    - rewrite scan_hit by exact M. cbn [scan_rm].
      pose proof (match_live _ _ _ HK M) as L. apply liveb_true in L. destruct L as [L0 _].
      destruct (N.eqb_spec (s_hash (nth x es dummy)) 0); [contradiction|]. rewrite M. reflexivity.
  Qed.

  (* ---- point updates ---- *)
  (* a slot that was not live becomes a non-empty slot that does not match: found stays found *)
  Lemma scan_upd_other es q e' ps p :
    (q < length es)%nat -> liveb (nth q es dummy) = false ->
    s_hash e' <> 0 -> matchb e' H K = false ->
    scan es H K ps = Some p -> scan (upd es q e') H K ps = Some p.
  Proof.
    intros Hq NL E' M'. induction ps as [|x t IH]; [discriminate|].
    destruct (Nat.eq_dec x q) as [->|Hx].
    - apply liveb_false in NL. destruct NL as [E|T].
      + rewrite scan_empty by exact E. discriminate.
      + assert (Mq : matchb (nth q es dummy) H K = false).
        { destruct (matchb (nth q es dummy) H K) eqn:Mq; [|reflexivity].
          apply matchb_true in Mq. destruct Mq as [Mq _]. destruct HK as [_ HM]. congruence. }
        rewrite scan_skip; [|unfold MAXH in *; rewrite T; discriminate|exact Mq].
        intros S. rewrite scan_skip; [apply IH; exact S| |]; rewrite nth_upd_same by exact Hq; assumption.
    - intros S.
      destruct (slot_cases (nth x es dummy)) as [E|[[E M]|M]].
      + rewrite scan_empty in S by exact E. discriminate.
      + rewrite scan_skip in S by assumption.
        rewrite scan_skip; [apply IH; exact S| |]; rewrite nth_upd_other by congruence; assumption.
      + rewrite scan_hit in S by exact M. rewrite scan_hit; [exact S|].
        rewrite nth_upd_other by congruence. exact M.
  Qed.

  (* only the value of a slot changes: every scan is unchanged *)
  Lemma scan_upd_val es q e' ps :
    (q < length es)%nat -> s_hash e' = s_hash (nth q es dummy) -> s_key e' = s_key (nth q es dummy) ->
    scan (upd es q e') H K ps = scan es H K ps.
  Proof.
    intros Hq Eh Ek. induction ps as [|x t IH]; [reflexivity|].
    cbn [scan]. destruct (Nat.eq_dec x q) as [->|Hx].
    - rewrite nth_upd_same by exact Hq. unfold matchb. rewrite Eh, Ek, IH. reflexivity.
    - rewrite nth_upd_other by congruence. rewrite IH. reflexivity.
  Qed.

  (* a non-empty, non-matching slot becomes a tombstone: every scan for (H,K) is unchanged *)
  Lemma scan_upd_tomb es q k v ps :
    (q < length es)%nat -> s_hash (nth q es dummy) <> 0 -> matchb (nth q es dummy) H K = false ->
    scan (upd es q (mkslot MAXH k v)) H K ps = scan es H K ps.
  Proof.
    intros Hq E M. induction ps as [|x t IH]; [reflexivity|].
    destruct (Nat.eq_dec x q) as [->|Hx].
    - rewrite (scan_skip es) by assumption.
      rewrite scan_skip; [exact IH| |]; rewrite nth_upd_same by exact Hq; cbn [s_hash].
      + unfold MAXH; discriminate.
      + unfold matchb; cbn [s_hash]. destruct HK as [_ HM].
        destruct (N.eqb_spec MAXH H); [congruence|reflexivity].
    - cbn [scan]. rewrite nth_upd_other by congruence. rewrite IH. reflexivity.
  Qed.

  (* the new entry is found at the slot it was placed in *)
  Lemma scan_place_self es q e' l1 l2 :
    (q < length es)%nat ->
    (forall x, In x l1 -> x <> q /\ s_hash (nth x es dummy) <> 0 /\ matchb (nth x es dummy) H K = false) ->
    matchb e' H K = true ->
    scan (upd es q e') H K (l1 ++ q :: l2) = Some q.
  Proof.
    intros Hq Hl M. induction l1 as [|x t IH]; cbn [app].
    - apply scan_hit. rewrite nth_upd_same by exact Hq. exact M.
    - destruct (Hl x (or_introl eq_refl)) as [Hx [E NM]].
      rewrite scan_skip; [apply IH; intros y Hy; apply Hl; right; exact Hy| |];
        rewrite nth_upd_other by congruence; assumption.
  Qed.

  (* ---- insert_standard's loop ---- *)
  Lemma ins_scan_tomb es ps t :
    (exists q, ins_scan es H K ps (Some t) = Update q) \/ ins_scan es H K ps (Some t) = Place t.
  Proof.
    induction ps as [|x r IH]; cbn [ins_scan]; [right; reflexivity|].
    destruct (s_hash (nth x es dummy) =? 0); [right; reflexivity|].
    destruct (s_hash (nth x es dummy) =? MAXH); [exact IH|].
    destruct (matchb (nth x es dummy) H K); [left; eexists; reflexivity|exact IH].
  Qed.

  Lemma ins_scan_scan es ps tomb :
    match ins_scan es H K ps tomb with
    | Update p => scan es H K ps = Some p
    | _ => scan es H K ps = None
    end.
  Proof.
    revert tomb. induction ps as [|x r IH]; intros tomb; cbn [ins_scan scan].
    - destruct tomb; reflexivity.
    - destruct (s_hash (nth x es dummy) =? 0); [destruct tomb; reflexivity|].
      destruct (s_hash (nth x es dummy) =? MAXH); [apply IH|].
      destruct (matchb (nth x es dummy) H K); [reflexivity|apply IH].
  Qed.

  Lemma ins_scan_place es ps q :
    ins_scan es H K ps None = Place q ->
    exists l1 l2, ps = l1 ++ q :: l2
      /\ (forall x, In x l1 -> liveb (nth x es dummy) = true /\ matchb (nth x es dummy) H K = false)
      /\ liveb (nth q es dummy) = false.
  Proof.
    induction ps as [|x r IH]; cbn [ins_scan]; [discriminate|].
    destruct (N.eqb_spec (s_hash (nth x es dummy)) 0) as [E|E].
    - intros [= <-]. exists [], r. split; [reflexivity|]. split; [intros ? []|].
      apply liveb_false; left; exact E.
    - destruct (N.eqb_spec (s_hash (nth x es dummy)) MAXH) as [T|T].
      + intros S. destruct (ins_scan_tomb es r x) as [[p U]|P]; [rewrite U in S; discriminate|].
        rewrite P in S. injection S as <-. exists [], r. split; [reflexivity|]. split; [intros ? []|].
        apply liveb_false; right; exact T.
      + destruct (matchb (nth x es dummy) H K) eqn:M; [discriminate|].
        intros S. destruct (IH S) as [l1 [l2 [-> [Hl Hq]]]].
        exists (x :: l1), l2. split; [reflexivity|]. split; [|exact Hq].
        intros y [<-|Hy]; [|apply Hl; exact Hy]. split; [apply liveb_true; split; assumption|exact M].
  Qed.

  Lemma ins_scan_full es ps :
    ins_scan es H K ps None = Full -> forall x, In x ps -> liveb (nth x es dummy) = true.
  Proof.
    induction ps as [|x r IH]; cbn [ins_scan]; [intros _ ? []|].
    destruct (N.eqb_spec (s_hash (nth x es dummy)) 0) as [E|E]; [discriminate|].
    destruct (N.eqb_spec (s_hash (nth x es dummy)) MAXH) as [T|T].
    - intros S. destruct (ins_scan_tomb es r x) as [[p U]|P]; rewrite ?U, ?P in S; discriminate.
    - destruct (matchb (nth x es dummy) H K) eqn:M; [discriminate|].
      intros S y [<-|Hy]; [apply liveb_true; split; assumption|apply IH; assumption].
  Qed.
End Fixed.
