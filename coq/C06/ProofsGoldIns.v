(* C06 / GoldHashMap: linking a new entry (fresh or recycled slot) and unlinking on removal. *)
From ZV.Common Require Import Base.
From ZV.C06 Require Import Model ModelGold Spec ProofsList ProofsGoldChain ProofsGoldRelink ProofsGoldInv ProofsGoldOps.
From Coq Require Import Permutation.
Open Scope N_scope.

Section GoldIns.
  Variable h : N -> N.
  Variable ml : N -> N.
  Variable cfg : gcfg.

  Notation GI := (GI h).
  Notation GR := (GR h).

  (* ---------- a new entry at slot idx, pushed at the head of bucket b ---------- *)
  Lemma chains_ok_insert bs es es' idx k v :
    (0 < length bs)%nat -> chains_ok h bs es ->
    nth idx es' gdummy = mkg k v (nth (hb h (length bs) k) bs Tail) ->
    (forall j, j <> idx -> nth j es' gdummy = nth j es gdummy) ->
    ((length es' = length es /\ (idx < length es)%nat /\ glive (nth idx es gdummy) = false)
     \/ (idx = length es /\ length es' = S (length es))) ->
    chains_ok h (upd bs (hb h (length bs) k) (Idx idx)) es'.
  Proof.
    intros NB [CH CV] Hne Hoth Hcase.
    set (b := hb h (length bs) k) in *.
    assert (Hb : (b < length bs)%nat) by (apply (hb_lt h ml); exact NB).
    assert (Hle : (length es <= length es')%nat) by (destruct Hcase as [[E _]|[_ E]]; lia).
    assert (Hidx : (idx < length es')%nat) by (destruct Hcase as [[E [L _]]|[E1 E2]]; lia).
    assert (Hnotin : forall l c, chain es l c -> ~ In idx c).
    { intros l c C Hin. destruct (chain_in _ _ _ _ C Hin) as [Hlt Lv].
      destruct Hcase as [[_ [_ D]]|[E _]]; [congruence|lia]. }
    assert (Hframe : forall l c, chain es l c -> chain es' l c).
    { intros l c C. eapply chain_frame; [exact C|exact Hle|].
      intros j Hj. rewrite Hoth; [reflexivity|]. intros ->. exact (Hnotin _ _ C Hj). }
    destruct (CH b Hb) as [cb [Cb Hcb]].
    assert (Cnew : chain es' (Idx idx) (idx :: cb)).
    { constructor; [exact Hidx|]. rewrite Hne. cbn [g_link]. apply Hframe. exact Cb. }
    unfold chains_ok. rewrite length_upd. split.
    - intros b' Hb'. destruct (Nat.eq_dec b' b) as [->|Hne'].
      + exists (idx :: cb). rewrite nth_upd_same by exact Hb. split; [exact Cnew|].
        intros i [<-|Hi]; [rewrite Hne; reflexivity|].
        rewrite Hoth; [apply Hcb; exact Hi|]. intros ->. exact (Hnotin _ _ Cb Hi).
      + destruct (CH b' Hb') as [c [C Hc]]. exists c. rewrite nth_upd_other by congruence.
        split; [apply Hframe; exact C|].
        intros i Hi. rewrite Hoth; [apply Hc; exact Hi|]. intros ->. exact (Hnotin _ _ C Hi).
    - intros i Hi Li. destruct (Nat.eq_dec i idx) as [->|Hine].
      + rewrite Hne. cbn [g_key]. fold b. rewrite nth_upd_same by exact Hb.
        exists (idx :: cb). split; [exact Cnew|left; reflexivity].
      + rewrite Hoth in * by exact Hine.
        assert (Hi0 : (i < length es)%nat) by (destruct Hcase as [[E _]|[E1 E2]]; lia).
        destruct (CV i Hi0 Li) as [c [C Hc]].
        destruct (Nat.eq_dec (hb h (length bs) (g_key (nth i es gdummy))) b) as [Eb|Eb].
        * rewrite Eb in *. rewrite nth_upd_same by exact Hb.
          pose proof (chain_det _ _ _ C _ Cb) as ->.
          exists (idx :: cb). split; [exact Cnew|right; exact Hc].
        * rewrite nth_upd_other by congruence. exists c. split; [apply Hframe; exact C|exact Hc].
  Qed.

  (* recycled slot *)
  Lemma insert_reuse_GR g m k v idx rest cb :
    GR g m -> g_fl g = idx :: rest ->
    chain (g_entries g) (nth (hb h (nbk g) k) (g_buckets g) Tail) cb ->
    (forall j, In j cb -> g_key (nth j (g_entries g) gdummy) <> k) ->
    forall mlv fls,
    GR (mkgold (upd (g_buckets g) (hb h (nbk g) k) (Idx idx))
               (upd (g_entries g) idx (mkg k v (nth (hb h (nbk g) k) (g_buckets g) Tail)))
               (match g_cache g with
                | Some c => Some (if Nat.ltb idx (length c) then upd c idx (h k) else c)
                | None => None end)
               (g_len g + 1) mlv fls rest)
       (sinsert m k v).
  Proof.
    intros HR Efl Cb Hn mlv fls.
    pose proof (notfound_absent h g m k cb HR Cb Hn) as NK.
    destruct HR as [[NB CH CO FO LE] [P ND]].
    destruct FO as [NDf Hf]. rewrite Efl in NDf, Hf.
    destruct (Hf idx (or_introl eq_refl)) as [Hlt Dead].
    inversion NDf as [|? ? Hnr NDr]; subst.
    set (b := hb h (nbk g) k) in *.
    set (ne := mkg k v (nth b (g_buckets g) Tail)).
    set (es' := upd (g_entries g) idx ne).
    assert (Lne : glive ne = true).
    { unfold glive, ne; cbn [g_link]. apply chain_not_del in Cb. destruct (nth b (g_buckets g) Tail); try reflexivity. congruence. }
    destruct (filter_upd glive (g_entries g) idx ne gdummy Hlt) as [X [P1 P2]].
    unfold optf in P1, P2. rewrite Dead in P1. rewrite Lne in P2. cbn [app] in P1, P2.
    split; [|split; [|apply sinsert_nodup; exact ND]].
    - constructor; cbn [g_buckets g_entries g_cache g_fl g_len].
      + unfold nbk; cbn [g_buckets]. rewrite length_upd. exact NB.
      + apply (chains_ok_insert (g_buckets g) (g_entries g) es' idx k v NB CH).
        * unfold es'. rewrite nth_upd_same by exact Hlt. reflexivity.
        * intros j Hj. unfold es'. rewrite nth_upd_other by congruence. reflexivity.
        * left. split; [apply length_upd|]. split; assumption.
      + intros cl E. destruct (g_cache g) as [c0|] eqn:Ec; [|discriminate]. injection E as <-.
        destruct (CO c0 eq_refl) as [Lc V].
        assert (Hl : Nat.ltb idx (length c0) = true) by (apply Nat.ltb_lt; lia). rewrite Hl.
        unfold es'. rewrite !length_upd. split; [exact Lc|].
        intros i Hi Li.
        destruct (Nat.eq_dec i idx) as [->|Hne].
        * rewrite !nth_upd_same by lia. reflexivity.
        * rewrite nth_upd_other in Li by congruence. rewrite !nth_upd_other by congruence. apply V; assumption.
      + split; [exact NDr|]. intros i Hi. destruct (Hf i (or_intror Hi)) as [A B].
        unfold es'. rewrite length_upd. split; [exact A|].
        rewrite nth_upd_other; [exact B|]. intros ->. contradiction.
      + rewrite LE. unfold es'. rewrite (nlen_perm _ _ P2), (nlen_perm _ _ P1). cbn [nlen]. lia.
    - cbn [g_entries]. fold ne. fold es'. unfold es'. rewrite P2. cbn [map]. unfold gkv at 1; cbn [g_key g_val ne].
      unfold sinsert. rewrite sremove_absent by exact NK. apply perm_skip. rewrite <- P1. exact P.
  Qed.

  (* fresh slot appended *)
  Lemma insert_append_GR g m k v cb :
    GR g m ->
    chain (g_entries g) (nth (hb h (nbk g) k) (g_buckets g) Tail) cb ->
    (forall j, In j cb -> g_key (nth j (g_entries g) gdummy) <> k) ->
    forall mlv fls fl', fl_ok fl' (g_entries g) ->
    GR (mkgold (upd (g_buckets g) (hb h (nbk g) k) (Idx (length (g_entries g))))
               (g_entries g ++ [mkg k v (nth (hb h (nbk g) k) (g_buckets g) Tail)])
               (match (match g_cache g with Some c => Some (c ++ [0]) | None => None end) with
                | Some c => Some (if Nat.ltb (length (g_entries g)) (length c) then upd c (length (g_entries g)) (h k) else c)
                | None => None end)
               (g_len g + 1) mlv fls fl')
       (sinsert m k v).
  Proof.
    intros HR Cb Hn mlv fls fl' Hfl'.
    pose proof (notfound_absent h g m k cb HR Cb Hn) as NK.
    destruct HR as [[NB CH CO FO LE] [P ND]].
    set (b := hb h (nbk g) k) in *.
    set (ne := mkg k v (nth b (g_buckets g) Tail)).
    set (n := length (g_entries g)).
    assert (Lne : glive ne = true).
    { unfold glive, ne; cbn [g_link]. apply chain_not_del in Cb. destruct (nth b (g_buckets g) Tail); try reflexivity. congruence. }
    assert (Hnth_new : nth n (g_entries g ++ [ne]) gdummy = ne) by (unfold n; apply nth_middle).
    assert (Hnth_old : forall j, j <> n -> nth j (g_entries g ++ [ne]) gdummy = nth j (g_entries g) gdummy).
    { intros j Hj. destruct (Nat.lt_ge_cases j n) as [L|G].
      - apply app_nth1. exact L.
      - rewrite !nth_overflow; [reflexivity|fold n; lia|rewrite app_length; cbn [length]; fold n; lia]. }
    assert (Fil : filter glive (g_entries g ++ [ne]) = filter glive (g_entries g) ++ [ne]).
    { rewrite filter_app. cbn [filter]. rewrite Lne. reflexivity. }
    split; [|split; [|apply sinsert_nodup; exact ND]].
    - constructor; cbn [g_buckets g_entries g_cache g_fl g_len].
      + unfold nbk; cbn [g_buckets]. rewrite length_upd. exact NB.
      + apply (chains_ok_insert (g_buckets g) (g_entries g) (g_entries g ++ [ne]) n k v NB CH).
        * exact Hnth_new.
        * exact Hnth_old.
        * right. split; [reflexivity|]. rewrite app_length. cbn [length]. fold n. lia.
      + intros cl E. destruct (g_cache g) as [c0|] eqn:Ec; [|discriminate].
        destruct (CO c0 eq_refl) as [Lc V]. fold n in Lc.
        assert (Hl : Nat.ltb n (length (c0 ++ [0])) = true) by (apply Nat.ltb_lt; rewrite app_length; cbn [length]; lia).
        rewrite Hl in E. injection E as <-.
        rewrite length_upd, !app_length. cbn [length]. split; [fold n; lia|].
        intros i Hi Li. destruct (Nat.eq_dec i n) as [->|Hne].
        * rewrite nth_upd_same by (rewrite app_length; cbn [length]; lia). rewrite Hnth_new. reflexivity.
        * rewrite nth_upd_other by congruence. rewrite Hnth_old in * by exact Hne.
          assert (Hi0 : (i < n)%nat) by lia.
          rewrite app_nth1 by lia. apply V; [exact Hi0|exact Li].
      + destruct Hfl' as [NDf Hf]. split; [exact NDf|]. intros i Hi. destruct (Hf i Hi) as [A B].
        rewrite app_length. cbn [length]. split; [lia|].
        rewrite Hnth_old; [exact B|]. fold n in A. lia.
      + rewrite LE, Fil. rewrite !nlen_length, app_length. cbn [length]. lia.
    - cbn [g_entries]. fold ne. rewrite Fil, map_app. cbn [map]. unfold gkv at 2; cbn [g_key g_val ne].
      unfold sinsert. rewrite sremove_absent by exact NK.
      rewrite <- Permutation_cons_append. apply perm_skip. exact P.
  Qed.

  (* ---------- unlinking ---------- *)
  Lemma remove_GR g m k cb pre post idx bs1 es2 fl' mlv fls :
    GR g m ->
    chain (g_entries g) (nth (hb h (nbk g) k) (g_buckets g) Tail) cb ->
    cb = pre ++ idx :: post -> g_key (nth idx (g_entries g) gdummy) = k ->
    length es2 = length (g_entries g) ->
    (forall j, g_key (nth j es2 gdummy) = g_key (nth j (g_entries g) gdummy)
            /\ g_val (nth j es2 gdummy) = g_val (nth j (g_entries g) gdummy)) ->
    g_link (nth idx es2 gdummy) = DelMark ->
    ((pre = [] /\ bs1 = upd (g_buckets g) (hb h (nbk g) k) (g_link (nth idx (g_entries g) gdummy))
      /\ forall j, j <> idx -> g_link (nth j es2 gdummy) = g_link (nth j (g_entries g) gdummy))
     \/ (exists pre' x, pre = pre' ++ [x] /\ bs1 = g_buckets g
         /\ g_link (nth x es2 gdummy) = g_link (nth idx (g_entries g) gdummy)
         /\ forall j, j <> idx -> j <> x -> g_link (nth j es2 gdummy) = g_link (nth j (g_entries g) gdummy))) ->
    (fl' = idx :: g_fl g \/ fl' = g_fl g) ->
    GR (mkgold bs1 es2 (g_cache g) (g_len g - 1) mlv fls fl') (sremove m k)
    /\ sget m k = Some (g_val (nth idx (g_entries g) gdummy)).
  Proof.
    intros HR Cb Ecb Ek Hl Hkv Hdel Hcase Hfl.
    assert (Hin : In idx cb) by (rewrite Ecb; apply in_or_app; right; left; reflexivity).
    pose proof (found_present h g m k cb idx HR Cb Hin Ek) as SG.
    destruct HR as [[NB [CH CV] CO FO LE] [P ND]].
    destruct (chain_in _ _ _ _ Cb Hin) as [Hlt Lidx].
    pose proof (chain_nodup _ _ _ Cb) as NDc.
    set (es := g_entries g) in *. set (bs := g_buckets g) in *. set (b := hb h (nbk g) k) in *.
    assert (Hb : (b < length bs)%nat) by (apply (hb_lt h ml); exact NB).
    assert (Hcbb : forall i, In i cb -> hb h (length bs) (g_key (nth i es gdummy)) = b).
    { destruct (CH b Hb) as [c [C Hc]]. pose proof (chain_det _ _ _ C _ Cb) as ->. exact Hc. }
    (* the predecessor, if any, is a live member of the chain, different from idx *)
    assert (Hx : forall pre' x, pre = pre' ++ [x] -> In x cb /\ x <> idx).
    { intros pre' x E. split.
      - rewrite Ecb, E. apply in_or_app. left. apply in_or_app. right. left. reflexivity.
      - intros ->. rewrite Ecb, E in NDc. rewrite <- app_assoc in NDc. apply NoDup_remove_2 in NDc.
        apply NDc. apply in_or_app. right. left. reflexivity. }
    (* liveness after the update: only idx died *)
    assert (Llive : forall j, j <> idx -> glive (nth j es2 gdummy) = glive (nth j es gdummy)).
    { intros j Hj. unfold glive. destruct Hcase as [[_ [_ Hs]]|[pre' [x [E [_ [Hxl Hs]]]]]].
      - rewrite Hs by exact Hj. reflexivity.
      - destruct (Nat.eq_dec j x) as [->|Hjx].
        + rewrite Hxl. destruct (Hx pre' x E) as [Hxin _].
          destruct (chain_in _ _ _ _ Cb Hxin) as [_ Lx]. unfold glive in Lx, Lidx.
          destruct (g_link (nth idx es gdummy)), (g_link (nth x es gdummy)); cbn in *; congruence.
        + rewrite Hs by assumption. reflexivity. }
    assert (Ldead : glive (nth idx es2 gdummy) = false) by (unfold glive; rewrite Hdel; reflexivity).
    (* the structural copy with just idx marked, for counting *)
    set (emid := upd es idx (mkg (g_key (nth idx es gdummy)) (g_val (nth idx es gdummy)) DelMark)).
    assert (SKm : same_kvl emid es2).
    { split; [unfold emid; rewrite length_upd; exact Hl|]. intros j. unfold emid.
      destruct (Hkv j) as [K V]. destruct (Nat.eq_dec j idx) as [->|Hj].
      - rewrite nth_upd_same by exact Hlt. cbn [g_key g_val]. repeat split; try assumption.
      - rewrite nth_upd_other by congruence. repeat split; try assumption. apply Llive. exact Hj. }
    destruct (filter_upd glive es idx (mkg (g_key (nth idx es gdummy)) (g_val (nth idx es gdummy)) DelMark) gdummy Hlt)
      as [X [P1 P2]].
    fold emid in P2. unfold optf in P1, P2. rewrite Lidx in P1. cbn [glive g_link is_del negb app] in P1, P2.
    assert (Pm : Permutation m ((k, g_val (nth idx es gdummy)) :: map gkv X)).
    { rewrite <- P, P1. cbn [map]. unfold gkv at 1. rewrite Ek. apply Permutation_refl. }
    split; [|exact SG].
    split; [|split; [|apply sremove_nodup; exact ND]].
    2:{ cbn [g_entries]. rewrite (same_kvl_filter _ _ SKm), P2. symmetry. eapply sremove_perm; eassumption. }
    (* chain of bucket b after the unlink *)
    assert (Cb2 : chain es2 (nth b bs1 Tail) (pre ++ post) /\ length bs1 = length bs
                  /\ forall b', b' <> b -> nth b' bs1 Tail = nth b' bs Tail).
    { destruct Hcase as [[Ep [Eb Hs]]|[pre' [x [Ep [Eb [Hxl Hs]]]]]].
      - subst pre bs1. cbn [app] in *. rewrite nth_upd_same by exact Hb. rewrite length_upd.
        split; [|split; [reflexivity|intros b' Hb'; rewrite nth_upd_other by congruence; reflexivity]].
        rewrite Ecb in Cb. pose proof (chain_head _ _ _ _ Cb) as Eh. rewrite Eh in Cb.
        eapply chain_unlink_head; [exact Cb|exact Hl|exact Hs].
      - subst pre bs1. split; [|split; [reflexivity|intros; reflexivity]].
        rewrite Ecb in Cb. rewrite <- app_assoc in Cb. cbn [app] in Cb. rewrite <- app_assoc. cbn [app].
        eapply chain_unlink_mid; [exact Cb|exact Hl|exact Hxl|exact Hs]. }
    destruct Cb2 as [Cb2 [Lbs Hbo]].
    (* members of other chains are untouched *)
    assert (Hother : forall b' c, b' <> b -> (b' < length bs)%nat -> chain es (nth b' bs Tail) c ->
                     (forall i, In i c -> hb h (length bs) (g_key (nth i es gdummy)) = b') ->
                     chain es2 (nth b' bs Tail) c).
    { intros b' c Hne Hb' C Hc. eapply chain_frame; [exact C|lia|].
      intros j Hj.
      assert (Hjn : ~ In j cb) by (intros Hjc; apply Hne; rewrite <- (Hc j Hj); apply Hcbb; exact Hjc).
      destruct Hcase as [[_ [_ Hs]]|[pre' [x [E [_ [_ Hs]]]]]].
      - apply Hs. intros ->. contradiction.
      - apply Hs; intros ->; [contradiction|]. destruct (Hx pre' x E) as [Hxin _]. contradiction. }
    constructor; cbn [g_buckets g_entries g_cache g_fl g_len].
    - unfold nbk; cbn [g_buckets]. rewrite Lbs. exact NB.
    - split.
      + rewrite Lbs. intros b' Hb'. destruct (Nat.eq_dec b' b) as [->|Hne].
        * exists (pre ++ post). split; [exact Cb2|]. intros i Hi. destruct (Hkv i) as [K _]. rewrite K.
          apply Hcbb. rewrite Ecb. apply in_app_or in Hi. apply in_or_app. destruct Hi; [left|right; right]; assumption.
        * destruct (CH b' Hb') as [c [C Hc]]. exists c. rewrite Hbo by exact Hne.
          split; [apply Hother; assumption|]. intros i Hi. destruct (Hkv i) as [K _]. rewrite K. apply Hc. exact Hi.
      + rewrite Lbs. intros i Hi Li. rewrite Hl in Hi.
        assert (Hine : i <> idx) by (intros ->; congruence).
        rewrite Llive in Li by exact Hine. destruct (Hkv i) as [K _]. rewrite K.
        destruct (CV i Hi Li) as [c [C Hc]].
        set (bi := hb h (length bs) (g_key (nth i es gdummy))) in *.
        assert (Hbi : (bi < length bs)%nat) by (apply (hb_lt h ml); exact NB).
        destruct (Nat.eq_dec bi b) as [Eb|Eb].
        * rewrite Eb in *. pose proof (chain_det _ _ _ C _ Cb) as ->. exists (pre ++ post). split; [exact Cb2|].
          rewrite Ecb in Hc. apply in_app_or in Hc. apply in_or_app. destruct Hc as [A|[A|A]]; [left; exact A|congruence|right; exact A].
        * exists c. rewrite Hbo by exact Eb. split; [|exact Hc].
          destruct (CH bi Hbi) as [c2 [C2 Hc2]]. pose proof (chain_det _ _ _ C _ C2) as ->.
          apply Hother; assumption.
    - intros cl E. destruct (CO cl E) as [Lc V]. split; [congruence|].
      intros i Hi Li. rewrite Hl in Hi.
      assert (Hine : i <> idx) by (intros ->; congruence).
      rewrite Llive in Li by exact Hine. destruct (Hkv i) as [K _]. rewrite K. apply V; assumption.
    - destruct FO as [NDf Hf].
      assert (Hnf : ~ In idx (g_fl g)) by (intros Hi; destruct (Hf idx Hi) as [_ D]; congruence).
      assert (Hold : forall i, In i (g_fl g) -> (i < length es2)%nat /\ glive (nth i es2 gdummy) = false).
      { intros i Hi. destruct (Hf i Hi) as [A B]. split; [lia|]. rewrite Llive; [exact B|].
        intros ->. contradiction. }
      destruct Hfl as [-> | ->].
      + split; [constructor; assumption|]. intros i [<-|Hi]; [split; [lia|exact Ldead]|apply Hold; exact Hi].
      + split; [exact NDf|exact Hold].
    - rewrite LE. rewrite (same_kl_nlen _ _ (same_kvl_kl _ _ SKm)).
      rewrite (nlen_perm _ _ P1), (nlen_perm _ _ P2). cbn [nlen]. lia.
  Qed.
End GoldIns.
