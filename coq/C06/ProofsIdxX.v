(* C06 extension: GoldHashIdx with insert_batch (pre-sizing to any power of two + insert loop) refines the spec map. *)
From ZV.Common Require Import Base.
From ZV.C06 Require Import Model ModelIdx ModelIdxX Spec ProofsList ProofsIdxPath ProofsIdxRehash ProofsIdxInv ProofsIdxRefine.
From Coq Require Import Permutation.
Open Scope nat_scope.

Section IdxXRefine.
  Variable h : N -> N.

  (* resize_to for any capacity 4c' that keeps the load below 3/4 *)
  Lemma resize_to_R g m c' :
    IR h g m -> 4 <= c' -> (ix_len g < N.of_nat (3 * c'))%N ->
    exists g1, iresize_to h g (4 * c') = Some g1 /\ IR h g1 m.
  Proof.
    intros HR Hc' Hl. pose proof HR as [W [[c0 [Ec0 [Hc0 Hl0]]] [P ND]]].
    unfold iresize_to.
    set (g0 := mkix (repeat None (4 * c')) (ix_values g) (ix_free g) 0).
    assert (W0 : WF h g0).
    { constructor; unfold g0, icap; cbn [ix_table ix_values ix_free ix_len]; rewrite ?repeat_length, ?somes_repeat.
      - split; [apply repeat_length|]. intros p b _ E. rewrite nth_repeat_none in E. discriminate.
      - lia.
      - reflexivity.
      - constructor.
      - intros b [].
      - constructor.
      - apply (wf_free _ _ W). }
    destruct (reinsert_ok h (ix_table g) g0 c' W0) as [g1 [Er [W1 [Ecap1 [P1 Elen1]]]]].
    - unfold g0, icap; cbn [ix_table]. rewrite repeat_length. reflexivity.
    - apply (wf_val _ _ W).
    - apply (wf_keys _ _ W).
    - intros b b' _ Hb'. unfold g0 in Hb'; cbn [ix_table] in Hb'. rewrite somes_repeat in Hb'. destruct Hb'.
    - unfold g0; cbn [ix_len]. rewrite (wf_len _ _ W) in Hl. lia.
    - exists g1. split; [exact Er|].
      assert (Ecap : icap g1 = 4 * c').
      { rewrite Ecap1. unfold g0, icap; cbn [ix_table]. rewrite repeat_length. reflexivity. }
      assert (Elen : ix_len g1 = ix_len g).
      { unfold g0 in Elen1; cbn [ix_len] in Elen1. rewrite (wf_len _ _ W). lia. }
      split; [exact W1|]. split; [exists c'; rewrite Elen; repeat split; try assumption; lia|].
      split; [|exact ND].
      rewrite P1. unfold g0; cbn [ix_table ix_values]. rewrite somes_repeat. cbn [pairs flat_map]. rewrite app_nil_r. exact P.
  Qed.

  (* next_power_of_two of a target above 16 is 4c' with c' >= 4 and at least the target *)
  Lemma next_pow2_shape t : (16 < t)%N ->
    exists c', N.to_nat (next_pow2 t) = 4 * c' /\ 4 <= c' /\ (t <= N.of_nat (4 * c'))%N.
  Proof.
    intros Ht. unfold next_pow2. set (x := N.log2_up t).
    assert (Hx : (4 < x)%N).
    { unfold x. apply N.log2_up_lt_pow2; [lia|]. change (2 ^ 4)%N with 16%N. exact Ht. }
    assert (Hle : (t <= 2 ^ x)%N) by (unfold x; apply N.log2_up_spec; lia).
    exists (N.to_nat (2 ^ (x - 2))).
    assert (E : (2 ^ x = 4 * 2 ^ (x - 2))%N).
    { replace x with (2 + (x - 2))%N at 1 by lia. rewrite N.pow_add_r. reflexivity. }
    assert (2 ^ 3 <= 2 ^ (x - 2))%N by (apply N.pow_le_mono_r; [discriminate|lia]).
    change (2 ^ 3)%N with 8%N in H. repeat split; lia.
  Qed.

  Lemma ipresize_R g m n : IR h g m -> exists g1, ipresize h g n = Some g1 /\ IR h g1 m.
  Proof.
    intros HR. pose proof HR as [W [[c [Ec [Hc Hl]]] _]]. unfold ipresize.
    destruct (N.ltb_spec (N.of_nat (icap g)) ((ix_len g + n) * 2)%N) as [Hlt|Hge]; [|exists g; split; [reflexivity|exact HR]].
    destruct (next_pow2_shape ((ix_len g + n) * 2)%N) as [c' [E1 [E2 E3]]]; [lia|].
    rewrite E1. apply resize_to_R; [exact HR|exact E2|lia].
  Qed.

  Definition offeredx (o : op) : Prop := (fst (fst o) <= 5 \/ fst (fst o) = 16 \/ fst (fst o) = 17)%N.

  Lemma istepx_R g m o :
    IR h g m -> offeredx o ->
    IR h (fst (istepx h g o)) (fst (sstepi m o)) /\ obs_agree (snd (istepx h g o)) (snd (sstepi m o)).
  Proof.
    intros HR Ho. destruct o as [[c k] v]. unfold offeredx in Ho. cbn [fst] in Ho. unfold istepx, sstepi.
    destruct (N.eqb_spec c 16) as [->|N16].
    - destruct (ipresize_R g m k HR) as [g1 [E R1]]. rewrite E. cbn [fst snd]. split; [exact R1|reflexivity].
    - destruct (N.eqb_spec c 17) as [->|N17].
      + destruct (iinsert h g k v) as [s1 r1] eqn:E. destruct (iinsert_R h _ _ _ _ _ _ HR E) as [RR ->].
        cbn [fst snd]. split; [exact RR|reflexivity].
      + apply istep_R; [exact HR|]. unfold offered. cbn [fst]. lia.
  Qed.

  Lemma irunx_R ops : forall g m, IR h g m -> Forall offeredx ops -> Forall2 obs_agree (irunx h g ops) (sruni m ops).
  Proof.
    induction ops as [|o t IH]; intros g m HR Ho; cbn [irunx sruni]; [constructor|].
    inversion Ho as [|? ? Ho1 Hot]; subst.
    destruct (istepx_R g m o HR Ho1) as [RR OA].
    destruct (istepx h g o) as [s1 o1]. destruct (sstepi m o) as [m1 o2]. cbn [fst snd] in *.
    constructor; [exact OA|apply IH; assumption].
  Qed.
End IdxXRefine.

Lemma idx_batch_refines_map_proof :
  forall (h : N -> N) (c : N) (ops : list op),
    Forall (fun o => (fst (fst o) <= 5 \/ fst (fst o) = 16 \/ fst (fst o) = 17)%N) ops ->
    Forall2 obs_agree (irunx h (iinit c) ops) (sruni [] ops).
Proof. intros h c ops Ho. apply irunx_R; [apply iinit_R|exact Ho]. Qed.

(* non-vacuity: a batch of 40 items on a 16-slot table pre-sizes to 128 slots (no growth inside the loop), keeps the
   earlier entries, the later duplicate wins *)
Example idx_batch_history :
  let ops : list op := [(0, 1, 10); (0, 2, 20); (16, 40, 0)]%N ++ map (fun i => (17%N, N.of_nat i, (100 + N.of_nat i)%N)) (seq 2 40)
             ++ [(17, 2, 7); (2, 1, 0); (2, 2, 0); (2, 41, 0); (5, 0, 0)]%N in
  skipn 44 (irunx (hasher 4) (iinit 16) ops) = [ORes (Some 10%N); ORes (Some 7%N); ORes (Some 141%N); OLen 41%N]
  /\ option_map (fun g => length (ix_table g)) (ipresize (hasher 4) (iinit 16) 40) = Some 128.
Proof. vm_compute. split; reflexivity. Qed.
