(* C04 mechanism models, as written:
   - src/succinct/rank_select/separated_512.rs (RankSelectSE512): rank cache with a u32 base and
     seven 9-bit sub-block ranks packed into a u64, select caches, binary search, in-line scan;
   - src/succinct/rank_select/few.rs (RankSelectFewOne): sorted positions + partition point.
   A 64-bit word is the 64-bit segment of the bit list (popcount = number of trues; masking with
   (1<<n)-1 = the first n bits); the field packing is bit-exact on N.  Indices are nat.
   Not modelled: u32 wrap of `base` (lengths >= 2^32).  Definitions only. *)
From Coq Require Import List Arith NArith Lia Bool.
From ZV.C04 Require Import Spec.
Import ListNotations.

Definition LINE : nat := 512.
Definition WPL : nat := 8.

Definition word (bs : list bool) (i : nat) : list bool := firstn 64 (skipn (64 * i) bs).
Definition popcount (w : list bool) : nat := count1 w.
Definition popcount_trail (w : list bool) (n : nat) : nat :=
  if n =? 0 then 0 else if 64 <=? n then count1 w else count1 (firstn n w).
(* tzcnt(pdep(1<<k, word)): index of the k-th set bit; 64 when there is none *)
Definition select_in_word (w : list bool) (k : nat) : nat :=
  match select1 w k with Some p => p | None => 64 end.

(* ---- u64 field packing ---- *)
Definition shl64 (x : N) (s : N) : N := ((x * 2 ^ s) mod 2 ^ 64)%N.
Definition get_rela (rela : N) (k : nat) : nat :=
  if k =? 0 then 0
  else N.to_nat (N.land (N.shiftr rela (N.of_nat ((k - 1) * 9))) 511).

Record rc := { base : nat; rela : N }.

(* the j-loop of with_options for one line: r accumulates popcounts, rela collects r << (j*9) *)
Fixpoint line_loop (bs : list bool) (line : nat) (js : list nat) (r : nat) (acc : N) : nat * N :=
  match js with
  | [] => (r, acc)
  | j :: t =>
      let r' := r + popcount (word bs (line * WPL + j)) in
      line_loop bs line t r' (N.lor acc (shl64 (N.of_nat r') (N.of_nat (j * 9))))
  end.

Fixpoint build_lines (bs : list bool) (n i cum : nat) : list rc * nat :=
  match n with
  | O => ([], cum)
  | S n' =>
      let '(r, acc) := line_loop bs i (seq 0 WPL) 0 0%N in
      let entry := {| base := cum; rela := N.land acc (N.shiftr (2 ^ 64 - 1) 1) |} in
      let '(rest, total) := build_lines bs n' (S i) (cum + r) in
      (entry :: rest, total)
  end.

Definition nlines (size : nat) : nat := (size + LINE - 1) / LINE.

(* build_select_cache *)
Fixpoint sel_scan (cache : list rc) (nl : nat) (is1 : bool) (j : nat) (fuel k : nat) : nat :=
  match fuel with
  | O => k
  | S f =>
      if k <? nl then
        let b := base (nth k cache {| base := 0; rela := 0 |}) in
        let rank_at_k := if is1 then b else k * LINE - b in
        if (if is1 then LINE * j <=? rank_at_k else LINE * j <? rank_at_k) then k
        else sel_scan cache nl is1 j f (S k)
      else k
  end.
Fixpoint sel_fill (cache : list rc) (nl : nat) (is1 : bool) (n j prev : nat) : list nat :=
  match n with
  | O => []
  | S n' => let k := sel_scan cache nl is1 j (S nl) prev in k :: sel_fill cache nl is1 n' (S j) k
  end.
Definition build_select_cache (cache : list rc) (max_rank nl : nat) (is1 : bool) : list nat :=
  let slots := (max_rank + LINE - 1) / LINE in
  (* cache[0] = 0; cache[1..slots) by scanning; cache[slots] = nlines *)
  if slots =? 0 then [nl]
  else 0 :: sel_fill cache nl is1 (slots - 1) 1 0 ++ [nl].

Record se512 := {
  bits : list bool; size : nat; cache : list rc;
  sel0 : option (list nat); sel1 : option (list nat);
  max_rank0 : nat; max_rank1 : nat }.

Definition build (bs : list bool) (speed0 speed1 : bool) : se512 :=
  let sz := length bs in
  let nl := nlines sz in
  let '(lines, cum) := build_lines bs nl 0 0 in
  let cache := lines ++ [{| base := cum; rela := 0 |}] in
  let mr1 := cum in
  let mr0 := sz - mr1 in
  {| bits := bs; size := sz; cache := cache;
     sel0 := if speed0 && (0 <? mr0) then Some (build_select_cache cache mr0 nl false) else None;
     sel1 := if speed1 && (0 <? mr1) then Some (build_select_cache cache mr1 nl true) else None;
     max_rank0 := mr0; max_rank1 := mr1 |}.

Definition dflt : rc := {| base := 0; rela := 0 |}.

Definition se_rank1 (s : se512) (bitpos : nat) : option nat :=
  if size s <? bitpos then None          (* assert!(bitpos <= self.size) *)
  else if bitpos =? 0 then Some 0
  else
    let block := bitpos / LINE in
    let c := nth block (cache s) dflt in
    let k := (bitpos mod LINE) / 64 in
    Some (base c + get_rela (rela c) k + popcount_trail (word (bits s) (bitpos / 64)) (bitpos mod 64)).

Definition se_rank0 (s : se512) (pos : nat) : option nat :=
  match se_rank1 s pos with Some r => Some (pos - r) | None => None end.

Definition se_get (s : se512) (i : nat) : option bool :=
  if size s <=? i then None else Some (nth (i mod 64) (word (bits s) (i / 64)) false).

Fixpoint ub_loop (s : se512) (rank : nat) (is1 : bool) (fuel lo hi : nat) : nat :=
  match fuel with
  | O => lo
  | S f =>
      if lo <? hi then
        let mid := (lo + hi) / 2 in
        let b := base (nth mid (cache s) dflt) in
        let val := if is1 then b else mid * LINE - b in
        if val <=? rank then ub_loop s rank is1 f (S mid) hi else ub_loop s rank is1 f lo mid
      else lo
  end.
Definition upper_bound (s : se512) (rank : nat) (is1 : bool) : nat :=
  let '(lo, hi) :=
    match (if is1 then sel1 s else sel0 s) with
    | Some c => let slot := rank / LINE in (nth slot c 0, nth (S slot) c 0)
    | None => (0, length (cache s) - 1)
    end in
  ub_loop s rank is1 (S (length (cache s))) lo hi.

(* for j in (0..8).rev() *)
Fixpoint scan1 (s : se512) (block target : nat) (c : rc) (js : list nat) : option nat :=
  match js with
  | [] => None
  | j :: t =>
      let before := get_rela (rela c) j in
      if before <=? target then
        (* `if word_idx < self.bits.len()`: the word exists *)
        if block * WPL + j <? (length (bits s) + 63) / 64
        then Some (block * LINE + j * 64 + select_in_word (word (bits s) (block * WPL + j)) (target - before))
        else scan1 s block target c t
      else scan1 s block target c t
  end.
Definition se_select1 (s : se512) (k : nat) : option nat :=
  if max_rank1 s <=? k then None else
  let lo := upper_bound s k true in
  if lo =? 0 then None else
  let block := lo - 1 in
  let c := nth block (cache s) dflt in
  scan1 s block (k - base c) c (rev (seq 0 WPL)).

Fixpoint scan0 (s : se512) (block target : nat) (c : rc) (js : list nat) : option nat :=
  match js with
  | [] => None
  | j :: t =>
      let zeros_before := j * 64 - get_rela (rela c) j in
      if zeros_before <=? target then
        let w := word (bits s) (block * WPL + j) in
        (* !word: a missing or short word is padded with zero bits, which invert to ones *)
        let inv := map negb (w ++ repeat false (64 - length w)) in
        Some (block * LINE + j * 64 + select_in_word inv (target - zeros_before))
      else scan0 s block target c t
  end.
Definition se_select0 (s : se512) (k : nat) : option nat :=
  if max_rank0 s <=? k then None else
  let lo := upper_bound s k false in
  if lo =? 0 then None else
  let block := lo - 1 in
  let c := nth block (cache s) dflt in
  scan0 s block (k - (block * LINE - base c)) c (rev (seq 0 WPL)).

(* ---------- RankSelectFewOne ---------- *)
Fixpoint positions_from (bs : list bool) (i : nat) : list nat :=
  match bs with
  | [] => []
  | b :: t => if b then i :: positions_from t (S i) else positions_from t (S i)
  end.
(* partition_point(|p| p < val) on a sorted list *)
Fixpoint lower_bound (ps : list nat) (v : nat) : nat :=
  match ps with
  | [] => 0
  | p :: t => if p <? v then S (lower_bound t v) else 0
  end.
Record fewone := { positions : list nat; fsize : nat }.
Definition few_build (bs : list bool) : fewone := {| positions := positions_from bs 0; fsize := length bs |}.
Definition few_rank1 (f : fewone) (p : nat) : option nat :=
  if fsize f <? p then None else Some (lower_bound (positions f) p).
Definition few_select1 (f : fewone) (k : nat) : option nat := nth_error (positions f) k.
Definition few_get (f : fewone) (i : nat) : option bool :=
  if fsize f <=? i then None else Some (existsb (Nat.eqb i) (positions f)).

(* ---------- correspondence: bits given as a list of 0/1 (N); queries (op, arg) ----------
   op 0 rank1, 1 rank0, 2 select1, 3 select0, 4 get, 5 few rank1, 6 few select1, 7 few get,
   8 interleaved-256 rank1, 9 interleaved-256 rank0, 10 interleaved-256 get;
   observation: Z, -1 for None/Err *)
From Coq Require Import ZArith.
From ZV.C04 Require Import ModelIL.
Definition obs (o : option nat) : Z := match o with Some n => Z.of_nat n | None => (-1)%Z end.
Definition obsb (o : option bool) : Z := match o with Some true => 1 | Some false => 0 | None => (-1) end%Z.
Definition run_queries (bs : list bool) (sp0 sp1 : bool) (qs : list (N * N)) : list Z :=
  let s := build bs sp0 sp1 in
  let f := few_build bs in
  let il := il_build bs in
  map (fun '(op, a) =>
    let n := N.to_nat a in
    match op with
    | 0 => obs (se_rank1 s n)
    | 1 => obs (se_rank0 s n)
    | 2 => obs (se_select1 s n)
    | 3 => obs (se_select0 s n)
    | 4 => obsb (se_get s n)
    | 5 => obs (few_rank1 f n)
    | 6 => obs (few_select1 f n)
    | 7 => obsb (few_get f n)
    | 8 => Z.of_nat (il_rank1 il n)
    | 9 => Z.of_nat (il_rank0 il n)
    | 10 => obsb (il_get il n)
    | _ => (-9)%Z
    end%N) qs.
(* run-length encoded bit strings keep case files small: (bit, count) pairs *)
Fixpoint expand (runs : list (bool * N)) : list bool :=
  match runs with
  | [] => []
  | (b, n) :: t => repeat b (N.to_nat n) ++ expand t
  end.
